import GoomVerif.Model.A64Dec
import GoomVerif.Model.A64Full
import GoomVerif.Lemmas.C15L
/-! Helper lemmas for C17: the Arm ARM displacement formulas, the generic "first intersecting row" argument over the
    decoding table, env-independent decoding, and the scan invariants.  Kernel-only tactics. -/
namespace C17L
open Gen.A64 A64Dec

/-! ### Arm ARM formulas (DDI 0487, C6.2: B, BL, B.cond, CBZ, CBNZ, TBZ, TBNZ, ADR, ADRP, LDR (literal)) -/

/-- `SignExtend(imm26:'00', 64)`, imm26 = x<25:0> -/
def specImm26 (x : BitVec 32) : BitVec 64 := ((x.extractLsb' 0 26) ++ 0#2).signExtend 64
/-- `SignExtend(imm19:'00', 64)`, imm19 = x<23:5> -/
def specImm19 (x : BitVec 32) : BitVec 64 := ((x.extractLsb' 5 19) ++ 0#2).signExtend 64
/-- `SignExtend(imm14:'00', 64)`, imm14 = x<18:5> -/
def specImm14 (x : BitVec 32) : BitVec 64 := ((x.extractLsb' 5 14) ++ 0#2).signExtend 64
/-- ADR: `SignExtend(immhi:immlo, 64)`, immhi = x<23:5>, immlo = x<30:29> -/
def specAdr (x : BitVec 32) : BitVec 64 := ((x.extractLsb' 5 19) ++ (x.extractLsb' 29 2)).signExtend 64
/-- ADRP: `SignExtend(immhi:immlo:Zeros(12), 64)` -/
def specAdrp (x : BitVec 32) : BitVec 64 := ((x.extractLsb' 5 19) ++ (x.extractLsb' 29 2) ++ 0#12).signExtend 64

theorem and_mask (x : BitVec 32) (k : Nat) (m : BitVec 32) (hm : m.toNat = 2 ^ k - 1) : (x &&& m).toNat = x.toNat % 2 ^ k := by
  rw [BitVec.toNat_and, hm, Nat.and_two_pow_sub_one_eq_mod]

theorem m26 (x : BitVec 32) : (x &&& 0x3ffffff#32).toNat = x.toNat % 2 ^ 26 := and_mask x 26 _ (by decide)
theorem m19 (x : BitVec 32) : (x &&& 0x7ffff#32).toNat = x.toNat % 2 ^ 19 := and_mask x 19 _ (by decide)
theorem m14 (x : BitVec 32) : (x &&& 0x3fff#32).toNat = x.toNat % 2 ^ 14 := and_mask x 14 _ (by decide)
theorem m2 (x : BitVec 32) : (x &&& 0x3#32).toNat = x.toNat % 2 ^ 2 := and_mask x 2 _ (by decide)

theorem slabel26_spec (x : BitVec 32) : slabel_imm26_2 x = specImm26 x := by
  apply BitVec.eq_of_toInt_eq
  unfold slabel_imm26_2 specImm26
  rw [BitVec.toInt_sshiftRight, BitVec.toInt_signExtend_of_le (by omega)]
  simp only [BitVec.toInt_eq_toNat_bmod, BitVec.toNat_shiftLeft, BitVec.toNat_setWidth, BitVec.toNat_append, BitVec.extractLsb'_toNat,
    m26, Nat.shiftLeft_eq, Int.shiftRight_eq_div_pow, Int.bmod_def, BitVec.toNat_ofNat, Nat.shiftRight_zero, Nat.zero_mod, Nat.or_zero]
  have := x.isLt
  omega

theorem slabel19_spec (x : BitVec 32) : slabel_imm19_2 x = specImm19 x := by
  apply BitVec.eq_of_toInt_eq
  unfold slabel_imm19_2 specImm19
  rw [BitVec.toInt_sshiftRight, BitVec.toInt_signExtend_of_le (by omega)]
  simp only [BitVec.toInt_eq_toNat_bmod, BitVec.toNat_shiftLeft, BitVec.toNat_setWidth, BitVec.toNat_append, BitVec.extractLsb'_toNat,
    m19, BitVec.toNat_ushiftRight, Nat.shiftLeft_eq, Nat.shiftRight_eq_div_pow, Int.shiftRight_eq_div_pow, Int.bmod_def, BitVec.toNat_ofNat,
    Nat.zero_mod, Nat.or_zero]
  have := x.isLt
  omega

theorem slabel14_spec (x : BitVec 32) : slabel_imm14_2 x = specImm14 x := by
  apply BitVec.eq_of_toInt_eq
  unfold slabel_imm14_2 specImm14
  rw [BitVec.toInt_sshiftRight, BitVec.toInt_signExtend_of_le (by omega)]
  simp only [BitVec.toInt_eq_toNat_bmod, BitVec.toNat_shiftLeft, BitVec.toNat_setWidth, BitVec.toNat_append, BitVec.extractLsb'_toNat,
    m14, BitVec.toNat_ushiftRight, Nat.shiftLeft_eq, Nat.shiftRight_eq_div_pow, Int.shiftRight_eq_div_pow, Int.bmod_def, BitVec.toNat_ofNat,
    Nat.zero_mod, Nat.or_zero]
  have := x.isLt
  omega

/-- the 21-bit field `immhi<<2 | immlo` as a number -/
theorem immhilo_toNat (x : BitVec 32) :
    ((((x >>> 5) &&& 0x7ffff#32) <<< 2) ||| ((x >>> 29) &&& 0x3#32)).toNat = (x.toNat / 2 ^ 5 % 2 ^ 19) * 4 + x.toNat / 2 ^ 29 % 4 := by
  rw [BitVec.or_comm, C15L.or_toNat_disjoint _ _ 2]
  · simp only [m2, m19, BitVec.toNat_shiftLeft, BitVec.toNat_ushiftRight, Nat.shiftLeft_eq, Nat.shiftRight_eq_div_pow]
    have := x.isLt
    omega
  · simp only [m2, BitVec.toNat_ushiftRight, Nat.shiftRight_eq_div_pow]; omega
  · simp only [m19, BitVec.toNat_shiftLeft, BitVec.toNat_ushiftRight, Nat.shiftLeft_eq, Nat.shiftRight_eq_div_pow]; omega

theorem hilo_nat (a b : Nat) (hb : b < 4) : a * 2 ^ 2 ||| b = a * 4 + b := by
  rw [← Nat.shiftLeft_eq, ← Nat.shiftLeft_add_eq_or_of_lt (by omega : b < 2 ^ 2), Nat.shiftLeft_eq]

theorem slabelAdr_spec (x : BitVec 32) : slabel_immhi_immlo_0 x = specAdr x := by
  apply BitVec.eq_of_toInt_eq
  unfold slabel_immhi_immlo_0 specAdr
  rw [BitVec.toInt_sshiftRight, BitVec.toInt_signExtend_of_le (by omega)]
  simp only [BitVec.toInt_eq_toNat_bmod, BitVec.toNat_shiftLeft, BitVec.toNat_setWidth, BitVec.toNat_append, BitVec.extractLsb'_toNat,
    immhilo_toNat, Nat.shiftLeft_eq, Nat.shiftRight_eq_div_pow, Int.shiftRight_eq_div_pow, Int.bmod_def]
  rw [hilo_nat _ _ (by omega)]
  have := x.isLt
  omega

theorem slabelAdrp_spec (x : BitVec 32) : slabel_immhi_immlo_12 x = specAdrp x := by
  apply BitVec.eq_of_toInt_eq
  unfold slabel_immhi_immlo_12 specAdrp
  rw [BitVec.toInt_sshiftRight, BitVec.toInt_signExtend_of_le (by omega)]
  simp only [BitVec.toInt_eq_toNat_bmod, BitVec.toNat_shiftLeft, BitVec.toNat_setWidth, BitVec.toNat_append, BitVec.extractLsb'_toNat,
    immhilo_toNat, Nat.shiftLeft_eq, Nat.shiftRight_eq_div_pow, Int.shiftRight_eq_div_pow, Int.bmod_def, BitVec.toNat_ofNat,
    Nat.zero_mod, Nat.or_zero]
  rw [hilo_nat _ _ (by omega)]
  have := x.isLt
  omega

/-! ### the first-match search over the table -/

/-- the encodings of row `r` intersect the class `x &&& m = v` -/
def overlaps (m v : BitVec 32) (r : Row) : Bool := (r.value ^^^ v) &&& (r.mask &&& m) == 0#32

/-- first row (with its index) whose encodings intersect the class -/
def firstHit (m v : BitVec 32) : List Row → Nat → Option (Nat × Row)
  | [], _ => none
  | r :: rs, i => if overlaps m v r then some (i, r) else firstHit m v rs (i + 1)

/-- a word of the class that matches row (rm, rv) witnesses that the row intersects the class -/
theorem overlap_of_match (x m v rm rv : BitVec 32) (h1 : x &&& m = v) (h2 : x &&& rm = rv) :
    (rv ^^^ v) &&& (rm &&& m) = 0#32 := by
  subst h1 h2
  ext i hi
  simp only [BitVec.getElem_and, BitVec.getElem_xor, BitVec.getElem_zero]
  cases x[i] <;> cases m[i] <;> cases rm[i] <;> rfl

/-- a word of the class matches a row that covers the class -/
theorem match_of_cover (x m v rm rv : BitVec 32) (hx : x &&& m = v) (h1 : rm &&& m = rm) (h2 : v &&& rm = rv) : x &&& rm = rv := by
  rw [← h2, ← hx, BitVec.and_assoc, BitVec.and_comm m rm, h1]

theorem decodeArgs_interpreted (env : Env) (row : Nat) (x : BitVec 32) :
    ∀ ks, argsInterpreted ks = true → decodeArgs env row ks x = some (argsOf ks x) := by
  intro ks
  induction ks with
  | nil => intro _; rfl
  | cons k ks ih =>
    intro h
    unfold argsInterpreted at h
    unfold decodeArgs argsOf
    by_cases hk : k = 0
    · simp [hk]
    · simp only [hk, if_false, Bool.and_eq_true] at h ⊢
      obtain ⟨h1, h2⟩ := h
      have : ∃ a, interp k x = some a := by
        unfold interpreted at h1
        unfold interp
        cases hk' : kindOf k with
        | none => simp [hk'] at h1
        | some kd => exact ⟨_, rfl⟩
      obtain ⟨a, ha⟩ := this
      simp [decodeArg, ha, ih h2]

/-- rows that do not intersect the class are skipped for every word of the class; the first intersecting row, if it
    covers the class, has no predicate and only interpreted kinds, is the one `Decode` returns — whatever the oracle. -/
theorem decodeFrom_firstHit (env : Env) (m v x : BitVec 32) (hx : x &&& m = v) :
    ∀ rows i j r, firstHit m v rows i = some (j, r) → r.mask &&& m = r.mask → v &&& r.mask = r.value → r.cond = false →
      argsInterpreted r.args = true → decodeFrom env rows i x = some ⟨j, r.op, argsOf r.args x⟩ := by
  intro rows
  induction rows with
  | nil => intro i j r h; simp [firstHit] at h
  | cons r0 rs ih =>
    intro i j r h hc1 hc2 hcond hargs
    unfold firstHit at h
    unfold decodeFrom
    by_cases ho : overlaps m v r0 = true
    · simp only [ho, if_true, Option.some.injEq, Prod.mk.injEq] at h
      obtain ⟨rfl, rfl⟩ := h
      have hm := match_of_cover x m v r0.mask r0.value hx hc1 hc2
      simp [hm, hcond, decodeArgs_interpreted env i x r0.args hargs]
    · simp only [ho] at h
      have hne : x &&& r0.mask ≠ r0.value := by
        intro hmm
        apply ho
        have := overlap_of_match x m v r0.mask r0.value hx hmm
        simp [overlaps, this]
      simp only [bne_iff_ne, ne_eq, hne, not_false_eq_true, if_true]
      exact ih (i + 1) j r (by simpa using h) hc1 hc2 hcond hargs

/-- what `decide` checks on the regenerated table for a class (m, v): the first row intersecting the class covers it, has
    no `canDecode`, carries opcode `name` and exactly the argument kinds `kinds` (all interpreted by the model). -/
def classCheck (m v : BitVec 32) (name : String) (kinds : List Nat) : Bool :=
  match firstHit m v table 0 with
  | some (_, r) => (r.mask &&& m == r.mask) && (v &&& r.mask == r.value) && !r.cond && (opName r.op == name) && (r.args == kinds) && argsInterpreted kinds
  | none => false

theorem decode_class (env : Env) (m v : BitVec 32) (name : String) (kinds : List Nat) (hc : classCheck m v name kinds = true)
    (x : BitVec 32) (hx : x &&& m = v) : ∃ r, decode env x = some r ∧ opName r.op = name ∧ r.args = argsOf kinds x := by
  unfold classCheck at hc
  split at hc
  · rename_i j r hf
    simp only [Bool.and_eq_true, beq_iff_eq, Bool.not_eq_true'] at hc
    obtain ⟨⟨⟨⟨⟨h1, h2⟩, h3⟩, h4⟩, h5⟩, h6⟩ := hc
    refine ⟨⟨j, r.op, argsOf r.args x⟩, ?_, h4, by simp [h5]⟩
    exact decodeFrom_firstHit env m v x hx table 0 j r hf h1 h2 h3 (by rw [h5]; exact h6)
  · simp at hc

/-! ### facts about every successful decode -/

theorem decodeFrom_row (env : Env) (x : BitVec 32) : ∀ rows i r, decodeFrom env rows i x = some r →
    ∃ row ∈ rows, row.op = r.op ∧ x &&& row.mask = row.value ∧ decodeArgs env r.row row.args x = some r.args := by
  intro rows
  induction rows with
  | nil => intro i r h; simp [decodeFrom] at h
  | cons r0 rs ih =>
    intro i r h
    unfold decodeFrom at h
    split at h
    · obtain ⟨row, hm, h1⟩ := ih _ _ h; exact ⟨row, List.mem_cons_of_mem _ hm, h1⟩
    · rename_i hmatch
      split at h
      · obtain ⟨row, hm, h1⟩ := ih _ _ h; exact ⟨row, List.mem_cons_of_mem _ hm, h1⟩
      · split at h
        · obtain ⟨row, hm, h1⟩ := ih _ _ h; exact ⟨row, List.mem_cons_of_mem _ hm, h1⟩
        · rename_i as has
          simp only [Option.some.injEq] at h
          subst h
          exact ⟨r0, List.mem_cons_self, rfl, by simpa using hmatch, has⟩

/-- a class no table row intersects is undecodable, whatever the oracle -/
theorem decodeFrom_noHit (env : Env) (m v x : BitVec 32) (hx : x &&& m = v) :
    ∀ rows i, firstHit m v rows i = none → decodeFrom env rows i x = none := by
  intro rows
  induction rows with
  | nil => intro i _; rfl
  | cons r0 rs ih =>
    intro i h
    unfold firstHit at h
    by_cases ho : overlaps m v r0 = true
    · simp [ho] at h
    · simp only [ho] at h
      have hne : x &&& r0.mask ≠ r0.value := by
        intro hmm
        apply ho
        have := overlap_of_match x m v r0.mask r0.value hx hmm
        simp [overlaps, this]
      unfold decodeFrom
      simp only [bne_iff_ne, ne_eq, hne, not_false_eq_true, if_true]
      exact ih (i + 1) (by simpa using h)

/-- env-independent decoding is sound for every oracle -/
theorem decodeDefFrom_sound (env : Env) (x : BitVec 32) : ∀ rows i r, decodeDefFrom rows i x = some r → decodeFrom env rows i x = r := by
  intro rows
  induction rows with
  | nil => intro i r h; simp [decodeDefFrom] at h; simp [decodeFrom, h]
  | cons r0 rs ih =>
    intro i r h
    unfold decodeDefFrom at h
    unfold decodeFrom
    split at h
    · rename_i hm; simp only [hm, if_true]; exact ih _ _ h
    · rename_i hm
      split at h
      · rename_i hc
        split at h
        · simp at h
        · rename_i f hf
          split at h
          · rename_i hfx
            split at h
            · rename_i ha
              simp only [Option.some.injEq] at h
              simp [hm, hc, condVal, hf, hfx, decodeArgs_interpreted env i x r0.args ha, h]
            · simp at h
          · rename_i hfx
            simp only [hm, hc, condVal, hf, hfx, Bool.true_and, Bool.not_false, if_true, Bool.false_eq_true, if_false]
            exact ih _ _ h
      · rename_i hc
        split at h
        · simp at h
        · rename_i ha
          simp only [Bool.not_eq_true', Bool.not_eq_false] at ha
          simp only [Option.some.injEq] at h
          simp [hm, hc, decodeArgs_interpreted env i x r0.args ha, h]

/-- first row intersecting the class, with the rest of the table from it on -/
def firstHitRest (m v : BitVec 32) : List Row → Nat → Option (Nat × List Row)
  | [], _ => none
  | r :: rs, i => if overlaps m v r then some (i, r :: rs) else firstHitRest m v rs (i + 1)

/-- for a word of the class the search may start at the first intersecting row -/
theorem decodeFrom_firstHitRest (env : Env) (m v x : BitVec 32) (hx : x &&& m = v) :
    ∀ rows i j suf, firstHitRest m v rows i = some (j, suf) → decodeFrom env rows i x = decodeFrom env suf j x := by
  intro rows
  induction rows with
  | nil => intro i j suf h; simp [firstHitRest] at h
  | cons r0 rs ih =>
    intro i j suf h
    unfold firstHitRest at h
    by_cases ho : overlaps m v r0 = true
    · simp only [ho, if_true, Option.some.injEq, Prod.mk.injEq] at h
      obtain ⟨rfl, rfl⟩ := h
      rfl
    · simp only [ho] at h
      have hne : x &&& r0.mask ≠ r0.value := by
        intro hmm
        apply ho
        have := overlap_of_match x m v r0.mask r0.value hx hmm
        simp [overlaps, this]
      conv => lhs; unfold decodeFrom
      simp only [bne_iff_ne, ne_eq, hne, not_false_eq_true, if_true]
      exact ih (i + 1) j suf (by simpa using h)

/-- row `r` covers the class: every word of the class matches its mask/value -/
def covers (m v : BitVec 32) (r : Row) : Bool := (r.mask &&& m == r.mask) && (v &&& r.mask == r.value)

/-- what `decide` checks for a class whose first intersecting row is an ALIAS with an interpreted `canDecode` (id `c`) and whose
    next row is the plain encoding: both cover the class, both have only interpreted argument kinds -/
def classCheck2 (m v : BitVec 32) (c : Nat) (n1 : String) (k1 : List Nat) (n2 : String) (k2 : List Nat) : Bool :=
  match firstHitRest m v table 0 with
  | some (_, r1 :: r2 :: _) =>
    covers m v r1 && r1.cond && (r1.condId == c) && (opName r1.op == n1) && (r1.args == k1) && argsInterpreted k1 &&
    covers m v r2 && !r2.cond && (opName r2.op == n2) && (r2.args == k2) && argsInterpreted k2
  | _ => false

theorem decode_class2 (env : Env) (m v : BitVec 32) (c : Nat) (f : BitVec 32 → Bool) (hf : interpCond c = some f)
    (n1 : String) (k1 : List Nat) (n2 : String) (k2 : List Nat) (hc : classCheck2 m v c n1 k1 n2 k2 = true)
    (x : BitVec 32) (hx : x &&& m = v) :
    ∃ r, decode env x = some r ∧
      (if f x then opName r.op = n1 ∧ r.args = argsOf k1 x else opName r.op = n2 ∧ r.args = argsOf k2 x) := by
  unfold classCheck2 at hc
  split at hc
  · rename_i j r1 r2 rest hfr
    simp only [Bool.and_eq_true, beq_iff_eq, Bool.not_eq_true', covers] at hc
    obtain ⟨⟨⟨⟨⟨⟨⟨⟨⟨⟨⟨a1, a2⟩, a3⟩, a4⟩, a5⟩, a6⟩, a7⟩, ⟨b1, b2⟩⟩, b3⟩, b5⟩, b6⟩, b7⟩ := hc
    have hm1 := match_of_cover x m v r1.mask r1.value hx a1 a2
    have hm2 := match_of_cover x m v r2.mask r2.value hx b1 b2
    have hd := decodeFrom_firstHitRest env m v x hx table 0 j _ hfr
    unfold decode
    rw [hd]
    by_cases hfx : f x = true
    · refine ⟨⟨j, r1.op, argsOf r1.args x⟩, ?_, ?_⟩
      · unfold decodeFrom
        simp [hm1, a3, condVal, a4, hf, hfx, decodeArgs_interpreted env j x r1.args (by rw [a6]; exact a7)]
      · simp [hfx, a5, a6]
    · refine ⟨⟨j + 1, r2.op, argsOf r2.args x⟩, ?_, ?_⟩
      · unfold decodeFrom
        simp only [hm1, a3, condVal, a4, hf, hfx]
        unfold decodeFrom
        simp [hm2, b3, decodeArgs_interpreted env (j + 1) x r2.args (by rw [b6]; exact b7)]
      · simp [hfx, b5, b6]
  · simp at hc

/-! ### scans -/

theorem innerTarget_eq (start : BitVec 64) (c : Nat) (d a : BitVec 64) (h : innerTarget start c d = some a) :
    a = start + BitVec.ofNat 64 c + d := by
  unfold innerTarget at h
  split at h
  · simpa using h.symm
  · split at h
    · simp only [Option.some.injEq] at h
      rw [← h, BitVec.sub_eq_add_neg, BitVec.neg_neg]
    · simp at h

theorem innerTarget_none (start : BitVec 64) (c : Nat) (d : BitVec 64) :
    innerTarget start c d = none ↔ (d.slt 0 = true ∧ (BitVec.ofNat 64 c + d).slt 0 = false) := by
  unfold innerTarget
  cases h1 : d.slt 0 <;> cases h2 : (BitVec.ofNat 64 c + d).slt 0 <;> simp

theorem callHit_some (start : BitVec 64) (c : Nat) (r : Res) (a : BitVec 64) (h : callHit start c r = some a) :
    ∃ d, isCall r.op = true ∧ r.args.head? = some (.pcrel d) ∧ innerTarget start c d = some a := by
  unfold callHit at h
  split at h
  · rename_i hc
    split at h
    · rename_i d hd; exact ⟨d, hc, hd, h⟩
    · simp at h
  · simp at h

/-- whenever GetInnerFunc returns an address, it is the one computed from a B/BL found at a word-aligned offset c' ≤ 4096, and it is
    the FIRST such: every aligned offset before c' holds a decodable word that is not a qualifying call and is not followed by the prologue -/
theorem inner_target (env : Env) (mem : Nat → BitVec 32) (start : BitVec 64) :
    ∀ fuel c z a, c ≤ 4096 → getInnerFunc env mem start fuel c z = .target a →
      ∃ c' r d, c ≤ c' ∧ (c' - c) % 4 = 0 ∧ c' ≤ 4096 ∧ decode env (mem c') = some r ∧ isCall r.op = true ∧
        r.args.head? = some (.pcrel d) ∧ innerTarget start c' d = some a ∧
        (∀ k, c ≤ k → k < c' → (k - c) % 4 = 0 →
          ∃ rk, decode env (mem k) = some rk ∧ callHit start k rk = none ∧ prologueAt mem (k + 4) = false) := by
  intro fuel
  induction fuel with
  | zero => intro c z a _ h; simp [getInnerFunc] at h
  | succ fuel ih =>
    intro c z a hc h
    unfold getInnerFunc at h
    split at h
    · simp at h
    · rename_i r hr
      simp only at h
      split at h
      · simp at h
      · split at h
        · rename_i a' ha
          simp only [Inner.target.injEq] at h
          subst h
          obtain ⟨d, h1, h2, h3⟩ := callHit_some start c r a' ha
          exact ⟨c, r, d, Nat.le_refl _, by simp, hc, hr, h1, h2, h3, by intro k h1 h2; omega⟩
        · rename_i hnone
          split at h
          · simp at h
          · rename_i hpro
            split at h
            · simp at h
            · rename_i hle
              obtain ⟨c', r', d, h1, h2, h3, h4, h5, h6, h7, h8⟩ := ih (c + 4) _ a (by omega) h
              refine ⟨c', r', d, by omega, by omega, h3, h4, h5, h6, h7, ?_⟩
              intro k hk1 hk2 hk3
              by_cases hkc : k = c
              · subst hkc
                exact ⟨r, hr, hnone, by simpa using hpro⟩
              · exact h8 k (by omega) hk2 (by omega)

/-- with fuel for 1026 iterations the model never runs dry (the Go loop is bounded by `curLen > 4096`) -/
theorem inner_fuel (env : Env) (mem : Nat → BitVec 32) (start : BitVec 64) :
    ∀ fuel c z, c ≤ 4100 → 4100 < c + 4 * fuel → getInnerFunc env mem start fuel c z ≠ .fuel := by
  intro fuel
  induction fuel with
  | zero => intro c z h0 h; omega
  | succ fuel ih =>
    intro c z h0 h
    unfold getInnerFunc
    split
    · simp
    · simp only
      split
      · simp
      · split
        · simp
        · split
          · simp
          · split
            · simp
            · exact ih (c + 4) _ (by omega) (by omega)

/-- GetFuncSize: the value returned is the offset of the first undecodable word, or of a prologue found after at least
    one decodable word — given that no decode yields Op 0 (proved of the table in Props/C17) -/
theorem funcSize_extent (env : Env) (mem : Nat → BitVec 32) (minimal : Bool)
    (hop : ∀ w r, decode env w = some r → r.op ≠ 0) :
    ∀ fuel c n, getFuncSize env mem minimal fuel c false = some n →
      c ≤ n ∧ (n - c) % 4 = 0 ∧ (∀ k, c ≤ k → k < n → (k - c) % 4 = 0 → (decode env (mem k)).isSome = true) ∧
      (decode env (mem n) = none ∨ (c < n ∧ prologueAt mem n = true)) ∧
      (∀ k, c < k → k < n → (k - c) % 4 = 0 → prologueAt mem k = false) := by
  intro fuel
  induction fuel with
  | zero => intro c n h; simp [getFuncSize] at h
  | succ fuel ih =>
    intro c n h
    unfold getFuncSize at h
    split at h
    · rename_i hd
      simp only [Option.some.injEq] at h
      subst h
      exact ⟨Nat.le_refl _, by simp, by intro k h1 h2; omega, Or.inl hd, by intro k h1 h2; omega⟩
    · rename_i r hr
      have hz : isInt0 r (mem c) = false := by
        have := hop _ _ hr
        simp [isInt0, this]
      simp only [hz, Bool.false_and, Bool.not_false, Bool.true_and, Bool.or_false, Bool.false_eq_true, if_false] at h
      split at h
      · rename_i hp
        simp only [Option.some.injEq] at h
        subst h
        refine ⟨by omega, by omega, ?_, Or.inr ⟨by omega, hp⟩, by intro k h1 h2 h3; omega⟩
        intro k h1 h2 h3
        have : k = c := by omega
        subst this
        simp [hr]
      · rename_i hp
        obtain ⟨h1, h2, h3, h4, h5⟩ := ih (c + 4) n h
        refine ⟨by omega, by omega, ?_, ?_, ?_⟩
        · intro k hk1 hk2 hk3
          by_cases hkc : k = c
          · subst hkc; simp [hr]
          · exact h3 k (by omega) hk2 (by omega)
        · cases h4 with
          | inl h => exact Or.inl h
          | inr h => exact Or.inr ⟨by omega, h.2⟩
        · intro k hk1 hk2 hk3
          by_cases hkc : k = c + 4
          · subst hkc; simpa using hp
          · exact h5 k (by omega) hk2 (by omega)

/-- register-size bit `sf` / `b5` = bit 31 -/
def bit31 (x : BitVec 32) : Bool := ((x >>> 31) &&& 1#32) != 0#32

theorem bit31_cases (x : BitVec 32) : x &&& 0x80000000#32 = 0#32 ∧ bit31 x = false ∨ x &&& 0x80000000#32 = 0x80000000#32 ∧ bit31 x = true := by
  have h : (0x80000000#32) = BitVec.twoPow 32 31 := by decide
  have hg : x.getLsbD 31 = x[31] := BitVec.getLsbD_eq_getElem (by omega)
  have hb : bit31 x = x[31] := by
    unfold bit31
    have : (x >>> 31) &&& 1#32 = if x[31] then 1#32 else 0#32 := by
      ext i hi
      by_cases h0 : i = 0
      · subst h0; cases hx : x[31] <;> simp [hx, BitVec.getElem_ushiftRight]
      · cases hx : x[31] <;> simp [BitVec.getElem_one, h0]
    rw [this]
    cases x[31] <;> decide
  rw [h, BitVec.and_twoPow, hb, hg]
  cases x[31] <;> simp

/-- splitting the 1-bit `sf` out of a class mask -/
theorem split_sf (x v : BitVec 32) (hx : x &&& 0x7f000000#32 = v) :
    (x &&& 0xff000000#32 = v ∧ bit31 x = false) ∨ (x &&& 0xff000000#32 = v ||| 0x80000000#32 ∧ bit31 x = true) := by
  have hm : (0xff000000#32) = 0x7f000000#32 ||| 0x80000000#32 := by decide
  rcases bit31_cases x with ⟨h, hb⟩ | ⟨h, hb⟩
  · left; refine ⟨?_, hb⟩; rw [hm, BitVec.and_or_distrib_left, hx, h]; simp
  · right; refine ⟨?_, hb⟩; rw [hm, BitVec.and_or_distrib_left, hx, h]

/-! ### the words goom itself emits on arm64 (monkey_arm64.go / jmp_arm64.go `movImm`) -/


theorem himask23 (x : BitVec 32) : x &&& 0xff800000#32 = (x >>> 23) <<< 23 := by
  have h : (0xff800000#32) = BitVec.allOnes 32 <<< 23 := by decide
  rw [h]
  ext i hi
  simp only [BitVec.getElem_and, BitVec.getElem_shiftLeft, BitVec.getElem_allOnes, BitVec.getElem_ushiftRight]
  by_cases h23 : i < 23
  · simp [h23]
  · simp [h23]; congr 1; omega

/-- the move-wide word `movImm` builds (C15L.movImm_word), as a number -/
def movN (opc h v : Nat) : Nat := 2^31 + opc * 2^29 + 37 * 2^23 + h * 2^21 + v * 32 + 26

theorem movword_class (opc h v : Nat) (_ho : opc < 4) (hh : h < 4) (hv : v < 65536) :
    BitVec.ofNat 32 (movN opc h v) &&& 0xff800000#32 = BitVec.ofNat 32 ((256 + opc * 64 + 37) * 2^23) := by
  rw [himask23]
  apply BitVec.eq_of_toNat_eq
  simp only [BitVec.toNat_shiftLeft, BitVec.toNat_ushiftRight, BitVec.toNat_ofNat, Nat.shiftLeft_eq, Nat.shiftRight_eq_div_pow, movN]
  omega

theorem movword_fields (opc h v : Nat) (_ho : opc < 4) (hh : h < 4) (hv : v < 65536) :
    r5 (BitVec.ofNat 32 (movN opc h v)) 0 = 26 ∧ (imm16 (BitVec.ofNat 32 (movN opc h v))).toNat = v ∧
    (hw (BitVec.ofNat 32 (movN opc h v))).toNat = h := by
  have m5 : ∀ y : BitVec 32, (y &&& 0x1f#32).toNat = y.toNat % 2^5 := fun y => and_mask y 5 _ (by decide)
  have m16 : ∀ y : BitVec 32, (y &&& 0xffff#32).toNat = y.toNat % 2^16 := fun y => and_mask y 16 _ (by decide)
  refine ⟨?_, ?_, ?_⟩
  · simp only [r5, m5, BitVec.toNat_ushiftRight, BitVec.toNat_ofNat, Nat.shiftRight_zero, movN]; omega
  · simp only [imm16, m16, BitVec.toNat_ushiftRight, BitVec.toNat_ofNat, Nat.shiftRight_eq_div_pow, movN]; omega
  · simp only [hw, m2, BitVec.toNat_ushiftRight, BitVec.toNat_ofNat, Nat.shiftRight_eq_div_pow, movN]; omega

/-! ### the oracle-free model (Model/A64Full over the mechanically translated Gen.A64Args) -/

/-- for kinds whose translated case is panic-free the fallback oracle is never consulted -/
theorem genEnv_argOk_indep (fb1 fb2 : Env) (i k : Nat) (x : BitVec 32) (hk : k ∉ Gen.A64Args.badKinds) :
    (genEnv fb1).argOk i k x = (genEnv fb2).argOk i k x := by
  rcases Gen.A64Args.decodeArgOut_ok k x hk with h | h <;> simp [genEnv, h]

theorem decodeArgs_genEnv_indep (fb1 fb2 : Env) (i : Nat) (x : BitVec 32) :
    ∀ ks : List Nat, (∀ k ∈ ks, k ∉ Gen.A64Args.badKinds) → decodeArgs (genEnv fb1) i ks x = decodeArgs (genEnv fb2) i ks x := by
  intro ks
  induction ks with
  | nil => intro _; rfl
  | cons k ks ih =>
    intro h
    unfold decodeArgs
    by_cases hk0 : k = 0
    · simp [hk0]
    · have h1 := genEnv_argOk_indep fb1 fb2 i k x (h k List.mem_cons_self)
      have h2 := ih (fun k' hk' => h k' (List.mem_cons_of_mem _ hk'))
      simp only [hk0, if_false, decodeArg, h1, h2]

theorem decodeFrom_genEnv_indep (fb1 fb2 : Env) (x : BitVec 32)
    (hc : ∀ i c x, genCond c = none → fb1.condOk i c x = fb2.condOk i c x) :
    ∀ rows i, (∀ r ∈ rows, ∀ k ∈ r.args, k ∉ Gen.A64Args.badKinds) →
      decodeFrom (genEnv fb1) rows i x = decodeFrom (genEnv fb2) rows i x := by
  intro rows
  induction rows with
  | nil => intro i _; rfl
  | cons r rs ih =>
    intro i h
    have hargs := decodeArgs_genEnv_indep fb1 fb2 i x r.args (h r List.mem_cons_self)
    have hrest := ih (i + 1) (fun r' hr' => h r' (List.mem_cons_of_mem _ hr'))
    have hcond : condVal (genEnv fb1) i r.condId x = condVal (genEnv fb2) i r.condId x := by
      unfold condVal
      split
      · rfl
      · simp only [genEnv]
        cases hg : genCond r.condId with
        | some f => rfl
        | none => exact hc i r.condId x hg
    unfold decodeFrom
    rw [hcond, hargs, hrest]

end C17L
