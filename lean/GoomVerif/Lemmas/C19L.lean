import GoomVerif.Model.Debug
/-! Helper lemmas for C19: SprintV totality, reflect forwarding, and the simulation between a run with debug
    wrappers and the run without them. -/
namespace C19L
open Debug

/-! ### SprintV -/

theorem sprint1_congr (r r' : Val → Option String) (a : Val)
    (h : guardedNil a = false → r a = r' a) : sprint1 r a = sprint1 r' a := by
  unfold sprint1
  cases hg : guardedNil a with
  | true => simp
  | false => simp [h hg]

theorem sprintPieces_congr (r r' : Val → Option String) :
    ∀ ps : List Val, (∀ a ∈ ps, guardedNil a = false → r a = r' a) → sprintPieces r ps = sprintPieces r' ps
  | [], _ => rfl
  | a :: rest, h => by
    have h1 : sprint1 r a = sprint1 r' a := sprint1_congr r r' a (h a (List.mem_cons_self ..))
    have h2 : sprintPieces r rest = sprintPieces r' rest :=
      sprintPieces_congr r r' rest (fun b hb => h b (List.mem_cons_of_mem _ hb))
    simp only [sprintPieces, h1, h2]

theorem sprintPieces_some (r : Val → Option String) :
    ∀ ps : List Val, (∀ a ∈ ps, guardedNil a = false → (r a).isSome) → (sprintPieces r ps).isSome
  | [], _ => rfl
  | a :: rest, h => by
    have h2 := sprintPieces_some r rest (fun b hb => h b (List.mem_cons_of_mem _ hb))
    have h1 : (sprint1 r a).isSome := by
      unfold sprint1
      cases hg : guardedNil a with
      | true => simp
      | false => simpa using h a (List.mem_cons_self ..) hg
    unfold sprintPieces
    cases h1' : sprint1 r a with
    | none => simp [h1'] at h1
    | some p =>
      cases h2' : sprintPieces r rest with
      | none => simp [h2'] at h2
      | some q => simp

theorem sprintV_some_of_total (r : Val → Option String) (tot : ∀ v, (r v).isSome) (ps : List Val) :
    ∃ s, sprintV r ps = some s := by
  have h := sprintPieces_some r ps (fun a _ _ => tot a)
  unfold sprintV
  cases hp : sprintPieces r ps with
  | none => simp [hp] at h
  | some q => exact ⟨_, rfl⟩

/-! ### reflect forwarding -/

theorem accepts_length : ∀ (ks : List Kind) (ve : Option Kind) (args : List Val),
    accepts ks ve args = true → args.length = ks.length + (if ve.isSome then 1 else 0)
  | [], none, [], _ => rfl
  | [], none, _ :: _, h => by simp [accepts] at h
  | [], some _, [], h => by simp [accepts] at h
  | [], some _, [.pack _], _ => rfl
  | [], some _, [.atom _], h => by simp [accepts] at h
  | [], some _, _ :: _ :: _, h => by simp [accepts] at h
  | _ :: _, _, [], h => by simp [accepts] at h
  | _ :: _, _, .pack _ :: _, h => by simp [accepts] at h
  | k :: ks, ve, .atom a :: vs, h => by
    simp only [accepts, Bool.and_eq_true] at h
    have := accepts_length ks ve vs h.2
    simp only [List.length_cons, this]
    omega

theorem accepts_fixedOk_none : ∀ (ks : List Kind) (args : List Val),
    accepts ks none args = true → fixedOk ks args = true
  | [], [], _ => rfl
  | [], _ :: _, h => by simp [accepts] at h
  | _ :: _, [], h => by simp [accepts] at h
  | _ :: _, .pack _ :: _, h => by simp [accepts] at h
  | k :: ks, .atom a :: vs, h => by
    simp only [accepts, Bool.and_eq_true] at h
    simp only [fixedOk, Val.kind, Bool.and_eq_true, Bool.or_eq_true]
    exact ⟨Or.inl h.1, accepts_fixedOk_none ks vs h.2⟩

theorem accepts_fixedOk_some (e : Kind) : ∀ (ks : List Kind) (args : List Val),
    accepts ks (some e) args = true →
      fixedOk ks (args.take ks.length) = true ∧ (args.drop ks.length).all (fun v => v.kind == .slice) = true
  | [], [], h => by simp [accepts] at h
  | [], [.pack _], _ => by simp [fixedOk, Val.kind]
  | [], [.atom _], h => by simp [accepts] at h
  | [], _ :: _ :: _, h => by simp [accepts] at h
  | _ :: _, [], h => by simp [accepts] at h
  | _ :: _, .pack _ :: _, h => by simp [accepts] at h
  | k :: ks, .atom a :: vs, h => by
    simp only [accepts, Bool.and_eq_true] at h
    have ih := accepts_fixedOk_some e ks vs h.2
    simp only [List.length_cons, List.take_succ_cons, List.drop_succ_cons, fixedOk, Val.kind, Bool.and_eq_true,
      Bool.or_eq_true]
    exact ⟨⟨Or.inl h.1, ih.1⟩, ih.2⟩

/-- what `Call` does with the packed vector of a variadic function: the slice is offered as ONE element -/
theorem accepts_drop_pack (e : Kind) : ∀ (ks : List Kind) (args : List Val),
    accepts ks (some e) args = true → ∃ es, args.drop ks.length = [.pack es]
  | [], [], h => by simp [accepts] at h
  | [], [.pack es], _ => ⟨es, rfl⟩
  | [], [.atom _], h => by simp [accepts] at h
  | [], _ :: _ :: _, h => by simp [accepts] at h
  | _ :: _, [], h => by simp [accepts] at h
  | _ :: _, .pack _ :: _, h => by simp [accepts] at h
  | k :: ks, .atom a :: vs, h => by
    simp only [accepts, Bool.and_eq_true] at h
    simpa using accepts_drop_pack e ks vs h.2

theorem callSlice_forward {β : Type} (sg : Sig) (f : List Val → β) (fail : String → β) (args : List Val) (e : Kind)
    (hv : sg.velem = some e) (h : sg.accepts args = true) : reflectCallSlice sg f fail args = f args := by
  unfold Sig.accepts at h
  rw [hv] at h
  have hl := accepts_length _ _ _ h
  have hk := accepts_fixedOk_some e _ _ h
  simp only [Option.isSome_some, if_true] at hl
  unfold reflectCallSlice
  rw [hv]
  simp only [hl, Nat.lt_irrefl, if_false, hk.1, hk.2, Bool.and_self, if_true]

theorem call_forward {β : Type} (sg : Sig) (f : List Val → β) (fail : String → β) (args : List Val)
    (hv : sg.velem = none) (h : sg.accepts args = true) : reflectCall sg f fail args = f args := by
  unfold Sig.accepts at h
  rw [hv] at h
  have hl := accepts_length _ _ _ h
  have hk := accepts_fixedOk_none _ _ h
  simp only [Option.isSome_none, Bool.false_eq_true, if_false, Nat.add_zero] at hl
  unfold reflectCall
  rw [hv]
  simp only [hl, Nat.lt_irrefl, if_false, hk, if_true]

/-- `Call` (instead of `CallSlice`) on the vector a variadic wrapper receives never reaches the callee -/
theorem call_on_packed_fails {β : Type} (sg : Sig) (f : List Val → β) (fail : String → β) (args : List Val) (e : Kind)
    (hv : sg.velem = some e) (h : sg.accepts args = true) :
    reflectCall sg f fail args = fail "reflect-cannot-use-as-type" := by
  unfold Sig.accepts at h
  rw [hv] at h
  have hl := accepts_length _ _ _ h
  have hk := accepts_fixedOk_some e _ _ h
  obtain ⟨es, hes⟩ := accepts_drop_pack e _ _ h
  simp only [Option.isSome_some, if_true] at hl
  unfold reflectCall
  rw [hv]
  have : ¬ (args.length < sg.params.length) := by omega
  simp only [this, if_false, hk.1, Bool.not_true, Bool.false_eq_true, hes, toElems, toElem]

/-! ### calls: what a call does to the outcome-relevant state, wrappers ignored -/

def blank (ws : WS) : St := { console := 0, loglevel := 0, ws := ws }

def coreFn (env : Env) : Fn → List Val → WS → Out × WS
| .user cb, args, ws => ((runCb env cb args false (blank ws)).1, (runCb env cb args false (blank ws)).2.ws)
| .whenFn, args, ws => mockerCallback env args ws
| .wrap f, args, ws => coreFn env f args ws

def corePF (env : Env) : PF → List Val → WS → Out × WS
| .callback, args, ws => mockerCallback env args ws
| .wrap p, args, ws => corePF env p args ws

theorem coreFn_erase (env : Env) (args : List Val) (ws : WS) : ∀ f : Fn, coreFn env f.erase args ws = coreFn env f args ws
  | .user _ => rfl
  | .whenFn => rfl
  | .wrap f => by simpa [Fn.erase, coreFn] using coreFn_erase env args ws f

theorem corePF_erase (env : Env) (args : List Val) (ws : WS) : ∀ p : PF, corePF env p.erase args ws = corePF env p args ws
  | .callback => rfl
  | .wrap p => by simpa [PF.erase, corePF] using corePF_erase env args ws p

/-- the hypotheses of the transparency theorem: fmt returns on every value (else finding F13), and the mocked
    function is not one the console logger calls itself (else finding F14) -/
structure Total (env : Env) : Prop where
  fmt : ∀ v, (env.render v).isSome = true
  /-- fmt runs no user method that records anything (else finding F27) -/
  pure : ∀ v, env.renderEvents v = []
  indep : env.loggerCalls = false

theorem userEvents_nil (env : Env) (tot : Total env) : ∀ vs : List Val, userEvents env vs = []
  | [] => rfl
  | v :: r => by
    simp only [userEvents, tot.pure v, userEvents_nil env tot r, List.append_nil]
    split <;> rfl

theorem afterCall_frame (env : Env) (tot : Total env) (args results : List Val) (s : St) :
    (afterCall env args results s).1 = .ret results ∧ (afterCall env args results s).2.ws = s.ws ∧
    (afterCall env args results s).2.inst = s.inst ∧ (afterCall env args results s).2.dead = s.dead := by
  obtain ⟨a, ha⟩ := sprintV_some_of_total env.render tot.fmt args
  obtain ⟨r, hr⟩ := sprintV_some_of_total env.render tot.fmt results
  unfold afterCall
  split
  · exact ⟨rfl, rfl, rfl, rfl⟩
  · simp only [ha, hr, consolefc, tot.indep, Bool.false_and, Bool.false_eq_true, if_false, userEvents_nil env tot, List.append_nil]
    split <;> (repeat' constructor)

theorem wrap_forward (env : Env) (args : List Val) (hacc : env.sig.accepts args = true) (g : List Val → Out × St) (s : St) :
    (if env.sig.variadic then reflectCallSlice env.sig g (failOut s) args else reflectCall env.sig g (failOut s) args) = g args := by
  cases hv : env.sig.velem with
  | none =>
    have : env.sig.variadic = false := by simp [Sig.variadic, hv]
    simp only [this, Bool.false_eq_true, if_false]
    exact call_forward _ _ _ _ hv hacc
  | some e =>
    have : env.sig.variadic = true := by simp [Sig.variadic, hv]
    simp only [this, if_true]
    exact callSlice_forward _ _ _ _ e hv hacc

theorem callFn_core (env : Env) (tot : Total env) (args : List Val) (hacc : env.sig.accepts args = true) :
    ∀ (f : Fn) (w : Bool) (s : St),
      (callFn env f args w s).1 = (coreFn env f args s.ws).1 ∧ (callFn env f args w s).2.ws = (coreFn env f args s.ws).2 ∧
      (callFn env f args w s).2.inst = s.inst ∧ (callFn env f args w s).2.dead = s.dead
  | .user cb, w, s => by
    simp only [callFn, coreFn, runCb, blank]
    cases cb.kind <;> (repeat' constructor)
  | .whenFn, w, s => by
    simp only [callFn, coreFn]
    (repeat' constructor)
  | .wrap inner, w, s => by
    have ih := callFn_core env tot args hacc inner true s
    simp only [callFn, coreFn]
    rw [wrap_forward env args hacc (fun a => callFn env inner a true s) s]
    revert ih
    cases hr : callFn env inner args true s with
    | mk o s1 =>
      intro ih
      simp only at ih
      cases o with
      | ret results =>
        have fr := afterCall_frame env tot args results s1
        simp only
        refine ⟨?_, ?_, ?_, ?_⟩
        · rw [fr.1]; exact ih.1
        · rw [fr.2.1]; exact ih.2.1
        · rw [fr.2.2.1]; exact ih.2.2.1
        · rw [fr.2.2.2]; exact ih.2.2.2
      | pan c => exact ih
      | crash => exact ih

theorem callPF_core (env : Env) (tot : Total env) (args : List Val) :
    ∀ (p : PF) (s : St),
      (callPF env p args s).1 = (corePF env p args s.ws).1 ∧ (callPF env p args s).2.ws = (corePF env p args s.ws).2 ∧
      (callPF env p args s).2.inst = s.inst ∧ (callPF env p args s).2.dead = s.dead
  | .callback, s => by
    simp only [callPF, corePF]
    (repeat' constructor)
  | .wrap inner, s => by
    have ih := callPF_core env tot args inner s
    simp only [callPF, corePF]
    revert ih
    cases hr : callPF env inner args s with
    | mk o s1 =>
      intro ih
      simp only at ih
      cases o with
      | ret results =>
        have fr := afterCall_frame env tot args results s1
        simp only
        refine ⟨?_, ?_, ?_, ?_⟩
        · rw [fr.1]; exact ih.1
        · rw [fr.2.1]; exact ih.2.1
        · rw [fr.2.2.1]; exact ih.2.2.1
        · rw [fr.2.2.2]; exact ih.2.2.2
      | pan c => exact ih
      | crash => exact ih

/-! ### the simulation: same mock state up to debug wrappers -/

/-- two states that differ only in the logger switches, the log, the wrapper bookkeeping, and in debug wrappers
    around what is installed -/
structure Sim (a b : St) : Prop where
  ws : a.ws = b.ws
  inst : a.inst.map Inst.erase = b.inst.map Inst.erase
  dead : a.dead = b.dead

theorem Sim.refl' (a : St) : Sim a a := ⟨rfl, rfl, rfl⟩

def instOf (env : Env) (imp : Fn) (pf : Option PF) : Inst :=
  match env.kind, pf with
  | .patch, _ => .fn imp
  | .iface, none => .fn imp
  | .iface, some p => .pf p

theorem install_frame (env : Env) (s : St) (imp : Fn) (pf : Option PF) :
    (install env s imp pf).ws = s.ws ∧ (install env s imp pf).dead = s.dead ∧
    (install env s imp pf).inst.map Inst.erase = some (instOf env imp pf).erase := by
  unfold install intercept instOf
  cases env.kind <;> cases s.isDebugOpen <;> cases pf <;> simp [Inst.erase, Fn.erase, PF.erase]

theorem applyReq_some (env : Env) (tot : Total env) (s : St) (imp : Fn) (pf : Option PF) :
    applyReq env s (some (imp, pf)) = install env (bumpTrace s) imp pf := by
  simp only [applyReq, tot.indep, Bool.false_and, Bool.false_eq_true, if_false]

theorem bumpTrace_frame (s : St) : (bumpTrace s).ws = s.ws ∧ (bumpTrace s).inst = s.inst ∧ (bumpTrace s).dead = s.dead := by
  unfold bumpTrace; split <;> exact ⟨rfl, rfl, rfl⟩

theorem applyReq_sim (env : Env) (tot : Total env) (a b : St) (h : Sim a b) (req : Option (Fn × Option PF)) :
    Sim (applyReq env a req) (applyReq env b req) := by
  cases req with
  | none => exact h
  | some r =>
    obtain ⟨imp, pf⟩ := r
    have fa := install_frame env (bumpTrace a) imp pf
    have fb := install_frame env (bumpTrace b) imp pf
    have ba := bumpTrace_frame a
    have bb := bumpTrace_frame b
    rw [applyReq_some env tot, applyReq_some env tot]
    exact ⟨by rw [fa.1, fb.1, ba.1, bb.1, h.ws], by rw [fa.2.2, fb.2.2], by rw [fa.2.1, fb.2.1, ba.2.2, bb.2.2, h.dead]⟩

theorem Fn_erase_inj_core (env : Env) (args : List Val) (ws : WS) (f g : Fn) (h : f.erase = g.erase) :
    coreFn env f args ws = coreFn env g args ws := by
  rw [← coreFn_erase env args ws f, ← coreFn_erase env args ws g, h]

theorem PF_erase_inj_core (env : Env) (args : List Val) (ws : WS) (p q : PF) (h : p.erase = q.erase) :
    corePF env p args ws = corePF env q args ws := by
  rw [← corePF_erase env args ws p, ← corePF_erase env args ws q, h]

theorem callTarget_sim (env : Env) (tot : Total env) (args : List Val) (hacc : env.sig.accepts args = true)
    (a b : St) (h : Sim a b) :
    (callTarget env args a).1 = (callTarget env args b).1 ∧ Sim (callTarget env args a).2 (callTarget env args b).2 := by
  obtain ⟨hws, hinst, hdead⟩ := h
  unfold callTarget
  cases ha : a.inst with
  | none =>
    cases hb : b.inst with
    | none =>
      simp only
      refine ⟨by first | rfl | trivial, ⟨?_, ?_, hdead⟩⟩
      · simp only [hws]
      · rfl
    | some y => rw [ha, hb] at hinst; simp at hinst
  | some x =>
    cases hb : b.inst with
    | none => rw [ha, hb] at hinst; simp at hinst
    | some y =>
      rw [ha, hb] at hinst
      simp only [Option.map_some, Option.some.injEq] at hinst
      cases x with
      | fn f =>
        cases y with
        | fn g =>
          simp only [Inst.erase, Inst.fn.injEq] at hinst
          have ca := callFn_core env tot args hacc f false a
          have cb := callFn_core env tot args hacc g false b
          have hc := Fn_erase_inj_core env args b.ws f g hinst
          simp only
          refine ⟨?_, ⟨?_, ?_, ?_⟩⟩
          · rw [ca.1, cb.1, hws, hc]
          · rw [ca.2.1, cb.2.1, hws, hc]
          · rw [ca.2.2.1, cb.2.2.1, ha, hb]; simp only [Option.map_some, Inst.erase, hinst]
          · rw [ca.2.2.2, cb.2.2.2, hdead]
        | pf q => simp [Inst.erase] at hinst
      | pf p =>
        cases y with
        | fn g => simp [Inst.erase] at hinst
        | pf q =>
          simp only [Inst.erase, Inst.pf.injEq] at hinst
          have ca := callPF_core env tot args p a
          have cb := callPF_core env tot args q b
          have hc := PF_erase_inj_core env args b.ws p q hinst
          simp only
          refine ⟨?_, ⟨?_, ?_, ?_⟩⟩
          · rw [ca.1, cb.1, hws, hc]
          · rw [ca.2.1, cb.2.1, hws, hc]
          · rw [ca.2.2.1, cb.2.2.1, ha, hb]; simp only [Option.map_some, Inst.erase, hinst]
          · rw [ca.2.2.2, cb.2.2.2, hdead]

theorem step_sim (env : Env) (tot : Total env) (a b : St) (h : Sim a b) (op : Op) :
    (step env a op).2 = (step env b op).2 ∧ Sim (step env a op).1 (step env b op).1 := by
  have hcfg : ∀ op' : Op,
      (step env a op' = (applyReq env { a with ws := (cfgStep env a.ws op').1 } (cfgStep env a.ws op').2.1,
        if (applyReq env { a with ws := (cfgStep env a.ws op').1 } (cfgStep env a.ws op').2.1).dead then "->CRASH" else (cfgStep env a.ws op').2.2)) →
      (step env b op' = (applyReq env { b with ws := (cfgStep env b.ws op').1 } (cfgStep env b.ws op').2.1,
        if (applyReq env { b with ws := (cfgStep env b.ws op').1 } (cfgStep env b.ws op').2.1).dead then "->CRASH" else (cfgStep env b.ws op').2.2)) →
      (step env a op').2 = (step env b op').2 ∧ Sim (step env a op').1 (step env b op').1 := by
    intro op' ea eb
    rw [ea, eb, h.ws]
    have hs : Sim (applyReq env { a with ws := (cfgStep env b.ws op').1 } (cfgStep env b.ws op').2.1)
                  (applyReq env { b with ws := (cfgStep env b.ws op').1 } (cfgStep env b.ws op').2.1) := by
      apply applyReq_sim env tot
      exact ⟨rfl, h.inst, h.dead⟩
    refine ⟨?_, hs⟩
    show (if _ then _ else _) = (if _ then _ else _)
    rw [hs.dead]
  cases op with
  | apply cb => exact hcfg _ rfl rfl
  | applyBad => exact hcfg _ rfl rfl
  | ret vals => exact hcfg _ rfl rfl
  | «when» pats vals => exact hcfg _ rfl rfl
  | rets seq => exact hcfg _ rfl rfl
  | call args =>
    simp only [step]
    cases hacc : env.sig.accepts args with
    | false =>
      simp only [Bool.not_false, if_true]
      exact ⟨by first | rfl | trivial, h⟩
    | true =>
      simp only [Bool.not_true, Bool.false_eq_true, if_false]
      have h0 : Sim { a with ws := { a.ws with events := [], wrote := false } } { b with ws := { b.ws with events := [], wrote := false } } :=
        ⟨by simp only [h.ws], h.inst, h.dead⟩
      have ct := callTarget_sim env tot args hacc _ _ h0
      refine ⟨?_, ct.2⟩
      unfold outTok
      rw [ct.1, ct.2.ws]
  | cancel => exact ⟨rfl, ⟨rfl, rfl, h.dead⟩⟩
  | dbg d =>
    cases d <;> exact ⟨rfl, ⟨h.ws, h.inst, h.dead⟩⟩

theorem run_sim (env : Env) (tot : Total env) : ∀ (ops : List Op) (a b : St), Sim a b →
    (run env a ops).1 = (run env b ops).1 ∧ Sim (run env a ops).2 (run env b ops).2
  | [], a, b, h => ⟨rfl, h⟩
  | op :: ops, a, b, h => by
    unfold run
    rw [h.dead]
    cases hd : b.dead with
    | true =>
      simp only [if_true]
      exact ⟨by first | rfl | trivial, h⟩
    | false =>
      simp only [Bool.false_eq_true, if_false]
      have hs := step_sim env tot a b h op
      have ih := run_sim env tot ops _ _ hs.2
      exact ⟨by rw [hs.1, ih.1], ih.2⟩

theorem applyReq_dead (env : Env) (tot : Total env) (s : St) (req : Option (Fn × Option PF)) : (applyReq env s req).dead = s.dead := by
  cases req with
  | none => rfl
  | some r => obtain ⟨imp, pf⟩ := r; rw [applyReq_some env tot]; exact ((install_frame env _ imp pf).2.1).trans (bumpTrace_frame s).2.2

/-- with a total renderer no operation kills the process -/
theorem step_dead (env : Env) (tot : Total env) (s : St) (op : Op) : (step env s op).1.dead = s.dead := by
  cases op with
  | apply cb => exact applyReq_dead env tot _ _
  | applyBad => exact applyReq_dead env tot _ _
  | ret vals => exact applyReq_dead env tot _ _
  | «when» pats vals => exact applyReq_dead env tot _ _
  | rets seq => exact applyReq_dead env tot _ _
  | cancel => rfl
  | dbg d => cases d <;> rfl
  | call args =>
    simp only [step]
    cases hacc : env.sig.accepts args with
    | false => rfl
    | true =>
      simp only [Bool.not_true, Bool.false_eq_true, if_false]
      unfold callTarget
      split
      · rfl
      · rename_i f _; exact (callFn_core env tot args hacc f false _).2.2.2
      · rename_i p _; exact (callPF_core env tot args p _).2.2.2

theorem run_dead (env : Env) (tot : Total env) : ∀ (ops : List Op) (s : St), s.dead = false → (run env s ops).2.dead = false
  | [], _, h => h
  | op :: ops, s, h => by
    unfold run
    simp only [h, Bool.false_eq_true, if_false]
    exact run_dead env tot ops _ ((step_dead env tot s op).trans h)

/-! ### erasing the switch operations -/

def isDbg : Op → Bool
| .dbg _ => true
| _ => false

/-- drop the transcript tokens that belong to OpenDebug/CloseDebug/OpenTrace/CloseTrace operations -/
def eraseToks : List Op → List String → List String
| op :: ops, t :: ts => if isDbg op then eraseToks ops ts else t :: eraseToks ops ts
| _, _ => []

theorem run_of_dead (env : Env) (ops : List Op) (s : St) (h : s.dead = true) : (run env s ops).1 = [] := by
  cases ops with
  | nil => rfl
  | cons op rest => unfold run; simp only [h, if_true]

theorem eraseToks_nil (ops : List Op) : eraseToks ops [] = [] := by
  cases ops <;> rfl

theorem dbg_sim (env : Env) (a : St) (d : DbgOp) : Sim (step env a (.dbg d)).1 a ∧ (step env a (.dbg d)).2 = "ok" := by
  cases d <;> exact ⟨⟨rfl, rfl, rfl⟩, rfl⟩

theorem Sim.symm' {a b : St} (h : Sim a b) : Sim b a := ⟨h.ws.symm, h.inst.symm, h.dead.symm⟩
theorem Sim.trans' {a b c : St} (h : Sim a b) (g : Sim b c) : Sim a c := ⟨h.ws.trans g.ws, h.inst.trans g.inst, h.dead.trans g.dead⟩

theorem run_erase (env : Env) (tot : Total env) : ∀ (ops : List Op) (a b : St), Sim a b →
    (run env b (ops.filter (fun o => !isDbg o))).1 = eraseToks ops (run env a ops).1
  | [], a, b, h => rfl
  | op :: ops, a, b, h => by
    cases hd : a.dead with
    | true =>
      rw [run_of_dead env _ a hd, run_of_dead env _ b (h.dead ▸ hd), eraseToks_nil]
    | false =>
      have hb : b.dead = false := h.dead ▸ hd
      cases hop : isDbg op with
      | true =>
        cases op with
        | dbg d =>
          have hs := dbg_sim env a d
          have ih := run_erase env tot ops _ b (hs.1.trans' h)
          have hf : (Op.dbg d :: ops).filter (fun o => !isDbg o) = ops.filter (fun o => !isDbg o) := by
            rw [List.filter_cons]; simp only [hop, Bool.not_true, Bool.false_eq_true, if_false]
          have hr : (run env a (Op.dbg d :: ops)).1 = "ok" :: (run env (step env a (.dbg d)).1 ops).1 := by
            conv => lhs; unfold run
            simp only [hd, Bool.false_eq_true, if_false, hs.2]
          rw [hf, ih, hr]
          simp only [eraseToks, hop, if_true]
        | apply _ => simp [isDbg] at hop
        | applyBad => simp [isDbg] at hop
        | ret _ => simp [isDbg] at hop
        | «when» _ _ => simp [isDbg] at hop
        | rets _ => simp [isDbg] at hop
        | call _ => simp [isDbg] at hop
        | cancel => simp [isDbg] at hop
      | false =>
        have hs := step_sim env tot a b h op
        have ih := run_erase env tot ops _ _ hs.2
        have hf : (op :: ops).filter (fun o => !isDbg o) = op :: ops.filter (fun o => !isDbg o) := by
          rw [List.filter_cons]; simp only [hop, Bool.not_false, if_true]
        have hra : (run env a (op :: ops)).1 = (step env a op).2 :: (run env (step env a op).1 ops).1 := by
          conv => lhs; unfold run
          simp only [hd, Bool.false_eq_true, if_false]
        have hrb : (run env b (op :: ops.filter (fun o => !isDbg o))).1
            = (step env b op).2 :: (run env (step env b op).1 (ops.filter (fun o => !isDbg o))).1 := by
          conv => lhs; unfold run
          simp only [hb, Bool.false_eq_true, if_false]
        rw [hf, hrb, hra, ih, hs.1]
        simp only [eraseToks, hop, Bool.false_eq_true, if_false]

/-! ### variable mocks -/

theorem varStep_sim (a b : VarSt) (hc : a.cur = b.cur) (ho : a.origin = b.origin) (op : VarOp) :
    (varStep a op).2 = (varStep b op).2 ∧ (varStep a op).1.cur = (varStep b op).1.cur ∧ (varStep a op).1.origin = (varStep b op).1.origin := by
  have hset : ∀ v, (varDoSet a v).cur = (varDoSet b v).cur ∧ (varDoSet a v).origin = (varDoSet b v).origin := by
    intro v
    simp only [varDoSet, hc, ho]
    exact ⟨trivial, trivial⟩
  cases op with
  | set v => exact ⟨rfl, hset v⟩
  | apply v => exact ⟨rfl, hset v⟩
  | reset => exact ⟨rfl, by simp only [varStep, hc, ho], rfl⟩
  | read => exact ⟨by simp only [varStep, hc], hc, ho⟩
  | dbg d => cases d <;> exact ⟨rfl, hc, ho⟩

theorem varRun_sim : ∀ (ops : List VarOp) (a b : VarSt), a.cur = b.cur → a.origin = b.origin →
    (varRun a ops).1 = (varRun b ops).1 ∧ (varRun a ops).2.cur = (varRun b ops).2.cur
  | [], a, b, hc, _ => ⟨rfl, hc⟩
  | op :: ops, a, b, hc, ho => by
    have hs := varStep_sim a b hc ho op
    have ih := varRun_sim ops _ _ hs.2.1 hs.2.2
    simp only [varRun]
    exact ⟨by rw [hs.1, ih.1], ih.2⟩

end C19L
