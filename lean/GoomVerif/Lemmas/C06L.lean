import GoomVerif.Model.Method
/-! Helper lemmas for C06 (core Lean only). -/
namespace C06L
open Method

/-- a separator that does not occur in either tail splits uniquely (split at the LAST occurrence) -/
theorem split_last (c : Char) : ∀ (a a' m m' : Str), c ∉ m → c ∉ m' →
    a ++ c :: m = a' ++ c :: m' → a = a' ∧ m = m' := by
  intro a
  induction a with
  | nil =>
    intro a' m m' hm hm' h
    cases a' with
    | nil => simp at h; exact ⟨rfl, h⟩
    | cons x t =>
      simp at h
      exfalso; apply hm; rw [h.2]; simp
  | cons x t ih =>
    intro a' m m' hm hm' h
    cases a' with
    | nil =>
      simp at h
      exfalso; apply hm'; rw [← h.2]; simp
    | cons y t' =>
      simp at h
      have := ih t' m m' hm hm' h.2
      exact ⟨by rw [h.1, this.1], this.2⟩

theorem objName_assoc (pkg sn m : Str) : objName pkg sn m = (pkg ++ '.' :: sn) ++ '.' :: m := by
  simp [objName]

/-- `pkg.sn.m` determines all three parts when `sn` and `m` contain no dot -/
theorem objName_inj {pkg pkg' sn sn' m m' : Str} (hs : '.' ∉ sn) (hs' : '.' ∉ sn') (hm : '.' ∉ m) (hm' : '.' ∉ m')
    (h : objName pkg sn m = objName pkg' sn' m') : pkg = pkg' ∧ sn = sn' ∧ m = m' := by
  rw [objName_assoc, objName_assoc] at h
  have h1 := split_last '.' _ _ _ _ hm hm' h
  have h2 := split_last '.' _ _ _ _ hs hs' h1.1
  exact ⟨h2.1, h2.2, h1.2⟩

/-- inside one package the receiver part may contain dots (type arguments of a generic instantiation) -/
theorem objName_inj_pkg {pkg sn sn' m m' : Str} (hm : '.' ∉ m) (hm' : '.' ∉ m')
    (h : objName pkg sn m = objName pkg sn' m') : sn = sn' ∧ m = m' := by
  simp only [objName, List.append_cancel_left_eq, List.cons.injEq, true_and] at h
  exact split_last '.' _ _ _ _ hm hm' h

theorem recvName_nodot {T : Str} (p : Bool) (h : '.' ∉ T) : '.' ∉ recvName T p := by
  cases p <;> simp [recvName, h]

theorem recvName_inj {T T' : Str} {p p' : Bool} (hT : T.head? ≠ some '(') (hT' : T'.head? ≠ some '(')
    (h : recvName T p = recvName T' p') : T = T' ∧ p = p' := by
  cases p <;> cases p' <;> simp [recvName] at h
  · exact ⟨h, rfl⟩
  · subst h; simp at hT
  · subst h; simp at hT'
  · exact ⟨h, rfl⟩

theorem bracket_typeName {T : Str} (p : Bool) (h : '*' ∉ T) : bracket (typeName T p) = recvName T p := by
  cases p <;> simp [bracket, typeName, recvName, h]

/-! ### symbol lookup -/

theorem symIndex_get : ∀ (syms : List Str) (n : Str) (i : Nat), symIndex syms n = some i → syms[i]? = some n := by
  intro syms
  induction syms with
  | nil => intro n i h; simp [symIndex] at h
  | cons s rest ih =>
    intro n i h
    simp only [symIndex] at h
    split at h
    · simp at h; subst h; simp [*]
    · cases hr : symIndex rest n with
      | none => simp [hr] at h
      | some j =>
        simp [hr] at h; subst h
        simpa using ih n j hr

theorem symIndex_of_mem : ∀ (syms : List Str) (n : Str), n ∈ syms → ∃ i, symIndex syms n = some i := by
  intro syms
  induction syms with
  | nil => intro n h; simp at h
  | cons s rest ih =>
    intro n h
    simp only [symIndex]
    by_cases hs : s = n
    · exact ⟨0, by simp [hs]⟩
    · have : n ∈ rest := by
        cases h with
        | head => exact absurd rfl hs
        | tail _ h => exact h
      obtain ⟨j, hj⟩ := ih n this
      exact ⟨j + 1, by simp [hs, hj]⟩

theorem symIndex_none_of_not_mem : ∀ (syms : List Str) (n : Str), n ∉ syms → symIndex syms n = none := by
  intro syms
  induction syms with
  | nil => intro n _; rfl
  | cons s rest ih =>
    intro n h
    simp only [List.mem_cons, not_or] at h
    simp only [symIndex]
    have : ¬ s = n := fun e => h.1 e.symm
    simp [this, ih n h.2]

/-! ### caches -/

/-- the cache never hands out a value that does not belong to the key asked for -/
theorem getOrCreate_inv {K V : Type} [DecidableEq K] (P : K → V → Prop) :
    ∀ (c : List (K × V)) (k : K) (v : V), (∀ kv ∈ c, P kv.1 kv.2) → P k v →
      (∀ kv ∈ (getOrCreate c k v).1, P kv.1 kv.2) ∧ P k (getOrCreate c k v).2 := by
  intro c
  induction c with
  | nil => intro k v _ hv; simp [getOrCreate, hv]
  | cons e rest ih =>
    intro k v hc hv
    obtain ⟨k', v'⟩ := e
    simp only [getOrCreate]
    split
    · rename_i hk
      subst hk
      exact ⟨hc, hc (k', v') (by simp)⟩
    · have hrest : ∀ kv ∈ rest, P kv.1 kv.2 := fun kv h => hc kv (by simp [h])
      have := ih k v hrest hv
      refine ⟨?_, this.2⟩
      intro kv hkv
      simp only [List.mem_cons] at hkv
      cases hkv with
      | inl h => subst h; exact hc (k', v') (by simp)
      | inr h => exact this.1 kv h

/-! ### one step -/

theorem behavOf_cons (syms : List Str) (i k : Nat) (p : List (Nat × Nat)) (e : Entry) :
    behavOf syms ((i, k) :: p) e = if syms[i]? = some e.callSym then some k else behavOf syms p e := rfl

/-- effect of `applyAt` on what a call of `e` does -/
theorem applyAt_behav (syms : List Str) (s : BState) (k : Nat) (name : Str) (e : Entry) :
    behavOf syms (applyAt syms s k name).1.patched e =
      if name = e.callSym ∧ e.callSym ∈ syms then some k else behavOf syms s.patched e := by
  unfold applyAt
  cases h : symIndex syms name with
  | none =>
    have : ¬ (name = e.callSym ∧ e.callSym ∈ syms) := by
      intro hc
      obtain ⟨i, hi⟩ := symIndex_of_mem syms name (hc.1 ▸ hc.2)
      simp [hi] at h
    simp [this]
  | some i =>
    have hg := symIndex_get syms name i h
    simp only [behavOf_cons, hg, Option.some.injEq]
    by_cases hn : name = e.callSym
    · have : e.callSym ∈ syms := by
        rw [← hn]; exact List.mem_of_getElem? hg
      simp [hn, this]
    · simp [hn]

theorem applyAt_keeps (syms : List Str) (s : BState) (k : Nat) (name : Str) :
    (applyAt syms s k name).1.structs = s.structs ∧ (applyAt syms s k name).1.exports = s.exports := by
  unfold applyAt; split <;> simp

/-- one step, under the cache invariant: the invariant is kept and the behaviour of any entry changes exactly
    as the step's own text says -/
theorem step_spec (syms : List Str) (entries : List Entry) (s : BState) (k : Nat) (st : Step) (e : Entry)
    (hI : CacheInv s) :
    CacheInv (step syms entries s k st).1 ∧
    behavOf syms (step syms entries s k st).1.patched e =
      (if st.isReset then none
       else if stepName entries st = some e.callSym ∧ e.callSym ∈ syms then some k
       else behavOf syms s.patched e) := by
  cases st with
  | reset => exact ⟨⟨hI.1, hI.2⟩, rfl⟩
  | structMethod t m =>
    have hc := getOrCreate_inv (fun (k : Ty) (v : Ty) => v = k) s.structs (structKey t) t hI.1 rfl
    simp only [step, stepName, Step.isReset]
    rw [hc.2]
    simp only [structKey]
    split
    · rename_i c hr
      simp only [hr]
      exact ⟨⟨hc.1, hI.2⟩, by simp⟩
    · rename_i name hr
      simp only [hr]
      refine ⟨⟨?_, ?_⟩, ?_⟩
      · rw [(applyAt_keeps _ _ _ _).1]; exact hc.1
      · rw [(applyAt_keeps _ _ _ _).2]; exact hI.2
      · rw [applyAt_behav]; simp
  | structExport t m =>
    have hc := getOrCreate_inv (fun (k : Ty) (v : Ty) => v = k) s.structs (structKey t) t hI.1 rfl
    simp only [step, stepName, Step.isReset]
    rw [hc.2]
    simp only [structKey]
    refine ⟨⟨?_, ?_⟩, ?_⟩
    · rw [(applyAt_keeps _ _ _ _).1]; exact hc.1
    · rw [(applyAt_keeps _ _ _ _).2]; exact hI.2
    · rw [applyAt_behav]; simp
  | exportStruct pkg raw m =>
    have hc := getOrCreate_inv (fun (k : EKey) (v : Str × Str) => v = (k.1, bracket k.2)) s.exports (pkg, raw)
      (pkg, bracket raw) hI.2 rfl
    simp only [step, stepName, Step.isReset]
    rw [hc.2]
    refine ⟨⟨?_, ?_⟩, ?_⟩
    · rw [(applyAt_keeps _ _ _ _).1]; exact hI.1
    · rw [(applyAt_keeps _ _ _ _).2]; exact hc.1
    · rw [applyAt_behav]; simp [exportStructName]

end C06L
