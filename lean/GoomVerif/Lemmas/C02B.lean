import GoomVerif.Lemmas.C02L
/-! Lemmas for the behaviour-class theorems of C02: the entry jump determines its destination (`jumpTo` is injective),
    and the ownership invariant: a patched entry always carries the jump to the current implementation of a live mocker. -/
namespace C02L
open Patch

/-! ### the destination can be read back from the jump bytes -/

theorem byte_eq (a b : BitVec 64) (i : Nat) (h : BitVec.setWidth 8 (a >>> i) = BitVec.setWidth 8 (b >>> i)) :
    (a.toNat / 2^i) % 256 = (b.toNat / 2^i) % 256 := by
  have := congrArg BitVec.toNat h
  simpa [BitVec.toNat_setWidth, BitVec.toNat_ushiftRight, Nat.shiftRight_eq_div_pow] using this

theorem nat_bytes_inj (x y : Nat) (hx : x < 18446744073709551616) (hy : y < 18446744073709551616)
    (e0 : x % 256 = y % 256) (e1 : x / 256 % 256 = y / 256 % 256) (e2 : x / 65536 % 256 = y / 65536 % 256)
    (e3 : x / 16777216 % 256 = y / 16777216 % 256) (e4 : x / 4294967296 % 256 = y / 4294967296 % 256)
    (e5 : x / 1099511627776 % 256 = y / 1099511627776 % 256) (e6 : x / 281474976710656 % 256 = y / 281474976710656 % 256)
    (e7 : x / 72057594037927936 % 256 = y / 72057594037927936 % 256) : x = y := by
  omega

/-- two entry jumps with the same bytes go to the same funcval address -/
theorem jumpTo_inj (a b : BitVec 64) (h : jumpTo a = jumpTo b) : a = b := by
  simp only [jumpTo, Gen.Amd64.jmpToFunctionValue, List.cons.injEq, true_and, and_true] at h
  obtain ⟨h0, h1, h2, h3, h4, h5, h6, h7⟩ := h
  apply BitVec.eq_of_toNat_eq
  have ha : a.toNat < 18446744073709551616 := a.isLt
  have hb : b.toNat < 18446744073709551616 := b.isLt
  exact nat_bytes_inj a.toNat b.toNat ha hb
    (by have := byte_eq a b 0 (by simpa using h0); simpa using this)
    (by have := byte_eq a b 8 h1; simpa using this)
    (by have := byte_eq a b 16 h2; simpa using this)
    (by have := byte_eq a b 24 h3; simpa using this)
    (by have := byte_eq a b 32 h4; simpa using this)
    (by have := byte_eq a b 40 h5; simpa using this)
    (by have := byte_eq a b 48 h6; simpa using this)
    (by have := byte_eq a b 56 h7; simpa using this)

theorem find?_unique {α} (p : α → Bool) (k : α) : ∀ (l : List α), k ∈ l → p k = true → (∀ x, x ∈ l → p x = true → x = k) →
    l.find? p = some k := by
  intro l
  induction l with
  | nil => intro h; cases h
  | cons a l ih =>
    intro hk hp hu
    by_cases ha : p a = true
    · have := hu a List.mem_cons_self ha
      subst this
      simp [List.find?, ha]
    · have hne : k ≠ a := fun h => ha (h ▸ hp)
      have hk' : k ∈ l := by
        rcases List.mem_cons.mp hk with h | h
        · exact absurd h hne
        · exact h
      simp only [List.find?, ha]
      exact ih hk' hp (fun x hx => hu x (List.mem_cons_of_mem _ hx))

/-- distinct funcvals live at distinct addresses (user callbacks are static funcvals, MakeFunc stubs heap objects); stated for
    the `nCb` callbacks the observer knows and the first `nS` stubs (addresses are 64-bit: no family is injective on all of ℕ) -/
structure AddrOk (env : Env) (nCb nS nA : Nat) : Prop where
  cb_inj : ∀ k k', k < nCb → k' < nCb → env.cbAddr k = env.cbAddr k' → k = k'
  stub_inj : ∀ n n', n < nS → n' < nS → env.stubAddr n = env.stubAddr n' → n = n'
  disjoint : ∀ k n, n < nS → env.cbAddr k ≠ env.stubAddr n
  /-- the first `nA` dictionary-dropping adapters are heap objects of their own -/
  adapt_inj : ∀ n n', n < nA → n' < nA → env.adaptAddr n = env.adaptAddr n' → n = n'
  adapt_cb : ∀ k n, n < nA → env.cbAddr k ≠ env.adaptAddr n
  adapt_stub : ∀ m n, m < nS → n < nA → env.stubAddr m ≠ env.adaptAddr n

/-! ### fields the patch-level functions never touch -/

def Aux (s : St) := (s.nMockers, s.nStubs, s.handle, s.scache, s.nStructs, s.scanceled, s.shandle)

theorem guardUnpatch_aux (s : St) (g : Nat) : Aux (guardUnpatch s g) = Aux s := by
  unfold guardUnpatch; split <;> rfl

theorem cancelGuard_aux (s : St) (og : Option Nat) : Aux (cancelGuard s og) = Aux s := by
  cases og with
  | none => rfl
  | some g => exact guardUnpatch_aux s g

theorem unpatchValue_aux (s : St) (f : Nat) : Aux (unpatchValue s f) = Aux s := by
  unfold unpatchValue
  cases s.patches f with
  | none => rfl
  | some p =>
    show Aux (patchUnpatch s p) = Aux s
    unfold patchUnpatch
    cases p.guard with
    | none => rfl
    | some g => exact guardUnpatch_aux s g

theorem replaceFunc_aux (env : Env) (s : St) (f : Nat) (to : BitVec 64) (tramp : Option Nat) :
    Aux (replaceFunc env s f to tramp).1 = Aux s := by
  have h := unpatchValue_aux s f
  unfold replaceFunc
  simp only []
  split
  · exact h
  · split
    · exact h
    · cases tramp with
      | none => exact h
      | some o =>
        simp only []
        split
        · exact h
        · exact h

theorem applyImp_aux (env : Env) (s : St) (id : Nat) (imp : Imp) : Aux (applyImp env s id imp).1 = Aux s := by
  have h := replaceFunc_aux env s (s.mockers id).target (dest env s id imp) (s.mockers id).origin
  unfold applyImp
  simp only []
  cases hres : replaceFunc env s (s.mockers id).target (dest env s id imp) (s.mockers id).origin with
  | mk s1 res =>
    rw [hres] at h
    cases res with
    | error e => exact h
    | ok g => exact h

theorem applyCb_aux (env : Env) (s : St) (id k : Nat) : Aux (applyCb env s id k).1 = Aux s := by
  have h := applyImp_aux env s id (.cb k)
  unfold applyCb
  cases (applyImp env s id (.cb k)).2 with
  | none => exact h
  | some e => exact h

theorem cancelMocker_aux (s : St) (id : Nat) : Aux (cancelMocker s id) = Aux s :=
  cancelGuard_aux s (s.mockers id).guard

theorem cancelKeys_aux (b : Nat) (ks : List Nat) : ∀ (s : St), Aux (cancelKeys s b ks) = Aux s := by
  induction ks with
  | nil => intro s; rfl
  | cons k ks ih =>
    intro s
    unfold cancelKeys
    cases s.cache b k with
    | none => exact ih s
    | some id => simp only []; rw [ih]; exact cancelMocker_aux s id

theorem resetB_aux (s : St) (b : Nat) : Aux (resetB s b) = Aux s := by
  unfold resetB
  cases s.scache b with
  | none => exact cancelKeys_aux b _ s
  | some o => simp only []; rw [cancelKeys_aux, cancelKeys_aux]

/-! ### ownership: a patched entry carries the jump to the current implementation of a live mocker -/

/-- the adapter table only grows, installed adapters never change -/
def AdaptLe (s s' : St) : Prop := s.nAdapt ≤ s'.nAdapt ∧ ∀ n, n < s.nAdapt → s'.adapt n = s.adapt n

theorem AdaptLe.refl (s : St) : AdaptLe s s := ⟨Nat.le_refl _, fun _ _ => rfl⟩
theorem AdaptLe.trans {a b c : St} (h1 : AdaptLe a b) (h2 : AdaptLe b c) : AdaptLe a c :=
  ⟨Nat.le_trans h1.1 h2.1, fun n hn => by rw [h2.2 n (Nat.lt_of_lt_of_le hn h1.1), h1.2 n hn]⟩
theorem AdaptLe.of_eq {s s' : St} (h1 : s'.nAdapt = s.nAdapt) (h2 : s'.adapt = s.adapt) : AdaptLe s s' :=
  ⟨Nat.le_of_eq h1.symm, fun _ _ => by rw [h2]⟩

/-- funcval address `a` runs implementation `imp`: it is the implementation's own funcval, or an installed adapter that forwards to it -/
def Denotes (env : Env) (s : St) (a : BitVec 64) (imp : Imp) : Prop :=
  a = impAddr env imp ∨ ∃ n, n < s.nAdapt ∧ a = env.adaptAddr n ∧ s.adapt n = some imp

theorem Denotes.mono {env : Env} {s s' : St} (h : AdaptLe s s') {a : BitVec 64} {imp : Imp} (hd : Denotes env s a imp) :
    Denotes env s' a imp := by
  rcases hd with e | ⟨n, hn, e1, e2⟩
  · exact Or.inl e
  · exact Or.inr ⟨n, Nat.lt_of_lt_of_le hn h.1, e1, by rw [h.2 n hn]; exact e2⟩

/-- the jump bytes of guard `g` lead to something that runs `imp` -/
def JumpsTo (env : Env) (s : St) (g : Nat) (imp : Imp) : Prop :=
  ∃ a, (s.guards g).jumpBytes = jumpTo a ∧ Denotes env s a imp

theorem JumpsTo.transfer {env : Env} {s s' : St} {g : Nat} {imp : Imp} (hg : s'.guards g = s.guards g) (hle : AdaptLe s s')
    (h : JumpsTo env s g imp) : JumpsTo env s' g imp := by
  obtain ⟨a, h1, h2⟩ := h
  exact ⟨a, by rw [hg]; exact h1, h2.mono hle⟩

/-- guard `g` is held by an allocated, not cancelled mocker whose current implementation the jump bytes of `g` lead to (directly,
    or through the dictionary-dropping adapter of a generic target); if that implementation is a `MakeFunc` stub, the mocker
    still owns the `When` the stub serves -/
def Witness (env : Env) (s : St) (g : Nat) : Prop :=
  ∃ id imp, id < s.nMockers ∧ (s.mockers id).guard = some g ∧ (s.mockers id).imp = some imp ∧
    JumpsTo env s g imp ∧ (s.mockers id).canceled = false ∧
    (∀ n, imp = .stub n → (s.mockers id).hasWhen = true ∧ n < s.nStubs)

def OwnOn (env : Env) (s : St) (P : Nat → Prop) : Prop :=
  ∀ f p g, P f → s.patches f = some p → p.guard = some g → (s.guards g).applied = true → s.text f ≠ env.pristine f →
    Witness env s g

/-- the part of a mocker the ownership invariant reads -/
def mv (m : Mocker) := (m.guard, m.imp, m.canceled, m.hasWhen)

theorem ownOn_transfer {env : Env} {s s' : St} {P P' : Nat → Prop} (hi : Inv env s) (ho : OwnOn env s P)
    (hP : ∀ f, P' f → P f)
    (hpat : ∀ f, P' f → s'.patches f = s.patches f)
    (hgd : ∀ g, g < s.nGuards → s'.guards g = s.guards g)
    (htx : ∀ f, P' f → s'.text f = s.text f ∨ s'.text f = env.pristine f)
    (hm : ∀ id f, id < s.nMockers → P' f → (s.mockers id).target = f → mv (s'.mockers id) = mv (s.mockers id))
    (hn : s.nMockers ≤ s'.nMockers) (hst : s.nStubs ≤ s'.nStubs) (hle : AdaptLe s s') : OwnOn env s' P' := by
  intro f p g hPf h1 h2 h3 h4
  rw [hpat f hPf] at h1
  have hr := hi.reg f p g h1 h2
  rw [hgd g hr.1] at h3
  have ht : s.text f ≠ env.pristine f := by
    rcases htx f hPf with e | e
    · rw [e] at h4; exact h4
    · exact absurd e h4
  obtain ⟨id, imp, hlt, hg, him, hj, hc, hs⟩ := ho f p g (hP f hPf) h1 h2 h3 ht
  have htg : (s.mockers id).target = f := by rw [← (hi.mg id g hg).2]; exact hr.2
  have hmv := hm id f hlt hPf htg
  simp only [mv, Prod.mk.injEq] at hmv
  refine ⟨id, imp, by omega, by rw [hmv.1]; exact hg, by rw [hmv.2.1]; exact him, hj.transfer (hgd g hr.1) hle,
    by rw [hmv.2.2.1]; exact hc, ?_⟩
  intro n hn'
  have := hs n hn'
  exact ⟨by rw [hmv.2.2.2]; exact this.1, by omega⟩

/-- `replaceFunc` changes the patch table only at its target and no existing guard, on every exit -/
theorem replaceFunc_frame2 {env : Env} (he : EnvOk env) {s : St} (hi : Inv env s) (f : Nat) (to : BitVec 64) (tramp : Option Nat) :
    (∀ x, x ≠ f → (replaceFunc env s f to tramp).1.patches x = s.patches x) ∧
    (∀ g, g < s.nGuards → (replaceFunc env s f to tramp).1.guards g = s.guards g) := by
  obtain ⟨_, _, _, hg1, hn1, _, _, _, _, hp1⟩ := unpatchValue_spec he hi f
  have A : ∀ (p : PatchE), (∀ x, x ≠ f → (register (unpatchValue s f) f p).patches x = s.patches x) ∧
      (∀ g, g < s.nGuards → (register (unpatchValue s f) f p).guards g = s.guards g) := by
    intro p
    refine ⟨fun x hx => by simp [register, upd, hx, hp1 x hx], fun g _ => by simp [register, hg1]⟩
  have B : ∀ (s2 : St) (p : PatchE), (∀ x, x ≠ f → s2.patches x = s.patches x) → (∀ g, g < s.nGuards → s2.guards g = s.guards g) →
      s2.nGuards = s.nGuards →
      (∀ x, x ≠ f → (mkGuard s2 f p).1.patches x = s.patches x) ∧ (∀ g, g < s.nGuards → (mkGuard s2 f p).1.guards g = s.guards g) := by
    intro s2 p h1 h2 h3
    refine ⟨fun x hx => by simp [mkGuard, upd, hx, h1 x hx], fun g hg => ?_⟩
    have : g ≠ s2.nGuards := by omega
    simp [mkGuard, upd, this, h2 g hg]
  unfold replaceFunc
  simp only []
  split
  · exact A _
  · split
    · exact ⟨fun x hx => by simp [register, upd, hx, hp1 x hx], fun g _ => by simp [register, hg1]⟩
    · cases tramp with
      | none =>
        simp only []
        exact B _ _ (fun x hx => by simp [register, upd, hx, hp1 x hx]) (fun g _ => by simp [register, hg1]) (by simp [register, hn1])
      | some o =>
        simp only []
        split
        · exact ⟨fun x hx => by simp [register, upd, hx, hp1 x hx], fun g _ => by simp [register, hg1]⟩
        · exact B _ _ (fun x hx => by simp [register, upd, hx, hp1 x hx]) (fun g _ => by simp [register, hg1]) (by simp [register, hn1])

/-! ### the adapter table under the patch-level functions -/

def Aux2 (s : St) := (s.nAdapt, s.adapt)

theorem adaptLe_of_aux2 {s s' : St} (h : Aux2 s' = Aux2 s) : AdaptLe s s' :=
  AdaptLe.of_eq (congrArg (fun t => t.1) h) (congrArg (fun t => t.2) h)

theorem guardUnpatch_aux2 (s : St) (g : Nat) : Aux2 (guardUnpatch s g) = Aux2 s := by
  unfold guardUnpatch; split <;> rfl

theorem cancelGuard_aux2 (s : St) (og : Option Nat) : Aux2 (cancelGuard s og) = Aux2 s := by
  cases og with
  | none => rfl
  | some g => exact guardUnpatch_aux2 s g

theorem unpatchValue_aux2 (s : St) (f : Nat) : Aux2 (unpatchValue s f) = Aux2 s := by
  unfold unpatchValue
  cases s.patches f with
  | none => rfl
  | some p =>
    show Aux2 (patchUnpatch s p) = Aux2 s
    unfold patchUnpatch
    cases p.guard with
    | none => rfl
    | some g => exact guardUnpatch_aux2 s g

theorem replaceFunc_aux2 (env : Env) (s : St) (f : Nat) (to : BitVec 64) (tramp : Option Nat) :
    Aux2 (replaceFunc env s f to tramp).1 = Aux2 s := by
  have h := unpatchValue_aux2 s f
  unfold replaceFunc
  simp only []
  split
  · exact h
  · split
    · exact h
    · cases tramp with
      | none => exact h
      | some o =>
        simp only []
        split
        · exact h
        · exact h

theorem cancelMocker_aux2 (s : St) (id : Nat) : Aux2 (cancelMocker s id) = Aux2 s :=
  cancelGuard_aux2 s (s.mockers id).guard

/-- `applyBy*` extends the adapter table by at most the adapter it installs, which forwards to the implementation applied -/
theorem applyImp_adapt (env : Env) (s : St) (id : Nat) (imp : Imp) :
    AdaptLe s (applyImp env s id imp).1 ∧
    ((applyImp env s id imp).2 = none → Denotes env (applyImp env s id imp).1 (dest env s id imp) imp) := by
  have h := replaceFunc_aux2 env s (s.mockers id).target (dest env s id imp) (s.mockers id).origin
  unfold applyImp
  simp only []
  cases hres : replaceFunc env s (s.mockers id).target (dest env s id imp) (s.mockers id).origin with
  | mk s1 res =>
    rw [hres] at h
    cases res with
    | error e =>
      refine ⟨adaptLe_of_aux2 h, ?_⟩
      intro h'; cases h'
    | ok g =>
      simp only []
      by_cases hg : env.generic (s.mockers id).target = true
      · refine ⟨⟨by simp [hg], fun n hn => by
          have : n ≠ s.nAdapt := by omega
          simp [hg, upd, this]⟩, fun _ => Or.inr ⟨s.nAdapt, by simp [hg], by simp [dest, hg], by simp [hg, upd]⟩⟩
      · refine ⟨⟨by simp [hg], fun n _ => by simp [hg]⟩, fun _ => Or.inl (by simp [dest, hg])⟩

/-- `applyBy*` re-establishes ownership of its target (and keeps it everywhere else); it may start from a state in which the
    target's ownership is broken (`whens` has just replaced `m.imp`) -/
theorem applyImp_own {env : Env} (he : EnvOk env) {s : St} (hi : Inv env s) (id : Nat) (imp : Imp)
    (ho : OwnOn env s (fun f => f ≠ (s.mockers id).target)) (hid : id < s.nMockers)
    (hs : ∀ n, imp = .stub n → (s.mockers id).hasWhen = true ∧ n < s.nStubs) :
    OwnOn env (applyImp env s id imp).1 (fun _ => True) ∧
    ((applyImp env s id imp).2 = none → ((applyImp env s id imp).1.mockers id).imp = some imp) := by
  have haux := applyImp_aux env s id imp
  have hspec := applyImp_spec he hi id imp
  obtain ⟨r1, r2, r3, r4, r5, r6, _, r8⟩ := replaceFunc_spec he hi (s.mockers id).target (dest env s id imp) (s.mockers id).origin
  obtain ⟨q1, q2⟩ := replaceFunc_frame2 he hi (s.mockers id).target (dest env s id imp) (s.mockers id).origin
  -- facts about the result, branch by branch
  have facts : (∀ x, x ≠ (s.mockers id).target → (applyImp env s id imp).1.patches x = s.patches x) ∧
      (∀ g, g < s.nGuards → (applyImp env s id imp).1.guards g = s.guards g) ∧
      (∀ j, j ≠ id → (applyImp env s id imp).1.mockers j = s.mockers j) ∧
      ((applyImp env s id imp).2 = none → ((applyImp env s id imp).1.mockers id).imp = some imp) ∧
      ((applyImp env s id imp).2 = none → ∀ p g, (applyImp env s id imp).1.patches (s.mockers id).target = some p → p.guard = some g →
        ((applyImp env s id imp).1.mockers id).guard = some g ∧
        ((applyImp env s id imp).1.guards g).jumpBytes = jumpTo (dest env s id imp) ∧
        ((applyImp env s id imp).1.mockers id).canceled = false ∧
        ((applyImp env s id imp).1.mockers id).hasWhen = (s.mockers id).hasWhen) := by
    unfold applyImp
    simp only []
    cases hres : replaceFunc env s (s.mockers id).target (dest env s id imp) (s.mockers id).origin with
    | mk s1 res =>
      rw [hres] at r1 r2 r3 r4 r5 r6 r8 q1 q2
      simp only [] at r1 r2 r3 r4 r5 r6 r8 q1 q2
      cases res with
      | error e =>
        simp only []
        refine ⟨q1, q2, fun j _ => by rw [r4], ?_, ?_⟩
        · intro h; cases h
        · intro h; cases h
      | ok g =>
        simp only []
        obtain ⟨fr, _⟩ := r8 g rfl
        have hm : (guardApply s1 g).mockers = s.mockers := by simp [guardApply, r4]
        refine ⟨fun x hx => by simp [guardApply]; exact q1 x hx, ?_, ?_, fun _ => by simp [upd], ?_⟩
        · intro g' hg'
          have : g' ≠ g := by rw [fr.gid]; omega
          simp [guardApply, upd, this]; exact q2 g' hg'
        · intro j hj; simp [upd, hj, hm]
        · intro _ p g' h1 h2
          obtain ⟨p0, hp0, hg0⟩ := fr.registered
          have : (guardApply s1 g).patches = s1.patches := rfl
          rw [this, hp0] at h1
          cases h1
          rw [hg0] at h2; cases h2
          refine ⟨by simp [upd], ?_, by simp [upd], by simp [upd, hm]⟩
          simp [guardApply, upd, fr.jump]
  obtain ⟨F1, F2, F3, F4, F5⟩ := facts
  refine ⟨?_, F4⟩
  intro f p g _ h1 h2 h3 h4
  by_cases hf : f = (s.mockers id).target
  · -- the target: pristine after an error, owned by `id` after success
    subst hf
    cases hok : (applyImp env s id imp).2 with
    | some e =>
      exact absurd (hspec.2.2.2.1 (by rw [hok]; simp)) h4
    | none =>
      obtain ⟨a, b, c, d⟩ := F5 hok p g h1 h2
      refine ⟨id, imp, ?_, a, F4 hok, ⟨dest env s id imp, b, (applyImp_adapt env s id imp).2 hok⟩, c, ?_⟩
      · have : (applyImp env s id imp).1.nMockers = s.nMockers := congrArg (fun t => t.1) haux
        omega
      · intro n hn
        have := hs n hn
        have hst : (applyImp env s id imp).1.nStubs = s.nStubs := congrArg (fun t => t.2.1) haux
        exact ⟨by rw [d]; exact this.1, by rw [hst]; exact this.2⟩
  · have T := ownOn_transfer (s' := (applyImp env s id imp).1) (P' := fun f => f ≠ (s.mockers id).target) hi ho (fun _ h => h)
      (fun x hx => F1 x hx) F2 (fun x hx => Or.inl (hspec.2.1 x hx))
      (fun j x _ hx ht => by
        have : j ≠ id := fun h => hx (by rw [← ht, h])
        rw [F3 j this])
      (by have : (applyImp env s id imp).1.nMockers = s.nMockers := congrArg (fun t => t.1) haux
          omega)
      (by have : (applyImp env s id imp).1.nStubs = s.nStubs := congrArg (fun t => t.2.1) haux
          omega)
      (applyImp_adapt env s id imp).1
    exact T f p g hf h1 h2 h3 h4

theorem ownOn_weaken {env : Env} {s : St} {P P' : Nat → Prop} (ho : OwnOn env s P) (h : ∀ f, P' f → P f) : OwnOn env s P' :=
  fun f p g hp => ho f p g (h f hp)

/-- mockers whose view is unchanged (or that cannot be a witness) keep ownership -/
theorem ownOn_mockers {env : Env} {s s' : St} {P : Nat → Prop} (hi : Inv env s) (ho : OwnOn env s P)
    (hpat : s'.patches = s.patches) (hgd : s'.guards = s.guards) (htx : s'.text = s.text)
    (hm : ∀ id f, id < s.nMockers → P f → (s.mockers id).target = f → mv (s'.mockers id) = mv (s.mockers id))
    (hn : s.nMockers ≤ s'.nMockers) (hst : s.nStubs ≤ s'.nStubs) (hna : s'.nAdapt = s.nAdapt) (had : s'.adapt = s.adapt) : OwnOn env s' P :=
  ownOn_transfer hi ho (fun _ h => h) (fun _ _ => by rw [hpat]) (fun _ _ => by rw [hgd]) (fun _ _ => Or.inl (by rw [htx])) hm hn hst
    (AdaptLe.of_eq hna had)

theorem setOrigin_own {env : Env} {s : St} {P : Nat → Prop} (hi : Inv env s) (ho : OwnOn env s P) (id : Nat) (o : Option Nat) :
    OwnOn env (setOrigin s id o) P := by
  cases o with
  | none => exact ho
  | some o =>
    refine ownOn_mockers hi ho rfl rfl rfl ?_ (Nat.le_refl _) (Nat.le_refl _) rfl rfl
    intro j f _ _ _
    by_cases hj : j = id <;> simp [setOrigin, upd, hj, mv]

/-- `whens` replaces `m.imp`: ownership may break for the mocker's own target only -/
theorem whens_own {env : Env} {s : St} (hi : Inv env s) (ho : OwnOn env s (fun _ => True)) (id : Nat) :
    OwnOn env (whens s id) (fun f => f ≠ ((whens s id).mockers id).target) := by
  have ht : ((whens s id).mockers id).target = (s.mockers id).target := by simp [whens, upd]
  rw [ht]
  refine ownOn_mockers hi (ownOn_weaken ho (fun _ _ => trivial)) rfl rfl rfl ?_ (Nat.le_refl _) (by simp [whens]) rfl rfl
  intro j f _ hf htg
  have : j ≠ id := fun h => hf (by rw [← htg, h])
  simp [whens, upd, this]

theorem clearWhen_own {env : Env} {s : St} (ho : OwnOn env s (fun _ => True)) (id k : Nat)
    (hk : (s.mockers id).imp = some (.cb k)) : OwnOn env (clearWhen s id) (fun _ => True) := by
  intro f p g _ h1 h2 h3 h4
  obtain ⟨j, imp, hlt, hg, him, hj, hc, hs⟩ := ho f p g trivial h1 h2 h3 h4
  by_cases e : j = id
  · subst e
    rw [hk] at him; cases him
    exact ⟨j, .cb k, hlt, by simp [clearWhen, upd, hg], by simp [clearWhen, upd, hk], hj, by simp [clearWhen, upd, hc],
      fun n hn => by cases hn⟩
  · exact ⟨j, imp, hlt, by simp [clearWhen, upd, e, hg], by simp [clearWhen, upd, e, him], hj, by simp [clearWhen, upd, e, hc],
      fun n hn => by simpa [clearWhen, upd, e] using hs n hn⟩

theorem applyCb_own {env : Env} (he : EnvOk env) {s : St} (hi : Inv env s) (id k : Nat)
    (ho : OwnOn env s (fun f => f ≠ (s.mockers id).target)) (hid : id < s.nMockers) :
    OwnOn env (applyCb env s id k).1 (fun _ => True) := by
  obtain ⟨a1, a2⟩ := applyImp_own he hi id (.cb k) ho hid (fun n h => by cases h)
  unfold applyCb
  cases h : (applyImp env s id (.cb k)).2 with
  | none => exact clearWhen_own a1 id k (a2 h)
  | some e => exact a1

theorem cancelMocker_own {env : Env} (he : EnvOk env) {s : St} (hi : Inv env s) (ho : OwnOn env s (fun _ => True)) (id : Nat) :
    OwnOn env (cancelMocker s id) (fun _ => True) := by
  obtain ⟨c1, c2, c3, c4, _, _, c7, c8, _⟩ :=
    cancelGuard_spec he hi (s.mockers id).guard (s.mockers id).target (fun g h => hi.mg id g h)
  have hp : (cancelGuard s (s.mockers id).guard).patches = s.patches := by
    cases (s.mockers id).guard with
    | none => rfl
    | some g => exact (guardUnpatch_fields s g).1
  intro f p g _ h1 h2 h3 h4
  -- the final state differs from `cancelGuard ..` only in mocker `id`
  have h1' : s.patches f = some p := by rw [← hp]; exact h1
  have h3' : (s.guards g).applied = true := by rw [← c7]; exact h3
  have h4' : (cancelGuard s (s.mockers id).guard).text f ≠ env.pristine f := h4
  have ht : s.text f ≠ env.pristine f := by
    rcases c3 f with e | e
    · rw [e] at h4'; exact h4'
    · exact absurd e h4'
  obtain ⟨j, imp, hlt, hg, him, hj, hc, hs⟩ := ho f p g trivial h1' h2 h3' ht
  have hne : j ≠ id := by
    intro e
    subst e
    have hr := hi.reg f p g h1' h2
    have := c4 g hg h3'
    rw [← (hi.mg j g hg).2, hr.2] at this
    exact h4' this
  have hmk : (cancelMocker s id).mockers j = s.mockers j := by
    simp [cancelMocker, markCanceled, upd, hne, c8]
  have hgd : (cancelMocker s id).guards = s.guards := c7
  have hnm : (cancelMocker s id).nMockers = s.nMockers := congrArg (fun t => t.1) (cancelMocker_aux s id)
  have hns : (cancelMocker s id).nStubs = s.nStubs := congrArg (fun t => t.2.1) (cancelMocker_aux s id)
  exact ⟨j, imp, by omega, by rw [hmk]; exact hg, by rw [hmk]; exact him,
    hj.transfer (by rw [hgd]) (adaptLe_of_aux2 (cancelMocker_aux2 s id)), by rw [hmk]; exact hc,
    fun n hn => by rw [hmk, hns]; exact hs n hn⟩

theorem cancelKeys_own {env : Env} (he : EnvOk env) (b : Nat) (ks : List Nat) : ∀ {s : St}, Inv env s →
    OwnOn env s (fun _ => True) → OwnOn env (cancelKeys s b ks) (fun _ => True) := by
  induction ks with
  | nil => intro s _ ho; exact ho
  | cons k ks ih =>
    intro s hi ho
    unfold cancelKeys
    cases s.cache b k with
    | none => exact ih hi ho
    | some id => exact ih (cancelMocker_spec he hi id).1 (cancelMocker_own he hi ho id)

theorem getMocker_own {env : Env} {s : St} (hi : Inv env s) (ho : OwnOn env s (fun _ => True)) (o key : Nat) :
    OwnOn env (getMocker s o key).1 (fun _ => True) ∧ (getMocker s o key).2 < (getMocker s o key).1.nMockers ∧
    s.nMockers ≤ (getMocker s o key).1.nMockers ∧ (getMocker s o key).1.handle = s.handle := by
  have hf : OwnOn env (getMocker.fresh s o key).1 (fun _ => True) := by
    refine ownOn_mockers hi ho rfl rfl rfl ?_ (by simp [getMocker.fresh]) (Nat.le_refl _) rfl rfl
    intro j f hlt _ _
    have : j ≠ s.nMockers := by omega
    simp [getMocker.fresh, upd, this]
  unfold getMocker
  cases hc : s.cache o key with
  | none => exact ⟨hf, by simp [getMocker.fresh], by simp [getMocker.fresh], rfl⟩
  | some id =>
    simp only []
    split
    · exact ⟨hf, by simp [getMocker.fresh], by simp [getMocker.fresh], rfl⟩
    · exact ⟨ho, (hi.ck o key id hc).2.2, Nat.le_refl _, rfl⟩

/-- **Ownership invariant.** -/
structure Own (env : Env) (s : St) : Prop where
  own : OwnOn env s (fun _ => True)
  hnd : ∀ b key id, s.handle b key = some id → id < s.nMockers

theorem own_init (env : Env) : Own env (init env) := by
  refine ⟨?_, ?_⟩
  · intro f p g _ h1; simp [init] at h1
  · intro b key id h; simp [init] at h

theorem setOrigin_aux (s : St) (id : Nat) (o : Option Nat) : Aux (setOrigin s id o) = Aux s := by
  cases o <;> rfl

theorem aux_nm {s s' : St} (h : Aux s' = Aux s) : s'.nMockers = s.nMockers := congrArg (fun t => t.1) h
theorem aux_hd {s s' : St} (h : Aux s' = Aux s) : s'.handle = s.handle := congrArg (fun t => t.2.2.1) h

theorem own_of_aux {env : Env} {s s' : St} (ho : Own env s) (h : Aux s' = Aux s) (hown : OwnOn env s' (fun _ => True)) : Own env s' :=
  ⟨hown, fun b key id hh => by rw [aux_hd h] at hh; rw [aux_nm h]; exact ho.hnd b key id hh⟩

theorem doApply_own {env : Env} (he : EnvOk env) {s : St} (hi : Inv env s) (ho : Own env s) (o key k : Nat) (origin : Option Nat) :
    Own env (doApply env s o key k origin).1 := by
  obtain ⟨g1, g2, g3, g4⟩ := getMocker_own hi ho.own o key
  have i1 := (getMocker_spec hi o key).1
  have i2 := (setOrigin_spec i1 (getMocker s o key).2 origin).1
  have o2 := setOrigin_own i1 g1 (getMocker s o key).2 origin
  have a2 := setOrigin_aux (getMocker s o key).1 (getMocker s o key).2 origin
  have hid : (getMocker s o key).2 < (setOrigin (getMocker s o key).1 (getMocker s o key).2 origin).nMockers := by
    rw [aux_nm a2]; exact g2
  have r := applyCb_own he i2 (getMocker s o key).2 k (ownOn_weaken o2 (fun _ _ => trivial)) hid
  have ar := applyCb_aux env (setOrigin (getMocker s o key).1 (getMocker s o key).2 origin) (getMocker s o key).2 k
  refine ⟨r, ?_⟩
  intro b key' id hh
  show id < (applyCb env _ _ _).1.nMockers
  have hh' : (applyCb env (setOrigin (getMocker s o key).1 (getMocker s o key).2 origin) (getMocker s o key).2 k).1.handle b key' = some id := hh
  rw [aux_hd ar, aux_hd a2, g4] at hh'
  rw [aux_nm ar, aux_nm a2]
  exact Nat.lt_of_lt_of_le (ho.hnd b key' id hh') g3

theorem retCore_own {env : Env} (he : EnvOk env) {s : St} (hi : Inv env s) (ho : OwnOn env s (fun _ => True)) (id : Nat)
    (hid : id < s.nMockers) :
    OwnOn env (applyImp env (whens s id) id (.stub s.nStubs)).1 (fun _ => True) ∧
    Aux (applyImp env (whens s id) id (.stub s.nStubs)).1 = (s.nMockers, s.nStubs + 1, s.handle, s.scache, s.nStructs, s.scanceled, s.shandle) := by
  have iw := (whens_spec hi id).1
  have ow := whens_own hi ho id
  refine ⟨(applyImp_own he iw id (.stub s.nStubs) ow hid ?_).1, ?_⟩
  · intro n hn; cases hn; simp [whens, upd]
  · rw [applyImp_aux]; rfl

theorem doRet_own {env : Env} (he : EnvOk env) {s : St} (hi : Inv env s) (ho : Own env s) (o key : Nat) (origin : Option Nat) :
    Own env (doRet env s o key origin).1 := by
  obtain ⟨g1, g2, g3, g4⟩ := getMocker_own hi ho.own o key
  have i1 := (getMocker_spec hi o key).1
  have i2 := (setOrigin_spec i1 (getMocker s o key).2 origin).1
  have o2 := setOrigin_own i1 g1 (getMocker s o key).2 origin
  have a2 := setOrigin_aux (getMocker s o key).1 (getMocker s o key).2 origin
  have hid : (getMocker s o key).2 < (setOrigin (getMocker s o key).1 (getMocker s o key).2 origin).nMockers := by
    rw [aux_nm a2]; exact g2
  have hnd2 : ∀ b key' id, (setOrigin (getMocker s o key).1 (getMocker s o key).2 origin).handle b key' = some id →
      id < (setOrigin (getMocker s o key).1 (getMocker s o key).2 origin).nMockers := by
    intro b key' id hh
    rw [aux_hd a2, g4] at hh; rw [aux_nm a2]
    exact Nat.lt_of_lt_of_le (ho.hnd b key' id hh) g3
  unfold doRet
  split
  · exact ⟨o2, hnd2⟩
  · obtain ⟨r1, r2⟩ := retCore_own he i2 o2 (getMocker s o key).2 hid
    refine ⟨r1, ?_⟩
    intro b key' id hh
    have e1 := congrArg (fun t => t.1) r2
    have e2 := congrArg (fun t => t.2.2.1) r2
    simp only [Aux] at e1 e2
    rw [e2] at hh; rw [e1]; exact hnd2 b key' id hh

theorem doCancel_own {env : Env} (he : EnvOk env) {s : St} (hi : Inv env s) (ho : Own env s) (o key : Nat) :
    Own env (doCancel s o key) := by
  obtain ⟨g1, g2, g3, g4⟩ := getMocker_own hi ho.own o key
  have i1 := (getMocker_spec hi o key).1
  refine ⟨cancelMocker_own he i1 g1 _, ?_⟩
  intro b key' id hh
  have a := cancelMocker_aux (getMocker s o key).1 (getMocker s o key).2
  have hh' : (cancelMocker (getMocker s o key).1 (getMocker s o key).2).handle b key' = some id := hh
  rw [aux_hd a, g4] at hh'
  show id < (cancelMocker _ _).nMockers
  rw [aux_nm a]
  exact Nat.lt_of_lt_of_le (ho.hnd b key' id hh') g3

theorem doKeep_own {env : Env} {s : St} (hi : Inv env s) (ho : Own env s) (o b key : Nat) : Own env (doKeep s o b key) := by
  obtain ⟨g1, g2, g3, g4⟩ := getMocker_own hi ho.own o key
  refine ⟨g1, ?_⟩
  intro b' key' id hh
  show id < (getMocker s o key).1.nMockers
  simp only [doKeep] at hh
  by_cases hb : b' = b ∧ key' = key
  · simp [hb] at hh; rw [← hh]; exact g2
  · simp only [hb, if_false] at hh
    rw [g4] at hh
    exact Nat.lt_of_lt_of_le (ho.hnd b' key' id hh) g3

theorem getStruct_own {env : Env} {s : St} (ho : Own env s) (b : Nat) : Own env (getStruct s b).1 := by
  have hf : Own env (getStruct.fresh s b).1 := ⟨ho.own, ho.hnd⟩
  unfold getStruct
  cases s.scache b with
  | none => exact hf
  | some o =>
    simp only []
    split
    · exact hf
    · exact ho

theorem structOf_own {env : Env} {s : St} (ho : Own env s) (b : Nat) (kept : Bool) (r : St × Nat)
    (h : structOf s b kept = some r) : Own env r.1 := by
  unfold structOf at h
  split at h
  · cases hs : s.shandle b with
    | none => rw [hs] at h; cases h
    | some o => rw [hs] at h; cases h; exact ho
  · cases h; exact getStruct_own ho b

/-- **Ownership, step.** -/
theorem own_step {env : Env} (he : EnvOk env) {s : St} (hi : Inv env s) (ho : Own env s) (op : Op) : Own env (step env s op).1 := by
  cases op with
  | apply b key k origin => exact doApply_own he hi ho b key k origin
  | ret b key origin => exact doRet_own he hi ho b key origin
  | cancel b key => exact doCancel_own he hi ho b key
  | reset b =>
    show Own env (resetB s b)
    refine own_of_aux ho (resetB_aux s b) ?_
    unfold resetB
    cases s.scache b with
    | none => exact cancelKeys_own he b _ hi ho.own
    | some o => exact cancelKeys_own he o _ (cancelKeys_spec he b _ hi).1 (cancelKeys_own he b _ hi ho.own)
  | keep b key => exact doKeep_own hi ho b b key
  | applyH b key k =>
    simp only [step]
    cases hh : s.handle b key with
    | none => exact ho
    | some id =>
      exact own_of_aux ho (applyCb_aux env s id k)
        (applyCb_own he hi id k (ownOn_weaken ho.own (fun _ _ => trivial)) (ho.hnd b key id hh))
  | retH b key =>
    simp only [step]
    cases hh : s.handle b key with
    | none => exact ho
    | some id =>
      simp only []
      split
      · exact ho
      · obtain ⟨r1, r2⟩ := retCore_own he hi ho.own id (ho.hnd b key id hh)
        refine ⟨r1, ?_⟩
        intro b' key' id' h'
        have e1 := congrArg (fun t => t.1) r2
        have e2 := congrArg (fun t => t.2.2.1) r2
        simp only [Aux] at e1 e2
        rw [e2] at h'; rw [e1]; exact ho.hnd b' key' id' h'
  | cancelH b key =>
    simp only [step]
    cases hh : s.handle b key with
    | none => exact ho
    | some id => exact own_of_aux ho (cancelMocker_aux s id) (cancelMocker_own he hi ho.own id)
  | keepS b =>
    have g := getStruct_own ho b
    exact ⟨g.own, g.hnd⟩
  | sapply b key k origin kept =>
    simp only [step]
    cases h : structOf s b kept with
    | none => exact ho
    | some r => exact doApply_own he (structOf_spec hi b kept r h).1 (structOf_own ho b kept r h) r.2 key k origin
  | sret b key origin kept =>
    simp only [step]
    cases h : structOf s b kept with
    | none => exact ho
    | some r => exact doRet_own he (structOf_spec hi b kept r h).1 (structOf_own ho b kept r h) r.2 key origin
  | scancel b key kept =>
    simp only [step]
    cases h : structOf s b kept with
    | none => exact ho
    | some r => exact doCancel_own he (structOf_spec hi b kept r h).1 (structOf_own ho b kept r h) r.2 key
  | skeep b key kept =>
    simp only [step]
    cases h : structOf s b kept with
    | none => exact ho
    | some r => exact doKeep_own (structOf_spec hi b kept r h).1 (structOf_own ho b kept r h) r.2 b key
  | other b => exact ho
  | applyBad b key =>
    obtain ⟨g1, _, g3, g4⟩ := getMocker_own hi ho.own b key
    exact ⟨g1, fun b' key' id hh => by
      have hh' : (getMocker s b key).1.handle b' key' = some id := hh
      rw [g4] at hh'
      exact Nat.lt_of_lt_of_le (ho.hnd b' key' id hh') g3⟩

/-! ### success of `replaceFunc` means the NOP-sentinel test passed on pristine bytes, so the jump differs from them -/

theorem replaceFunc_ok_nop {env : Env} (he : EnvOk env) {s : St} (hi : Inv env s) (f : Nat) (to : BitVec 64) (tramp : Option Nat) (g : Nat)
    (h : (replaceFunc env s f to tramp).2 = .ok g) : Gen.Amd64.checkAlreadyPatch ((env.pristine f).take 13) = false := by
  have ht1 := (unpatchValue_spec he hi f).2.1
  have hread : ((register (unpatchValue s f) f { originBytes := [], jumpBytes := [], guard := none }).text f).take (jumpTo to).length
      = (env.pristine f).take 13 := by
    rw [jump_length]; show ((unpatchValue s f).text f).take 13 = _; rw [ht1]
  unfold replaceFunc at h
  simp only [] at h
  split at h
  · cases h
  · split at h
    · cases h
    · rename_i hc
      rw [hread] at hc
      simpa using hc

theorem jump_ne_of_nop (to : BitVec 64) (bs : Bytes) (h : Gen.Amd64.checkAlreadyPatch bs = false) : jumpTo to ≠ bs := by
  intro e
  rw [← e] at h
  simp [jumpTo, Gen.Amd64.jmpToFunctionValue, Gen.Amd64.checkAlreadyPatch] at h

theorem applyImp_ok_ne {env : Env} (he : EnvOk env) {s : St} (hi : Inv env s) (id : Nat) (imp : Imp)
    (h : (applyImp env s id imp).2 = none) :
    jumpTo (dest env s id imp) ≠ (env.pristine (s.mockers id).target).take 13 := by
  unfold applyImp at h
  simp only [] at h
  cases hres : replaceFunc env s (s.mockers id).target (dest env s id imp) (s.mockers id).origin with
  | mk s1 res =>
    rw [hres] at h
    cases res with
    | error e => simp at h
    | ok g =>
      have := replaceFunc_ok_nop he hi (s.mockers id).target (dest env s id imp) (s.mockers id).origin g (by rw [hres])
      exact jump_ne_of_nop _ _ this

theorem applyImp_hasWhen {env : Env} (he : EnvOk env) {s : St} (hi : Inv env s) (id : Nat) (imp : Imp) (j : Nat) :
    ((applyImp env s id imp).1.mockers j).hasWhen = (s.mockers j).hasWhen := by
  obtain ⟨_, _, _, r4, _⟩ := replaceFunc_spec he hi (s.mockers id).target (dest env s id imp) (s.mockers id).origin
  unfold applyImp
  simp only []
  cases hres : replaceFunc env s (s.mockers id).target (dest env s id imp) (s.mockers id).origin with
  | mk s1 res =>
    rw [hres] at r4
    simp only [] at r4
    cases res with
    | error e => simp only []; rw [r4]
    | ok g => simp only []; by_cases hj : j = id <;> simp [upd, hj, guardApply, r4]

theorem applyImp_imp_ok (env : Env) (s : St) (id : Nat) (imp : Imp) (h : (applyImp env s id imp).2 = none) :
    ((applyImp env s id imp).1.mockers id).imp = some imp := by
  unfold applyImp at h ⊢
  simp only [] at h ⊢
  cases hres : replaceFunc env s (s.mockers id).target (dest env s id imp) (s.mockers id).origin with
  | mk s1 res =>
    rw [hres] at h
    cases res with
    | error e => simp at h
    | ok g => simp [upd]

theorem applyCb_aux2 (env : Env) (s : St) (id k : Nat) : Aux2 (applyCb env s id k).1 = Aux2 (applyImp env s id (.cb k)).1 := by
  unfold applyCb
  cases (applyImp env s id (.cb k)).2 with
  | none => rfl
  | some e => rfl

/-- a successful `Apply(cb k)` on the mocker owner `o` hands out for `key`: exactly one entry jump over pristine bytes, leading to
    the callback's funcval — directly, or for a generic target through a freshly installed adapter that forwards to it -/
theorem doApply_ok {env : Env} (he : EnvOk env) {s : St} (hi : Inv env s) (o key k : Nat) (origin : Option Nat)
    (h : (doApply env s o key k origin).2 = none) :
    ∃ a, (doApply env s o key k origin).1.text (key % 1000) = overwrite (env.pristine (key % 1000)) (jumpTo a) ∧
      jumpTo a ≠ (env.pristine (key % 1000)).take 13 ∧ Denotes env (doApply env s o key k origin).1 a (.cb k) ∧
      (env.generic (key % 1000) = false → a = env.cbAddr k) := by
  obtain ⟨g1, _, g3, _, _⟩ := getMocker_spec hi o key
  obtain ⟨o1, _, _, _, _, o6⟩ := setOrigin_spec g1 (getMocker s o key).2 origin
  have ht : ((setOrigin (getMocker s o key).1 (getMocker s o key).2 origin).mockers (getMocker s o key).2).target = key % 1000 := by
    rw [(o6 _).1, g3]
  obtain ⟨_, c2, c3, _, _⟩ := applyCb_spec he o1 (getMocker s o key).2 k
  have h' : (applyImp env (setOrigin (getMocker s o key).1 (getMocker s o key).2 origin) (getMocker s o key).2 (.cb k)).2 = none := by
    rw [← c3]; exact h
  have a := (applyImp_spec he o1 (getMocker s o key).2 (.cb k)).2.2.1 h'
  have b := applyImp_ok_ne he o1 (getMocker s o key).2 (.cb k) h'
  have d := (applyImp_adapt env (setOrigin (getMocker s o key).1 (getMocker s o key).2 origin) (getMocker s o key).2 (.cb k)).2 h'
  rw [ht] at a b
  refine ⟨_, by show (applyCb env _ _ _).1.text _ = _; rw [c2]; exact a, b, ?_, ?_⟩
  · exact d.mono (adaptLe_of_aux2 (applyCb_aux2 env _ _ k))
  · intro hng; simp [dest, ht, hng, impAddr]

/-- a successful `Return`/`When` that builds a new `When`: exactly one entry jump, leading to the new stub (through an adapter for
    a generic target), whose `When` the mocker owns -/
theorem doRet_ok {env : Env} (he : EnvOk env) {s : St} (hi : Inv env s) (o key : Nat) (origin : Option Nat)
    (hw : ((setOrigin (getMocker s o key).1 (getMocker s o key).2 origin).mockers (getMocker s o key).2).hasWhen = false)
    (h : (doRet env s o key origin).2 = none) :
    (∃ a, (doRet env s o key origin).1.text (key % 1000) = overwrite (env.pristine (key % 1000)) (jumpTo a) ∧
      jumpTo a ≠ (env.pristine (key % 1000)).take 13 ∧ Denotes env (doRet env s o key origin).1 a (.stub s.nStubs) ∧
      (env.generic (key % 1000) = false → a = env.stubAddr s.nStubs)) ∧
    (doRet env s o key origin).1.nStubs = s.nStubs + 1 ∧
    ((doRet env s o key origin).1.mockers (getMocker s o key).2).hasWhen = true ∧
    ((doRet env s o key origin).1.mockers (getMocker s o key).2).imp = some (.stub s.nStubs) := by
  obtain ⟨g1, _, g3, _, _⟩ := getMocker_spec hi o key
  obtain ⟨o1, _, _, _, _, o6⟩ := setOrigin_spec g1 (getMocker s o key).2 origin
  have hns : (setOrigin (getMocker s o key).1 (getMocker s o key).2 origin).nStubs = s.nStubs := by
    have e1 : (setOrigin (getMocker s o key).1 (getMocker s o key).2 origin).nStubs = (getMocker s o key).1.nStubs :=
      congrArg (fun t => t.2.1) (setOrigin_aux _ _ _)
    rw [e1]
    unfold getMocker
    cases s.cache o key with
    | none => rfl
    | some id => simp only []; split <;> rfl
  obtain ⟨w1, _, _, _, w5⟩ := whens_spec o1 (getMocker s o key).2
  have ht : ((whens (setOrigin (getMocker s o key).1 (getMocker s o key).2 origin) (getMocker s o key).2).mockers (getMocker s o key).2).target
      = key % 1000 := by rw [(w5 _).1, (o6 _).1, g3]
  unfold doRet at h ⊢
  simp only [hw, Bool.false_eq_true, ↓reduceIte] at h ⊢
  rw [hns] at h ⊢
  have a := (applyImp_spec he w1 (getMocker s o key).2 (.stub s.nStubs)).2.2.1 h
  have b := applyImp_ok_ne he w1 (getMocker s o key).2 (.stub s.nStubs) h
  have d := (applyImp_adapt env (whens (setOrigin (getMocker s o key).1 (getMocker s o key).2 origin) (getMocker s o key).2)
    (getMocker s o key).2 (.stub s.nStubs)).2 h
  rw [ht] at a b
  have aux := applyImp_aux env (whens (setOrigin (getMocker s o key).1 (getMocker s o key).2 origin) (getMocker s o key).2)
    (getMocker s o key).2 (.stub s.nStubs)
  refine ⟨⟨_, a, b, d, ?_⟩, ?_, ?_, applyImp_imp_ok _ _ _ _ h⟩
  · intro hng; simp [dest, ht, hng, impAddr]
  · have := congrArg (fun t => t.2.1) aux
    simp only [Aux] at this
    rw [this]; simp [whens, hns]
  · rw [applyImp_hasWhen he w1]; simp [whens, upd]

/-! ### the stub counter never decreases -/

theorem aux_ns {s s' : St} (h : Aux s' = Aux s) : s'.nStubs = s.nStubs := congrArg (fun t => t.2.1) h

theorem getMocker_nStubs (s : St) (o key : Nat) : (getMocker s o key).1.nStubs = s.nStubs := by
  unfold getMocker
  cases s.cache o key with
  | none => rfl
  | some id => simp only []; split <;> rfl

theorem doApply_nStubs (env : Env) (s : St) (o key k : Nat) (origin : Option Nat) :
    (doApply env s o key k origin).1.nStubs = s.nStubs := by
  show (applyCb env _ _ _).1.nStubs = _
  rw [aux_ns (applyCb_aux _ _ _ _), aux_ns (setOrigin_aux _ _ _), getMocker_nStubs]

theorem doRet_nStubs (env : Env) (s : St) (o key : Nat) (origin : Option Nat) :
    s.nStubs ≤ (doRet env s o key origin).1.nStubs := by
  have e : (setOrigin (getMocker s o key).1 (getMocker s o key).2 origin).nStubs = s.nStubs := by
    rw [aux_ns (setOrigin_aux _ _ _), getMocker_nStubs]
  unfold doRet
  split
  · rw [e]; exact Nat.le_refl _
  · rw [aux_ns (applyImp_aux _ _ _ _)]; simp [whens, e]

theorem doCancel_nStubs (s : St) (o key : Nat) : (doCancel s o key).nStubs = s.nStubs := by
  show (cancelMocker _ _).nStubs = _
  rw [aux_ns (cancelMocker_aux _ _), getMocker_nStubs]

theorem getStruct_nStubs (s : St) (b : Nat) : (getStruct s b).1.nStubs = s.nStubs := by
  unfold getStruct
  cases s.scache b with
  | none => rfl
  | some o => simp only []; split <;> rfl

theorem structOf_nStubs (s : St) (b : Nat) (kept : Bool) (r : St × Nat) (h : structOf s b kept = some r) : r.1.nStubs = s.nStubs := by
  unfold structOf at h
  split at h
  · cases hs : s.shandle b with
    | none => rw [hs] at h; cases h
    | some o => rw [hs] at h; cases h; rfl
  · cases h; exact getStruct_nStubs s b

theorem step_nStubs_mono (env : Env) (s : St) (op : Op) : s.nStubs ≤ (step env s op).1.nStubs := by
  cases op with
  | apply b key k origin => exact Nat.le_of_eq (doApply_nStubs env s b key k origin).symm
  | ret b key origin => exact doRet_nStubs env s b key origin
  | cancel b key => exact Nat.le_of_eq (doCancel_nStubs s b key).symm
  | reset b => exact Nat.le_of_eq (aux_ns (resetB_aux s b)).symm
  | keep b key => exact Nat.le_of_eq (getMocker_nStubs s b key).symm
  | applyH b key k =>
    simp only [step]
    cases s.handle b key with
    | none => exact Nat.le_refl _
    | some id => exact Nat.le_of_eq (aux_ns (applyCb_aux env s id k)).symm
  | retH b key =>
    simp only [step]
    cases s.handle b key with
    | none => exact Nat.le_refl _
    | some id =>
      simp only []
      split
      · exact Nat.le_refl _
      · rw [aux_ns (applyImp_aux _ _ _ _)]; simp [whens]
  | cancelH b key =>
    simp only [step]
    cases s.handle b key with
    | none => exact Nat.le_refl _
    | some id => exact Nat.le_of_eq (aux_ns (cancelMocker_aux s id)).symm
  | keepS b => exact Nat.le_of_eq (getStruct_nStubs s b).symm
  | sapply b key k origin kept =>
    simp only [step]
    cases h : structOf s b kept with
    | none => exact Nat.le_refl _
    | some r => simp only []; rw [doApply_nStubs, structOf_nStubs s b kept r h]; exact Nat.le_refl _
  | sret b key origin kept =>
    simp only [step]
    cases h : structOf s b kept with
    | none => exact Nat.le_refl _
    | some r => simp only []; rw [← structOf_nStubs s b kept r h]; exact doRet_nStubs env r.1 r.2 key origin
  | scancel b key kept =>
    simp only [step]
    cases h : structOf s b kept with
    | none => exact Nat.le_refl _
    | some r => simp only []; rw [doCancel_nStubs, structOf_nStubs s b kept r h]; exact Nat.le_refl _
  | skeep b key kept =>
    simp only [step]
    cases h : structOf s b kept with
    | none => exact Nat.le_refl _
    | some r =>
      simp only []
      show s.nStubs ≤ (getMocker r.1 r.2 key).1.nStubs
      rw [getMocker_nStubs, structOf_nStubs s b kept r h]; exact Nat.le_refl _
  | other b => exact Nat.le_refl _
  | applyBad b key => exact Nat.le_of_eq (getMocker_nStubs s b key).symm

/-! ### what `Canceled()` answers for a struct mocker is never changed -/

theorem aux_sc {s s' : St} (h : Aux s' = Aux s) : s'.scanceled = s.scanceled := congrArg (fun t => t.2.2.2.2.2.1) h

theorem getMocker_scanceled (s : St) (o key : Nat) : (getMocker s o key).1.scanceled = s.scanceled := by
  unfold getMocker
  cases s.cache o key with
  | none => rfl
  | some id => simp only []; split <;> rfl

theorem doApply_scanceled (env : Env) (s : St) (o key k : Nat) (origin : Option Nat) :
    (doApply env s o key k origin).1.scanceled = s.scanceled := by
  show (applyCb env _ _ _).1.scanceled = _
  rw [aux_sc (applyCb_aux _ _ _ _), aux_sc (setOrigin_aux _ _ _), getMocker_scanceled]

theorem doRet_scanceled (env : Env) (s : St) (o key : Nat) (origin : Option Nat) :
    (doRet env s o key origin).1.scanceled = s.scanceled := by
  have e : (setOrigin (getMocker s o key).1 (getMocker s o key).2 origin).scanceled = s.scanceled := by
    rw [aux_sc (setOrigin_aux _ _ _), getMocker_scanceled]
  unfold doRet
  split
  · exact e
  · rw [aux_sc (applyImp_aux _ _ _ _)]; exact e

theorem doCancel_scanceled (s : St) (o key : Nat) : (doCancel s o key).scanceled = s.scanceled := by
  show (cancelMocker _ _).scanceled = _
  rw [aux_sc (cancelMocker_aux _ _), getMocker_scanceled]

theorem getStruct_scanceled (s : St) (b : Nat) : (getStruct s b).1.scanceled = s.scanceled := by
  unfold getStruct
  cases s.scache b with
  | none => rfl
  | some o => simp only []; split <;> rfl

theorem structOf_scanceled (s : St) (b : Nat) (kept : Bool) (r : St × Nat) (h : structOf s b kept = some r) :
    r.1.scanceled = s.scanceled := by
  unfold structOf at h
  split at h
  · cases hs : s.shandle b with
    | none => rw [hs] at h; cases h
    | some o => rw [hs] at h; cases h; rfl
  · cases h; exact getStruct_scanceled s b

theorem step_scanceled (env : Env) (s : St) (op : Op) : (step env s op).1.scanceled = s.scanceled := by
  cases op with
  | apply b key k origin => exact doApply_scanceled env s b key k origin
  | ret b key origin => exact doRet_scanceled env s b key origin
  | cancel b key => exact doCancel_scanceled s b key
  | reset b => exact aux_sc (resetB_aux s b)
  | keep b key => exact getMocker_scanceled s b key
  | applyH b key k =>
    simp only [step]
    cases s.handle b key with
    | none => rfl
    | some id => exact aux_sc (applyCb_aux env s id k)
  | retH b key =>
    simp only [step]
    cases s.handle b key with
    | none => rfl
    | some id =>
      simp only []
      split
      · rfl
      · rw [aux_sc (applyImp_aux _ _ _ _)]; rfl
  | cancelH b key =>
    simp only [step]
    cases s.handle b key with
    | none => rfl
    | some id => exact aux_sc (cancelMocker_aux s id)
  | keepS b => exact getStruct_scanceled s b
  | sapply b key k origin kept =>
    simp only [step]
    cases h : structOf s b kept with
    | none => rfl
    | some r => simp only []; rw [doApply_scanceled, structOf_scanceled s b kept r h]
  | sret b key origin kept =>
    simp only [step]
    cases h : structOf s b kept with
    | none => rfl
    | some r => simp only []; rw [doRet_scanceled, structOf_scanceled s b kept r h]
  | scancel b key kept =>
    simp only [step]
    cases h : structOf s b kept with
    | none => rfl
    | some r => simp only []; rw [doCancel_scanceled, structOf_scanceled s b kept r h]
  | skeep b key kept =>
    simp only [step]
    cases h : structOf s b kept with
    | none => rfl
    | some r =>
      simp only []
      show (getMocker r.1 r.2 key).1.scanceled = _
      rw [getMocker_scanceled, structOf_scanceled s b kept r h]
  | other b => rfl
  | applyBad b key => exact getMocker_scanceled s b key

/-! ### the adapter table never loses or changes an installed adapter -/

theorem getMocker_aux2 (s : St) (o key : Nat) : Aux2 (getMocker s o key).1 = Aux2 s := by
  unfold getMocker
  cases s.cache o key with
  | none => rfl
  | some id => simp only []; split <;> rfl

theorem setOrigin_aux2 (s : St) (id : Nat) (o : Option Nat) : Aux2 (setOrigin s id o) = Aux2 s := by cases o <;> rfl

theorem getStruct_aux2 (s : St) (b : Nat) : Aux2 (getStruct s b).1 = Aux2 s := by
  unfold getStruct
  cases s.scache b with
  | none => rfl
  | some o => simp only []; split <;> rfl

theorem structOf_aux2 (s : St) (b : Nat) (kept : Bool) (r : St × Nat) (h : structOf s b kept = some r) : Aux2 r.1 = Aux2 s := by
  unfold structOf at h
  split at h
  · cases hs : s.shandle b with
    | none => rw [hs] at h; cases h
    | some o => rw [hs] at h; cases h; rfl
  · cases h; exact getStruct_aux2 s b

theorem cancelKeys_aux2 (b : Nat) (ks : List Nat) : ∀ (s : St), Aux2 (cancelKeys s b ks) = Aux2 s := by
  induction ks with
  | nil => intro s; rfl
  | cons k ks ih =>
    intro s
    unfold cancelKeys
    cases s.cache b k with
    | none => exact ih s
    | some id => simp only []; rw [ih]; exact cancelMocker_aux2 s id

theorem resetB_aux2 (s : St) (b : Nat) : Aux2 (resetB s b) = Aux2 s := by
  unfold resetB
  cases s.scache b with
  | none => exact cancelKeys_aux2 b _ s
  | some o => simp only []; rw [cancelKeys_aux2, cancelKeys_aux2]

theorem applyCb_adaptLe (env : Env) (s : St) (id k : Nat) : AdaptLe s (applyCb env s id k).1 :=
  (applyImp_adapt env s id (.cb k)).1.trans (adaptLe_of_aux2 (applyCb_aux2 env s id k))

theorem doApply_adaptLe (env : Env) (s : St) (o key k : Nat) (origin : Option Nat) : AdaptLe s (doApply env s o key k origin).1 :=
  ((adaptLe_of_aux2 (getMocker_aux2 s o key)).trans (adaptLe_of_aux2 (setOrigin_aux2 _ _ origin))).trans (applyCb_adaptLe env _ _ k)

theorem doRet_adaptLe (env : Env) (s : St) (o key : Nat) (origin : Option Nat) : AdaptLe s (doRet env s o key origin).1 := by
  have e := (adaptLe_of_aux2 (getMocker_aux2 s o key)).trans (adaptLe_of_aux2 (setOrigin_aux2 _ (getMocker s o key).2 origin))
  unfold doRet
  split
  · exact e
  · exact (e.trans (AdaptLe.of_eq rfl rfl)).trans (applyImp_adapt env (whens _ _) _ _).1

theorem step_adaptLe (env : Env) (s : St) (op : Op) : AdaptLe s (step env s op).1 := by
  cases op with
  | apply b key k origin => exact doApply_adaptLe env s b key k origin
  | ret b key origin => exact doRet_adaptLe env s b key origin
  | cancel b key => exact (adaptLe_of_aux2 (getMocker_aux2 s b key)).trans (adaptLe_of_aux2 (cancelMocker_aux2 _ _))
  | reset b => exact adaptLe_of_aux2 (resetB_aux2 s b)
  | keep b key => exact adaptLe_of_aux2 (getMocker_aux2 s b key)
  | applyH b key k =>
    simp only [step]
    cases s.handle b key with
    | none => exact AdaptLe.refl s
    | some id => exact applyCb_adaptLe env s id k
  | retH b key =>
    simp only [step]
    cases s.handle b key with
    | none => exact AdaptLe.refl s
    | some id =>
      simp only []
      split
      · exact AdaptLe.refl s
      · exact (AdaptLe.of_eq rfl rfl).trans (applyImp_adapt env (whens s id) id _).1
  | cancelH b key =>
    simp only [step]
    cases s.handle b key with
    | none => exact AdaptLe.refl s
    | some id => exact adaptLe_of_aux2 (cancelMocker_aux2 s id)
  | keepS b => exact adaptLe_of_aux2 (getStruct_aux2 s b)
  | sapply b key k origin kept =>
    simp only [step]
    cases h : structOf s b kept with
    | none => exact AdaptLe.refl s
    | some r => exact (adaptLe_of_aux2 (structOf_aux2 s b kept r h)).trans (doApply_adaptLe env r.1 r.2 key k origin)
  | sret b key origin kept =>
    simp only [step]
    cases h : structOf s b kept with
    | none => exact AdaptLe.refl s
    | some r => exact (adaptLe_of_aux2 (structOf_aux2 s b kept r h)).trans (doRet_adaptLe env r.1 r.2 key origin)
  | scancel b key kept =>
    simp only [step]
    cases h : structOf s b kept with
    | none => exact AdaptLe.refl s
    | some r =>
      exact ((adaptLe_of_aux2 (structOf_aux2 s b kept r h)).trans (adaptLe_of_aux2 (getMocker_aux2 r.1 r.2 key))).trans
        (adaptLe_of_aux2 (cancelMocker_aux2 _ _))
  | skeep b key kept =>
    simp only [step]
    cases h : structOf s b kept with
    | none => exact AdaptLe.refl s
    | some r => exact (adaptLe_of_aux2 (structOf_aux2 s b kept r h)).trans (adaptLe_of_aux2 (getMocker_aux2 r.1 r.2 key))
  | other b => exact AdaptLe.refl s
  | applyBad b key => exact adaptLe_of_aux2 (getMocker_aux2 s b key)

end C02L
