import GoomVerif.Model.Mem
/-! Helper lemmas for C14 (core Lean only). -/
namespace C14L
open Mem Gen.Page

/-! ## `PageStart` (regenerated from memory.go:15) rounds down to a multiple of 4096 -/

theorem mask_bits : ∀ i : Fin 64,
    ((~~~ ((0x1000#64) - (0x1#64))) : BitVec 64).getLsbD i.val = decide (12 ≤ i.val) := by decide

theorem ps_shift (a : BitVec 64) : PageStart a = (a >>> 12) <<< 12 := by
  unfold PageStart
  apply BitVec.eq_of_getLsbD_eq
  intro i hi
  have hm := mask_bits ⟨i, hi⟩
  simp only [BitVec.getLsbD_and, BitVec.getLsbD_shiftLeft, BitVec.getLsbD_ushiftRight, hm]
  by_cases h : i < 12
  · simp [h]
  · have : 12 + (i - 12) = i := by omega
    simp [h, this, hi]; omega

theorem ps_toNat (a : BitVec 64) : (PageStart a).toNat = a.toNat / 4096 * 4096 := by
  rw [ps_shift]
  simp only [BitVec.toNat_shiftLeft, BitVec.toNat_ushiftRight, Nat.shiftLeft_eq, Nat.shiftRight_eq_div_pow]
  have := a.isLt
  omega

theorem pageOf_toNat (a : Addr) : (pageOf a).toNat = a.toNat / 4096 * 4096 := ps_toNat a

/-! ## the page loop -/

/-- the write `[a, a+n)` does not reach the last page of the 64-bit address space (so neither `a+n` nor `p += pageSize` wraps) -/
def NoWrap (a : Addr) (n : Nat) : Prop := a.toNat + n ≤ 2^64 - 4096

theorem add_toNat_of_le (a : Addr) (i n : Nat) (h : NoWrap a n) (hi : i ≤ n) :
    (a + BitVec.ofNat 64 i).toNat = a.toNat + i := by
  unfold NoWrap at h
  simp only [BitVec.toNat_add, BitVec.toNat_ofNat]
  omega

theorem mem_pagesLoop (fuel : Nat) : ∀ (p lim q : Addr), p.toNat % 4096 = 0 → lim.toNat ≤ 2^64 - 4096 →
    lim.toNat ≤ p.toNat + fuel * 4096 →
    (q ∈ pagesLoop fuel p lim ↔ (q.toNat % 4096 = 0 ∧ p.toNat ≤ q.toNat ∧ q.toNat < lim.toNat)) := by
  induction fuel with
  | zero =>
    intro p lim q _ _ hf
    simp only [pagesLoop, List.not_mem_nil, false_iff]
    omega
  | succ f ih =>
    intro p lim q hal hlim hf
    simp only [pagesLoop]
    by_cases hlt : p < lim
    · have hlt' : p.toNat < lim.toNat := BitVec.lt_def.mp hlt
      have hnext : (p + BitVec.ofNat 64 pageSize).toNat = p.toNat + 4096 := by
        simp only [BitVec.toNat_add, BitVec.toNat_ofNat, pageSize]; omega
      simp only [hlt, if_true, List.mem_cons]
      rw [ih (p + BitVec.ofNat 64 pageSize) lim q (by omega) hlim (by omega), hnext]
      constructor
      · rintro (h | h)
        · subst h; omega
        · omega
      · intro h
        by_cases hq : q = p
        · exact Or.inl hq
        · right
          have : q.toNat ≠ p.toNat := fun e => hq (BitVec.eq_of_toNat_eq e)
          omega
    · have hge : ¬ p.toNat < lim.toNat := fun h => hlt (BitVec.lt_def.mpr h)
      simp only [hlt, if_false, List.not_mem_nil, false_iff]
      omega

/-- membership in `pages a n`, in plain arithmetic -/
theorem mem_pages (a : Addr) (n : Nat) (q : Addr) (h : NoWrap a n) :
    q ∈ pages a n ↔ (q.toNat % 4096 = 0 ∧ a.toNat / 4096 * 4096 ≤ q.toNat ∧ q.toNat < a.toNat + n) := by
  unfold pages
  have hlim : (a + BitVec.ofNat 64 n).toNat = a.toNat + n := add_toNat_of_le a n n h (Nat.le_refl _)
  have hn : NoWrap a n := h
  unfold NoWrap at hn
  rw [mem_pagesLoop _ _ _ q (by rw [ps_toNat]; omega) (by rw [hlim]; omega)
    (by rw [hlim, ps_toNat]; simp only [pageSize]; omega), hlim, ps_toNat]

/-! ## running `mprotect` scripts -/

/-- set every page of `ps` to `pr`, leave the others -/
def setMany (f : Addr → Option Perm) (ps : List Addr) (pr : Perm) : Addr → Option Perm :=
  fun q => if q ∈ ps then some pr else f q

/-- all listed pages are mapped -/
def MappedAll (s : State) (ps : List Addr) : Prop := ∀ p ∈ ps, (s.perm p).isSome = true

/-- the kernel policy does not refuse protection `pr` -/
def Allowed (s : State) (pr : Perm) : Prop := (s.denyWX && pr.w && pr.x) = false

theorem run_prot (pr : Perm) : ∀ (ps : List Addr) (s : State), MappedAll s ps → Allowed s pr →
    run s (ps.map (fun p => Step.mprotect p pr)) = ({ s with perm := setMany s.perm ps pr }, none) := by
  intro ps
  induction ps with
  | nil =>
    intro s _ _
    have : setMany s.perm [] pr = s.perm := by
      funext q; simp [setMany]
    simp only [List.map_nil, run, this]
  | cons p rest ih =>
    intro s hm hA
    have hp := hm p (List.mem_cons_self ..)
    cases hpp : s.perm p with
    | none => rw [hpp] at hp; cases hp
    | some v =>
      have hA' : (s.denyWX && pr.w && pr.x) = false := hA
      simp only [List.map_cons, run, step, hpp, hA', Bool.false_eq_true, if_false]
      rw [ih]
      · congr 1
        congr 1
        funext q
        simp only [setMany, setPerm, List.mem_cons]
        by_cases h1 : q ∈ rest
        · simp [h1]
        · by_cases h2 : q = p
          · simp [h2]
          · simp [h1, h2]
      · intro p' hp'
        simp only [setPerm]
        by_cases h : p' = p
        · simp [h]
        · simp only [h, if_false]
          exact hm p' (List.mem_cons_of_mem _ hp')
      · exact hA

/-! ## running the copy -/

def Writable (s : State) (a : Addr) : Prop := ∃ pr, s.perm (pageOf a) = some pr ∧ pr.w = true

theorem run_copy (a : Addr) : ∀ (data : List Byte) (i : Nat) (s : State),
    (∀ j, j < data.length → Writable s (a + BitVec.ofNat 64 (i + j))) →
    ∃ s', run s (copyFrom a i data) = (s', none) ∧ s'.perm = s.perm ∧
      (∀ q, (∀ j, j < data.length → q ≠ a + BitVec.ofNat 64 (i + j)) → s'.mem q = s.mem q) ∧
      (i + data.length ≤ 2^64 → ∀ j (hj : j < data.length), s'.mem (a + BitVec.ofNat 64 (i + j)) = data[j]) := by
  intro data
  induction data with
  | nil =>
    intro i s _
    refine ⟨s, rfl, rfl, fun _ _ => rfl, ?_⟩
    intro _ j hj
    cases hj
  | cons b bs ih =>
    intro i s hw
    obtain ⟨pr, hpr, hprw⟩ := hw 0 (by simp)
    simp only [Nat.add_zero] at hpr
    have hw' : ∀ j, j < bs.length →
        Writable { s with mem := setByte s.mem (a + BitVec.ofNat 64 i) b } (a + BitVec.ofNat 64 (i + 1 + j)) := by
      intro j hj
      have := hw (j + 1) (by simp; omega)
      rw [show i + (j + 1) = i + 1 + j by omega] at this
      exact this
    obtain ⟨s', hrun, hperm, hframe, hval⟩ := ih (i + 1) _ hw'
    refine ⟨s', ?_, ?_, ?_, ?_⟩
    · simp only [copyFrom, run, step, hpr, hprw, if_true]
      exact hrun
    · rw [hperm]
    · intro q hq
      rw [hframe q]
      · have h0 := hq 0 (by simp)
        simp only [Nat.add_zero] at h0
        simp only [setByte, h0, if_false]
      · intro j hj
        have := hq (j + 1) (by simp; omega)
        rw [show i + (j + 1) = i + 1 + j by omega] at this
        exact this
    · intro hlen j hj
      simp only [List.length_cons] at hlen hj
      cases j with
      | zero =>
        simp only [Nat.add_zero, List.getElem_cons_zero]
        rw [hframe]
        · simp only [setByte, if_true]
        · intro j hj' heq
          have := congrArg BitVec.toNat heq
          simp only [BitVec.toNat_add, BitVec.toNat_ofNat] at this
          omega
      | succ k =>
        simp only [List.getElem_cons_succ]
        rw [show i + (k + 1) = i + 1 + k by omega]
        exact hval (by omega) k (by omega)

/-! ## scripts in general: append, frame, executable bit -/

theorem run_append : ∀ (l1 l2 : List Step) (s : State),
    run s (l1 ++ l2) = match run s l1 with
      | (s1, none) => run s1 l2
      | (s1, some e) => (s1, some e) := by
  intro l1
  induction l1 with
  | nil => intro l2 s; simp only [List.nil_append, run]
  | cons st rest ih =>
    intro l2 s
    simp only [List.cons_append, run]
    cases hst : step s st with
    | ok s' => simp only [ih]
    | error e => rfl

/-- `q` is the target of some store of the script -/
def StoresTo (sc : List Step) (q : Addr) : Prop := ∃ b, Step.store q b ∈ sc

theorem step_frame (s s' : State) (st : Step) (q : Addr) (h : step s st = .ok s')
    (hq : ∀ b, st ≠ Step.store q b) : s'.mem q = s.mem q := by
  cases st with
  | mprotect p pr =>
    simp only [step] at h
    split at h
    · cases h
    · split at h
      · cases h
      · cases h; rfl
  | store a b =>
    simp only [step] at h
    split at h
    · split at h
      · cases h
        have : q ≠ a := fun e => hq b (by rw [e])
        simp only [setByte, this, if_false]
      · cases h
    · cases h

theorem run_frame : ∀ (sc : List Step) (s : State) (q : Addr), ¬ StoresTo sc q → (run s sc).1.mem q = s.mem q := by
  intro sc
  induction sc with
  | nil => intro s q _; rfl
  | cons st rest ih =>
    intro s q hq
    simp only [run]
    cases hst : step s st with
    | error e => rfl
    | ok s' =>
      simp only
      rw [ih s' q (fun ⟨b, hb⟩ => hq ⟨b, List.mem_cons_of_mem _ hb⟩)]
      exact step_frame s s' st q hst (fun b e => hq ⟨b, by rw [e]; exact List.mem_cons_self ..⟩)

/-- every `mprotect` of the script keeps the execute bit -/
def XKeeping (sc : List Step) : Prop := ∀ p pr, Step.mprotect p pr ∈ sc → pr.x = true

/-- page `p` is mapped and executable -/
def Exec (s : State) (p : Addr) : Prop := ∃ pr, s.perm p = some pr ∧ pr.x = true

theorem step_exec (s s' : State) (st : Step) (p : Addr) (h : step s st = .ok s')
    (hx : ∀ p' pr, st = Step.mprotect p' pr → pr.x = true) (he : Exec s p) : Exec s' p := by
  cases st with
  | mprotect p' pr =>
    simp only [step] at h
    split at h
    · cases h
    · split at h
      · cases h
      · cases h
        simp only [Exec, setPerm]
        by_cases hp : p = p'
        · exact ⟨pr, by simp [hp], hx p' pr rfl⟩
        · simp only [hp, if_false]; exact he
  | store a b =>
    simp only [step] at h
    split at h
    · split at h
      · cases h; exact he
      · cases h
    · cases h

theorem run_exec : ∀ (sc : List Step) (s : State) (p : Addr), XKeeping sc → Exec s p → Exec (run s sc).1 p := by
  intro sc
  induction sc with
  | nil => intro s p _ h; exact h
  | cons st rest ih =>
    intro s p hx he
    simp only [run]
    cases hst : step s st with
    | error e => exact he
    | ok s' =>
      exact ih s' p (fun p' pr hm => hx p' pr (List.mem_cons_of_mem _ hm))
        (step_exec s s' st p hst (fun p' pr e => hx p' pr (by rw [e]; exact List.mem_cons_self ..)) he)

theorem xkeeping_take (sc : List Step) (k : Nat) (h : XKeeping sc) : XKeeping (sc.take k) :=
  fun p pr hm => h p pr (List.mem_of_mem_take hm)

theorem mem_copyFrom (a : Addr) : ∀ (data : List Byte) (i : Nat) (st : Step), st ∈ copyFrom a i data →
    ∃ j, ∃ hj : j < data.length, st = Step.store (a + BitVec.ofNat 64 (i + j)) data[j] := by
  intro data
  induction data with
  | nil => intro i st h; cases h
  | cons b bs ih =>
    intro i st h
    simp only [copyFrom, List.mem_cons] at h
    rcases h with h | h
    · exact ⟨0, by simp, by simp [h]⟩
    · obtain ⟨j, hj, e⟩ := ih (i + 1) st h
      refine ⟨j + 1, by simp; omega, ?_⟩
      rw [e, show i + 1 + j = i + (j + 1) by omega]
      simp

theorem script_xkeeping (a : Addr) (data : List Byte) : XKeeping (script a data) := by
  intro p pr hm
  simp only [script, protScript, copyScript, List.mem_append, List.mem_map] at hm
  rcases hm with (⟨_, _, e⟩ | hm) | ⟨_, _, e⟩
  · cases e; rfl
  · obtain ⟨j, hj, e⟩ := mem_copyFrom a data 0 _ hm
    cases e
  · cases e; rfl

/-- the only stores of the script go to `a+j`, `j < len data` -/
theorem script_stores (a : Addr) (data : List Byte) (q : Addr) (h : StoresTo (script a data) q) :
    ∃ j, j < data.length ∧ q = a + BitVec.ofNat 64 j := by
  obtain ⟨b, hm⟩ := h
  simp only [script, protScript, copyScript, List.mem_append, List.mem_map] at hm
  rcases hm with (⟨_, _, e⟩ | hm) | ⟨_, _, e⟩
  · cases e
  · obtain ⟨j, hj, e⟩ := mem_copyFrom a data 0 _ hm
    simp only [Nat.zero_add] at e
    cases e
    exact ⟨j, hj, rfl⟩
  · cases e

/-- when the RWX pass is not refused, the procedural `writeTo` visits exactly the states of the script, stopping at the
    first failing step -/
theorem writeTo_state (a : Addr) (data : List Byte) (s : State)
    (h1 : (run s (protScript a data.length RWX)).2 = none) :
    (writeTo a data s).1 = (run s (script a data)).1 := by
  simp only [writeTo, script, List.append_assoc]
  rw [run_append]
  rcases h1' : run s (protScript a data.length RWX) with ⟨s1, _ | e1⟩
  · simp only
    rw [run_append]
    rcases h2 : run s1 (copyScript a data) with ⟨s2, _ | e2⟩
    · simp only
      rcases h3 : run s2 (protScript a data.length RX) with ⟨s3, _ | e3⟩ <;> rfl
    · rfl
  · rw [h1'] at h1; cases h1

/-- the fall-back visits exactly the states of `fallbackScript` -/
theorem fallback_state (a : Addr) (data : List Byte) (e0 : Err) (s : State) :
    (fallbackWrite a data e0 s).1 = (run s (fallbackScript a data)).1 := by
  simp only [fallbackWrite, fallbackScript, List.append_assoc]
  rw [run_append]
  rcases h1 : run s (protScript a data.length RW) with ⟨s1, _ | e1⟩
  · simp only
    rw [run_append]
    rcases h2 : run s1 (copyScript a data) with ⟨s2, _ | e2⟩
    · simp only
      rcases h3 : run s2 (protScript a data.length RX) with ⟨s3, _ | e3⟩ <;> rfl
    · rfl
  · rfl

theorem fallbackScript_stores (a : Addr) (data : List Byte) (q : Addr) (h : StoresTo (fallbackScript a data) q) :
    ∃ j, j < data.length ∧ q = a + BitVec.ofNat 64 j := by
  obtain ⟨b, hm⟩ := h
  simp only [fallbackScript, protScript, copyScript, List.mem_append, List.mem_map] at hm
  rcases hm with (⟨_, _, e⟩ | hm) | ⟨_, _, e⟩
  · cases e
  · obtain ⟨j, hj, e⟩ := mem_copyFrom a data 0 _ hm
    simp only [Nat.zero_add] at e
    cases e
    exact ⟨j, hj, rfl⟩
  · cases e

/-- frame on every path of `writeTo`, fall-back included -/
theorem writeTo_frame (a : Addr) (data : List Byte) (s : State) (q : Addr)
    (hq : ∀ j, j < data.length → q ≠ a + BitVec.ofNat 64 j) : (writeTo a data s).1.mem q = s.mem q := by
  rcases h1 : run s (protScript a data.length RWX) with ⟨s1, _ | e1⟩
  · rw [writeTo_state a data s (by rw [h1])]
    apply run_frame
    intro hst
    obtain ⟨j, hj, e⟩ := script_stores a data q hst
    exact hq j hj e
  · have hs1 : s1.mem q = s.mem q := by
      have := run_frame (protScript a data.length RWX) s q (by
        rintro ⟨b, hb⟩
        simp only [protScript, List.mem_map] at hb
        obtain ⟨_, _, e⟩ := hb
        cases e)
      rw [h1] at this
      exact this
    simp only [writeTo, h1]
    rw [fallback_state, ← hs1]
    apply run_frame
    intro hst
    obtain ⟨j, hj, e⟩ := fallbackScript_stores a data q hst
    exact hq j hj e

/-! ## cover / tight -/

theorem pages_cover (a : Addr) (n i : Nat) (h : NoWrap a n) (hi : i < n) :
    pageOf (a + BitVec.ofNat 64 i) ∈ pages a n := by
  rw [mem_pages a n _ h, pageOf_toNat, add_toNat_of_le a i n h (Nat.le_of_lt hi)]
  omega

theorem pages_tight (a : Addr) (n : Nat) (p : Addr) (h : NoWrap a n) (hn : 0 < n) (hp : p ∈ pages a n) :
    ∃ i, i < n ∧ pageOf (a + BitVec.ofNat 64 i) = p := by
  rw [mem_pages a n _ h] at hp
  by_cases hle : p.toNat ≤ a.toNat
  · refine ⟨0, hn, ?_⟩
    apply BitVec.eq_of_toNat_eq
    rw [pageOf_toNat, add_toNat_of_le a 0 n h (Nat.zero_le _)]
    omega
  · refine ⟨p.toNat - a.toNat, by omega, ?_⟩
    apply BitVec.eq_of_toNat_eq
    rw [pageOf_toNat, add_toNat_of_le a _ n h (by omega)]
    omega

/-! ## the successful path of `writeTo` -/

theorem writeTo_spec (a : Addr) (data : List Byte) (s : State) (h : NoWrap a data.length)
    (hm : MappedAll s (pages a data.length)) (hd : s.denyWX = false) :
    ∃ s', writeTo a data s = (s', Outcome.ok) ∧
      s'.perm = setMany s.perm (pages a data.length) RX ∧
      (∀ j (hj : j < data.length), s'.mem (a + BitVec.ofNat 64 j) = data[j]) := by
  have hcopy := run_copy a data 0 { s with perm := setMany s.perm (pages a data.length) RWX } (by
    intro j hj
    refine ⟨RWX, ?_, rfl⟩
    simp only [setMany, Nat.zero_add, pages_cover a data.length j h hj, if_true])
  obtain ⟨s2, hrun2, hperm2, _, hval⟩ := hcopy
  have hm2 : MappedAll s2 (pages a data.length) := by
    intro p hp
    rw [hperm2]
    simp only [setMany, hp, if_true, Option.isSome_some]
  refine ⟨{ s2 with perm := setMany s2.perm (pages a data.length) RX }, ?_, ?_, ?_⟩
  · simp only [writeTo, protScript, copyScript]
    rw [run_prot RWX _ s hm (by simp [Allowed, hd])]
    simp only
    rw [hrun2]
    simp only
    rw [run_prot RX _ s2 hm2 (by simp [Allowed, RX])]
  · simp only [hperm2]
    funext q
    simp only [setMany]
    by_cases hq : q ∈ pages a data.length <;> simp [hq]
  · intro j hj
    have := hval (by unfold NoWrap at h; omega) j hj
    simp only [Nat.zero_add] at this
    exact this

/-! ## the kernel policy never changes -/

theorem step_deny (s s' : State) (st : Step) (h : step s st = .ok s') : s'.denyWX = s.denyWX := by
  cases st with
  | mprotect p pr =>
    simp only [step] at h
    split at h
    · cases h
    · split at h
      · cases h
      · cases h; rfl
  | store a b =>
    simp only [step] at h
    split at h
    · split at h
      · cases h; rfl
      · cases h
    · cases h

theorem run_deny : ∀ (sc : List Step) (s : State), (run s sc).1.denyWX = s.denyWX := by
  intro sc
  induction sc with
  | nil => intro s; rfl
  | cons st rest ih =>
    intro s
    simp only [run]
    cases hst : step s st with
    | error e => rfl
    | ok s' => simp only; rw [ih s', step_deny s s' st hst]

theorem writeTo_deny (a : Addr) (data : List Byte) (s : State) : (writeTo a data s).1.denyWX = s.denyWX := by
  rcases h1 : run s (protScript a data.length RWX) with ⟨s1, _ | e1⟩
  · rw [writeTo_state a data s (by rw [h1]), run_deny]
  · have hs1 : s1.denyWX = s.denyWX := by
      have := run_deny (protScript a data.length RWX) s
      rw [h1] at this
      exact this
    simp only [writeTo, h1]
    rw [fallback_state, run_deny, hs1]

/-! ## the fall-back path (RWX refused by a W^X policy) -/

/-- with a W^X policy the first `mprotect(.., RWX)` is refused and nothing has changed -/
theorem run_rwx_denied (a : Addr) (n : Nat) (s : State) (hd : s.denyWX = true) (p0 : Addr) (rest : List Addr)
    (hp : pages a n = p0 :: rest) (hm : MappedAll s (pages a n)) :
    run s (protScript a n RWX) = (s, some (Err.eacces p0)) := by
  have h0 := hm p0 (by rw [hp]; exact List.mem_cons_self ..)
  cases hpp : s.perm p0 with
  | none => rw [hpp] at h0; cases h0
  | some v => simp only [protScript, hp, List.map_cons, run, step, hpp, hd, RWX, Bool.and_self, if_true]

theorem fallback_spec (a : Addr) (data : List Byte) (e0 : Err) (s : State) (h : NoWrap a data.length)
    (hm : MappedAll s (pages a data.length)) :
    ∃ s', fallbackWrite a data e0 s = (s', Outcome.okFallback e0) ∧
      s'.perm = setMany s.perm (pages a data.length) RX ∧
      (∀ j (hj : j < data.length), s'.mem (a + BitVec.ofNat 64 j) = data[j]) := by
  have hcopy := run_copy a data 0 { s with perm := setMany s.perm (pages a data.length) RW } (by
    intro j hj
    refine ⟨RW, ?_, rfl⟩
    simp only [setMany, Nat.zero_add, pages_cover a data.length j h hj, if_true])
  obtain ⟨s2, hrun2, hperm2, _, hval⟩ := hcopy
  have hm2 : MappedAll s2 (pages a data.length) := by
    intro p hp
    rw [hperm2]
    simp only [setMany, hp, if_true, Option.isSome_some]
  refine ⟨{ s2 with perm := setMany s2.perm (pages a data.length) RX }, ?_, ?_, ?_⟩
  · simp only [fallbackWrite, protScript, copyScript]
    rw [run_prot RW _ s hm (by simp [Allowed, RW])]
    simp only
    rw [hrun2]
    simp only
    rw [run_prot RX _ s2 hm2 (by simp [Allowed, RX])]
  · simp only [hperm2]
    funext q
    simp only [setMany]
    by_cases hq : q ∈ pages a data.length <;> simp [hq]
  · intro j hj
    have := hval (by unfold NoWrap at h; omega) j hj
    simp only [Nat.zero_add] at this
    exact this

end C14L
