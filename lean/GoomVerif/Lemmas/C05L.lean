import GoomVerif.Model.Cursor
/-! Helper lemmas for property C05 (result cursors). Core Lean only. -/
namespace C05L
open Cursor Gen.Cursor

/-! ## one matcher, one caller -/

theorem serve_eq (n c : Nat) :
    serve n c = if n ≤ 1 then (c, c) else if c ≥ n then (n - 1, c) else (c, c + 1) := by
  simp only [serve, singlePath, exhausted, lastIdx, advance, decide_eq_true_eq]

/-- the cursor stays 0 as long as the single-result path is taken (nothing ever writes it there) -/
def CurOk (n c : Nat) : Prop := n ≤ 1 → c = 0

theorem serve_idx (n c : Nat) (hn : 1 ≤ n) (hc : CurOk n c) : (serve n c).1 = min c (n - 1) := by
  rw [serve_eq]; unfold CurOk at hc
  split
  · have := hc (by assumption); simp only; omega
  · split <;> simp only <;> omega

theorem serve_curOk (n c : Nat) (hc : CurOk n c) : CurOk n (serve n c).2 := by
  rw [serve_eq]; unfold CurOk at *
  intro h; simp only [h, if_true]; exact hc h

theorem serve_next (n c k : Nat) (hn : 1 ≤ n) : min ((serve n c).2 + k) (n - 1) = min (c + (k + 1)) (n - 1) := by
  rw [serve_eq]
  split
  · simp only; omega
  · split <;> simp only <;> omega

theorem cursorAfter_single (n k c : Nat) (h : n ≤ 1) : cursorAfter n k c = c := by
  induction k generalizing c with
  | zero => rfl
  | succ k ih => simp only [cursorAfter, serve_eq, h, if_true, ih]

theorem cursorAfter_multi (n k c : Nat) (h : 2 ≤ n) (hc : c ≤ n) : cursorAfter n k c = min (c + k) n := by
  induction k generalizing c with
  | zero => simp only [cursorAfter]; omega
  | succ k ih =>
    simp only [cursorAfter, serve_eq]
    have h1 : ¬ n ≤ 1 := by omega
    simp only [h1, if_false]
    split
    · simp only; rw [ih c hc]; omega
    · simp only; rw [ih (c + 1) (by omega)]; omega

/-! ## the `When` object -/

theorem lt_of_getElem? {α} {l : List α} {i : Nat} {x : α} (h : l[i]? = some x) : i < l.length := by
  rcases Nat.lt_or_ge i l.length with h1 | h1
  · exact h1
  · rw [List.getElem?_eq_none h1] at h; cases h

theorem hit_set_cur (ms : List Matcher) (j : Nat) (mj : Matcher) (c : Nat) (h : ms[j]? = some mj) (a : Nat) :
    hit (ms.set j { mj with cur := c }) a = hit ms a := by
  funext i
  unfold hit
  rw [List.getElem?_set]
  by_cases hji : j = i
  · subst hji
    simp only [if_true, lt_of_getElem? h, h]
  · simp only [hji, if_false]

theorem select_set_cur (w : When) (j : Nat) (mj : Matcher) (c : Nat) (h : w.ms[j]? = some mj) (b : Nat) :
    select { w with ms := w.ms.set j { mj with cur := c } } b = select w b := by
  simp only [select, hit_set_cur w.ms j mj c h b]

/-- what any call does to the rest of the `When`: selection is never changed (it does not depend on cursors), and only
    the selected matcher is touched -/
theorem call_shape (w : When) (a : Nat) :
    (call w a).1 = select w a ∧ (∀ b, select (call w a).2.2 b = select w b) ∧
    (∀ i, select w a ≠ some i → (call w a).2.2.ms[i]? = w.ms[i]?) ∧
    (call w a).2.2.mlist = w.mlist ∧ (call w a).2.2.dflt = w.dflt ∧ (call w a).2.2.curMatch = w.curMatch := by
  unfold call
  cases hs : select w a with
  | none => simp
  | some j =>
    simp only
    cases hm : w.ms[j]? with
    | none => simp
    | some mj =>
      simp only
      cases hv : mj.results[(serve mj.results.length mj.cur).1]? with
      | none => simp
      | some v =>
        refine ⟨rfl, fun b => select_set_cur w j mj _ hm b, ?_, rfl, rfl, rfl⟩
        intro i hne
        have : j ≠ i := fun e => hne (by rw [e])
        simp only [List.getElem?_set_ne this]

/-- a call that selects matcher `i` (cursor well-formed, at least one result) returns `results[min cur (n-1)]`
    and moves only that cursor -/
theorem call_selected (w : When) (a i : Nat) (m : Matcher) (hs : select w a = some i) (hm : w.ms[i]? = some m)
    (hn : 1 ≤ m.results.length) (hc : CurOk m.results.length m.cur) :
    ∃ v, m.results[min m.cur (m.results.length - 1)]? = some v ∧
      call w a = (some i, .val v, { w with ms := w.ms.set i { m with cur := (serve m.results.length m.cur).2 } }) := by
  have hidx := serve_idx _ _ hn hc
  have hlt : min m.cur (m.results.length - 1) < m.results.length := by omega
  refine ⟨m.results[min m.cur (m.results.length - 1)], List.getElem?_eq_getElem hlt, ?_⟩
  unfold call
  simp only [hs, hm, hidx, List.getElem?_eq_getElem hlt]

/-- observations of the calls that selected matcher `i` -/
def outputsOf (i : Nat) (l : List (Option Nat × Obs)) : List Obs :=
  (l.filter (fun p => p.1 == some i)).map (·.2)

/-- an element of the sequence as an observation (`none` would be Go's index-out-of-range panic) -/
def obsOf : Option Nat → Obs
  | some v => .val v
  | none => .oob

/-- what the `k`-th next call selecting matcher `m` must see -/
def expected (m : Matcher) (k : Nat) : Obs := obsOf m.results[min (m.cur + k) (m.results.length - 1)]?

theorem calls_kth_gen (i : Nat) (as : List Nat) : ∀ (w : When) (m : Matcher), w.ms[i]? = some m →
    1 ≤ m.results.length → CurOk m.results.length m.cur →
    outputsOf i (calls w as) =
      (List.range (as.filter (fun a => select w a == some i)).length).map (expected m) := by
  induction as with
  | nil => intro w m _ _ _; rfl
  | cons a as ih =>
    intro w m hm hn hc
    obtain ⟨h1, h2, h3, -, -, -⟩ := call_shape w a
    have hsel : (fun b => select (call w a).2.2 b == some i) = (fun b => select w b == some i) := by
      funext b; rw [h2 b]
    by_cases hs : select w a = some i
    · obtain ⟨v, hv, hcall⟩ := call_selected w a i m hs hm hn hc
      have hm' : (call w a).2.2.ms[i]? = some { m with cur := (serve m.results.length m.cur).2 } := by
        rw [hcall]; simp only [List.getElem?_set_self (lt_of_getElem? hm)]
      have ih' := ih (call w a).2.2 _ hm' hn (serve_curOk _ _ hc)
      rw [hsel] at ih'
      simp only [calls, outputsOf, List.filter_cons, h1, hs, beq_self_eq_true, if_true, List.map_cons, List.length_cons,
        List.range_succ_eq_map, List.map_map]
      simp only [outputsOf] at ih'
      rw [ih']
      congr 1
      · rw [hcall]; simp only [expected, Nat.add_zero, hv, obsOf]
      · apply List.map_congr_left
        intro k _
        simp only [expected, Function.comp, Nat.succ_eq_add_one, serve_next _ _ _ hn]
    · have hm' : (call w a).2.2.ms[i]? = some m := by rw [h3 i hs]; exact hm
      have ih' := ih (call w a).2.2 m hm' hn hc
      rw [hsel] at ih'
      have hb : (select w a == some i) = false := by
        cases h : select w a == some i
        · rfl
        · exact absurd (eq_of_beq h) hs
      simp only [calls, outputsOf, List.filter_cons, h1, hb, Bool.false_eq_true, if_false]
      simp only [outputsOf] at ih'
      exact ih'

/-! ## concurrent callers -/

/-- `step` as a relation, with the source constants resolved -/
inductive StepRel (n : Nat) (s : St) : Ev → St → Prop
  | inv (t) : s.pc t = .idle → StepRel n s (.inv t) ⟨s.cur, upd s.pc t .called⟩
  | load (t) : s.pc t = .called → StepRel n s (.step t) ⟨s.cur, upd s.pc t (.loaded s.cur)⟩
  | finSingle (t v) : s.pc t = .loaded v → n ≤ 1 → StepRel n s (.step t) ⟨s.cur, upd s.pc t (.done v)⟩
  | finLast (t v) : s.pc t = .loaded v → 2 ≤ n → n ≤ v → StepRel n s (.step t) ⟨s.cur, upd s.pc t (.done (n - 1))⟩
  | finAdd (t v) : s.pc t = .loaded v → 2 ≤ n → v < n → StepRel n s (.step t) ⟨s.cur + 1, upd s.pc t (.done v)⟩
  | resp (t v) : s.pc t = .done v → StepRel n s (.resp t v) ⟨s.cur, upd s.pc t .idle⟩

theorem step_rel {n : Nat} {s s' : St} {e : Ev} (h : step n s e = some s') : StepRel n s e s' := by
  cases e with
  | inv t =>
    simp only [step] at h
    cases hpc : s.pc t <;> simp only [hpc] at h <;> try cases h
    exact .inv t hpc
  | step t =>
    simp only [step, singlePath, exhausted, lastIdx, advance, decide_eq_true_eq] at h
    cases hpc : s.pc t <;> simp only [hpc] at h <;> try cases h
    · exact .load t hpc
    · rename_i v
      split at h
      · cases h; exact .finSingle t v hpc (by assumption)
      · split at h
        · cases h; exact .finLast t v hpc (by omega) (by assumption)
        · cases h; exact .finAdd t v hpc (by omega) (by omega)
  | resp t v =>
    simp only [step] at h
    cases hpc : s.pc t <;> simp only [hpc] at h <;> try cases h
    rename_i r
    split at h
    · cases h; rename_i e; subst e; exact .resp t r hpc
    · cases h

theorem run_cons {n : Nat} {s s'' : St} {e : Ev} {w : List Ev} (h : run n s (e :: w) = some s'') :
    ∃ s', step n s e = some s' ∧ run n s' w = some s'' := by
  simp only [run] at h
  cases hs : step n s e with
  | none => simp only [hs] at h; cases h
  | some s' => simp only [hs] at h; exact ⟨s', rfl, h⟩

theorem run_append {n : Nat} {w1 w2 : List Ev} : ∀ {s s'' : St}, run n s (w1 ++ w2) = some s'' →
    ∃ s', run n s w1 = some s' ∧ run n s' w2 = some s'' := by
  induction w1 with
  | nil => intro s s'' h; exact ⟨s, rfl, h⟩
  | cons e w1 ih =>
    intro s s'' h
    obtain ⟨s1, h1, h2⟩ := run_cons (by simpa using h)
    obtain ⟨s', h3, h4⟩ := ih h2
    exact ⟨s', by simp only [run, h1, h3], h4⟩

/-- invariant: loaded values never exceed the cursor; a computed result is in range and the cursor is already past it -/
def Inv (n : Nat) (s : St) : Prop :=
  (n ≤ 1 → s.cur = 0) ∧ (∀ t v, s.pc t = .loaded v → v ≤ s.cur) ∧
  (∀ t r, s.pc t = .done r → r < n ∧ (2 ≤ n → r + 1 ≤ s.cur))

theorem inv_init (n : Nat) : Inv n init := by
  refine ⟨fun _ => rfl, fun t v h => ?_, fun t r h => ?_⟩ <;> simp only [init] at h <;> cases h

theorem inv_step {n : Nat} {s s' : St} {e : Ev} (hn : 1 ≤ n) (hI : Inv n s) (h : step n s e = some s') : Inv n s' := by
  obtain ⟨h0, hl, hd⟩ := hI
  cases step_rel h with
  | inv t hpc =>
    refine ⟨h0, fun u v hu => ?_, fun u r hu => ?_⟩ <;> simp only [upd] at hu <;> split at hu
    · cases hu
    · exact hl u v hu
    · cases hu
    · exact hd u r hu
  | load t hpc =>
    refine ⟨h0, fun u v hu => ?_, fun u r hu => ?_⟩ <;> simp only [upd] at hu <;> split at hu
    · cases hu; exact Nat.le_refl _
    · exact hl u v hu
    · cases hu
    · exact hd u r hu
  | finSingle t v hpc h1 =>
    refine ⟨h0, fun u v' hu => ?_, fun u r hu => ?_⟩ <;> simp only [upd] at hu <;> split at hu
    · cases hu
    · exact hl u v' hu
    · cases hu
      have := hl t _ hpc
      have := h0 h1
      exact ⟨by omega, by omega⟩
    · exact hd u r hu
  | finLast t v hpc h2 hv =>
    refine ⟨h0, fun u v' hu => ?_, fun u r hu => ?_⟩ <;> simp only [upd] at hu <;> split at hu
    · cases hu
    · exact hl u v' hu
    · cases hu
      have := hl t _ hpc
      exact ⟨by omega, fun _ => by simp only; omega⟩
    · exact hd u r hu
  | finAdd t v hpc h2 hv =>
    refine ⟨fun h1 => by omega, fun u v' hu => ?_, fun u r hu => ?_⟩ <;> simp only [upd] at hu <;> split at hu
    · cases hu
    · have := hl u v' hu; simp only; omega
    · cases hu
      have := hl t _ hpc
      exact ⟨hv, fun _ => by simp only; omega⟩
    · have := hd u r hu; exact ⟨this.1, fun h => by have := this.2 h; simp only; omega⟩
  | resp t v hpc =>
    refine ⟨h0, fun u v' hu => ?_, fun u r hu => ?_⟩ <;> simp only [upd] at hu <;> split at hu
    · cases hu
    · exact hl u v' hu
    · cases hu
    · exact hd u r hu

theorem inv_run {n : Nat} (hn : 1 ≤ n) {w : List Ev} : ∀ {s s' : St}, Inv n s → run n s w = some s' → Inv n s' := by
  induction w with
  | nil => intro s s' hI h; cases h; exact hI
  | cons e w ih =>
    intro s s' hI h
    obtain ⟨s1, h1, h2⟩ := run_cons h
    exact ih (inv_step hn hI h1) h2

theorem cur_mono_step {n : Nat} {s s' : St} {e : Ev} (h : step n s e = some s') : s.cur ≤ s'.cur := by
  cases step_rel h <;> simp only <;> omega

theorem cur_mono_run {n : Nat} {w : List Ev} : ∀ {s s' : St}, run n s w = some s' → s.cur ≤ s'.cur := by
  induction w with
  | nil => intro s s' h; cases h; exact Nat.le_refl _
  | cons e w ih =>
    intro s s' h
    obtain ⟨s1, h1, h2⟩ := run_cons h
    exact Nat.le_trans (cur_mono_step h1) (ih h2)

/-- "the cursor has reached `m` and thread `b` has not loaded anything older": from such a state on, everything `b`
    loads is `≥ m` and everything it returns is `≥ min m (n-1)` -/
def Above (n m b : Nat) (s : St) : Prop :=
  m ≤ s.cur ∧ (∀ v, s.pc b = .loaded v → m ≤ v) ∧ (∀ r, s.pc b = .done r → min m (n - 1) ≤ r)

theorem above_step {n m b : Nat} {s s' : St} {e : Ev} (hA : Above n m b s) (h : step n s e = some s') :
    Above n m b s' := by
  obtain ⟨hc, hl, hd⟩ := hA
  cases step_rel h with
  | inv t hpc =>
    refine ⟨hc, fun v hu => ?_, fun r hu => ?_⟩ <;> simp only [upd] at hu <;> split at hu
    · cases hu
    · exact hl v hu
    · cases hu
    · exact hd r hu
  | load t hpc =>
    refine ⟨hc, fun v hu => ?_, fun r hu => ?_⟩ <;> simp only [upd] at hu <;> split at hu
    · cases hu; exact hc
    · exact hl v hu
    · cases hu
    · exact hd r hu
  | finSingle t v hpc h1 =>
    refine ⟨hc, fun v' hu => ?_, fun r hu => ?_⟩ <;> simp only [upd] at hu <;> split at hu
    · cases hu
    · exact hl v' hu
    · cases hu; omega
    · exact hd r hu
  | finLast t v hpc h2 hv =>
    refine ⟨hc, fun v' hu => ?_, fun r hu => ?_⟩ <;> simp only [upd] at hu <;> split at hu
    · cases hu
    · exact hl v' hu
    · cases hu; omega
    · exact hd r hu
  | finAdd t v hpc h2 hv =>
    refine ⟨by simp only; omega, fun v' hu => ?_, fun r hu => ?_⟩ <;> simp only [upd] at hu <;> split at hu
    · cases hu
    · exact hl v' hu
    · cases hu
      rename_i e; subst e
      have := hl _ hpc; omega
    · exact hd r hu
  | resp t v hpc =>
    refine ⟨hc, fun v' hu => ?_, fun r hu => ?_⟩ <;> simp only [upd] at hu <;> split at hu
    · cases hu
    · exact hl v' hu
    · cases hu
    · exact hd r hu

/-- every index thread `b` returns during a run that starts in an `Above m` state is at least `min m (n-1)` -/
theorem resp_above {n m b : Nat} {w : List Ev} : ∀ {s s' : St}, Above n m b s → run n s w = some s' →
    ∀ v, Ev.resp b v ∈ w → min m (n - 1) ≤ v := by
  induction w with
  | nil => intro s s' _ _ v hv; cases hv
  | cons e w ih =>
    intro s s' hA h v hv
    obtain ⟨s1, h1, h2⟩ := run_cons h
    rcases List.mem_cons.1 hv with he | hw
    · subst he
      cases step_rel h1 with
      | resp t v hpc => exact hA.2.2 v hpc
    · exact ih (above_step hA h1) h2 v hw

/-- a state right after `resp a va` (or any state in which `a` holds the result `va`) has the cursor past `va` -/
theorem done_cur {n : Nat} {s : St} (hI : Inv n s) {a va : Nat} (h : s.pc a = .done va) :
    va < n ∧ (2 ≤ n → va + 1 ≤ s.cur) := hI.2.2 a va h

/-! ### the cursor is bounded by `n - 1 + T` for `T` threads -/

theorem pending_le (n : Nat) (pc : Nat → Pc) (T : Nat) : pending n pc T ≤ T := by
  induction T with
  | zero => exact Nat.le_refl _
  | succ T ih =>
    simp only [pending]
    have : low n (pc T) ≤ 1 := by
      unfold low; split
      · split <;> omega
      · omega
    omega

theorem pending_upd (n : Nat) (pc : Nat → Pc) (t : Nat) (x : Pc) (T : Nat) (h : t < T) :
    pending n (upd pc t x) T + low n (pc t) = pending n pc T + low n x := by
  induction T with
  | zero => omega
  | succ T ih =>
    simp only [pending]
    by_cases ht : t = T
    · subst ht
      have hlt : ∀ U, U ≤ t → pending n (upd pc t x) U = pending n pc U := by
        intro U hU
        induction U with
        | zero => rfl
        | succ U ihU =>
          simp only [pending]
          have : upd pc t x U = pc U := by simp only [upd]; rw [if_neg]; omega
          rw [this, ihU (by omega)]
      rw [hlt t (Nat.le_refl _)]
      have : upd pc t x t = x := by simp only [upd, if_true]
      rw [this]; omega
    · have : upd pc t x T = pc T := by simp only [upd]; rw [if_neg]; omega
      rw [this]
      have := ih (by omega)
      omega

def Bound (n T : Nat) (s : St) : Prop := s.cur + pending n s.pc T ≤ n - 1 + T

theorem bound_step {n T : Nat} {s s' : St} {e : Ev} (hn : 1 ≤ n) (hI : Inv n s) (hB : Bound n T s) (ht : e.tid < T)
    (h : step n s e = some s') : Bound n T s' := by
  unfold Bound at *
  cases step_rel h with
  | inv t hpc =>
    have := pending_upd n s.pc t .called T ht
    simp only [hpc, low] at this; simp only; omega
  | load t hpc =>
    have := pending_upd n s.pc t (.loaded s.cur) T ht
    have hle := pending_le n (upd s.pc t (.loaded s.cur)) T
    simp only [hpc, low] at this
    simp only
    split at this <;> omega
  | finSingle t v hpc h1 =>
    have := pending_upd n s.pc t (.done v) T ht
    simp only [hpc, low] at this; simp only
    split at this <;> omega
  | finLast t v hpc h2 hv =>
    have := pending_upd n s.pc t (.done (n - 1)) T ht
    simp only [hpc, low] at this; simp only
    split at this <;> omega
  | finAdd t v hpc h2 hv =>
    have := pending_upd n s.pc t (.done v) T ht
    simp only [hpc, low, hv, if_true] at this; simp only
    omega
  | resp t v hpc =>
    have := pending_upd n s.pc t .idle T ht
    simp only [hpc, low] at this; simp only; omega

theorem bound_run {n T : Nat} (hn : 1 ≤ n) {w : List Ev} : ∀ {s s' : St}, Inv n s → Bound n T s →
    (∀ e ∈ w, e.tid < T) → run n s w = some s' → Bound n T s' := by
  induction w with
  | nil => intro s s' _ hB _ h; cases h; exact hB
  | cons e w ih =>
    intro s s' hI hB ht h
    obtain ⟨s1, h1, h2⟩ := run_cons h
    exact ih (inv_step hn hI h1) (bound_step hn hI hB (ht e (List.mem_cons_self)) h1)
      (fun e' he' => ht e' (List.mem_cons_of_mem _ he')) h2

theorem pending_init (n T : Nat) : pending n init.pc T = 0 := by
  induction T with
  | zero => rfl
  | succ T ih => simp only [pending, ih]; rfl

/-! ## configuration helpers -/

theorem addResult_self (w : When) (i : Nat) (m : Matcher) (v : Nat) (h : w.ms[i]? = some m) :
    (addResult w i v).ms[i]? = some { m with results := m.results ++ [v] } ∧
    (∀ j, j ≠ i → (addResult w i v).ms[j]? = w.ms[j]?) ∧ (addResult w i v).ms.length = w.ms.length ∧
    (addResult w i v).mlist = w.mlist ∧ (addResult w i v).dflt = w.dflt ∧ (addResult w i v).curMatch = w.curMatch := by
  have e : addResult w i v = { w with ms := w.ms.set i { m with results := m.results ++ [v] } } := by
    simp only [addResult, h]
  rw [e]
  exact ⟨List.getElem?_set_self (lt_of_getElem? h), fun j hj => List.getElem?_set_ne (Ne.symm hj), List.length_set, rfl, rfl, rfl⟩

/-- the stub `AndReturn` extends: the current condition, or the default when there is none (when.go:162-168) -/
def target (w : When) : Option Nat :=
  match w.curMatch with
  | some i => some i
  | none => w.dflt

/-- `AndReturn` (and the 2nd… values of `Returns`) append, in order, to the target stub and touch nothing else -/
theorem andRets_target (vs : List Nat) : ∀ (w : When) (i : Nat) (m : Matcher), target w = some i → w.ms[i]? = some m →
    (vs.foldl andRet w).ms[i]? = some { m with results := m.results ++ vs } ∧
    (∀ j, j ≠ i → (vs.foldl andRet w).ms[j]? = w.ms[j]?) ∧ (vs.foldl andRet w).ms.length = w.ms.length ∧
    (vs.foldl andRet w).mlist = w.mlist ∧ (vs.foldl andRet w).dflt = w.dflt ∧ (vs.foldl andRet w).curMatch = w.curMatch := by
  induction vs with
  | nil => intro w i m _ hm; exact ⟨by simp only [List.foldl_nil, List.append_nil]; exact hm, fun _ _ => rfl, rfl, rfl, rfl, rfl⟩
  | cons v vs ih =>
    intro w i m hc hm
    obtain ⟨a1, a2, a3, a4, a5, a6⟩ := addResult_self w i m v hm
    have hstep : andRet w v = addResult w i v := by
      unfold target at hc
      cases hcm : w.curMatch with
      | some i' => simp only [hcm] at hc; cases hc; simp only [andRet, hcm]
      | none => simp only [hcm] at hc; simp only [andRet, hcm, ret, hc]
    have ht : target (addResult w i v) = some i := by unfold target at hc ⊢; rw [a6, a5]; exact hc
    obtain ⟨b1, b2, b3, b4, b5, b6⟩ := ih (addResult w i v) i _ ht a1
    simp only [List.foldl_cons, hstep]
    refine ⟨by rw [b1]; simp only [List.append_assoc, List.singleton_append], fun j hj => by rw [b2 j hj, a2 j hj],
      by rw [b3, a3], by rw [b4, a4], by rw [b5, a5], by rw [b6, a6]⟩

/-! ## visible part of a history -/

theorem obs_split {w : List Ev} {l1 l2 : List Ev} {e : Ev} (h : obs w = l1 ++ e :: l2) :
    ∃ w1 w2, w = w1 ++ e :: w2 ∧ obs w2 = l2 := by
  unfold obs at h
  obtain ⟨u1, u2, rfl, -, hu2⟩ := List.filter_eq_append_iff.1 h
  obtain ⟨x1, x2, rfl, -, -, hx2⟩ := List.filter_eq_cons_iff.1 hu2
  exact ⟨u1 ++ x1, x2, by simp only [List.append_assoc], hx2⟩

theorem find_congr_mem {α} (p q : α → Bool) : ∀ (l : List α), (∀ x ∈ l, p x = q x) → l.find? p = l.find? q := by
  intro l
  induction l with
  | nil => intro _; rfl
  | cons x xs ih =>
    intro h
    simp only [List.find?_cons, h x (List.mem_cons_self)]
    rw [ih (fun y hy => h y (List.mem_cons_of_mem _ hy))]

end C05L
