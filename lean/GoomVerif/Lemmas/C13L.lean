import GoomVerif.Model.Reject
/-! Helper lemmas for C13 (core Lean only). -/
namespace C13L
open Reject

/-- the loop of signature.go:19/25 finds nothing iff all corresponding sizes agree (lists of equal length) -/
theorem firstSizeMismatch_none_iff : ∀ (as bs : List Ty) (i : Nat), as.length = bs.length →
    (firstSizeMismatch as bs i = none ↔ as.map (·.size) = bs.map (·.size))
  | [], [], _, _ => by simp [firstSizeMismatch]
  | [], _ :: _, _, h => by simp at h
  | _ :: _, [], _, h => by simp at h
  | a :: as, b :: bs, i, h => by
    have ih := firstSizeMismatch_none_iff as bs (i + 1) (by simpa using h)
    by_cases hs : a.size = b.size
    · simp [firstSizeMismatch, hs, ih]
    · simp [firstSizeMismatch, hs]

/-- the reported index is the FIRST offending slot: it exists on both sides, the sizes differ there, and agree before -/
theorem firstSizeMismatch_some : ∀ (as bs : List Ty) (i k : Nat), firstSizeMismatch as bs i = some k →
    i ≤ k ∧ (∃ a b, as[k - i]? = some a ∧ bs[k - i]? = some b ∧ a.size ≠ b.size) ∧
    (∀ j, j < k - i → ∃ a b, as[j]? = some a ∧ bs[j]? = some b ∧ a.size = b.size)
  | [], _, _, _, h => by simp [firstSizeMismatch] at h
  | _ :: _, [], _, _, h => by simp [firstSizeMismatch] at h
  | a :: as, b :: bs, i, k, h => by
    by_cases hs : a.size = b.size
    · simp only [firstSizeMismatch, hs, ne_eq, not_true_eq_false, if_false] at h
      have ⟨h1, ⟨a', b', ha, hb, hne⟩, h3⟩ := firstSizeMismatch_some as bs (i + 1) k h
      have hk : k - i = (k - (i + 1)) + 1 := by omega
      refine ⟨by omega, ⟨a', b', ?_, ?_, hne⟩, ?_⟩
      · rw [hk]; simpa using ha
      · rw [hk]; simpa using hb
      · intro j hj
        cases j with
        | zero => exact ⟨a, b, by simp, by simp, hs⟩
        | succ j =>
          have ⟨x, y, hx, hy, hxy⟩ := h3 j (by omega)
          exact ⟨x, y, by simpa using hx, by simpa using hy, hxy⟩
    · simp only [firstSizeMismatch, ne_eq, hs, not_false_eq_true, if_true, Option.some.injEq] at h
      subst h
      refine ⟨Nat.le_refl _, ⟨a, b, by simp, by simp, hs⟩, ?_⟩
      intro j hj; omega

theorem upd_same {α} (f : Nat → α) (k : Nat) (v : α) : upd f k v k = v := by simp [upd]
theorem upd_other {α} (f : Nat → α) (k x : Nat) (v : α) (h : x ≠ k) : upd f k v x = f x := by simp [upd, h]

end C13L
