import GoomVerif.Model.Reject
/-! Helper lemmas for C13 (core Lean only). -/
namespace C13L
open Reject

/-- the loop of signature.go:19/25 finds nothing iff all corresponding sizes agree (lists of equal length) -/
theorem firstSizeMismatch_none_iff : ∀ (as bs : List Ty) (i : Nat), as.length = bs.length →
    (firstSizeMismatch as bs i = none ↔ as.map (·.size) = bs.map (·.size))
  | [], [], _, _ => by simp [firstSizeMismatch]
  | [], _ :: _, _, h => by simp at h
  | _ :: _, [], _, h => by simp at h
  | a :: as, b :: bs, i, h => by
    have ih := firstSizeMismatch_none_iff as bs (i + 1) (by simpa using h)
    by_cases hs : a.size = b.size
    · simp [firstSizeMismatch, hs, ih]
    · simp [firstSizeMismatch, hs]

/-- the reported index is the FIRST offending slot: it exists on both sides, the sizes differ there, and agree before -/
theorem firstSizeMismatch_some : ∀ (as bs : List Ty) (i k : Nat), firstSizeMismatch as bs i = some k →
    i ≤ k ∧ (∃ a b, as[k - i]? = some a ∧ bs[k - i]? = some b ∧ a.size ≠ b.size) ∧
    (∀ j, j < k - i → ∃ a b, as[j]? = some a ∧ bs[j]? = some b ∧ a.size = b.size)
  | [], _, _, _, h => by simp [firstSizeMismatch] at h
  | _ :: _, [], _, _, h => by simp [firstSizeMismatch] at h
  | a :: as, b :: bs, i, k, h => by
    by_cases hs : a.size = b.size
    · simp only [firstSizeMismatch, hs, ne_eq, not_true_eq_false, if_false] at h
      have ⟨h1, ⟨a', b', ha, hb, hne⟩, h3⟩ := firstSizeMismatch_some as bs (i + 1) k h
      have hk : k - i = (k - (i + 1)) + 1 := by omega
      refine ⟨by omega, ⟨a', b', ?_, ?_, hne⟩, ?_⟩
      · rw [hk]; simpa using ha
      · rw [hk]; simpa using hb
      · intro j hj
        cases j with
        | zero => exact ⟨a, b, by simp, by simp, hs⟩
        | succ j =>
          have ⟨x, y, hx, hy, hxy⟩ := h3 j (by omega)
          exact ⟨x, y, by simpa using hx, by simpa using hy, hxy⟩
    · simp only [firstSizeMismatch, ne_eq, hs, not_false_eq_true, if_true, Option.some.injEq] at h
      subst h
      refine ⟨Nat.le_refl _, ⟨a, b, by simp, by simp, hs⟩, ?_⟩
      intro j hj; omega

theorem upd_same {α} (f : Nat → α) (k : Nat) (v : α) : upd f k v k = v := by simp [upd]
theorem upd_other {α} (f : Nat → α) (k x : Nat) (v : α) (h : x ≠ k) : upd f k v x = f x := by simp [upd, h]

/-! ### every producer of `Model/Reject.lean` ends in one of the model's chain shapes -/

/-- every rejection a computation can end in has one of the model's chain shapes -/
def Good {α} (x : R α) : Prop := ∀ r, x = .error r → r.shape = true

theorem good_pure {α} (a : α) : Good (pure a : R α) := by intro r h; cases h
theorem good_ok {α} (a : α) : Good (.ok a : R α) := by intro r h; cases h
theorem good_bind {α β} (x : R α) (f : α → R β) (hx : Good x) (hf : ∀ a, Good (f a)) : Good (x >>= f) := by
  intro r h
  cases x with
  | error e => simp [bind, Except.bind] at h; subst h; exact hx _ rfl
  | ok a => exact hf a r (by simpa [bind, Except.bind] using h)
theorem good_rej {α} (c : Cls) (ch : List ErrT) (h : (Rej.mk c ch).shape = true) : Good (rej c ch : R α) := by
  intro r hr; simp only [rej, Except.error.injEq] at hr; subst hr; exact h

macro "good_leaf" : tactic => `(tactic| (intro r h; (try simp only [rStr, rReflect, rRuntime, rej, pure, Except.pure] at h); (repeat' (split at h)) <;> (first | (cases h; done) | (simp only [Except.error.injEq] at h; subst h; rfl) | (simp at h))))

theorem good_sigOf (v : V) : Good (sigOf v) := by unfold sigOf; good_leaf
theorem good_signatureEquals (a b : Sig) : Good (signatureEquals a b) := by unfold signatureEquals; good_leaf
theorem good_checkTrampolineFunc (o : OriginV) : Good (checkTrampolineFunc o) := by unfold checkTrampolineFunc; good_leaf
theorem good_addResult (vs : List V) (outs : List Ty) : Good (addResult vs outs) := by unfold addResult; good_leaf
theorem good_newDefaultMatch (a : List V) (m : Bool) (s : Sig) : Good (newDefaultMatch a m s) := by unfold newDefaultMatch; good_leaf
theorem good_lookupCheck (n : String) (f : Bool) : Good (lookupCheck n f) := by unfold lookupCheck; good_leaf
theorem good_nonFuncCall (k : Kind) : Good (nonFuncCall k) := by unfold nonFuncCall; good_leaf
theorem good_exportCall (f : ExportForm) (a b c : Bool) : Good (exportCall f a b c) := by unfold exportCall; good_leaf
theorem good_ifaceMethod (v : IfaceVar) (n : String) (f : Bool) : Good (ifaceMethod v n f) := by unfold ifaceMethod; good_leaf
theorem good_ifaceSignature (m cb : Sig) : Good (ifaceSignature m cb) := by unfold ifaceSignature newReturnsNotMatchError; good_leaf
theorem good_applyIface (v : IfaceVar) (m : Sig) (cb : V) : Good (applyIface v m cb) := by
  unfold applyIface
  intro r h
  (repeat' (split at h))
  all_goals first
    | exact good_ifaceSignature _ _ r h
    | (simp only [rStr, rReflect, rRuntime, rej, Except.error.injEq] at h; subst h; rfl)

theorem good_checkParams (s : Sig) (a r : Option (List V)) (m : Bool) : Good (checkParams s a r m) := by
  unfold checkParams newReturnsNotMatchError
  intro r h
  simp only [bind, Except.bind, pure, Except.pure, rej] at h
  (repeat' (split at h)) <;> first | (cases h; done) | (simp only [Except.error.injEq] at h; subst h; rfl) | (simp at h)

theorem signatureEquals_chain (a b : Sig) (e : Rej) (h : signatureEquals a b = .error e) : e.chain = [.str] := by
  unfold signatureEquals at h
  simp only [rStr, rej, pure, Except.pure] at h
  (repeat' (split at h)) <;> first | (cases h; done) | (simp only [Except.error.injEq] at h; subst h; rfl) | (simp at h)

theorem patchValueChecks_error (a b : V) (e : Rej) (h : patchValueChecks a b = .error e) :
    e.shape = true ∧ (isPatchCls e.cls = true ∨ e.chain.head? ≠ some .plain) := by
  cases a with
  | fn sa =>
    cases b with
    | fn sb =>
      cases hs : signatureEquals sa sb with
      | error e1 =>
        simp [patchValueChecks, sigOf, hs, bind, Except.bind, pure, Except.pure] at h
        subst h
        exact ⟨good_signatureEquals _ _ _ hs, Or.inr (by rw [signatureEquals_chain _ _ _ hs]; simp)⟩
      | ok u => simp [patchValueChecks, sigOf, hs, bind, Except.bind, pure, Except.pure] at h
    | nil | val _ | expr =>
      simp [patchValueChecks, sigOf, rReflect, rej, bind, Except.bind, pure, Except.pure] at h
      subst h; exact ⟨rfl, Or.inr (by simp)⟩
  | nil | val _ | expr =>
    simp [patchValueChecks, sigOf, rReflect, rej, bind, Except.bind, pure, Except.pure] at h
    subst h; exact ⟨rfl, Or.inr (by simp)⟩

theorem shape_asPanicString (e : Rej) (h : e.shape = true) (hp : isPatchCls e.cls = true ∨ e.chain.head? ≠ some .plain) :
    (asPanicString e).shape = true := by
  obtain ⟨cls, chain⟩ := e
  unfold asPanicString
  split
  · rename_i rest hc
    simp only at hc
    cases hp with
    | inl hp => cases cls <;> simp [isPatchCls] at hp <;> rfl
    | inr hp => simp [hc] at hp
  · exact h

theorem replaceFunc_shape (g g' : G) (t fs repl : Nat) (tr : Option Tramp) (e : Rej)
    (h : replaceFunc g t fs repl tr = (g', .error e)) : e.shape = true ∧ isPatchCls e.cls = true := by
  unfold replaceFunc at h
  simp only at h
  (repeat' (split at h)) <;> first
    | (simp only [Prod.mk.injEq, rej, Except.error.injEq] at h; obtain ⟨_, rfl⟩ := h; exact ⟨rfl, rfl⟩)
    | (simp [pure, Except.pure] at h)

theorem applyByFunc_shape (g g' : G) (tg : Target) (cb : V) (o : OriginV) (repl : Nat) (e : Rej)
    (h : applyByFunc g tg cb o repl = (g', .error e)) : e.shape = true := by
  unfold applyByFunc at h
  cases h1 : checkTrampolineFunc o with
  | error e1 =>
    simp only [h1, Prod.mk.injEq, Except.error.injEq] at h
    obtain ⟨_, rfl⟩ := h
    exact good_checkTrampolineFunc o _ h1
  | ok tr =>
    simp only [h1] at h
    cases h2 : patchValueChecks (.fn tg.sig) cb with
    | error e2 =>
      simp only [h2, Prod.mk.injEq, Except.error.injEq] at h
      obtain ⟨_, rfl⟩ := h
      exact shape_asPanicString _ (patchValueChecks_error _ _ _ h2).1 (patchValueChecks_error _ _ _ h2).2
    | ok u =>
      simp only [h2] at h
      cases h3 : replaceFunc g tg.id tg.fsize repl tr with
      | mk g1 r =>
        cases r with
        | error e3 =>
          simp only [h3, Prod.mk.injEq, Except.error.injEq] at h
          obtain ⟨_, rfl⟩ := h
          have := replaceFunc_shape _ _ _ _ _ _ _ h3
          exact shape_asPanicString _ this.1 (Or.inl this.2)
        | ok u2 => simp [h3, pure, Except.pure] at h

theorem good_createWhen (s : Sig) (a d : Option (List V)) (m : Bool) : Good (createWhen s a d m) := by
  intro r h
  unfold createWhen at h
  simp only [bind, Except.bind, pure, Except.pure] at h
  cases hcp : checkParams s a d m with
  | error e => rw [hcp] at h; simp only [Except.error.injEq] at h; subst h; exact good_checkParams _ _ _ _ _ hcp
  | ok u =>
    rw [hcp] at h
    cases d with
    | none =>
      cases a with
      | none => simp at h
      | some as =>
        cases hn : newDefaultMatch as m s with
        | error e => simp [hn] at h; subst h; exact good_newDefaultMatch _ _ _ _ hn
        | ok u2 => simp [hn] at h
    | some ds =>
      cases hr : addResult ds s.outs with
      | error e => simp [hr] at h; subst h; exact good_addResult _ _ _ hr
      | ok u1 =>
        cases a with
        | none => simp [hr] at h
        | some as =>
          cases hn : newDefaultMatch as m s with
          | error e => simp [hr, hn] at h; subst h; exact good_newDefaultMatch _ _ _ _ hn
          | ok u2 => simp [hr, hn] at h

theorem good_whenReturn (w : WhenSt) (s : Sig) (v : Option (List V)) : Good (whenReturn w s v) := by
  unfold whenReturn
  simp only
  split
  · exact good_bind _ _ (good_addResult _ _) (fun _ => good_pure _)
  · split
    · cases v with
      | none => exact good_pure _
      | some vs => exact good_bind _ _ (good_addResult _ _) (fun _ => good_pure _)
    · exact good_bind _ _ (good_addResult _ _) (fun _ => good_pure _)

theorem good_createWS (s : Sig) (a : Option (List V)) (hit : Bool) (d : Option (List V)) (m : Bool) : Good (createWS s a hit d m) := by
  unfold createWS
  refine good_bind _ _ (good_createWhen _ _ _ _) (fun _ => ?_)
  cases a <;> exact good_pure _

theorem good_wWhen (s : Sig) (m : Bool) (w : WS) (a : Option (List V)) (hit : Bool) : Good (wWhen s m w a hit) := by
  unfold wWhen; exact good_bind _ _ (good_newDefaultMatch _ _ _) (fun _ => good_pure _)

theorem good_wReturn (s : Sig) (w : WS) (v : Option (List V)) : Good (wReturn s w v) := by
  unfold wReturn
  split
  · exact good_bind _ _ (good_addResult _ _) (fun _ => good_pure _)
  · split
    · cases v with
      | none => exact good_pure _
      | some vs => exact good_bind _ _ (good_addResult _ _) (fun _ => good_pure _)
    · exact good_bind _ _ (good_addResult _ _) (fun _ => good_pure _)

theorem good_wAndReturn (s : Sig) (w : WS) (v : Option (List V)) : Good (wAndReturn s w v) := by
  unfold wAndReturn
  split
  · exact good_wReturn _ _ _
  · exact good_bind _ _ (good_addResult _ _) (fun _ => good_pure _)

theorem wReturns_shape (s : Sig) : ∀ (gs : List (List V)) (w w' : WS) (i : Nat) (e : Rej),
    wReturns s w gs i = (w', .error e) → e.shape = true
  | [], w, w', i, e, h => by simp [wReturns, pure, Except.pure] at h
  | g :: rest, w, w', i, e, h => by
    unfold wReturns at h
    split at h
    · rename_i e1 h1
      simp only [Prod.mk.injEq, Except.error.injEq] at h
      obtain ⟨_, rfl⟩ := h
      split at h1
      · exact good_wReturn _ _ _ _ h1
      · exact good_wAndReturn _ _ _ _ h1
    · exact wReturns_shape s rest _ _ _ _ h

theorem good_inParam (s : Sig) (m : Bool) (i : Nat) (a : InArg) : Good (inParam s m i a) := by
  unfold inParam; good_leaf

theorem good_wIn (s : Sig) (m : Bool) (w : WS) : ∀ (gs : List (InArg × Bool)) (i : Nat) (hit : Bool), Good (wIn s m w gs i hit)
  | [], i, hit => by unfold wIn; exact good_pure _
  | (g, h) :: rest, i, hit => by
    unfold wIn
    split
    · rename_i e he; intro r hr; simp only [Except.error.injEq] at hr; subst hr; exact good_inParam _ _ _ _ _ he
    · split
      · exact good_wIn s m w rest _ _
      all_goals good_leaf

theorem wMatches_shape (s : Sig) (m : Bool) : ∀ (ps : List (List V × Bool × List V)) (w w' : WS) (e : Rej),
    wMatches s m w ps = (w', .error e) → e.shape = true
  | [], w, w', e, h => by simp [wMatches, pure, Except.pure] at h
  | (a, hit, r) :: rest, w, w', e, h => by
    unfold wMatches at h
    split at h
    · rename_i e1 h1
      simp only [Prod.mk.injEq, Except.error.injEq] at h
      obtain ⟨_, rfl⟩ := h
      exact good_newDefaultMatch _ _ _ _ h1
    · split at h
      · rename_i e1 h1
        simp only [Prod.mk.injEq, Except.error.injEq] at h
        obtain ⟨_, rfl⟩ := h
        exact good_addResult _ _ _ h1
      · exact wMatches_shape s m rest _ _ _ h

theorem whenStep_shape (s : Sig) (m : Bool) (w w' : WS) (st : Step) (e : Rej)
    (h : whenStep s m w st = (w', .error e)) : e.shape = true := by
  cases st with
  | ret v =>
    simp only [whenStep] at h; split at h
    · simp [pure, Except.pure] at h
    · rename_i e1 h1; simp only [Prod.mk.injEq, Except.error.injEq] at h; obtain ⟨_, rfl⟩ := h; exact good_wReturn _ _ _ _ h1
  | when_ a hit =>
    simp only [whenStep] at h; split at h
    · simp [pure, Except.pure] at h
    · rename_i e1 h1; simp only [Prod.mk.injEq, Except.error.injEq] at h; obtain ⟨_, rfl⟩ := h; exact good_wWhen _ _ _ _ _ _ h1
  | returns gs => exact wReturns_shape _ _ _ _ _ _ h
  | andReturn v =>
    simp only [whenStep] at h; split at h
    · simp [pure, Except.pure] at h
    · rename_i e1 h1; simp only [Prod.mk.injEq, Except.error.injEq] at h; obtain ⟨_, rfl⟩ := h; exact good_wAndReturn _ _ _ _ h1
  | in_ gs =>
    simp only [whenStep] at h; split at h
    · simp [pure, Except.pure] at h
    · rename_i e1 h1; simp only [Prod.mk.injEq, Except.error.injEq] at h; obtain ⟨_, rfl⟩ := h; exact good_wIn _ _ _ _ _ _ _ h1
  | matchPairs ps => exact wMatches_shape _ _ _ _ _ _ h
  | again => simp [whenStep, pure, Except.pure] at h
  | lookup n f => simp [whenStep, pure, Except.pure] at h
  | asFn f => simp [whenStep, pure, Except.pure] at h
  | holder hm => simp [whenStep, pure, Except.pure] at h
  | apply cb => simp [whenStep, pure, Except.pure] at h


end C13L
