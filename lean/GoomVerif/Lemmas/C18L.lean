import GoomVerif.Model.Equal
import GoomVerif.Model.ShareC18
import Std.Data.String.ToInt
/-! Specification `goEq` (Go's own equality on the value universe), the domain predicates of C18 and the helper lemmas. -/
namespace C18L
open C18M

/-! ## The specification: Go equality -/

/-- Equality of two non-nil values of one type at a *scalar position* (the value itself, or what one pointer / interface
    holds): Go `==` on bool/integer/float/string, identity on funcs (same function and same captured state),
    `reflect.DeepEqual` on everything else (struct, array, slice, map, and a pointee that is itself a pointer/interface). -/
def goEq1 : Val → Val → Bool
  | .bool _ a, .bool _ b => a == b
  | .int _ _ a, .int _ _ b => a == b
  | .flt _ w a _, .flt _ _ b _ => fltEq w a b
  | .str _ a _ _, .str _ b _ _ => a == b
  | .nilfunc _, .nilfunc _ => true
  | .func _ c e, .func _ c' e' => c == c' && e == e'
  | .nilfunc _, .func .. => false
  | .func .., .nilfunc _ => false
  | v, w => deepEqual (toIface v) (toIface w)

/-- `goEq x a`: two nils are equal, a nil equals nothing else, pointers and interfaces are compared by what they hold. -/
def goEq (x a : Val) : Bool :=
  if isNil (some x) && isNil (some a) then true
  else if isNil (some x) || isNil (some a) then false
  else match x, a with
    | .ptr _ _ v, .ptr _ _ w => goEq1 v w
    | .iface _ v, .iface _ w => goEq1 v w
    | v, w => goEq1 v w

/-! ## The domain: same-typed ordinary values -/

/-- Same type and the same representation class (what equal type names mean for real Go values). -/
def sameShape1 : Val → Val → Bool
  | .bool t _, .bool t' _ => t == t'
  | .int t s _, .int t' s' _ => t == t' && s == s'
  | .flt t w _ _, .flt t' w' _ _ => t == t' && w == w'
  | .str t _ _ _, .str t' _ _ _ => t == t'
  | .strct t _, .strct t' _ => t == t'
  | .arr t _, .arr t' _ => t == t'
  | .nilslice t, .nilslice t' | .nilslice t, .slice t' _ _ | .slice t _ _, .nilslice t' | .slice t _ _, .slice t' _ _ => t == t'
  | .nilmap t, .nilmap t' | .nilmap t, .map t' _ _ _ | .map t _ _ _, .nilmap t' | .map t _ _ _, .map t' _ _ _ => t == t'
  | .nilptr t, .nilptr t' | .nilptr t, .ptr t' _ _ | .ptr t _ _, .nilptr t' | .ptr t _ _, .ptr t' _ _ => t == t'
  | .nilif t, .nilif t' | .nilif t, .iface t' _ | .iface t _, .nilif t' | .iface t _, .iface t' _ => t == t'
  | .nilfunc t, .nilfunc t' | .nilfunc t, .func t' _ _ | .func t _ _, .nilfunc t' | .func t _ _, .func t' _ _ => t == t'
  | _, _ => false

/-- `SameDyn`: same static type, and the same dynamic type where the value is (or points to) an interface position. -/
def sameDyn : Val → Val → Bool
  | .ptr t _ v, .ptr t' _ w => t == t' && sameShape1 v w
  | .iface t v, .iface t' w => t == t' && sameShape1 v w
  | x, a => sameShape1 x a

/-- The stated assumption about `fmt` and the "ordinary floating-point" restriction, on one pair at a scalar position:
    neither is NaN, they are not the pair +0 and -0, and their `%v` texts are equal iff their bit patterns are
    (fmt prints the shortest decimal that round-trips, so distinct non-NaN floats of one width print differently). -/
def ordinary1 : Val → Val → Prop
  | .flt _ w a ta, .flt _ _ b tb =>
      isNaN w a = false ∧ isNaN w b = false ∧ ¬ (isZeroF w a = true ∧ isZeroF w b = true ∧ a ≠ b) ∧ (ta = tb ↔ a = b)
  | .func _ c _, .nilfunc _ => c ≠ 0          -- a real function has a non-zero code pointer
  | .nilfunc _, .func _ c _ => c ≠ 0
  | _, _ => True

/-- `Ordinary x a`: the scalar positions of the pair (the values themselves, or what one pointer/interface holds). -/
def Ordinary : Val → Val → Prop
  | .ptr _ _ v, .ptr _ _ w => ordinary1 v w
  | .iface _ v, .iface _ w => ordinary1 v w
  | x, a => ordinary1 x a

/-- The excluded case of the known finding `C18-closure-code-identity`: two funcs with the same code but different
    captured state (decidable). -/
def closureAlias1 : Val → Val → Bool
  | .func _ c e, .func _ c' e' => c == c' && e != e'
  | _, _ => false

def closureAlias : Val → Val → Bool
  | .ptr _ _ v, .ptr _ _ w => closureAlias1 v w
  | .iface _ v, .iface _ w => closureAlias1 v w
  | x, a => closureAlias1 x a

/-! ## Lemmas -/

theorem repr_beq (a b : Int) : (Int.repr a == Int.repr b) = (a == b) := by
  by_cases h : a = b
  · subst h; simp
  · have : Int.repr a ≠ Int.repr b := fun e => h (Int.repr_inj.mp e)
    rw [beq_eq_false_iff_ne.mpr this, beq_eq_false_iff_ne.mpr h]

/-- The cascade on a same-typed ordinary pair at a scalar position is Go equality. -/
theorem cascade_spec (l r : Val) (hs : sameShape1 l r = true) (ho : ordinary1 l r) (hc : closureAlias1 l r = false) :
    cascade (some l) (some r) = .ok (goEq1 l r) := by
  cases l <;> cases r <;> (try simp [sameShape1] at hs)
  all_goals try
    simp [cascade, numStringEqual, boolEquals, isNum, isStr, isBool, isFunc, tryToBool, elemIfPtrOrIface, numText, funcPtr, goEq1,
      toIface, deepEqual, deepEq, repr_beq, hs]
  case flt.flt t w a ta t' w' b tb =>
    obtain ⟨rfl, rfl⟩ := hs
    simp [ordinary1] at ho
    obtain ⟨hna, hnb, hz, htx⟩ := ho
    by_cases hab : a = b
    · subst hab; simp [fltEq, hna, htx]
    · have : ta ≠ tb := fun e => hab (htx.mp e)
      have h1 : (ta == tb) = false := by simp [this]
      have h2 : (a == b) = false := by simp [hab]
      simp only [fltEq, h1, h2, hna, hnb]
      cases hza : isZeroF w a <;> cases hzb : isZeroF w b <;> simp
      exact hab (hz hza hzb)
  case func.func t c e t' c' e' =>
    simp [closureAlias1] at hc
    by_cases h : c = c'
    · simp [h, hc h]
    · simp [h]
  case func.nilfunc => simpa [ordinary1] using ho
  case nilfunc.func =>
    simp [ordinary1] at ho
    exact fun h => ho h.symm

/-- `equal` on a same-typed ordinary pair is Go equality (nil handling and the one `Elem` included). -/
theorem equal_spec (x a : Val) (hs : sameDyn x a = true) (ho : Ordinary x a) (hc : closureAlias x a = false) :
    equal (some x) (some a) = .ok (goEq x a) := by
  have hs0 := hs
  cases x <;> cases a <;> (try (simp [sameDyn, sameShape1] at hs0; done)) <;>
  first
  | (simp [equal, isNil, goEq]; done)
  | (simp only [sameDyn, Bool.and_eq_true] at hs
     simp only [Ordinary] at ho
     simp only [closureAlias] at hc
     simpa [equal, isNil, elemIfPtrOrIface, goEq] using cascade_spec _ _ hs.2 ho hc)
  | (simp only [sameDyn] at hs
     simp only [Ordinary] at ho
     simp only [closureAlias] at hc
     simpa [equal, isNil, elemIfPtrOrIface, goEq] using cascade_spec _ _ hs ho hc)

theorem fltEq_symm (w : Bool) (a b : Nat) : fltEq w a b = fltEq w b a := by
  simp only [fltEq]
  cases isNaN w a <;> cases isNaN w b <;> cases isZeroF w a <;> cases isZeroF w b <;> simp <;> exact BEq.comm

theorem idsym (i j : Nat) : (i != 0 && i == j) = (j != 0 && j == i) := by
  by_cases h : i = j
  · subst h; rfl
  · have h' : ¬ j = i := fun e => h e.symm
    rw [beq_eq_false_iff_ne.mpr h, beq_eq_false_iff_ne.mpr h']; simp

mutual
theorem deepEq_symm : ∀ (x y : Val), deepEq x y = deepEq y x := by
  intro x y
  cases x <;> cases y <;> simp only [deepEq]
  case bool.bool t1 a t2 b => rw [BEq.comm (a := t1), BEq.comm (a := a)]
  case int.int t1 s1 a t2 s2 b => rw [BEq.comm (a := t1), BEq.comm (a := a), BEq.comm (a := s1)]
  case flt.flt t1 w1 a _ t2 w2 b _ =>
    rw [BEq.comm (a := t1), BEq.comm (a := w1), fltEq_symm]
    by_cases h : w2 = w1
    · subst h; rfl
    · have h2 : ¬ w1 = w2 := fun e => h e.symm
      rw [beq_eq_false_iff_ne.mpr h]; simp
  case str.str t1 a _ _ t2 b _ _ => rw [BEq.comm (a := t1), BEq.comm (a := a)]
  case strct.strct t1 f t2 g => rw [BEq.comm (a := t1), deepEqs_symm f g]
  case arr.arr t1 f t2 g => rw [BEq.comm (a := t1), deepEqs_symm f g]
  case nilslice.nilslice t1 t2 => rw [BEq.comm]
  case slice.slice t1 i f t2 j g => rw [BEq.comm (a := t1), deepEqs_symm f g, idsym, BEq.comm (a := f.len)]
  case nilmap.nilmap t1 t2 => rw [BEq.comm]
  case map.map t1 i k1 v1 t2 j k2 v2 => rw [BEq.comm (a := t1), deepEqs_symm k1 k2, deepEqs_symm v1 v2, idsym]
  case nilptr.nilptr t1 t2 => rw [BEq.comm]
  case ptr.ptr t1 i v t2 j w => rw [BEq.comm (a := t1), deepEq_symm v w, idsym]
  case nilif.nilif t1 t2 => rw [BEq.comm]
  case iface.iface t1 v t2 w => rw [BEq.comm (a := t1), deepEq_symm v w]
  case nilfunc.nilfunc t1 t2 => rw [BEq.comm]
theorem deepEqs_symm : ∀ (x y : Vals), deepEqs x y = deepEqs y x := by
  intro x y
  cases x <;> cases y <;> simp only [deepEqs]
  case cons.cons a r b s => rw [deepEq_symm a b, deepEqs_symm r s]
end

theorem deepEqual_symm (x y : Option Val) : deepEqual x y = deepEqual y x := by
  cases x <;> cases y <;> simp [deepEqual, deepEq_symm]

theorem sameShape1_symm (v w : Val) : sameShape1 v w = sameShape1 w v := by
  cases v <;> cases w <;> simp only [sameShape1] <;>
    first | rfl | exact BEq.comm | (congr 1 <;> exact BEq.comm)

theorem sameDyn_symm (x a : Val) : sameDyn x a = sameDyn a x := by
  cases x <;> cases a <;> simp only [sameDyn] <;>
    first | exact sameShape1_symm _ _ | (rw [sameShape1_symm]; congr 1; exact BEq.comm)

theorem closureAlias1_symm (v w : Val) : closureAlias1 v w = closureAlias1 w v := by
  cases v <;> cases w <;> simp only [closureAlias1]
  case func.func t c e t' c' e' =>
    rw [BEq.comm (a := c)]
    congr 1
    simp [bne, BEq.comm (a := e)]

theorem closureAlias_symm (x a : Val) : closureAlias x a = closureAlias a x := by
  cases x <;> cases a <;> simp only [closureAlias] <;> exact closureAlias1_symm _ _

theorem ordinary1_symm (v w : Val) (hs : sameShape1 v w = true) (h : ordinary1 v w) : ordinary1 w v := by
  cases v <;> cases w <;> simp [sameShape1] at hs <;> simp only [ordinary1] at h ⊢ <;> try exact h
  case flt.flt t w a ta t' w' b tb =>
    obtain ⟨rfl, rfl⟩ := hs
    obtain ⟨h1, h2, h3, h4⟩ := h
    exact ⟨h2, h1, fun ⟨z1, z2, ne⟩ => h3 ⟨z2, z1, fun e => ne e.symm⟩, ⟨fun e => (h4.mp e.symm).symm, fun e => (h4.mpr e.symm).symm⟩⟩

theorem Ordinary_symm (x a : Val) (hs : sameDyn x a = true) (h : Ordinary x a) : Ordinary a x := by
  cases x <;> cases a <;> simp [sameDyn, sameShape1] at hs <;> simp only [Ordinary] at h ⊢ <;>
    first
    | exact ordinary1_symm _ _ (by simp [sameShape1, hs]) h
    | exact ordinary1_symm _ _ hs.2 h

theorem goEq1_symm (v w : Val) (hs : sameShape1 v w = true) : goEq1 v w = goEq1 w v := by
  cases v <;> cases w <;> simp [sameShape1] at hs <;> simp only [goEq1] <;>
    first
    | rfl
    | exact BEq.comm
    | exact deepEqual_symm _ _
    | skip
  case flt.flt t w a ta t' w' b tb =>
    obtain ⟨rfl, rfl⟩ := hs
    exact fltEq_symm _ _ _
  case func.func t c e t' c' e' => rw [BEq.comm (a := c), BEq.comm (a := e)]

theorem goEq_symm (x a : Val) (hs : sameDyn x a = true) : goEq x a = goEq a x := by
  have hs0 := hs
  cases x <;> cases a <;> (try (simp [sameDyn, sameShape1] at hs0; done)) <;>
  first
  | (simp [goEq, isNil]; done)
  | (simp only [sameDyn, Bool.and_eq_true] at hs
     simpa [goEq, isNil] using goEq1_symm _ _ hs.2)
  | (simp only [sameDyn] at hs
     simpa [goEq, isNil] using goEq1_symm _ _ hs)

theorem cascade_total (l r : Val) : ∃ b, cascade (some l) (some r) = .ok b := by
  simp only [cascade]
  repeat (first | exact ⟨_, rfl⟩ | split)

theorem elem_some (l : Val) (h : isNil (some l) = false) : ∃ l', elemIfPtrOrIface (some l) = some l' := by
  cases l <;> simp [isNil] at h <;> simp [elemIfPtrOrIface]

theorem equal_total (l r : Val) : ∃ b, equal (some l) (some r) = .ok b := by
  simp only [equal]
  split
  · exact ⟨_, rfl⟩
  · split
    · exact ⟨_, rfl⟩
    · rename_i h1 h2
      have hl : isNil (some l) = false := by
        cases hl : isNil (some l) <;> cases hr : isNil (some r) <;> simp [hl, hr] at h1 h2 ⊢
      have hr : isNil (some r) = false := by
        cases hl : isNil (some l) <;> cases hr : isNil (some r) <;> simp [hl, hr] at h1 h2 ⊢
      obtain ⟨l', el⟩ := elem_some l hl
      obtain ⟨r', er⟩ := elem_some r hr
      rw [el, er]
      exact cascade_total l' r'

theorem toValue_some (x : Arg) (T : Ty) (v : Option Val) (h : toValue x T = .ok v) : v.isSome = true := by
  unfold toValue at h
  split at h
  · split at h <;> first | (injection h with h; subst h; simp [nilableZero, *]) | contradiction | skip
    all_goals simp_all [nilableZero]
  · repeat (first | contradiction | (injection h with h; subst h; rfl) | split at h)

mutual
def rwf : RExpr → Bool
  | .any => true
  | .equals v => v.isSome
  | .inE rows => rowsWf rows
def rowsWf : RRows → Bool
  | .nil => true
  | .cons r rs => rowWf r && rowsWf rs
def rowWf : RRow → Bool
  | .nil => true
  | .cons e r => rwf e && rowWf r
end

theorem bind_ok {α β} (x : Res α) (f : α → Res β) (b : β) (h : x.bind f = .ok b) : ∃ a, x = .ok a ∧ f a = .ok b := by
  cases x <;> simp [Res.bind] at h
  exact ⟨_, rfl, h⟩

mutual
theorem resolve_wf : ∀ (e : Expr) (types : List Ty) (r : RExpr), resolve e types = .ok r → rwf r = true
  | .any, _, r, h => by simp [resolve] at h; subst h; rfl
  | .equals x, types, r, h => by
    simp only [resolve] at h
    split at h
    · obtain ⟨v, hv, h2⟩ := bind_ok _ _ _ h
      injection h2 with h2; subst h2
      exact toValue_some _ _ _ hv
    · contradiction
  | .inE items, types, r, h => by
    simp only [resolve] at h
    obtain ⟨rows, hv, h2⟩ := bind_ok _ _ _ h
    injection h2 with h2; subst h2
    exact resolveItems_wf items types rows hv
theorem resolveItems_wf : ∀ (items : Items) (types : List Ty) (rows : RRows), resolveItems items types = .ok rows → rowsWf rows = true
  | .nil, _, rows, h => by simp [resolveItems] at h; subst h; rfl
  | .one c rest, types, rows, h => by
    simp only [resolveItems] at h
    split at h
    · contradiction
    obtain ⟨row, hrow, h2⟩ := bind_ok _ _ _ h
    obtain ⟨rs, hrs, h3⟩ := bind_ok _ _ _ h2
    injection h3 with h3; subst h3
    have hw : rowWf row = true := by
      split at hrow
      · contradiction
      · split at hrow
        · contradiction
        · obtain ⟨e, he, h4⟩ := bind_ok _ _ _ hrow
          injection h4 with h4; subst h4
          simp [rowWf, resolveComp_wf c _ e he]
    simp [rowsWf, hw, resolveItems_wf rest types rs hrs]
  | .tuple cs rest, types, rows, h => by
    simp only [resolveItems] at h
    obtain ⟨row, hrow, h2⟩ := bind_ok _ _ _ h
    obtain ⟨rs, hrs, h3⟩ := bind_ok _ _ _ h2
    injection h3 with h3; subst h3
    have hw : rowWf row = true := by
      split at hrow
      · contradiction
      · exact toExprFrom_wf cs types 0 row hrow
    simp [rowsWf, hw, resolveItems_wf rest types rs hrs]
theorem toExprFrom_wf : ∀ (cs : Comps) (types : List Ty) (i : Nat) (row : RRow), toExprFrom cs types i = .ok row → rowWf row = true
  | .nil, _, _, row, h => by simp [toExprFrom] at h; subst h; rfl
  | .cons c rest, types, i, row, h => by
    simp only [toExprFrom] at h
    split at h
    · contradiction
    · obtain ⟨e, he, h2⟩ := bind_ok _ _ _ h
      obtain ⟨r, hr, h3⟩ := bind_ok _ _ _ h2
      injection h3 with h3; subst h3
      simp [rowWf, resolveComp_wf c _ e he, toExprFrom_wf rest types (i + 1) r hr]
theorem resolveComp_wf : ∀ (c : Comp) (t : Ty) (e : RExpr), resolveComp c t = .ok e → rwf e = true
  | .val x, t, e, h => by
    simp only [resolveComp] at h
    obtain ⟨v, hv, h2⟩ := bind_ok _ _ _ h
    injection h2 with h2; subst h2
    exact toValue_some _ _ _ hv
  | .sub e', t, e, h => by
    simp only [resolveComp] at h
    exact resolve_wf e' [t] e h
end

def allSome (input : List (Option Val)) : Prop := ∀ a ∈ input, a.isSome = true

mutual
theorem eval1_total : ∀ (e : RExpr), rwf e = true → ∀ a : Val, ∃ b, eval e [some a] = .ok b
  | .any, _, _ => ⟨true, by simp [eval]⟩
  | .equals v, h, a => by
    simp only [rwf] at h
    obtain ⟨x, rfl⟩ := Option.isSome_iff_exists.mp h
    simpa [eval] using equal_total x a
  | .inE rows, h, a => by
    simp only [rwf] at h
    simpa [eval] using evalRows_total rows h [some a] (by intro v hv; simp at hv; subst hv; rfl)
theorem evalRows_total : ∀ (rows : RRows), rowsWf rows = true → ∀ input, allSome input → ∃ b, evalRows rows input = .ok b
  | .nil, _, _, _ => ⟨false, by simp [evalRows]⟩
  | .cons row rest, h, input, hi => by
    simp only [rowsWf, Bool.and_eq_true] at h
    simp only [evalRows]
    split
    · exact evalRows_total rest h.2 input hi
    · obtain ⟨b, hb⟩ := evalRow_total row h.1 input hi
      rw [hb]
      cases b
      · simpa [Res.bind] using evalRows_total rest h.2 input hi
      · exact ⟨true, by simp [Res.bind]⟩
theorem evalRow_total : ∀ (row : RRow), rowWf row = true → ∀ input, allSome input → ∃ b, evalRow row input = .ok b
  | .nil, _, _, _ => ⟨true, by simp [evalRow]⟩
  | .cons e r, h, input, hi => by
    simp only [rowWf, Bool.and_eq_true] at h
    cases input with
    | nil => exact ⟨true, by simp [evalRow]⟩
    | cons a as =>
      have ha : a.isSome = true := hi a (by simp)
      obtain ⟨av, rfl⟩ := Option.isSome_iff_exists.mp ha
      obtain ⟨b, hb⟩ := eval1_total e h.1 av
      simp only [evalRow, hb, Res.bind]
      cases b
      · exact ⟨false, by simp⟩
      · simpa using evalRow_total r h.2 as (fun v hv => hi v (by simp [hv]))
end

/-- First accepting alternative wins; an error or panic of an alternative that is reached is the answer. -/
def orRes : List (Res Bool) → Res Bool
  | [] => .ok false
  | r :: rs => r.bind (fun b => if b then .ok true else orRes rs)

/-- The components of an `In` all of whose items are single values / expressions (`none` if a tuple occurs). -/
def Items.comps : Items → Option (List Comp)
  | .nil => some []
  | .one c rest => (Items.comps rest).map (c :: ·)
  | .tuple _ _ => none

theorem bind_bool_id (x : Res Bool) : x.bind (fun b => if b then Res.ok true else Res.ok false) = x := by
  cases x <;> simp [Res.bind]
  rename_i b; cases b <;> rfl

theorem evalRow_single (e : RExpr) (a : Option Val) : evalRow (.cons e .nil) [a] = eval e [a] := by
  simp only [evalRow]
  exact bind_bool_id _

theorem in_union_rows : ∀ (items : Items) (T : Ty) (cs : List Comp) (rows : RRows) (a : Option Val),
    Items.comps items = some cs → resolveItems items [T] = .ok rows →
    evalRows rows [a] = orRes (cs.map (fun c => (resolveComp c T).bind (fun e => eval e [a])))
  | .nil, T, cs, rows, a, hc, hr => by
    simp [Items.comps] at hc; subst hc
    simp [resolveItems] at hr; subst hr
    simp [evalRows, orRes]
  | .one c rest, T, cs, rows, a, hc, hr => by
    simp only [Items.comps, Option.map_eq_some_iff] at hc
    obtain ⟨cs', hcs', rfl⟩ := hc
    simp only [resolveItems] at hr
    split at hr
    · contradiction
    obtain ⟨row, hrow, h2⟩ := bind_ok _ _ _ hr
    obtain ⟨rs, hrs, h3⟩ := bind_ok _ _ _ h2
    injection h3 with h3; subst h3
    simp [typeAt] at hrow
    obtain ⟨e, he, h4⟩ := bind_ok _ _ _ hrow
    injection h4 with h4; subst h4
    have ih := in_union_rows rest T cs' rs a hcs' hrs
    simp only [evalRows, List.map_cons, orRes, he, evalRow_single, ← ih]
    simp [RRow.len, Res.bind]
  | .tuple _ _, T, cs, rows, a, hc, hr => by simp [Items.comps] at hc

def state (o : Obj) : List Call → Obj
  | [] => o
  | c :: cs => state (step o c).1 cs

theorem step_eval_state (o : Obj) (input : List (Option Val)) : (step o (.eval input)).1 = o := rfl

theorem run_append (o : Obj) (pre post : List Call) : run o (pre ++ post) = run o pre ++ run (state o pre) post := by
  induction pre generalizing o with
  | nil => rfl
  | cons c cs ih => simp [run, state, ih]

theorem toExprV_wf (cs : Comps) (fixed : List Ty) (elemT : Ty) (row : RRow) (h : toExprV cs fixed elemT = .ok row) :
    rowWf row = true := by
  unfold toExprV at h
  split at h
  · contradiction
  · exact toExprFrom_wf cs _ 0 row h

theorem resolveTuplesVFrom_wf : ∀ (items : Items) (fixed : List Ty) (elemT : Ty) (i : Nat) (rows : RRows),
    resolveTuplesVFrom items fixed elemT i = .ok rows → rowsWf rows = true
  | .nil, _, _, _, rows, h => by simp [resolveTuplesVFrom] at h; subst h; rfl
  | .one c rest, fixed, elemT, i, rows, h => by
    simp only [resolveTuplesVFrom] at h
    split at h
    · contradiction
    obtain ⟨row, hrow, h2⟩ := bind_ok _ _ _ h
    obtain ⟨rs, hrs, h3⟩ := bind_ok _ _ _ h2
    injection h3 with h3; subst h3
    have hw : rowWf row = true := by
      split at hrow
      · split at hrow
        · exact toExprV_wf _ _ _ _ hrow
        · contradiction
      · exact toExprV_wf _ _ _ _ hrow
    simp [rowsWf, hw, resolveTuplesVFrom_wf rest fixed elemT (i + 1) rs hrs]
  | .tuple cs rest, fixed, elemT, i, rows, h => by
    simp only [resolveTuplesVFrom] at h
    obtain ⟨row, hrow, h2⟩ := bind_ok _ _ _ h
    obtain ⟨rs, hrs, h3⟩ := bind_ok _ _ _ h2
    injection h3 with h3; subst h3
    simp [rowsWf, toExprV_wf _ _ _ _ hrow, resolveTuplesVFrom_wf rest fixed elemT (i + 1) rs hrs]

theorem resolveTuplesV_wf (items : Items) (fixed : List Ty) (elemT : Ty) (rows : RRows)
    (h : resolveTuplesV items fixed elemT = .ok rows) : rowsWf rows = true :=
  resolveTuplesVFrom_wf items fixed elemT 0 rows h

/-! ## Shared expression objects -/

/-- Object `id` of the heap is an `AnyExpr` (built by `arg.Any()`, e.g. the exported `arg.AnyValues`). -/
def IsAny (h : Heap) (id : Nat) : Prop := ∃ o, h[id]? = some o ∧ o.st = .any ∧ o.src = .any

theorem setSt_other (h : Heap) (j id : Nat) (st : OState) (hne : j ≠ id) : (setSt h j st)[id]? = h[id]? := by
  unfold setSt
  split
  · exact List.getElem?_set_ne hne
  · rfl

theorem compsRow_pres (P : Heap → Prop) (rr : Heap → Nat → Ty → Heap × Res Unit)
    (hrr : ∀ h id t, P h → P (rr h id t).1) :
    ∀ (cs : List SComp) (h : Heap) (types : List Ty) (i : Nat), P h → P (compsRow rr h cs types i).1 := by
  intro cs
  induction cs with
  | nil => intro h types i hp; simpa [compsRow] using hp
  | cons c cs ih =>
    intro h types i hp
    unfold compsRow
    split
    · exact hp
    · split
      · split
        · exact ih h types (i + 1) hp
        · exact hp
      · split
        · exact ih _ types (i + 1) (hrr _ _ _ hp)
        · exact hrr _ _ _ hp

theorem itemsRows_pres (P : Heap → Prop) (rr : Heap → Nat → Ty → Heap × Res Unit)
    (hrr : ∀ h id t, P h → P (rr h id t).1) :
    ∀ (items : List SItem) (h : Heap) (types : List Ty), P h → P (itemsRows rr h items types).1 := by
  intro items
  induction items with
  | nil => intro h types hp; simpa [itemsRows] using hp
  | cons it rest ih =>
    intro h types hp
    unfold itemsRows
    split
    · exact hp
    · split
      · exact ih _ types (compsRow_pres P rr hrr _ h types 0 hp)
      · exact compsRow_pres P rr hrr _ h types 0 hp

theorem resolveObj_pres (id : Nat) : ∀ (fuel : Nat) (h : Heap) (j : Nat) (types : List Ty),
    IsAny h id → IsAny (resolveObj fuel h j types).1 id := by
  intro fuel
  induction fuel with
  | zero => intro h j types hp; simpa [resolveObj] using hp
  | succ fuel ih =>
    intro h j types hp
    unfold resolveObj
    split
    · exact hp
    · rename_i o ho
      have hne : o.src ≠ .any → j ≠ id := by
        intro hs e
        subst e
        obtain ⟨o', ho', _, hsrc⟩ := hp
        rw [ho] at ho'
        injection ho' with ho'
        subst ho'
        exact hs hsrc
      split
      · exact hp
      · rename_i x hsrc
        have hj := hne (by rw [hsrc]; intro e; cases e)
        split
        · split
          · obtain ⟨o', ho', h2⟩ := hp; exact ⟨o', by rw [setSt_other _ _ _ _ hj]; exact ho', h2⟩
          · obtain ⟨o', ho', h2⟩ := hp; exact ⟨o', by rw [setSt_other _ _ _ _ hj]; exact ho', h2⟩
          · exact hp
        · exact hp
      · rename_i items hsrc
        have hj := hne (by rw [hsrc]; intro e; cases e)
        have hp' := itemsRows_pres (fun h => IsAny h id) (fun h id t => resolveObj fuel h id [t])
          (fun h j t hp => ih h j [t] hp) items h types hp
        split
        · obtain ⟨o', ho', h2⟩ := hp'; exact ⟨o', by rw [setSt_other _ _ _ _ hj]; exact ho', h2⟩
        · exact hp'

theorem stateS_pres (id : Nat) (fuel : Nat) : ∀ (script : List SStep) (h : Heap), IsAny h id → IsAny (stateS fuel h script) id := by
  intro script
  induction script with
  | nil => intro h hp; exact hp
  | cons s ss ih =>
    intro h hp
    cases s with
    | resolve j types => exact ih _ (resolveObj_pres id fuel h j types hp)
    | eval j input => exact ih _ hp

theorem runS_append (fuel : Nat) (h : Heap) (pre post : List SStep) :
    runS fuel h (pre ++ post) = runS fuel h pre ++ runS fuel (stateS fuel h pre) post := by
  induction pre generalizing h with
  | nil => rfl
  | cons c cs ih => simp [runS, stateS, ih]

/-! ## Union over rows of any width -/

def _root_.C18M.RRows.toList : RRows → List RRow
  | .nil => []
  | .cons r rs => r :: rs.toList

/-- `InExpr.Eval` (expr.go:110-130) over rows of any width: rows of another length are skipped, the others are tried in order. -/
theorem evalRows_union : ∀ (rows : RRows) (input : List (Option Val)),
    evalRows rows input =
      orRes (((RRows.toList rows).filter (fun r => r.len == input.length)).map (fun r => evalRow r input))
  | .nil, input => by simp [evalRows, RRows.toList, orRes]
  | .cons row rest, input => by
    have ih := evalRows_union rest input
    simp only [evalRows, RRows.toList]
    by_cases h : input.length = row.len
    · have h' : (row.len == input.length) = true := by simp [h]
      simp [h, List.filter, orRes, ih]
    · have h' : (row.len == input.length) = false := by
        apply beq_eq_false_iff_ne.mpr
        exact fun e => h e.symm
      simp [h, h', List.filter, ih]

end C18L
