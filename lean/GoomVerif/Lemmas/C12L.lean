import GoomVerif.Model.ApiC12
import GoomVerif.Model.LwwC12
/-! Helper lemmas for Props/C12.lean: well-formedness of the model state, the simulation relation between the
    implementation model and the last-writer-wins reference, and its preservation by every step and every call. -/
namespace C12M

/-- well-formedness of the caches -/
structure WF (s : State) : Prop where
  slot_lt : ∀ t mid, slot s t = some mid → mid < s.next
  slot_tgt : ∀ t mid, slot s t = some mid → (s.mks mid).tgt = t
  slot_ctx : ∀ t mid, slot s t = some mid → t ≠ .im → (s.mks mid).ctx = none
  if_ctx : ∀ c inner, s.b.ifC = some (c, inner) →
    ∀ mid, inner = some mid → ((s.mks mid).ctx = some c ∧ (s.ctxc c = true → (s.mks mid).canceled = true))
  /-- the two-method interface variable has not been addressed (histories that do are outside the theorems: known
      finding `iface-cancel-one-method`) -/
  no_i2 : s.b.i2C = none

/-- the relation at one target: what is installed and what the reference says are both determined by the live mocker -/
def Rt (s : State) (a : Lww) (t : Tgt) : Prop :=
  match live s t with
  | none => s.inst t = .orig ∧ a.beh t = .orig
  | some mid =>
    match (s.mks mid).when with
    | some w => s.inst t = .via mid ∧ a.beh t = .stub w ∧ (s.mks mid).guard = true
    | none => (s.inst t = .orig ∧ a.beh t = .orig) ∨ (∃ k, s.inst t = .cb k ∧ a.beh t = .cb k ∧ (s.mks mid).guard = true)

/-- the simulation relation -/
structure R (s : State) (a : Lww) : Prop where
  pkg : s.b.pkg = a.pkg
  tgt : ∀ t, Rt s a t
  /-- nothing is ever installed for a function that does not exist -/
  ph : ∀ t, isPhantom t = true → s.inst t = .orig ∧ a.beh t = .orig

theorem wf_init : WF init := by
  refine ⟨?_, ?_, ?_, ?_, rfl⟩ <;> intro t <;> (try cases t) <;> simp [init, slot]

theorem r_init : R init Lww.init := by
  constructor
  · rfl
  · intro t; cases t <;> simp [Rt, live, liveOf, slot, init, Lww.init]
  · intro t _; simp [init, Lww.init]

/-! ### lookups -/

theorem slot_setPkg (s : State) (p : Pkg) (t : Tgt) : slot (setPkg s p) t = slot s t := by
  cases t <;> rfl

theorem liveOf_some {s : State} {c : Option Nat} {mid : Nat} :
    liveOf s c = some mid ↔ c = some mid ∧ (s.mks mid).canceled = false := by
  unfold liveOf
  cases c with
  | none => simp
  | some m =>
    by_cases h : (s.mks m).canceled = true
    · simp [h]; intro e; subst e; simp [h]
    · simp [h]; intro e; subst e; simpa using h

theorem liveOf_none {s : State} {c : Option Nat} :
    liveOf s c = none ↔ ∀ mid, c = some mid → (s.mks mid).canceled = true := by
  unfold liveOf
  cases c with
  | none => simp
  | some m =>
    by_cases h : (s.mks m).canceled = true <;> simp [h]

theorem slot_im (s : State) : slot s .im = match s.b.ifC with | some (_, c) => c | none => none := rfl

/-- allocation of a fresh mocker into the slot of `t` keeps the state well-formed -/
theorem wf_alloc (s s' : State) (t : Tgt) (m0 : Mocker) (hw : WF s)
    (hm : s'.mks = upd s.mks s.next m0) (hn : s'.next = s.next + 1)
    (hs : ∀ t', slot s' t' = if t' = t then some s.next else slot s t')
    (ht : m0.tgt = t) (hc0 : t ≠ .im → m0.ctx = none)
    (hif : ∀ c inner, s'.b.ifC = some (c, inner) →
      ∀ mid, inner = some mid → ((s'.mks mid).ctx = some c ∧ (s'.ctxc c = true → (s'.mks mid).canceled = true)))
    (hno : s'.b.i2C = none) : WF s' := by
  have old : ∀ t' mid, t' ≠ t → slot s' t' = some mid → slot s t' = some mid ∧ s'.mks mid = s.mks mid := by
    intro t' mid hne h
    rw [hs, if_neg hne] at h
    refine ⟨h, ?_⟩
    have := hw.slot_lt t' mid h
    rw [hm]; exact upd_other _ _ _ _ (by omega)
  refine ⟨?_, ?_, ?_, hif, hno⟩
  · intro t' mid h
    by_cases e : t' = t
    · subst e; rw [hs, if_pos rfl] at h; cases h; omega
    · have := hw.slot_lt t' mid (old t' mid e h).1; omega
  · intro t' mid h
    by_cases e : t' = t
    · subst e; rw [hs, if_pos rfl] at h; cases h; rw [hm]; simp [ht]
    · rw [(old t' mid e h).2]; exact hw.slot_tgt t' mid (old t' mid e h).1
  · intro t' mid h hne
    by_cases e : t' = t
    · subst e; rw [hs, if_pos rfl] at h; cases h; rw [hm]; simp [hc0 hne]
    · rw [(old t' mid e h).2]; exact hw.slot_ctx t' mid (old t' mid e h).1 hne

/-- the interface clause of WF survives when the interface cache, the contexts and all old mockers are untouched -/
theorem if_ctx_keep (s s' : State) (hw : WF s) (hb : s'.b.ifC = s.b.ifC) (hc : s'.ctxc = s.ctxc)
    (hm : ∀ j, j < s.next → s'.mks j = s.mks j) :
    ∀ c inner, s'.b.ifC = some (c, inner) →
      ∀ mid, inner = some mid → ((s'.mks mid).ctx = some c ∧ (s'.ctxc c = true → (s'.mks mid).canceled = true)) := by
  intro c inner h mid hi
  rw [hb] at h
  have hsl : slot s .im = some mid := by rw [slot_im, h]; exact hi
  rw [hm mid (hw.slot_lt _ _ hsl), hc]
  exact hw.if_ctx c inner h mid hi

/-- what every lookup guarantees: either the live mocker of the target is returned and nothing changes, or there is no
    live mocker and a brand-new one (no When, not cancelled, no guard) is put into the target's cache slot -/
def LookupOk (s : State) (t : Tgt) (s' : State) (mid : Nat) : Prop :=
  WF s' ∧ s'.b.pkg = .p0 ∧ s'.inst = s.inst ∧ s'.regs = s.regs ∧ s.next ≤ s'.next ∧
  ((live s t = some mid ∧ s'.mks = s.mks ∧ ∀ t', slot s' t' = slot s t')
   ∨ (live s t = none ∧ mid = s.next ∧ (∀ j, j ≠ mid → s'.mks j = s.mks j) ∧ (s'.mks mid).when = none
        ∧ (s'.mks mid).canceled = false ∧ (s'.mks mid).guard = false
        ∧ ∀ t', slot s' t' = if t' = t then some mid else slot s t'))

theorem wf_setPkg {s : State} (hw : WF s) (p : Pkg) : WF (setPkg s p) :=
  ⟨fun t m h => hw.slot_lt t m (by simpa [slot_setPkg] using h), fun t m h => hw.slot_tgt t m (by simpa [slot_setPkg] using h),
   fun t m h => hw.slot_ctx t m (by simpa [slot_setPkg] using h), hw.if_ctx, hw.no_i2⟩

theorem lookup_fn (s : State) (i : Bool) (hw : WF s) :
    LookupOk s (.fn i) (lookup s (.fn i)).1 (lookup s (.fn i)).2 := by
  simp only [lookup]
  cases hl : liveOf s (s.b.fnC i) with
  | some mid =>
    exact ⟨wf_setPkg hw _, rfl, rfl, rfl, Nat.le_refl _, Or.inl ⟨by simpa [live, slot] using hl, rfl, fun t' => slot_setPkg s _ t'⟩⟩
  | none =>
    simp only [alloc, reset2CurPkg, setPkg]
    have hs : ∀ t', slot { s with mks := upd s.mks s.next ({ tgt := .fn i } : Mocker), next := s.next + 1, b := { s.b with fnC := upd s.b.fnC i (some s.next), pkg := .p0 } } t' = if t' = .fn i then some s.next else slot s t' := by
      intro t'; cases t' <;> simp [slot, upd]
    refine ⟨wf_alloc s _ (.fn i) { tgt := .fn i } hw rfl rfl hs rfl (fun _ => rfl) ?_ hw.no_i2, rfl, rfl, rfl, Nat.le_succ _, Or.inr ⟨by simpa [live, slot] using hl, rfl, ?_, by simp, by simp, by simp, hs⟩⟩
    · exact if_ctx_keep s _ hw rfl rfl (fun j hj => upd_other _ _ _ _ (by omega))
    · intro j hj; exact upd_other _ _ _ _ hj

theorem lookup_xf (s : State) (n : XName) (hw : WF s) :
    LookupOk s (.xf s.b.pkg n) (lookup s (.xf n)).1 (lookup s (.xf n)).2 := by
  simp only [lookup]
  cases hl : liveOf s (s.b.xfC s.b.pkg n) with
  | some mid =>
    exact ⟨wf_setPkg hw _, rfl, rfl, rfl, Nat.le_refl _, Or.inl ⟨by simpa [live, slot] using hl, rfl, fun t' => slot_setPkg s _ t'⟩⟩
  | none =>
    simp only [alloc, reset2CurPkg, setPkg]
    have hs : ∀ t', slot { s with mks := upd s.mks s.next ({ tgt := .xf s.b.pkg n } : Mocker), next := s.next + 1, b := { s.b with xfC := upd s.b.xfC s.b.pkg (upd (s.b.xfC s.b.pkg) n (some s.next)), pkg := .p0 } } t' = if t' = .xf s.b.pkg n then some s.next else slot s t' := by
      intro t'; cases t' <;> simp [slot, upd]
      case xf p m => by_cases h1 : p = s.b.pkg <;> by_cases h2 : m = n <;> simp [h1, h2, upd]
    refine ⟨wf_alloc s _ (.xf s.b.pkg n) { tgt := .xf s.b.pkg n } hw rfl rfl hs rfl (fun _ => rfl) ?_ hw.no_i2, rfl, rfl, rfl, Nat.le_succ _, Or.inr ⟨by simpa [live, slot] using hl, rfl, ?_, by simp, by simp, by simp, hs⟩⟩
    · exact if_ctx_keep s _ hw rfl rfl (fun j hj => upd_other _ _ _ _ (by omega))
    · intro j hj; exact upd_other _ _ _ _ hj


theorem slot_st (s : State) (j : Bool) : slot s (.st j) = stInner s j := by
  simp only [slot, stInner]; cases s.b.stC <;> rfl

theorem slot_structLookup (s : State) (t' : Tgt) : slot (structLookup s) t' = slot s t' := by
  cases t' <;> simp [slot, structLookup, reset2CurPkg, setPkg]
  case st j => simp only [stInner]; cases s.b.stC <;> rfl

theorem wf_structLookup {s : State} (hw : WF s) : WF (structLookup s) :=
  ⟨fun t m h => hw.slot_lt t m (by simpa [slot_structLookup] using h), fun t m h => hw.slot_tgt t m (by simpa [slot_structLookup] using h),
   fun t m h => hw.slot_ctx t m (by simpa [slot_structLookup] using h), hw.if_ctx, hw.no_i2⟩

theorem lookup_st (s : State) (i : Bool) (hw : WF s) :
    LookupOk s (.st i) (lookup s (.st i)).1 (lookup s (.st i)).2 := by
  simp only [lookup]
  cases hl : liveOf (structLookup s) (stInner s i) with
  | some mid =>
    refine ⟨wf_structLookup hw, rfl, rfl, rfl, Nat.le_refl _, Or.inl ⟨?_, rfl, slot_structLookup s⟩⟩
    simp only [live, slot_st]; exact hl
  | none =>
    simp only [alloc, structLookup, reset2CurPkg, setPkg]
    have hs : ∀ t', slot { s with mks := upd s.mks s.next ({ tgt := .st i } : Mocker), next := s.next + 1, b := { s.b with stC := some (upd (stInner s) i (some s.next)), pkg := .p0 } } t' = if t' = .st i then some s.next else slot s t' := by
      intro t'; cases t' <;> simp [slot, upd]
      case st j => by_cases h : j = i <;> simp [h, ← slot_st, slot]
    refine ⟨wf_alloc s _ (.st i) { tgt := .st i } hw rfl rfl hs rfl (fun _ => rfl) ?_ hw.no_i2, rfl, rfl, rfl, Nat.le_succ _, Or.inr ⟨?_, rfl, ?_, by simp, by simp, by simp, hs⟩⟩
    · exact if_ctx_keep s _ hw rfl rfl (fun j hj => upd_other _ _ _ _ (by omega))
    · simp only [live, slot_st]; exact hl
    · intro j hj; exact upd_other _ _ _ _ hj


/-- the three outcomes of `Builder.Interface`, described abstractly -/
theorem ifaceLookup_spec (s : State) (hw : WF s) :
    ∃ s0 c inner, ifaceLookup s = (s0, c, inner) ∧ s0.mks = s.mks ∧ s0.next = s.next ∧ s0.inst = s.inst ∧ s0.b.pkg = .p0 ∧
      s0.b.fnC = s.b.fnC ∧ s0.b.xfC = s.b.xfC ∧ s0.b.stC = s.b.stC ∧ s0.b.xsC = s.b.xsC ∧ s0.b.vrC = s.b.vrC ∧ s0.b.i2C = s.b.i2C ∧ s0.regs = s.regs ∧ s0.b.ifC = some (c, inner) ∧ s0.ctxc c = false ∧
      liveOf s inner = live s .im ∧
      (∀ mid, inner = some mid → slot s .im = some mid ∧ (s.mks mid).ctx = some c) ∧
      (∀ c', c' ≠ c → s0.ctxc c' = s.ctxc c') := by
  unfold ifaceLookup
  cases hi : s.b.ifC with
  | none =>
    refine ⟨_, _, _, rfl, rfl, rfl, rfl, rfl, rfl, rfl, rfl, rfl, rfl, rfl, rfl, rfl, by simp [reset2CurPkg, setPkg], ?_, by simp, ?_⟩
    · simp [live, slot, hi, liveOf]
    · intro c' h; simp [reset2CurPkg, setPkg, upd, h]
  | some ci =>
    obtain ⟨c, inner⟩ := ci
    by_cases hc : s.ctxc c = true
    · simp only [hc, if_true]
      refine ⟨_, _, _, rfl, rfl, rfl, rfl, rfl, rfl, rfl, rfl, rfl, rfl, rfl, rfl, rfl, by simp [reset2CurPkg, setPkg], ?_, by simp, ?_⟩
      · simp only [live, slot, hi]
        rw [show liveOf s none = none from rfl, eq_comm, liveOf_none]
        intro mid hm; exact ((hw.if_ctx c inner hi) mid hm).2 hc
      · intro c' h; simp [reset2CurPkg, setPkg, upd, h]
    · simp only [hc]
      refine ⟨_, _, _, rfl, rfl, rfl, rfl, rfl, rfl, rfl, rfl, rfl, rfl, rfl, rfl, hi, by simpa [reset2CurPkg, setPkg] using hc, ?_, ?_, fun _ _ => rfl⟩
      · simp [live, slot, hi]
      · intro mid hm; exact ⟨by simp [slot, hi, hm], ((hw.if_ctx c inner hi) mid hm).1⟩

theorem liveOf_congr {s s' : State} (h : s'.mks = s.mks) (c : Option Nat) : liveOf s' c = liveOf s c := by
  unfold liveOf; rw [h]

theorem lookup_im (s : State) (hw : WF s) : LookupOk s .im (lookup s .im).1 (lookup s .im).2 := by
  obtain ⟨s0, c, inner, he, hmk, hnx, hinst, hpkg, hfn, hxf, hst, hxs, hvr, hi2, hregs, hif, hcc, hlive, hinner, hoth⟩ := ifaceLookup_spec s hw
  simp only [lookup, he]
  have hs0 : ∀ t', t' ≠ .im → slot s0 t' = slot s t' := by
    intro t' hne; cases t' <;> simp_all [slot]
  have hs0i : slot s0 .im = inner := by simp [slot, hif]
  cases hl : liveOf s0 inner with
  | some mid =>
    rw [liveOf_congr hmk] at hl
    have hin : inner = some mid := (liveOf_some.mp hl).1
    have hsame : ∀ t', slot s0 t' = slot s t' := by
      intro t'; by_cases e : t' = .im
      · subst e; rw [hs0i, hin, (hinner mid hin).1]
      · exact hs0 t' e
    refine ⟨⟨?_, ?_, ?_, ?_, by rw [hi2]; exact hw.no_i2⟩, hpkg, hinst, hregs, (by rw [hnx]; exact Nat.le_refl _), Or.inl ⟨by rw [← hlive]; exact hl, hmk, hsame⟩⟩
    · intro t m h; rw [hnx]; exact hw.slot_lt t m (by rw [← hsame]; exact h)
    · intro t m h; rw [hmk]; exact hw.slot_tgt t m (by rw [← hsame]; exact h)
    · intro t m h; rw [hmk]; exact hw.slot_ctx t m (by rw [← hsame]; exact h)
    · intro c' inner' h m hm
      rw [hif] at h; cases h
      rw [hmk]; exact ⟨(hinner m hm).2, by simp [hcc]⟩
  | none =>
    rw [liveOf_congr hmk] at hl
    simp only [alloc]
    have hs : ∀ t', slot { s0 with mks := upd s0.mks s0.next ({ tgt := .im, ctx := some c } : Mocker), next := s0.next + 1, b := { s0.b with ifC := some (c, some s0.next) } } t' = if t' = .im then some s0.next else slot s t' := by
      intro t'; by_cases e : t' = .im
      · subst e; simp [slot]
      · rw [if_neg e, ← hs0 t' e]; cases t' <;> simp_all [slot]
    refine ⟨?_, hpkg, hinst, hregs, (by show s.next ≤ s0.next + 1; omega), Or.inr ⟨by rw [← hlive]; exact hl, hnx, ?_, by simp, by simp, by simp, hs⟩⟩
    · refine ⟨?_, ?_, ?_, ?_, (by show s0.b.i2C = none; rw [hi2]; exact hw.no_i2)⟩
      · intro t m h
        rw [hs] at h
        by_cases e : t = .im
        · subst e; simp at h; show m < s0.next + 1; omega
        · rw [if_neg e] at h; have := hw.slot_lt t m h; show m < s0.next + 1; omega
      · intro t m h
        rw [hs] at h
        by_cases e : t = .im
        · subst e; simp at h; subst h; simp [hnx]
        · rw [if_neg e] at h; have := hw.slot_lt t m h
          show (upd s0.mks s0.next _ m).tgt = t
          rw [upd_other _ _ _ _ (by omega), hmk]; exact hw.slot_tgt t m h
      · intro t m h e
        rw [hs, if_neg e] at h; have := hw.slot_lt t m h
        show (upd s0.mks s0.next _ m).ctx = none
        rw [upd_other _ _ _ _ (by omega), hmk]; exact hw.slot_ctx t m h e
      · intro c' inner' h m hm
        simp at h; obtain ⟨h1, h2⟩ := h; subst h1; subst h2
        simp at hm; subst hm
        simp [hcc]
    · intro j hj; show upd s0.mks s0.next _ j = s.mks j; rw [upd_other _ _ _ _ hj, hmk]

theorem slot_xs (s : State) (p : Pkg) : slot s (.xs p) = xsInner s p := by
  simp only [slot, xsInner]

theorem slot_exportStructLookup (s : State) (t' : Tgt) : slot (exportStructLookup s) t' = slot s t' := by
  cases t' <;> simp [slot, exportStructLookup, reset2CurPkg, setPkg]
  case xs q =>
    by_cases h : q = s.b.pkg
    · subst h; simp [upd, xsInner]
    · simp [upd, h]

theorem wf_exportStructLookup {s : State} (hw : WF s) : WF (exportStructLookup s) :=
  ⟨fun t m h => hw.slot_lt t m (by simpa [slot_exportStructLookup] using h), fun t m h => hw.slot_tgt t m (by simpa [slot_exportStructLookup] using h),
   fun t m h => hw.slot_ctx t m (by simpa [slot_exportStructLookup] using h), hw.if_ctx, hw.no_i2⟩

theorem lookup_xs (s : State) (hw : WF s) :
    LookupOk s (.xs s.b.pkg) (lookup s .xs).1 (lookup s .xs).2 := by
  simp only [lookup]
  cases hl : liveOf (exportStructLookup s) (xsInner s s.b.pkg) with
  | some mid =>
    refine ⟨wf_exportStructLookup hw, rfl, rfl, rfl, Nat.le_refl _, Or.inl ⟨?_, rfl, slot_exportStructLookup s⟩⟩
    simp only [live, slot_xs]; exact hl
  | none =>
    simp only [alloc, exportStructLookup, reset2CurPkg, setPkg]
    have hs : ∀ t', slot { s with mks := upd s.mks s.next ({ tgt := .xs s.b.pkg } : Mocker), next := s.next + 1, b := { s.b with xsC := upd (upd s.b.xsC s.b.pkg (some (xsInner s s.b.pkg))) s.b.pkg (some (some s.next)), pkg := .p0 } } t' = if t' = .xs s.b.pkg then some s.next else slot s t' := by
      intro t'; cases t' <;> simp [slot, upd]
      case xs q => by_cases h : q = s.b.pkg <;> simp [h]
    refine ⟨wf_alloc s _ (.xs s.b.pkg) { tgt := .xs s.b.pkg } hw rfl rfl hs rfl (fun _ => rfl) ?_ hw.no_i2, rfl, rfl, rfl, Nat.le_succ _, Or.inr ⟨?_, rfl, ?_, by simp, by simp, by simp, hs⟩⟩
    · exact if_ctx_keep s _ hw rfl rfl (fun j hj => upd_other _ _ _ _ (by omega))
    · simp only [live, slot_xs]; exact hl
    · intro j hj; exact upd_other _ _ _ _ hj

theorem lookup_vr (s : State) (i : Bool) (hw : WF s) :
    LookupOk s (.vr i) (lookup s (.vr i)).1 (lookup s (.vr i)).2 := by
  simp only [lookup]
  cases hl : liveOf s (s.b.vrC i) with
  | some mid =>
    exact ⟨wf_setPkg hw _, rfl, rfl, rfl, Nat.le_refl _, Or.inl ⟨by simpa [live, slot] using hl, rfl, fun t' => slot_setPkg s _ t'⟩⟩
  | none =>
    simp only [alloc, reset2CurPkg, setPkg]
    have hs : ∀ t', slot { s with mks := upd s.mks s.next ({ tgt := .vr i } : Mocker), next := s.next + 1, b := { s.b with vrC := upd s.b.vrC i (some s.next), pkg := .p0 } } t' = if t' = .vr i then some s.next else slot s t' := by
      intro t'; cases t' <;> simp [slot, upd]
    refine ⟨wf_alloc s _ (.vr i) { tgt := .vr i } hw rfl rfl hs rfl (fun _ => rfl) ?_ hw.no_i2, rfl, rfl, rfl, Nat.le_succ _, Or.inr ⟨by simpa [live, slot] using hl, rfl, ?_, by simp, by simp, by simp, hs⟩⟩
    · exact if_ctx_keep s _ hw rfl rfl (fun j hj => upd_other _ _ _ _ (by omega))
    · intro j hj; exact upd_other _ _ _ _ hj

/-- handles of the two-method interface variable (outside the theorems) -/
def isI2H : Handle → Bool
  | .i2 _ => true
  | _ => false

theorem lookup_ok (s : State) (hd : Handle) (hw : WF s) (hn : isI2H hd = false := by rfl) :
    LookupOk s (tgtOf s.b.pkg hd) (lookup s hd).1 (lookup s hd).2 := by
  cases hd with
  | i2 j => simp [isI2H] at hn
  | fn i => exact lookup_fn s i hw
  | st i => exact lookup_st s i hw
  | im => exact lookup_im s hw
  | xf n => exact lookup_xf s n hw
  | xs => exact lookup_xs s hw
  | vr i => exact lookup_vr s i hw

theorem slot_setM (s : State) (mid : Nat) (m : Mocker) (t : Tgt) : slot (setM s mid m) t = slot s t := by
  cases t <;> rfl
theorem slot_setInst (s : State) (t0 : Tgt) (i : Inst) (t : Tgt) : slot (setInst s t0 i) t = slot s t := by
  cases t <;> rfl

/-- replacing a mocker by one with the same target / context that is at least as cancelled keeps WF -/
theorem wf_setM {s : State} (hw : WF s) (mid : Nat) (m' : Mocker)
    (ht : m'.tgt = (s.mks mid).tgt) (hc : m'.ctx = (s.mks mid).ctx) (hcan : (s.mks mid).canceled = true → m'.canceled = true) :
    WF (setM s mid m') := by
  have key : ∀ j, ((setM s mid m').mks j).tgt = (s.mks j).tgt ∧ ((setM s mid m').mks j).ctx = (s.mks j).ctx ∧
      ((s.mks j).canceled = true → ((setM s mid m').mks j).canceled = true) := by
    intro j; by_cases e : j = mid
    · subst e; simp [setM, ht, hc]; exact hcan
    · simp [setM, upd_other _ _ _ _ e]
  refine ⟨fun t m h => hw.slot_lt t m h, fun t m h => ?_, fun t m h e => ?_, fun c inner h m hm => ?_, hw.no_i2⟩
  · rw [(key m).1]; exact hw.slot_tgt t m h
  · rw [(key m).2.1]; exact hw.slot_ctx t m h e
  · have := hw.if_ctx c inner h m hm
    exact ⟨by rw [(key m).2.1]; exact this.1, fun hc' => (key m).2.2 (this.2 hc')⟩

theorem wf_setInst {s : State} (hw : WF s) (t : Tgt) (i : Inst) : WF (setInst s t i) :=
  ⟨hw.slot_lt, hw.slot_tgt, hw.slot_ctx, hw.if_ctx, hw.no_i2⟩

/-- distinct targets have distinct cached mockers -/
theorem slot_inj {s : State} (hw : WF s) {t t' : Tgt} {mid : Nat} (h : slot s t = some mid) (h' : slot s t' = some mid) : t = t' := by
  rw [← hw.slot_tgt t mid h, hw.slot_tgt t' mid h']

theorem live_some {s : State} {t : Tgt} {mid : Nat} : live s t = some mid ↔ slot s t = some mid ∧ (s.mks mid).canceled = false :=
  liveOf_some

/-- `Rt` at a target whose live mocker, installed code and reference behaviour are untouched -/
theorem rt_congr {s s' : State} {a a' : Lww} {t : Tgt}
    (hl : live s' t = live s t) (hm : ∀ mid, live s t = some mid → s'.mks mid = s.mks mid)
    (hi : s'.inst t = s.inst t) (hb : a'.beh t = a.beh t) (h : Rt s a t) : Rt s' a' t := by
  unfold Rt at h ⊢
  rw [hl, hi, hb]
  cases hlv : live s t with
  | none => simpa [hlv] using h
  | some mid => simp only [hlv] at h ⊢; rw [hm mid hlv]; exact h

/-- after a lookup the relation still holds (the reference only forgets the package override) and the returned mocker is
    the live mocker of the target -/
theorem lookup_R {s s1 : State} {a : Lww} {t : Tgt} {mid : Nat} (hw : WF s) (hr : R s a) (hl : LookupOk s t s1 mid) :
    R s1 { a with pkg := .p0 } ∧ live s1 t = some mid := by
  obtain ⟨hw1, hpkg, hinst, _, _, hcase⟩ := hl
  rcases hcase with ⟨hlive, hmk, hslot⟩ | ⟨hlive, hmid, hmk, hwhen, hcan, hguard, hslot⟩
  · have hl' : ∀ t', live s1 t' = live s t' := by intro t'; simp only [live, hslot]; exact liveOf_congr hmk _
    refine ⟨⟨hpkg, fun t' => rt_congr (hl' t') (fun m _ => by rw [hmk]) (by rw [hinst]) rfl (hr.tgt t'), fun t' h => by rw [hinst]; exact hr.ph t' h⟩, by rw [hl']; exact hlive⟩
  · have hlt : live s1 t = some mid := by
      rw [live_some]; exact ⟨by rw [hslot, if_pos rfl], hcan⟩
    refine ⟨⟨hpkg, fun t' => ?_, fun t' h => by rw [hinst]; exact hr.ph t' h⟩, hlt⟩
    by_cases e : t' = t
    · subst e
      have := hr.tgt t'
      unfold Rt at this ⊢
      rw [hlive] at this
      simp only [hlt, hwhen, hinst]
      exact Or.inl this
    · have hl' : live s1 t' = live s t' := by
        simp only [live, hslot, if_neg e]
        unfold liveOf
        cases hs : slot s t' with
        | none => rfl
        | some m => simp only []; rw [hmk m (by have := hw.slot_lt t' m hs; omega)]
      refine rt_congr hl' (fun m hm => hmk m ?_) (by rw [hinst]) rfl (hr.tgt t')
      have := hw.slot_lt t' m (live_some.mp hm).1; omega

/-- a change confined to the mocker cached for `t` and to what is installed at `t` leaves every other target related -/
theorem rt_other {s s2 : State} {a a2 : Lww} {t t' : Tgt} {mid : Nat} (hw : WF s) (hs : slot s t = some mid)
    (hslot : ∀ x, slot s2 x = slot s x) (hmks : ∀ j, j ≠ mid → s2.mks j = s.mks j)
    (hinst : s2.inst t' = s.inst t') (hb : a2.beh t' = a.beh t') (hne : t' ≠ t) (h : Rt s a t') : Rt s2 a2 t' := by
  have hmid : ∀ m, slot s t' = some m → m ≠ mid := by
    intro m hm e; subst e; exact hne (slot_inj hw hm hs)
  have hl' : live s2 t' = live s t' := by
    simp only [live, hslot]; unfold liveOf
    cases hs' : slot s t' with
    | none => rfl
    | some m => simp only []; rw [hmks m (hmid m hs')]
  exact rt_congr hl' (fun m hm => hmks m (hmid m (live_some.mp hm).1)) hinst hb h

theorem inst_setInst_setM (s : State) (mid : Nat) (m : Mocker) (t : Tgt) (i : Inst) (t' : Tgt) :
    (setInst (setM s mid m) t i).inst t' = if t' = t then i else s.inst t' := by
  simp [setInst, setM, upd]

theorem mks_setInst_setM (s : State) (mid : Nat) (m : Mocker) (t : Tgt) (i : Inst) (j : Nat) :
    (setInst (setM s mid m) t i).mks j = if j = mid then m else s.mks j := by
  simp [setInst, setM, upd]

theorem applyCb_real {s : State} {mid : Nat} (k : Nat) (h : isPhantom (s.mks mid).tgt = false) :
    applyCb fixed s mid k = (setInst (setM s mid { s.mks mid with guard := true, canceled := false, when := none }) (s.mks mid).tgt (.cb k), none) := by
  simp [applyCb, h, fixed]

/-- `Apply` through the live mocker of a real target -/
theorem apply_sim {s : State} {a : Lww} {t : Tgt} {mid k : Nat} (hw : WF s) (hr : R s a) (hl : live s t = some mid)
    (hp : isPhantom t = false) :
    WF (applyCb fixed s mid k).1 ∧ R (applyCb fixed s mid k).1 { a with beh := upd a.beh t (.cb k) } := by
  obtain ⟨hs, hcan⟩ := live_some.mp hl
  have htg := hw.slot_tgt t mid hs
  rw [applyCb_real k (by rw [htg]; exact hp), htg]
  refine ⟨wf_setInst (wf_setM hw mid _ ?_ ?_ ?_) _ _, hr.pkg, fun t' => ?_, fun t' h => ?_⟩
  · rfl
  · rfl
  · intro h; rw [hcan] at h; cases h
  · by_cases e : t' = t
    · subst e
      unfold Rt
      have : live (setInst (setM s mid { s.mks mid with guard := true, canceled := false, when := none }) t' (.cb k)) t' = some mid := by
        rw [live_some]; exact ⟨hs, by simp [mks_setInst_setM, hcan]⟩
      simp only [this, mks_setInst_setM, inst_setInst_setM, if_true]
      simp
    · refine rt_other hw hs (fun x => rfl) (fun j hj => by simp [mks_setInst_setM, hj]) (by simp [inst_setInst_setM, e]) (by simp [upd, e]) e (hr.tgt t')
  · have e : t' ≠ t := by intro e; subst e; simp [hp] at h
    simp only [inst_setInst_setM, if_neg e, upd_other _ _ _ _ e]; exact hr.ph t' h

theorem stubI_real {s : State} {mid : Nat} (st : Stub) (h : isPhantom (s.mks mid).tgt = false) (hv : isVar (s.mks mid).tgt = false) :
    stubI s mid st = match (s.mks mid).when with
      | some w => (setM s mid { s.mks mid with when := some (w.step st) }, none)
      | none => (setInst (setM s mid { s.mks mid with when := some (When.fresh st), guard := true, canceled := false }) (s.mks mid).tgt (.via mid), none) := by
  simp only [stubI, h, hv, Bool.false_eq_true, if_false]
  cases (s.mks mid).when <;> rfl

/-- a stub instruction through the live mocker of a real target -/
theorem stub_sim {s : State} {a : Lww} {t : Tgt} {mid : Nat} (st : Stub) (hw : WF s) (hr : R s a) (hl : live s t = some mid)
    (hp : isPhantom t = false) (hv : isVar t = false) :
    WF (stubI s mid st).1 ∧ R (stubI s mid st).1 { a with beh := upd a.beh t (Lww.instr (a.beh t) (.stub st)) } := by
  obtain ⟨hs, hcan⟩ := live_some.mp hl
  have htg := hw.slot_tgt t mid hs
  have hrt := hr.tgt t
  unfold Rt at hrt
  rw [hl] at hrt
  rw [stubI_real st (by rw [htg]; exact hp) (by rw [htg]; exact hv), htg]
  have hph : ∀ (s2 : State), (∀ t', t' ≠ t → s2.inst t' = s.inst t') → ∀ t', isPhantom t' = true →
      s2.inst t' = .orig ∧ upd a.beh t (Lww.instr (a.beh t) (.stub st)) t' = .orig := by
    intro s2 h2 t' h
    have e : t' ≠ t := by intro e; subst e; simp [hp] at h
    rw [h2 t' e, upd_other _ _ _ _ e]; exact hr.ph t' h
  cases hwn : (s.mks mid).when with
  | some w =>
    simp only [hwn] at hrt ⊢
    obtain ⟨hi, hb, hg⟩ := hrt
    refine ⟨wf_setM hw mid _ ?_ ?_ ?_, hr.pkg, fun t' => ?_, hph _ (fun _ _ => rfl)⟩
    · rfl
    · rfl
    · exact fun h => h
    · by_cases e : t' = t
      · subst e
        unfold Rt
        have : live (setM s mid { s.mks mid with when := some (w.step st) }) t' = some mid := by
          rw [live_some]; exact ⟨hs, by simp [setM, hcan]⟩
        simp only [this]
        simp [setM, hb, Lww.instr, hg]
        exact hi
      · exact rt_other hw hs (fun x => rfl) (fun j hj => by simp [setM, upd_other _ _ _ _ hj]) rfl (by simp [upd, e]) e (hr.tgt t')
  | none =>
    simp only [hwn] at hrt ⊢
    refine ⟨wf_setInst (wf_setM hw mid _ ?_ ?_ ?_) _ _, hr.pkg, fun t' => ?_, hph _ (fun t' e => by simp [inst_setInst_setM, e])⟩
    · rfl
    · rfl
    · intro h; rw [hcan] at h; cases h
    · by_cases e : t' = t
      · subst e
        unfold Rt
        have : live (setInst (setM s mid { s.mks mid with when := some (When.fresh st), guard := true, canceled := false }) t' (.via mid)) t' = some mid := by
          rw [live_some]; exact ⟨hs, by simp [mks_setInst_setM, hcan]⟩
        simp only [this]
        rcases hrt with ⟨_, hb⟩ | ⟨k, _, hb, _⟩ <;> simp [mks_setInst_setM, inst_setInst_setM, hb, Lww.instr]
      · exact rt_other hw hs (fun x => rfl) (fun j hj => by simp [mks_setInst_setM, hj]) (by simp [inst_setInst_setM, e]) (by simp [upd, e]) e (hr.tgt t')

/-- where a mocker's guard un-installs: the interface variable for interface mockers, else the mocker's target -/
def effTgt (m : Mocker) : Tgt := match m.ctx with | some _ => .im | none => m.tgt

/-- what `Cancel` does to the objects, whatever kind of mocker it is -/
theorem cancelM_mks (s : State) (mid : Nat) :
    (cancelM s mid).b = s.b ∧ (cancelM s mid).next = s.next ∧ (cancelM s mid).regs = s.regs ∧
    (∀ j, j ≠ mid → (cancelM s mid).mks j = s.mks j) ∧
    (cancelM s mid).mks mid = { s.mks mid with when := none, canceled := true } := by
  unfold cancelM
  refine ⟨?_, ?_, ?_, fun j hj => ?_, ?_⟩ <;> simp only [setM, setInst] <;> (repeat' split) <;> simp [upd, *]

/-- everything `Cancel` does, field by field (mockers other than those of the two-method interface variable) -/
theorem cancelM_spec (s : State) (mid : Nat) (hn : isI2 (s.mks mid).tgt = false) :
    (cancelM s mid).b = s.b ∧ (cancelM s mid).next = s.next ∧
    (∀ j, j ≠ mid → (cancelM s mid).mks j = s.mks j) ∧
    (cancelM s mid).mks mid = { s.mks mid with when := none, canceled := true } ∧
    (∀ t', (cancelM s mid).inst t' = if (s.mks mid).guard = true ∧ t' = effTgt (s.mks mid) then .orig else s.inst t') ∧
    (∀ c, (cancelM s mid).ctxc c = (s.ctxc c || ((s.mks mid).guard && decide ((s.mks mid).ctx = some c)))) := by
  obtain ⟨h1, h2, _, h3, h4⟩ := cancelM_mks s mid
  refine ⟨h1, h2, h3, h4, ?_⟩
  unfold cancelM effTgt
  cases hg : (s.mks mid).guard <;> cases hc : (s.mks mid).ctx <;>
    simp [setM, setInst, upd, hg, hc, hn] <;> (try (intro c; by_cases e : c = _ <;> simp [e]))
  intro c
  rename_i v
  by_cases e : c = v
  · subst e; simp
  · have e' : ¬ v = c := fun h => e h.symm
    simp [e, e']

/-- under WF no cached mocker belongs to the two-method interface variable -/
theorem slot_i2_none {s : State} (hw : WF s) (j : Bool) : slot s (.i2 j) = none := by
  simp [slot, hw.no_i2]

theorem cached_not_i2 {s : State} (hw : WF s) {t : Tgt} {mid : Nat} (hs : slot s t = some mid) : isI2 (s.mks mid).tgt = false := by
  rw [hw.slot_tgt t mid hs]
  cases t <;> simp [isI2]
  rename_i j; rw [slot_i2_none hw j] at hs; cases hs

theorem slot_of_b {s s2 : State} (h : s2.b = s.b) (x : Tgt) : slot s2 x = slot s x := by
  cases x <;> simp [slot, h]

/-- the guard of a cached mocker un-installs exactly at the target it is cached for -/
theorem effTgt_slot {s : State} (hw : WF s) {t : Tgt} {mid : Nat} (hs : slot s t = some mid) : effTgt (s.mks mid) = t := by
  unfold effTgt
  cases hc : (s.mks mid).ctx with
  | none => exact hw.slot_tgt t mid hs
  | some c =>
    by_cases e : t = .im
    · exact e.symm
    · rw [hw.slot_ctx t mid hs e] at hc; cases hc

theorem wf_cancel {s : State} (hw : WF s) {t : Tgt} {mid : Nat} (hs : slot s t = some mid) : WF (cancelM s mid) := by
  obtain ⟨hb, hn, hoth, hmid, _, hcc⟩ := cancelM_spec s mid (cached_not_i2 hw hs)
  have key : ∀ j, ((cancelM s mid).mks j).tgt = (s.mks j).tgt ∧ ((cancelM s mid).mks j).ctx = (s.mks j).ctx ∧
      ((s.mks j).canceled = true → ((cancelM s mid).mks j).canceled = true) ∧ (j = mid → ((cancelM s mid).mks j).canceled = true) := by
    intro j; by_cases e : j = mid
    · subst e; rw [hmid]; simp
    · rw [hoth j e]; simp [e]
  refine ⟨fun x m h => ?_, fun x m h => ?_, fun x m h e => ?_, fun c inner h m hm => ?_, by rw [hb]; exact hw.no_i2⟩
  · rw [hn]; exact hw.slot_lt x m (by rw [← slot_of_b hb]; exact h)
  · rw [(key m).1]; exact hw.slot_tgt x m (by rw [← slot_of_b hb]; exact h)
  · rw [(key m).2.1]; exact hw.slot_ctx x m (by rw [← slot_of_b hb]; exact h) e
  · rw [hb] at h
    have old := hw.if_ctx c inner h m hm
    refine ⟨by rw [(key m).2.1]; exact old.1, fun hc' => ?_⟩
    rw [hcc c] at hc'
    cases hold : s.ctxc c with
    | true => exact (key m).2.2.1 (old.2 hold)
    | false =>
      simp [hold] at hc'
      obtain ⟨_, hctx⟩ := hc'
      -- the cancelled mocker has an interface context, so it is the one cached for the interface method
      have ht : t = .im := by
        by_cases e : t = .im
        · exact e
        · rw [hw.slot_ctx t mid hs e] at hctx; cases hctx
      subst ht
      have : slot s .im = inner := by rw [slot_im, h]
      rw [this, hm] at hs
      exact (key m).2.2.2 (Option.some.inj hs)

/-- `Cancel` through the live mocker -/
theorem cancel_sim {s : State} {a : Lww} {t : Tgt} {mid : Nat} (hw : WF s) (hr : R s a) (hl : live s t = some mid) :
    WF (cancelM s mid) ∧ R (cancelM s mid) { a with beh := upd a.beh t .orig } := by
  obtain ⟨hs, hcan⟩ := live_some.mp hl
  obtain ⟨hb, hn, hoth, hmid, hinst, hcc⟩ := cancelM_spec s mid (cached_not_i2 hw hs)
  have heff := effTgt_slot hw hs
  refine ⟨wf_cancel hw hs, by rw [hb]; exact hr.pkg, fun t' => ?_, fun t' h => ?_⟩
  · by_cases e : t' = t
    · subst e
      have hln : live (cancelM s mid) t' = none := by
        simp only [live, slot_of_b hb, hs, liveOf, hmid]; simp
      unfold Rt
      simp only [hln, hinst, heff, upd_same, and_true]
      by_cases hg : (s.mks mid).guard = true
      · simp [hg]
      · have hrt := hr.tgt t'
        unfold Rt at hrt
        rw [hl] at hrt
        simp only [hg, false_and, if_false]
        cases hwn : (s.mks mid).when with
        | some w => simp only [hwn] at hrt; exact absurd hrt.2.2 hg
        | none =>
          simp only [hwn] at hrt
          rcases hrt with ⟨h, _⟩ | ⟨k, _, _, h⟩
          · exact h
          · exact absurd h hg
    · refine rt_other hw hs (fun x => slot_of_b hb x) hoth ?_ (by simp [upd, e]) e (hr.tgt t')
      rw [hinst, heff]; simp [e]
  · have := hr.ph t' h
    refine ⟨?_, ?_⟩
    · rw [hinst]; split
      · rfl
      · exact this.1
    · by_cases e : t' = t
      · subst e; simp
      · show upd a.beh t Beh.orig t' = Beh.orig
        rw [upd_other _ _ _ _ e]; exact this.2

theorem r_congr {s : State} {a a' : Lww} (hb : ∀ t, a'.beh t = a.beh t) (hp : a'.pkg = a.pkg) (h : R s a) : R s a' :=
  ⟨by rw [hp]; exact h.pkg, fun t => rt_congr rfl (fun _ _ => rfl) rfl (hb t) (h.tgt t), fun t ht => by rw [hb t]; exact h.ph t ht⟩

/-- an instruction through the live mocker `mid` of target `t`: the implementation model and the reference move together -/
theorem instr_sim {s : State} {a : Lww} {t : Tgt} {mid : Nat} (hw : WF s) (hr : R s a) (hl : live s t = some mid) (ins : Instr) :
    WF (instr fixed s mid ins).1 ∧ R (instr fixed s mid ins).1 (Lww.onTgt a t ins) := by
  have hmt : (s.mks mid).tgt = t := hw.slot_tgt t mid (live_some.mp hl).1
  unfold Lww.onTgt
  cases ins with
  | look =>
    simp only [Lww.rejected, Bool.false_eq_true, if_false]
    refine ⟨hw, r_congr (fun x => ?_) ?_ hr⟩
    rotate_left
    · rfl
    by_cases e : x = t
    · subst e; simp [Lww.instr]
    · simp [upd, e]
  | cancel =>
    simp only [Lww.rejected, Bool.false_eq_true, if_false]
    exact cancel_sim hw hr hl
  | apply k =>
    cases hp : isPhantom t with
    | true => simp only [Lww.rejected, hp, if_true, instr, applyCb, hmt]; exact ⟨hw, hr⟩
    | false => simp only [Lww.rejected, hp, Bool.false_eq_true, if_false]; exact apply_sim hw hr hl hp
  | stub st =>
    cases hp : isPhantom t with
    | true => simp only [Lww.rejected, hp, Bool.true_or, if_true, instr, stubI, hmt]; exact ⟨hw, hr⟩
    | false =>
      cases hv : isVar t with
      | true => simp only [Lww.rejected, hp, hv, Bool.or_true, if_true, instr, stubI, hmt, Bool.false_eq_true, if_false]; exact ⟨hw, hr⟩
      | false => simp only [Lww.rejected, hp, hv, Bool.or_false, Bool.false_eq_true, if_false]; exact stub_sim st hw hr hl hp hv

theorem step_h_fst (v : Variant) (s : State) (hd : Handle) (ins : Instr) :
    (step v s (.h hd ins)).1 = (instr v (lookup s hd).1 (lookup s hd).2 ins).1 := by
  simp only [step]; split <;> simp_all

/-- a lookup followed by an instruction -/
theorem h_sim {s : State} {a : Lww} (hw : WF s) (hr : R s a) (hd : Handle) (ins : Instr) (hn : isI2H hd = false) :
    WF (step fixed s (.h hd ins)).1 ∧ R (step fixed s (.h hd ins)).1 (a.step (.h hd ins)) := by
  rw [step_h_fst]
  have lk := lookup_ok s hd hw hn
  obtain ⟨hr1, hl1⟩ := lookup_R hw hr lk
  have htgt : tgtOf a.pkg hd = tgtOf s.b.pkg hd := by rw [hr.pkg]
  simp only [Lww.step, htgt]
  exact instr_sim lk.1 hr1 hl1 ins

theorem mem_cachedMids {s : State} {t : Tgt} {mid : Nat} (h : slot s t = some mid) : mid ∈ cachedMids s := by
  simp only [cachedMids, List.mem_filterMap, id]
  refine ⟨some mid, ?_, rfl⟩
  cases t with
  | fn i => cases i <;> simp_all [slot]
  | st i => cases i <;> simp_all
  | im => simp_all
  | xf p n => cases p <;> cases n <;> simp_all [slot, allPkgs, allNames]
  | xs p => cases p <;> simp_all
  | vr i => cases i <;> simp_all [slot]
  | i2 j => cases j <;> simp_all

theorem cachedMids_cached {s : State} {mid : Nat} (h : mid ∈ cachedMids s) : ∃ t, slot s t = some mid := by
  simp only [cachedMids, List.mem_filterMap, id] at h
  obtain ⟨o, ho, rfl⟩ := h
  simp only [List.mem_append, List.mem_cons, List.mem_flatMap, List.mem_map, allPkgs, allNames, List.not_mem_nil, or_false] at ho
  rcases ho with ((h | h) | ⟨p, _, n, _, h⟩) | (h | h | h | h | h | h | h | h | h | h)
  · exact ⟨.fn false, h.symm ▸ rfl⟩
  · exact ⟨.fn true, h.symm ▸ rfl⟩
  · exact ⟨.xf p n, h.symm ▸ rfl⟩
  · exact ⟨.st false, h.symm ▸ rfl⟩
  · exact ⟨.st true, h.symm ▸ rfl⟩
  · exact ⟨.im, h.symm ▸ rfl⟩
  · exact ⟨.xs .p0, h.symm ▸ rfl⟩
  · exact ⟨.xs .p1, h.symm ▸ rfl⟩
  · exact ⟨.xs .pq, h.symm ▸ rfl⟩
  · exact ⟨.vr false, h.symm ▸ rfl⟩
  · exact ⟨.vr true, h.symm ▸ rfl⟩
  · exact ⟨.i2 false, h.symm ▸ rfl⟩
  · exact ⟨.i2 true, h.symm ▸ rfl⟩

/-- cancelling a list of cached mockers one after the other -/
theorem fold_cancel (l : List Nat) : ∀ (s : State), WF s → (∀ m ∈ l, ∃ t, slot s t = some m) →
    let sf := l.foldl cancelM s
    WF sf ∧ sf.b = s.b ∧
    (∀ j, (s.mks j).canceled = true → (sf.mks j).canceled = true) ∧ (∀ j ∈ l, (sf.mks j).canceled = true) ∧
    (∀ j, (sf.mks j).guard = (s.mks j).guard ∧ effTgt (sf.mks j) = effTgt (s.mks j)) ∧
    (∀ t', (s.inst t' = .orig ∨ ∃ m ∈ l, (s.mks m).guard = true ∧ effTgt (s.mks m) = t') → sf.inst t' = .orig) := by
  induction l with
  | nil =>
    intro s hw _
    refine ⟨hw, rfl, fun _ h => h, fun _ h => (by cases h), fun _ => ⟨rfl, rfl⟩, fun t' h => ?_⟩
    rcases h with h | ⟨m, hm, _⟩
    · exact h
    · cases hm
  | cons mid rest ih =>
    intro s hw hc
    obtain ⟨t, ht⟩ := hc mid (List.mem_cons_self ..)
    obtain ⟨hb, hn, hoth, hmid, hinst, hcc⟩ := cancelM_spec s mid (cached_not_i2 hw ht)
    have hw1 := wf_cancel hw ht
    have key : ∀ j, ((cancelM s mid).mks j).guard = (s.mks j).guard ∧ effTgt ((cancelM s mid).mks j) = effTgt (s.mks j) ∧
        ((s.mks j).canceled = true → ((cancelM s mid).mks j).canceled = true) := by
      intro j; by_cases e : j = mid
      · subst e; rw [hmid]; simp [effTgt]
      · rw [hoth j e]; simp
    obtain ⟨h1, h2, h3, h4, h5, h6⟩ := ih (cancelM s mid) hw1 (fun m hm => by
      obtain ⟨t', ht'⟩ := hc m (List.mem_cons_of_mem _ hm); exact ⟨t', by rw [slot_of_b hb]; exact ht'⟩)
    simp only [List.foldl_cons]
    refine ⟨h1, by rw [h2, hb], fun j hj => h3 j ((key j).2.2 hj), fun j hj => ?_, fun j => ?_, fun t' h => ?_⟩
    · rcases List.mem_cons.mp hj with e | hj
      · subst e; exact h3 _ (by rw [hmid])
      · exact h4 j hj
    · exact ⟨by rw [(h5 j).1, (key j).1], by rw [(h5 j).2, (key j).2.1]⟩
    · apply h6
      rcases h with h | ⟨m, hm, hg, he⟩
      · left; rw [hinst]; split
        · rfl
        · exact h
      · rcases List.mem_cons.mp hm with e | hm
        · subst e; left; rw [hinst, if_pos ⟨hg, he.symm⟩]
        · right; exact ⟨m, hm, by rw [(key m).1]; exact hg, by rw [(key m).2.1]; exact he⟩

/-- a change of the builder that leaves the function / struct / interface caches alone -/
theorem wf_of_caches {s s2 : State} (hw : WF s) (hm : s2.mks = s.mks) (hn : s2.next = s.next) (hc : s2.ctxc = s.ctxc)
    (h1 : s2.b.fnC = s.b.fnC) (h2 : s2.b.xfC = s.b.xfC) (h3 : s2.b.stC = s.b.stC) (h4 : s2.b.ifC = s.b.ifC)
    (h5 : s2.b.xsC = s.b.xsC) (h6 : s2.b.vrC = s.b.vrC) (h7 : s2.b.i2C = s.b.i2C) : WF s2 := by
  have hs : ∀ x, slot s2 x = slot s x := by intro x; cases x <;> simp [slot, h1, h2, h3, h4, h5, h6, h7]
  exact ⟨fun t m h => by rw [hn]; exact hw.slot_lt t m (by rw [← hs]; exact h),
    fun t m h => by rw [hm]; exact hw.slot_tgt t m (by rw [← hs]; exact h),
    fun t m h e => by rw [hm]; exact hw.slot_ctx t m (by rw [← hs]; exact h) e,
    fun c inner h m hmm => by rw [hm, hc]; exact hw.if_ctx c inner (by rw [← h4]; exact h) m hmm, by rw [h7]; exact hw.no_i2⟩

theorem r_of_caches {s s2 : State} {a a2 : Lww} (hr : R s a) (hm : s2.mks = s.mks) (hi : s2.inst = s.inst)
    (h1 : s2.b.fnC = s.b.fnC) (h2 : s2.b.xfC = s.b.xfC) (h3 : s2.b.stC = s.b.stC) (h4 : s2.b.ifC = s.b.ifC)
    (h5 : s2.b.xsC = s.b.xsC) (h6 : s2.b.vrC = s.b.vrC) (h7 : s2.b.i2C = s.b.i2C) (hp : s2.b.pkg = a2.pkg) (hb : a2.beh = a.beh) : R s2 a2 := by
  have hs : ∀ x, slot s2 x = slot s x := by intro x; cases x <;> simp [slot, h1, h2, h3, h4, h5, h6, h7]
  have hl : ∀ x, live s2 x = live s x := by intro x; simp only [live, hs]; exact liveOf_congr hm _
  exact ⟨hp, fun t => rt_congr (hl t) (fun _ _ => by rw [hm]) (by rw [hi]) (by rw [hb]) (hr.tgt t),
    fun t h => by rw [hi, hb]; exact hr.ph t h⟩

theorem reset_sim {s : State} {a : Lww} (hw : WF s) (hr : R s a) :
    WF (resetB s) ∧ R (resetB s) { a with beh := fun _ => .orig } := by
  obtain ⟨h1, h2, h3, h4, h5, h6⟩ := fold_cancel (cachedMids s) s hw (fun m hm => cachedMids_cached hm)
  generalize hsf : (cachedMids s).foldl cancelM s = sf at *
  have hrs : resetB s = sf := by unfold resetB; exact hsf
  have hwf : WF (resetB s) := by rw [hrs]; exact h1
  refine ⟨hwf, ?_⟩
  have hslot : ∀ x, slot (resetB s) x = slot s x := by
    intro x; rw [hrs]; exact slot_of_b h2 x
  have hmks : (resetB s).mks = sf.mks := by rw [hrs]
  have hinst : (resetB s).inst = sf.inst := by rw [hrs]
  have hlive : ∀ x, live (resetB s) x = none := by
    intro x; simp only [live, hslot]; rw [liveOf_none]
    intro m hm; rw [hmks]; exact h4 m (mem_cachedMids hm)
  have horig : ∀ x, (resetB s).inst x = .orig := by
    intro x; rw [hinst]; apply h6
    have hrt := hr.tgt x
    unfold Rt at hrt
    cases hl : live s x with
    | none => rw [hl] at hrt; exact Or.inl hrt.1
    | some mid =>
      rw [hl] at hrt
      obtain ⟨hs, _⟩ := live_some.mp hl
      have hmem := mem_cachedMids hs
      have heff := effTgt_slot hw hs
      cases hwn : (s.mks mid).when with
      | some w => simp only [hwn] at hrt; exact Or.inr ⟨mid, hmem, hrt.2.2, heff⟩
      | none =>
        simp only [hwn] at hrt
        rcases hrt with ⟨h, _⟩ | ⟨k, _, _, hg⟩
        · exact Or.inl h
        · exact Or.inr ⟨mid, hmem, hg, heff⟩
  refine ⟨?_, fun x => ?_, fun x _ => ⟨horig x, rfl⟩⟩
  · rw [hrs, h2]; exact hr.pkg
  · unfold Rt; rw [hlive]; exact ⟨horig x, rfl⟩

/-- the ops that look up their own handle (everything except an instruction through a kept handle) -/
def isOn : Op → Bool
  | .on _ _ => true
  | _ => false

/-- the ops that address the two-method interface variable -/
def opI2 : Op → Bool
  | .h hd _ => isI2H hd
  | .keep _ hd => isI2H hd
  | _ => false

/-- every step that does not go through a kept handle preserves well-formedness and the relation -/
theorem step_sim {s : State} {a : Lww} (hw : WF s) (hr : R s a) (op : Op) (hop : isOn op = false) (hi2 : opI2 op = false := by rfl) :
    WF (step fixed s op).1 ∧ R (step fixed s op).1 (a.step op) := by
  cases op with
  | pkg p => exact ⟨wf_setPkg hw p, r_of_caches (a2 := { a with pkg := p }) hr rfl rfl rfl rfl rfl rfl rfl rfl rfl rfl rfl⟩
  | reset => exact reset_sim hw hr
  | xfEmpty => exact ⟨hw, hr⟩
  | stBad =>
    refine ⟨wf_structLookup hw, ?_⟩
    have hs : ∀ x, slot (structLookup s) x = slot s x := slot_structLookup s
    have hl : ∀ x, live (structLookup s) x = live s x := by intro x; simp only [live, hs]; rfl
    exact ⟨rfl, fun t => rt_congr (hl t) (fun _ _ => rfl) rfl rfl (hr.tgt t), fun t h => hr.ph t h⟩
  | qlook =>
    have lk := lookup_ok s (.fn false) hw
    obtain ⟨hr1, _⟩ := lookup_R hw hr lk
    exact ⟨wf_setPkg lk.1 .pq, r_of_caches (a2 := { a with pkg := .pq }) hr1 rfl rfl rfl rfl rfl rfl rfl rfl rfl rfl rfl⟩
  | h hd ins => exact h_sim hw hr hd ins hi2
  | keep r hd =>
    have lk := lookup_ok s hd hw hi2
    obtain ⟨hr1, _⟩ := lookup_R hw hr lk
    simp only [step, Lww.step]
    exact ⟨wf_of_caches lk.1 rfl rfl rfl rfl rfl rfl rfl rfl rfl rfl, r_of_caches hr1 rfl rfl rfl rfl rfl rfl rfl rfl rfl lk.2.1 rfl⟩
  | on r ins => simp [isOn] at hop

theorem call_orig {s : State} {t : Tgt} (x : Nat) (h : s.inst t = .orig) (h2 : ∀ j, s.inst (.i2 j) = .orig) : call s t x = (s, .o) := by
  cases t <;> simp [call, h, h2]
theorem call_cb {s : State} {t : Tgt} {k : Nat} (x : Nat) (h : s.inst t = .cb k) : call s t x = (s, .k k) := by simp [call, h]
theorem call_via {s : State} {t : Tgt} {mid : Nat} {w : When} (x : Nat) (h : s.inst t = .via mid) (hc : (s.mks mid).canceled = false)
    (hw : (s.mks mid).when = some w) :
    call s t x = (setM s mid { s.mks mid with when := some (w.invoke x).1 }, (w.invoke x).2) := by
  simp [call, h, hc, hw]
theorem lcall_orig {a : Lww} {t : Tgt} (x : Nat) (h : a.beh t = .orig) (h2 : ∀ j, a.beh (.i2 j) = .orig) : a.call t x = (a, .o) := by
  cases t <;> simp [Lww.call, h, h2]
theorem lcall_cb {a : Lww} {t : Tgt} {k : Nat} (x : Nat) (h : a.beh t = .cb k) : a.call t x = (a, .k k) := by simp [Lww.call, h]
theorem lcall_stub {a : Lww} {t : Tgt} {w : When} (x : Nat) (h : a.beh t = .stub w) :
    a.call t x = ({ a with beh := upd a.beh t (.stub (w.invoke x).1) }, (w.invoke x).2) := by simp [Lww.call, h]

/-- a call observes the same result in both models and keeps them related (cursors advance in lock step) -/
theorem call_sim {s : State} {a : Lww} (hw : WF s) (hr : R s a) (t : Tgt) (x : Nat) :
    (call s t x).2 = (a.call t x).2 ∧ WF (call s t x).1 ∧ R (call s t x).1 (a.call t x).1 := by
  have hi2 : ∀ j, s.inst (.i2 j) = .orig ∧ a.beh (.i2 j) = .orig := by
    intro j
    have := hr.tgt (.i2 j)
    unfold Rt at this
    simpa [live, slot_i2_none hw j, liveOf] using this
  have hrt := hr.tgt t
  unfold Rt at hrt
  cases hl : live s t with
  | none =>
    rw [hl] at hrt
    rw [call_orig x hrt.1 (fun j => (hi2 j).1), lcall_orig x hrt.2 (fun j => (hi2 j).2)]; exact ⟨rfl, hw, hr⟩
  | some mid =>
    rw [hl] at hrt
    obtain ⟨hs, hcan⟩ := live_some.mp hl
    cases hwn : (s.mks mid).when with
    | none =>
      simp only [hwn] at hrt
      rcases hrt with ⟨h1, h2⟩ | ⟨k, h1, h2, _⟩
      · rw [call_orig x h1 (fun j => (hi2 j).1), lcall_orig x h2 (fun j => (hi2 j).2)]; exact ⟨rfl, hw, hr⟩
      · rw [call_cb x h1, lcall_cb x h2]; exact ⟨rfl, hw, hr⟩
    | some w =>
      simp only [hwn] at hrt
      obtain ⟨hi, hb, hg⟩ := hrt
      rw [call_via x hi hcan hwn, lcall_stub x hb]
      refine ⟨rfl, wf_setM hw mid _ ?_ ?_ ?_, hr.pkg, fun t' => ?_, fun t' h => ?_⟩
      · rfl
      · rfl
      · exact fun h => h
      · by_cases e : t' = t
        · subst e
          unfold Rt
          have : live (setM s mid { s.mks mid with when := some (w.invoke x).1 }) t' = some mid := by
            rw [live_some]; exact ⟨hs, by simp [setM, hcan]⟩
          simp only [this]
          simp [setM, hg]
          exact hi
        · exact rt_other hw hs (fun x => rfl) (fun j hj => by simp [setM, upd_other _ _ _ _ hj]) rfl (by simp [upd, e]) e (hr.tgt t')
      · have e : t' ≠ t := by
          intro e; subst e
          have := (hr.ph t' h).1; rw [hi] at this; cases this
        refine ⟨(hr.ph t' h).1, ?_⟩
        show upd a.beh t _ t' = Beh.orig
        rw [upd_other _ _ _ _ e]; exact (hr.ph t' h).2

theorem observe_sim_aux (l : List (Tgt × Nat)) : ∀ (s : State) (a : Lww) (acc : List Res), WF s → R s a →
    (l.foldl (fun (acc : State × List Res) (ta : Tgt × Nat) => ((call acc.1 ta.1 ta.2).1, acc.2 ++ [(call acc.1 ta.1 ta.2).2])) (s, acc)).2
      = (l.foldl (fun (acc : Lww × List Res) (ta : Tgt × Nat) => ((Lww.call acc.1 ta.1 ta.2).1, acc.2 ++ [(Lww.call acc.1 ta.1 ta.2).2])) (a, acc)).2
    ∧ WF (l.foldl (fun (acc : State × List Res) (ta : Tgt × Nat) => ((call acc.1 ta.1 ta.2).1, acc.2 ++ [(call acc.1 ta.1 ta.2).2])) (s, acc)).1
    ∧ R (l.foldl (fun (acc : State × List Res) (ta : Tgt × Nat) => ((call acc.1 ta.1 ta.2).1, acc.2 ++ [(call acc.1 ta.1 ta.2).2])) (s, acc)).1
        (l.foldl (fun (acc : Lww × List Res) (ta : Tgt × Nat) => ((Lww.call acc.1 ta.1 ta.2).1, acc.2 ++ [(Lww.call acc.1 ta.1 ta.2).2])) (a, acc)).1 := by
  induction l with
  | nil => intro s a acc hw hr; exact ⟨rfl, hw, hr⟩
  | cons ta rest ih =>
    intro s a acc hw hr
    obtain ⟨h1, h2, h3⟩ := call_sim hw hr ta.1 ta.2
    simp only [List.foldl_cons]
    rw [h1]
    exact ih (call s ta.1 ta.2).1 (a.call ta.1 ta.2).1 (acc ++ [(a.call ta.1 ta.2).2]) h2 h3

theorem observe_eq (s : State) : observe s =
    obsCalls.foldl (fun (acc : State × List Res) (ta : Tgt × Nat) => ((call acc.1 ta.1 ta.2).1, acc.2 ++ [(call acc.1 ta.1 ta.2).2])) (s, []) := rfl
theorem lobserve_eq (a : Lww) : a.observe =
    obsCalls.foldl (fun (acc : Lww × List Res) (ta : Tgt × Nat) => ((Lww.call acc.1 ta.1 ta.2).1, acc.2 ++ [(Lww.call acc.1 ta.1 ta.2).2])) (a, []) := rfl

theorem observe_sim {s : State} {a : Lww} (hw : WF s) (hr : R s a) :
    (observe s).2 = (a.observe).2 ∧ WF (observe s).1 ∧ R (observe s).1 (a.observe).1 := by
  rw [observe_eq, lobserve_eq]; exact observe_sim_aux obsCalls s a [] hw hr

/-- the behaviour rows of a run -/
def behRows (rs : List (StepRes × List Res)) : List (List Res) := rs.map (·.2)

theorem run_cons (v : Variant) (s : State) (op : Op) (ops : List Op) :
    run v s (op :: ops) = ((step v s op).2, (observe (step v s op).1).2) :: run v (observe (step v s op).1).1 ops := by simp only [run]
theorem lrun_cons (a : Lww) (op : Op) (ops : List Op) :
    Lww.run a (op :: ops) = ((a.step op).observe).2 :: Lww.run ((a.step op).observe).1 ops := by simp only [Lww.run]

/-- after Reset no cached mocker is live any more -/
theorem reset_live_none {s : State} (hw : WF s) (x : Tgt) : live (resetB s) x = none := by
  obtain ⟨h1, h2, h3, h4, h5, h6⟩ := fold_cancel (cachedMids s) s hw (fun m hm => cachedMids_cached hm)
  generalize hsf : (cachedMids s).foldl cancelM s = sf at *
  have hrs : resetB s = sf := by unfold resetB; exact hsf
  have hslot : slot (resetB s) x = slot s x := by rw [hrs]; exact slot_of_b h2 x
  have hmks : (resetB s).mks = sf.mks := by rw [hrs]
  simp only [live, hslot]; rw [liveOf_none]
  intro m hm; rw [hmks]; exact h4 m (mem_cachedMids hm)

/-- the state after a whole history (every step followed by the observation calls) -/
def exec (v : Variant) (s : State) (ops : List Op) : State :=
  ops.foldl (fun s op => (observe (step v s op).1).1) s

def Lww.exec (a : Lww) (ops : List Op) : Lww :=
  ops.foldl (fun a op => ((a.step op).observe).1) a

theorem instr_pkg (v : Variant) (s : State) (mid : Nat) (ins : Instr) : (instr v s mid ins).1.b.pkg = s.b.pkg := by
  cases ins with
  | look => rfl
  | apply k => simp only [instr, applyCb]; split <;> rfl
  | stub st => simp only [instr, stubI]; split <;> (try rfl); split <;> (try rfl); split <;> rfl
  | cancel => simp only [instr]; rw [(cancelM_mks s mid).1]

/-! ### kept handles: what every step keeps of the objects a register may point to -/

/-- registers unchanged, no mocker object lost, targets of existing objects unchanged -/
structure Frame (s s' : State) : Prop where
  regs : s'.regs = s.regs
  next : s.next ≤ s'.next
  tgt : ∀ j, j < s.next → (s'.mks j).tgt = (s.mks j).tgt

theorem Frame.refl (s : State) : Frame s s := ⟨rfl, Nat.le_refl _, fun _ _ => rfl⟩

theorem Frame.trans {s s' s'' : State} (f : Frame s s') (g : Frame s' s'') : Frame s s'' :=
  ⟨by rw [g.regs, f.regs], Nat.le_trans f.next g.next, fun j hj => by rw [g.tgt j (Nat.lt_of_lt_of_le hj f.next), f.tgt j hj]⟩

theorem frame_setM (s : State) (mid : Nat) (m : Mocker) (h : m.tgt = (s.mks mid).tgt) : Frame s (setM s mid m) :=
  ⟨rfl, Nat.le_refl _, fun j _ => by by_cases e : j = mid <;> simp [setM, upd, e, h]⟩

theorem frame_setInst (s : State) (t : Tgt) (i : Inst) : Frame s (setInst s t i) := ⟨rfl, Nat.le_refl _, fun _ _ => rfl⟩

theorem frame_setPkg (s : State) (p : Pkg) : Frame s (setPkg s p) := ⟨rfl, Nat.le_refl _, fun _ _ => rfl⟩

theorem frame_of_tgt {s s' : State} (h1 : s'.regs = s.regs) (h2 : s'.next = s.next) (h3 : ∀ j, (s'.mks j).tgt = (s.mks j).tgt) : Frame s s' :=
  ⟨h1, by rw [h2]; exact Nat.le_refl _, fun j _ => h3 j⟩

theorem frame_setInst_setM (s : State) (mid : Nat) (m : Mocker) (t : Tgt) (i : Inst) (h : m.tgt = (s.mks mid).tgt) :
    Frame s (setInst (setM s mid m) t i) :=
  frame_of_tgt rfl rfl (fun j => by by_cases e : j = mid <;> simp [setInst, setM, upd, e, h])

theorem frame_cancelM (s : State) (mid : Nat) : Frame s (cancelM s mid) := by
  obtain ⟨_, hn, hregs, hoth, hmid⟩ := cancelM_mks s mid
  refine ⟨hregs, by rw [hn]; exact Nat.le_refl _, fun j _ => ?_⟩
  · by_cases e : j = mid
    · subst e; rw [hmid]
    · rw [hoth j e]

theorem frame_instr (v : Variant) (s : State) (mid : Nat) (ins : Instr) : Frame s (instr v s mid ins).1 := by
  cases ins with
  | look => exact Frame.refl s
  | cancel => exact frame_cancelM s mid
  | apply k =>
    simp only [instr, applyCb]; split
    · exact Frame.refl s
    · exact frame_setInst_setM s mid _ _ _ rfl
  | stub st =>
    simp only [instr, stubI]; split
    · exact Frame.refl s
    · split
      · exact Frame.refl s
      · split
        · exact frame_setM s mid _ rfl
        · exact frame_setInst_setM s mid _ _ _ rfl

theorem frame_lookup {s s' : State} {t : Tgt} {mid : Nat} (h : LookupOk s t s' mid) : Frame s s' := by
  obtain ⟨_, _, _, hregs, hnext, hcase⟩ := h
  refine ⟨hregs, hnext, fun j hj => ?_⟩
  rcases hcase with ⟨_, hm, _⟩ | ⟨_, hmid, hm, _⟩
  · rw [hm]
  · rw [hm j (by omega)]

theorem frame_fold_cancel (l : List Nat) : ∀ s : State, Frame s (l.foldl cancelM s) := by
  induction l with
  | nil => intro s; exact Frame.refl s
  | cons m rest ih => intro s; exact (frame_cancelM s m).trans (ih _)

theorem frame_call (s : State) (t : Tgt) (x : Nat) : Frame s (call s t x).1 := by
  cases hi : s.inst t with
  | orig => simp only [call, hi]; (repeat' split) <;> exact Frame.refl s
  | cb k => rw [call_cb x hi]; exact Frame.refl s
  | via mid =>
    simp only [call, hi]
    split
    · exact Frame.refl s
    · split
      · exact Frame.refl s
      · exact frame_setM s _ _ rfl

theorem frame_observe_aux (l : List (Tgt × Nat)) : ∀ (s : State) (acc : List Res),
    Frame s (l.foldl (fun (acc : State × List Res) (ta : Tgt × Nat) => ((call acc.1 ta.1 ta.2).1, acc.2 ++ [(call acc.1 ta.1 ta.2).2])) (s, acc)).1 := by
  induction l with
  | nil => intro s acc; exact Frame.refl s
  | cons ta rest ih => intro s acc; simp only [List.foldl_cons]; exact (frame_call s ta.1 ta.2).trans (ih _ _)

theorem frame_observe (s : State) : Frame s (observe s).1 := by rw [observe_eq]; exact frame_observe_aux obsCalls s []

/-- the reference knows, for every register, the target of the object it holds -/
def RegsOk (s : State) (a : Lww) : Prop :=
  ∀ r, match s.regs r with
    | some mid => mid < s.next ∧ a.regs r = some (s.mks mid).tgt
    | none => a.regs r = none

theorem regsOk_frame {s s' : State} {a a' : Lww} (h : RegsOk s a) (f : Frame s s') (ha : a'.regs = a.regs) : RegsOk s' a' := by
  intro r
  have := h r
  rw [f.regs, ha]
  cases hr : s.regs r with
  | none => simpa [hr] using this
  | some mid =>
    simp only [hr] at this ⊢
    exact ⟨Nat.lt_of_lt_of_le this.1 f.next, by rw [f.tgt mid this.1]; exact this.2⟩

theorem lww_call_regs (a : Lww) (t : Tgt) (x : Nat) : (a.call t x).1.regs = a.regs := by
  unfold Lww.call; (repeat' split) <;> rfl

theorem lww_observe_regs_aux (l : List (Tgt × Nat)) : ∀ (a : Lww) (acc : List Res),
    (l.foldl (fun (acc : Lww × List Res) (ta : Tgt × Nat) => ((Lww.call acc.1 ta.1 ta.2).1, acc.2 ++ [(Lww.call acc.1 ta.1 ta.2).2])) (a, acc)).1.regs = a.regs := by
  induction l with
  | nil => intro a acc; rfl
  | cons ta rest ih => intro a acc; simp only [List.foldl_cons]; rw [ih, lww_call_regs]

theorem lww_observe_regs (a : Lww) : (a.observe).1.regs = a.regs := by rw [lobserve_eq]; exact lww_observe_regs_aux obsCalls a []

theorem lww_onTgt_regs (a : Lww) (t : Tgt) (ins : Instr) : (Lww.onTgt a t ins).regs = a.regs := by
  unfold Lww.onTgt; split <;> rfl

/-- the instruction of `op` goes through a handle that is the live mocker of its target (trivially true for every op
    that looks up its own handle and for `look`), and `op` does not address the two-method interface variable -/
def opLive (s : State) : Op → Bool
  | .on r ins =>
    match ins, s.regs r with
    | .look, _ => true
    | _, none => true
    | _, some mid => decide (live s (s.mks mid).tgt = some mid)
  | op => !opI2 op                              -- and the two-method interface variable is not addressed

/-- every instruction of the history goes through a live handle -/
def histLive (v : Variant) (s : State) (ops : List Op) : Bool :=
  (ops.foldl (fun (acc : State × Bool) op => ((observe (step v acc.1 op).1).1, acc.2 && opLive acc.1 op)) (s, true)).2

theorem step_on_fst (v : Variant) (s : State) (r mid : Nat) (ins : Instr) (h : s.regs r = some mid) :
    (step v s (.on r ins)).1 = (instr v s mid ins).1 := by
  simp only [step, h]; split <;> simp_all

/-- an instruction through a kept handle that is still live -/
theorem on_sim {s : State} {a : Lww} (hw : WF s) (hr : R s a) (hg : RegsOk s a) (r : Nat) (ins : Instr)
    (hl : opLive s (.on r ins) = true) :
    WF (step fixed s (.on r ins)).1 ∧ R (step fixed s (.on r ins)).1 (a.step (.on r ins)) := by
  have hgr := hg r
  cases hreg : s.regs r with
  | none =>
    simp only [hreg] at hgr
    simp only [step, Lww.step, hreg, hgr]; exact ⟨hw, hr⟩
  | some mid =>
    simp only [hreg] at hgr
    rw [step_on_fst _ _ _ _ _ hreg]
    simp only [Lww.step, hgr.2]
    cases ins with
    | look =>
      refine ⟨hw, r_congr (fun x => ?_) ?_ hr⟩
      rotate_left
      · rfl
      simp only [Lww.onTgt, Lww.rejected, Bool.false_eq_true, if_false]
      by_cases e : x = (s.mks mid).tgt
      · subst e; simp [Lww.instr]
      · simp [upd, e]
    | apply k => exact instr_sim hw hr (by simpa [opLive, hreg] using hl) _
    | stub st => exact instr_sim hw hr (by simpa [opLive, hreg] using hl) _
    | cancel => exact instr_sim hw hr (by simpa [opLive, hreg] using hl) _

/-- the invariant of a run -/
structure Inv (s : State) (a : Lww) : Prop where
  wf : WF s
  r : R s a
  regs : RegsOk s a

theorem frame_step (v : Variant) (s : State) (op : Op) (hk : ∀ r hd, op ≠ .keep r hd) (hw : WF s) (hi2 : opI2 op = false := by rfl) :
    Frame s (step v s op).1 := by
  cases op with
  | pkg p => exact frame_setPkg s p
  | reset => exact frame_fold_cancel _ s
  | xfEmpty => exact Frame.refl s
  | stBad => exact ⟨rfl, Nat.le_refl _, fun _ _ => rfl⟩
  | qlook => exact (frame_lookup (lookup_ok s (.fn false) hw)).trans (frame_setPkg _ _)
  | h hd ins => rw [step_h_fst]; exact (frame_lookup (lookup_ok s hd hw hi2)).trans (frame_instr _ _ _ _)
  | keep r hd => exact absurd rfl (hk r hd)
  | on r ins =>
    cases hreg : s.regs r with
    | none => simp only [step, hreg]; exact Frame.refl s
    | some mid => rw [step_on_fst _ _ _ _ _ hreg]; exact frame_instr _ _ _ _

theorem lww_step_regs (a : Lww) (op : Op) (hk : ∀ r hd, op ≠ .keep r hd) : (a.step op).regs = a.regs := by
  cases op with
  | keep r hd => exact absurd rfl (hk r hd)
  | h hd ins => simp only [Lww.step]; rw [lww_onTgt_regs]
  | on r ins => simp only [Lww.step]; split <;> (try rfl); rw [lww_onTgt_regs]
  | _ => rfl

/-- one step (any op whose kept-handle use is live) keeps the invariant -/
theorem step_inv {s : State} {a : Lww} (h : Inv s a) (op : Op) (hl : opLive s op = true) :
    Inv (step fixed s op).1 (a.step op) := by
  obtain ⟨hw, hr, hg⟩ := h
  cases op with
  | on r ins =>
    obtain ⟨h1, h2⟩ := on_sim hw hr hg r ins hl
    exact ⟨h1, h2, regsOk_frame hg (frame_step fixed s _ (fun _ _ => by simp) hw) (lww_step_regs a _ (fun _ _ => by simp))⟩
  | keep r hd =>
    have hi2 : isI2H hd = false := by simpa [opLive, opI2] using hl
    obtain ⟨h1, h2⟩ := step_sim hw hr (.keep r hd) rfl hi2
    refine ⟨h1, h2, ?_⟩
    have lk := lookup_ok s hd hw hi2
    obtain ⟨_, hl1⟩ := lookup_R hw hr lk
    have hg1 : RegsOk (lookup s hd).1 a := regsOk_frame hg (frame_lookup lk) rfl
    obtain ⟨hsl, _⟩ := live_some.mp hl1
    intro r'
    simp only [step, Lww.step]
    by_cases e : r' = r
    · subst e
      simp only [upd_same]
      exact ⟨lk.1.slot_lt _ _ hsl, by rw [lk.1.slot_tgt _ _ hsl, hr.pkg]⟩
    · simp only [upd_other _ _ _ _ e]
      exact hg1 r'
  | pkg p => obtain ⟨h1, h2⟩ := step_sim hw hr (.pkg p) rfl; exact ⟨h1, h2, regsOk_frame hg (frame_step fixed s _ (fun _ _ => by simp) hw) rfl⟩
  | reset => obtain ⟨h1, h2⟩ := step_sim hw hr .reset rfl; exact ⟨h1, h2, regsOk_frame hg (frame_step fixed s _ (fun _ _ => by simp) hw) rfl⟩
  | xfEmpty => obtain ⟨h1, h2⟩ := step_sim hw hr .xfEmpty rfl; exact ⟨h1, h2, regsOk_frame hg (frame_step fixed s _ (fun _ _ => by simp) hw) rfl⟩
  | stBad => obtain ⟨h1, h2⟩ := step_sim hw hr .stBad rfl; exact ⟨h1, h2, regsOk_frame hg (frame_step fixed s _ (fun _ _ => by simp) hw) rfl⟩
  | qlook => obtain ⟨h1, h2⟩ := step_sim hw hr .qlook rfl; exact ⟨h1, h2, regsOk_frame hg (frame_step fixed s _ (fun _ _ => by simp) hw) rfl⟩
  | h hd ins =>
    have hi2 : isI2H hd = false := by simpa [opLive, opI2] using hl
    obtain ⟨h1, h2⟩ := step_sim hw hr (.h hd ins) rfl hi2
    exact ⟨h1, h2, regsOk_frame hg (frame_step fixed s _ (fun _ _ => by simp) hw hi2) (lww_step_regs a _ (fun _ _ => by simp))⟩

theorem observe_inv {s : State} {a : Lww} (h : Inv s a) :
    (observe s).2 = (a.observe).2 ∧ Inv (observe s).1 (a.observe).1 := by
  obtain ⟨ho, hw2, hr2⟩ := observe_sim h.wf h.r
  have f := frame_observe s
  have g := lww_observe_regs a
  refine ⟨ho, ?_⟩
  generalize (observe s).1 = s' at *
  generalize (a.observe).1 = a' at *
  exact ⟨hw2, hr2, regsOk_frame h.regs f g⟩

theorem histLive_cons (v : Variant) (s : State) (op : Op) (ops : List Op) :
    histLive v s (op :: ops) = (opLive s op && histLive v (observe (step v s op).1).1 ops) := by
  unfold histLive
  simp only [List.foldl_cons, Bool.true_and]
  generalize (observe (step v s op).1).1 = s1
  cases hb : opLive s op with
  | true => rfl
  | false =>
    simp only [Bool.false_and]
    have : ∀ (l : List Op) (st : State), (l.foldl (fun (acc : State × Bool) op => ((observe (step v acc.1 op).1).1, acc.2 && opLive acc.1 op)) (st, false)).2 = false := by
      intro l; induction l with
      | nil => intro st; rfl
      | cons o rest ih => intro st; simp only [List.foldl_cons, Bool.false_and]; exact ih _
    exact this ops s1

/-- **the simulation**: along every history whose kept-handle uses are live, the behaviour rows coincide -/
theorem run_sim (ops : List Op) : ∀ (s : State) (a : Lww), Inv s a → histLive fixed s ops = true →
    behRows (run fixed s ops) = Lww.run a ops := by
  induction ops with
  | nil => intro s a _ _; rfl
  | cons op rest ih =>
    intro s a hinv hl
    rw [histLive_cons, Bool.and_eq_true] at hl
    have h1 := step_inv hinv op hl.1
    obtain ⟨ho, h2⟩ := observe_inv h1
    rw [run_cons, lrun_cons, behRows, List.map_cons, ← ho]
    show _ :: behRows _ = _
    rw [ih _ _ h2 hl.2]

theorem exec_sim (ops : List Op) : ∀ (s : State) (a : Lww), Inv s a → histLive fixed s ops = true →
    Inv (exec fixed s ops) (Lww.exec a ops) := by
  induction ops with
  | nil => intro s a h _; exact h
  | cons op rest ih =>
    intro s a hinv hl
    rw [histLive_cons, Bool.and_eq_true] at hl
    have h1 := step_inv hinv op hl.1
    obtain ⟨_, h2⟩ := observe_inv h1
    have e1 : exec fixed s (op :: rest) = exec fixed (observe (step fixed s op).1).1 rest := List.foldl_cons ..
    have e2 : Lww.exec a (op :: rest) = Lww.exec ((a.step op).observe).1 rest := List.foldl_cons ..
    rw [e1, e2]
    exact ih _ _ h2 hl.2

theorem wf_initP (p : Pkg) : WF (initP p) := by
  refine ⟨?_, ?_, ?_, ?_, rfl⟩ <;> intro t <;> (try cases t) <;> simp [initP, slot]

theorem inv_initP (p : Pkg) : Inv (initP p) (Lww.initP p) := by
  refine ⟨wf_initP p, ⟨rfl, fun t => ?_, fun t _ => by simp [initP, Lww.initP]⟩, fun r => by simp [initP, Lww.initP]⟩
  cases t <;> simp [Rt, live, liveOf, slot, initP, Lww.initP]

end C12M
