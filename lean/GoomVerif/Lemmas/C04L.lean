import GoomVerif.Model.When
/-! Helper lemmas for C04: the declarative meaning of expressions and its agreement with the evaluator. -/
namespace When

mutual
/-- Declarative meaning of an argument expression: plain values by equality, `Any` always, `In` by membership. -/
def Spec.Sat (eqv : Val → Val → Bool) : Spec → Val → Prop
  | .any, _ => True
  | .val v, x => eqv v x = true
  | .isIn alts, x => SatAlts eqv alts [x]
/-- a tuple of expressions holds of a tuple of values: same length and position by position -/
def SatTuple (eqv : Val → Val → Bool) : List Spec → List Val → Prop
  | [], [] => True
  | e :: es, x :: xs => Spec.Sat eqv e x ∧ SatTuple eqv es xs
  | _, _ => False
/-- some alternative holds -/
def SatAlts (eqv : Val → Val → Bool) : List (List Spec) → List Val → Prop
  | [], _ => False
  | one :: rest, xs => SatTuple eqv one xs ∨ SatAlts eqv rest xs
end

theorem satTuple_length (eqv) : ∀ (es : List Spec) (xs : List Val), SatTuple eqv es xs → es.length = xs.length
  | [], [], _ => rfl
  | _ :: es, _ :: xs, h => by
    simp only [SatTuple] at h
    simp [satTuple_length eqv es xs h.2]
  | [], _ :: _, h => by simp [SatTuple] at h
  | _ :: _, [], h => by simp [SatTuple] at h

mutual
theorem eval_iff (eqv) : ∀ (e : Spec) (x : Val), Spec.eval eqv e x = true ↔ Spec.Sat eqv e x
  | .any, _ => by simp [Spec.eval, Spec.Sat]
  | .val v, x => by simp [Spec.eval, Spec.Sat]
  | .isIn alts, x => by simp only [Spec.eval, Spec.Sat]; exact evalAlts_iff eqv alts [x]
theorem evalTuple_iff (eqv) : ∀ (es : List Spec) (xs : List Val), evalTuple eqv es xs = true ↔ SatTuple eqv es xs
  | [], [] => by simp [evalTuple, SatTuple]
  | e :: es, x :: xs => by
    simp only [evalTuple, SatTuple, Bool.and_eq_true]; rw [eval_iff eqv e x, evalTuple_iff eqv es xs]
  | [], _ :: _ => by simp [evalTuple, SatTuple]
  | _ :: _, [] => by simp [evalTuple, SatTuple]
theorem evalAlts_iff (eqv) : ∀ (alts : List (List Spec)) (xs : List Val), evalAlts eqv alts xs = true ↔ SatAlts eqv alts xs
  | [], _ => by simp [evalAlts, SatAlts]
  | one :: rest, xs => by
    simp only [evalAlts, SatAlts, Bool.or_eq_true, Bool.and_eq_true]
    rw [evalTuple_iff eqv one xs, evalAlts_iff eqv rest xs]
    constructor
    · rintro (⟨_, h⟩ | h)
      · exact Or.inl h
      · exact Or.inr h
    · rintro (h | h)
      · exact Or.inl ⟨by simp [satTuple_length eqv one xs h], h⟩
      · exact Or.inr h
end


/-! ## Calls as the callback sees them -/

theorem ones_map_one (xs : List Val) : ones (xs.map Arg.one) = .ok xs := by
  induction xs with
  | nil => rfl
  | cons x xs ih => simp [ones, ih]

/-- `Match` sees exactly the logical argument tuple of a real call: receiver dropped, leading fixed parameters
    untouched, the packed variadic slice expanded element by element — whether the caller packed an empty tail as an
    empty slice (reflect.Call, Eval) or passed the nil slice of a compiled call site. -/
theorem normalize_encodeG (nt : Bool) (sig : Sig) (recv : Val) (xs : List Val) :
    normalize sig (encodeCallG nt sig recv xs) = .ok xs := by
  unfold normalize encodeCallG
  cases hv : sig.variadic <;> cases hm : sig.isMethod <;> cases hnt : nt <;>
    simp [ones_map_one, ← List.map_take, bind, Except.bind, pure, Except.pure]
  all_goals
    by_cases he : xs.length ≤ sig.nIn - 1
    · have ht : List.take (sig.nIn - 1) xs = xs := List.take_of_length_le he
      have hd : List.drop (sig.nIn - 1) xs = [] := List.drop_eq_nil_iff.2 he
      simp [he, ht, hd]
    · have hd : ¬ List.drop (sig.nIn - 1) xs = [] := fun h => he (List.drop_eq_nil_iff.1 h)
      simp [he, hd]

theorem normalize_encode (sig : Sig) (recv : Val) (xs : List Val) :
    normalize sig (encodeCall sig recv xs) = .ok xs := normalize_encodeG false sig recv xs

/-! ## Configurations -/

/-- number of expressions a condition may carry: exactly `nIn`, or at least the fixed parameters of a variadic function -/
def arityOk (sig : Sig) (n : Nat) : Prop := if sig.variadic then sig.nIn - 1 ≤ n else n = sig.nIn

instance (sig : Sig) (n : Nat) : Decidable (arityOk sig n) := by unfold arityOk; exact inferInstance



inductive Cond where
  | when (specs : List Spec)
  | isIn (alts : List (List Spec))

def Cond.matcher : Cond → Res → Matcher
  | .when specs, r => { kind := .dflt specs, results := [r], cur := 0 }
  | .isIn alts, r => { kind := .contains alts, results := [r], cur := 0 }

def Cond.clause : Cond → Clause
  | .when [] => .when none
  | .when specs => .when (some specs)
  | .isIn alts => .isIn (alts.map Alt.tuple)

def Cond.WF (sig : Sig) : Cond → Prop
  | .when specs => arityOk sig specs.length ∧ tupleResolves specs = true
  | .isIn alts => ∀ a ∈ alts, arityOk sig a.length ∧ tupleResolves a = true

def DfltOk (sig : Sig) (d : Option Res) (w : W) : Prop :=
  match d with
  | some d => ∃ id, w.dflt = some id ∧ id < w.next ∧ w.store id = some { kind := .always, results := [d], cur := 0 }
  | none => if sig.numOut = 0 then ∃ id, w.dflt = some id ∧ id < w.next ∧ w.store id = some { kind := .empty, results := [], cur := 0 }
            else w.dflt = none

structure Inv (sig : Sig) (d : Option Res) (pre : List (Cond × Res)) (w : W) : Prop where
  sig_eq : w.sig = sig
  ms_eq : w.ms.map w.store = pre.map (fun p => some (p.1.matcher p.2))
  ms_lt : ∀ id ∈ w.ms, id < w.next
  dflt_ok : DfltOk sig d w

theorem toExprOk_of_arity (sig : Sig) (a : List Spec) (h : arityOk sig a.length) (hr : tupleResolves a = true) :
    toExprOk a sig.nIn sig.variadic = true := by
  unfold toExprOk arityOk at *
  cases hv : sig.variadic <;> simp_all

theorem newDefaultMatch_ok (sig : Sig) (a : List Spec) (rs : List Res) (h : arityOk sig a.length) (hr : tupleResolves a = true) :
    newDefaultMatch sig a rs = .ok { kind := .dflt a, results := rs, cur := 0 } := by
  unfold newDefaultMatch toExprOk arityOk at *
  cases hv : sig.variadic <;> simp_all

theorem resolveIn_tuples (sig : Sig) (alts : List (List Spec)) (h : ∀ a ∈ alts, arityOk sig a.length ∧ tupleResolves a = true) (i : Nat) :
    resolveIn sig i (alts.map Alt.tuple) = .ok alts := by
  induction alts generalizing i with
  | nil => rfl
  | cons a rest ih =>
    have ha := h a (by simp)
    have := ih (fun b hb => h b (by simp [hb])) (i + 1)
    simp [resolveIn, toExprOk_of_arity sig a ha.1 ha.2, this, bind, Except.bind, pure, Except.pure]

theorem inv_append (sig : Sig) (d : Option Res) (pre : List (Cond × Res)) (w : W) (c : Cond) (r : Res)
    (hi : Inv sig d pre w) (store' : Nat → Option Matcher) (cu : Option Nat)
    (hnew : store' w.next = some (c.matcher r)) (hold : ∀ i, i < w.next → store' i = w.store i) :
    Inv sig d (pre ++ [(c, r)]) { sig := sig, store := store', next := w.next + 1, ms := w.ms ++ [w.next], dflt := w.dflt, cur := cu } := by
  obtain ⟨hs, hms, hlt, hd⟩ := hi
  constructor
  · rfl
  · simp only [List.map_append, List.map_cons, List.map_nil, hnew, ← hms]
    congr 1
    apply List.map_congr_left
    intro id hid
    exact hold id (hlt id hid)
  · intro id hid
    simp only [List.mem_append, List.mem_singleton] at hid
    rcases hid with h | h
    · exact Nat.lt_succ_of_lt (hlt id h)
    · simp [h]
  · unfold DfltOk at *
    cases d with
    | some d =>
      obtain ⟨id, h1, h2, h3⟩ := hd
      exact ⟨id, h1, Nat.lt_succ_of_lt h2, by simp only [hold id h2, h3]⟩
    | none =>
      simp only at hd ⊢
      split at hd
      · rename_i h0
        obtain ⟨id, h1, h2, h3⟩ := hd
        simp only [h0, if_true]
        exact ⟨id, h1, Nat.lt_succ_of_lt h2, by simp only [hold id h2, h3]⟩
      · rename_i h0
        simp only [h0, if_false]
        exact hd

/-- registering one condition and its result appends exactly its matcher -/
theorem step_cond (sig : Sig) (d : Option Res) (pre : List (Cond × Res)) (w : W) (c : Cond) (r : Res)
    (hi : Inv sig d pre w) (hc : c.WF sig) :
    ∃ w', (w.step c.clause >>= fun w1 => w1.step (.ret sig.numOut r)) = .ok w' ∧ Inv sig d (pre ++ [(c, r)]) w' := by
  have hs := hi.sig_eq
  cases c with
  | when specs =>
    obtain ⟨ha, hr⟩ := hc
    have hnd := newDefaultMatch_ok sig specs [] ha hr
    have hstep : w.step (Cond.when specs).clause = w.when specs := by
      cases specs <;> simp [Cond.clause, W.step]
    rw [hstep]
    simp only [W.when, hs, hnd, bind, Except.bind, pure, Except.pure, W.alloc, W.step, W.ret, W.get, W.set,
      Matcher.addResult, if_pos, bne_self_eq_false, Bool.false_eq_true, if_false, List.nil_append]
    refine ⟨_, rfl, ?_⟩
    apply inv_append sig d pre w _ r hi
    · simp [Cond.matcher]
    · intro i hlt
      have : i ≠ w.next := Nat.ne_of_lt hlt
      simp [this]
  | isIn alts =>
    have hres := resolveIn_tuples sig alts hc 0
    simp only [Cond.clause, W.step, W.isIn, newContainsMatch, hs, hres, bind, Except.bind, pure, Except.pure, W.alloc, W.ret, W.get, W.set,
      Matcher.addResult, if_pos, bne_self_eq_false, Bool.false_eq_true, if_false, List.nil_append]
    refine ⟨_, rfl, ?_⟩
    apply inv_append sig d pre w _ r hi
    · simp [Cond.matcher]
    · intro i hlt
      have : i ≠ w.next := Nat.ne_of_lt hlt
      simp [this]

def condScript (sig : Sig) (conds : List (Cond × Res)) : List Clause :=
  conds.flatMap (fun p => [p.1.clause, Clause.ret sig.numOut p.2])

theorem steps_conds (sig : Sig) (d : Option Res) (conds : List (Cond × Res)) :
    ∀ (pre : List (Cond × Res)) (w : W), Inv sig d pre w → (∀ p ∈ conds, p.1.WF sig) →
      ∃ w', w.steps (condScript sig conds) = .ok w' ∧ Inv sig d (pre ++ conds) w' := by
  induction conds with
  | nil => intro pre w hi _; exact ⟨w, rfl, by simpa using hi⟩
  | cons p rest ih =>
    intro pre w hi hc
    obtain ⟨w1, h1, hi1⟩ := step_cond sig d pre w p.1 p.2 hi (hc p (by simp))
    obtain ⟨w2, h2, hi2⟩ := ih (pre ++ [(p.1, p.2)]) w1 hi1 (fun q hq => hc q (by simp [hq]))
    refine ⟨w2, ?_, by simpa using hi2⟩
    simp only [condScript, List.flatMap_cons, List.cons_append, List.nil_append, W.steps]
    simp only [bind, Except.bind] at h1 ⊢
    cases hs1 : w.step p.1.clause with
    | error e => simp [hs1] at h1
    | ok wa =>
      simp only [hs1] at h1 ⊢
      simp only [h1]
      exact h2

structure Config where
  dflt : Option Res
  conds : List (Cond × Res)

def Config.script (sig : Sig) (cfg : Config) : List Clause :=
  (match cfg.dflt with | some d => [Clause.ret sig.numOut d] | none => []) ++ condScript sig cfg.conds

structure Config.WF (sig : Sig) (cfg : Config) : Prop where
  conds_wf : ∀ p ∈ cfg.conds, p.1.WF sig
  nonempty : cfg.dflt = none → cfg.conds ≠ []
  first_when : cfg.dflt = none → ∀ specs r rest, cfg.conds = (Cond.when specs, r) :: rest → specs ≠ []

theorem createWhen_none_inv (sig : Sig) :
    ∃ w, createWhen sig none none = .ok w ∧ Inv sig none [] w ∧ w.cur = w.dflt := by
  unfold createWhen
  by_cases h0 : sig.numOut = 0
  · simp only [h0, bind, Except.bind, pure, Except.pure, W.alloc, if_true]
    refine ⟨_, rfl, ⟨rfl, rfl, by simp, ?_⟩, rfl⟩
    simp [DfltOk, h0]
  · simp only [h0, bind, Except.bind, pure, Except.pure, if_false]
    refine ⟨_, rfl, ⟨rfl, rfl, by simp, ?_⟩, rfl⟩
    simp [DfltOk, h0]

theorem createWhen_dflt_inv (sig : Sig) (d : Res) :
    ∃ w, createWhen sig none (some (sig.numOut, d)) = .ok w ∧ Inv sig (some d) [] w := by
  unfold createWhen
  simp only [newAlwaysMatch, bind, Except.bind, pure, Except.pure, W.alloc, Nat.lt_irrefl, if_false,
    bne_self_eq_false, Bool.false_eq_true]
  refine ⟨_, rfl, ⟨rfl, rfl, by simp, ?_⟩⟩
  simp [DfltOk]

/-- first clause `When(specs...)` (non-empty) followed by its `Return` -/
theorem first_when_inv (sig : Sig) (specs : List Spec) (r : Res) (hne : specs ≠ [])
    (hc : (Cond.when specs).WF sig) :
    ∃ w, (first sig (Cond.when specs).clause >>= fun w1 => w1.step (.ret sig.numOut r)) = .ok w ∧
      Inv sig none [(Cond.when specs, r)] w := by
  obtain ⟨ha, hr⟩ := hc
  have hnd := newDefaultMatch_ok sig specs [] ha hr
  have hcl : (Cond.when specs).clause = .when (some specs) := by
    cases specs with
    | nil => exact absurd rfl hne
    | cons _ _ => rfl
  have hlt : ¬ specs.length < (if sig.variadic then sig.nIn - 1 else sig.nIn) := by
    unfold arityOk at ha
    cases hv : sig.variadic <;> simp only [hv, Bool.false_eq_true, if_false, if_true] at ha ⊢ <;> omega
  rw [hcl]
  unfold first createWhen
  by_cases h0 : sig.numOut = 0
  · simp only [h0, hlt, hnd, bind, Except.bind, pure, Except.pure, W.alloc, if_true, if_false, W.step, W.ret, W.get, W.set,
      Matcher.addResult, bne_self_eq_false, Bool.false_eq_true, List.nil_append]
    refine ⟨_, rfl, ⟨rfl, ?_, by simp, ?_⟩⟩
    · simp [Cond.matcher]
    · simp [DfltOk, h0]
  · simp only [h0, hlt, hnd, bind, Except.bind, pure, Except.pure, W.alloc, if_true, if_false, W.step, W.ret, W.get, W.set,
      Matcher.addResult, bne_self_eq_false, Bool.false_eq_true, List.nil_append]
    refine ⟨_, rfl, ⟨rfl, ?_, by simp, ?_⟩⟩
    · simp [Cond.matcher]
    · simp [DfltOk, h0]

theorem build_inv (sig : Sig) (cfg : Config) (hw : cfg.WF sig) :
    ∃ w, build sig (cfg.script sig) = .ok w ∧ Inv sig cfg.dflt cfg.conds w := by
  obtain ⟨dflt, conds⟩ := cfg
  cases dflt with
  | some d =>
    obtain ⟨w0, h0, hi0⟩ := createWhen_dflt_inv sig d
    obtain ⟨w1, h1, hi1⟩ := steps_conds sig (some d) conds [] w0 hi0 hw.conds_wf
    refine ⟨w1, ?_, by simpa using hi1⟩
    simp only [Config.script, List.singleton_append, build, first, h0, bind, Except.bind]
    exact h1
  | none =>
    cases conds with
    | nil => exact absurd rfl (hw.nonempty rfl)
    | cons p rest =>
      obtain ⟨c, r⟩ := p
      have hrest : ∀ q ∈ rest, q.1.WF sig := fun q hq => hw.conds_wf q (by simp [hq])
      cases c with
      | isIn alts =>
        obtain ⟨w0, h0, hi0, _⟩ := createWhen_none_inv sig
        obtain ⟨w1, h1, hi1⟩ := steps_conds sig none ((Cond.isIn alts, r) :: rest) [] w0 hi0 hw.conds_wf
        refine ⟨w1, ?_, by simpa using hi1⟩
        simp only [Config.script, List.nil_append, condScript, List.flatMap_cons, List.cons_append, build, first,
          Cond.clause, h0, bind, Except.bind]
        simp only [condScript, List.flatMap_cons, List.cons_append, List.nil_append, W.steps, Cond.clause, W.step, bind, Except.bind] at h1
        exact h1
      | when specs =>
        have hne := hw.first_when rfl specs r rest rfl
        obtain ⟨w0, h0, hi0⟩ := first_when_inv sig specs r hne (hw.conds_wf (Cond.when specs, r) (by simp))
        obtain ⟨w1, h1, hi1⟩ := steps_conds sig none rest [(Cond.when specs, r)] w0 hi0 hrest
        refine ⟨w1, ?_, by simpa using hi1⟩
        simp only [Config.script, List.nil_append, condScript, List.flatMap_cons, List.cons_append, build, W.steps]
        simp only [bind, Except.bind] at h0 ⊢
        cases hf : first sig (Cond.when specs).clause with
        | error e => simp [hf] at h0
        | ok wa =>
          simp only [hf] at h0 ⊢
          simp only [h0]
          exact h1

/-! ### calls -/

def Cond.holdsB (eqv : Val → Val → Bool) : Cond → List Val → Bool
  | .when specs, xs => evalTuple eqv specs xs
  | .isIn alts, xs => evalAlts eqv alts xs

theorem evalTuple_length (eqv) : ∀ (es : List Spec) (xs : List Val), evalTuple eqv es xs = true → es.length = xs.length := by
  intro es xs h
  exact satTuple_length eqv es xs ((evalTuple_iff eqv es xs).1 h)

theorem matchArgs_cond (eqv) (sig : Sig) (c : Cond) (r : Res) (args : List Arg) (xs : List Val)
    (hn : normalize sig args = .ok xs) : (c.matcher r).matchArgs eqv sig args = .ok (c.holdsB eqv xs) := by
  cases c with
  | when specs =>
    simp only [Cond.matcher, Matcher.matchArgs, hn, bind, Except.bind, pure, Except.pure, Cond.holdsB]
    by_cases hl : xs.length = specs.length
    · simp [hl]
    · have : evalTuple eqv specs xs = false := by
        cases h : evalTuple eqv specs xs with
        | false => rfl
        | true => exact absurd (evalTuple_length eqv specs xs h).symm hl
      simp [hl, this]
  | isIn alts =>
    simp only [Cond.matcher, Matcher.matchArgs, hn, bind, Except.bind, pure, Except.pure, Cond.holdsB]

theorem scan_spec (eqv) (sig : Sig) (w : W) (args : List Arg) (xs : List Val) (hs : w.sig = sig)
    (hn : normalize sig args = .ok xs) :
    ∀ (ids : List Nat) (l : List (Cond × Res)), ids.map w.store = l.map (fun p => some (p.1.matcher p.2)) →
      ∃ o, W.scan eqv w args ids = .ok o ∧
        (match l.find? (fun p => p.1.holdsB eqv xs) with
         | some p => ∃ id, o = some id ∧ w.store id = some (p.1.matcher p.2)
         | none => o = none) := by
  intro ids
  induction ids with
  | nil =>
    intro l hl
    cases l with
    | nil => exact ⟨none, rfl, rfl⟩
    | cons _ _ => simp at hl
  | cons id rest ih =>
    intro l hl
    cases l with
    | nil => simp at hl
    | cons p l' =>
      simp only [List.map_cons, List.cons.injEq] at hl
      obtain ⟨hid, hrest⟩ := hl
      have hm := matchArgs_cond eqv sig p.1 p.2 args xs hn
      simp only [W.scan, W.get, hid, hs, hm, bind, Except.bind, pure, Except.pure, List.find?_cons]
      cases hh : p.1.holdsB eqv xs with
      | true => exact ⟨some id, by simp, id, rfl, hid⟩
      | false =>
        obtain ⟨o, ho, hspec⟩ := ih l' hrest
        exact ⟨o, by simpa using ho, hspec⟩

def specOut (eqv : Val → Val → Bool) (sig : Sig) (cfg : Config) (xs : List Val) : Except Err Out :=
  match cfg.conds.find? (fun p => p.1.holdsB eqv xs) with
  | some p => .ok (.ret p.2)
  | none =>
    match cfg.dflt with
    | some d => .ok (.ret d)
    | none => if sig.numOut = 0 then .ok .unit else .error .nosuitable

theorem invoke_inv (eqv) (sig : Sig) (cfg : Config) (w : W) (hi : Inv sig cfg.dflt cfg.conds w) (args : List Arg) (xs : List Val)
    (hn : normalize sig args = .ok xs) :
    (w.invoke eqv args).map Prod.fst = specOut eqv sig cfg xs := by
  obtain ⟨hs, hms, hlt, hd⟩ := hi
  obtain ⟨o, ho, hspec⟩ := scan_spec eqv sig w args xs hs hn w.ms cfg.conds hms
  unfold W.invoke specOut
  simp only [ho, bind, Except.bind]
  cases hf : cfg.conds.find? (fun p => p.1.holdsB eqv xs) with
  | some p =>
    simp only [hf] at hspec
    obtain ⟨id, rfl, hst⟩ := hspec
    cases hc : p.1 with
    | when specs => simp [W.get, hst, hc, Cond.matcher, Matcher.result, Except.map, pure, Except.pure]
    | isIn alts => simp [W.get, hst, hc, Cond.matcher, Matcher.result, Except.map, pure, Except.pure]
  | none =>
    simp only [hf] at hspec
    subst hspec
    unfold DfltOk at hd
    cases hdf : cfg.dflt with
    | some d =>
      simp only [hdf] at hd
      obtain ⟨id, h1, _, h3⟩ := hd
      simp [h1, W.get, h3, Matcher.result, Except.map, pure, Except.pure]
    | none =>
      simp only [hdf] at hd
      by_cases h0 : sig.numOut = 0
      · simp only [h0, if_true] at hd
        obtain ⟨id, h1, _, h3⟩ := hd
        simp [h1, W.get, h3, Matcher.result, Except.map, pure, Except.pure, h0]
      · simp only [h0, if_false] at hd
        simp [hd, hs, h0, Except.map, throw, throwThe, MonadExceptOf.throw]

/-! ### `When.Matches` -/

def pairConds (ps : List (List Spec × Res)) : List (Cond × Res) := ps.map (fun p => (Cond.when p.1, p.2))

theorem matchPairs_inv (sig : Sig) (d : Option Res) (ps : List (List Spec × Res)) :
    ∀ (pre : List (Cond × Res)) (w : W), Inv sig d pre w → (∀ p ∈ ps, (Cond.when p.1).WF sig) →
      ∃ w', w.matchPairs ps = .ok w' ∧ Inv sig d (pre ++ pairConds ps) w' := by
  induction ps with
  | nil => intro pre w hi _; exact ⟨w, rfl, by simpa [pairConds] using hi⟩
  | cons p rest ih =>
    intro pre w hi hc
    obtain ⟨args, r⟩ := p
    have hs := hi.sig_eq
    obtain ⟨ha, hr⟩ := hc (args, r) (by simp)
    have hnd := newDefaultMatch_ok sig args [r] ha hr
    have hi1 : Inv sig d (pre ++ [(Cond.when args, r)])
        { sig := sig, store := fun i => if i = w.next then some { kind := .dflt args, results := [r], cur := 0 } else w.store i,
          next := w.next + 1, ms := w.ms ++ [w.next], dflt := w.dflt, cur := w.cur } := by
      apply inv_append sig d pre w _ r hi
      · simp [Cond.matcher]
      · intro i hlt
        have : i ≠ w.next := Nat.ne_of_lt hlt
        simp [this]
    obtain ⟨w2, h2, hi2⟩ := ih _ _ hi1 (fun q hq => hc q (by simp [hq]))
    refine ⟨w2, ?_, by simpa [pairConds] using hi2⟩
    simp only [W.matchPairs, hs, hnd, bind, Except.bind, W.alloc]
    exact h2

/-- writing back the matcher that is already stored changes nothing the invariant talks about -/
theorem inv_set_same (sig : Sig) (d : Option Res) (pre : List (Cond × Res)) (w : W) (id : Nat) (m : Matcher)
    (hi : Inv sig d pre w) (hst : w.store id = some m) : Inv sig d pre (w.set id m) := by
  obtain ⟨hs, hms, hlt, hd⟩ := hi
  have hsame : ∀ i, (w.set id m).store i = w.store i := by
    intro i
    by_cases h : i = id
    · simp [W.set, h, hst]
    · simp [W.set, h]
  refine ⟨hs, ?_, hlt, ?_⟩
  · rw [← hms]
    apply List.map_congr_left
    intro i _
    exact hsame i
  · unfold DfltOk at *
    cases d with
    | some d =>
      obtain ⟨i, h1, h2, h3⟩ := hd
      exact ⟨i, h1, h2, by rw [hsame i]; exact h3⟩
    | none =>
      simp only at hd ⊢
      split at hd
      · rename_i h0
        obtain ⟨i, h1, h2, h3⟩ := hd
        simp only [h0, if_true]
        exact ⟨i, h1, h2, by rw [hsame i]; exact h3⟩
      · rename_i h0
        simp only [h0, if_false]
        exact hd

/-- A call on a well-formed state answers `specOut` **and leaves a well-formed state with the same conditions**
    (single-result matchers: the cursor does not move), so calls and registrations can alternate. -/
theorem invoke_inv2 (eqv) (sig : Sig) (cfg : Config) (w : W) (hi : Inv sig cfg.dflt cfg.conds w) (args : List Arg) (xs : List Val)
    (hn : normalize sig args = .ok xs) :
    match specOut eqv sig cfg xs with
    | .ok o => ∃ w', w.invoke eqv args = .ok (o, w') ∧ Inv sig cfg.dflt cfg.conds w'
    | .error e => w.invoke eqv args = .error e := by
  have hi0 := hi
  obtain ⟨hs, hms, hlt, hd⟩ := hi
  obtain ⟨o, ho, hspec⟩ := scan_spec eqv sig w args xs hs hn w.ms cfg.conds hms
  unfold W.invoke specOut
  simp only [ho, bind, Except.bind]
  cases hf : cfg.conds.find? (fun p => p.1.holdsB eqv xs) with
  | some p =>
    simp only [hf] at hspec
    obtain ⟨id, rfl, hst⟩ := hspec
    have hres : (p.1.matcher p.2).result = .ok (.ret p.2, p.1.matcher p.2) := by
      cases hc : p.1 <;> simp [Cond.matcher, Matcher.result]
    simp only [W.get, hst, hres, pure, Except.pure]
    exact ⟨_, rfl, inv_set_same sig cfg.dflt cfg.conds w id _ hi0 hst⟩
  | none =>
    simp only [hf] at hspec
    subst hspec
    unfold DfltOk at hd
    cases hdf : cfg.dflt with
    | some d =>
      simp only [hdf] at hd
      obtain ⟨id, h1, _, h3⟩ := hd
      simp only [h1, W.get, h3, Matcher.result, pure, Except.pure, List.length_singleton, Nat.le_refl, if_true,
        List.getElem?_cons_zero]
      exact ⟨_, rfl, by simpa [hdf] using inv_set_same sig cfg.dflt cfg.conds w id _ hi0 h3⟩
    | none =>
      simp only [hdf] at hd
      by_cases h0 : sig.numOut = 0
      · simp only [h0, if_true] at hd ⊢
        obtain ⟨id, h1, _, h3⟩ := hd
        simp only [h1, W.get, h3, Matcher.result, pure, Except.pure]
        exact ⟨_, rfl, by simpa [hdf] using inv_set_same sig cfg.dflt cfg.conds w id _ hi0 h3⟩
      · simp only [h0, if_false] at hd ⊢
        simp [hd, hs, h0, throw, throwThe, MonadExceptOf.throw]

/-! ### Histories -/

inductive Ev where
  | reg (c : Cond) (r : Res)                          -- `When(..)/In(..)` followed by its `Return(r)`
  | call (nilTail : Bool) (recv : Val) (xs : List Val)

def evSteps (sig : Sig) : List Ev → List Step
  | [] => []
  | .reg c r :: rest => .clause c.clause :: .clause (.ret sig.numOut r) :: evSteps sig rest
  | .call nt recv xs :: rest => .call nt recv xs :: evSteps sig rest

/-- what the property demands of a history: every registration is accepted, every call answers by the conditions
    registered **before it** -/
def expected (eqv : Val → Val → Bool) (sig : Sig) (d : Option Res) : List (Cond × Res) → List Ev → List Obs
  | _, [] => []
  | conds, .reg c r :: rest => .ok :: .ok :: expected eqv sig d (conds ++ [(c, r)]) rest
  | conds, .call _ _ xs :: rest =>
    (match specOut eqv sig { dflt := d, conds := conds } xs with
     | .ok o => Obs.out o
     | .error e => Obs.panic e) :: expected eqv sig d conds rest

def EvsWF (sig : Sig) : List Ev → Prop
  | [] => True
  | .reg c _ :: rest => c.WF sig ∧ EvsWF sig rest
  | .call _ _ _ :: rest => EvsWF sig rest

theorem run_history (eqv) (sig : Sig) (d : Option Res) (evs : List Ev) :
    ∀ (conds : List (Cond × Res)) (w : W), Inv sig d conds w → EvsWF sig evs →
      w.run eqv (evSteps sig evs) = expected eqv sig d conds evs := by
  induction evs with
  | nil => intro _ _ _ _; rfl
  | cons e rest ih =>
    intro conds w hi hwf
    cases e with
    | reg c r =>
      obtain ⟨hc, hrest⟩ := hwf
      obtain ⟨w2, h2, hi2⟩ := step_cond sig d conds w c r hi hc
      simp only [bind, Except.bind] at h2
      cases hs1 : w.step c.clause with
      | error e => simp [hs1] at h2
      | ok w1 =>
        simp only [hs1] at h2
        simp only [evSteps, W.run, W.stepObs, hs1, h2, expected, List.cons_append, List.nil_append]
        rw [ih (conds ++ [(c, r)]) w2 hi2 hrest]
    | call nt recv xs =>
      have hn := normalize_encodeG nt sig recv xs
      have hinv := invoke_inv2 eqv sig { dflt := d, conds := conds } w hi _ xs hn
      simp only [evSteps, W.run, W.stepObs, expected, hi.sig_eq]
      cases hso : specOut eqv sig { dflt := d, conds := conds } xs with
      | ok o =>
        simp only [hso] at hinv
        obtain ⟨w', hw', hi'⟩ := hinv
        simp only [hw', List.cons_append, List.nil_append]
        rw [ih conds w' hi' hwf]
      | error e =>
        simp only [hso] at hinv
        simp only [hinv, List.cons_append, List.nil_append]
        rw [ih conds w hi hwf]

end When
