import GoomVerif.Model.When
/-! Helper lemmas for C04: the declarative meaning of expressions and its agreement with the evaluator. -/
namespace When

mutual
/-- Declarative meaning of an argument expression: plain values by equality, `Any` always, `In` by membership. -/
def Spec.Sat (eqv : Val → Val → Bool) : Spec → Val → Prop
  | .any, _ => True
  | .val v, x => eqv v x = true
  | .isIn alts, x => SatAlts eqv alts [x]
/-- a tuple of expressions holds of a tuple of values: same length and position by position -/
def SatTuple (eqv : Val → Val → Bool) : List Spec → List Val → Prop
  | [], [] => True
  | e :: es, x :: xs => Spec.Sat eqv e x ∧ SatTuple eqv es xs
  | _, _ => False
/-- some alternative holds -/
def SatAlts (eqv : Val → Val → Bool) : List (List Spec) → List Val → Prop
  | [], _ => False
  | one :: rest, xs => SatTuple eqv one xs ∨ SatAlts eqv rest xs
end

theorem satTuple_length (eqv) : ∀ (es : List Spec) (xs : List Val), SatTuple eqv es xs → es.length = xs.length
  | [], [], _ => rfl
  | _ :: es, _ :: xs, h => by
    simp only [SatTuple] at h
    simp [satTuple_length eqv es xs h.2]
  | [], _ :: _, h => by simp [SatTuple] at h
  | _ :: _, [], h => by simp [SatTuple] at h

mutual
theorem eval_iff (eqv) : ∀ (e : Spec) (x : Val), Spec.eval eqv e x = true ↔ Spec.Sat eqv e x
  | .any, _ => by simp [Spec.eval, Spec.Sat]
  | .val v, x => by simp [Spec.eval, Spec.Sat]
  | .isIn alts, x => by simp only [Spec.eval, Spec.Sat]; exact evalAlts_iff eqv alts [x]
theorem evalTuple_iff (eqv) : ∀ (es : List Spec) (xs : List Val), evalTuple eqv es xs = true ↔ SatTuple eqv es xs
  | [], [] => by simp [evalTuple, SatTuple]
  | e :: es, x :: xs => by
    simp only [evalTuple, SatTuple, Bool.and_eq_true]; rw [eval_iff eqv e x, evalTuple_iff eqv es xs]
  | [], _ :: _ => by simp [evalTuple, SatTuple]
  | _ :: _, [] => by simp [evalTuple, SatTuple]
theorem evalAlts_iff (eqv) : ∀ (alts : List (List Spec)) (xs : List Val), evalAlts eqv alts xs = true ↔ SatAlts eqv alts xs
  | [], _ => by simp [evalAlts, SatAlts]
  | one :: rest, xs => by
    simp only [evalAlts, SatAlts, Bool.or_eq_true, Bool.and_eq_true]
    rw [evalTuple_iff eqv one xs, evalAlts_iff eqv rest xs]
    constructor
    · rintro (⟨_, h⟩ | h)
      · exact Or.inl h
      · exact Or.inr h
    · rintro (h | h)
      · exact Or.inl ⟨by simp [satTuple_length eqv one xs h], h⟩
      · exact Or.inr h
end

end When
