import GoomVerif.Model.ConvertNow
/-! Helper lemmas for Props/C09.lean (core Lean only). -/
namespace C09L
open Convert

/-! ## today's kind lists (`Convert.K` is rebuilt from arg/value.go on every run; these break when the source changes) -/

/-- the kinds the property statement lists -/
def Nilable (k : Kind) : Prop := k = .ptr ∨ k = .iface ∨ k = .slice ∨ k = .map ∨ k = .chan ∨ k = .func

theorem K_nil_has (k : Kind) (h : Nilable k) : K.nil.contains k = true := by
  rcases h with h | h | h | h | h | h <;> subst h <;> decide

theorem K_cast_spec (k : Kind) : K.cast.contains k = true ↔ (k = .strct ∨ k = .ptr) := by
  cases k <;> decide

theorem K_v2i_spec (k : Kind) : K.v2i.contains k = true ↔ (k = .iface ∨ k = .ptr) := by
  cases k <;> decide

instance (k : Kind) : Decidable (Nilable k) := by unfold Nilable; infer_instance

theorem K_nil_mem (k : Kind) (h : Nilable k) : k ∈ K.nil := by
  have := K_nil_has k h; simpa using this

theorem K_cast_mem (k : Kind) : k ∈ K.cast ↔ (k = .strct ∨ k = .ptr) := by
  have := K_cast_spec k; simpa using this

theorem K_v2i_mem (k : Kind) : k ∈ K.v2i ↔ (k = .iface ∨ k = .ptr) := by
  have := K_v2i_spec k; simpa using this

theorem K_castNilSafe : K.castNilSafe = true := by decide

theorem K_names_understood : K_complete = true := by decide

/-! ## facts about types -/

theorem nilable_size_pos : ∀ (t : Ty), Nilable t.kind → t.size ≠ 0
  | .named _ _ _ u, h => by
      simp only [Ty.kind, Ty.size] at *
      exact nilable_size_pos u h
  | .prim p, h => by cases p <;> simp [Nilable, Ty.kind, Prim.kind] at h
  | .arr _ _, h => by simp [Nilable, Ty.kind] at h
  | .strct _ _ _, h => by simp [Nilable, Ty.kind] at h
  | .slice _, _ => by simp [Ty.size]
  | .map _ _, _ => by simp [Ty.size]
  | .ptr _, _ => by simp [Ty.size]
  | .chan _ _, _ => by simp [Ty.size]
  | .func _, _ => by simp [Ty.size]
  | .iface _, _ => by simp [Ty.size]

theorem iface_not_direct : ∀ (t : Ty), t.kind = .iface → t.isDirect = false
  | .named _ _ _ u, h => by
      simp only [Ty.kind, Ty.isDirect] at *
      exact iface_not_direct u h
  | .prim p, h => by cases p <;> simp [Ty.kind, Prim.kind] at h
  | .arr _ _, h => by simp [Ty.kind] at h
  | .strct _ _ _, h => by simp [Ty.kind] at h
  | .slice _, h => by simp [Ty.kind] at h
  | .map _ _, h => by simp [Ty.kind] at h
  | .ptr _, h => by simp [Ty.kind] at h
  | .chan _ _, h => by simp [Ty.kind] at h
  | .func _, h => by simp [Ty.kind] at h
  | .iface _, _ => by simp [Ty.isDirect]

theorem zeroVal_iface : ∀ (t : Ty), t.kind = .iface → zeroVal t = .ifaceNil
  | .named _ _ _ u, h => by
      simp only [Ty.kind, zeroVal] at *
      exact zeroVal_iface u h
  | .prim p, h => by cases p <;> simp [Ty.kind, Prim.kind] at h
  | .arr _ _, h => by simp [Ty.kind] at h
  | .strct _ _ _, h => by simp [Ty.kind] at h
  | .slice _, h => by simp [Ty.kind] at h
  | .map _ _, h => by simp [Ty.kind] at h
  | .ptr _, h => by simp [Ty.kind] at h
  | .chan _ _, h => by simp [Ty.kind] at h
  | .func _, h => by simp [Ty.kind] at h
  | .iface _, _ => by simp [zeroVal]

/-- for the five pointer-like kinds the zero value is the nil word -/
theorem zeroVal_ptrlike : ∀ (t : Ty), (t.kind = .ptr ∨ t.kind = .slice ∨ t.kind = .map ∨ t.kind = .chan ∨ t.kind = .func) →
    zeroVal t = .nilp
  | .named _ _ _ u, h => by
      simp only [Ty.kind, zeroVal] at *
      exact zeroVal_ptrlike u h
  | .prim p, h => by cases p <;> simp [Ty.kind, Prim.kind] at h
  | .arr _ _, h => by simp [Ty.kind] at h
  | .strct _ _ _, h => by simp [Ty.kind] at h
  | .iface _, h => by simp [Ty.kind] at h
  | .slice _, _ => by simp [zeroVal]
  | .map _ _, _ => by simp [zeroVal]
  | .ptr _, _ => by simp [zeroVal]
  | .chan _ _, _ => by simp [zeroVal]
  | .func _, _ => by simp [zeroVal]

mutual
theorem zeroVal_isZero : ∀ t : Ty, isZeroVal (zeroVal t) = true
  | .prim p => by cases p <;> simp [zeroVal, Prim.zero, Prim.kind, isZeroVal]
  | .arr n e => by
      simp only [zeroVal, isZeroVal]
      have h := zeroVal_isZero e
      induction n with
      | zero => simp [Vals.repl, isZeroVals]
      | succ k ih => simp [Vals.repl, isZeroVals, h, ih]
  | .strct _ _ fs => by simp only [zeroVal, isZeroVal]; exact zeroVals_isZero fs
  | .iface _ => by simp [zeroVal, isZeroVal]
  | .named _ _ _ u => by simp only [zeroVal]; exact zeroVal_isZero u
  | .slice _ => by simp [zeroVal, isZeroVal]
  | .map _ _ => by simp [zeroVal, isZeroVal]
  | .ptr _ => by simp [zeroVal, isZeroVal]
  | .chan _ _ => by simp [zeroVal, isZeroVal]
  | .func _ => by simp [zeroVal, isZeroVal]
theorem zeroVals_isZero : ∀ fs : Tys, isZeroVals (zeroVals fs) = true
  | .nil => by simp [zeroVals, isZeroVals]
  | .cons _ t r => by simp [zeroVals, isZeroVals, zeroVal_isZero t, zeroVals_isZero r]
end

theorem directlyAssignable_self (t : Ty) : directlyAssignable t t = true := by simp [directlyAssignable]

theorem implements_kind (T V : Ty) (h : implements T V = true) : T.kind = .iface := by
  simp [implements] at h; exact h.1

theorem zeroRV_wellFlagged (t : Ty) : (zeroRV t).wellFlagged = true := by simp [zeroRV, RV.wellFlagged]

/-! ## layout: erasing every name -/

mutual
/-- the type with every type name and field name erased: what is left is exactly the memory layout -/
def erase : Ty → Ty
  | .prim p => .prim p
  | .arr n e => .arr n (erase e)
  | .slice e => .slice (erase e)
  | .map k v => .map (erase k) (erase v)
  | .ptr e => .ptr (erase e)
  | .chan d e => .chan d (erase e)
  | .func s => .func s
  | .strct _ _ fs => .strct [] [] (erases fs)
  | .iface ms => .iface ms
  | .named _ _ _ u => erase u
def erases : Tys → Tys
  | .nil => .nil
  | .cons _ t r => .cons "" (erase t) (erases r)
end

mutual
theorem erase_kind : ∀ t : Ty, (erase t).kind = t.kind
  | .prim _ => by simp [erase]
  | .arr _ _ => by simp [erase, Ty.kind]
  | .slice _ => by simp [erase, Ty.kind]
  | .map _ _ => by simp [erase, Ty.kind]
  | .ptr _ => by simp [erase, Ty.kind]
  | .chan _ _ => by simp [erase, Ty.kind]
  | .func _ => by simp [erase]
  | .strct _ _ _ => by simp [erase, Ty.kind]
  | .iface _ => by simp [erase]
  | .named _ _ _ u => by simp only [erase, Ty.kind]; exact erase_kind u
end

mutual
theorem erase_align : ∀ t : Ty, (erase t).align = t.align
  | .prim _ => by simp [erase]
  | .arr _ e => by simp only [erase, Ty.align]; exact erase_align e
  | .slice _ => by simp [erase, Ty.align]
  | .map _ _ => by simp [erase, Ty.align]
  | .ptr _ => by simp [erase, Ty.align]
  | .chan _ _ => by simp [erase, Ty.align]
  | .func _ => by simp [erase]
  | .strct _ _ fs => by simp only [erase, Ty.align]; exact erases_maxAlign fs
  | .iface _ => by simp [erase]
  | .named _ _ _ u => by simp only [erase, Ty.align]; exact erase_align u
theorem erases_maxAlign : ∀ fs : Tys, (erases fs).maxAlign = fs.maxAlign
  | .nil => by simp [erases]
  | .cons _ t r => by simp only [erases, Tys.maxAlign, erase_align t, erases_maxAlign r]
end

mutual
theorem erase_size : ∀ t : Ty, (erase t).size = t.size
  | .prim _ => by simp [erase]
  | .arr _ e => by simp only [erase, Ty.size, erase_size e]
  | .slice _ => by simp [erase, Ty.size]
  | .map _ _ => by simp [erase, Ty.size]
  | .ptr _ => by simp [erase, Ty.size]
  | .chan _ _ => by simp [erase, Ty.size]
  | .func _ => by simp [erase]
  | .strct _ _ fs => by simp only [erase, Ty.size, erases_maxAlign fs, erases_endOff fs]
  | .iface _ => by simp [erase]
  | .named _ _ _ u => by simp only [erase, Ty.size]; exact erase_size u
theorem erases_endOff : ∀ (fs : Tys) (off : Nat), (erases fs).endOff off = fs.endOff off
  | .nil, off => by simp [erases]
  | .cons _ t .nil, off => by simp only [erases, Tys.endOff, erase_size t, erase_align t]
  | .cons _ t (.cons n2 t2 r), off => by
      have ih := erases_endOff (.cons n2 t2 r) (roundUp off t.align + t.size)
      simp only [erases, Tys.endOff, erase_size t, erase_align t] at ih ⊢
      exact ih
end

mutual
theorem erase_isDirect : ∀ t : Ty, (erase t).isDirect = t.isDirect
  | .prim _ => by simp [erase]
  | .arr _ e => by simp only [erase, Ty.isDirect, erase_isDirect e]
  | .slice _ => by simp [erase, Ty.isDirect]
  | .map _ _ => by simp [erase, Ty.isDirect]
  | .ptr _ => by simp [erase, Ty.isDirect]
  | .chan _ _ => by simp [erase, Ty.isDirect]
  | .func _ => by simp [erase]
  | .strct _ _ fs => by simp only [erase, Ty.isDirect]; exact erases_isDirect1 fs
  | .iface _ => by simp [erase]
  | .named _ _ _ u => by simp only [erase, Ty.isDirect]; exact erase_isDirect u
theorem erases_isDirect1 : ∀ fs : Tys, (erases fs).isDirect1 = fs.isDirect1
  | .nil => by simp [erases]
  | .cons _ t .nil => by simp only [erases, Tys.isDirect1, erase_isDirect t]
  | .cons _ _ (.cons _ _ _) => by simp [erases, Tys.isDirect1]
end

/-! ## evaluation lemmas -/

theorem convAt_single (r : Boxed) (out : Ty) : I2V.convAt K [out] false 0 r = toValue K r out := by
  simp [I2V.convAt, I2V.typeAt]

theorem I2V_single (r : Boxed) (out : Ty) :
    I2V K [r] [out] false = (match toValue K r out with | .ok v => .ok [v] | .error e => .error e) := by
  simp only [I2V, I2V.go, convAt_single]
  cases h : toValue K r out <;> simp

theorem deliver_single (v : RV) (out : Ty) :
    deliver [v] [out] = (deliver1 v out).map (fun a => [a]) := by
  simp only [deliver]
  cases deliver1 v out <;> simp

theorem returnE2E_single (r : Boxed) (out : Ty) :
    returnE2E K [r] [out] =
      (match toValue K r out with
       | .error e => .cfgPanic e
       | .ok v => if v.wellFlagged = false then .callUnmodelled
                  else match deliver1 v out with
                    | none => .callPanic
                    | some a => .got [a]) := by
  simp only [returnE2E, I2V_single]
  cases h : toValue K r out with
  | error e => simp
  | ok v =>
    simp only [List.length_cons, List.length_nil, Nat.lt_irrefl, if_false, List.any_cons, List.any_nil, Bool.or_false,
      deliver_single]
    cases hw : v.wellFlagged <;> simp
    cases deliver1 v out <;> simp

/-- `deliver` position by position -/
theorem deliver_pointwise : ∀ (vs : List RV) (outs : List Ty) (rs : List RV), deliver vs outs = some rs →
    rs.length = outs.length ∧ vs.length = outs.length ∧
    ∀ j, j < outs.length → ∃ v o a, vs[j]? = some v ∧ outs[j]? = some o ∧ rs[j]? = some a ∧ deliver1 v o = some a := by
  intro vs
  induction vs with
  | nil =>
    intro outs rs h
    cases outs with
    | nil => simp [deliver] at h; subst h; simp
    | cons o os => simp [deliver] at h
  | cons v vs ih =>
    intro outs rs h
    cases outs with
    | nil => simp [deliver] at h
    | cons o os =>
      simp only [deliver] at h
      cases h1 : deliver1 v o with
      | none => simp [h1] at h
      | some a =>
        cases h2 : deliver vs os with
        | none => simp [h1, h2] at h
        | some r =>
          simp [h1, h2] at h
          subst h
          obtain ⟨i1, i2, i3⟩ := ih os r h2
          refine ⟨by simp [i1], by simp [i2], ?_⟩
          intro j hj
          cases j with
          | zero => exact ⟨v, o, a, by simp, by simp, by simp, h1⟩
          | succ k =>
            obtain ⟨v', o', a', g1, g2, g3, g4⟩ := i3 k (by simp at hj; omega)
            exact ⟨v', o', a', by simpa using g1, by simpa using g2, by simpa using g3, g4⟩

/-! ## I2V over lists -/

theorem go_length (K : KindLists) (types : List Ty) (b : Bool) : ∀ (objs : List Boxed) (i : Nat) (vs : List RV),
    I2V.go K types b i objs = .ok vs → vs.length = objs.length := by
  intro objs
  induction objs with
  | nil => intro i vs h; simp [I2V.go] at h; subst h; rfl
  | cons a rest ih =>
    intro i vs h
    simp only [I2V.go] at h
    split at h
    · simp at h
    · split at h
      · simp at h
      · rename_i ws hws
        simp only [Except.ok.injEq] at h
        subst h
        simp [ih _ _ hws]

/-- success: every position converted, in order -/
theorem go_ok_pointwise (K : KindLists) (types : List Ty) (b : Bool) : ∀ (objs : List Boxed) (i : Nat) (vs : List RV),
    I2V.go K types b i objs = .ok vs →
    ∀ j, j < objs.length → ∃ a v, objs[j]? = some a ∧ vs[j]? = some v ∧ I2V.convAt K types b (i + j) a = .ok v := by
  intro objs
  induction objs with
  | nil => intro i vs _ j hj; simp at hj
  | cons a rest ih =>
    intro i vs h j hj
    simp only [I2V.go] at h
    split at h
    · simp at h
    · rename_i w hw
      split at h
      · simp at h
      · rename_i ws hws
        simp only [Except.ok.injEq] at h
        subst h
        cases j with
        | zero => exact ⟨a, w, by simp, by simp, by simpa using hw⟩
        | succ k =>
          have hk : k < rest.length := by simp at hj; omega
          obtain ⟨a', v, h2, h3, h4⟩ := ih (i + 1) ws hws k hk
          refine ⟨a', v, by simpa using h2, by simpa using h3, ?_⟩
          have : i + (k + 1) = i + 1 + k := by omega
          rw [this]; exact h4

/-- failure: the error is that of the first failing position -/
theorem go_error_first (K : KindLists) (types : List Ty) (b : Bool) : ∀ (objs : List Boxed) (i : Nat) (e : Fail),
    I2V.go K types b i objs = .error e →
    ∃ j a, objs[j]? = some a ∧ I2V.convAt K types b (i + j) a = .error e ∧
      ∀ k, k < j → ∃ c v, objs[k]? = some c ∧ I2V.convAt K types b (i + k) c = .ok v := by
  intro objs
  induction objs with
  | nil => intro i e h; simp [I2V.go] at h
  | cons a rest ih =>
    intro i e h
    simp only [I2V.go] at h
    split at h
    · rename_i e' he'
      simp only [Except.error.injEq] at h
      subst h
      exact ⟨0, a, by simp, by simpa using he', by intro k hk; omega⟩
    · rename_i w hw
      split at h
      · rename_i e' he'
        simp only [Except.error.injEq] at h
        subst h
        obtain ⟨j, a', h1, h2, h3⟩ := ih (i + 1) _ he'
        refine ⟨j + 1, a', by simpa using h1, ?_, ?_⟩
        · have : i + (j + 1) = i + 1 + j := by omega
          rw [this]; exact h2
        · intro k hk
          cases k with
          | zero => exact ⟨a, w, by simp, by simpa using hw⟩
          | succ k' =>
            obtain ⟨c, v, hc1, hc2⟩ := h3 k' (by omega)
            refine ⟨c, v, by simpa using hc1, ?_⟩
            have : i + (k' + 1) = i + 1 + k' := by omega
            rw [this]; exact hc2
      · simp at h

/-- conversely, a first failing position makes the whole conversion fail with its error -/
theorem go_error_of_first (K : KindLists) (types : List Ty) (b : Bool) : ∀ (objs : List Boxed) (i : Nat) (e : Fail) (j : Nat) (a : Boxed),
    objs[j]? = some a → I2V.convAt K types b (i + j) a = .error e →
    (∀ k, k < j → ∃ c v, objs[k]? = some c ∧ I2V.convAt K types b (i + k) c = .ok v) →
    I2V.go K types b i objs = .error e := by
  intro objs
  induction objs with
  | nil => intro i e j a h; simp at h
  | cons a0 rest ih =>
    intro i e j a h1 h2 h3
    cases j with
    | zero =>
      simp only [List.getElem?_cons_zero, Option.some.injEq] at h1
      subst h1
      simp only [Nat.add_zero] at h2
      simp [I2V.go, h2]
    | succ j' =>
      obtain ⟨c, v, hc1, hc2⟩ := h3 0 (by omega)
      simp only [List.getElem?_cons_zero, Option.some.injEq] at hc1
      subst hc1
      simp only [Nat.add_zero] at hc2
      have hrest : I2V.go K types b (i + 1) rest = .error e := by
        apply ih (i + 1) e j' a (by simpa using h1)
        · have : i + 1 + j' = i + (j' + 1) := by omega
          rw [this]; exact h2
        · intro k hk
          obtain ⟨c', v', hc1', hc2'⟩ := h3 (k + 1) (by omega)
          refine ⟨c', v', by simpa using hc1', ?_⟩
          have : i + 1 + k = i + (k + 1) := by omega
          rw [this]; exact hc2'
      simp [I2V.go, hc2, hrest]

/-- the type used at position j of a non-variadic list of matching length is `types[j]` -/
theorem typeAt_nonvariadic (types : List Ty) (j : Nat) (hj : j < types.length) :
    I2V.typeAt types false j = some (.ok types[j]) := by
  simp only [I2V.typeAt]
  split
  · simp [List.getElem?_eq_getElem hj]
  · have : types.length - 1 = j := by omega
    simp [List.getLast?_eq_getElem?, this, List.getElem?_eq_getElem hj]

/-- variadic: the fixed parameters convert at their own types … -/
theorem typeAt_variadic_fixed (pre : List Ty) (last : Ty) (j : Nat) (hj : j < pre.length) :
    I2V.typeAt (pre ++ [last]) true j = some (.ok pre[j]) := by
  have h1 : j + 1 < (pre ++ [last]).length := by simp; omega
  simp only [I2V.typeAt]
  rw [if_pos h1]
  simp [List.getElem?_append_left hj, List.getElem?_eq_getElem hj]

/-- … and every further value at the element type of the last (slice) type -/
theorem typeAt_variadic_tail (pre : List Ty) (last : Ty) (j : Nat) (hj : pre.length ≤ j) :
    I2V.typeAt (pre ++ [last]) true j = some last.elem? := by
  have h1 : ¬ j + 1 < (pre ++ [last]).length := by simp; omega
  simp only [I2V.typeAt]
  rw [if_neg h1]
  simp

end C09L
