import GoomVerif.Lemmas.C06L
import GoomVerif.Model.MethodH
import GoomVerif.Model.MethodG
import GoomVerif.Model.InnerFn
/-! Lemmas about the handle-level model `Model/MethodH.lean` (core Lean only). -/
namespace C06HL
open Method (Str Entry Res Ty EKey symIndex getOrCreate structKey bracket objName resolveSM exportMethodName exportStructName)
open MethodH C06L

theorem aget_cons {K V : Type} [DecidableEq K] (k k' : K) (v : V) (r : List (K × V)) :
    aget ((k, v) :: r) k' = if k = k' then some v else aget r k' := rfl

/-- "named" invariant: every patched entry is the table entry of a name in `N`, every mocker targets a name in `N` -/
def NI (syms : List Str) (N : List Str) (patched : List (Nat × Impl)) (mockers : List (Nat × Mocker)) : Prop :=
  (∀ p ∈ patched, ∃ n ∈ N, symIndex syms n = some p.1) ∧ (∀ id mk, aget mockers id = some mk → mk.target ∈ N)

def HCacheInv (s : HState) : Prop :=
  (∀ kv ∈ s.structs, kv.2 = kv.1) ∧ (∀ kv ∈ s.exports, kv.2 = (kv.1.1, bracket kv.1.2))

theorem NI_set {syms N p ms} (h : NI syms N p ms) (id : Nat) (mk : Mocker) (ht : mk.target ∈ N) :
    NI syms N p ((id, mk) :: ms) := by
  refine ⟨h.1, ?_⟩
  intro id' mk' hg
  rw [aget_cons] at hg
  split at hg
  · cases hg; exact ht
  · exact h.2 id' mk' hg

theorem NI_filter {syms N p ms} (h : NI syms N p ms) (f : Nat × Impl → Bool) : NI syms N (p.filter f) ms :=
  ⟨fun q hq => h.1 q (List.mem_filter.1 hq).1, h.2⟩

theorem NI_patch {syms N p ms} (h : NI syms N p ms) (i : Nat) (impl : Impl) (n : Str) (hn : n ∈ N)
    (hi : symIndex syms n = some i) : NI syms N ((i, impl) :: p) ms := by
  refine ⟨?_, h.2⟩
  intro q hq
  cases hq with
  | head => exact ⟨n, hn, hi⟩
  | tail _ hq => exact h.1 q hq

/-! ### primitives -/

theorem applyMk_NI {syms N} (s : HState) (id : Nat) (impl : Impl) (fd : Bool) (h : NI syms N s.patched s.mockers) :
    NI syms N (applyMk syms s id impl fd).1.patched (applyMk syms s id impl fd).1.mockers := by
  unfold applyMk
  split
  · exact h
  · rename_i mk hg
    have ht := h.2 id mk hg
    split
    · exact h
    · rename_i i hi
      exact NI_set (NI_patch h i impl mk.target ht hi) id _ ht

theorem applyMk_frame (syms : List Str) (s : HState) (id : Nat) (impl : Impl) (fd : Bool) :
    (applyMk syms s id impl fd).1.structs = s.structs ∧ (applyMk syms s id impl fd).1.exports = s.exports ∧
    (applyMk syms s id impl fd).1.mcache = s.mcache ∧ (applyMk syms s id impl fd).1.nextId = s.nextId ∧
    (applyMk syms s id impl fd).1.handles = s.handles := by
  unfold applyMk
  split
  · simp
  · split <;> simp

theorem cancelMk_NI {syms N} (s : HState) (id : Nat) (h : NI syms N s.patched s.mockers) :
    NI syms N (cancelMk s id).patched (cancelMk s id).mockers := by
  unfold cancelMk
  split
  · exact h
  · rename_i mk hg
    have ht := h.2 id mk hg
    simp only []
    split
    · exact NI_set (NI_filter h _) id _ ht
    · exact NI_set h id _ ht

theorem cancelMk_frame (s : HState) (id : Nat) :
    (cancelMk s id).structs = s.structs ∧ (cancelMk s id).exports = s.exports := by
  unfold cancelMk
  split <;> simp

theorem foldl_cancel_NI {syms N} : ∀ (ids : List Nat) (s : HState), NI syms N s.patched s.mockers →
    NI syms N (ids.foldl cancelMk s).patched (ids.foldl cancelMk s).mockers := by
  intro ids
  induction ids with
  | nil => intro s h; exact h
  | cons id rest ih => intro s h; exact ih (cancelMk s id) (cancelMk_NI s id h)

theorem foldl_cancel_frame : ∀ (ids : List Nat) (s : HState),
    (ids.foldl cancelMk s).structs = s.structs ∧ (ids.foldl cancelMk s).exports = s.exports := by
  intro ids
  induction ids with
  | nil => intro s; exact ⟨rfl, rfl⟩
  | cons id rest ih =>
    intro s
    have a := ih (cancelMk s id)
    have b := cancelMk_frame s id
    exact ⟨a.1.trans b.1, a.2.trans b.2⟩

theorem cached_NI {syms N} (s : HState) (key : CKey) (bn : Bool) (target : Str) (ht : target ∈ N)
    (h : NI syms N s.patched s.mockers) :
    NI syms N (cached s key bn target).1.patched (cached s key bn target).1.mockers := by
  have hf : NI syms N (freshMocker s key bn target).1.patched (freshMocker s key bn target).1.mockers :=
    NI_set h _ _ ht
  unfold cached
  split
  · split
    · split
      · exact hf
      · exact h
    · exact hf
  · exact hf

theorem cached_frame (s : HState) (key : CKey) (bn : Bool) (target : Str) :
    (cached s key bn target).1.structs = s.structs ∧ (cached s key bn target).1.exports = s.exports ∧
    (cached s key bn target).1.patched = s.patched := by
  unfold cached
  split
  · split
    · split <;> simp [freshMocker]
    · simp [freshMocker]
  · simp [freshMocker]

/-- a lookup keeps both invariants, provided the name it names (from its own text) is in `N` -/
theorem lookup_inv {syms N} (entries : List Entry) (s : HState) (l : Look)
    (hN : ∀ n, lookName entries l = some n → n ∈ N)
    (hC : HCacheInv s) (h : NI syms N s.patched s.mockers) :
    HCacheInv (lookup entries s l).1 ∧ NI syms N (lookup entries s l).1.patched (lookup entries s l).1.mockers := by
  cases l with
  | structMethod t m =>
    have hc := getOrCreate_inv (fun (k : Ty) (v : Ty) => v = k) s.structs (structKey t) t hC.1 rfl
    simp only [lookup]
    rw [hc.2]
    simp only [structKey]
    have hN' := hN
    simp only [lookName] at hN'
    split
    · exact ⟨⟨hc.1, hC.2⟩, h⟩
    · rename_i name hr
      simp only [hr] at hN'
      have hn := hN' name rfl
      refine ⟨⟨?_, ?_⟩, ?_⟩
      · rw [(cached_frame _ _ _ _).1]; exact hc.1
      · rw [(cached_frame _ _ _ _).2.1]; exact hC.2
      · exact cached_NI _ _ _ _ hn h
  | structExport t m =>
    have hc := getOrCreate_inv (fun (k : Ty) (v : Ty) => v = k) s.structs (structKey t) t hC.1 rfl
    simp only [lookup]
    rw [hc.2]
    simp only [structKey]
    have hn := hN (exportMethodName t m) rfl
    refine ⟨⟨?_, ?_⟩, ?_⟩
    · rw [(cached_frame _ _ _ _).1]; exact hc.1
    · rw [(cached_frame _ _ _ _).2.1]; exact hC.2
    · exact cached_NI _ _ _ _ hn h
  | exportStruct pkg raw m =>
    have hc := getOrCreate_inv (fun (k : EKey) (v : Str × Str) => v = (k.1, bracket k.2)) s.exports (pkg, raw)
      (pkg, bracket raw) hC.2 rfl
    simp only [lookup]
    rw [hc.2]
    have hn := hN (exportStructName pkg raw m) rfl
    refine ⟨⟨?_, ?_⟩, ?_⟩
    · rw [(cached_frame _ _ _ _).1]; exact hC.1
    · rw [(cached_frame _ _ _ _).2.1]; exact hc.1
    · exact cached_NI _ _ _ _ (by simpa [exportStructName] using hn) h
  | exportFunc pkg fn =>
    simp only [lookup]
    have hn := hN _ rfl
    refine ⟨⟨?_, ?_⟩, ?_⟩
    · rw [(cached_frame _ _ _ _).1]; exact hC.1
    · rw [(cached_frame _ _ _ _).2.1]; exact hC.2
    · exact cached_NI _ _ _ _ hn h

/-! ### one step keeps the invariants -/

/-- both invariants together, on a state -/
def SInv (syms N : List Str) (s : HState) : Prop := HCacheInv s ∧ NI syms N s.patched s.mockers

theorem SInv_applyMk {syms N} (s : HState) (id : Nat) (impl : Impl) (fd : Bool) (h : SInv syms N s) :
    SInv syms N (applyMk syms s id impl fd).1 := by
  have f := applyMk_frame syms s id impl fd
  exact ⟨⟨by rw [f.1]; exact h.1.1, by rw [f.2.1]; exact h.1.2⟩, applyMk_NI s id impl fd h.2⟩

theorem SInv_setMk {syms N} (s : HState) (id : Nat) (mk : Mocker) (ht : mk.target ∈ N) (h : SInv syms N s) :
    SInv syms N (setMk s id mk) :=
  ⟨h.1, NI_set h.2 id mk ht⟩

theorem SInv_setMk_same {syms N} (s : HState) (id : Nat) (mk mk' : Mocker) (hg : aget s.mockers id = some mk)
    (ht : mk'.target = mk.target) (h : SInv syms N s) : SInv syms N (setMk s id mk') :=
  SInv_setMk s id mk' (ht ▸ h.2.2 id mk hg) h

theorem SInv_clearWhen {syms N} (s : HState) (id : Nat) (h : SInv syms N s) : SInv syms N (clearWhen s id) := by
  unfold clearWhen
  split
  · rename_i mk hg; exact SInv_setMk_same s id mk _ hg rfl h
  · exact h

theorem SInv_applyCb {syms N} (s : HState) (id k : Nat) (h : SInv syms N s) : SInv syms N (applyCb syms s id k).1 := by
  unfold applyCb
  split
  · exact h
  · simp only []
    split
    · exact SInv_clearWhen _ _ (SInv_applyMk s id _ _ h)
    · exact SInv_applyMk s id _ _ h

theorem SInv_cancelMk {syms N} (s : HState) (id : Nat) (h : SInv syms N s) : SInv syms N (cancelMk s id) := by
  have f := cancelMk_frame s id
  exact ⟨⟨by rw [f.1]; exact h.1.1, by rw [f.2]; exact h.1.2⟩, cancelMk_NI s id h.2⟩

theorem SInv_foldl_cancel {syms N} (ids : List Nat) (s : HState) (h : SInv syms N s) :
    SInv syms N (ids.foldl cancelMk s) := by
  have f := foldl_cancel_frame ids s
  exact ⟨⟨by rw [f.1]; exact h.1.1, by rw [f.2]; exact h.1.2⟩, foldl_cancel_NI ids s h.2⟩

theorem SInv_withMk {syms N} (s : HState) (h : Nat) (f : Nat → Mocker → HState × Res) (hs : SInv syms N s)
    (hf : ∀ id mk, aget s.mockers id = some mk → SInv syms N (f id mk).1) : SInv syms N (withMk s h f).1 := by
  unfold withMk
  split
  · exact hs
  · split
    · exact hs
    · rename_i id _ mk hg; exact hf _ _ hg

theorem SInv_armStub {syms N} (s : HState) (id : Nat) (mk : Mocker) (w : WhenS) (hg : aget s.mockers id = some mk)
    (h : SInv syms N s) : SInv syms N (armStub syms s id mk w).1 := by
  unfold armStub
  exact SInv_applyMk _ _ _ _ (SInv_setMk_same s id mk _ hg rfl h)

/-- every step of the handle-level model keeps the invariants, provided the name its lookup names is in `N` -/
theorem step_inv {syms N} (entries : List Entry) (s : HState) (k : Nat) (st : Step)
    (hN : ∀ n, stepName entries st = some n → n ∈ N) (h : SInv syms N s) :
    SInv syms N (step syms entries s k st).1 := by
  cases st with
  | direct hh d =>
    simp only [step]
    simp only [stepName] at hN
    split
    · exact h
    · rename_i name hd
      simp only [hd] at hN
      exact ⟨h.1, NI_set h.2 _ _ (hN name rfl)⟩
  | redirect hh d =>
    simp only [step]
    simp only [stepName] at hN
    refine SInv_withMk s hh _ h (fun id mk _ => ?_)
    split
    · exact h
    · rename_i name hd
      simp only [hd] at hN
      exact SInv_setMk s id _ (hN name rfl) h
  | shot l =>
    have hl := lookup_inv (syms := syms) entries s l (fun n hn => hN n hn) h.1 h.2
    simp only [step]
    split
    · exact hl
    · exact SInv_applyCb _ _ _ hl
  | look hh l =>
    have hl := lookup_inv (syms := syms) entries s l (fun n hn => hN n hn) h.1 h.2
    simp only [step]
    split
    · exact hl
    · exact hl
  | apply hh =>
    simp only [step]
    exact SInv_withMk s hh _ h (fun id mk _ => SInv_applyCb s id k h)
  | ret hh v =>
    simp only [step]
    refine SInv_withMk s hh _ h (fun id mk hg => ?_)
    split
    · exact h
    · split
      · exact SInv_setMk_same s id mk _ hg rfl h
      · exact SInv_armStub s id mk _ hg h
  | rets hh v1 v2 =>
    simp only [step]
    refine SInv_withMk s hh _ h (fun id mk hg => ?_)
    split
    · exact h
    · split
      · exact SInv_setMk_same s id mk _ hg rfl h
      · exact SInv_armStub s id mk _ hg h
  | whenRet hh std v =>
    simp only [step]
    refine SInv_withMk s hh _ h (fun id mk hg => ?_)
    split
    · exact h
    · split
      · exact SInv_setMk_same s id mk _ hg rfl h
      · exact SInv_armStub s id mk _ hg h
  | retsWhen hh v1 v2 std v =>
    simp only [step]
    refine SInv_withMk s hh _ h (fun id mk hg => ?_)
    split
    · exact h
    · split
      · exact SInv_setMk_same s id mk _ hg rfl h
      · exact SInv_armStub s id mk _ hg h
  | origin hh =>
    simp only [step]
    exact SInv_withMk s hh _ h (fun _ _ _ => h)
  | cancel hh =>
    simp only [step]
    exact SInv_withMk s hh _ h (fun id mk _ => SInv_cancelMk s id h)
  | reset =>
    simp only [step]
    exact SInv_foldl_cancel _ s h

theorem run_inv {syms N} (entries : List Entry) : ∀ (steps : List Step) (s : HState) (k : Nat),
    (∀ st ∈ steps, ∀ n, stepName entries st = some n → n ∈ N) → SInv syms N s →
    SInv syms N (run syms entries s k steps).1 := by
  intro steps
  induction steps with
  | nil => intro s k _ h; exact h
  | cons st rest ih =>
    intro s k hN h
    simp only [run]
    exact ih _ _ (fun st' hs => hN st' (by simp [hs])) (step_inv entries s k st (hN st (by simp)) h)

/-- under the named invariant, code whose symbol is not in `N` is unpatched -/
theorem behavOf_none_of_NI {syms N} (e : Entry) (he : e.callSym ∉ N) :
    ∀ (p : List (Nat × Impl)) (ms : List (Nat × Mocker)), NI syms N p ms → behavOf syms p e = none := by
  intro p
  induction p with
  | nil => intro _ _; rfl
  | cons q rest ih =>
    intro ms h
    obtain ⟨j, impl⟩ := q
    simp only [behavOf]
    obtain ⟨n, hn, hi⟩ := h.1 (j, impl) (by simp)
    have hg := symIndex_get syms n j hi
    have hne : ¬ (syms[j]? = some e.callSym) := by
      intro hc
      rw [hg] at hc
      exact he ((Option.some.inj hc) ▸ hn)
    simp only [hne, if_false]
    exact ih ms ⟨fun q hq => h.1 q (by simp [hq]), h.2⟩

/-! ### the handle-level model refines the patch-level model on one-shot histories -/

/-- method-cache soundness: a cached id is allocated and its mocker patches the symbol the slot stands for -/
def MI (entries : List Entry) (mcache : List (CKey × Nat)) (nextId : Nat) (mockers : List (Nat × Mocker)) : Prop :=
  ∀ key id, aget mcache key = some id → id < nextId ∧ ∃ mk, aget mockers id = some mk ∧ keyName entries key = some mk.target

theorem MI_setMk {entries mc n ms} (id : Nat) (mk mk' : Mocker) (hg : aget ms id = some mk) (ht : mk'.target = mk.target)
    (h : MI entries mc n ms) : MI entries mc n ((id, mk') :: ms) := by
  intro key id' hk
  obtain ⟨hlt, mk0, hg0, hn⟩ := h key id' hk
  refine ⟨hlt, ?_⟩
  rw [aget_cons]
  by_cases hid : id = id'
  · subst hid
    rw [hg] at hg0
    cases hg0
    exact ⟨mk', by simp, by rw [ht]; exact hn⟩
  · exact ⟨mk0, by simp [hid, hg0], hn⟩

theorem cached_spec (entries : List Entry) (s : HState) (key : CKey) (bn : Bool) (target : Str)
    (hk : keyName entries key = some target) (h : MI entries s.mcache s.nextId s.mockers) :
    (∃ mk, aget (cached s key bn target).1.mockers (cached s key bn target).2 = some mk ∧ mk.target = target) ∧
    MI entries (cached s key bn target).1.mcache (cached s key bn target).1.nextId (cached s key bn target).1.mockers := by
  have hf : (∃ mk, aget (freshMocker s key bn target).1.mockers (freshMocker s key bn target).2 = some mk ∧ mk.target = target) ∧
      MI entries (freshMocker s key bn target).1.mcache (freshMocker s key bn target).1.nextId
        (freshMocker s key bn target).1.mockers := by
    refine ⟨⟨⟨bn, target, none, false, none, false⟩, by simp [freshMocker, aget_cons], rfl⟩, ?_⟩
    intro key' id' hk'
    simp only [freshMocker, aget_cons] at hk' ⊢
    by_cases hkk : key = key'
    · subst hkk
      simp at hk'
      subst hk'
      exact ⟨Nat.lt_succ_self _, ⟨bn, target, none, false, none, false⟩, by simp, hk⟩
    · simp [hkk] at hk'
      obtain ⟨hlt, mk0, hg0, hn⟩ := h key' id' hk'
      have : ¬ s.nextId = id' := by omega
      exact ⟨by omega, mk0, by simp [this, hg0], hn⟩
  unfold cached
  split
  · rename_i id hc
    split
    · rename_i mk hg
      split
      · exact hf
      · obtain ⟨_, mk0, hg0, hn⟩ := h key id hc
        rw [hg] at hg0
        cases hg0
        rw [hk] at hn
        exact ⟨⟨mk, hg, (Option.some.inj hn).symm⟩, h⟩
    · exact hf
  · exact hf

theorem applyCb_spec (syms : List Str) (entries : List Entry) (s : HState) (id k : Nat) (mk : Mocker)
    (hg : aget s.mockers id = some mk) (hM : MI entries s.mcache s.nextId s.mockers) :
    (applyCb syms s id k).1.structs = s.structs ∧ (applyCb syms s id k).1.exports = s.exports ∧
    MI entries (applyCb syms s id k).1.mcache (applyCb syms s id k).1.nextId (applyCb syms s id k).1.mockers ∧
    (match symIndex syms mk.target with
     | some i => (applyCb syms s id k).1.patched = (i, Impl.cb k) :: s.patched ∧ (applyCb syms s id k).2 = Res.ok
     | none => (applyCb syms s id k).1.patched = s.patched ∧ (applyCb syms s id k).2 = Res.notfound mk.target) := by
  unfold applyCb
  simp only [hg]
  unfold applyMk
  simp only [hg]
  cases hi : symIndex syms mk.target with
  | none => simp [hM]
  | some i =>
    simp only [if_true]
    unfold clearWhen
    simp only [aget_cons, if_true, setMk]
    refine ⟨trivial, trivial, ?_, trivial, trivial⟩
    exact MI_setMk (ms := (id, { mk with guard := some i, canceled := false, funcDef := mk.funcDef || !mk.byName }) :: s.mockers) id
      { mk with guard := some i, canceled := false, funcDef := mk.funcDef || !mk.byName }
      { mk with guard := some i, canceled := false, funcDef := mk.funcDef || !mk.byName, whenS := none } (by simp [aget_cons]) rfl
      (MI_setMk id mk { mk with guard := some i, canceled := false, funcDef := mk.funcDef || !mk.byName } hg rfl hM)

theorem tail_sim (syms : List Str) (entries : List Entry) (s1 : HState) (key : CKey) (bn : Bool) (name : Str) (k : Nat)
    (hk : keyName entries key = some name) (hM : MI entries s1.mcache s1.nextId s1.mockers) :
    toOld (applyCb syms (cached s1 key bn name).1 (cached s1 key bn name).2 k).1 = (Method.applyAt syms (toOld s1) k name).1 ∧
    (applyCb syms (cached s1 key bn name).1 (cached s1 key bn name).2 k).2 = (Method.applyAt syms (toOld s1) k name).2 ∧
    (applyCb syms (cached s1 key bn name).1 (cached s1 key bn name).2 k).1.structs = s1.structs ∧
    (applyCb syms (cached s1 key bn name).1 (cached s1 key bn name).2 k).1.exports = s1.exports ∧
    MI entries (applyCb syms (cached s1 key bn name).1 (cached s1 key bn name).2 k).1.mcache
      (applyCb syms (cached s1 key bn name).1 (cached s1 key bn name).2 k).1.nextId
      (applyCb syms (cached s1 key bn name).1 (cached s1 key bn name).2 k).1.mockers := by
  obtain ⟨⟨mk, hg, ht⟩, hM'⟩ := cached_spec entries s1 key bn name hk hM
  have hf := cached_frame s1 key bn name
  have ha := applyCb_spec syms entries (cached s1 key bn name).1 (cached s1 key bn name).2 k mk hg hM'
  rw [ht] at ha
  obtain ⟨h1, h2, h3, h4⟩ := ha
  refine ⟨?_, ?_, h1.trans hf.1, h2.trans hf.2.1, h3⟩
  · unfold Method.applyAt
    cases hi : symIndex syms name with
    | none =>
      simp only [hi] at h4
      simp only [toOld, h1, h2, h4.1, hf.1, hf.2.1, hf.2.2]
    | some i =>
      simp only [hi] at h4
      simp only [toOld, h1, h2, h4.1, hf.1, hf.2.1, hf.2.2, List.filterMap_cons]
  · unfold Method.applyAt
    cases hi : symIndex syms name with
    | none => simp only [hi] at h4; exact h4.2
    | some i => simp only [hi] at h4; exact h4.2

/-- refinement invariant -/
def RInv (entries : List Entry) (s : HState) : Prop := HCacheInv s ∧ MI entries s.mcache s.nextId s.mockers

/-- one one-shot step (lookup + Apply) of the handle-level model does to the patch-level projection exactly what
    `Method.step` does, with the same answer -/
theorem shot_sim (syms : List Str) (entries : List Entry) (s : HState) (k : Nat) (st : Method.Step)
    (hr : st.isReset = false) (h : RInv entries s) :
    toOld (step syms entries s k (embed st)).1 = (Method.step syms entries (toOld s) k st).1 ∧
    (step syms entries s k (embed st)).2 = (Method.step syms entries (toOld s) k st).2 ∧
    RInv entries (step syms entries s k (embed st)).1 := by
  obtain ⟨hC, hM⟩ := h
  cases st with
  | reset => simp [Method.Step.isReset] at hr
  | structMethod t m =>
    have hc := getOrCreate_inv (fun (k : Ty) (v : Ty) => v = k) s.structs (structKey t) t hC.1 rfl
    have e2 : (getOrCreate s.structs t t).2 = t := hc.2
    cases hres : resolveSM entries t m with
    | error c =>
      simp only [embed, step, lookup, Method.step, toOld, structKey, e2, hres]
      exact ⟨trivial, trivial, ⟨hc.1, hC.2⟩, hM⟩
    | ok name =>
      simp only [embed, step, lookup, Method.step, toOld, structKey, e2, hres]
      have ts := tail_sim syms entries { s with structs := (getOrCreate s.structs t t).1 } ⟨0, t.pkg, t.name, t.ptr, m⟩ false name k
        (by simp [keyName, hres]) hM
      refine ⟨ts.1, ts.2.1, ⟨?_, ?_⟩, ts.2.2.2.2⟩
      · rw [ts.2.2.1]; exact hc.1
      · rw [ts.2.2.2.1]; exact hC.2
  | structExport t m =>
    have hc := getOrCreate_inv (fun (k : Ty) (v : Ty) => v = k) s.structs (structKey t) t hC.1 rfl
    simp only [embed, step, lookup, Method.step, toOld]
    rw [hc.2]
    simp only [structKey]
    have ts := tail_sim syms entries { s with structs := (getOrCreate s.structs t t).1 } ⟨1, t.pkg, t.name, t.ptr, m⟩ true
      (exportMethodName t m) k (by simp [keyName]) hM
    refine ⟨ts.1, ts.2.1, ⟨?_, ?_⟩, ts.2.2.2.2⟩
    · rw [ts.2.2.1]; exact hc.1
    · rw [ts.2.2.2.1]; exact hC.2
  | exportStruct pkg raw m =>
    have hc := getOrCreate_inv (fun (k : EKey) (v : Str × Str) => v = (k.1, bracket k.2)) s.exports (pkg, raw)
      (pkg, bracket raw) hC.2 rfl
    simp only [embed, step, lookup, Method.step, toOld]
    rw [hc.2]
    have ts := tail_sim syms entries { s with exports := (getOrCreate s.exports (pkg, raw) (pkg, bracket raw)).1 }
      ⟨2, pkg, raw, false, m⟩ true (objName (Method.symPrefix pkg) (bracket raw) m) k (by simp [keyName]) hM
    refine ⟨ts.1, ts.2.1, ⟨?_, ?_⟩, ts.2.2.2.2⟩
    · rw [ts.2.2.1]; exact hC.1
    · rw [ts.2.2.2.1]; exact hc.1

theorem run_sim (syms : List Str) (entries : List Entry) : ∀ (steps : List Method.Step) (s : HState) (k : Nat),
    (∀ st ∈ steps, st.isReset = false) → RInv entries s →
    toOld (run syms entries s k (steps.map embed)).1 = (Method.run syms entries (toOld s) k steps).1 ∧
    (run syms entries s k (steps.map embed)).2 = (Method.run syms entries (toOld s) k steps).2 := by
  intro steps
  induction steps with
  | nil => intro s k _ _; exact ⟨rfl, rfl⟩
  | cons st rest ih =>
    intro s k hr h
    have h1 := shot_sim syms entries s k st (hr st (by simp)) h
    have h2 := ih (step syms entries s k (embed st)).1 (k + 1) (fun st' hs => hr st' (by simp [hs])) h1.2.2
    simp only [List.map_cons, run, Method.run]
    rw [← h1.1, ← h1.2.1]
    exact ⟨h2.1, by rw [h2.2]⟩

end C06HL

namespace C06GL
open Method (Str Entry Res Ty symIndex resolveSM)
open MethodH (aget)
open MethodG C06L

/-- a step that does not re-create guard variable `h` keeps what `h` will install -/
theorem gstep_keeps (syms : List Str) (entries : List Entry) (s : GState) (k h : Nat) (st : GStep) (g : G)
    (hb : st.binds h = false) (hg : aget s.guards h = some g) :
    ∃ g', aget (gstep syms entries s k st).1.guards h = some g' ∧ g'.name = g.name ∧ g'.k = g.k := by
  cases st with
  | gnew h' t m =>
    simp only [GStep.binds, decide_eq_false_iff_not] at hb
    simp only [gstep]
    split
    · exact ⟨g, hg, rfl, rfl⟩
    · split
      · exact ⟨g, hg, rfl, rfl⟩
      · exact ⟨g, by simp [aget, hb, hg], rfl, rfl⟩
  | gapply h' =>
    simp only [gstep]
    split
    · exact ⟨g, hg, rfl, rfl⟩
    · rename_i g0 hg0
      split
      · exact ⟨g, hg, rfl, rfl⟩
      · by_cases hh : h' = h
        · subst hh
          rw [hg] at hg0
          cases hg0
          exact ⟨{ g with applied := true }, by simp [aget], rfl, rfl⟩
        · exact ⟨g, by simp [aget, hh, hg], rfl, rfl⟩
  | gunpatch h' =>
    simp only [gstep]
    split
    · exact ⟨g, hg, rfl, rfl⟩
    · split
      · split
        · exact ⟨g, hg, rfl, rfl⟩
        · exact ⟨g, hg, rfl, rfl⟩
      · exact ⟨g, hg, rfl, rfl⟩

theorem grun_keeps (syms : List Str) (entries : List Entry) : ∀ (steps : List GStep) (s : GState) (k h : Nat) (g : G),
    (∀ st ∈ steps, st.binds h = false) → aget s.guards h = some g →
    ∃ g', aget (grun syms entries s k steps).1.guards h = some g' ∧ g'.name = g.name ∧ g'.k = g.k := by
  intro steps
  induction steps with
  | nil => intro s k h g _ hg; exact ⟨g, hg, rfl, rfl⟩
  | cons st rest ih =>
    intro s k h g hb hg
    obtain ⟨g1, h1, hn1, hk1⟩ := gstep_keeps syms entries s k h st g (hb st (by simp)) hg
    obtain ⟨g2, h2, hn2, hk2⟩ := ih (gstep syms entries s k st).1 (k + 1) h g1 (fun st' hs => hb st' (by simp [hs])) h1
    exact ⟨g2, by simpa [grun] using h2, hn2.trans hn1, hk2.trans hk1⟩

theorem grun_append (syms : List Str) (entries : List Entry) : ∀ (a b : List GStep) (s : GState) (k : Nat),
    (grun syms entries s k (a ++ b)).1 = (grun syms entries (grun syms entries s k a).1 (k + a.length) b).1 := by
  intro a
  induction a with
  | nil => intro b s k; simp [grun]
  | cons st rest ih =>
    intro b s k
    simp only [List.cons_append, grun, List.length_cons]
    rw [ih b _ (k + 1)]
    congr 2
    omega

end C06GL

namespace C06IL
open InnerFn

theorem go_fills (pre : List Ins) (hp : pre.all isFill = true) (rest : List Ins) (cur : Nat) (first : Bool) :
    go (pre ++ rest) cur false first = go rest (cur + codeLen pre) false (first && pre.isEmpty) := by
  induction pre generalizing cur first with
  | nil => simp [codeLen]
  | cons i r ih =>
    cases i with
    | fill n =>
      simp only [List.all_cons, isFill, Bool.true_and] at hp
      simp only [List.cons_append, go, Bool.false_eq_true, if_false, codeLen, List.isEmpty_cons, Bool.and_false]
      rw [ih hp]
      simp only [Bool.false_and]
      congr 1
      omega
    | call _ => simp [isFill] at hp
    | int3 => simp [isFill] at hp
    | prologue => simp [isFill] at hp

end C06IL
