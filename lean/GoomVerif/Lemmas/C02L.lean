import GoomVerif.Model.Patch
/-! Helper lemmas for C02: byte-list facts about `overwrite`, the invariant and its preservation by every model function. -/
namespace C02L
open Patch

theorem jump_length (to : BitVec 64) : (jumpTo to).length = 13 := by
  simp [jumpTo, Gen.Amd64.jmpToFunctionValue]

theorem jump_head (to : BitVec 64) : (jumpTo to).head? = some 0x90#8 := by
  simp [jumpTo, Gen.Amd64.jmpToFunctionValue]

theorem overwrite_take (P : Bytes) (n : Nat) (h : n ≤ P.length) : overwrite P (P.take n) = P := by
  unfold overwrite
  rw [List.length_take, Nat.min_eq_left h]
  exact List.take_append_drop n P

theorem overwrite_overwrite (P J B : Bytes) (h : J.length = B.length) : overwrite (overwrite P J) B = overwrite P B := by
  unfold overwrite
  rw [← h, List.drop_left]

theorem overwrite_length (P J : Bytes) (h : J.length ≤ P.length) : (overwrite P J).length = P.length := by
  unfold overwrite
  rw [List.length_append, List.length_drop]; omega

theorem overwrite_drop (P J : Bytes) : (overwrite P J).drop J.length = P.drop J.length := by
  unfold overwrite
  rw [List.drop_left]

theorem overwrite_takeJ (P J : Bytes) : (overwrite P J).take J.length = J := by
  unfold overwrite
  rw [List.take_left]

theorem upd_same {β} (m : Nat → β) (a : Nat) (b : β) : upd m a b a = b := by simp [upd]
theorem upd_other {β} (m : Nat → β) (a x : Nat) (b : β) (h : x ≠ a) : upd m a b x = m x := by simp [upd, h]

/-- the linker aligns function entries to 16 bytes, so every function's extent holds the 13-byte jump -/
def EnvOk (env : Env) : Prop := ∀ f, 16 ≤ (env.pristine f).length

structure Inv (env : Env) (s : St) : Prop where
  /-- saved origin bytes are the pristine entry bytes; jumps are 13 bytes -/
  saved : ∀ g, g < s.nGuards → (s.guards g).originBytes = (env.pristine (s.guards g).origin).take 13 ∧ (s.guards g).jumpBytes.length = 13
  /-- text is pristine, or pristine overwritten by the jump of the registered, applied guard -/
  txt : ∀ f, s.text f = env.pristine f ∨
    ∃ p g, s.patches f = some p ∧ p.guard = some g ∧ (s.guards g).applied = true ∧ s.text f = overwrite (env.pristine f) (s.guards g).jumpBytes
  /-- registered guards exist and belong to their key -/
  reg : ∀ f p g, s.patches f = some p → p.guard = some g → g < s.nGuards ∧ (s.guards g).origin = f
  /-- guards held by mockers exist and patch the mocker's target -/
  mg : ∀ id g, (s.mockers id).guard = some g → g < s.nGuards ∧ (s.guards g).origin = (s.mockers id).target
  /-- a cached mocker's target is the one its key names; cached keys are listed -/
  ck : ∀ b key id, s.cache b key = some id → (s.mockers id).target = key % 1000 ∧ key ∈ s.keys b ∧ id < s.nMockers

theorem inv_init (env : Env) : Inv env (init env) := by
  refine ⟨?_, ?_, ?_, ?_, ?_⟩ <;> simp [init]

/-! ### Guard.Unpatch -/

theorem guardUnpatch_fields (s : St) (g : Nat) :
    (guardUnpatch s g).patches = s.patches ∧ (guardUnpatch s g).guards = s.guards ∧ (guardUnpatch s g).nGuards = s.nGuards ∧
    (guardUnpatch s g).mockers = s.mockers ∧ (guardUnpatch s g).cache = s.cache ∧ (guardUnpatch s g).keys = s.keys ∧
    (guardUnpatch s g).nMockers = s.nMockers ∧ (guardUnpatch s g).ph = s.ph ∧ (guardUnpatch s g).nStubs = s.nStubs := by
  unfold guardUnpatch; split <;> simp

theorem guardUnpatch_frame (s : St) (g f : Nat) (h : f ≠ (s.guards g).origin) : (guardUnpatch s g).text f = s.text f := by
  unfold guardUnpatch; split
  · simp [upd, h]
  · rfl

/-- the restore: whatever state the target's text is in, an applied guard's Unpatch makes it pristine -/
theorem guardUnpatch_restores {env : Env} (he : EnvOk env) {s : St} (hi : Inv env s) (g : Nat) (hg : g < s.nGuards)
    (ha : (s.guards g).applied = true) : (guardUnpatch s g).text (s.guards g).origin = env.pristine (s.guards g).origin := by
  have hs := hi.saved g hg
  have hl := he (s.guards g).origin
  unfold guardUnpatch; simp only [ha, if_true, upd_same]
  rw [hs.1]
  rcases hi.txt (s.guards g).origin with h | ⟨p, g', _, _, _, h⟩
  · rw [h]; exact overwrite_take _ _ (by omega)
  · rw [h]
    have hj : (s.guards g').jumpBytes.length = ((env.pristine (s.guards g).origin).take 13).length := by
      have hr := hi.reg (s.guards g).origin p g' ‹_› ‹_›
      rw [(hi.saved g' hr.1).2, List.length_take]; omega
    rw [overwrite_overwrite _ _ _ hj]; exact overwrite_take _ _ (by omega)

/-- Unpatch never makes text anything but what it was or pristine -/
theorem guardUnpatch_cases {env : Env} (he : EnvOk env) {s : St} (hi : Inv env s) (g : Nat) (hg : g < s.nGuards) (f : Nat) :
    (guardUnpatch s g).text f = s.text f ∨
    ((guardUnpatch s g).text f = env.pristine f ∧ (s.guards g).applied = true ∧ (s.guards g).origin = f) := by
  by_cases hf : f = (s.guards g).origin
  · by_cases ha : (s.guards g).applied = true
    · right; subst hf; exact ⟨guardUnpatch_restores he hi g hg ha, ha, rfl⟩
    · left; unfold guardUnpatch; simp [ha]
  · left; exact guardUnpatch_frame s g f hf

theorem guardUnpatch_inv {env : Env} (he : EnvOk env) {s : St} (hi : Inv env s) (g : Nat) (hg : g < s.nGuards) :
    Inv env (guardUnpatch s g) := by
  obtain ⟨hp, hgd, hn, hm, hc, hk, hnm, _, _⟩ := guardUnpatch_fields s g
  refine ⟨?_, ?_, ?_, ?_, ?_⟩
  · rw [hgd, hn]; exact hi.saved
  · intro f
    rcases guardUnpatch_cases he hi g hg f with h | ⟨h, _, _⟩
    · rw [h, hp, hgd]; exact hi.txt f
    · left; exact h
  · rw [hp, hgd, hn]; exact hi.reg
  · rw [hm, hgd, hn]; exact hi.mg
  · rw [hc, hm, hk, hnm]; exact hi.ck

/-! ### unpatchValue -/

theorem unpatchValue_frame {env : Env} {s : St} (hi : Inv env s) (f x : Nat) (h : x ≠ f) : (unpatchValue s f).text x = s.text x := by
  unfold unpatchValue
  cases hp : s.patches f with
  | none => rfl
  | some p =>
    simp only [patchUnpatch]
    cases hg : p.guard with
    | none => rfl
    | some g =>
      simp only []
      have := hi.reg f p g hp hg
      exact guardUnpatch_frame s g x (by rw [this.2]; exact h)

theorem unpatchValue_spec {env : Env} (he : EnvOk env) {s : St} (hi : Inv env s) (f : Nat) :
    Inv env (unpatchValue s f) ∧ (unpatchValue s f).text f = env.pristine f ∧ (unpatchValue s f).patches f = none ∧
    (unpatchValue s f).guards = s.guards ∧ (unpatchValue s f).nGuards = s.nGuards ∧ (unpatchValue s f).mockers = s.mockers ∧
    (unpatchValue s f).cache = s.cache ∧ (unpatchValue s f).keys = s.keys ∧ (unpatchValue s f).nStubs = s.nStubs ∧
    (∀ x, x ≠ f → (unpatchValue s f).patches x = s.patches x) := by
  unfold unpatchValue
  cases hp : s.patches f with
  | none =>
    refine ⟨hi, ?_, hp, rfl, rfl, rfl, rfl, rfl, rfl, fun _ _ => rfl⟩
    rcases hi.txt f with h | ⟨p, g, h, _⟩
    · exact h
    · rw [hp] at h; cases h
  | some p =>
    -- state after p.unpatch()
    have key : ∃ s1 : St, s1 = patchUnpatch s p ∧ Inv env s1 ∧ s1.text f = env.pristine f ∧
        s1.patches = s.patches ∧ s1.guards = s.guards ∧ s1.nGuards = s.nGuards ∧ s1.mockers = s.mockers ∧ s1.cache = s.cache ∧
        s1.keys = s.keys ∧ s1.nStubs = s.nStubs := by
      cases hg : p.guard with
      | none =>
        refine ⟨s, by simp [patchUnpatch, hg], hi, ?_, rfl, rfl, rfl, rfl, rfl, rfl, rfl⟩
        rcases hi.txt f with h | ⟨p', g, h1, h2, _⟩
        · exact h
        · rw [hp] at h1; cases h1; rw [hg] at h2; cases h2
      | some g =>
        have hr := hi.reg f p g hp hg
        obtain ⟨hpp, hgd, hn, hm, hc, hk, _, _, hst⟩ := guardUnpatch_fields s g
        refine ⟨guardUnpatch s g, by simp [patchUnpatch, hg], guardUnpatch_inv he hi g hr.1, ?_, hpp, hgd, hn, hm, hc, hk, hst⟩
        rcases guardUnpatch_cases he hi g hr.1 f with h | ⟨h, _, _⟩
        · rw [h]
          rcases hi.txt f with h' | ⟨p', g', h1, h2, h3, _⟩
          · exact h'
          · rw [hp] at h1; cases h1; rw [hg] at h2; cases h2
            have := guardUnpatch_restores he hi g hr.1 h3
            rw [hr.2] at this; rw [← h]; exact this
        · exact h
    obtain ⟨s1, hs1, hi1, ht1, hp1, hg1, hn1, hm1, hc1, hk1, hst1⟩ := key
    dsimp only
    rw [← hs1]
    refine ⟨?_, ht1, by simp [upd], hg1, hn1, hm1, hc1, hk1, hst1, fun x hx => by simp [upd, hx, hp1]⟩
    refine ⟨hi1.saved, ?_, ?_, hi1.mg, hi1.ck⟩
    · intro x
      by_cases hx : x = f
      · left; rw [hx]; exact ht1
      · rcases hi1.txt x with h | ⟨p', g', h1, h2⟩
        · left; exact h
        · right; exact ⟨p', g', by simp [upd, hx, h1], h2⟩
    · intro x p' g' h1 h2
      by_cases hx : x = f
      · simp [upd, hx] at h1
      · simp [upd, hx] at h1; exact hi1.reg x p' g' h1 h2

/-! ### replaceFunc -/

theorem register_inv {env : Env} {s : St} (hi : Inv env s) (f : Nat) (ht : s.text f = env.pristine f) (p : PatchE) (hp : p.guard = none) :
    Inv env (register s f p) := by
  refine ⟨hi.saved, ?_, ?_, hi.mg, hi.ck⟩
  · intro x
    by_cases hx : x = f
    · left; rw [hx]; exact ht
    · rcases hi.txt x with h | ⟨p', g', h1, h2⟩
      · left; exact h
      · right; exact ⟨p', g', by simp [register, upd, hx, h1], h2⟩
  · intro x p' g' h1 h2
    by_cases hx : x = f
    · simp [register, upd, hx] at h1; rw [← h1, hp] at h2; cases h2
    · simp [register, upd, hx] at h1; exact hi.reg x p' g' h1 h2

theorem ph_inv {env : Env} {s : St} (hi : Inv env s) (ph : Nat → Option Nat) : Inv env { s with ph := ph } :=
  ⟨hi.saved, hi.txt, hi.reg, hi.mg, hi.ck⟩

/-- what a successful `replaceFunc` + `Guard()` establishes -/
structure Fresh (env : Env) (s r : St) (f : Nat) (to : BitVec 64) (g : Nat) : Prop where
  gid : g = s.nGuards
  n : r.nGuards = s.nGuards + 1
  origin : (r.guards g).origin = f
  jump : (r.guards g).jumpBytes = jumpTo to
  saved : (r.guards g).originBytes = (env.pristine f).take 13
  unapplied : (r.guards g).applied = false
  registered : ∃ p, r.patches f = some p ∧ p.guard = some g

theorem mkGuard_spec {env : Env} (he : EnvOk env) {s : St} (hi : Inv env s) (f : Nat) (to : BitVec 64) (p : PatchE)
    (ht : s.text f = env.pristine f) (hj : p.jumpBytes = jumpTo to) (ho : p.originBytes = (env.pristine f).take 13) :
    Inv env (mkGuard s f p).1 ∧ (mkGuard s f p).1.text = s.text ∧ (mkGuard s f p).1.mockers = s.mockers ∧
    (mkGuard s f p).1.cache = s.cache ∧ (mkGuard s f p).1.keys = s.keys ∧ (mkGuard s f p).1.nStubs = s.nStubs ∧
    (∀ g, g < s.nGuards → (mkGuard s f p).1.guards g = s.guards g) ∧
    (mkGuard s f p).2 = .ok s.nGuards ∧ Fresh env s (mkGuard s f p).1 f to s.nGuards := by
  refine ⟨⟨?_, ?_, ?_, ?_, hi.ck⟩, rfl, rfl, rfl, rfl, rfl, ?_, rfl, ?_⟩
  · intro g hg
    simp only [mkGuard] at hg ⊢
    by_cases h : g = s.nGuards
    · subst h; simp [upd, ho, hj, jump_length]
    · have : g < s.nGuards := by omega
      simp only [upd, h, if_false]; exact hi.saved g this
  · intro x
    by_cases hx : x = f
    · left; rw [hx]; exact ht
    · rcases hi.txt x with h | ⟨p', g', h1, h2, h3, h4⟩
      · left; exact h
      · right
        have hr := hi.reg x p' g' h1 h2
        have hne : g' ≠ s.nGuards := by omega
        exact ⟨p', g', by simp [mkGuard, upd, hx, h1], h2, by simp [mkGuard, upd, hne, h3], by simp [mkGuard, upd, hne]; exact h4⟩
  · intro x p' g' h1 h2
    simp only [mkGuard] at h1 ⊢
    by_cases hx : x = f
    · simp [upd, hx] at h1; rw [← h1] at h2; simp at h2; subst h2; subst hx; simp [upd]
    · simp [upd, hx] at h1
      have hr := hi.reg x p' g' h1 h2
      have hne : g' ≠ s.nGuards := by omega
      simp [upd, hne]; exact ⟨by omega, hr.2⟩
  · intro id g hg
    have hr := hi.mg id g hg
    have hne : g ≠ s.nGuards := by omega
    simp [mkGuard, upd, hne]; exact ⟨by omega, hr.2⟩
  · intro g hg
    have hne : g ≠ s.nGuards := by omega
    simp [mkGuard, upd, hne]
  · refine ⟨rfl, rfl, ?_, ?_, ?_, ?_, ?_⟩ <;> simp [mkGuard, upd, hj, ho]

/-- every exit of `replaceFunc` keeps the invariant, leaves the target's text pristine and touches no other text;
    the success exit yields a fresh, registered, not yet applied guard whose saved bytes are pristine -/
theorem replaceFunc_spec {env : Env} (he : EnvOk env) {s : St} (hi : Inv env s) (f : Nat) (to : BitVec 64) (tramp : Option Nat) :
    Inv env (replaceFunc env s f to tramp).1 ∧ (replaceFunc env s f to tramp).1.text f = env.pristine f ∧
    (∀ x, x ≠ f → (replaceFunc env s f to tramp).1.text x = s.text x) ∧
    (replaceFunc env s f to tramp).1.mockers = s.mockers ∧ (replaceFunc env s f to tramp).1.cache = s.cache ∧
    (replaceFunc env s f to tramp).1.keys = s.keys ∧ (replaceFunc env s f to tramp).1.nStubs = s.nStubs ∧
    (∀ g, (replaceFunc env s f to tramp).2 = .ok g → Fresh env s (replaceFunc env s f to tramp).1 f to g ∧
       ∀ g', g' < s.nGuards → (replaceFunc env s f to tramp).1.guards g' = s.guards g') := by
  obtain ⟨hi1, ht1, hp1, hg1, hn1, hm1, hc1, hk1, hst1, _⟩ := unpatchValue_spec he hi f
  have hfr := fun x (hx : x ≠ f) => unpatchValue_frame hi f x hx
  have hlen := he f
  -- the registered, guard-less states
  have reg : ∀ p : PatchE, p.guard = none →
      Inv env (register (unpatchValue s f) f p) ∧ (register (unpatchValue s f) f p).text f = env.pristine f :=
    fun p hp => ⟨register_inv hi1 f ht1 p hp, ht1⟩
  have hread : ((register (unpatchValue s f) f { originBytes := [], jumpBytes := [], guard := none }).text f).take (jumpTo to).length
      = (env.pristine f).take 13 := by
    rw [jump_length]; show ((unpatchValue s f).text f).take 13 = _; rw [ht1]
  have r0 := reg { originBytes := [], jumpBytes := [], guard := none } rfl
  unfold replaceFunc
  simp only []
  split
  · exact ⟨r0.1, ht1, hfr, hm1, hc1, hk1, hst1, fun g h => by cases h⟩
  · split
    · refine ⟨register_inv r0.1 f ht1 _ rfl, ht1, hfr, hm1, hc1, hk1, hst1, fun g h => by cases h⟩
    · cases tramp with
      | none =>
        simp only []
        have hi2 := register_inv r0.1 f r0.2
          { originBytes := ((register (unpatchValue s f) f { originBytes := [], jumpBytes := [], guard := none }).text f).take (jumpTo to).length,
            jumpBytes := jumpTo to, guard := none } rfl
        obtain ⟨a1, a2, a3, a4, a5, a6, a7, a8, a9⟩ := mkGuard_spec he hi2 f to ({ originBytes := ((register (unpatchValue s f) f { originBytes := [], jumpBytes := [], guard := none }).text f).take (jumpTo to).length, jumpBytes := jumpTo to, guard := none } : PatchE) ht1 rfl hread
        refine ⟨a1, by rw [a2]; exact ht1, fun x hx => by rw [a2]; exact hfr x hx, by rw [a3]; exact hm1, by rw [a4]; exact hc1,
          by rw [a5]; exact hk1, by rw [a6]; exact hst1, ?_⟩
        intro g hg
        rw [a8] at hg; cases hg
        have e1 : (register (register (unpatchValue s f) f { originBytes := [], jumpBytes := [], guard := none }) f
          { originBytes := ((register (unpatchValue s f) f { originBytes := [], jumpBytes := [], guard := none }).text f).take (jumpTo to).length,
            jumpBytes := jumpTo to, guard := none }).nGuards = s.nGuards := hn1
        refine ⟨?_, ?_⟩
        · exact ⟨by rw [a9.gid, e1], by rw [a9.n, e1], a9.origin, a9.jump, a9.saved, a9.unapplied, a9.registered⟩
        · intro g' hg'; rw [a7 g' (by rw [e1]; exact hg')]; show (unpatchValue s f).guards g' = _; rw [hg1]
      | some o =>
        simp only []
        split
        · exact ⟨register_inv r0.1 f ht1 _ rfl, ht1, hfr, hm1, hc1, hk1, hst1, fun g h => by cases h⟩
        · have hi2 := ph_inv (register_inv r0.1 f r0.2
            { originBytes := ((register (unpatchValue s f) f { originBytes := [], jumpBytes := [], guard := none }).text f).take (jumpTo to).length,
              jumpBytes := jumpTo to, guard := none } rfl)
            (upd (register (unpatchValue s f) f { originBytes := [], jumpBytes := [], guard := none }).ph o (some f))
          obtain ⟨a1, a2, a3, a4, a5, a6, a7, a8, a9⟩ := mkGuard_spec he hi2 f to ({ originBytes := ((register (unpatchValue s f) f { originBytes := [], jumpBytes := [], guard := none }).text f).take (jumpTo to).length, jumpBytes := jumpTo to, guard := none } : PatchE) ht1 rfl hread
          refine ⟨a1, by rw [a2]; exact ht1, fun x hx => by rw [a2]; exact hfr x hx, by rw [a3]; exact hm1, by rw [a4]; exact hc1,
            by rw [a5]; exact hk1, by rw [a6]; exact hst1, ?_⟩
          intro g hg
          rw [a8] at hg; cases hg
          refine ⟨?_, ?_⟩
          · exact ⟨by rw [a9.gid]; exact hn1, by rw [a9.n]; show (unpatchValue s f).nGuards + 1 = _; rw [hn1], a9.origin, a9.jump,
              a9.saved, a9.unapplied, a9.registered⟩
          · intro g' hg'
            rw [a7 g' (by show g' < (unpatchValue s f).nGuards; rw [hn1]; exact hg')]
            show (unpatchValue s f).guards g' = _; rw [hg1]

/-! ### Guard.Apply, applyBy*, Cancel, builder cache -/

theorem guardApply_spec {env : Env} {s : St} (hi : Inv env s) (g f : Nat) (hg : g < s.nGuards) (ho : (s.guards g).origin = f)
    (ht : s.text f = env.pristine f) (hr : ∃ p, s.patches f = some p ∧ p.guard = some g) :
    Inv env (guardApply s g) ∧ (guardApply s g).text f = overwrite (env.pristine f) (s.guards g).jumpBytes ∧
    (∀ x, x ≠ f → (guardApply s g).text x = s.text x) := by
  have htx : ∀ x, x ≠ f → (guardApply s g).text x = s.text x := by
    intro x hx; simp [guardApply, upd, ho, hx]
  have htf : (guardApply s g).text f = overwrite (env.pristine f) (s.guards g).jumpBytes := by
    simp [guardApply, upd, ho, ht]
  have hgd : ∀ g', ((guardApply s g).guards g').origin = (s.guards g').origin ∧
      ((guardApply s g).guards g').originBytes = (s.guards g').originBytes ∧
      ((guardApply s g).guards g').jumpBytes = (s.guards g').jumpBytes ∧
      ((s.guards g').applied = true → ((guardApply s g).guards g').applied = true) := by
    intro g'; by_cases h : g' = g <;> simp [guardApply, upd, h]
  refine ⟨⟨?_, ?_, ?_, ?_, hi.ck⟩, htf, htx⟩
  · intro g' hg'; rw [(hgd g').1, (hgd g').2.1, (hgd g').2.2.1]; exact hi.saved g' hg'
  · intro x
    by_cases hx : x = f
    · right; obtain ⟨p, hp1, hp2⟩ := hr
      refine ⟨p, g, by rw [hx]; exact hp1, hp2, by simp [guardApply, upd], ?_⟩
      rw [hx, htf, (hgd g).2.2.1]
    · rcases hi.txt x with h | ⟨p', g', h1, h2, h3, h4⟩
      · left; rw [htx x hx]; exact h
      · right; exact ⟨p', g', h1, h2, (hgd g').2.2.2 h3, by rw [htx x hx, (hgd g').2.2.1]; exact h4⟩
  · intro x p' g' h1 h2; rw [(hgd g').1]; exact hi.reg x p' g' h1 h2
  · intro id g' h; rw [(hgd g').1]; exact hi.mg id g' h

/-- `applyBy*`: invariant, frame, and on success the target carries exactly the jump to the implementation -/
theorem applyImp_spec {env : Env} (he : EnvOk env) {s : St} (hi : Inv env s) (id : Nat) (imp : Imp) :
    Inv env (applyImp env s id imp).1 ∧
    (∀ x, x ≠ (s.mockers id).target → (applyImp env s id imp).1.text x = s.text x) ∧
    ((applyImp env s id imp).2 = none →
      (applyImp env s id imp).1.text (s.mockers id).target = overwrite (env.pristine (s.mockers id).target) (jumpTo (dest env s id imp))) ∧
    ((applyImp env s id imp).2 ≠ none → (applyImp env s id imp).1.text (s.mockers id).target = env.pristine (s.mockers id).target) ∧
    (applyImp env s id imp).1.cache = s.cache ∧ (applyImp env s id imp).1.keys = s.keys ∧
    (∀ j, ((applyImp env s id imp).1.mockers j).target = (s.mockers j).target) ∧
    ((applyImp env s id imp).2 = none → ((applyImp env s id imp).1.mockers id).canceled = false) := by
  obtain ⟨r1, r2, r3, r4, r5, r6, _, r8⟩ := replaceFunc_spec he hi (s.mockers id).target (dest env s id imp) (s.mockers id).origin
  unfold applyImp
  simp only []
  cases hres : replaceFunc env s (s.mockers id).target (dest env s id imp) (s.mockers id).origin with
  | mk s1 res =>
    rw [hres] at r1 r2 r3 r4 r5 r6 r8
    simp only [] at r1 r2 r3 r4 r5 r6 r8
    cases res with
    | error e =>
      simp only []
      refine ⟨r1, r3, ?_, fun _ => r2, r5, r6, ?_, ?_⟩
      · intro h; cases h
      · intro j; rw [r4]
      · intro h; cases h
    | ok g =>
      simp only []
      obtain ⟨fr, _⟩ := r8 g rfl
      have hg : g < s1.nGuards := by rw [fr.n, fr.gid]; omega
      obtain ⟨a1, a2, a3⟩ := guardApply_spec r1 g (s.mockers id).target hg fr.origin r2 fr.registered
      have hgo : ((guardApply s1 g).guards g).origin = (s.mockers id).target := by
        simp [guardApply, upd, fr.origin]
      have hm : (guardApply s1 g).mockers = s.mockers := by simp [guardApply, r4]
      refine ⟨⟨a1.saved, a1.txt, a1.reg, ?_, ?_⟩, ?_, ?_, fun h => by simp at h, ?_, ?_, ?_, fun _ => by simp [upd]⟩
      · intro j g' h
        by_cases hj : j = id
        · simp [upd, hj] at h ⊢; subst h
          exact ⟨by simp [guardApply]; exact hg, by rw [hgo, hm]⟩
        · simp [upd, hj] at h ⊢; exact a1.mg j g' h
      · intro b key j h
        have := a1.ck b key j h
        by_cases hj : j = id
        · simp [upd, hj]; rw [hj] at this; exact this
        · simp [upd, hj]; exact this
      · intro x hx; show (guardApply s1 g).text x = _; rw [a3 x hx]; exact r3 x hx
      · intro _; show (guardApply s1 g).text _ = _; rw [a2, fr.jump]
      · show (guardApply s1 g).cache = _; simp [guardApply, r5]
      · show (guardApply s1 g).keys = _; simp [guardApply, r6]
      · intro j
        by_cases hj : j = id
        · simp [upd, hj, hm]
        · simp [upd, hj, hm]

theorem cancelGuard_spec {env : Env} (he : EnvOk env) {s : St} (hi : Inv env s) (og : Option Nat) (f : Nat)
    (hg : ∀ g, og = some g → g < s.nGuards ∧ (s.guards g).origin = f) :
    Inv env (cancelGuard s og) ∧
    (∀ x, x ≠ f → (cancelGuard s og).text x = s.text x) ∧
    (∀ x, (cancelGuard s og).text x = s.text x ∨ (cancelGuard s og).text x = env.pristine x) ∧
    (∀ g, og = some g → (s.guards g).applied = true → (cancelGuard s og).text f = env.pristine f) ∧
    (cancelGuard s og).cache = s.cache ∧ (cancelGuard s og).keys = s.keys ∧ (cancelGuard s og).guards = s.guards ∧
    (cancelGuard s og).mockers = s.mockers ∧ (cancelGuard s og).nMockers = s.nMockers := by
  cases og with
  | none =>
    refine ⟨hi, fun _ _ => rfl, fun _ => Or.inl rfl, ?_, rfl, rfl, rfl, rfl, rfl⟩
    intro g h; cases h
  | some g =>
    have hm := hg g rfl
    obtain ⟨hp, hgd, hn, hmm, hc, hk, hnm, _, _⟩ := guardUnpatch_fields s g
    refine ⟨guardUnpatch_inv he hi g hm.1, ?_, ?_, ?_, hc, hk, hgd, hmm, hnm⟩
    · intro x hx; exact guardUnpatch_frame s g x (by rw [hm.2]; exact hx)
    · intro x
      rcases guardUnpatch_cases he hi g hm.1 x with h | ⟨h, _, _⟩
      · left; exact h
      · right; exact h
    · intro g' h ha; cases h
      have := guardUnpatch_restores he hi g hm.1 ha
      rw [hm.2] at this; exact this

theorem markCanceled_mockers (s : St) (id j : Nat) :
    ((markCanceled s id).mockers j).target = (s.mockers j).target ∧ ((markCanceled s id).mockers j).guard = (s.mockers j).guard ∧
    ((s.mockers j).canceled = true → ((markCanceled s id).mockers j).canceled = true) ∧
    ((markCanceled s id).mockers id).canceled = true := by
  by_cases hj : j = id <;> simp [markCanceled, upd, hj]

theorem markCanceled_inv {env : Env} {s : St} (hi : Inv env s) (id : Nat) : Inv env (markCanceled s id) := by
  refine ⟨hi.saved, hi.txt, hi.reg, ?_, ?_⟩
  · intro j g h
    rw [(markCanceled_mockers s id j).2.1] at h; rw [(markCanceled_mockers s id j).1]; exact hi.mg j g h
  · intro b key j h
    rw [(markCanceled_mockers s id j).1]; exact hi.ck b key j h

theorem cancelMocker_spec {env : Env} (he : EnvOk env) {s : St} (hi : Inv env s) (id : Nat) :
    Inv env (cancelMocker s id) ∧
    (∀ x, x ≠ (s.mockers id).target → (cancelMocker s id).text x = s.text x) ∧
    (∀ x, (cancelMocker s id).text x = s.text x ∨ (cancelMocker s id).text x = env.pristine x) ∧
    (∀ g, (s.mockers id).guard = some g → (s.guards g).applied = true →
        (cancelMocker s id).text (s.mockers id).target = env.pristine (s.mockers id).target) ∧
    (cancelMocker s id).cache = s.cache ∧ (cancelMocker s id).keys = s.keys ∧ (cancelMocker s id).guards = s.guards ∧
    ((cancelMocker s id).mockers id).canceled = true ∧
    (∀ j, ((cancelMocker s id).mockers j).target = (s.mockers j).target ∧ ((cancelMocker s id).mockers j).guard = (s.mockers j).guard ∧
          ((s.mockers j).canceled = true → ((cancelMocker s id).mockers j).canceled = true)) := by
  obtain ⟨c1, c2, c3, c4, c5, c6, c7, c8, _⟩ := cancelGuard_spec he hi (s.mockers id).guard (s.mockers id).target (fun g h => hi.mg id g h)
  unfold cancelMocker
  have hmk := markCanceled_mockers (cancelGuard s (s.mockers id).guard) id
  refine ⟨markCanceled_inv c1 id, c2, c3, c4, c5, c6, c7, (hmk id).2.2.2, ?_⟩
  intro j
  have := hmk j
  rw [c8] at this
  exact ⟨this.1, this.2.1, this.2.2.1⟩

theorem getMocker_spec {env : Env} {s : St} (hi : Inv env s) (b key : Nat) :
    Inv env (getMocker s b key).1 ∧ (getMocker s b key).1.text = s.text ∧
    ((getMocker s b key).1.mockers (getMocker s b key).2).target = key % 1000 ∧
    ((getMocker s b key).1.mockers (getMocker s b key).2).canceled = false ∧
    (getMocker s b key).1.guards = s.guards := by
  have fresh_ok : Inv env (getMocker.fresh s b key).1 ∧ (getMocker.fresh s b key).1.text = s.text ∧
      ((getMocker.fresh s b key).1.mockers (getMocker.fresh s b key).2).target = key % 1000 ∧
      ((getMocker.fresh s b key).1.mockers (getMocker.fresh s b key).2).canceled = false ∧
      (getMocker.fresh s b key).1.guards = s.guards := by
    refine ⟨⟨hi.saved, hi.txt, hi.reg, ?_, ?_⟩, rfl, by simp [getMocker.fresh, upd], by simp [getMocker.fresh, upd], rfl⟩
    · intro j g h
      by_cases hj : j = s.nMockers
      · simp [getMocker.fresh, upd, hj] at h
      · simp [getMocker.fresh, upd, hj] at h ⊢; exact hi.mg j g h
    · intro b' key' j h
      simp only [getMocker.fresh] at h ⊢
      by_cases hb : b' = b ∧ key' = key
      · simp [hb] at h; subst h; obtain ⟨hb1, hb2⟩ := hb; subst hb1; subst hb2
        simp [upd]; by_cases hk : key' ∈ s.keys b' <;> simp [hk]
      · simp only [hb, if_false] at h
        have := hi.ck b' key' j h
        have hj : j ≠ s.nMockers := by omega
        simp only [upd, hj, if_false]
        refine ⟨this.1, ?_, by omega⟩
        by_cases hb1 : b' = b ∧ ¬ key ∈ s.keys b
        · simp only [hb1, and_self, not_false_eq_true, if_true]; exact List.mem_cons_of_mem _ (hb1.1 ▸ this.2.1)
        · simp only [hb1, if_false]; exact this.2.1
  unfold getMocker
  cases hc : s.cache b key with
  | none => exact fresh_ok
  | some id =>
    simp only []
    by_cases hcan : (s.mockers id).canceled = true
    · simp only [hcan, if_true]; exact fresh_ok
    · simp only [hcan]; exact ⟨hi, rfl, (hi.ck b key id hc).1, by simpa using hcan, rfl⟩

theorem clearWhen_spec {env : Env} {s : St} (hi : Inv env s) (id : Nat) :
    Inv env (clearWhen s id) ∧ (clearWhen s id).text = s.text := by
  have hm : ∀ j, ((clearWhen s id).mockers j).target = (s.mockers j).target ∧ ((clearWhen s id).mockers j).guard = (s.mockers j).guard := by
    intro j; by_cases hj : j = id <;> simp [clearWhen, upd, hj]
  refine ⟨⟨hi.saved, hi.txt, hi.reg, ?_, ?_⟩, rfl⟩
  · intro j g h; rw [(hm j).2] at h; rw [(hm j).1]; exact hi.mg j g h
  · intro b key j h; rw [(hm j).1]; exact hi.ck b key j h

/-- the public `Apply`: same facts as `applyImp` (dropping the old `When` touches neither text nor guards) -/
theorem applyCb_spec {env : Env} (he : EnvOk env) {s : St} (hi : Inv env s) (id k : Nat) :
    Inv env (applyCb env s id k).1 ∧
    (applyCb env s id k).1.text = (applyImp env s id (.cb k)).1.text ∧
    (applyCb env s id k).2 = (applyImp env s id (.cb k)).2 ∧
    (applyCb env s id k).1.cache = s.cache ∧
    ((applyCb env s id k).2 = none → ((applyCb env s id k).1.mockers id).canceled = false) := by
  have a := (applyImp_spec he hi id (.cb k)).1
  have ac := (applyImp_spec he hi id (.cb k)).2.2.2.2.1
  have al := (applyImp_spec he hi id (.cb k)).2.2.2.2.2.2.2
  unfold applyCb
  cases h : (applyImp env s id (.cb k)).2 with
  | none =>
    refine ⟨(clearWhen_spec a id).1, rfl, rfl, ac, fun _ => ?_⟩
    have := al h
    simp [clearWhen, upd, this]
  | some e =>
    refine ⟨a, rfl, rfl, ac, ?_⟩
    intro h'; cases h'

/-! ### Origin, whens, Reset -/

theorem setOrigin_spec {env : Env} {s : St} (hi : Inv env s) (id : Nat) (o : Option Nat) :
    Inv env (setOrigin s id o) ∧ (setOrigin s id o).text = s.text ∧ (setOrigin s id o).cache = s.cache ∧
    (setOrigin s id o).keys = s.keys ∧ (setOrigin s id o).guards = s.guards ∧
    ∀ j, ((setOrigin s id o).mockers j).target = (s.mockers j).target ∧ ((setOrigin s id o).mockers j).guard = (s.mockers j).guard ∧
         ((setOrigin s id o).mockers j).canceled = (s.mockers j).canceled ∧ ((setOrigin s id o).mockers j).hasWhen = (s.mockers j).hasWhen := by
  cases o with
  | none => exact ⟨hi, rfl, rfl, rfl, rfl, fun _ => ⟨rfl, rfl, rfl, rfl⟩⟩
  | some o =>
    have hm : ∀ j, ((setOrigin s id (some o)).mockers j).target = (s.mockers j).target ∧
        ((setOrigin s id (some o)).mockers j).guard = (s.mockers j).guard ∧
        ((setOrigin s id (some o)).mockers j).canceled = (s.mockers j).canceled ∧
        ((setOrigin s id (some o)).mockers j).hasWhen = (s.mockers j).hasWhen := by
      intro j; by_cases hj : j = id <;> simp [setOrigin, upd, hj]
    refine ⟨⟨hi.saved, hi.txt, hi.reg, ?_, ?_⟩, rfl, rfl, rfl, rfl, hm⟩
    · intro j g h; rw [(hm j).2.1] at h; rw [(hm j).1]; exact hi.mg j g h
    · intro b key j h; rw [(hm j).1]; exact hi.ck b key j h

theorem whens_spec {env : Env} {s : St} (hi : Inv env s) (id : Nat) :
    Inv env (whens s id) ∧ (whens s id).text = s.text ∧ (whens s id).cache = s.cache ∧ (whens s id).keys = s.keys ∧
    ∀ j, ((whens s id).mockers j).target = (s.mockers j).target ∧ ((whens s id).mockers j).canceled = (s.mockers j).canceled := by
  have hm : ∀ j, ((whens s id).mockers j).target = (s.mockers j).target ∧ ((whens s id).mockers j).guard = (s.mockers j).guard ∧
      ((whens s id).mockers j).canceled = (s.mockers j).canceled := by
    intro j; by_cases hj : j = id <;> simp [whens, upd, hj]
  refine ⟨⟨hi.saved, hi.txt, hi.reg, ?_, ?_⟩, rfl, rfl, rfl, fun j => ⟨(hm j).1, (hm j).2.2⟩⟩
  · intro j g h; rw [(hm j).2.1] at h; rw [(hm j).1]; exact hi.mg j g h
  · intro b key j h; rw [(hm j).1]; exact hi.ck b key j h

/-- everything `Reset` does, for an arbitrary list of keys in an arbitrary order (Go's map iteration order is unspecified) -/
theorem cancelKeys_spec {env : Env} (he : EnvOk env) (b : Nat) (ks : List Nat) : ∀ {s : St}, Inv env s →
    Inv env (cancelKeys s b ks) ∧
    (∀ x, (cancelKeys s b ks).text x = s.text x ∨ (cancelKeys s b ks).text x = env.pristine x) ∧
    (cancelKeys s b ks).cache = s.cache ∧ (cancelKeys s b ks).keys = s.keys ∧ (cancelKeys s b ks).guards = s.guards ∧
    (∀ j, ((cancelKeys s b ks).mockers j).target = (s.mockers j).target ∧ ((cancelKeys s b ks).mockers j).guard = (s.mockers j).guard ∧
          ((s.mockers j).canceled = true → ((cancelKeys s b ks).mockers j).canceled = true)) ∧
    (∀ x, (∀ k, k ∈ ks → k % 1000 ≠ x) → (cancelKeys s b ks).text x = s.text x) ∧
    (∀ k, k ∈ ks → ∀ id g, s.cache b k = some id → (s.mockers id).guard = some g → (s.guards g).applied = true →
        (cancelKeys s b ks).text (k % 1000) = env.pristine (k % 1000)) ∧
    (∀ k, k ∈ ks → ∀ id, s.cache b k = some id → ((cancelKeys s b ks).mockers id).canceled = true) := by
  induction ks with
  | nil =>
    intro s hi
    refine ⟨hi, fun _ => Or.inl rfl, rfl, rfl, rfl, fun _ => ⟨rfl, rfl, id⟩, fun _ _ => rfl, ?_, ?_⟩
    · intro k hk; cases hk
    · intro k hk; cases hk
  | cons k ks ih =>
    intro s hi
    -- the head
    have head : ∃ s1 : St, s1 = (match s.cache b k with | some id => cancelMocker s id | none => s) ∧ Inv env s1 ∧
        (∀ x, s1.text x = s.text x ∨ s1.text x = env.pristine x) ∧ s1.cache = s.cache ∧ s1.keys = s.keys ∧ s1.guards = s.guards ∧
        (∀ j, (s1.mockers j).target = (s.mockers j).target ∧ (s1.mockers j).guard = (s.mockers j).guard ∧
              ((s.mockers j).canceled = true → (s1.mockers j).canceled = true)) ∧
        (∀ x, k % 1000 ≠ x → s1.text x = s.text x) ∧
        (∀ id g, s.cache b k = some id → (s.mockers id).guard = some g → (s.guards g).applied = true →
            s1.text (k % 1000) = env.pristine (k % 1000)) ∧
        (∀ id, s.cache b k = some id → (s1.mockers id).canceled = true) := by
      cases hc : s.cache b k with
      | none =>
        refine ⟨s, rfl, hi, fun _ => Or.inl rfl, rfl, rfl, rfl, fun _ => ⟨rfl, rfl, id⟩, fun _ _ => rfl, ?_, ?_⟩
        · intro id g h; cases h
        · intro id h; cases h
      | some id =>
        obtain ⟨c1, c2, c3, c4, c5, c6, c7, c8, c9⟩ := cancelMocker_spec he hi id
        have ht := (hi.ck b k id hc).1
        refine ⟨cancelMocker s id, rfl, c1, c3, c5, c6, c7, c9, ?_, ?_, ?_⟩
        · intro x hx; exact c2 x (by rw [ht]; exact fun h => hx h.symm)
        · intro id' g h1 h2 h3; cases h1; rw [← ht]; exact c4 g h2 h3
        · intro id' h; cases h; exact c8
    obtain ⟨s1, hs1, i1, t1, ca1, ke1, gu1, mo1, fr1, re1, cn1⟩ := head
    show _ ∧ _
    have hdef : cancelKeys s b (k :: ks) = cancelKeys s1 b ks := by rw [hs1]; rfl
    rw [hdef]
    obtain ⟨j1, j2, j3, j4, j5, j6, j7, j8, j9⟩ := ih i1
    refine ⟨j1, ?_, by rw [j3, ca1], by rw [j4, ke1], by rw [j5, gu1], ?_, ?_, ?_, ?_⟩
    · intro x
      rcases j2 x with h | h
      · rw [h]; exact t1 x
      · right; exact h
    · intro j
      refine ⟨by rw [(j6 j).1, (mo1 j).1], by rw [(j6 j).2.1, (mo1 j).2.1], fun h => (j6 j).2.2 ((mo1 j).2.2 h)⟩
    · intro x hx
      rw [j7 x (fun k' hk' => hx k' (List.mem_cons_of_mem _ hk'))]
      exact fr1 x (hx k (List.mem_cons_self))
    · intro k' hk' id g h1 h2 h3
      rcases List.mem_cons.mp hk' with h | h
      · subst h
        rcases j2 (k' % 1000) with h' | h'
        · rw [h']; exact re1 id g h1 h2 h3
        · exact h'
      · exact j8 k' h id g (by rw [ca1]; exact h1) (by rw [(mo1 id).2.1]; exact h2) (by rw [gu1]; exact h3)
    · intro k' hk' id h1
      rcases List.mem_cons.mp hk' with h | h
      · subst h; exact (j6 id).2.2 (cn1 id h1)
      · exact j9 k' h id (by rw [ca1]; exact h1)


/-! ### the public calls on the mocker a cache owner (builder or struct mocker) hands out -/

theorem doApply_spec {env : Env} (he : EnvOk env) {s : St} (hi : Inv env s) (o key k : Nat) (origin : Option Nat) :
    Inv env (doApply env s o key k origin).1 ∧ ∀ f, key % 1000 ≠ f → (doApply env s o key k origin).1.text f = s.text f := by
  obtain ⟨g1, g2, g3, _, _⟩ := getMocker_spec hi o key
  obtain ⟨o1, o2, _, _, _, o6⟩ := setOrigin_spec g1 (getMocker s o key).2 origin
  refine ⟨(applyCb_spec he o1 _ _).1, ?_⟩
  intro f hne
  have a := (applyImp_spec he o1 (getMocker s o key).2 (.cb k)).2.1 f (by rw [(o6 _).1, g3]; exact fun h => hne h.symm)
  show (applyCb env _ _ _).1.text f = _
  rw [(applyCb_spec he o1 _ k).2.1, a, o2, g2]

theorem doRet_spec {env : Env} (he : EnvOk env) {s : St} (hi : Inv env s) (o key : Nat) (origin : Option Nat) :
    Inv env (doRet env s o key origin).1 ∧ ∀ f, key % 1000 ≠ f → (doRet env s o key origin).1.text f = s.text f := by
  obtain ⟨g1, g2, g3, _, _⟩ := getMocker_spec hi o key
  obtain ⟨o1, o2, _, _, _, o6⟩ := setOrigin_spec g1 (getMocker s o key).2 origin
  unfold doRet
  split
  · exact ⟨o1, fun f _ => by rw [o2, g2]⟩
  · obtain ⟨w1, w2, _, _, w5⟩ := whens_spec o1 (getMocker s o key).2
    refine ⟨(applyImp_spec he w1 _ _).1, ?_⟩
    intro f hne
    rw [(applyImp_spec he w1 (getMocker s o key).2 _).2.1 f (by rw [(w5 _).1, (o6 _).1, g3]; exact fun h => hne h.symm), w2, o2, g2]

theorem doCancel_spec {env : Env} (he : EnvOk env) {s : St} (hi : Inv env s) (o key : Nat) :
    Inv env (doCancel s o key) ∧ ∀ f, key % 1000 ≠ f → (doCancel s o key).text f = s.text f := by
  obtain ⟨g1, g2, g3, _, _⟩ := getMocker_spec hi o key
  refine ⟨(cancelMocker_spec he g1 _).1, ?_⟩
  intro f hne
  show (cancelMocker _ _).text f = _
  rw [(cancelMocker_spec he g1 (getMocker s o key).2).2.1 f (by rw [g3]; exact fun h => hne h.symm), g2]

theorem doKeep_spec {env : Env} {s : St} (hi : Inv env s) (o b key : Nat) :
    Inv env (doKeep s o b key) ∧ (doKeep s o b key).text = s.text := by
  have g := getMocker_spec hi o key
  exact ⟨⟨g.1.saved, g.1.txt, g.1.reg, g.1.mg, g.1.ck⟩, g.2.1⟩

theorem getStruct_spec {env : Env} {s : St} (hi : Inv env s) (b : Nat) :
    Inv env (getStruct s b).1 ∧ (getStruct s b).1.text = s.text := by
  have hf : Inv env (getStruct.fresh s b).1 ∧ (getStruct.fresh s b).1.text = s.text :=
    ⟨⟨hi.saved, hi.txt, hi.reg, hi.mg, hi.ck⟩, rfl⟩
  unfold getStruct
  cases s.scache b with
  | none => exact hf
  | some o =>
    simp only []
    split
    · exact hf
    · exact ⟨hi, rfl⟩

theorem structOf_spec {env : Env} {s : St} (hi : Inv env s) (b : Nat) (kept : Bool) (r : St × Nat)
    (h : structOf s b kept = some r) : Inv env r.1 ∧ r.1.text = s.text := by
  unfold structOf at h
  split at h
  · cases hs : s.shandle b with
    | none => rw [hs] at h; cases h
    | some o => rw [hs] at h; cases h; exact ⟨hi, rfl⟩
  · cases h; exact getStruct_spec hi b

/-- cancelling keys whose guards' targets are already pristine changes no byte -/
theorem cancelKeys_noop {env : Env} (he : EnvOk env) (b : Nat) (ks : List Nat) : ∀ {s : St}, Inv env s →
    (∀ k, k ∈ ks → ∀ id g, s.cache b k = some id → (s.mockers id).guard = some g → (s.guards g).applied = true →
      s.text (k % 1000) = env.pristine (k % 1000)) → ∀ x, (cancelKeys s b ks).text x = s.text x := by
  induction ks with
  | nil => intro s _ _ x; rfl
  | cons k ks ih =>
    intro s hs hp x
    cases hc : s.cache b k with
    | none =>
      have : cancelKeys s b (k :: ks) = cancelKeys s b ks := by simp [cancelKeys, hc]
      rw [this]; exact ih hs (fun k' hk' => hp k' (List.mem_cons_of_mem _ hk')) x
    | some id =>
      have hdef : cancelKeys s b (k :: ks) = cancelKeys (cancelMocker s id) b ks := by simp [cancelKeys, hc]
      obtain ⟨c1, c2, c3, c4, c5, c6, c7, c8, c9⟩ := cancelMocker_spec he hs id
      have ht := (hs.ck b k id hc).1
      have same : ∀ y, (cancelMocker s id).text y = s.text y := by
        intro y
        by_cases hy : y = (s.mockers id).target
        · cases hgd : (s.mockers id).guard with
          | none => simp [cancelMocker, cancelGuard, hgd, markCanceled]
          | some g =>
            by_cases hap : (s.guards g).applied = true
            · rw [hy, c4 g hgd hap, ht]; exact (hp k List.mem_cons_self id g hc hgd hap).symm
            · simp [cancelMocker, cancelGuard, hgd, markCanceled, guardUnpatch, hap]
        · exact c2 y hy
      rw [hdef, ih c1 ?_ x, same x]
      intro k' hk' id' g' h1 h2 h3
      rw [same]; rw [c5] at h1; rw [(c9 id').2.1] at h2; rw [c7] at h3
      exact hp k' (List.mem_cons_of_mem _ hk') id' g' h1 h2 h3

theorem cancelMocker_scache (s : St) (id : Nat) : (cancelMocker s id).scache = s.scache := by
  unfold cancelMocker markCanceled cancelGuard
  cases (s.mockers id).guard with
  | none => rfl
  | some g => simp only []; unfold guardUnpatch; split <;> rfl

theorem cancelKeys_scache (b : Nat) (ks : List Nat) : ∀ (s : St), (cancelKeys s b ks).scache = s.scache := by
  induction ks with
  | nil => intro s; rfl
  | cons k ks ih =>
    intro s
    unfold cancelKeys
    cases s.cache b k with
    | none => exact ih s
    | some id => simp only []; rw [ih]; exact cancelMocker_scache s id

/-- the pristine-targets condition that a completed `cancelKeys` establishes and later cancels preserve -/
def Restored (env : Env) (s : St) (o : Nat) (ks : List Nat) : Prop :=
  ∀ k, k ∈ ks → ∀ id g, s.cache o k = some id → (s.mockers id).guard = some g → (s.guards g).applied = true →
    s.text (k % 1000) = env.pristine (k % 1000)

theorem restored_after {env : Env} (he : EnvOk env) {s : St} (hi : Inv env s) (o : Nat) (ks : List Nat) :
    Restored env (cancelKeys s o ks) o ks := by
  obtain ⟨_, _, c, _, g, m, _, r, _⟩ := cancelKeys_spec he o ks hi
  intro k hk id gd h1 h2 h3
  rw [c] at h1; rw [(m id).2.1] at h2; rw [g] at h3
  exact r k hk id gd h1 h2 h3

theorem restored_preserved {env : Env} (he : EnvOk env) {s : St} (hi : Inv env s) (o o' : Nat) (ks ks' : List Nat)
    (h : Restored env s o ks) : Restored env (cancelKeys s o' ks') o ks := by
  obtain ⟨_, t, c, _, g, m, _, _, _⟩ := cancelKeys_spec he o' ks' hi
  intro k hk id gd h1 h2 h3
  rw [c] at h1; rw [(m id).2.1] at h2; rw [g] at h3
  rcases t (k % 1000) with e | e
  · rw [e]; exact h k hk id gd h1 h2 h3
  · exact e

/-- what `Reset` leaves behind besides the restored text: same caches, every entry of the builder and of its struct mocker cancelled -/
theorem resetB_spec {env : Env} (he : EnvOk env) {s : St} (hi : Inv env s) (b : Nat) :
    Inv env (resetB s b) ∧ (resetB s b).cache = s.cache ∧ (resetB s b).scache = s.scache ∧
    (∀ key id, s.cache b key = some id → ((resetB s b).mockers id).canceled = true) ∧
    (∀ o key id, s.scache b = some o → s.cache o key = some id → ((resetB s b).mockers id).canceled = true) := by
  obtain ⟨ia, _, ca, ka, _, _, _, _, cna⟩ := cancelKeys_spec he b (s.keys b) hi
  unfold resetB
  cases hs : s.scache b with
  | none =>
    refine ⟨ia, ca, cancelKeys_scache _ _ _, ?_, ?_⟩
    · intro key id h; exact cna key (hi.ck b key id h).2.1 id h
    · intro o key id h; cases h
  | some o =>
    simp only []
    obtain ⟨ib, _, cb, _, _, mb, _, _, cnb⟩ := cancelKeys_spec he o ((cancelKeys s b (s.keys b)).keys o) ia
    refine ⟨ib, by rw [cb, ca], by rw [cancelKeys_scache, cancelKeys_scache], ?_, ?_⟩
    · intro key id h; exact (mb id).2.2 (cna key (hi.ck b key id h).2.1 id h)
    · intro o' key id h h2
      cases h
      exact cnb key (by rw [ka]; exact (hi.ck _ key id h2).2.1) id (by rw [ca]; exact h2)

end C02L
