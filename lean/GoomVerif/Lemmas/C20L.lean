import GoomVerif.Model.Stub
/-! Lemmas for C20.  The generated expressions of `Gen.StubHolder` are unfolded only in the section
    "what the generated expressions mean"; everything else argues about these meanings. -/
namespace C20L
open Stub Gen.StubHolder

/-! ### what the generated expressions mean (re-proved whenever holder.go changes) -/

theorem wadd_eq {a b : Nat} (h : a + b < 18446744073709551616) : wadd a b = a + b := by
  unfold wadd; exact Nat.mod_eq_of_lt h

/-- first check, safety direction: when the error branch is NOT taken the request fits behind the loaded offset.
    (Deliberately one-directional: a more conservative comparison in holder.go still proves.) -/
theorem gen_check1_safe (p l mi ma : Nat) (h : p + l < 18446744073709551616) :
    check1Fails p l mi ma = false → p + l ≤ ma := by
  intro hc
  unfold check1Fails wadd at hc
  have e := Nat.mod_eq_of_lt h
  simp at hc
  omega

/-- first check, exhaustion direction: a request that does not fit behind the loaded offset is refused -/
theorem gen_check1_refuses (p l mi ma : Nat) (h : p + l < 18446744073709551616) :
    ma < p + l → check1Fails p l mi ma = true := by
  intro hc
  unfold check1Fails wadd
  have e := Nat.mod_eq_of_lt h
  simp
  omega

/-- second check, safety direction: when the error branch is NOT taken the new offset is inside the reserve -/
theorem gen_check2_safe (p n l mi ma : Nat) : check2Fails p n l mi ma = false → n ≤ ma := by
  intro hc
  unfold check2Fails at hc
  simp at hc
  omega

/-- argument check, safety direction: a request that is NOT refused up front has a non-negative length.
    THIS fails for the code without the check (negative `int` lengths wrap to huge uintptr values, pass both bound checks
    and move the bump pointer backwards). -/
theorem gen_guard_safe (r : Int) : guardFails r = false → 0 ≤ r := by
  intro h
  unfold guardFails at h
  simp at h
  omega

/-- the length guard of Write, safety direction: data that is not refused fits the region -/
theorem gen_write_safe (d l : Nat) : writeRejects d l = false → d ≤ l := by
  intro h
  unfold writeRejects at h
  simp at h
  omega

/-- … and data that fits is never refused (so the guard does not make regions unwritable) -/
theorem gen_write_accepts (d l : Nat) : d ≤ l → writeRejects d l = false := by
  intro h
  unfold writeRejects
  first
    | (simp; done)
    | (simp; omega)

theorem ulen_nonneg {r : Int} (h0 : 0 ≤ r) (h1 : r < 9223372036854775808) :
    ulen r = r.toNat ∧ r.toNat < 9223372036854775808 := by
  unfold ulen; omega

/-- the length of the returned slice is the requested length -/
theorem gen_len (p n l mi ma : Nat) : sliceLen p n l mi ma = l ∧ sliceCap p n l mi ma = l := by
  unfold sliceLen sliceCap; exact ⟨rfl, rfl⟩

/-- the returned slice starts at the returned address -/
theorem gen_data (p n l mi ma : Nat) : sliceData p n l mi ma = retAddr p n l mi ma := by
  unfold sliceData retAddr; rfl

/-- the returned address is where the caller's own add started (`newOffset - len`).
    THIS is the statement that fails for the code that returns the loaded offset (defect F12). -/
theorem gen_ret (p n l mi ma : Nat) (h1 : l ≤ n) (h2 : n < 18446744073709551616) :
    retAddr p n l mi ma = n - l := by
  simp only [retAddr, wsub]
  omega

/-- without interference the loaded offset is where the add started, so either reading of the code gives it -/
theorem gen_ret_seq (off l mi ma : Nat) (h : off + l < 18446744073709551616) :
    retAddr off (off + l) l mi ma = off := by
  simp only [retAddr, wsub]
  try omega

/-- init(): the reserve is `[offset, offset+size)` and the bump pointer starts at its beginning -/
theorem gen_init (offset size : Nat) (h : offset + size < 18446744073709551616) :
    initOff offset size = offset ∧ initMin offset size = offset ∧ initMax offset size = offset + size := by
  unfold initOff initMin initMax wadd
  refine ⟨rfl, rfl, ?_⟩
  rw [Nat.mod_eq_of_lt (by omega)]; omega

/-! ### one caller at a time -/

theorem acquireFromHolder_spec (off min max len : Nat) (h1 : off ≤ max) (h2 : max < 9223372036854775808)
    (hl : len < 9223372036854775808) :
    (acquireFromHolder off min max len = (off, .err) ∨
      (off + len ≤ max ∧ (acquireFromHolder off min max len = (off + len, .ok off len) ∨
                          acquireFromHolder off min max len = (off + len, .err)))) ∧
    (max < off + len → acquireFromHolder off min max len = (off, .err)) := by
  have hw : off + len < 18446744073709551616 := by omega
  unfold acquireFromHolder
  simp only [wadd_eq hw, gen_ret_seq off len min max hw, (gen_len _ _ _ _ _).1]
  cases c1 : check1Fails off len min max
  · have f1 := gen_check1_safe off len min max hw c1
    simp only [Bool.false_eq_true, if_false]
    refine ⟨Or.inr ⟨f1, ?_⟩, fun h => by omega⟩
    cases c2 : check2Fails off (off + len) len min max
    · left; simp only [Bool.false_eq_true, if_false]
    · right; simp only [if_true]
  · simp only [if_true]
    exact ⟨Or.inl trivial, fun _ => trivial⟩

/-- the five micro-steps of one requester alone are `acquireFromHolder` -/
theorem run_alone (off min max len : Nat) :
    let s := run (init off min max [len]) [0, 0, 0, 0, 0]
    (s.off, resultOf s 0) = ((acquireFromHolder off min max len).1, some (acquireFromHolder off min max len).2) := by
  simp only [run, init, List.foldl_cons, List.foldl_nil, List.map_cons, List.map_nil, Th.fresh]
  unfold acquireFromHolder
  by_cases c1 : check1Fails off len min max = true
  · simp [step, stepTh, c1, resultOf]
  · by_cases c2 : check2Fails off (wadd off len) len min max = true
    · simp [step, stepTh, c1, c2, resultOf]
    · simp [step, stepTh, c1, c2, resultOf]

/-! ### sequential histories of `Acquire` -/

theorem acquire_cases (mm : Mmap) (off min max : Nat) (r : Int) (h1 : off ≤ max) (h2 : max < 9223372036854775808)
    (hl : r < 9223372036854775808) :
    (∃ a, mm = .fresh a ∧ acquire mm off min max r = (off, some ⟨a, r.toNat, typeMMap⟩)) ∨
    (mm = .fail ∧ 0 ≤ r ∧ off + r.toNat ≤ max ∧ acquire mm off min max r = (off + r.toNat, some ⟨off, r.toNat, typeHolder⟩)) ∨
    (mm = .fail ∧ ∃ o, off ≤ o ∧ o ≤ max ∧ acquire mm off min max r = (o, none)) := by
  cases mm with
  | fresh a => left; exact ⟨a, rfl, rfl⟩
  | fail =>
    right
    cases g : guardFails r
    · have h0 := gen_guard_safe r g
      have hu := ulen_nonneg h0 hl
      rcases (acquireFromHolder_spec off min max r.toNat h1 h2 hu.2).1 with e | ⟨hfit, e | e⟩
      · right; exact ⟨rfl, off, Nat.le_refl _, h1, by simp only [acquire, acquireFromHolderI, g, hu.1, e]; rfl⟩
      · left; exact ⟨rfl, h0, hfit, by simp only [acquire, acquireFromHolderI, g, hu.1, e]; rfl⟩
      · right; exact ⟨rfl, off + r.toNat, by omega, hfit, by simp only [acquire, acquireFromHolderI, g, hu.1, e]; rfl⟩
    · right; exact ⟨rfl, off, Nat.le_refl _, h1, by simp only [acquire, acquireFromHolderI, g]; rfl⟩

theorem typ_ne : typeMMap ≠ typeHolder := by decide

/-- invariant of sequential histories: `off` stays in `[off₀, max]`; regions lie in `[off₀, max)`, in increasing
    order without overlap, each exactly as long as requested -/
theorem seq_inv (min max : Nat) (h2 : max < 9223372036854775808) :
    ∀ (reqs : List (Int × Mmap)) (off : Nat), off ≤ max → (∀ r ∈ reqs, r.1 < 9223372036854775808) →
      (off ≤ offSeq off min max reqs ∧ offSeq off min max reqs ≤ max) ∧
      (∀ r ∈ holderRegions (runSeq off min max reqs), off ≤ r.1 ∧ r.1 + r.2 ≤ max) ∧
      (holderRegions (runSeq off min max reqs)).Pairwise (fun a b => a.1 + a.2 ≤ b.1) ∧
      (∀ q ∈ runSeq off min max reqs, ∀ sp, q.2 = some sp → q.1 ≤ (sp.len : Int) ∧ (sp.typ = typeHolder → 0 ≤ q.1)) := by
  intro reqs
  induction reqs with
  | nil => intro off h _; simp [offSeq, runSeq, holderRegions, h]
  | cons q rest ih =>
    intro off h1 hl
    obtain ⟨len, mm⟩ := q
    have hlen : len < 9223372036854775808 := hl (len, mm) (List.mem_cons_self)
    have hrest : ∀ r ∈ rest, r.1 < 9223372036854775808 := fun r hr => hl r (List.mem_cons_of_mem _ hr)
    rcases acquire_cases mm off min max len h1 h2 hlen with ⟨a, _, e⟩ | ⟨_, h0, hfit, e⟩ | ⟨_, o, ho1, ho2, e⟩
    · have IH := ih off h1 hrest
      simp only [offSeq, runSeq, e, holderRegions, typ_ne, if_false]
      refine ⟨IH.1, IH.2.1, IH.2.2.1, ?_⟩
      intro q hq sp hsp
      rcases List.mem_cons.mp hq with rfl | hq
      · simp only [Option.some.injEq] at hsp; rw [← hsp]
        refine ⟨by simp only; omega, fun h => absurd h typ_ne⟩
      · exact IH.2.2.2 q hq sp hsp
    · have IH := ih (off + len.toNat) hfit hrest
      simp only [offSeq, runSeq, e, holderRegions, if_true]
      refine ⟨⟨by omega, IH.1.2⟩, ?_, ?_, ?_⟩
      · intro r hr
        rcases List.mem_cons.mp hr with rfl | hr
        · simp only; omega
        · have := IH.2.1 r hr; omega
      · refine List.pairwise_cons.mpr ⟨?_, IH.2.2.1⟩
        intro r hr
        have := IH.2.1 r hr
        simp only; omega
      · intro q hq sp hsp
        rcases List.mem_cons.mp hq with rfl | hq
        · simp only [Option.some.injEq] at hsp; rw [← hsp]
          refine ⟨by simp only; omega, fun _ => h0⟩
        · exact IH.2.2.2 q hq sp hsp
    · have IH := ih o ho2 hrest
      simp only [offSeq, runSeq, e, holderRegions]
      refine ⟨⟨by omega, IH.1.2⟩, ?_, IH.2.2.1, ?_⟩
      · intro r hr; have := IH.2.1 r hr; omega
      · intro q hq sp hsp
        rcases List.mem_cons.mp hq with rfl | hq
        · simp at hsp
        · exact IH.2.2.2 q hq sp hsp

/-- all regions of a sequential history: each is one of the kernel's answers or lies in `[off, max]`; pairwise disjoint
    when the kernel's answers are pairwise disjoint and outside `[min, max)` -/
theorem seq_all_disjoint (min max : Nat) (h2 : max < 9223372036854775808) :
    ∀ (reqs : List (Int × Mmap)) (off : Nat), min ≤ off → off ≤ max → (∀ r ∈ reqs, r.1 < 9223372036854775808) →
      (kernelAnswers reqs).Pairwise disj → (∀ c ∈ kernelAnswers reqs, c.1 + c.2 ≤ min ∨ max ≤ c.1) →
      (allRegions (runSeq off min max reqs)).Pairwise disj ∧
      (∀ c ∈ allRegions (runSeq off min max reqs), c ∈ kernelAnswers reqs ∨ (off ≤ c.1 ∧ c.1 + c.2 ≤ max)) := by
  intro reqs
  induction reqs with
  | nil => intro off _ _ _ _ _; simp [runSeq, allRegions]
  | cons q rest ih =>
    intro off h0 h1 hl hk ho
    obtain ⟨len, mm⟩ := q
    have hlen : len < 9223372036854775808 := hl (len, mm) (List.mem_cons_self)
    have hrest : ∀ r ∈ rest, r.1 < 9223372036854775808 := fun r hr => hl r (List.mem_cons_of_mem _ hr)
    rcases acquire_cases mm off min max len h1 h2 hlen with ⟨a, hm, e⟩ | ⟨hm, _, hfit, e⟩ | ⟨hm, o, ho1, ho2, e⟩
    · subst hm
      simp only [kernelAnswers, List.pairwise_cons] at hk
      have ho' : ∀ c ∈ kernelAnswers rest, c.1 + c.2 ≤ min ∨ max ≤ c.1 := fun c hc => ho c (by simp only [kernelAnswers]; exact List.mem_cons_of_mem _ hc)
      have hhead := ho (a, len.toNat) (by simp only [kernelAnswers]; exact List.mem_cons_self)
      have IH := ih off h0 h1 hrest hk.2 ho'
      simp only [runSeq, e, allRegions, kernelAnswers]
      refine ⟨List.pairwise_cons.mpr ⟨?_, IH.1⟩, ?_⟩
      · intro c hc
        rcases IH.2 c hc with hin | hb
        · exact hk.1 c hin
        · unfold disj; simp only at hhead ⊢; omega
      · intro c hc
        rcases List.mem_cons.mp hc with rfl | hc
        · left; exact List.mem_cons_self
        · rcases IH.2 c hc with hin | hb
          · left; exact List.mem_cons_of_mem _ hin
          · right; exact hb
    · subst hm
      simp only [kernelAnswers] at hk ho
      have IH := ih (off + len.toNat) (by omega) hfit hrest hk ho
      simp only [runSeq, e, allRegions, kernelAnswers]
      refine ⟨List.pairwise_cons.mpr ⟨?_, IH.1⟩, ?_⟩
      · intro c hc
        rcases IH.2 c hc with hin | hb
        · have := ho c hin; unfold disj; simp only; omega
        · unfold disj; simp only; omega
      · intro c hc
        rcases List.mem_cons.mp hc with rfl | hc
        · right; simp only; omega
        · rcases IH.2 c hc with hin | hb
          · left; exact hin
          · right; omega
    · subst hm
      simp only [kernelAnswers] at hk ho
      have IH := ih o (by omega) ho2 hrest hk ho
      simp only [runSeq, e, allRegions, kernelAnswers]
      refine ⟨IH.1, ?_⟩
      intro c hc
      rcases IH.2 c hc with hin | hb
      · left; exact hin
      · right; omega

/-! ### every schedule of concurrent requesters -/

/-- the region a requester owns: from its atomic add on, `[newOffset - len, newOffset)`; after returning, its result -/
def claim (t : Th) : Option (Nat × Nat) :=
  match t.pc with
  | .check2 => some (t.new - t.len, t.len)
  | .ret => some (t.new - t.len, t.len)
  | .done => match t.res with
    | some (.ok a l) => some (a, l)
    | _ => none
  | _ => none

/-- what is known about one requester, relative to the shared offset -/
def thOk (off min max : Nat) (t : Th) : Prop :=
  (t.pc = .done ∨ t.len < 9223372036854775808) ∧
  match t.pc with
  | .load => t.res = none
  | .check1 => t.res = none ∧ min ≤ t.loaded ∧ t.loaded ≤ off
  | .add => t.res = none ∧ min ≤ t.loaded ∧ t.loaded ≤ off ∧ t.loaded + t.len ≤ max
  | .check2 => t.res = none ∧ min + t.len ≤ t.new ∧ t.new ≤ off
  | .ret => t.res = none ∧ min + t.len ≤ t.new ∧ t.new ≤ off ∧ t.new ≤ max
  | .done => t.res = some .err ∨ ∃ a, t.res = some (.ok a t.len) ∧ min ≤ a ∧ a + t.len ≤ off ∧ a + t.len ≤ max

/-- potential: how far `off` can still be pushed by requesters that have not added yet (each by at most `d`) -/
def weight (d : Nat) (t : Th) : Nat :=
  match t.pc with
  | .load => d
  | .check1 => d
  | .add => d
  | _ => 0

def pot (d : Nat) : List Th → Nat
  | [] => 0
  | t :: ts => weight d t + pot d ts

theorem pot_set (d : Nat) (t t' : Th) : ∀ (l : List Th) (i : Nat), l[i]? = some t →
    pot d (l.set i t') + weight d t = pot d l + weight d t' := by
  intro l
  induction l with
  | nil => intro i h; simp at h
  | cons x xs ih =>
    intro i h
    cases i with
    | zero =>
      simp only [List.getElem?_cons_zero, Option.some.injEq] at h
      subst h
      simp only [List.set_cons_zero, pot]; omega
    | succ k =>
      simp only [List.getElem?_cons_succ] at h
      have := ih k h
      simp only [List.set_cons_succ, pot]; omega

theorem pot_fresh (d : Nat) (lens : List Nat) : pot d (lens.map Th.fresh) = lens.length * d := by
  induction lens with
  | nil => simp [pot]
  | cons x xs ih => simp only [List.map_cons, pot, ih, Th.fresh, weight, List.length_cons]; rw [Nat.add_mul]; omega

/-- the invariant of the transition system; `B` bounds how far `off` can ever get -/
structure Inv (B : Nat) (s : St) : Prop where
  hB : B < 9223372036854775808
  hmm : s.min ≤ s.max
  hmo : s.min ≤ s.off
  hpot : s.off + pot (s.max - s.min) s.th ≤ B
  hth : ∀ (i : Nat) (t : Th), s.th[i]? = some t → thOk s.off s.min s.max t
  hdisj : ∀ (i j : Nat) (ti tj : Th) (ci cj : Nat × Nat), i ≠ j → s.th[i]? = some ti → s.th[j]? = some tj →
            claim ti = some ci → claim tj = some cj → disj ci cj

theorem thOk_mono {off off' min max : Nat} {t : Th} (h : off ≤ off') (ok : thOk off min max t) : thOk off' min max t := by
  obtain ⟨hl, ok⟩ := ok
  refine ⟨hl, ?_⟩
  cases hpc : t.pc <;> simp only [hpc] at ok ⊢
  · exact ok
  · exact ⟨ok.1, by omega, by omega⟩
  · exact ⟨ok.1, by omega, by omega, by omega⟩
  · exact ⟨ok.1, by omega, by omega⟩
  · exact ⟨ok.1, by omega, by omega, by omega⟩
  · rcases ok with e | ⟨a, e, h1, h2, h3⟩
    · exact Or.inl e
    · exact Or.inr ⟨a, e, h1, by omega, h3⟩

/-- a claimed region lies inside `[min, off)` -/
theorem claim_bounds {off min max : Nat} {t : Th} {c : Nat × Nat} (ok : thOk off min max t) (hc : claim t = some c) :
    min ≤ c.1 ∧ c.1 + c.2 ≤ off := by
  obtain ⟨hl, ok⟩ := ok
  unfold claim at hc
  cases hpc : t.pc <;> simp only [hpc] at ok hc
  · simp at hc
  · simp at hc
  · simp at hc
  · simp only [Option.some.injEq] at hc; subst hc; simp only; omega
  · simp only [Option.some.injEq] at hc; subst hc; simp only; omega
  · rcases ok with e | ⟨a, e, h1, h2, h3⟩
    · simp [e] at hc
    · simp only [e, Option.some.injEq] at hc; subst hc; simp only; omega


theorem weight_le_pot (d : Nat) (t : Th) : ∀ (l : List Th) (i : Nat), l[i]? = some t → weight d t ≤ pot d l := by
  intro l
  induction l with
  | nil => intro i h; simp at h
  | cons x xs ih =>
    intro i h
    cases i with
    | zero =>
      simp only [List.getElem?_cons_zero, Option.some.injEq] at h
      subst h; simp only [pot]; omega
    | succ k =>
      simp only [List.getElem?_cons_succ] at h
      have := ih k h
      simp only [pot]; omega

/-- one micro-step of one requester: `off` only grows, the potential pays for the growth, the requester stays
    well-formed, and a region claimed by the step starts at the old `off` -/
theorem stepTh_facts {B off min max : Nat} {t : Th} (hB : B < 9223372036854775808) (hmm : min ≤ max) (hmo : min ≤ off)
    (hw : off + weight (max - min) t ≤ B) (ok : thOk off min max t) :
    off ≤ (stepTh off min max t).1 ∧
    (stepTh off min max t).1 + weight (max - min) (stepTh off min max t).2 ≤ off + weight (max - min) t ∧
    thOk (stepTh off min max t).1 min max (stepTh off min max t).2 ∧
    (∀ c, claim (stepTh off min max t).2 = some c → claim t = some c ∨ off ≤ c.1) := by
  obtain ⟨hl, ok⟩ := ok
  unfold stepTh
  have hwt : weight (max - min) t = match t.pc with | .load => max - min | .check1 => max - min | .add => max - min | _ => 0 := rfl
  rw [hwt] at hw ⊢
  have hlen : t.pc ≠ .done → t.len < 9223372036854775808 := fun h => hl.resolve_left h
  cases hpc : t.pc <;> simp only [hpc] at ok hw ⊢ <;> (try have hl := hlen (by rw [hpc]; decide))
  · -- load
    simp only [weight, claim, thOk]
    refine ⟨by omega, by omega, ⟨Or.inr hl, ok, hmo, by omega⟩, ?_⟩
    intro c hc; simp at hc
  · -- check1
    have hlo : t.loaded + t.len < 18446744073709551616 := by omega
    cases c1 : check1Fails t.loaded t.len min max
    · have hf := gen_check1_safe _ _ _ _ hlo c1
      simp only [Bool.false_eq_true, if_false, weight, claim, thOk]
      refine ⟨by omega, by omega, ⟨Or.inr hl, ok.1, by omega, by omega, by omega⟩, ?_⟩
      intro c hc; simp at hc
    · simp only [if_true, weight, claim, thOk]
      refine ⟨by omega, by omega, ⟨Or.inl trivial, Or.inl trivial⟩, ?_⟩
      intro c hc; simp at hc
  · -- add
    have hlo : off + t.len < 18446744073709551616 := by omega
    rw [wadd_eq hlo]
    simp only [weight, claim, thOk]
    refine ⟨by omega, by omega, ⟨Or.inr hl, ok.1, by omega, by omega⟩, ?_⟩
    intro c hc
    simp only [Option.some.injEq] at hc
    right; rw [← hc]; simp only; omega
  · -- check2
    cases c2 : check2Fails t.loaded t.new t.len min max
    · have hf := gen_check2_safe _ _ _ _ _ c2
      simp only [Bool.false_eq_true, if_false, weight, claim, thOk, hpc]
      refine ⟨by omega, by omega, ⟨Or.inr hl, ok.1, by omega, by omega, by omega⟩, ?_⟩
      intro c hc; left; exact hc
    · simp only [if_true, weight, claim, thOk]
      refine ⟨by omega, by omega, ⟨Or.inl trivial, Or.inl trivial⟩, ?_⟩
      intro c hc; simp at hc
  · -- ret
    have hn : t.new < 18446744073709551616 := by omega
    rw [gen_ret _ _ _ _ _ (by omega) hn, (gen_len _ _ _ _ _).1]
    simp only [weight, claim, thOk, hpc]
    refine ⟨by omega, by omega, ⟨Or.inl trivial, Or.inr ⟨t.new - t.len, rfl, by omega, by omega, by omega⟩⟩, ?_⟩
    intro c hc; left; exact hc
  · -- done
    simp only [weight, thOk, hpc]
    refine ⟨by omega, by omega, ⟨Or.inl trivial, ok⟩, ?_⟩
    intro c hc; left; exact hc

theorem inv_step {B : Nat} {s : St} (inv : Inv B s) (i : Nat) : Inv B (step s i) := by
  unfold step
  cases h : s.th[i]? with
  | none => exact inv
  | some t =>
    simp only
    have hilt : i < s.th.length := (List.getElem?_eq_some_iff.mp h).1
    have okt := inv.hth i t h
    have hwp := weight_le_pot (s.max - s.min) t s.th i h
    have hpot := inv.hpot
    have F := stepTh_facts inv.hB inv.hmm inv.hmo (by omega) okt
    obtain ⟨Fa, Fb, Fc, Fd⟩ := F
    have hps := pot_set (s.max - s.min) t (stepTh s.off s.min s.max t).2 s.th i h
    have get : ∀ k : Nat, (s.th.set i (stepTh s.off s.min s.max t).2)[k]? =
        if i = k then some (stepTh s.off s.min s.max t).2 else s.th[k]? := by
      intro k; rw [List.getElem?_set]; simp only [hilt, if_true]
    refine ⟨inv.hB, inv.hmm, Nat.le_trans inv.hmo Fa, by simp only; omega, ?_, ?_⟩
    · intro k tk hk
      simp only [get] at hk
      by_cases e : i = k
      · simp only [e, if_true, Option.some.injEq] at hk; rw [← hk]; exact Fc
      · simp only [e, if_false] at hk; exact thOk_mono Fa (inv.hth k tk hk)
    · intro j k tj tk cj ck hjk hj hk hcj hck
      simp only [get] at hj hk
      by_cases ej : i = j
      · have ek : ¬ i = k := by omega
        simp only [ej, if_true, Option.some.injEq] at hj
        simp only [ek, if_false] at hk
        rw [← hj] at hcj
        rcases Fd cj hcj with old | fresh
        · exact inv.hdisj i k t tk cj ck (by omega) h hk old hck
        · have := claim_bounds (inv.hth k tk hk) hck
          right; omega
      · simp only [ej, if_false] at hj
        by_cases ek : i = k
        · simp only [ek, if_true, Option.some.injEq] at hk
          rw [← hk] at hck
          rcases Fd ck hck with old | fresh
          · exact inv.hdisj j i tj t cj ck (by omega) hj h hcj old
          · have := claim_bounds (inv.hth j tj hj) hcj
            left; omega
        · simp only [ek, if_false] at hk
          exact inv.hdisj j k tj tk cj ck hjk hj hk hcj hck

theorem inv_run {B : Nat} (σ : List Nat) : ∀ {s : St}, Inv B s → Inv B (run s σ) := by
  induction σ with
  | nil => intro s h; exact h
  | cons i rest ih => intro s h; simp only [run, List.foldl_cons]; exact ih (inv_step h i)

theorem inv_init (off min max : Nat) (lens : List Nat) (h1 : min ≤ off) (h2 : off ≤ max)
    (hl : ∀ l ∈ lens, l < 9223372036854775808)
    (hB : max + lens.length * (max - min) < 9223372036854775808) :
    Inv (max + lens.length * (max - min)) (init off min max lens) := by
  refine ⟨hB, (by show min ≤ max; omega), h1, ?_, ?_, ?_⟩
  · simp only [init, pot_fresh]; omega
  · intro i t hi
    simp only [init, List.getElem?_map] at hi
    cases hh : lens[i]? with
    | none => simp [hh] at hi
    | some l =>
      simp only [hh, Option.map_some, Option.some.injEq] at hi
      rw [← hi]
      exact ⟨Or.inr (hl l (List.mem_of_getElem? hh)), rfl⟩
  · intro i j ti tj ci cj _ hi _ hci _
    simp only [init, List.getElem?_map] at hi
    cases hh : lens[i]? with
    | none => simp [hh] at hi
    | some l =>
      simp only [hh, Option.map_some, Option.some.injEq] at hi
      rw [← hi] at hci
      simp [claim, Th.fresh] at hci

/-! ### from the invariant to the statement about results -/

theorem stepTh_len (off min max : Nat) (t : Th) : (stepTh off min max t).2.len = t.len := by
  unfold stepTh
  cases hpc : t.pc <;> simp only
  · split <;> rfl
  · split <;> rfl

theorem step_frame (s : St) (i : Nat) :
    (step s i).min = s.min ∧ (step s i).max = s.max ∧
    ∀ k : Nat, ((step s i).th[k]?).map (·.len) = (s.th[k]?).map (·.len) := by
  unfold step
  cases h : s.th[i]? with
  | none => exact ⟨rfl, rfl, fun _ => rfl⟩
  | some t =>
    refine ⟨rfl, rfl, ?_⟩
    intro k
    have hilt : i < s.th.length := (List.getElem?_eq_some_iff.mp h).1
    simp only [List.getElem?_set, hilt, if_true]
    by_cases e : i = k
    · subst e; simp only [if_true, h, Option.map_some, stepTh_len]
    · simp only [e, if_false]

theorem run_frame (σ : List Nat) : ∀ (s : St),
    (run s σ).min = s.min ∧ (run s σ).max = s.max ∧
    ∀ k : Nat, ((run s σ).th[k]?).map (·.len) = (s.th[k]?).map (·.len) := by
  induction σ with
  | nil => intro s; exact ⟨rfl, rfl, fun _ => rfl⟩
  | cons i rest ih =>
    intro s
    simp only [run, List.foldl_cons]
    have a := ih (step s i)
    have b := step_frame s i
    simp only [run] at a
    exact ⟨a.1.trans b.1, a.2.1.trans b.2.1, fun k => (a.2.2 k).trans (b.2.2 k)⟩

/-- a returned region is the requester's claim and satisfies the bounds -/
theorem result_facts {off min max : Nat} {t : Th} {a l : Nat} (ok : thOk off min max t) (hr : t.res = some (.ok a l)) :
    claim t = some (a, l) ∧ l = t.len ∧ min ≤ a ∧ a + l ≤ max := by
  obtain ⟨hl, ok⟩ := ok
  unfold claim
  cases hpc : t.pc <;> simp only [hpc] at ok ⊢
  · rw [ok] at hr; simp at hr
  · rw [ok.1] at hr; simp at hr
  · rw [ok.1] at hr; simp at hr
  · rw [ok.1] at hr; simp at hr
  · rw [ok.1] at hr; simp at hr
  · rcases ok with e | ⟨a', e, h1, h2, h3⟩
    · rw [e] at hr; simp at hr
    · rw [e] at hr
      simp only [Option.some.injEq, Res.ok.injEq] at hr
      obtain ⟨ha, hl'⟩ := hr
      subst ha; subst hl'
      simp only [e]
      exact ⟨trivial, trivial, h1, h3⟩

theorem conc_main (off min max : Nat) (lens : List Nat) (σ : List Nat)
    (h0 : min ≤ off) (h1 : off ≤ max) (hl : ∀ l ∈ lens, l < 9223372036854775808)
    (hB : max + lens.length * (max - min) < 9223372036854775808) :
    (∀ i a l, resultOf (run (init off min max lens) σ) i = some (.ok a l) →
        min ≤ a ∧ a + l ≤ max ∧ lens[i]? = some l) ∧
    (∀ i j a l a' l', i ≠ j → resultOf (run (init off min max lens) σ) i = some (.ok a l) →
        resultOf (run (init off min max lens) σ) j = some (.ok a' l') → disj (a, l) (a', l')) := by
  have inv := inv_run σ (inv_init off min max lens h0 h1 hl hB)
  have fr := run_frame σ (init off min max lens)
  generalize run (init off min max lens) σ = s at inv fr
  have hmin : s.min = min := fr.1
  have hmax : s.max = max := fr.2.1
  have getres : ∀ i a l, resultOf s i = some (.ok a l) → ∃ t, s.th[i]? = some t ∧ t.res = some (.ok a l) := by
    intro i a l h
    unfold resultOf at h
    cases ht : s.th[i]? with
    | none => simp [ht] at h
    | some t => simp only [ht, Option.bind_some] at h; exact ⟨t, rfl, h⟩
  constructor
  · intro i a l h
    obtain ⟨t, ht, hr⟩ := getres i a l h
    have rf := result_facts (inv.hth i t ht) hr
    rw [hmin, hmax] at rf
    refine ⟨rf.2.2.1, rf.2.2.2, ?_⟩
    have := fr.2.2 i
    simp only [ht, init, List.getElem?_map, Option.map_some, Option.map_map] at this
    cases hh : lens[i]? with
    | none => simp [hh] at this
    | some l0 =>
      simp only [hh, Option.map_some, Function.comp, Th.fresh, Option.some.injEq] at this
      rw [rf.2.1, this]
  · intro i j a l a' l' hij hi hj
    obtain ⟨ti, hti, hri⟩ := getres i a l hi
    obtain ⟨tj, htj, hrj⟩ := getres j a' l' hj
    exact inv.hdisj i j ti tj (a, l) (a', l') hij hti htj (result_facts (inv.hth i ti hti) hri).1
      (result_facts (inv.hth j tj htj) hrj).1

/-! ### the whole `int` domain of request lengths -/

theorem freshI_len (r : Int) : (Th.freshI r).len = ulen r := by
  unfold Th.freshI; split <;> rfl

theorem pot_freshI_le (d : Nat) (reqs : List Int) : pot d (reqs.map Th.freshI) ≤ reqs.length * d := by
  induction reqs with
  | nil => simp [pot]
  | cons x xs ih =>
    simp only [List.map_cons, pot, List.length_cons]
    have : weight d (Th.freshI x) ≤ d := by
      unfold Th.freshI; split <;> simp [weight, Th.fresh]
    rw [Nat.add_mul]; omega

theorem inv_initI (off min max : Nat) (reqs : List Int) (h1 : min ≤ off) (h2 : off ≤ max)
    (hl : ∀ r ∈ reqs, r < 9223372036854775808)
    (hB : max + reqs.length * (max - min) < 9223372036854775808) :
    Inv (max + reqs.length * (max - min)) (initI off min max reqs) := by
  have getI : ∀ (i : Nat) (t : Th), (initI off min max reqs).th[i]? = some t → ∃ r, reqs[i]? = some r ∧ t = Th.freshI r := by
    intro i t hi
    simp only [initI, List.getElem?_map] at hi
    cases hh : reqs[i]? with
    | none => simp [hh] at hi
    | some r => simp only [hh, Option.map_some, Option.some.injEq] at hi; exact ⟨r, rfl, hi.symm⟩
  refine ⟨hB, (by show min ≤ max; omega), h1, ?_, ?_, ?_⟩
  · have := pot_freshI_le (max - min) reqs
    simp only [initI]; omega
  · intro i t hi
    obtain ⟨r, hr, rfl⟩ := getI i t hi
    unfold Th.freshI
    cases g : guardFails r
    · have h0 := gen_guard_safe r g
      have hu := ulen_nonneg h0 (hl r (List.mem_of_getElem? hr))
      simp only [Bool.false_eq_true, if_false]
      exact ⟨Or.inr (by simp only [Th.fresh]; omega), rfl⟩
    · simp only [if_true]
      exact ⟨Or.inl rfl, Or.inl rfl⟩
  · intro i j ti tj ci cj _ hi _ hci _
    obtain ⟨r, _, rfl⟩ := getI i ti hi
    unfold Th.freshI at hci
    split at hci <;> simp [claim, Th.fresh] at hci

/-- a finished requester never changes again -/
theorem step_done (s : St) (j i : Nat) (t : Th) (h : s.th[i]? = some t) (hd : t.pc = .done) : (step s j).th[i]? = some t := by
  unfold step
  cases hj : s.th[j]? with
  | none => exact h
  | some tj =>
    have hjl : j < s.th.length := (List.getElem?_eq_some_iff.mp hj).1
    simp only [List.getElem?_set, hjl, if_true]
    by_cases e : j = i
    · subst e
      rw [h] at hj
      simp only [Option.some.injEq] at hj
      subst hj
      simp only [if_true, Option.some.injEq]
      unfold stepTh; simp only [hd]
    · simp only [e, if_false]; exact h

theorem run_done (σ : List Nat) : ∀ (s : St) (i : Nat) (t : Th), s.th[i]? = some t → t.pc = .done → (run s σ).th[i]? = some t := by
  induction σ with
  | nil => intro s i t h _; exact h
  | cons j rest ih =>
    intro s i t h hd
    simp only [run, List.foldl_cons]
    exact ih (step s j) i t (step_done s j i t h hd) hd

theorem conc_mainI (off min max : Nat) (reqs : List Int) (σ : List Nat)
    (h0 : min ≤ off) (h1 : off ≤ max) (hl : ∀ r ∈ reqs, r < 9223372036854775808)
    (hB : max + reqs.length * (max - min) < 9223372036854775808) :
    (∀ i a l, resultOf (run (initI off min max reqs) σ) i = some (.ok a l) →
        min ≤ a ∧ a + l ≤ max ∧ reqs[i]? = some (l : Int)) ∧
    (∀ i j a l a' l', i ≠ j → resultOf (run (initI off min max reqs) σ) i = some (.ok a l) →
        resultOf (run (initI off min max reqs) σ) j = some (.ok a' l') → disj (a, l) (a', l')) ∧
    (∀ i r, reqs[i]? = some r → r < 0 → resultOf (run (initI off min max reqs) σ) i = some .err) := by
  have inv := inv_run σ (inv_initI off min max reqs h0 h1 hl hB)
  have fr := run_frame σ (initI off min max reqs)
  have rd := run_done σ (initI off min max reqs)
  have init_at : ∀ (i : Nat) (r : Int), reqs[i]? = some r → (initI off min max reqs).th[i]? = some (Th.freshI r) := by
    intro i r hr; simp only [initI, List.getElem?_map, hr, Option.map_some]
  have refused : ∀ (i : Nat) (r : Int), reqs[i]? = some r → guardFails r = true →
      resultOf (run (initI off min max reqs) σ) i = some .err := by
    intro i r hr g
    have hf : Th.freshI r = ⟨.done, ulen r, 0, 0, some .err⟩ := by unfold Th.freshI; simp only [g, if_true]
    have := rd i _ (init_at i r hr) (by rw [hf])
    unfold resultOf; rw [this, hf]; rfl
  generalize run (initI off min max reqs) σ = s at inv fr refused
  have hmin : s.min = min := fr.1
  have hmax : s.max = max := fr.2.1
  have getres : ∀ i a l, resultOf s i = some (.ok a l) → ∃ t, s.th[i]? = some t ∧ t.res = some (.ok a l) := by
    intro i a l h
    unfold resultOf at h
    cases ht : s.th[i]? with
    | none => simp [ht] at h
    | some t => simp only [ht, Option.bind_some] at h; exact ⟨t, rfl, h⟩
  refine ⟨?_, ?_, ?_⟩
  · intro i a l h
    obtain ⟨t, ht, hr⟩ := getres i a l h
    have rf := result_facts (inv.hth i t ht) hr
    rw [hmin, hmax] at rf
    refine ⟨rf.2.2.1, rf.2.2.2, ?_⟩
    have hlen := fr.2.2 i
    simp only [ht, initI, List.getElem?_map, Option.map_some, Option.map_map] at hlen
    cases hh : reqs[i]? with
    | none => simp [hh] at hlen
    | some r =>
      simp only [hh, Option.map_some, Function.comp, freshI_len, Option.some.injEq] at hlen
      cases g : guardFails r
      · have hr0 := gen_guard_safe r g
        have hu := ulen_nonneg hr0 (hl r (List.mem_of_getElem? hh))
        have : l = r.toNat := by rw [rf.2.1, hlen, hu.1]
        rw [this]; congr 1; omega
      · have := refused i r hh g
        rw [h] at this; cases this
  · intro i j a l a' l' hij hi hj
    obtain ⟨ti, hti, hri⟩ := getres i a l hi
    obtain ⟨tj, htj, hrj⟩ := getres j a' l' hj
    exact inv.hdisj i j ti tj (a, l) (a', l') hij hti htj (result_facts (inv.hth i ti hti) hri).1
      (result_facts (inv.hth j tj htj) hrj).1
  · intro i r hr hneg
    cases g : guardFails r
    · have := gen_guard_safe r g; omega
    · exact refused i r hr g

theorem explains_sound_main (h : Hist) (σ : List Nat) (wf : h.wellFormed = true) (hw : explains h σ = true) :
    (∀ (i a l : Nat), h.res[i]? = some (some (Res.ok a l)) → h.min ≤ a ∧ a + l ≤ h.max ∧ h.lens[i]? = some l) ∧
    (∀ (i j a l a' l' : Nat), i ≠ j → h.res[i]? = some (some (Res.ok a l)) → h.res[j]? = some (some (Res.ok a' l')) →
        disj (a, l) (a', l')) := by
  unfold Hist.wellFormed at wf
  simp only [Bool.and_eq_true, decide_eq_true_eq, List.all_eq_true] at wf
  obtain ⟨⟨⟨⟨h0, h1⟩, hl⟩, hB⟩, hlen⟩ := wf
  unfold explains at hw
  simp only [List.all_eq_true, List.mem_range, beq_iff_eq] at hw
  have M := conc_main h.off h.min h.max h.lens σ h0 h1 hl hB
  have tr : ∀ (i a l : Nat), h.res[i]? = some (some (Res.ok a l)) →
      resultOf (run (init h.off h.min h.max h.lens) σ) i = some (Res.ok a l) := by
    intro i a l hi
    have hi' : i < h.lens.length := by rw [← hlen]; exact (List.getElem?_eq_some_iff.mp hi).1
    rw [hw i hi', hi]; rfl
  exact ⟨fun i a l hi => M.1 i a l (tr i a l hi),
    fun i j a l a' l' hij hi hj => M.2 i j a l a' l' hij (tr i a l hi) (tr j a' l' hj)⟩

theorem admits_sound_main (h : Hist) (ha : admits h = true) :
    (∀ (i a l : Nat), h.res[i]? = some (some (Res.ok a l)) → h.min ≤ a ∧ a + l ≤ h.max ∧ h.lens[i]? = some l) ∧
    (∀ (i j a l a' l' : Nat), i ≠ j → h.res[i]? = some (some (Res.ok a l)) → h.res[j]? = some (some (Res.ok a' l')) →
        disj (a, l) (a', l')) := by
  unfold admits at ha
  simp only [Bool.and_eq_true] at ha
  obtain ⟨wf, hw⟩ := ha
  cases hσ : witness h with
  | none => simp [hσ] at hw
  | some σ =>
    simp only [hσ] at hw
    exact explains_sound_main h σ wf hw

/-! ### writes -/

theorem writeN_mmap (n : Nat) : writeN typeMMap .rwx n = some .rwx := by
  induction n with
  | zero => rfl
  | succ k ih => simp only [writeN, writeOnce, writeVia, if_true]; exact ih

theorem writeN_holder (n : Nat) : ∀ p, writeN typeHolder p n = some (if n = 0 then p else .rx) := by
  induction n with
  | zero => intro p; rfl
  | succ k ih =>
    intro p
    have e : writeOnce typeHolder p = some .rx := by
      simp only [writeOnce, writeVia, typeHolder, typeMMap]; rfl
    simp only [writeN, e, ih]
    cases k <;> simp

/-- in the critical section of memory.WriteTo -/
def critical : WPc → Bool
  | .unprotect => true
  | .copy => true
  | .reprotect => true
  | .unlock => true
  | _ => false

structure WInv (s : WSt) : Prop where
  nofault : s.faulted = false
  mutex : ∀ (i : Nat) (pc : WPc), s.pcs[i]? = some pc → critical pc = true → s.holder = some i
  writable : ∀ (i : Nat), s.pcs[i]? = some .copy → s.perm = .rwx

theorem winv_step {s : WSt} (inv : WInv s) (i : Nat) : WInv (wstep s i) := by
  unfold wstep
  cases h : s.pcs[i]? with
  | none => exact inv
  | some pc =>
    have hilt : i < s.pcs.length := (List.getElem?_eq_some_iff.mp h).1
    have get : ∀ (x : WPc) (k : Nat), (s.pcs.set i x)[k]? = if i = k then some x else s.pcs[k]? := by
      intro x k; rw [List.getElem?_set]; simp only [hilt, if_true]
    cases pc with
    | lock =>
      simp only
      by_cases hh : s.holder = none
      · simp only [hh, if_true]
        refine ⟨inv.nofault, ?_, ?_⟩
        · intro k pc hk hc
          simp only [get] at hk
          by_cases e : i = k
          · rw [e]
          · simp only [e, if_false] at hk
            have := inv.mutex k pc hk hc
            rw [hh] at this; cases this
        · intro k hk
          simp only [get] at hk
          by_cases e : i = k
          · simp only [e, if_true, Option.some.injEq] at hk; cases hk
          · simp only [e, if_false] at hk
            have := inv.mutex k .copy hk rfl
            rw [hh] at this; cases this
      · simp only [hh, if_false]; exact inv
    | unprotect =>
      have hi := inv.mutex i .unprotect h rfl
      refine ⟨inv.nofault, ?_, ?_⟩
      · intro k pc hk hc
        simp only [get] at hk
        by_cases e : i = k
        · rw [← e]; exact hi
        · simp only [e, if_false] at hk; exact inv.mutex k pc hk hc
      · intro k _; rfl
    | copy =>
      have hw := inv.writable i h
      refine ⟨?_, ?_, ?_⟩
      · simp only [inv.nofault, hw, Bool.false_or, decide_eq_false_iff_not, ne_eq, not_true_eq_false, not_false_eq_true]
      · intro k pc hk hc
        simp only [get] at hk
        by_cases e : i = k
        · rw [← e]; exact inv.mutex i .copy h rfl
        · simp only [e, if_false] at hk; exact inv.mutex k pc hk hc
      · intro k hk
        simp only [get] at hk
        by_cases e : i = k
        · simp only [e, if_true, Option.some.injEq] at hk; cases hk
        · simp only [e, if_false] at hk; exact inv.writable k hk
    | reprotect =>
      have hi := inv.mutex i .reprotect h rfl
      refine ⟨inv.nofault, ?_, ?_⟩
      · intro k pc hk hc
        simp only [get] at hk
        by_cases e : i = k
        · rw [← e]; exact hi
        · simp only [e, if_false] at hk; exact inv.mutex k pc hk hc
      · intro k hk
        simp only [get] at hk
        by_cases e : i = k
        · simp only [e, if_true, Option.some.injEq] at hk; cases hk
        · simp only [e, if_false] at hk
          have := inv.mutex k .copy hk rfl
          rw [hi] at this
          simp only [Option.some.injEq] at this
          exact absurd this e
    | unlock =>
      have hi := inv.mutex i .unlock h rfl
      refine ⟨inv.nofault, ?_, ?_⟩
      · intro k pc hk hc
        simp only [get] at hk
        by_cases e : i = k
        · simp only [e, if_true, Option.some.injEq] at hk; rw [← hk] at hc; cases hc
        · simp only [e, if_false] at hk
          have := inv.mutex k pc hk hc
          rw [hi] at this
          simp only [Option.some.injEq] at this
          exact absurd this e
      · intro k hk
        simp only [get] at hk
        by_cases e : i = k
        · simp only [e, if_true, Option.some.injEq] at hk; cases hk
        · simp only [e, if_false] at hk; exact inv.writable k hk
    | done => exact inv

theorem winv_run (σ : List Nat) : ∀ {s : WSt}, WInv s → WInv (wrun s σ) := by
  induction σ with
  | nil => intro s h; exact h
  | cons i rest ih => intro s h; simp only [wrun, List.foldl_cons]; exact ih (winv_step h i)

theorem winv_init (n : Nat) : WInv (winit n) := by
  refine ⟨rfl, ?_, ?_⟩
  · intro i pc h hc
    simp only [winit, List.getElem?_replicate] at h
    split at h
    · simp only [Option.some.injEq] at h; rw [← h] at hc; cases hc
    · cases h
  · intro i h
    simp only [winit, List.getElem?_replicate] at h
    split at h
    · cases h
    · cases h

end C20L
