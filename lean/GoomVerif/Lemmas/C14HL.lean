import GoomVerif.Lemmas.C14L
import GoomVerif.Model.MemHist
/-! Helper lemmas for the history theorems of C14 (core Lean only). -/
namespace C14HL
open Mem C14L

/-- a write whose bytes lie in ONE page `p`: if `p` is mapped the page ends r-x (normal path or fall-back), if it is not
    mapped nothing at all changes (both `mprotect` passes are refused at their first call) -/
theorem write_single_page (a : Addr) (data : List Byte) (s : State) (p : Addr) (h : NoWrap a data.length)
    (hp : pages a data.length = [p]) :
    ∀ q, (writeTo a data s).1.perm q = if q = p ∧ (s.perm p).isSome = true then some RX else s.perm q := by
  cases hpp : s.perm p with
  | none =>
    have h1 : run s (protScript a data.length RWX) = (s, some (Err.enomem p)) := by
      simp only [protScript, hp, List.map_cons, List.map_nil, run, step, hpp]
    have h2 : run s (protScript a data.length RW) = (s, some (Err.enomem p)) := by
      simp only [protScript, hp, List.map_cons, List.map_nil, run, step, hpp]
    intro q
    simp only [writeTo, h1, fallbackWrite, h2, hpp, Option.isSome_none, Bool.false_eq_true, and_false, if_false]
  | some v =>
    have hm : MappedAll s (pages a data.length) := by
      intro p' hp'
      rw [hp] at hp'
      simp only [List.mem_singleton] at hp'
      rw [hp', hpp]; rfl
    intro q
    have hperm : (writeTo a data s).1.perm = setMany s.perm (pages a data.length) RX := by
      cases hd : s.denyWX with
      | false =>
        obtain ⟨s', hw, hpm, _⟩ := writeTo_spec a data s h hm hd
        rw [hw]; exact hpm
      | true =>
        have h1 := run_rwx_denied a data.length s hd p [] hp hm
        obtain ⟨s', hf, hpm, _⟩ := fallback_spec a data (Err.eacces p) s h hm
        have hw : writeTo a data s = (s', Outcome.okFallback (Err.eacces p)) := by
          simp only [writeTo, h1, hf]
        rw [hw]; exact hpm
    rw [hperm]
    simp only [setMany, hp, List.mem_singleton, Option.isSome_some, and_true]

/-- what a history may do to the address space, relative to the layout -/
def Rel (L : Layout) (s s' : State) : Prop :=
  (∀ q, s'.perm q = s.perm q ∨ s'.perm q = some RX ∨ s'.perm q = none) ∧
  (∀ q, (∀ i j, j < 13 → q ≠ L.org i + BitVec.ofNat 64 j) → s'.mem q = s.mem q)

theorem Rel.refl (L : Layout) (s : State) : Rel L s s := ⟨fun _ => Or.inl rfl, fun _ _ => rfl⟩

theorem Rel.trans {L : Layout} {s1 s2 s3 : State} (h12 : Rel L s1 s2) (h23 : Rel L s2 s3) : Rel L s1 s3 := by
  refine ⟨fun q => ?_, fun q hq => ?_⟩
  · rcases h23.1 q with h | h | h
    · rw [h]; exact h12.1 q
    · exact Or.inr (Or.inl h)
    · exact Or.inr (Or.inr h)
  · rw [h23.2 q hq, h12.2 q hq]

/-- layout hypothesis: every 13-byte entry lies in one page, below the last page of the address space
    (true for 16/32-byte aligned function entries) -/
def LOK (L : Layout) : Prop := ∀ i, NoWrap (L.org i) 13 ∧ ∃ p, pages (L.org i) 13 = [p]

/-- every guard a probe holds belongs to its target and holds 13 + 13 bytes -/
def GOK (L : Layout) (h : HState) : Prop :=
  ∀ i g, h.slots i = some g → g.origin = L.org i ∧ g.originBytes.length = 13 ∧ g.jumpBytes.length = 13

theorem write_rel (L : Layout) (hL : LOK L) (i : Nat) (data : List Byte) (hlen : data.length = 13) (s : State) :
    Rel L s (writeTo (L.org i) data s).1 := by
  obtain ⟨hnw, p, hp⟩ := hL i
  refine ⟨fun q => ?_, fun q hq => ?_⟩
  · rw [write_single_page (L.org i) data s p (by rw [hlen]; exact hnw) (by rw [hlen]; exact hp) q]
    split
    · exact Or.inr (Or.inl rfl)
    · exact Or.inl rfl
  · apply writeTo_frame
    intro j hj
    rw [hlen] at hj
    exact hq i j hj

theorem guardWrite_rel (L : Layout) (hL : LOK L) (i : Nat) (g : Guard) (bytes : List Byte) (hg : g.origin = L.org i)
    (hlen : bytes.length = 13) (s : State) : Rel L s (guardWrite g bytes s).1 := by
  simp only [guardWrite]
  split
  · rw [hg]; exact write_rel L hL i bytes hlen s
  · exact Rel.refl L s

theorem unpatchEntry_rel (L : Layout) (hL : LOK L) (h : HState) (hG : GOK L h) (e : Nat × Bool) :
    Rel L h.m (unpatchEntry h e).1 := by
  simp only [unpatchEntry]
  split
  · rename_i g _ hs
    obtain ⟨ho, hob, _⟩ := hG e.1 g hs
    exact guardWrite_rel L hL e.1 g g.originBytes ho hob h.m
  · exact Rel.refl L h.m

theorem unpatchAllFrom_rel (L : Layout) (hL : LOK L) : ∀ (es : List (Nat × Bool)) (h : HState), GOK L h →
    Rel L h.m (unpatchAllFrom h es).1.m ∧ GOK L (unpatchAllFrom h es).1 := by
  intro es
  induction es with
  | nil => intro h hG; exact ⟨Rel.refl L h.m, hG⟩
  | cons e rest ih =>
    intro h hG
    have hr := unpatchEntry_rel L hL h hG e
    simp only [unpatchAllFrom]
    rcases hu : unpatchEntry h e with ⟨s1, r⟩
    rw [hu] at hr
    cases r with
    | panic => exact ⟨hr, hG⟩
    | ok =>
      have := ih { h with m := s1 } hG
      exact ⟨Rel.trans hr this.1, this.2⟩
    | noop =>
      have := ih { h with m := s1 } hG
      exact ⟨Rel.trans hr this.1, this.2⟩
    | refused w =>
      have := ih { h with m := s1 } hG
      exact ⟨Rel.trans hr this.1, this.2⟩

theorem gok_setSlot (L : Layout) (h : HState) (hG : GOK L h) (i : Nat) (g : Guard) (m : State) (t : List (Nat × Bool))
    (hg : g.origin = L.org i ∧ g.originBytes.length = 13 ∧ g.jumpBytes.length = 13) :
    GOK L { m := m, slots := setSlot h.slots i (some g), table := t } := by
  intro j g' hs
  simp only [setSlot] at hs
  split at hs
  · rename_i hji
    cases hs; rw [hji]; exact hg
  · exact hG j g' hs

theorem jump_len (origin to : Addr) : (Gen.Amd64.jmpToFunctionValue origin to).length = 13 := by
  simp [Gen.Amd64.jmpToFunctionValue]

theorem prePatch_rel (L : Layout) (hL : LOK L) (h : HState) (hG : GOK L h) (i : Nat) : Rel L h.m (prePatch h i).1 := by
  simp only [prePatch]
  cases hf : h.table.find? (fun e => e.1 = i) with
  | none => exact Rel.refl L h.m
  | some e => exact unpatchEntry_rel L hL h hG e

theorem patchAfter_ok (L : Layout) (h : HState) (hG : GOK L h) (i : Nat) (s1 : State) :
    (patchAfter L h i s1).1.m = s1 ∧ GOK L (patchAfter L h i s1).1 := by
  simp only [patchAfter]
  cases hj : genJumpData (L.org i) L.to (L.fsz i) with
  | error e => exact ⟨rfl, hG⟩
  | ok jd =>
    have hlen : jd.length = 13 := by
      simp only [genJumpData] at hj
      split at hj
      · cases hj
      · cases hj; exact jump_len _ _
    simp only
    split
    · exact ⟨rfl, hG⟩
    · refine ⟨rfl, gok_setSlot L h hG i _ _ _ ⟨rfl, ?_, hlen⟩⟩
      simp only [readBytes, List.length_map, List.length_range, hlen]

theorem hstep_rel (L : Layout) (hL : LOK L) (h : HState) (hG : GOK L h) (op : HOp) :
    Rel L h.m (hstep L h op).1.m ∧ GOK L (hstep L h op).1 := by
  cases op with
  | patch i =>
    simp only [hstep]
    have hr1 := prePatch_rel L hL h hG i
    split
    · exact ⟨hr1, hG⟩
    · have := patchAfter_ok L h hG i (prePatch h i).1
      rw [this.1]
      exact ⟨hr1, this.2⟩
  | apply i =>
    simp only [hstep]
    cases hs : h.slots i with
    | none => exact ⟨Rel.refl L h.m, hG⟩
    | some g =>
      obtain ⟨ho, hob, hjb⟩ := hG i g hs
      simp only
      refine ⟨?_, gok_setSlot L h hG i _ _ _ ⟨ho, hob, hjb⟩⟩
      rw [ho]; exact write_rel L hL i g.jumpBytes hjb h.m
  | unpatch i =>
    simp only [hstep]
    cases hs : h.slots i with
    | none => exact ⟨Rel.refl L h.m, hG⟩
    | some g =>
      obtain ⟨ho, hob, _⟩ := hG i g hs
      exact ⟨guardWrite_rel L hL i g g.originBytes ho hob h.m, hG⟩
  | restore i =>
    simp only [hstep]
    cases hs : h.slots i with
    | none => exact ⟨Rel.refl L h.m, hG⟩
    | some g =>
      obtain ⟨ho, _, hjb⟩ := hG i g hs
      exact ⟨guardWrite_rel L hL i g g.jumpBytes ho hjb h.m, hG⟩
  | unpatchFn i =>
    simp only [hstep]
    cases hf : h.table.find? (fun e => e.1 = i) with
    | none => exact ⟨Rel.refl L h.m, hG⟩
    | some e =>
      have hr := unpatchEntry_rel L hL h hG e
      simp only
      rcases hu : unpatchEntry h e with ⟨s1, r⟩
      rw [hu] at hr
      cases r <;> exact ⟨hr, hG⟩
  | unpatchAll => exact unpatchAllFrom_rel L hL h.table h hG
  | unmap p =>
    simp only [hstep]
    refine ⟨⟨fun q => ?_, fun _ _ => rfl⟩, hG⟩
    simp only
    split
    · exact Or.inr (Or.inr rfl)
    · exact Or.inl rfl

/-! ## an operation on target `i` writes only at the entry of target `i` -/

/-- bytes outside the 13 entry bytes of target `i` are the same -/
def Rel1 (L : Layout) (i : Nat) (s s' : State) : Prop :=
  ∀ q, (∀ j, j < 13 → q ≠ L.org i + BitVec.ofNat 64 j) → s'.mem q = s.mem q

theorem guardWrite_rel1 (L : Layout) (i : Nat) (g : Guard) (bytes : List Byte) (hg : g.origin = L.org i)
    (hlen : bytes.length = 13) (s : State) : Rel1 L i s (guardWrite g bytes s).1 := by
  intro q hq
  simp only [guardWrite]
  split
  · rw [hg]
    apply writeTo_frame
    intro j hj
    rw [hlen] at hj
    exact hq j hj
  · rfl

theorem unpatchEntry_rel1 (L : Layout) (h : HState) (hG : GOK L h) (e : Nat × Bool) :
    Rel1 L e.1 h.m (unpatchEntry h e).1 := by
  simp only [unpatchEntry]
  split
  · rename_i g _ hs
    obtain ⟨ho, hob, _⟩ := hG e.1 g hs
    exact guardWrite_rel1 L e.1 g g.originBytes ho hob h.m
  · intro q _; rfl

theorem find_fst (t : List (Nat × Bool)) (i : Nat) (e : Nat × Bool)
    (h : t.find? (fun e => e.1 = i) = some e) : e.1 = i := by
  have := List.find?_some h
  simpa using this

/-- the operations that name one target -/
def _root_.Mem.HOp.target : HOp → Option Nat
  | .patch i => some i
  | .apply i => some i
  | .unpatch i => some i
  | .restore i => some i
  | .unpatchFn i => some i
  | .unpatchAll => none
  | .unmap _ => none

theorem hstep_rel1 (L : Layout) (h : HState) (hG : GOK L h) (op : HOp) (i : Nat) (ht : op.target = some i) :
    Rel1 L i h.m (hstep L h op).1.m := by
  cases op with
  | patch k =>
    cases ht
    have hpre : Rel1 L i h.m (prePatch h i).1 := by
      simp only [prePatch]
      cases hf : h.table.find? (fun e => e.1 = i) with
      | none => intro q _; rfl
      | some e =>
        have := unpatchEntry_rel1 L h hG e
        rw [find_fst h.table i e hf] at this
        exact this
    simp only [hstep]
    split
    · exact hpre
    · rw [(patchAfter_ok L h hG i (prePatch h i).1).1]; exact hpre
  | apply k =>
    cases ht
    simp only [hstep]
    cases hs : h.slots i with
    | none => intro q _; rfl
    | some g =>
      obtain ⟨ho, _, hjb⟩ := hG i g hs
      intro q hq
      simp only
      rw [ho]
      apply writeTo_frame
      intro j hj
      rw [hjb] at hj
      exact hq j hj
  | unpatch k =>
    cases ht
    simp only [hstep]
    cases hs : h.slots i with
    | none => intro q _; rfl
    | some g =>
      obtain ⟨ho, hob, _⟩ := hG i g hs
      exact guardWrite_rel1 L i g g.originBytes ho hob h.m
  | restore k =>
    cases ht
    simp only [hstep]
    cases hs : h.slots i with
    | none => intro q _; rfl
    | some g =>
      obtain ⟨ho, _, hjb⟩ := hG i g hs
      exact guardWrite_rel1 L i g g.jumpBytes ho hjb h.m
  | unpatchFn k =>
    cases ht
    simp only [hstep]
    cases hf : h.table.find? (fun e => e.1 = i) with
    | none => intro q _; rfl
    | some e =>
      have hr := unpatchEntry_rel1 L h hG e
      rw [find_fst h.table i e hf] at hr
      simp only
      rcases hu : unpatchEntry h e with ⟨s1, r⟩
      rw [hu] at hr
      cases r <;> exact hr
  | unpatchAll => cases ht
  | unmap p => cases ht

/-! ## a target too short for the jump never gets a guard -/

theorem unpatchAllFrom_slots : ∀ (es : List (Nat × Bool)) (h : HState), (unpatchAllFrom h es).1.slots = h.slots := by
  intro es
  induction es with
  | nil => intro h; rfl
  | cons e rest ih =>
    intro h
    simp only [unpatchAllFrom]
    rcases hu : unpatchEntry h e with ⟨s1, r⟩
    cases r <;> simp only <;> first | rfl | exact ih _

theorem hstep_short (L : Layout) (h : HState) (i : Nat) (hs : L.fsz i ≤ 13) (hn : h.slots i = none) (op : HOp) :
    (hstep L h op).1.slots i = none := by
  have hjl : ∀ k, L.fsz k ≤ 13 → genJumpData (L.org k) L.to (L.fsz k) = .error "jumpInstSize-bigger-than-origin-FuncSize" := by
    intro k hk
    simp only [genJumpData, jump_len, ge_iff_le, hk, if_true]
  cases op with
  | patch k =>
    simp only [hstep]
    split
    · exact hn
    · simp only [patchAfter]
      by_cases hki : k = i
      · subst hki
        rw [hjl k hs]; exact hn
      · cases hj : genJumpData (L.org k) L.to (L.fsz k) with
        | error e => exact hn
        | ok jd =>
          simp only
          split
          · exact hn
          · simp only [setSlot]
            have : ¬ i = k := fun e => hki e.symm
            simp only [this, if_false]; exact hn
  | apply k =>
    simp only [hstep]
    cases hk : h.slots k with
    | none => exact hn
    | some g =>
      simp only [setSlot]
      by_cases hki : i = k
      · subst hki; rw [hn] at hk; cases hk
      · simp only [hki, if_false]; exact hn
  | unpatch k =>
    simp only [hstep]
    cases hk : h.slots k <;> exact hn
  | restore k =>
    simp only [hstep]
    cases hk : h.slots k <;> exact hn
  | unpatchFn k =>
    simp only [hstep]
    cases hf : h.table.find? (fun e => e.1 = k) with
    | none => exact hn
    | some e =>
      simp only
      rcases hu : unpatchEntry h e with ⟨s1, r⟩
      cases r <;> exact hn
  | unpatchAll =>
    simp only [hstep]
    rw [unpatchAllFrom_slots]; exact hn
  | unmap p => exact hn

theorem hrun_short (L : Layout) (i : Nat) (hs : L.fsz i ≤ 13) : ∀ (ops : List HOp) (h : HState), h.slots i = none →
    (hrun L h ops).slots i = none := by
  intro ops
  induction ops with
  | nil => intro h hn; exact hn
  | cons op rest ih => intro h hn; exact ih _ (hstep_short L h i hs hn op)

theorem hrun_rel (L : Layout) (hL : LOK L) : ∀ (ops : List HOp) (h : HState), GOK L h →
    Rel L h.m (hrun L h ops).m ∧ GOK L (hrun L h ops) := by
  intro ops
  induction ops with
  | nil => intro h hG; exact ⟨Rel.refl L h.m, hG⟩
  | cons op rest ih =>
    intro h hG
    have h1 := hstep_rel L hL h hG op
    have h2 := ih (hstep L h op).1 h1.2
    exact ⟨Rel.trans h1.1 h2.1, h2.2⟩

end C14HL
