import GoomVerif.Gen.JmpAmd64
import GoomVerif.Gen.JmpArm64
import GoomVerif.Gen.JmpIfaceArm64
import GoomVerif.Model.X86Mini
import GoomVerif.Model.A64Mini
/-! Helper lemmas for C15 (bit-vector/byte reassembly, word layout of `movImm`, single-step execution).
    Kernel-only: `simp only [toNat lemmas]` + `omega` + `decide`; no `bv_decide`, no `native_decide`. -/
namespace C15L
open A64
open X86 (leNat)

theorem bytes64 (x : BitVec 64) :
    BitVec.ofNat 64 (leNat [BitVec.setWidth 8 x, BitVec.setWidth 8 (x >>> 8), BitVec.setWidth 8 (x >>> 16),
      BitVec.setWidth 8 (x >>> 24), BitVec.setWidth 8 (x >>> 32), BitVec.setWidth 8 (x >>> 40),
      BitVec.setWidth 8 (x >>> 48), BitVec.setWidth 8 (x >>> 56)]) = x := by
  apply BitVec.eq_of_toNat_eq
  simp only [leNat, BitVec.toNat_ofNat, BitVec.toNat_setWidth, BitVec.toNat_ushiftRight, Nat.shiftRight_eq_div_pow]
  have := x.isLt
  omega

theorem bytes32 (x : BitVec 32) :
    BitVec.ofNat 32 (leNat [BitVec.setWidth 8 x, BitVec.setWidth 8 (x >>> 8), BitVec.setWidth 8 (x >>> 16),
      BitVec.setWidth 8 (x >>> 24)]) = x := by
  apply BitVec.eq_of_toNat_eq
  simp only [leNat, BitVec.toNat_ofNat, BitVec.toNat_setWidth, BitVec.toNat_ushiftRight, Nat.shiftRight_eq_div_pow]
  have := x.isLt
  omega

theorem sext_toNat (x : BitVec 32) :
    (BitVec.signExtend 64 x).toNat = if x.toNat < 2^31 then x.toNat else x.toNat + (2^64 - 2^32) := by
  rw [BitVec.toNat_signExtend]
  have := x.isLt
  simp only [BitVec.msb_eq_decide]
  by_cases h : 2^31 ≤ x.toNat
  · simp [h]; split <;> omega
  · simp [h]; split <;> omega

/-- the relative form is chosen exactly when the true displacement fits the rel32 field -/

theorem or_toNat_disjoint (a b : BitVec 32) (k : Nat) (ha : a.toNat < 2^k) (hb : b.toNat % 2^k = 0) :
    (a ||| b).toNat = a.toNat + b.toNat := by
  rw [BitVec.toNat_or]
  have hb' : b.toNat = (b.toNat / 2^k) <<< k := by
    rw [Nat.shiftLeft_eq]; have := Nat.div_add_mod b.toNat (2^k); rw [Nat.mul_comm]; omega
  rw [hb', Nat.or_comm, ← Nat.shiftLeft_add_eq_or_of_lt ha]; omega

theorem leNat_bytes32 (x : BitVec 32) :
    leNat [BitVec.setWidth 8 x, BitVec.setWidth 8 (x >>> 8), BitVec.setWidth 8 (x >>> 16),
      BitVec.setWidth 8 (x >>> 24)] = x.toNat := by
  simp only [leNat, BitVec.toNat_setWidth, BitVec.toNat_ushiftRight, Nat.shiftRight_eq_div_pow]
  have := x.isLt
  omega

theorem and3 (x : BitVec 64) (h : x.toNat < 4) : (BitVec.setWidth 32 (x &&& 3#64)).toNat = x.toNat := by
  simp only [BitVec.toNat_setWidth, BitVec.toNat_and, BitVec.toNat_ofNat]
  have : x.toNat &&& 3 = x.toNat % 2^2 := Nat.and_two_pow_sub_one_eq_mod x.toNat 2
  simp at this ⊢
  omega

theorem movImm_word (opc shift val : BitVec 64) (ho : opc.toNat < 4) (hs : shift.toNat < 4) (hv : val.toNat < 65536) :
    leNat (Gen.Arm64.movImm opc shift val) =
      2^31 + opc.toNat * 2^29 + 37 * 2^23 + shift.toNat * 2^21 + val.toNat * 32 + 26 := by
  simp only [Gen.Arm64.movImm, List.replicate, List.set]
  rw [leNat_bytes32]
  have e1 : ((BitVec.setWidth 32 val) <<< 5).toNat = val.toNat * 32 := by
    simp only [BitVec.toNat_shiftLeft, BitVec.toNat_setWidth, Nat.shiftLeft_eq]; omega
  have e2 : ((BitVec.setWidth 32 (shift &&& 3#64)) <<< 21).toNat = shift.toNat * 2^21 := by
    simp only [BitVec.toNat_shiftLeft, and3 shift hs, Nat.shiftLeft_eq]; omega
  have e3 : ((BitVec.setWidth 32 (opc &&& 3#64)) <<< 29).toNat = opc.toNat * 2^29 := by
    simp only [BitVec.toNat_shiftLeft, and3 opc ho, Nat.shiftLeft_eq]; omega
  have s1 := or_toNat_disjoint (0x1a#32) ((BitVec.setWidth 32 val) <<< 5) 5 (by decide) (by omega)
  have s2 := or_toNat_disjoint (0x1a#32 ||| (BitVec.setWidth 32 val) <<< 5) ((BitVec.setWidth 32 (shift &&& 3#64)) <<< 21) 21
    (by rw [s1, e1]; simp; omega) (by omega)
  have s3 := or_toNat_disjoint _ (0x12800000#32) 23 (by rw [s2, s1, e1, e2]; simp; omega) (by decide)
  have s4 := or_toNat_disjoint _ ((BitVec.setWidth 32 (opc &&& 3#64)) <<< 29) 29 (by rw [s3, s2, s1, e1, e2]; simp; omega) (by omega)
  have s5 := or_toNat_disjoint _ (0x80000000#32) 31 (by rw [s4, s3, s2, s1, e1, e2, e3]; simp; omega) (by decide)
  rw [s5, s4, s3, s2, s1, e1, e2, e3]; simp; omega

theorem decode_movz (hw v : Nat) (hh : hw < 4) (hv : v < 65536) :
    decode (2^31 + 2 * 2^29 + 37 * 2^23 + hw * 2^21 + v * 32 + 26) = some (.movz 26 hw v) := by
  have c : (2^31 + 2 * 2^29 + 37 * 2^23 + hw * 2^21 + v * 32 + 26) / 2^23 = 0x1A5 := by omega
  simp only [decode, c, if_true]
  congr 2 <;> omega

theorem decode_movk (hw v : Nat) (hh : hw < 4) (hv : v < 65536) :
    decode (2^31 + 3 * 2^29 + 37 * 2^23 + hw * 2^21 + v * 32 + 26) = some (.movk 26 hw v) := by
  have c : (2^31 + 3 * 2^29 + 37 * 2^23 + hw * 2^21 + v * 32 + 26) / 2^23 = 0x1E5 := by omega
  simp only [decode, c]
  simp
  refine ⟨?_, ?_, ?_⟩ <;> omega

theorem movImm_len4 (opc shift val : BitVec 64) : ∃ a b c d, Gen.Arm64.movImm opc shift val = [a, b, c, d] := by
  simp only [Gen.Arm64.movImm, List.replicate, List.set]
  exact ⟨_, _, _, _, rfl⟩

theorem exec_movz (hw val : BitVec 64) (rest : List (BitVec 8)) (m : A64.Mach) (hs : hw.toNat < 4) (hv : val.toNat < 65536) :
    exec (Gen.Arm64.movImm 2#64 hw val ++ rest) m =
      exec rest { m with pc := m.pc + 4, x := setReg m.x 26 (BitVec.ofNat 64 (val.toNat * 2^(16*hw.toNat))) } := by
  obtain ⟨a, b, c, d, h⟩ := movImm_len4 2#64 hw val
  have w := movImm_word 2#64 hw val (by decide) hs hv
  rw [h] at w ⊢
  simp only [List.cons_append, List.nil_append, exec, w]
  have := decode_movz hw.toNat val.toNat hs hv
  simp at this ⊢
  rw [this]
  simp

theorem exec_movk (hw val : BitVec 64) (rest : List (BitVec 8)) (m : A64.Mach) (hs : hw.toNat < 4) (hv : val.toNat < 65536) :
    exec (Gen.Arm64.movImm 3#64 hw val ++ rest) m =
      exec rest { m with pc := m.pc + 4, x := setReg m.x 26 (BitVec.ofNat 64
        ((m.x 26).toNat - ((m.x 26).toNat / 2^(16*hw.toNat) % 65536) * 2^(16*hw.toNat) + val.toNat * 2^(16*hw.toNat))) } := by
  obtain ⟨a, b, c, d, h⟩ := movImm_len4 3#64 hw val
  have w := movImm_word 3#64 hw val (by decide) hs hv
  rw [h] at w ⊢
  simp only [List.cons_append, List.nil_append, exec, w]
  have := decode_movk hw.toNat val.toNat hs hv
  simp at this ⊢
  rw [this]
  simp

theorem lane (x : BitVec 64) (k : Nat) : ((x >>> k) &&& 0xffff#64).toNat = x.toNat / 2^k % 65536 := by
  simp only [BitVec.toNat_and, BitVec.toNat_ushiftRight, BitVec.toNat_ofNat, Nat.shiftRight_eq_div_pow]
  have := Nat.and_two_pow_sub_one_eq_mod (x.toNat / 2^k) 16
  simp at this ⊢
  exact this

theorem lane0 (x : BitVec 64) : (x &&& 0xffff#64).toNat = x.toNat % 65536 := by
  have := lane x 0
  simpa using this

theorem decode_ldr : decode (leNat [0x4a#8, 0x03#8, 0x40#8, 0xf9#8]) = some (.ldr 10 26 0) := by decide

theorem decode_br : decode (leNat [0x40#8, 0x01#8, 0x1f#8, 0xd6#8]) = some (.br 10) := by decide

/-- The generic six-instruction sequence `MOVZ/MOVK×3 X26 ; LDR Xt,[X26] ; BR Xt` built with `movImm`. -/
theorem arm64_seq (dx : BitVec 64) (m : A64.Mach) (l0 l1 l2 l3 r0 r1 r2 r3 : BitVec 8) (rt : Nat)
    (hl : decode (leNat [l0, l1, l2, l3]) = some (.ldr rt 26 0))
    (hb : decode (leNat [r0, r1, r2, r3]) = some (.br rt)) (hrt : rt < 31) (hne : rt ≠ 26) :
    ∃ m', exec (Gen.Arm64.movImm 2#64 0#64 (dx &&& 0xffff#64) ++ (Gen.Arm64.movImm 3#64 1#64 (dx >>> 16 &&& 0xffff#64) ++
        (Gen.Arm64.movImm 3#64 2#64 (dx >>> 32 &&& 0xffff#64) ++ (Gen.Arm64.movImm 3#64 3#64 (dx >>> 48 &&& 0xffff#64) ++
        ([l0, l1, l2, l3] ++ [r0, r1, r2, r3]))))) m = some m' ∧
      m'.pc = m.mem64 dx ∧ m'.x 26 = dx ∧ m'.x rt = m.mem64 dx ∧
      (∀ r, r ≠ 26 → r ≠ rt → m'.x r = m.x r) ∧ m'.mem64 = m.mem64 := by
  have h0 := lane0 dx
  have h1 := lane dx 16
  have h2 := lane dx 32
  have h3 := lane dx 48
  generalize dx &&& 0xffff#64 = d0 at *
  generalize dx >>> 16 &&& 0xffff#64 = d1 at *
  generalize dx >>> 32 &&& 0xffff#64 = d2 at *
  generalize dx >>> 48 &&& 0xffff#64 = d3 at *
  rw [exec_movz _ _ _ _ (by decide) (by omega)]
  rw [exec_movk _ _ _ _ (by decide) (by omega)]
  rw [exec_movk _ _ _ _ (by decide) (by omega)]
  rw [exec_movk _ _ _ _ (by decide) (by omega)]
  simp only [List.cons_append, List.nil_append, exec, hl, hb]
  have val : ∀ v : BitVec 64, v.toNat = dx.toNat → v = dx := fun v h => BitVec.eq_of_toNat_eq h
  have hx : BitVec.ofNat 64 ((BitVec.ofNat 64 ((BitVec.ofNat 64 ((BitVec.ofNat 64 (d0.toNat * 2^(16*(0#64).toNat))).toNat
      - (BitVec.ofNat 64 (d0.toNat * 2^(16*(0#64).toNat))).toNat / 2^(16*(1#64).toNat) % 65536 * 2^(16*(1#64).toNat)
      + d1.toNat * 2^(16*(1#64).toNat))).toNat
      - (BitVec.ofNat 64 ((BitVec.ofNat 64 (d0.toNat * 2^(16*(0#64).toNat))).toNat
      - (BitVec.ofNat 64 (d0.toNat * 2^(16*(0#64).toNat))).toNat / 2^(16*(1#64).toNat) % 65536 * 2^(16*(1#64).toNat)
      + d1.toNat * 2^(16*(1#64).toNat))).toNat / 2^(16*(2#64).toNat) % 65536 * 2^(16*(2#64).toNat)
      + d2.toNat * 2^(16*(2#64).toNat))).toNat
      - (BitVec.ofNat 64 ((BitVec.ofNat 64 ((BitVec.ofNat 64 (d0.toNat * 2^(16*(0#64).toNat))).toNat
      - (BitVec.ofNat 64 (d0.toNat * 2^(16*(0#64).toNat))).toNat / 2^(16*(1#64).toNat) % 65536 * 2^(16*(1#64).toNat)
      + d1.toNat * 2^(16*(1#64).toNat))).toNat
      - (BitVec.ofNat 64 ((BitVec.ofNat 64 (d0.toNat * 2^(16*(0#64).toNat))).toNat
      - (BitVec.ofNat 64 (d0.toNat * 2^(16*(0#64).toNat))).toNat / 2^(16*(1#64).toNat) % 65536 * 2^(16*(1#64).toNat)
      + d1.toNat * 2^(16*(1#64).toNat))).toNat / 2^(16*(2#64).toNat) % 65536 * 2^(16*(2#64).toNat)
      + d2.toNat * 2^(16*(2#64).toNat))).toNat / 2^(16*(3#64).toNat) % 65536 * 2^(16*(3#64).toNat)
      + d3.toNat * 2^(16*(3#64).toNat)) = dx := by
    apply val
    have := dx.isLt
    simp only [BitVec.toNat_ofNat, Nat.reduceMod, Nat.reduceMul, Nat.reducePow, Nat.mul_one] at h0 h1 h2 h3 ⊢
    omega
  have hrt' : (rt < 31 ∧ 26 < 31) = True := by simp; omega
  have hrt2 : (rt < 31) = True := by simp; omega
  simp only [hrt', hrt2, if_true, true_and]
  refine ⟨_, rfl, ?_⟩
  have e1 : (26 = rt) = False := by simp; omega
  have e2 : (rt = 26) = False := by simp; omega
  simp only [setReg, if_true, e1, e2, if_false, hx, Nat.mul_zero, BitVec.ofNat_eq_ofNat, BitVec.add_zero, true_and]
  refine ⟨fun r h26 hr => ?_, trivial⟩
  simp [h26, hr]

/-! ### rel32 jump: single step, byte shape of the relative form, position dependence -/

theorem exec_e9 (d : BitVec 32) (m : X86.Mach) :
    X86.exec [0xe9#8, BitVec.setWidth 8 d, BitVec.setWidth 8 (d >>> 8), BitVec.setWidth 8 (d >>> 16),
      BitVec.setWidth 8 (d >>> 24)] m = some { m with rip := m.rip + 5 + BitVec.signExtend 64 d } := by
  simp [X86.exec, bytes32]

theorem origin_rel_bytes (f t : BitVec 64) (h : Gen.Amd64.relative f t = true) :
    ∃ d : BitVec 32, Gen.Amd64.jmpToOriginFunctionValue f t =
      [0xe9#8, BitVec.setWidth 8 d, BitVec.setWidth 8 (d >>> 8), BitVec.setWidth 8 (d >>> 16),
        BitVec.setWidth 8 (d >>> 24)] := by
  simp only [Gen.Amd64.jmpToOriginFunctionValue, h, if_true]
  split
  · exact ⟨_, rfl⟩
  · exact ⟨_, rfl⟩

/-- `b + c + s` in terms of `a + c + s`: moving the start of a relative jump moves its landing by the same amount -/
theorem shift_start (a b c s : BitVec 64) : b + c + s = (a + c + s) + (b - a) := by
  rw [BitVec.add_comm (a + c + s), BitVec.add_assoc a, BitVec.add_comm a, ← BitVec.add_assoc (b - a)]
  rw [BitVec.add_comm (b - a), BitVec.add_assoc (c + s), BitVec.sub_add_cancel, BitVec.add_comm (c + s),
    BitVec.add_assoc]

end C15L
