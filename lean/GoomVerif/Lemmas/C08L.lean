import GoomVerif.Model.Var
/-!
# Lemmas for C08: the invariant of the variable-mock state and the "base value" of a variable

`IsBase s a x`: `x` is the value variable `a` has *under* its mock — the origin saved by the mocker that currently
mocks it, or simply its content if nobody mocks it.  Every operation of the (repaired) code preserves it, except the
program's own assignment to an un-mocked variable; Cancel/Reset make the content equal to it.
-/
namespace C08L
open Var

/-- mocker `i` currently mocks variable `a` -/
def MockedAt (s : State) (a i : Nat) : Prop := (s.mks i).mocked = true ∧ (s.mks i).addr = a

def IsBase (s : State) (a : Nat) (x : Boxed) : Prop :=
  (∃ i, MockedAt s a i ∧ (s.mks i).origin = x) ∨ ((∀ i, ¬ MockedAt s a i) ∧ (s.mem a).cur = x)

structure Inv (s : State) : Prop where
  fresh : ∀ i, s.n ≤ i → (s.mks i).mocked = false
  act : ∀ i, (s.mks i).mocked = true → (s.mks i).canceled = false
  allCached : ∀ i, i < s.n → s.cache (s.mks i).b (s.mks i).ue (s.mks i).addr = some i
  ptrTyped : ∀ i, i < s.n → (s.mks i).ue = false → (s.mks i).target = some (s.mem (s.mks i).addr).ty
  uniq : ∀ i j, (s.mks i).mocked = true → (s.mks j).mocked = true → (s.mks i).addr = (s.mks j).addr → i = j
  typed : ∀ i, (s.mks i).mocked = true → (s.mks i).target = some (s.mem (s.mks i).addr).ty
  cacheOK : ∀ b u c i, s.cache b u c = some i →
    i < s.n ∧ (s.mks i).b = b ∧ (s.mks i).ue = u ∧ (s.mks i).addr = c

/-- mocker `i` exists, and no other mocker currently holds a mock of its variable -/
def Owner (s : State) (i : Nat) : Prop :=
  i < s.n ∧
  ∀ j, j ≠ i → (s.mks j).mocked = true → (s.mks j).addr ≠ (s.mks i).addr

theorem Inv.lt {s : State} (hI : Inv s) {i : Nat} (h : (s.mks i).mocked = true) : i < s.n := by
  cases Nat.lt_or_ge i s.n with
  | inl h' => exact h'
  | inr h' => rw [hI.fresh i h'] at h; cases h

theorem Inv.cur {s : State} (hI : Inv s) (i : Nat) (h : (s.mks i).mocked = true) :
    s.cache (s.mks i).b (s.mks i).ue (s.mks i).addr = some i := hI.allCached i (hI.lt h)

/-- values handed to an unexported-variable mocker have the variable's own type (anything else is documented as
    unpredictable) -/
def UeTyped (s : State) (i : Nat) (v : Boxed) : Prop :=
  (s.mks i).ue = true → ∀ x, v = some x → x.ty = (s.mem (s.mks i).addr).ty

/-- the discipline under which the restore theorems hold: one mocker per variable at a time -/
def Disc (s : State) : Op → Prop
  | .set i v => Owner s i ∧ UeTyped s i v
  | .apply i cb => Owner s i ∧ ∀ v, cbResult cb = .ok v → UeTyped s i v
  | _ => True

theorem init_inv (mem : Nat → Cell) : Inv (init mem) := by
  constructor <;> simp [init]

@[simp] theorem upd_same {α : Type} (f : Nat → α) (i : Nat) (x : α) : upd f i x i = x := by simp [upd]
theorem upd_other {α : Type} (f : Nat → α) (i j : Nat) (x : α) (h : j ≠ i) : upd f i x j = f j := by simp [upd, h]

/-! ## doSet -/

/-- what `doSet` does, as a case list -/
theorem doSet_cases (s : State) (i : Nat) (v : Boxed) :
    let m := s.mks i
    let r := doSet false s i v
    (r.1 = s ∧ r.2 ≠ .ok) ∨
    (∃ p, r.2 = .panic p ∧ r.1 = { s with mks := upd s.mks i (if m.mocked then m else { m with origin := (s.mem m.addr).cur }) }) ∨
    (∃ c, r.2 = .ok ∧ m.target = some (s.mem m.addr).ty ∧ rset (s.mem m.addr).ty (valueOf v) = .ok c ∧
      r.1 = { s with mem := upd s.mem m.addr { (s.mem m.addr) with cur := c },
                     mks := upd s.mks i { (if m.mocked then m else { m with origin := (s.mem m.addr).cur }) with
                                           mocked := true, canceled := false } }) := by
  intro m r
  simp only [r, doSet]
  cases ht : (s.mks i).target with
  | none => left; simp
  | some t =>
    by_cases hty : t = (s.mem (s.mks i).addr).ty
    · subst hty
      cases hr : rset (s.mem (s.mks i).addr).ty (valueOf v) with
      | error p =>
        right; left; refine ⟨p, ?_⟩
        cases hm : (s.mks i).mocked <;> simp [hr, hm, m]
      | ok c =>
        right; right; refine ⟨c, ?_⟩
        cases hm : (s.mks i).mocked <;> simp [hr, hm, m]
    · left; simp [hty]

/-- generic preservation: one mocker object is replaced (same builder/key/variable), variable types are unchanged -/
theorem inv_update {s s' : State} (hI : Inv s) (i : Nat) (m' : Mocker)
    (hn : s'.n = s.n) (hc : s'.cache = s.cache) (hty : ∀ a, (s'.mem a).ty = (s.mem a).ty)
    (hm : s'.mks = upd s.mks i m')
    (hb : m'.b = (s.mks i).b) (hu : m'.ue = (s.mks i).ue) (ha : m'.addr = (s.mks i).addr)
    (htg : m'.ue = false → m'.target = (s.mks i).target)
    (hk : m'.mocked = true → m'.canceled = false ∧ Owner s i ∧ m'.target = some (s.mem (s.mks i).addr).ty) :
    Inv s' := by
  have key : ∀ j, (s'.mks j).b = (s.mks j).b ∧ (s'.mks j).ue = (s.mks j).ue ∧ (s'.mks j).addr = (s.mks j).addr := by
    intro j; rw [hm]; by_cases hj : j = i
    · subst hj; simp [hb, hu, ha]
    · simp [upd_other _ _ _ _ hj]
  have oth : ∀ j, j ≠ i → s'.mks j = s.mks j := by intro j hj; rw [hm, upd_other _ _ _ _ hj]
  have self : s'.mks i = m' := by rw [hm]; simp
  constructor
  · intro j hj
    by_cases hji : j = i
    · subst hji
      cases hmk : m'.mocked with
      | false => rw [self]; exact hmk
      | true =>
        have := (hk hmk).2.1.1
        omega
    · rw [oth j hji]; exact hI.fresh j (by omega)
  · intro j hj
    by_cases hji : j = i
    · subst hji; rw [self] at hj ⊢; exact (hk hj).1
    · rw [oth j hji] at hj ⊢; exact hI.act j hj
  · intro j hj
    rw [(key j).1, (key j).2.1, (key j).2.2, hc]
    exact hI.allCached j (by omega)
  · intro j hj hue
    rw [(key j).2.2, hty]
    by_cases hji : j = i
    · subst hji; rw [self] at hue ⊢; rw [htg hue]; exact hI.ptrTyped j (by omega) (by rw [← hu]; exact hue)
    · rw [oth j hji] at hue ⊢; exact hI.ptrTyped j (by omega) hue
  · intro j k hj hk' hjk
    rw [(key j).2.2, (key k).2.2] at hjk
    by_cases hji : j = i <;> by_cases hki : k = i
    · rw [hji, hki]
    · subst hji; rw [self] at hj; rw [oth k hki] at hk'
      exact absurd hjk.symm ((hk hj).2.1.2 k hki hk')
    · subst hki; rw [self] at hk'; rw [oth j hji] at hj
      exact absurd hjk ((hk hk').2.1.2 j hji hj)
    · rw [oth j hji] at hj; rw [oth k hki] at hk'; exact hI.uniq j k hj hk' hjk
  · intro j hj
    rw [(key j).2.2, hty]
    by_cases hji : j = i
    · subst hji; rw [self] at hj ⊢; exact (hk hj).2.2
    · rw [oth j hji] at hj ⊢; exact hI.typed j hj
  · intro b u c j hcj
    rw [hc] at hcj
    have h := hI.cacheOK b u c j hcj
    rw [hn, (key j).1, (key j).2.1, (key j).2.2]
    exact h

/-- generic preservation of the base value when one mocker object is replaced -/
theorem base_update {s s' : State} (i : Nat) (m' : Mocker) (hm : s'.mks = upd s.mks i m')
    (ha : m'.addr = (s.mks i).addr) (a : Nat) (x : Boxed) (hB : IsBase s a x)
    (hmem : a ≠ (s.mks i).addr → s'.mem a = s.mem a)
    (h1 : a = (s.mks i).addr →
      ((s.mks i).mocked = true ∧ m'.mocked = true ∧ m'.origin = (s.mks i).origin) ∨
      ((s.mks i).mocked = false ∧ m'.mocked = true ∧ m'.origin = (s.mem a).cur ∧ ∀ j, j ≠ i → ¬ MockedAt s a j) ∨
      ((s.mks i).mocked = true ∧ m'.mocked = false ∧ (s'.mem a).cur = (s.mks i).origin ∧ ∀ j, MockedAt s a j → j = i) ∨
      ((s.mks i).mocked = false ∧ m'.mocked = false ∧ (s'.mem a).cur = (s.mem a).cur)) :
    IsBase s' a x := by
  have oth : ∀ j, j ≠ i → s'.mks j = s.mks j := by intro j hj; rw [hm, upd_other _ _ _ _ hj]
  have self : s'.mks i = m' := by rw [hm]; simp
  have moth : ∀ j, j ≠ i → (MockedAt s' a j ↔ MockedAt s a j) := by
    intro j hj; simp only [MockedAt, oth j hj]
  by_cases haa : a = (s.mks i).addr
  · have notme : ∀ j, (s.mks i).mocked = false → MockedAt s a j → j ≠ i := by
      intro j hf hj hji; subst hji; rw [hj.1] at hf; cases hf
    rcases h1 haa with ⟨ho, hn, hor⟩ | ⟨ho, hn, hor, hsole⟩ | ⟨ho, hn, hcur, hu⟩ | ⟨ho, hn, hcur⟩
    · -- stays mocked
      rcases hB with ⟨j, hj, hjo⟩ | ⟨hnone, _⟩
      · left
        by_cases hji : j = i
        · subst hji; exact ⟨j, ⟨by rw [self]; exact hn, by rw [self, ha]; exact haa.symm⟩, by rw [self, hor]; exact hjo⟩
        · exact ⟨j, (moth j hji).2 hj, by rw [oth j hji]; exact hjo⟩
      · exact absurd ⟨ho, haa.symm⟩ (hnone i)
    · -- first mock
      rcases hB with ⟨j, hj, _⟩ | ⟨_, hc⟩
      · exact absurd hj (hsole j (notme j ho hj))
      · left; exact ⟨i, ⟨by rw [self]; exact hn, by rw [self, ha]; exact haa.symm⟩, by rw [self, hor]; exact hc⟩
    · -- restored
      rcases hB with ⟨j, hj, hjo⟩ | ⟨hnone, _⟩
      · right
        have hji := hu j hj
        subst hji
        refine ⟨?_, by rw [hcur]; exact hjo⟩
        intro k hk
        by_cases hkj : k = j
        · subst hkj; rw [MockedAt, self, hn] at hk; cases hk.1
        · exact hkj (hu k ((moth k hkj).1 hk))
      · exact absurd ⟨ho, haa.symm⟩ (hnone i)
    · -- stays un-mocked
      rcases hB with ⟨j, hj, hjo⟩ | ⟨hnone, hc⟩
      · left; have hji := notme j ho hj
        exact ⟨j, (moth j hji).2 hj, by rw [oth j hji]; exact hjo⟩
      · right
        refine ⟨?_, by rw [hcur]; exact hc⟩
        intro k hk
        by_cases hki : k = i
        · subst hki; rw [MockedAt, self, hn] at hk; cases hk.1
        · exact hnone k ((moth k hki).1 hk)
  · have mi' : ¬ MockedAt s' a i := by intro h; rw [MockedAt, self, ha] at h; exact haa h.2.symm
    have mi : ¬ MockedAt s a i := by intro h; exact haa h.2.symm
    rcases hB with ⟨j, hj, hjo⟩ | ⟨hnone, hc⟩
    · have hji : j ≠ i := by intro h; subst h; exact mi hj
      left; exact ⟨j, (moth j hji).2 hj, by rw [oth j hji]; exact hjo⟩
    · right
      refine ⟨?_, by rw [hmem haa]; exact hc⟩
      intro k hk
      by_cases hki : k = i
      · subst hki; exact mi' hk
      · exact hnone k ((moth k hki).1 hk)

theorem doSet_inv {s : State} (hI : Inv s) (i : Nat) (v : Boxed) (hO : Owner s i) : Inv (doSet false s i v).1 := by
  rcases doSet_cases s i v with ⟨h, _⟩ | ⟨p, _, h⟩ | ⟨c, _, ht, _, h⟩
  · rw [h]; exact hI
  · rw [h]
    refine inv_update hI i _ rfl rfl (fun _ => rfl) rfl ?_ ?_ ?_ ?_ ?_
    · split <;> rfl
    · split <;> rfl
    · split <;> rfl
    · intro _; split <;> rfl
    · intro hm
      cases hmk : (s.mks i).mocked with
      | false => simp [hmk] at hm
      | true => simp only [hmk, if_true]; exact ⟨hI.act i hmk, hO, hI.typed i hmk⟩
  · rw [h]
    refine inv_update hI i _ rfl rfl ?_ rfl ?_ ?_ ?_ ?_ ?_
    · intro a; simp only [upd]; split
      · next h => subst h; rfl
      · rfl
    · split <;> rfl
    · split <;> rfl
    · split <;> rfl
    · intro _; split <;> rfl
    · intro _; refine ⟨rfl, hO, ?_⟩
      split <;> exact ht

theorem doSet_base {s : State} (i : Nat) (v : Boxed) (hO : Owner s i) (a : Nat) (x : Boxed)
    (hB : IsBase s a x) : IsBase (doSet false s i v).1 a x := by
  rcases doSet_cases s i v with ⟨h, _⟩ | ⟨p, _, h⟩ | ⟨c, _, ht, _, h⟩
  · rw [h]; exact hB
  · rw [h]
    refine base_update i _ rfl ?_ a x hB (fun _ => rfl) ?_
    · split <;> rfl
    · intro _
      cases hmk : (s.mks i).mocked with
      | false => right; right; right; simp [hmk]
      | true => left; simp [hmk]
  · rw [h]
    refine base_update i _ rfl ?_ a x hB ?_ ?_
    · split <;> rfl
    · intro hne; simp only [upd]; rw [if_neg hne]
    · intro haa
      cases hmk : (s.mks i).mocked with
      | false =>
        right; left
        refine ⟨rfl, rfl, by simp [hmk, haa], ?_⟩
        intro j hj hm
        exact hO.2 j hj hm.1 (by rw [hm.2, haa])
      | true => left; simp [hmk]

/-! ## Cancel -/

theorem cancel_cases {s : State} (hI : Inv s) (i : Nat) :
    let m := s.mks i
    let r := cancel false s i
    r.2 = .ok ∧
    ((m.mocked = false ∧ r.1 = { s with mks := upd s.mks i { m with canceled := true } }) ∨
     (m.mocked = true ∧ r.1 = { s with mem := upd s.mem m.addr { (s.mem m.addr) with cur := m.origin },
                                       mks := upd s.mks i { m with mocked := false, canceled := true } })) := by
  intro m r
  simp only [r, cancel]
  cases hmk : (s.mks i).mocked with
  | false => simp [m, hmk]
  | true =>
    have ht := hI.typed i hmk
    simp [m, hmk, ht, rset]

/-- Cancel of a mocker that holds no mock: nothing but its `canceled` flag changes (no invariant needed) -/
theorem cancel_unmocked (s : State) (i : Nat) (h : (s.mks i).mocked = false) :
    cancel false s i = ({ s with mks := upd s.mks i { (s.mks i) with canceled := true } }, .ok) := by
  simp [cancel, h]

theorem cancel_inv {s : State} (hI : Inv s) (i : Nat) : Inv (cancel false s i).1 := by
  rcases (cancel_cases hI i).2 with ⟨_, h⟩ | ⟨_, h⟩
  · rw [h]
    exact inv_update hI i _ rfl rfl (fun _ => rfl) rfl rfl rfl rfl (fun _ => rfl) (by intro hm; simp_all)
  · rw [h]
    refine inv_update hI i _ rfl rfl ?_ rfl rfl rfl rfl (fun _ => rfl) (by intro hm; simp at hm)
    intro a; simp only [upd]; split
    · next h => subst h; rfl
    · rfl

theorem cancel_base {s : State} (hI : Inv s) (i : Nat) (a : Nat) (x : Boxed) (hB : IsBase s a x) :
    IsBase (cancel false s i).1 a x := by
  rcases (cancel_cases hI i).2 with ⟨hm, h⟩ | ⟨hm, h⟩
  · rw [h]
    exact base_update i { (s.mks i) with canceled := true } rfl rfl a x hB (fun _ => rfl)
      (fun _ => Or.inr (Or.inr (Or.inr ⟨hm, hm, rfl⟩)))
  · rw [h]
    refine base_update i { (s.mks i) with mocked := false, canceled := true } rfl rfl a x hB ?_ ?_
    · intro hne; simp only [upd]; rw [if_neg hne]
    · intro haa
      right; right; left
      refine ⟨hm, rfl, by simp [haa], ?_⟩
      intro j hj
      exact hI.uniq j i hj.1 hm (by rw [hj.2, haa])

/-! ## Set / Apply (ue_var.go: `reflect.NewAt` with the value's type first) -/

/-- the state after `m.targetValue = reflect.NewAt(reflect.TypeOf(value), m.target)` -/
def retarget (s : State) (i : Nat) (t : Ty) : State :=
  { s with mks := upd s.mks i { (s.mks i) with target := some t } }

theorem retarget_owner {s : State} (i : Nat) (t : Ty) (hO : Owner s i) : Owner (retarget s i t) i := by
  constructor
  · exact hO.1
  · intro j hj hm
    simp only [retarget, upd, if_neg hj] at hm ⊢
    simp only [if_true]
    exact hO.2 j hj hm

theorem retarget_inv {s : State} (hI : Inv s) (i : Nat) (t : Ty) (hO : Owner s i) (hue : (s.mks i).ue = true)
    (ht : t = (s.mem (s.mks i).addr).ty) : Inv (retarget s i t) := by
  refine inv_update hI i { (s.mks i) with target := some t } rfl rfl (fun _ => rfl) rfl rfl rfl rfl
    (fun h => by rw [hue] at h; cases h) ?_
  intro hm
  exact ⟨hI.act i hm, hO, by simp [ht]⟩

theorem retarget_base {s : State} (i : Nat) (t : Ty) (a : Nat) (x : Boxed) (hB : IsBase s a x) :
    IsBase (retarget s i t) a x := by
  refine base_update i { (s.mks i) with target := some t } rfl rfl a x hB (fun _ => rfl) ?_
  intro _
  rcases Bool.eq_false_or_eq_true (s.mks i).mocked with hm | hm
  · exact Or.inl ⟨hm, hm, rfl⟩
  · exact Or.inr (Or.inr (Or.inr ⟨hm, hm, rfl⟩))

theorem setOp_eq (s : State) (i : Nat) (v : Boxed) :
    setOp false s i v =
      if (s.mks i).ue then
        match v with
        | none => (s, .panic .nilType)
        | some x => doSet false (retarget s i x.ty) i v
      else doSet false s i v := rfl

theorem setOp_inv_base {s : State} (hI : Inv s) (i : Nat) (v : Boxed) (hO : Owner s i) (hT : UeTyped s i v) :
    Inv (setOp false s i v).1 ∧ ∀ a x, IsBase s a x → IsBase (setOp false s i v).1 a x := by
  rw [setOp_eq]
  cases hu : (s.mks i).ue with
  | false => simp only [Bool.false_eq_true, if_false]; exact ⟨doSet_inv hI i v hO, fun a x => doSet_base i v hO a x⟩
  | true =>
    simp only [if_true]
    cases v with
    | none => exact ⟨hI, fun _ _ h => h⟩
    | some y =>
      have ht := hT hu y rfl
      have hO' := retarget_owner i y.ty hO
      exact ⟨doSet_inv (retarget_inv hI i y.ty hO hu ht) i _ hO',
             fun a x hB => doSet_base i _ hO' a x (retarget_base i y.ty a x hB)⟩

theorem applyOp_inv_base {s : State} (hI : Inv s) (i : Nat) (cb : Cb) (hO : Owner s i)
    (hT : ∀ v, cbResult cb = .ok v → UeTyped s i v) :
    Inv (applyOp false s i cb).1 ∧ ∀ a x, IsBase s a x → IsBase (applyOp false s i cb).1 a x := by
  unfold applyOp
  cases hr : cbResult cb with
  | error p => exact ⟨hI, fun _ _ h => h⟩
  | ok v => simp only [Bool.false_eq_true, if_false]; exact setOp_inv_base hI i v hO (hT v hr)

/-! ## lookup through the builder cache -/

def lookFresh (s : State) (b : Nat) (ue : Bool) (c : Nat) : State :=
  { s with mks := upd s.mks s.n { b := b, ue := ue, addr := c, target := if ue then none else some (s.mem c).ty,
                                  origin := none, mocked := false, canceled := false },
           n := s.n + 1, ret := s.n, pkg := upd s.pkg b 0,
           cache := fun b' u' c' => if b' = b ∧ u' = ue ∧ c' = c then some s.n else s.cache b' u' c' }

theorem look_cases (s : State) (b : Nat) (ue : Bool) (c : Nat) :
    (look false s b ue c).2 = .ok ∧
    ((∃ i, s.cache b ue c = some i ∧ (look false s b ue c).1 = { s with ret := i, pkg := upd s.pkg b 0 }) ∨
     (s.cache b ue c = none ∧ (look false s b ue c).1 = lookFresh s b ue c)) := by
  unfold look
  cases hc : s.cache b ue c with
  | none => simp [lookFresh]
  | some i => simp

theorem lookFresh_inv {s : State} (hI : Inv s) (b : Nat) (ue : Bool) (c : Nat)
    (hmiss : s.cache b ue c = none) : Inv (lookFresh s b ue c) := by
  have old : ∀ j, j < s.n → (lookFresh s b ue c).mks j = s.mks j := by
    intro j hj
    have : j ≠ s.n := by omega
    simp only [lookFresh, upd, if_neg this]
  have mk' : ∀ j, ((lookFresh s b ue c).mks j).mocked = true → (lookFresh s b ue c).mks j = s.mks j ∧ (s.mks j).mocked = true := by
    intro j hj
    by_cases h : j = s.n
    · subst h; simp [lookFresh] at hj
    · simp only [lookFresh, upd, if_neg h] at hj ⊢; exact ⟨trivial, hj⟩
  have keyne : ∀ j, j < s.n → ¬ ((s.mks j).b = b ∧ (s.mks j).ue = ue ∧ (s.mks j).addr = c) := by
    intro j hj h
    have hc := hI.allCached j hj
    rw [h.1, h.2.1, h.2.2, hmiss] at hc; cases hc
  constructor
  · intro j hj
    have : j ≠ s.n := by simp only [lookFresh] at hj; omega
    simp only [lookFresh, upd, if_neg this]
    exact hI.fresh j (by simp only [lookFresh] at hj; omega)
  · intro j hj
    obtain ⟨e, hm⟩ := mk' j hj; rw [e]; exact hI.act j hm
  · intro j hj
    have hj' : j < s.n + 1 := hj
    by_cases h : j = s.n
    · subst h; simp [lookFresh]
    · have hlt : j < s.n := by omega
      rw [old j hlt]
      simp only [lookFresh]
      rw [if_neg (keyne j hlt)]
      exact hI.allCached j hlt
  · intro j hj hue
    have hj' : j < s.n + 1 := hj
    by_cases h : j = s.n
    · subst h; simp only [lookFresh, upd_same] at hue ⊢; simp [hue]
    · have hlt : j < s.n := by omega
      rw [old j hlt] at hue ⊢
      exact hI.ptrTyped j hlt hue
  · intro j k hj hk hjk
    obtain ⟨ej, hmj⟩ := mk' j hj; obtain ⟨ek, hmk⟩ := mk' k hk
    rw [ej, ek] at hjk; exact hI.uniq j k hmj hmk hjk
  · intro j hj
    obtain ⟨e, hm⟩ := mk' j hj; rw [e]; exact hI.typed j hm
  · intro b' u' c' j hcj
    simp only [lookFresh] at hcj ⊢
    split at hcj
    · next h =>
      obtain ⟨h1, h2, h3⟩ := h
      injection hcj with hcj; subst hcj
      simp [h1, h2, h3]
    · have h := hI.cacheOK b' u' c' j hcj
      have hne : j ≠ s.n := by omega
      simp only [upd, if_neg hne]
      exact ⟨by omega, h.2⟩

theorem lookFresh_base {s : State} (hI : Inv s) (b : Nat) (ue : Bool) (c : Nat) (a : Nat) (x : Boxed)
    (hB : IsBase s a x) : IsBase (lookFresh s b ue c) a x := by
  have hf := hI.fresh s.n (Nat.le_refl _)
  have moth : ∀ j, MockedAt (lookFresh s b ue c) a j ↔ MockedAt s a j := by
    intro j
    by_cases h : j = s.n
    · subst h; simp [MockedAt, lookFresh, hf]
    · simp only [MockedAt, lookFresh, upd, if_neg h]
  rcases hB with ⟨j, hj, hjo⟩ | ⟨hnone, hc⟩
  · left
    have hne : j ≠ s.n := by intro h; subst h; rw [hj.1] at hf; cases hf
    exact ⟨j, (moth j).2 hj, by simp only [lookFresh, upd, if_neg hne]; exact hjo⟩
  · right; exact ⟨fun k hk => hnone k ((moth k).1 hk), hc⟩

/-- a state that differs only in `ret` / `pkg` satisfies the same invariant -/
theorem inv_of_core {s t : State} (hI : Inv s) (h1 : t.mem = s.mem) (h2 : t.mks = s.mks) (h3 : t.n = s.n)
    (h4 : t.cache = s.cache) : Inv t := by
  constructor
  · intro i; rw [h2, h3]; exact hI.fresh i
  · intro i; rw [h2]; exact hI.act i
  · intro i; rw [h2, h3, h4]; exact hI.allCached i
  · intro i; rw [h2, h3, h1]; exact hI.ptrTyped i
  · intro i j; rw [h2]; exact hI.uniq i j
  · intro i; rw [h2, h1]; exact hI.typed i
  · intro b u c i; rw [h2, h3, h4]; exact hI.cacheOK b u c i

theorem look_inv_base {s : State} (hI : Inv s) (b : Nat) (ue : Bool) (c : Nat) :
    Inv (look false s b ue c).1 ∧ ∀ a x, IsBase s a x → IsBase (look false s b ue c).1 a x := by
  rcases (look_cases s b ue c).2 with ⟨i, _, h⟩ | ⟨hmiss, h⟩
  · rw [h]
    exact ⟨inv_of_core hI rfl rfl rfl rfl, fun a x hB => hB⟩
  · rw [h]; exact ⟨lookFresh_inv hI b ue c hmiss, fun a x => lookFresh_base hI b ue c a x⟩

/-! ## Builder.Reset -/

/-- everything one `Cancel` does to the parts of the state other lemmas look at -/
theorem cancel_facts {s : State} (hI : Inv s) (i : Nat) :
    ∀ r, cancel false s i = r →
    r.2 = .ok ∧ r.1.cache = s.cache ∧
    (∀ j, (r.1.mks j).addr = (s.mks j).addr ∧ (r.1.mks j).b = (s.mks j).b ∧ (r.1.mks j).ue = (s.mks j).ue) ∧
    (∀ j, (r.1.mks j).mocked = true → (s.mks j).mocked = true) ∧
    (r.1.mks i).mocked = false ∧
    (∀ a, ¬ MockedAt s a i → r.1.mem a = s.mem a) := by
  intro r hr
  subst hr
  have hc := cancel_cases hI i
  refine ⟨hc.1, ?_⟩
  rcases hc.2 with ⟨hm, h⟩ | ⟨hm, h⟩
  · rw [h]
    refine ⟨rfl, ?_, ?_, by simp [hm], fun _ _ => rfl⟩
    · intro j; by_cases hj : j = i
      · subst hj; simp
      · simp [upd, hj]
    · intro j; by_cases hj : j = i
      · subst hj; simp [hm]
      · simp [upd, hj]
  · rw [h]
    refine ⟨rfl, ?_, ?_, by simp, ?_⟩
    · intro j; by_cases hj : j = i
      · subst hj; simp
      · simp [upd, hj]
    · intro j; by_cases hj : j = i
      · subst hj; simp
      · simp [upd, hj]
    · intro a hna
      have : a ≠ (s.mks i).addr := fun h => hna ⟨hm, h.symm⟩
      simp [upd, this]

theorem resetGo_spec (b : Nat) (ord : List (Bool × Nat)) : ∀ {s : State}, Inv s →
    ∀ r, resetGo false b s ord = r →
    r.2 = .ok ∧ Inv r.1 ∧ (∀ a x, IsBase s a x → IsBase r.1 a x) ∧ r.1.cache = s.cache ∧
    (∀ j, (r.1.mks j).addr = (s.mks j).addr ∧ (r.1.mks j).b = (s.mks j).b ∧ (r.1.mks j).ue = (s.mks j).ue) ∧
    (∀ j, (r.1.mks j).mocked = true → (s.mks j).mocked = true) ∧
    (∀ u c i, (u, c) ∈ ord → s.cache b u c = some i → (r.1.mks i).mocked = false) ∧
    (∀ a, (∀ i, MockedAt s a i → (s.mks i).b ≠ b) → r.1.mem a = s.mem a) := by
  induction ord with
  | nil =>
    intro s hI r hr
    simp only [resetGo] at hr; subst hr
    exact ⟨rfl, hI, fun _ _ h => h, rfl, fun _ => ⟨rfl, rfl, rfl⟩, fun _ h => h, by simp, fun _ _ => rfl⟩
  | cons k rest ih =>
    intro s hI r hr
    obtain ⟨u, c⟩ := k
    cases hc : s.cache b u c with
    | none =>
      have e : resetGo false b s ((u, c) :: rest) = resetGo false b s rest := by simp [resetGo, hc]
      rw [e] at hr
      obtain ⟨h1, h2, h3, h4, h5, h6, h7, h8⟩ := ih hI r hr
      refine ⟨h1, h2, h3, h4, h5, h6, ?_, h8⟩
      intro u' c' i hmem hci
      rcases List.mem_cons.1 hmem with heq | hin
      · injection heq with e1 e2; subst e1; subst e2; rw [hc] at hci; cases hci
      · exact h7 u' c' i hin hci
    | some i =>
      obtain ⟨f1, f2, f3, f4, f5, f6⟩ := cancel_facts hI i _ rfl
      have e : resetGo false b s ((u, c) :: rest) = resetGo false b (cancel false s i).1 rest := by
        simp only [resetGo, hc]
        generalize hr : cancel false s i = r at f1
        obtain ⟨s1, o⟩ := r
        simp only at f1; subst f1; rfl
      rw [e] at hr
      have hI' := cancel_inv hI i
      obtain ⟨h1, h2, h3, h4, h5, h6, h7, h8⟩ := ih hI' r hr
      refine ⟨h1, h2, fun a x hB => h3 a x (cancel_base hI i a x hB), by rw [h4, f2], ?_, fun j hj => f4 j (h6 j hj), ?_, ?_⟩
      · intro j; obtain ⟨a1, a2, a3⟩ := h5 j; obtain ⟨b1, b2, b3⟩ := f3 j
        exact ⟨by rw [a1, b1], by rw [a2, b2], by rw [a3, b3]⟩
      · intro u' c' i' hmem hci
        rcases List.mem_cons.1 hmem with heq | hin
        · injection heq with e1 e2; subst e1; subst e2
          rw [hc] at hci; injection hci with hci; subst hci
          cases hm : (r.1.mks i).mocked with
          | false => rfl
          | true => have := h6 i hm; rw [f5] at this; cases this
        · exact h7 u' c' i' hin (by rw [f2]; exact hci)
      · intro a hb
        have hib := (hI.cacheOK b u c i hc).2.1
        have hna : ¬ MockedAt s a i := fun hm => hb i hm hib
        rw [h8 a ?_, f6 a hna]
        intro j hj
        have hjs : MockedAt s a j := ⟨f4 j hj.1, by rw [← (f3 j).1]; exact hj.2⟩
        rw [(f3 j).2.1]; exact hb j hjs

/-! ## one step, whole histories -/

theorem write_inv_base {s : State} (hI : Inv s) (c : Nat) (v : Boxed) :
    Inv (step false s (.write c v)).1 ∧
    ∀ a x, IsBase s a x → (a = c → ∃ i, MockedAt s a i) → IsBase (step false s (.write c v)).1 a x := by
  constructor
  · have hty : ∀ a, ((step false s (.write c v)).1.mem a).ty = (s.mem a).ty := by
      intro a; simp only [step, upd]; split
      · next h => rw [h]
      · rfl
    exact ⟨hI.fresh, hI.act, hI.allCached,
      fun i hi hu => by rw [hty]; exact hI.ptrTyped i hi hu,
      hI.uniq,
      fun i hi => by rw [hty]; exact hI.typed i hi,
      hI.cacheOK⟩
  · intro a x hB hw
    rcases hB with ⟨j, hj, hjo⟩ | ⟨hnone, hc⟩
    · exact Or.inl ⟨j, hj, hjo⟩
    · right
      refine ⟨hnone, ?_⟩
      have : a ≠ c := fun h => by obtain ⟨i, hi⟩ := hw h; exact hnone i hi
      simp only [step, upd, if_neg this]; exact hc

/-- every operation preserves the invariant and the base value of every variable, except the program's own
    assignment to a variable that is not mocked -/
theorem step_inv_base {s : State} (hI : Inv s) (op : Op) (hD : Disc s op) :
    Inv (step false s op).1 ∧
    ∀ a x, IsBase s a x → (∀ v, op = .write a v → ∃ i, MockedAt s a i) → IsBase (step false s op).1 a x := by
  cases op with
  | look b ue c => have h := look_inv_base hI b ue c; exact ⟨h.1, fun a x hB _ => h.2 a x hB⟩
  | lookBad p => exact ⟨hI, fun _ _ h _ => h⟩
  | pkg b p => exact ⟨inv_of_core hI rfl rfl rfl rfl, fun _ _ h _ => h⟩
  | set i v => have h := setOp_inv_base hI i v hD.1 hD.2; exact ⟨h.1, fun a x hB _ => h.2 a x hB⟩
  | apply i cb => have h := applyOp_inv_base hI i cb hD.1 hD.2; exact ⟨h.1, fun a x hB _ => h.2 a x hB⟩
  | cancel i => exact ⟨cancel_inv hI i, fun a x hB _ => cancel_base hI i a x hB⟩
  | reset b ord =>
    obtain ⟨_, h2, h3, _⟩ := resetGo_spec b ord hI _ rfl
    exact ⟨h2, fun a x hB _ => h3 a x hB⟩
  | write c v =>
    have h := write_inv_base hI c v
    refine ⟨h.1, fun a x hB hw => h.2 a x hB ?_⟩
    intro hac; subst hac; exact hw v rfl

/-- a history that keeps the discipline and in which the program does not itself assign variable `a` while it is
    un-mocked -/
def Good (a : Nat) : State → List Op → Prop
  | _, [] => True
  | s, op :: rest => Disc s op ∧ (∀ v, op = .write a v → ∃ i, MockedAt s a i) ∧ Good a (step false s op).1 rest

theorem run_inv_base (a : Nat) (x : Boxed) : ∀ (ops : List Op) {s : State}, Inv s → Good a s ops → IsBase s a x →
    Inv (run false s ops) ∧ IsBase (run false s ops) a x := by
  intro ops
  induction ops with
  | nil => intro s hI _ hB; exact ⟨hI, hB⟩
  | cons op rest ih =>
    intro s hI hG hB
    obtain ⟨hD, hw, hG'⟩ := hG
    have h := step_inv_base hI op hD
    exact ih h.1 hG' (h.2 a x hB hw)

/-! ## what one mocker remembers, whatever the other mockers do (no discipline, no invariant) -/

/-- operations that do not cancel mocker `i` (Resets are excluded here, see `restore_own_first_partial`) -/
def KeepsMock (i : Nat) : Op → Prop
  | .cancel j => j ≠ i
  | .reset _ _ => False
  | _ => True

/-- what mocker `i` remembers: it holds a mock of variable `a` and saved `x` -/
def Holds (s : State) (i a : Nat) (x : Boxed) : Prop :=
  i < s.n ∧ (s.mks i).mocked = true ∧ (s.mks i).origin = x ∧ (s.mks i).addr = a

theorem doSet_holds (t : State) (j : Nat) (v : Boxed) (i a : Nat) (x : Boxed) (h : Holds t i a x) :
    Holds (doSet false t j v).1 i a x := by
  obtain ⟨h1, h2, h3, h4⟩ := h
  rcases doSet_cases t j v with ⟨hs, _⟩ | ⟨p, _, hs⟩ | ⟨c, _, _, _, hs⟩
  · rw [hs]; exact ⟨h1, h2, h3, h4⟩
  · rw [hs]
    by_cases hji : i = j
    · subst hji; simp only [Holds, upd_same, h2, if_true]; exact ⟨h1, trivial, h3, h4⟩
    · simp only [Holds, upd, if_neg hji]; exact ⟨h1, h2, h3, h4⟩
  · rw [hs]
    by_cases hji : i = j
    · subst hji; simp only [Holds, upd_same, h2, if_true]; exact ⟨h1, trivial, h3, h4⟩
    · simp only [Holds, upd, if_neg hji]; exact ⟨h1, h2, h3, h4⟩

theorem setOp_holds (s : State) (j : Nat) (v : Boxed) (i a : Nat) (x : Boxed) (h : Holds s i a x) :
    Holds (setOp false s j v).1 i a x := by
  rw [setOp_eq]
  split
  · cases v with
    | none => exact h
    | some y =>
      apply doSet_holds
      obtain ⟨h1, h2, h3, h4⟩ := h
      by_cases hji : i = j
      · subst hji; simp only [Holds, retarget, upd_same]; exact ⟨h1, h2, h3, h4⟩
      · simp only [Holds, retarget, upd, if_neg hji]; exact ⟨h1, h2, h3, h4⟩
  · exact doSet_holds s j v i a x h

theorem step_holds (s : State) (op : Op) (i a : Nat) (x : Boxed) (h : Holds s i a x) (hk : KeepsMock i op) :
    Holds (step false s op).1 i a x := by
  cases op with
  | look b ue c =>
    obtain ⟨h1, h2, h3, h4⟩ := h
    simp only [step, look]
    cases s.cache b ue c with
    | some j => exact ⟨h1, h2, h3, h4⟩
    | none =>
      have hne : i ≠ s.n := by omega
      simp only [Holds, upd, if_neg hne]
      exact ⟨by omega, h2, h3, h4⟩
  | lookBad p => exact h
  | pkg b p => exact h
  | write c v => exact h
  | set j v => exact setOp_holds s j v i a x h
  | apply j cb =>
    simp only [step, applyOp]
    cases cbResult cb with
    | error p => exact h
    | ok v => simp only [Bool.false_eq_true, if_false]; exact setOp_holds s j v i a x h
  | cancel j =>
    have hji : i ≠ j := fun e => hk e.symm
    obtain ⟨h1, h2, h3, h4⟩ := h
    simp only [step, cancel, Bool.false_eq_true, if_false]
    split
    · split
      · exact ⟨h1, h2, h3, h4⟩
      · split
        · exact ⟨h1, h2, h3, h4⟩
        · split
          · exact ⟨h1, h2, h3, h4⟩
          · simp only [Holds, upd, if_neg hji]; exact ⟨h1, h2, h3, h4⟩
    · simp only [Holds, upd, if_neg hji]; exact ⟨h1, h2, h3, h4⟩
  | reset b ord => exact absurd hk id

end C08L
