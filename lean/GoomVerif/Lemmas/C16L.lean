import GoomVerif.Model.X86Dec
import GoomVerif.Gen.X86TableOK
/-! Lemmas for C16: lifting of the chunked certificate check, the run invariant, one lemma per table instruction. -/
namespace C16L
open X86Dec Gen.X86

/-- positions beyond the last chunk carry no certificate -/
theorem certWord_out (pc : Nat) (h : nchunks ≤ pc / 256) : certWord pc = 0 := by
  unfold certWord
  have : cChunks[pc / 256]? = none := by
    apply Array.getElem?_eq_none
    have : cChunks.size = nchunks := by decide
    omega
  rw [this]; rfl

/-- **the table program is well formed at every position** (53 kernel-checked chunks of 256 pcs, lifted) -/
theorem table_ok (pc : Nat) : okAt pc = true := by
  by_cases h : pc / 256 < nchunks
  · have hc := Gen.X86OK.chunks_ok (pc / 256) h
    unfold chunkOK at hc
    rw [List.all_eq_true] at hc
    have := hc (pc % 256) (List.mem_range.mpr (Nat.mod_lt _ (by decide)))
    have e : 256 * (pc / 256) + pc % 256 = pc := Nat.div_add_mod pc 256
    rw [e] at this
    exact this
  · have hw := certWord_out pc (Nat.le_of_not_lt h)
    unfold okAt cert?
    simp [hw]

end C16L
