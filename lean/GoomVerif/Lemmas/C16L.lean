import GoomVerif.Model.X86Dec
import GoomVerif.Gen.X86TableOK
/-! Lemmas for C16: lifting of the chunked certificate check, the run invariant, one lemma per table instruction. -/
namespace C16L
open X86Dec Gen.X86

/-- positions beyond the last chunk carry no certificate -/
theorem certWord_out (pc : Nat) (h : nchunks ≤ pc / 256) : certWord pc = 0 := by
  unfold certWord
  have : cChunks[pc / 256]? = none := by
    apply Array.getElem?_eq_none
    have : cChunks.size = nchunks := by decide
    omega
  rw [this]; rfl

/-- **the table program is well formed at every position** (53 kernel-checked chunks of 256 pcs, lifted) -/
theorem table_ok (pc : Nat) : okAt pc = true := by
  by_cases h : pc / 256 < nchunks
  · have hc := Gen.X86OK.chunks_ok (pc / 256) h
    unfold chunkOK at hc
    rw [List.all_eq_true] at hc
    have := hc (pc % 256) (List.mem_range.mpr (Nat.mod_lt _ (by decide)))
    have e : 256 * (pc / 256) + pc % 256 = pc := Nat.div_add_mod pc 256
    rw [e] at this
    exact this
  · have hw := certWord_out pc (Nat.le_of_not_lt h)
    unfold okAt cert?
    simp [hw]


structure GoodRes (n : Nat) (r : Res) : Prop where
  nopanic : r.err ≠ .panic
  nofuel : r.err ≠ .fuel
  len_le : r.len ≤ n
  len_pos : r.err = .ok → 1 ≤ r.len
  pcrel : r.pcrel ≠ 0 → (r.pcrel = 1 ∨ r.pcrel = 2 ∨ r.pcrel = 4) ∧ 1 ≤ r.pcreloff ∧ r.pcreloff + r.pcrel ≤ r.len
  opc : r.err = .ok → r.pcrel ≠ 0 → r.opcode ≠ 0
  /-- the prefix-only pseudo instruction (`instPrefix`: err = nil, Op = 0) is recognisable: Len = 1, no PC-relative field, Opcode = 0 -/
  op0 : r.err = .ok → r.op = 0 → r.len = 1 ∧ r.pcrel = 0 ∧ r.opcode = 0

theorem good_instPrefix (src : Bytes) (h : 0 < src.length) : GoodRes src.length (instPrefix src) := by
  unfold instPrefix
  have : ¬ src.length = 0 := by omega
  simp only [this, if_false]
  constructor <;> simp <;> omega

theorem good_truncated (src : Bytes) : GoodRes src.length (truncated src) := by
  unfold truncated
  by_cases h : src.length = 0
  · simp only [h, if_true]; constructor <;> simp
  · simp only [h, if_false]; exact good_instPrefix src (by omega)

theorem good_err (n pos : Nat) (e : Err) (he : e = .internal ∨ e = .unrec) (h : pos ≤ n) : GoodRes n { err := e, len := pos } := by
  rcases he with rfl | rfl <;> constructor <;> simp <;> omega

/-- facts about the PC-relative bookkeeping of a state, monotone in `pos` -/
structure PcInv (s : St) : Prop where
  rip : s.memBase = regRIP → s.displen = 4 ∧ 1 ≤ s.dispoff ∧ s.dispoff + 4 ≤ s.pos
  nomodrm : s.haveModrm = false → s.memBase ≠ regRIP
  pcrel : s.pcrel ≠ 0 → (s.pcrel = 1 ∨ s.pcrel = 2 ∨ s.pcrel = 4) ∧ 1 ≤ s.pcreloff ∧ s.pcreloff + s.pcrel ≤ s.pos
  rip_nz : s.memBase = regRIP → s.opcode ≠ 0
  pcrel_nz : s.pcrel ≠ 0 → s.opcode ≠ 0

structure Inv (n : Nat) (c : Cert) (s : St) : Prop where
  narg : s.narg ≤ c.nargMax
  nargMax : c.nargMax ≤ len_args
  pos_le : s.pos ≤ n
  cons : c.cons = true → 1 ≤ s.pos
  immc : 0 < c.immcw → 1 ≤ s.immcpos ∧ s.immcpos + c.immcw ≤ s.pos
  pc : PcInv s
  /-- `inst.Opcode` is already non-zero, or at most `c.z - 1` bytes were shifted in so far -/
  opz : s.opcode ≠ 0 ∨ (1 ≤ c.z ∧ 40 ≤ s.osh8 + 8 * c.z)

structure BrkGood (n : Nat) (s : St) : Prop where
  pos_le : s.pos ≤ n
  pos_pos : s.op ≠ 0 → 1 ≤ s.pos
  pc : PcInv s

def StepGood (n : Nat) (c : Cert) : Step → Prop
  | .next pc' s' => ∃ c', cert? pc' = some c' ∧ c'.rank < c.rank ∧ Inv n c' s'
  | .brk s' => BrkGood n s'
  | .ret r => GoodRes n r

theorem edgeOK_elim {c : Cert} {dn rd : Nat} {cs pz : Bool} {np pc' : Nat} (h : edgeOK c dn rd cs pz np pc' = true) :
    ∃ c', cert? pc' = some c' ∧ c'.rank < c.rank ∧ c.nargMax + dn ≤ c'.nargMax ∧ c'.nargMax ≤ len_args ∧
      c'.immcw ≤ (if rd = 0 then c.immcw else rd) ∧ (c'.cons = true → c.cons = true ∨ cs = true) ∧ edgeZ c.z pz np ≤ c'.z := by
  unfold edgeOK at h
  split at h
  · simp at h
  · rename_i c' hc'
    simp only [Bool.and_eq_true, decide_eq_true_eq, Bool.or_eq_true, Bool.not_eq_true'] at h
    refine ⟨c', hc', h.1.1.1.1.1, h.1.1.1.1.2, h.1.1.1.2, h.1.1.2, ?_, h.2⟩
    intro hc
    rcases h.1.2 with (h2 | h2) | h2
    · simp [hc] at h2
    · exact Or.inl h2
    · exact Or.inr h2

/-- how an edge may change `inst.Opcode` / `opshift`: never back to zero, at most `np` shifts, and if `pz` a non-zero byte is
    shifted in whenever there is room -/
structure OpRel (s s' : St) (pz : Bool) (np : Nat) : Prop where
  mono : s.opcode ≠ 0 → s'.opcode ≠ 0
  osh : s.osh8 ≤ s'.osh8 + 8 * np
  nz : pz = true → 8 ≤ s.osh8 → s'.opcode ≠ 0

theorem OpRel.same {s s' : St} {np : Nat} (h1 : s'.opcode = s.opcode) (h2 : s'.osh8 = s.osh8) : OpRel s s' false np :=
  ⟨fun h => h1 ▸ h, by omega, fun h => by cases h⟩

/-- the generic successor lemma: an edge whose effect is (dn, rd, cs, pz, np), taken from a state satisfying the invariant to a
    state that differs as the effect says, re-establishes the invariant at the successor's certificate -/
theorem edge_next {n : Nat} {c : Cert} {dn rd : Nat} {cs pz : Bool} {np pc' : Nat} {s s' : St}
    (h : edgeOK c dn rd cs pz np pc' = true) (hi : Inv n c s)
    (hn : s'.narg = s.narg + dn) (hp : s.pos ≤ s'.pos) (hp' : s'.pos ≤ n) (hcs : cs = true → 1 ≤ s'.pos)
    (him : if rd = 0 then s'.immcpos = s.immcpos else (1 ≤ s'.immcpos ∧ s'.immcpos + rd ≤ s'.pos))
    (hpc : PcInv s') (hop : OpRel s s' pz np) : StepGood n c (.next pc' s') := by
  obtain ⟨c', hc', hr, hna, hnm, hiw, hco, hz⟩ := edgeOK_elim h
  refine ⟨c', hc', hr, ⟨?_, hnm, hp', ?_, ?_, hpc, ?_⟩⟩
  · have := hi.narg; omega
  · intro hc; rcases hco hc with h1 | h1
    · have := hi.cons h1; omega
    · exact hcs h1
  · intro hw
    by_cases hrd : rd = 0
    · simp only [hrd, if_true] at him hiw
      have := hi.immc (by omega)
      rw [him]; omega
    · simp only [hrd, if_false] at him hiw
      omega
  · rcases hi.opz with h0 | ⟨h1, h2⟩
    · exact Or.inl (hop.mono h0)
    · unfold edgeZ at hz
      have hz0 : ¬ c.z = 0 := by omega
      rw [if_neg hz0] at hz
      by_cases hpz : (pz && decide (c.z ≤ 4)) = true
      · simp only [Bool.and_eq_true, decide_eq_true_eq] at hpz
        exact Or.inl (hop.nz hpz.1 (by omega))
      · rw [if_neg hpz] at hz
        have := hop.osh
        refine Or.inr ⟨by omega, ?_⟩
        by_cases h5 : 5 ≤ c.z + np
        · have : min 5 (c.z + np) = 5 := by omega
          omega
        · have : min 5 (c.z + np) = c.z + np := by omega
          omega

/-- the entry point pc = 1 carries a certificate whose claims hold of the initial decoder state -/
def entryOK2 : Bool :=
  match cert? 1 with
  | some c => decide (c.rank < fuel0) && decide (c.nargMax ≤ len_args) && decide (c.immcw = 0) && !c.cons && decide (1 ≤ c.z)
  | none => false

theorem entryOK2_true : entryOK2 = true := by decide +kernel

attribute [local irreducible] cert? certWord tbl?

theorem q_ite {α : Type} {Q : α → Prop} {cnd : Prop} [Decidable cnd] {a b : α} (h1 : cnd → Q a) (h2 : ¬cnd → Q b) :
    Q (if cnd then a else b) := by
  by_cases h : cnd
  · rw [if_pos h]; exact h1 h
  · rw [if_neg h]; exact h2 h

theorem q_dite {α : Type} {Q : α → Prop} {cnd : Prop} [Decidable cnd] {a : cnd → α} {b : ¬cnd → α} (h1 : ∀ h, Q (a h))
    (h2 : ∀ h, Q (b h)) : Q (if h : cnd then a h else b h) := by
  by_cases h : cnd
  · rw [dif_pos h]; exact h1 h
  · rw [dif_neg h]; exact h2 h

theorem PcInv.of_eq {s s' : St} (h : PcInv s) (h1 : s'.memBase = s.memBase) (h2 : s'.displen = s.displen)
    (h3 : s'.dispoff = s.dispoff) (h4 : s'.haveModrm = s.haveModrm) (h5 : s'.pcrel = s.pcrel) (h6 : s'.pcreloff = s.pcreloff)
    (h7 : s.pos ≤ s'.pos) (h8 : s.opcode ≠ 0 → s'.opcode ≠ 0) : PcInv s' := by
  constructor
  · rw [h1, h2, h3]; intro hm; have := h.rip hm; omega
  · rw [h1, h4]; exact h.nomodrm
  · rw [h5, h6]; intro hp; have := h.pcrel hp; omega
  · rw [h1]; intro hm; exact h8 (h.rip_nz hm)
  · rw [h5]; intro hp; exact h8 (h.pcrel_nz hp)

@[simp] theorem pushOpcode_pos (s : St) (b : Nat) : (pushOpcode s b).pos = s.pos := by unfold pushOpcode; split <;> rfl
@[simp] theorem pushOpcode_narg (s : St) (b : Nat) : (pushOpcode s b).narg = s.narg := by unfold pushOpcode; split <;> rfl
@[simp] theorem pushOpcode_immcpos (s : St) (b : Nat) : (pushOpcode s b).immcpos = s.immcpos := by unfold pushOpcode; split <;> rfl
@[simp] theorem pushOpcode_memBase (s : St) (b : Nat) : (pushOpcode s b).memBase = s.memBase := by unfold pushOpcode; split <;> rfl
@[simp] theorem pushOpcode_displen (s : St) (b : Nat) : (pushOpcode s b).displen = s.displen := by unfold pushOpcode; split <;> rfl
@[simp] theorem pushOpcode_dispoff (s : St) (b : Nat) : (pushOpcode s b).dispoff = s.dispoff := by unfold pushOpcode; split <;> rfl
@[simp] theorem pushOpcode_haveModrm (s : St) (b : Nat) : (pushOpcode s b).haveModrm = s.haveModrm := by unfold pushOpcode; split <;> rfl
@[simp] theorem pushOpcode_pcrel (s : St) (b : Nat) : (pushOpcode s b).pcrel = s.pcrel := by unfold pushOpcode; split <;> rfl
@[simp] theorem pushOpcode_pcreloff (s : St) (b : Nat) : (pushOpcode s b).pcreloff = s.pcreloff := by unfold pushOpcode; split <;> rfl
@[simp] theorem pushOpcode_op (s : St) (b : Nat) : (pushOpcode s b).op = s.op := by unfold pushOpcode; split <;> rfl
@[simp] theorem pushOpcode_mod (s : St) (b : Nat) : (pushOpcode s b).mod_ = s.mod_ := by unfold pushOpcode; split <;> rfl
@[simp] theorem pushOpcode_rm (s : St) (b : Nat) : (pushOpcode s b).rm = s.rm := by unfold pushOpcode; split <;> rfl

theorem shl_ne_zero {b k : Nat} (hb : b ≠ 0) : b <<< k ≠ 0 := by
  rw [Nat.shiftLeft_eq]
  exact Nat.mul_ne_zero hb (Nat.pos_iff_ne_zero.mp (Nat.two_pow_pos k))

theorem or_ne_zero_left {a b : Nat} (h : a ≠ 0) : a ||| b ≠ 0 := by
  intro h0
  have := Nat.or_eq_zero_iff.mp h0
  exact h this.1

theorem or_ne_zero_right {a b : Nat} (h : b ≠ 0) : a ||| b ≠ 0 := by
  intro h0
  have := Nat.or_eq_zero_iff.mp h0
  exact h this.2

theorem pushOpcode_mono (s : St) (b : Nat) (h : s.opcode ≠ 0) : (pushOpcode s b).opcode ≠ 0 := by
  unfold pushOpcode; split
  · exact or_ne_zero_left h
  · exact h

theorem pushOpcode_osh (s : St) (b : Nat) : s.osh8 ≤ (pushOpcode s b).osh8 + 8 := by
  unfold pushOpcode; split
  · show s.osh8 ≤ s.osh8 - 8 + 8; omega
  · omega

theorem pushOpcode_nz (s : St) (b : Nat) (hb : b ≠ 0) (h : 8 ≤ s.osh8) : (pushOpcode s b).opcode ≠ 0 := by
  unfold pushOpcode
  rw [if_pos h]
  exact or_ne_zero_right (shl_ne_zero hb)

/-- an edge that changes nothing the invariant talks about -/
theorem edge_same {n : Nat} {c : Cert} {pc' : Nat} {s s' : St} (h : edgeOK c 0 0 false false 0 pc' = true) (hi : Inv n c s)
    (h0 : s'.narg = s.narg) (h1 : s'.pos = s.pos) (h2 : s'.immcpos = s.immcpos)
    (h3 : s'.memBase = s.memBase) (h4 : s'.displen = s.displen) (h5 : s'.dispoff = s.dispoff) (h6 : s'.haveModrm = s.haveModrm)
    (h7 : s'.pcrel = s.pcrel) (h8 : s'.pcreloff = s.pcreloff) (h9 : s'.opcode = s.opcode) (h10 : s'.osh8 = s.osh8) :
    StepGood n c (.next pc' s') := by
  apply edge_next h hi
  · omega
  · omega
  · rw [h1]; exact hi.pos_le
  · intro hh; cases hh
  · simp [h2]
  · exact hi.pc.of_eq h3 h4 h5 h6 h7 h8 (by omega) (fun h => h9 ▸ h)
  · exact OpRel.same h9 h10

theorem brk_fail {n : Nat} {c : Cert} {s : St} (hi : Inv n c s) : BrkGood n { s with op := 0 } :=
  ⟨hi.pos_le, fun h => absurd rfl h, hi.pc.of_eq rfl rfl rfl rfl rfl rfl (Nat.le_refl _) id⟩

theorem condPrefixLoop_good {n : Nat} {c : Cert} (P : Pfx) (ents : List (Nat × Nat)) (s : St)
    (h : ents.all (fun e => edgeOK c 0 0 false false 0 e.2) = true) (hi : Inv n c s) : StepGood n c (condPrefixLoop P ents s) := by
  induction ents with
  | nil => exact brk_fail hi
  | cons e rest ih =>
    obtain ⟨p, t⟩ := e
    simp only [List.all_cons, Bool.and_eq_true] at h
    have ih := ih h.2
    have ht : StepGood n c (.next t s) := edge_same h.1 hi rfl rfl rfl rfl rfl rfl rfl rfl rfl rfl rfl
    have ht' : StepGood n c (.next t { s with repImplicit := true }) := edge_same h.1 hi rfl rfl rfl rfl rfl rfl rfl rfl rfl rfl rfl
    have hb : StepGood n c (.brk { s with op := 0 }) := brk_fail hi
    unfold condPrefixLoop
    repeat' (first | exact ht | exact ht' | exact ih | exact hb | refine q_ite (fun _ => ?_) (fun _ => ?_) | dsimp only)


/-- the invariant only reads these fields -/
theorem Inv.of_eq {n : Nat} {c : Cert} {s s' : St} (hi : Inv n c s) (h0 : s'.narg = s.narg) (h1 : s'.pos = s.pos)
    (h2 : s'.immcpos = s.immcpos) (hpc : PcInv s') (h3 : s'.opcode = s.opcode := by rfl) (h4 : s'.osh8 = s.osh8 := by rfl) :
    Inv n c s' :=
  ⟨h0 ▸ hi.narg, hi.nargMax, h1 ▸ hi.pos_le, h1 ▸ hi.cons, by rw [h1, h2]; exact hi.immc, hpc, by rw [h3, h4]; exact hi.opz⟩

theorem putArg_good {n : Nat} {c : Cert} {next : Nat} {s : St} (r : Nat) (he : edgeOK c 1 0 false false 0 next = true) (hi : Inv n c s) :
    StepGood n c (putArg s r next) := by
  unfold putArg
  obtain ⟨c', _, _, hna, hnm, _, _, _⟩ := edgeOK_elim he
  have hlt : s.narg < len_args := by have := hi.narg; omega
  rw [if_pos hlt]
  apply edge_next he hi
  · rfl
  · exact Nat.le_refl _
  · exact hi.pos_le
  · intro hh; cases hh
  · simp
  · exact hi.pc.of_eq rfl rfl rfl rfl rfl rfl (Nat.le_refl _) id
  · exact OpRel.same rfl rfl

theorem rip_ne_zero : (0 : Nat) ≠ regRIP := by decide

theorem PcInv.setPCRel {s : St} (h : PcInv s) : PcInv (setPCRelIfRip s) := by
  unfold setPCRelIfRip
  refine q_ite (fun hm => ?_) (fun _ => h)
  have := h.rip hm
  constructor
  · exact h.rip
  · exact h.nomodrm
  · intro _; show (s.displen = 1 ∨ s.displen = 2 ∨ s.displen = 4) ∧ 1 ≤ s.dispoff ∧ s.dispoff + s.displen ≤ s.pos
    omega
  · exact h.rip_nz
  · intro _; exact h.rip_nz hm

@[simp] theorem setPCRel_narg (s : St) : (setPCRelIfRip s).narg = s.narg := by unfold setPCRelIfRip; split <;> rfl
@[simp] theorem setPCRel_pos (s : St) : (setPCRelIfRip s).pos = s.pos := by unfold setPCRelIfRip; split <;> rfl
@[simp] theorem setPCRel_immcpos (s : St) : (setPCRelIfRip s).immcpos = s.immcpos := by unfold setPCRelIfRip; split <;> rfl
@[simp] theorem setPCRel_opcode (s : St) : (setPCRelIfRip s).opcode = s.opcode := by unfold setPCRelIfRip; split <;> rfl
@[simp] theorem setPCRel_osh8 (s : St) : (setPCRelIfRip s).osh8 = s.osh8 := by unfold setPCRelIfRip; split <;> rfl

theorem putMem_good {n : Nat} {c : Cert} {x next : Nat} {s : St} (he : edgeOK c 1 0 false false 0 next = true) (hx : x < len_memBytes)
    (hi : Inv n c s) : StepGood n c (putMem s x next) := by
  unfold putMem
  obtain ⟨c', _, _, hna, hnm, _, _, _⟩ := edgeOK_elim he
  have hlt : s.narg < len_args := by have := hi.narg; omega
  rw [if_pos hlt, if_pos hx]
  exact putArg_good 0 he (hi.of_eq (by simp) (by simp) (by simp) hi.pc.setPCRel (by simp) (by simp))

theorem readImm_good {n : Nat} {c : Cert} {next : Nat} {s : St} (src : Bytes) (hn : n = src.length) (k : Nat) (hk : 1 ≤ k)
    (he : edgeOK c 0 0 true false 0 next = true) (hi : Inv n c s) : StepGood n c (readImm src s k next) := by
  unfold readImm
  refine q_ite (fun _ => ?_) (fun hle => ?_)
  · rw [hn]; exact good_truncated src
  · apply edge_next he hi
    · rfl
    · show s.pos ≤ s.pos + k; omega
    · show s.pos + k ≤ n; omega
    · intro _; show 1 ≤ s.pos + k; omega
    · simp
    · exact hi.pc.of_eq rfl rfl rfl rfl rfl rfl (by show s.pos ≤ s.pos + k; omega) id
    · exact OpRel.same rfl rfl

theorem readImmc_good {n : Nat} {c : Cert} {next : Nat} {s : St} (src : Bytes) (hn : n = src.length) (k w : Nat) (hw : 1 ≤ w) (hk : w ≤ k)
    (hc : c.cons = true) (he : edgeOK c 0 w true false 0 next = true) (hi : Inv n c s) : StepGood n c (readImmc src s k next) := by
  unfold readImmc
  refine q_ite (fun _ => ?_) (fun hle => ?_)
  · rw [hn]; exact good_truncated src
  · have hp := hi.cons hc
    apply edge_next he hi
    · rfl
    · show s.pos ≤ s.pos + k; omega
    · show s.pos + k ≤ n; omega
    · intro _; show 1 ≤ s.pos + k; omega
    · have : ¬ w = 0 := by omega
      rw [if_neg this]
      show 1 ≤ s.pos ∧ s.pos + w ≤ s.pos + k
      omega
    · exact hi.pc.of_eq rfl rfl rfl rfl rfl rfl (by show s.pos ≤ s.pos + k; omega) id
    · exact OpRel.same rfl rfl


def ExGood (n : Nat) (Q : St → Prop) : Except Res St → Prop
  | .error r => GoodRes n r
  | .ok s => Q s

/-- facts relating the state before ModR/M decoding (`s0`) to a state during / after it; `k` = bytes shifted into Opcode so far -/
structure MStage (n k : Nat) (s0 s : St) : Prop where
  narg : s.narg = s0.narg
  immcpos : s.immcpos = s0.immcpos
  pcrel : s.pcrel = s0.pcrel
  pcreloff : s.pcreloff = s0.pcreloff
  pos_ge : s0.pos + 1 ≤ s.pos
  pos_le : s.pos ≤ n
  have_ : s.haveModrm = true
  notrip : s.memBase ≠ regRIP
  rm_lt : s.rm < 16
  mono : s0.opcode ≠ 0 → s.opcode ≠ 0
  osh : s0.osh8 ≤ s.osh8 + 8 * k
  rm_nz : s.rm &&& 7 ≠ 0 → s.opcode ≠ 0

def Disp (s0 s : St) : Prop :=
  s.mod_ = 0 ∧ s.rm &&& 7 = 5 → s.displen = 4 ∧ s0.pos + 1 ≤ s.dispoff ∧ s.dispoff + 4 ≤ s.pos

theorem base_ne_rip (am : Sz) (r : Nat) (h : r < 16) : (baseRegFor am + r) % 256 ≠ regRIP := by
  cases am <;> simp only [baseRegFor, regAX, regEAX, regRAX, regRIP] <;> omega

theorem or8_lt (a : Nat) (h : a < 16) : a ||| 8 < 16 := by
  have : a ||| 8 < 2 ^ 4 := Nat.or_lt_two_pow (by simpa using h) (by decide)
  simpa using this

theorem and7_lt (a : Nat) : a &&& 7 < 16 := by
  have : a &&& 7 ≤ 7 := Nat.and_le_right
  omega

theorem or8_and7 : ∀ a, a < 16 → (a ||| 8) &&& 7 = a &&& 7 := by decide

theorem and7_and7_ne {m : Nat} (h : (m &&& 7) &&& 7 ≠ 0) : m ≠ 0 := by
  intro h0; rw [h0] at h; exact h (by decide)

theorem modrmHead_good {n : Nat} {c : Cert} (src : Bytes) (hn : n = src.length) (P : Pfx) (s0 : St) (hi : Inv n c s0)
    (hz : s0.opcode ≠ 0 ∨ 8 ≤ s0.osh8) : ExGood n (MStage n 1 s0) (modrmHead src P s0) := by
  unfold modrmHead
  refine q_ite (fun _ => ?_) (fun hm => ?_)
  · exact good_err n s0.pos .internal (Or.inl rfl) hi.pos_le
  · refine q_dite (fun hlt => ?_) (fun _ => ?_)
    · dsimp only
      have hnr := hi.pc.nomodrm (by simpa using hm)
      refine ⟨by simp, by simp, by simp, by simp, by simp, by simp; omega, by simp, by simpa using hnr, by simpa using and7_lt _,
        fun h => pushOpcode_mono _ _ h, ?_, ?_⟩
      · exact pushOpcode_osh { s0 with haveModrm := true, modrm := (src[s0.pos]).toNat, pos := s0.pos + 1 } _
      · intro h
        have hm0 : (src[s0.pos]).toNat ≠ 0 := and7_and7_ne h
        rcases hz with h1 | h1
        · exact pushOpcode_mono _ _ h1
        · exact pushOpcode_nz { s0 with haveModrm := true, modrm := (src[s0.pos]).toNat, pos := s0.pos + 1 } _ hm0 h1
    · rw [hn]; exact good_truncated src

theorem modrmSib_good {n : Nat} (src : Bytes) (hn : n = src.length) (P : Pfx) (s0 s : St) (hs : MStage n 1 s0 s) :
    ExGood n (MStage n 2 s0) (modrmSib src P s) := by
  have hosh2 : s0.osh8 ≤ s.osh8 + 8 * 2 := by have := hs.osh; omega
  unfold modrmSib
  refine q_ite (fun _ => ?_) (fun _ => ?_)
  · refine q_dite (fun hlt => ?_) (fun _ => ?_)
    · dsimp only
      have hb : ∀ b : Nat, b < 16 → (baseRegFor P.am + b) % 256 ≠ regRIP := fun b hb => base_ne_rip _ _ hb
      have hmono : s0.opcode ≠ 0 → (pushOpcode { s with pos := s.pos + 1, haveSIB := true } (src[s.pos]).toNat).opcode ≠ 0 :=
        fun h => pushOpcode_mono _ _ (hs.mono h)
      have hosh : s0.osh8 ≤ (pushOpcode { s with pos := s.pos + 1, haveSIB := true } (src[s.pos]).toNat).osh8 + 8 * 2 := by
        have h1 := pushOpcode_osh { s with pos := s.pos + 1, haveSIB := true } (src[s.pos]).toNat
        have h2 : ({ s with pos := s.pos + 1, haveSIB := true } : St).osh8 = s.osh8 := rfl
        have := hs.osh
        omega
      have hrmnz : s.rm &&& 7 ≠ 0 → (pushOpcode { s with pos := s.pos + 1, haveSIB := true } (src[s.pos]).toNat).opcode ≠ 0 :=
        fun h => pushOpcode_mono _ _ (hs.rm_nz h)
      refine q_ite (fun _ => ?_) (fun _ => ?_)
      · exact ⟨by simpa using hs.narg, by simpa using hs.immcpos, by simpa using hs.pcrel, by simpa using hs.pcreloff,
          by have := hs.pos_ge; simp; omega, by simp; omega, by simpa using hs.have_, by simpa using hs.notrip, by simpa using hs.rm_lt,
          hmono, hosh, by simpa using hrmnz⟩
      · refine ⟨by simpa using hs.narg, by simpa using hs.immcpos, by simpa using hs.pcrel, by simpa using hs.pcreloff,
          by have := hs.pos_ge; simp; omega, by simp; omega, by simpa using hs.have_, ?_, by simpa using hs.rm_lt,
          hmono, hosh, by simpa using hrmnz⟩
        show (baseRegFor P.am + _) % 256 ≠ regRIP
        apply hb
        refine q_ite (Q := fun v => v < 16) (fun _ => or8_lt _ (and7_lt _)) (fun _ => and7_lt _)
    · rw [hn]; exact good_truncated src
  · dsimp only
    have hrm : (if P.rex &&& 1 ≠ 0 then s.rm ||| 8 else s.rm) < 16 :=
      q_ite (Q := fun v => v < 16) (fun _ => or8_lt _ hs.rm_lt) (fun _ => hs.rm_lt)
    have hnz : (if P.rex &&& 1 ≠ 0 then s.rm ||| 8 else s.rm) &&& 7 ≠ 0 → s.opcode ≠ 0 := by
      refine q_ite (Q := fun v => v &&& 7 ≠ 0 → s.opcode ≠ 0) (fun _ => ?_) (fun _ => hs.rm_nz)
      rw [or8_and7 _ hs.rm_lt]; exact hs.rm_nz
    refine q_ite (fun _ => ?_) (fun _ => q_ite (fun _ => ?_) (fun _ => ?_))
    · exact ⟨hs.narg, hs.immcpos, hs.pcrel, hs.pcreloff, hs.pos_ge, hs.pos_le, hs.have_, hs.notrip, hrm, hs.mono, hosh2, hnz⟩
    · exact ⟨hs.narg, hs.immcpos, hs.pcrel, hs.pcreloff, hs.pos_ge, hs.pos_le, hs.have_, base_ne_rip _ _ hrm, hrm, hs.mono, hosh2, hnz⟩
    · exact ⟨hs.narg, hs.immcpos, hs.pcrel, hs.pcreloff, hs.pos_ge, hs.pos_le, hs.have_, hs.notrip, hrm, hs.mono, hosh2, hnz⟩

theorem modrmDisp32_good {n : Nat} (src : Bytes) (hn : n = src.length) (s0 s : St) (hs : MStage n 2 s0 s) :
    ExGood n (fun s' => MStage n 2 s0 s' ∧ Disp s0 s') (modrmDisp32 src s) := by
  unfold modrmDisp32
  refine q_ite (fun _ => ?_) (fun hc => ?_)
  · refine q_ite (fun _ => ?_) (fun hle => ?_)
    · rw [hn]; exact good_truncated src
    · have := hs.pos_ge
      refine ⟨⟨hs.narg, hs.immcpos, hs.pcrel, hs.pcreloff, ?_, ?_, hs.have_, hs.notrip, hs.rm_lt, hs.mono, hs.osh, hs.rm_nz⟩, ?_⟩
      · show s0.pos + 1 ≤ s.pos + 4; omega
      · show s.pos + 4 ≤ n; omega
      · intro _; show (4:Nat) = 4 ∧ s0.pos + 1 ≤ s.pos ∧ s.pos + 4 ≤ s.pos + 4; omega
  · refine ⟨hs, ?_⟩
    intro hd
    exact absurd (Or.inl ⟨hd.1, Or.inl hd.2⟩) hc

theorem modrmDisp8_good {n : Nat} (src : Bytes) (hn : n = src.length) (s0 s : St) (hs : MStage n 2 s0 s) (hd : Disp s0 s) :
    ExGood n (fun s' => MStage n 2 s0 s' ∧ Disp s0 s') (modrmDisp8 src s) := by
  unfold modrmDisp8
  refine q_ite (fun h1 => ?_) (fun _ => ⟨hs, hd⟩)
  refine q_ite (fun _ => ?_) (fun hle => ?_)
  · rw [hn]; exact good_truncated src
  · have := hs.pos_ge
    refine ⟨⟨hs.narg, hs.immcpos, hs.pcrel, hs.pcreloff, ?_, ?_, hs.have_, hs.notrip, hs.rm_lt, hs.mono, hs.osh, hs.rm_nz⟩, ?_⟩
    · show s0.pos + 1 ≤ s.pos + 1; omega
    · show s.pos + 1 ≤ n; omega
    · intro h0; have : s.mod_ = 0 := h0.1; omega

/-- what the decoder loop knows after a successful ModR/M read -/
structure MDone (n : Nat) (s0 s : St) : Prop where
  narg : s.narg = s0.narg
  immcpos : s.immcpos = s0.immcpos
  pos_ge : s0.pos + 1 ≤ s.pos
  pos_le : s.pos ≤ n
  pc : PcInv s
  op : OpRel s0 s false 2

theorem eip_ne_rip : regEIP ≠ regRIP := by decide

theorem modrmRip_good {n : Nat} (P : Pfx) (s0 s : St) (h0 : PcInv s0) (hs : MStage n 2 s0 s) (hd : Disp s0 s) :
    MDone n s0 (modrmRip P s) := by
  have hpcrel : ∀ s' : St, s'.pcrel = s.pcrel → s'.pcreloff = s.pcreloff → s'.pos = s.pos →
      (s'.pcrel ≠ 0 → (s'.pcrel = 1 ∨ s'.pcrel = 2 ∨ s'.pcrel = 4) ∧ 1 ≤ s'.pcreloff ∧ s'.pcreloff + s'.pcrel ≤ s'.pos) := by
    intro s' e1 e2 e3 hne
    rw [e1, e2, e3, hs.pcrel, hs.pcreloff]
    rw [e1, hs.pcrel] at hne
    have := h0.pcrel hne
    have := hs.pos_ge
    omega
  have hpnz : s.pcrel ≠ 0 → s.opcode ≠ 0 := fun h => hs.mono (h0.pcrel_nz (hs.pcrel ▸ h))
  have hop : OpRel s0 s false 2 := ⟨hs.mono, hs.osh, fun h => by cases h⟩
  unfold modrmRip
  refine q_ite (fun hc => ?_) (fun _ => ?_)
  · refine ⟨hs.narg, hs.immcpos, hs.pos_ge, hs.pos_le, ⟨?_, ?_, hpcrel _ rfl rfl rfl, ?_, hpnz⟩, ⟨hs.mono, hs.osh, fun h => by cases h⟩⟩
    · intro _
      have := hd hc
      show s.displen = 4 ∧ 1 ≤ s.dispoff ∧ s.dispoff + 4 ≤ s.pos
      omega
    · intro hf
      have : s.haveModrm = false := hf
      rw [hs.have_] at this; cases this
    · intro _
      exact hs.rm_nz (by rw [hc.2]; decide)
  · exact ⟨hs.narg, hs.immcpos, hs.pos_ge, hs.pos_le,
      ⟨fun h => absurd h hs.notrip, fun _ => hs.notrip, hpcrel _ rfl rfl rfl, fun h => absurd h hs.notrip, hpnz⟩, hop⟩

theorem readModrm_good {n : Nat} {c : Cert} (src : Bytes) (hn : n = src.length) (P : Pfx) (s0 : St) (hi : Inv n c s0)
    (hz : s0.opcode ≠ 0 ∨ 8 ≤ s0.osh8) : ExGood n (MDone n s0) (readModrm src P s0) := by
  unfold readModrm
  have h1 := modrmHead_good src hn P s0 hi hz
  cases e1 : modrmHead src P s0 with
  | error r => rw [e1] at h1; exact h1
  | ok s1 =>
    rw [e1] at h1
    have h2 := modrmSib_good src hn P s0 s1 h1
    dsimp only
    cases e2 : modrmSib src P s1 with
    | error r => rw [e2] at h2; exact h2
    | ok s2 =>
      rw [e2] at h2
      have h3 := modrmDisp32_good src hn s0 s2 h2
      dsimp only
      cases e3 : modrmDisp32 src s2 with
      | error r => rw [e3] at h3; exact h3
      | ok s3 =>
        rw [e3] at h3
        have h4 := modrmDisp8_good src hn s0 s3 h3.1 h3.2
        dsimp only
        cases e4 : modrmDisp8 src s3 with
        | error r => rw [e4] at h4; exact h4
        | ok s4 =>
          rw [e4] at h4
          exact modrmRip_good P s0 s4 hi.pc h4.1 h4.2

/-- from the certificate requirement `c.z ≤ 4` at a ModR/M-reading instruction: the ModR/M byte will be recorded, or Opcode ≠ 0 already -/
theorem Inv.room {n : Nat} {c : Cert} {s : St} (hi : Inv n c s) (hz : c.z ≤ 4) : s.opcode ≠ 0 ∨ 8 ≤ s.osh8 := by
  rcases hi.opz with h | ⟨_, h⟩
  · exact Or.inl h
  · exact Or.inr (by omega)


theorem plainOK_elim {c : Cert} {x next : Nat} (h : plainOK c x next = true) :
    ∃ e, plainEff x = some e ∧ (e.needCons = true → c.cons = true) ∧ e.needImmcw ≤ c.immcw ∧ e.static = true ∧
      c.z ≤ e.needZ ∧ edgeOK c e.dn e.rd e.cs false e.np next = true := by
  unfold plainOK at h
  split at h
  · cases h
  · rename_i e he
    simp only [Bool.and_eq_true, Bool.or_eq_true, Bool.not_eq_true', decide_eq_true_eq] at h
    refine ⟨e, he, ?_, h.1.1.1.2, h.1.1.2, h.1.2, h.2⟩
    intro hn
    rcases h.1.1.1.1 with h1 | h1
    · rw [hn] at h1; cases h1
    · exact h1

/-- `Q` holds of the static effect of `x` (vacuous if `x` has none) -/
def effIs (x : Nat) (Q : Eff → Bool) : Bool :=
  match plainEff x with
  | some e => Q e
  | none => true

theorem effIs_elim {x : Nat} {Q : Eff → Bool} {e : Eff} (h : effIs x Q = true) (he : plainEff x = some e) : Q e = true := by
  unfold effIs at h; rw [he] at h; exact h

def oneArgOps : List Nat := fixedOps ++ immOps ++ memOps ++ moffsOps ++ [xArgYmm1] ++ regopOps ++ mmOps ++ [xArgCR0dashCR7, xArgSreg]
  ++ rmfOps ++ opregOps ++ rmOps ++ [xArgMm2, xArgXmm2, xArgRel8, xArgRel16, xArgRel32]

theorem oneArg_eff_all : ((oneArgOps).all fun x => effIs x (fun e => e.dn == 1 && e.rd == 0 && !e.cs && e.np == 0)) = true := by decide +kernel
theorem oneArg_eff : ∀ x ∈ oneArgOps, effIs x (fun e => e.dn == 1 && e.rd == 0 && !e.cs && e.np == 0) = true := fun x hx => List.all_eq_true.mp oneArg_eff_all x hx
theorem fixed_static_all : ((fixedOps).all fun x => effIs x (fun e => !e.static || decide (x < fixedArg.size))) = true := by decide +kernel
theorem fixed_static : ∀ x ∈ fixedOps, effIs x (fun e => !e.static || decide (x < fixedArg.size)) = true := fun x hx => List.all_eq_true.mp fixed_static_all x hx
theorem mem_static_all : ((memOps ++ moffsOps ++ rmOps).all fun x => effIs x (fun e => !e.static || decide (x < len_memBytes))) = true := by decide +kernel
theorem mem_static : ∀ x ∈ memOps ++ moffsOps ++ rmOps, effIs x (fun e => !e.static || decide (x < len_memBytes)) = true := fun x hx => List.all_eq_true.mp mem_static_all x hx
theorem reg_static_all : (([xArgYmm1] ++ regopOps ++ mmOps ++ rmfOps ++ opregOps ++ rmOps ++ [xArgMm2, xArgXmm2]).all fun x => effIs x (fun e => !e.static || decide (x < baseReg.size))) = true := by decide +kernel
theorem reg_static : ∀ x ∈ [xArgYmm1] ++ regopOps ++ mmOps ++ rmfOps ++ opregOps ++ rmOps ++ [xArgMm2, xArgXmm2], effIs x (fun e => !e.static || decide (x < baseReg.size)) = true := fun x hx => List.all_eq_true.mp reg_static_all x hx
theorem readI_eff_all : (([xReadIb, xReadIw, xReadID, xReadIo]).all fun x => effIs x (fun e => e.dn == 0 && e.rd == 0 && e.cs && e.np == 0)) = true := by decide +kernel
theorem readI_eff : ∀ x ∈ [xReadIb, xReadIw, xReadID, xReadIo], effIs x (fun e => e.dn == 0 && e.rd == 0 && e.cs && e.np == 0) = true := fun x hx => List.all_eq_true.mp readI_eff_all x hx
theorem readC_eff_all : (([xReadCb, xReadCw, xReadCd, xReadCp, xReadCm]).all fun x => effIs x (fun e => e.dn == 0 && e.rd == readCWidth x && e.cs && e.needCons && e.np == 0)) = true := by decide +kernel
theorem readC_eff : ∀ x ∈ [xReadCb, xReadCw, xReadCd, xReadCp, xReadCm], effIs x (fun e => e.dn == 0 && e.rd == readCWidth x && e.cs && e.needCons && e.np == 0) = true := fun x hx => List.all_eq_true.mp readC_eff_all x hx
theorem ptr_eff_all : (([xArgPtr16colon16, xArgPtr16colon32]).all fun x => effIs x (fun e => e.dn == 2 && e.rd == 0 && !e.cs && e.np == 0)) = true := by decide +kernel
theorem ptr_eff : ∀ x ∈ [xArgPtr16colon16, xArgPtr16colon32], effIs x (fun e => e.dn == 2 && e.rd == 0 && !e.cs && e.np == 0) = true := fun x hx => List.all_eq_true.mp ptr_eff_all x hx
theorem rel_eff : effIs xArgRel8 (fun e => e.needImmcw == 1) = true ∧ effIs xArgRel16 (fun e => e.needImmcw == 2) = true
    ∧ effIs xArgRel32 (fun e => e.needImmcw == 4) = true := by decide

theorem plain_onearg {c : Cert} {x next : Nat} (h : plainOK c x next = true) (hx : x ∈ oneArgOps) : edgeOK c 1 0 false false 0 next = true := by
  obtain ⟨e, he, _, _, _, _, hed⟩ := plainOK_elim h
  have := effIs_elim (oneArg_eff x hx) he
  simp only [Bool.and_eq_true, beq_iff_eq, Bool.not_eq_true'] at this
  rw [this.1.1.1, this.1.1.2, this.1.2, this.2] at hed
  exact hed

theorem plain_fixed_static {c : Cert} {x next : Nat} (h : plainOK c x next = true) (hx : x ∈ fixedOps) : x < fixedArg.size := by
  obtain ⟨e, he, _, _, hs, _⟩ := plainOK_elim h
  have := effIs_elim (fixed_static x hx) he
  simpa [hs] using this

theorem plain_mem_static {c : Cert} {x next : Nat} (h : plainOK c x next = true) (hx : x ∈ memOps ++ moffsOps ++ rmOps) :
    x < len_memBytes := by
  obtain ⟨e, he, _, _, hs, _⟩ := plainOK_elim h
  have := effIs_elim (mem_static x hx) he
  simpa [hs] using this

theorem plain_reg_static {c : Cert} {x next : Nat} (h : plainOK c x next = true)
    (hx : x ∈ [xArgYmm1] ++ regopOps ++ mmOps ++ rmfOps ++ opregOps ++ rmOps ++ [xArgMm2, xArgXmm2]) : ∃ b, regOf x = some b := by
  obtain ⟨e, he, _, _, hs, _⟩ := plainOK_elim h
  have := effIs_elim (reg_static x hx) he
  have hlt : x < baseReg.size := by simpa [hs] using this
  exact ⟨baseReg[x], by unfold regOf; exact Array.getElem?_eq_getElem hlt⟩

theorem plain_readI {c : Cert} {x next : Nat} (h : plainOK c x next = true)
    (hx : x ∈ [xReadIb, xReadIw, xReadID, xReadIo]) : edgeOK c 0 0 true false 0 next = true := by
  obtain ⟨e, he, _, _, _, _, hed⟩ := plainOK_elim h
  have := effIs_elim (readI_eff x hx) he
  simp only [Bool.and_eq_true, beq_iff_eq] at this
  rw [this.1.1.1, this.1.1.2, this.1.2, this.2] at hed
  exact hed

theorem slash_eff : effIs xReadSlashR (fun e => e.dn == 0 && e.rd == 0 && e.cs && e.np == 2 && e.needZ == 4) = true := by decide

/-- `xReadSlashR`: the certificate guarantees room for the ModR/M byte in Opcode (or Opcode ≠ 0), and the edge accounts for 2 shifts -/
theorem plain_slash {c : Cert} {next : Nat} (h : plainOK c xReadSlashR next = true) :
    c.z ≤ 4 ∧ edgeOK c 0 0 true false 2 next = true := by
  obtain ⟨e, he, _, _, _, hz, hed⟩ := plainOK_elim h
  have := effIs_elim slash_eff he
  simp only [Bool.and_eq_true, beq_iff_eq] at this
  rw [this.1.1.1.1, this.1.1.1.2, this.1.1.2, this.1.2] at hed
  rw [this.2] at hz
  exact ⟨hz, hed⟩

theorem plain_readC {c : Cert} {x next : Nat} (h : plainOK c x next = true)
    (hx : x ∈ [xReadCb, xReadCw, xReadCd, xReadCp, xReadCm]) : c.cons = true ∧ edgeOK c 0 (readCWidth x) true false 0 next = true := by
  obtain ⟨e, he, hc, _, _, _, hed⟩ := plainOK_elim h
  have := effIs_elim (readC_eff x hx) he
  simp only [Bool.and_eq_true, beq_iff_eq] at this
  rw [this.1.1.1.1, this.1.1.1.2, this.1.1.2, this.2] at hed
  exact ⟨hc this.1.2, hed⟩

theorem plain_ptr {c : Cert} {x next : Nat} (h : plainOK c x next = true)
    (hx : x ∈ [xArgPtr16colon16, xArgPtr16colon32]) : edgeOK c 2 0 false false 0 next = true := by
  obtain ⟨e, he, _, _, _, _, hed⟩ := plainOK_elim h
  have := effIs_elim (ptr_eff x hx) he
  simp only [Bool.and_eq_true, beq_iff_eq, Bool.not_eq_true'] at this
  rw [this.1.1.1, this.1.1.2, this.1.2, this.2] at hed
  exact hed

theorem plain_rel {c : Cert} {x next : Nat} (k : Nat) (h : plainOK c x next = true)
    (hx : (x = xArgRel8 ∧ k = 1) ∨ (x = xArgRel16 ∧ k = 2) ∨ (x = xArgRel32 ∧ k = 4)) : k ≤ c.immcw := by
  obtain ⟨e, he, _, hw, _, _⟩ := plainOK_elim h
  rcases hx with ⟨rfl, rfl⟩ | ⟨rfl, rfl⟩ | ⟨rfl, rfl⟩
  · have := effIs_elim rel_eff.1 he; simp only [beq_iff_eq] at this; omega
  · have := effIs_elim rel_eff.2.1 he; simp only [beq_iff_eq] at this; omega
  · have := effIs_elim rel_eff.2.2 he; simp only [beq_iff_eq] at this; omega

theorem relz_eff : ∀ x ∈ [xArgRel8, xArgRel16, xArgRel32], effIs x (fun e => e.needZ == 0) = true := by decide

/-- `xArgRel8/16/32`: the certificate guarantees `inst.Opcode ≠ 0` here -/
theorem plain_rel_z {c : Cert} {x next : Nat} (h : plainOK c x next = true) (hx : x ∈ [xArgRel8, xArgRel16, xArgRel32]) : c.z = 0 := by
  obtain ⟨e, he, _, _, _, hz, _⟩ := plainOK_elim h
  have := effIs_elim (relz_eff x hx) he
  simp only [beq_iff_eq] at this
  omega

theorem Inv.opcode_nz {n : Nat} {c : Cert} {s : St} (hi : Inv n c s) (hz : c.z = 0) : s.opcode ≠ 0 := by
  rcases hi.opz with h | ⟨h, _⟩
  · exact h
  · omega

theorem Inv.regop {n : Nat} {c : Cert} {s : St} (hi : Inv n c s) (r : Nat) : Inv n c { s with regop := r } :=
  hi.of_eq rfl rfl rfl (hi.pc.of_eq rfl rfl rfl rfl rfl rfl (Nat.le_refl _) id)

theorem Inv.memBase0 {n : Nat} {c : Cert} {s : St} (hi : Inv n c s) : Inv n c { s with memBase := 0 } :=
  hi.of_eq rfl rfl rfl ⟨fun h => absurd h rip_ne_zero, fun _ => rip_ne_zero, hi.pc.pcrel, fun h => absurd h rip_ne_zero, hi.pc.pcrel_nz⟩

theorem Inv.rel {n : Nat} {c : Cert} {s : St} (hi : Inv n c s) (k : Nat) (hk : k = 1 ∨ k = 2 ∨ k = 4) (hw : k ≤ c.immcw)
    (hz : c.z = 0) : Inv n c { s with pcreloff := s.immcpos, pcrel := k } := by
  refine hi.of_eq rfl rfl rfl ⟨hi.pc.rip, hi.pc.nomodrm, ?_, hi.pc.rip_nz, fun _ => hi.opcode_nz hz⟩
  intro _
  have := hi.immc (by omega)
  show (k = 1 ∨ k = 2 ∨ k = 4) ∧ 1 ≤ s.immcpos ∧ s.immcpos + k ≤ s.pos
  omega

set_option maxRecDepth 2000 in
theorem stepPlain_good {n : Nat} {c : Cert} (src : Bytes) (hn : n = src.length) (P : Pfx) (x next : Nat) (s : St)
    (hok : plainOK c x next = true) (hi : Inv n c s) (hslash : x ≠ xReadSlashR) :
    StepGood n c (stepPlain src P x next s) := by
  have one : x ∈ oneArgOps → ∀ (s' : St) (r : Nat), Inv n c s' → StepGood n c (putArg s' r next) :=
    fun hx s' r hi' => putArg_good r (plain_onearg hok hx) hi'
  have onem : x ∈ oneArgOps → x ∈ memOps ++ moffsOps ++ rmOps → ∀ (s' : St), Inv n c s' → StepGood n c (putMem s' x next) :=
    fun hx hm s' hi' => putMem_good (plain_onearg hok hx) (plain_mem_static hok hm) hi'
  have hbrk : StepGood n c (.brk { s with op := 0 }) := brk_fail hi
  unfold stepPlain
  refine q_ite (fun hx => ?_) (fun _ => ?_)
  · exact absurd hx hslash
  refine q_ite (fun hx => ?_) (fun _ => ?_)
  · exact readImm_good src hn 1 (by omega) (plain_readI hok (by simp [hx])) hi
  refine q_ite (fun hx => ?_) (fun _ => ?_)
  · exact readImm_good src hn 2 (by omega) (plain_readI hok (by simp [hx])) hi
  refine q_ite (fun hx => ?_) (fun _ => ?_)
  · exact readImm_good src hn 4 (by omega) (plain_readI hok (by simp [hx])) hi
  refine q_ite (fun hx => ?_) (fun _ => ?_)
  · exact readImm_good src hn 8 (by omega) (plain_readI hok (by simp [hx])) hi
  refine q_ite (fun hx => ?_) (fun _ => ?_)
  · have h := plain_readC hok (x := x) (by simp [hx])
    rw [hx] at h
    exact readImmc_good src hn 1 1 (by omega) (by omega) h.1 h.2 hi
  refine q_ite (fun hx => ?_) (fun _ => ?_)
  · have h := plain_readC hok (x := x) (by simp [hx])
    rw [hx] at h
    exact readImmc_good src hn 2 2 (by omega) (by omega) h.1 h.2 hi
  refine q_ite (fun hx => ?_) (fun _ => ?_)
  · have h := plain_readC hok (x := x) (by simp [hx])
    rw [hx] at h
    refine q_ite (Q := fun k => StepGood n c (readImmc src s k next)) (fun _ => ?_) (fun _ => ?_)
    · exact readImmc_good src hn 4 4 (by omega) (by omega) h.1 h.2 hi
    · exact readImmc_good src hn 8 4 (by omega) (by omega) h.1 h.2 hi
  refine q_ite (fun hx => ?_) (fun _ => ?_)
  · have h := plain_readC hok (x := x) (by simp [hx])
    rw [hx] at h
    exact readImmc_good src hn 4 4 (by omega) (by omega) h.1 h.2 hi
  refine q_ite (fun hx => ?_) (fun _ => ?_)
  · have h := plain_readC hok (x := x) (by simp [hx])
    rw [hx] at h
    exact readImmc_good src hn 6 6 (by omega) (by omega) h.1 h.2 hi
  -- fixed
  refine q_ite (fun hx => ?_) (fun _ => ?_)
  · have hlt := plain_fixed_static hok hx
    have : fixedArg[x]? = some fixedArg[x] := Array.getElem?_eq_getElem hlt
    simp only [this]
    exact one (by simp [oneArgOps, hx]) _ _ hi
  -- imm
  refine q_ite (fun hx => ?_) (fun _ => ?_)
  · exact one (by simp [oneArgOps, hx]) _ _ hi
  -- mem
  refine q_ite (fun hx => ?_) (fun _ => ?_)
  · refine q_ite (fun _ => hbrk) (fun _ => ?_)
    exact onem (by simp [oneArgOps, hx]) (by simp [hx]) _ hi
  -- ptr
  refine q_ite (fun hx => ?_) (fun _ => ?_)
  · have he := plain_ptr hok (x := x) (by simpa using hx)
    obtain ⟨c', _, _, hna, hnm, _, _, _⟩ := edgeOK_elim he
    have hlt : s.narg + 1 < len_args := by have := hi.narg; omega
    rw [if_pos hlt]
    exact edge_next he hi rfl (Nat.le_refl _) hi.pos_le (fun hh => by cases hh) (by simp)
      (hi.pc.of_eq rfl rfl rfl rfl rfl rfl (Nat.le_refl _) id) (OpRel.same rfl rfl)
  -- moffs
  refine q_ite (fun hx => ?_) (fun _ => ?_)
  · exact onem (by simp [oneArgOps, hx]) (by simp [hx]) _ hi.memBase0
  -- ymm1
  refine q_ite (fun hx => ?_) (fun _ => ?_)
  · obtain ⟨b, hb⟩ := plain_reg_static hok (x := x) (by simp [hx])
    simp only [hb]
    exact one (by simp [oneArgOps, hx]) _ _ hi
  -- regop
  refine q_ite (fun hx => ?_) (fun _ => ?_)
  · obtain ⟨b, hb⟩ := plain_reg_static hok (x := x) (by simp [hx])
    simp only [hb]
    exact one (by simp [oneArgOps, hx]) _ _ hi
  -- mm
  refine q_ite (fun hx => ?_) (fun _ => ?_)
  · obtain ⟨b, hb⟩ := plain_reg_static hok (x := x) (by simp [hx])
    simp only [hb]
    exact one (by simp [oneArgOps, hx]) _ _ hi
  -- CR
  refine q_ite (fun hx => ?_) (fun _ => ?_)
  · dsimp only
    refine one (by simp [oneArgOps, hx]) _ _ ?_
    exact q_ite (Q := fun s' => Inv n c s') (fun _ => hi.regop _) (fun _ => hi)
  -- Sreg
  refine q_ite (fun hx => ?_) (fun _ => ?_)
  · dsimp only
    refine q_ite (fun _ => ?_) (fun _ => ?_)
    · exact ⟨hi.pos_le, fun h => absurd rfl h, hi.pc.of_eq rfl rfl rfl rfl rfl rfl (Nat.le_refl _) id⟩
    · exact one (by simp [oneArgOps, hx]) _ _ (hi.regop _)
  -- rmf
  refine q_ite (fun hx => ?_) (fun _ => ?_)
  · obtain ⟨b, hb⟩ := plain_reg_static hok (x := x) (by simp [hx])
    simp only [hb]
    exact one (by simp [oneArgOps, hx]) _ _ hi
  -- opreg
  refine q_ite (fun hx => ?_) (fun _ => ?_)
  · obtain ⟨b, hb⟩ := plain_reg_static hok (x := x) (by simp [hx])
    simp only [hb]
    exact one (by simp [oneArgOps, hx]) _ _ hi
  -- rm
  refine q_ite (fun hx => ?_) (fun _ => ?_)
  · refine q_ite (fun _ => ?_) (fun _ => ?_)
    · exact onem (by simp [oneArgOps, hx]) (by simp [hx]) _ hi
    · obtain ⟨b, hb⟩ := plain_reg_static hok (x := x) (by simp [hx])
      simp only [hb]
      exact one (by simp [oneArgOps, hx]) _ _ hi
  -- Mm2
  refine q_ite (fun hx => ?_) (fun _ => ?_)
  · refine q_ite (fun _ => hbrk) (fun _ => ?_)
    obtain ⟨b, hb⟩ := plain_reg_static hok (x := x) (by simp [hx])
    simp only [hb]
    exact one (by simp [oneArgOps, hx]) _ _ hi
  -- Xmm2
  refine q_ite (fun hx => ?_) (fun _ => ?_)
  · refine q_ite (fun _ => hbrk) (fun _ => ?_)
    obtain ⟨b, hb⟩ := plain_reg_static hok (x := x) (by simp [hx])
    simp only [hb]
    exact one (by simp [oneArgOps, hx]) _ _ hi
  -- Rel8/16/32
  refine q_ite (fun hx => ?_) (fun _ => ?_)
  · exact one (by simp [oneArgOps, hx]) _ _ (hi.rel 1 (by omega) (plain_rel 1 hok (Or.inl ⟨hx, rfl⟩)) (plain_rel_z hok (by simp [hx])))
  refine q_ite (fun hx => ?_) (fun _ => ?_)
  · exact one (by simp [oneArgOps, hx]) _ _ (hi.rel 2 (by omega) (plain_rel 2 hok (Or.inr (Or.inl ⟨hx, rfl⟩))) (plain_rel_z hok (by simp [hx])))
  refine q_ite (fun hx => ?_) (fun _ => ?_)
  · exact one (by simp [oneArgOps, hx]) _ _ (hi.rel 4 (by omega) (plain_rel 4 hok (Or.inr (Or.inr ⟨hx, rfl⟩))) (plain_rel_z hok (by simp [hx])))
  exact good_err n s.pos .internal (Or.inl rfl) hi.pos_le


theorem step_good {n : Nat} {c : Cert} (src : Bytes) (hn : n = src.length) (P : Pfx) (i : Instr) (s : St)
    (hok : instrOK c i = true) (hi : Inv n c s) : StepGood n c (step src P i s) := by
  cases i with
  | fail => exact brk_fail hi
  | match_ =>
    have hc : c.cons = true := hok
    exact ⟨hi.pos_le, fun _ => hi.cons hc, hi.pc⟩
  | jump t => exact edge_same (s' := s) hok hi rfl rfl rfl rfl rfl rfl rfl rfl rfl rfl rfl
  | condByte ents fall ff =>
    simp only [instrOK, Bool.and_eq_true] at hok
    unfold step
    refine q_dite (fun hlt => ?_) (fun _ => ?_)
    · dsimp only
      cases hf : ents.find? (fun e => e.1 % 256 == (src[s.pos]).toNat) with
      | some e =>
        dsimp only
        have hmem := List.mem_of_find?_eq_some hf
        have he := List.all_eq_true.mp hok.1 e hmem
        apply edge_next he hi
        · simp
        · simp
        · simp; omega
        · intro _; simp
        · simp
        · exact hi.pc.of_eq (by simp) (by simp) (by simp) (by simp) (by simp) (by simp) (by simp)
            (fun h => pushOpcode_mono { s with pos := s.pos + 1 } _ h)
        · refine ⟨fun h => pushOpcode_mono { s with pos := s.pos + 1 } _ h, ?_, ?_⟩
          · have := pushOpcode_osh { s with pos := s.pos + 1 } (src[s.pos]).toNat
            have h2 : ({ s with pos := s.pos + 1 } : St).osh8 = s.osh8 := rfl
            omega
          · intro hpz hroom
            have hb := (List.find?_some hf)
            simp only [beq_iff_eq] at hb
            have hnz : (src[s.pos]).toNat ≠ 0 := by
              rw [← hb]
              simpa using hpz
            exact pushOpcode_nz { s with pos := s.pos + 1 } _ hnz hroom
      | none =>
        dsimp only
        apply edge_next hok.2 hi
        · show (if ff = true then { s with pos := s.pos + 1 } else s).narg = s.narg + 0
          split <;> rfl
        · show s.pos ≤ (if ff = true then { s with pos := s.pos + 1 } else s).pos
          split <;> simp
        · show (if ff = true then { s with pos := s.pos + 1 } else s).pos ≤ n
          split
          · show s.pos + 1 ≤ n; omega
          · exact hi.pos_le
        · intro hh; cases hh
        · show (if ff = true then { s with pos := s.pos + 1 } else s).immcpos = s.immcpos
          split <;> rfl
        · refine q_ite (Q := fun s' => PcInv s') (fun _ => ?_) (fun _ => hi.pc)
          exact hi.pc.of_eq rfl rfl rfl rfl rfl rfl (by show s.pos ≤ s.pos + 1; omega) id
        · exact q_ite (Q := fun s' => OpRel s s' false 0) (fun _ => OpRel.same rfl rfl) (fun _ => OpRel.same rfl rfl)
    · rw [hn]; exact good_truncated src
  | condIs64 t => exact edge_same (s' := s) hok hi rfl rfl rfl rfl rfl rfl rfl rfl rfl rfl rfl
  | condIsMem tReg tMem =>
    simp only [instrOK, Bool.and_eq_true] at hok
    have h1 : StepGood n c (.next tReg s) := edge_same hok.1.2 hi rfl rfl rfl rfl rfl rfl rfl rfl rfl rfl rfl
    have h2 : StepGood n c (.next tMem s) := edge_same hok.2 hi rfl rfl rfl rfl rfl rfl rfl rfl rfl rfl rfl
    unfold step
    refine q_ite (fun _ => ?_) (fun _ => ?_)
    · exact q_ite (Q := fun t => StepGood n c (.next t s)) (fun _ => h2) (fun _ => h1)
    · refine q_dite (fun hlt => ?_) (fun _ => ?_)
      · exact q_ite (Q := fun t => StepGood n c (.next t s)) (fun _ => h2) (fun _ => h1)
      · have := hi.cons hok.1.1
        have := hi.pos_le
        rw [hn]; exact good_instPrefix src (by omega)
  | condDataSize a b d =>
    simp only [instrOK, Bool.and_eq_true] at hok
    unfold step
    cases P.dm
    · exact edge_same (s' := s) hok.1.1 hi rfl rfl rfl rfl rfl rfl rfl rfl rfl rfl rfl
    · exact edge_same (s' := s) hok.1.2 hi rfl rfl rfl rfl rfl rfl rfl rfl rfl rfl rfl
    · exact edge_same (s' := s) hok.2 hi rfl rfl rfl rfl rfl rfl rfl rfl rfl rfl rfl
  | condAddrSize a b d =>
    simp only [instrOK, Bool.and_eq_true] at hok
    unfold step
    cases P.am
    · exact edge_same (s' := s) hok.1.1 hi rfl rfl rfl rfl rfl rfl rfl rfl rfl rfl rfl
    · exact edge_same (s' := s) hok.1.2 hi rfl rfl rfl rfl rfl rfl rfl rfl rfl rfl rfl
    · exact edge_same (s' := s) hok.2 hi rfl rfl rfl rfl rfl rfl rfl rfl rfl rfl rfl
  | condPrefix ents => exact condPrefixLoop_good P ents s hok hi
  | condSlashR ts =>
    simp only [instrOK, Bool.and_eq_true, decide_eq_true_eq] at hok
    unfold step
    have hm := readModrm_good src hn P s hi (hi.room hok.1.1)
    cases em : readModrm src P s with
    | error r => rw [em] at hm; exact hm
    | ok s1 =>
      rw [em] at hm
      dsimp only
      have hlt : s1.regop &&& 7 < ts.length := by
        have : s1.regop &&& 7 ≤ 7 := Nat.and_le_right
        have := hok.1.2
        omega
      have hget : ts[s1.regop &&& 7]? = some ts[s1.regop &&& 7] := List.getElem?_eq_getElem hlt
      simp only [hget]
      have he := List.all_eq_true.mp hok.2 _ (List.getElem_mem hlt)
      have := hm.pos_ge
      exact edge_next he hi (by rw [hm.narg]; rfl) (by omega) hm.pos_le (fun _ => by omega) (by simp [hm.immcpos]) hm.pc hm.op
  | setOp op next => exact edge_same (s' := { s with op := op }) hok hi rfl rfl rfl rfl rfl rfl rfl rfl rfl rfl rfl
  | plain x next =>
    have hok' : plainOK c x next = true := hok
    unfold step
    refine q_ite (fun hx => ?_) (fun hx => ?_)
    · subst hx
      have hsl := plain_slash hok'
      have hm := readModrm_good src hn P s hi (hi.room hsl.1)
      cases em : readModrm src P s with
      | error r => rw [em] at hm; exact hm
      | ok s1 =>
        rw [em] at hm
        dsimp only
        have hst : stepPlain src P xReadSlashR next s1 = .next next s1 := by
          unfold stepPlain; rw [if_pos rfl]
        rw [hst]
        have := hm.pos_ge
        exact edge_next hsl.2 hi (by rw [hm.narg]; rfl) (by omega) hm.pos_le (fun _ => by omega) (by simp [hm.immcpos]) hm.pc hm.op
    · exact stepPlain_good src hn P x next s hok' hi hx
  | bad x => cases hok


theorem finish_good {n : Nat} (src : Bytes) (hn : n = src.length) (P : Pfx) (s : St) (hb : BrkGood n s)
    (hp : P.nprefix > 0 → 0 < src.length) : GoodRes n (finish src P s) := by
  unfold finish
  refine q_ite (fun _ => ?_) (fun hop => ?_)
  · refine q_ite (fun h => ?_) (fun _ => ?_)
    · rw [hn]; exact good_instPrefix src (hp h)
    · exact good_err n s.pos .unrec (Or.inr rfl) hb.pos_le
  · refine ⟨by simp, by simp, hb.pos_le, fun _ => hb.pos_pos hop, hb.pc.pcrel, fun _ => hb.pc.pcrel_nz, fun _ h0 => absurd h0 ?_⟩
    dsimp only
    have hnop : opNOP ≠ 0 := by decide
    have hpause : opPAUSE ≠ 0 := by decide
    repeat' (first | exact hop | exact hnop | exact hpause | refine q_ite (Q := fun v => v ≠ 0) (fun _ => ?_) (fun _ => ?_))

theorem run_good {n : Nat} (src : Bytes) (hn : n = src.length) (P : Pfx) (hp : P.nprefix > 0 → 0 < src.length) :
    ∀ (fuel pc : Nat) (s : St) (c : Cert), cert? pc = some c → c.rank < fuel → Inv n c s → GoodRes n (run src P fuel pc s) := by
  intro fuel
  induction fuel with
  | zero => intro pc s c _ hr _; omega
  | succ f ih =>
    intro pc s c hc hr hi
    have hok := table_ok pc
    unfold okAt at hok
    rw [hc] at hok
    unfold run
    cases hf : fetch pc with
    | none => rw [hf] at hok; cases hok
    | some i =>
      rw [hf] at hok
      dsimp only at hok ⊢
      have hs := step_good src hn P i s hok hi
      cases hst : step src P i s with
      | next pc' s' =>
        rw [hst] at hs
        obtain ⟨c', hc', hr', hi'⟩ := hs
        exact ih pc' s' c' hc' (by omega) hi'
      | brk s' => rw [hst] at hs; exact finish_good src hn P s' hs hp
      | ret r => rw [hst] at hs; exact hs

def ExGoodP (src : Bytes) : Except Res Pfx → Prop
  | .error r => GoodRes src.length r
  | .ok P => P.pos ≤ src.length ∧ P.nprefix ≤ src.length

theorem readPrefixes_good (src : Bytes) : ∀ (m pos : Nat) (a : Pfx), src.length - pos ≤ m → pos ≤ src.length →
    a.nprefix ≤ src.length → ExGoodP src (readPrefixes src pos a) := by
  intro m
  induction m with
  | zero =>
    intro pos a hm hle ha
    unfold readPrefixes
    have : ¬ pos < src.length := by omega
    rw [dif_neg this]
    exact ⟨hle, ha⟩
  | succ m ih =>
    intro pos a hm hle ha
    unfold readPrefixes
    refine q_dite (fun hlt => ?_) (fun _ => ⟨hle, ha⟩)
    dsimp only
    have hstop : ExGoodP src (.ok { a with pos := pos, nprefix := pos }) := ⟨hle, hle⟩
    refine q_ite (fun _ => ?_) (fun _ => ?_)
    · refine q_ite (fun _ => ?_) (fun _ => hstop)
      exact ih _ _ (by omega) (by omega) ha
    refine q_ite (fun _ => ?_) (fun _ => ?_)
    · refine q_ite (fun _ => ?_) (fun _ => hstop)
      exact ih _ _ (by omega) (by omega) ha
    -- ordinary prefixes: every alternative keeps nprefix
    generalize ho : (if (src[pos]).toNat = 0xF0 then some { a with lock := true }
        else if (src[pos]).toNat = 0xF2 ∨ (src[pos]).toNat = 0xF3 then some { a with rep := (src[pos]).toNat }
        else if (src[pos]).toNat = 0x26 ∨ (src[pos]).toNat = 0x2E ∨ (src[pos]).toNat = 0x36 ∨ (src[pos]).toNat = 0x3E then some a
        else if (src[pos]).toNat = 0x64 ∨ (src[pos]).toNat = 0x65 then some { a with seg := (src[pos]).toNat }
        else if (src[pos]).toNat = 0x66 then some { a with dm := Sz.s16, dataSize := true }
        else if (src[pos]).toNat = 0x67 then some { a with am := Sz.s32, addrSize := true }
        else none : Option Pfx) = o
    have key : ∀ a'', o = some a'' → a''.nprefix = a.nprefix := by
      rw [← ho]
      repeat' (first | refine q_ite (Q := fun (o : Option Pfx) => ∀ a'', o = some a'' → a''.nprefix = a.nprefix) (fun _ => ?_) (fun _ => ?_)
                     | (intro a'' h; cases h <;> rfl))
    cases o with
    | none => exact hstop
    | some a'' =>
      dsimp only
      refine q_ite (fun _ => ?_) (fun _ => ?_)
      · exact good_instPrefix src (by omega)
      · exact ih _ _ (by omega) (by omega) (by rw [key a'' rfl]; exact ha)

theorem readRex_good (src : Bytes) (a : Pfx) (h1 : a.pos ≤ src.length) (h2 : a.nprefix ≤ src.length) :
    ExGoodP src (readRex src a) := by
  unfold readRex
  refine q_dite (fun hlt => ?_) (fun _ => ⟨h1, h2⟩)
  dsimp only
  refine q_ite (fun _ => ?_) (fun _ => ⟨h1, h2⟩)
  refine q_ite (fun _ => ?_) (fun _ => ?_)
  · exact good_instPrefix src (by omega)
  · exact ⟨by show a.pos + 1 ≤ src.length; omega, h2⟩

theorem take_len (src0 : Bytes) : (src0.take 15).length ≤ 15 ∧ (src0.take 15).length ≤ src0.length := by
  rw [List.length_take]; omega

/-- **master lemma**: every result of the model decoder is good w.r.t. the ≤ 15 bytes it looks at -/
theorem decode_good (src0 : Bytes) : GoodRes (src0.take 15).length (decode src0) := by
  unfold decode
  dsimp only
  have h1 := readPrefixes_good (src0.take 15) _ 0 {} (Nat.le_refl _) (Nat.zero_le _) (Nat.zero_le _)
  cases e1 : readPrefixes (src0.take 15) 0 {} with
  | error r => rw [e1] at h1; exact h1
  | ok P1 =>
    rw [e1] at h1
    dsimp only
    have h2 := readRex_good (src0.take 15) P1 h1.1 h1.2
    cases e2 : readRex (src0.take 15) P1 with
    | error r => rw [e2] at h2; exact h2
    | ok P =>
      rw [e2] at h2
      dsimp only
      have he := entryOK2_true
      unfold entryOK2 at he
      cases hc : cert? 1 with
      | none => rw [hc] at he; cases he
      | some c =>
        rw [hc] at he
        simp only [Bool.and_eq_true, decide_eq_true_eq, Bool.not_eq_true'] at he
        refine run_good (src0.take 15) rfl P (fun hp => by have := h2.2; omega) fuel0 1 _ c hc he.1.1.1.1 ?_
        refine ⟨Nat.zero_le _, he.1.1.1.2, h2.1, fun h => ?_, fun h => ?_,
          ⟨fun h => absurd h rip_ne_zero, fun _ => rip_ne_zero, fun h => absurd rfl h, fun h => absurd h rip_ne_zero, fun h => absurd rfl h⟩,
          Or.inr ⟨he.2, ?_⟩⟩
        · rw [he.1.2] at h; cases h
        · rw [he.1.1.2] at h; cases h
        · show 40 ≤ 32 + 8 * c.z
          have := he.2
          omega

end C16L
