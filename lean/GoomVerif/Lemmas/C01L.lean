import GoomVerif.Model.C01Dispatch
import GoomVerif.Props.C15
/-! Helper lemmas for C01: the patch-table invariant and its preservation by every transcribed operation. -/
namespace C01L
open C01M

/-- The invariant of the patch table (all histories of well-used operations, see `inv_step`). -/
structure Inv (E : Env) (s : PState) : Prop where
  /-- guard ids at or above the counter are unused -/
  gfresh : ∀ g, s.nguards ≤ g → s.guards g = none
  /-- every guard saved the pristine bytes of its origin -/
  gob : ∀ g gd, s.guards g = some gd → gd.originBytes = E.pristine gd.origin
  /-- the guard of a registered patch belongs to that origin and carries the jump to the registered replacement -/
  reg : ∀ f p g, s.patches f = some p → p.guard = some g →
    ∃ gd, s.guards g = some gd ∧ gd.origin = f ∧ gd.jumpBytes = jmp E f p.repl
  /-- the entry window is pristine, or it is the jump of the *registered* patch (whose guard is applied) -/
  txt : ∀ f, s.text f = E.pristine f ∨
    ∃ p g gd, s.patches f = some p ∧ p.guard = some g ∧ s.guards g = some gd ∧ gd.applied = true ∧
      s.text f = jmp E f p.repl
  /-- the replacement of every registered patch is a live heap object -/
  live : ∀ f p, s.patches f = some p → ∃ o, s.heap p.repl = some o
  /-- only functions of the program are ever registered -/
  bound : ∀ f, E.nf ≤ f → s.patches f = none

theorem inv_init (E : Env) : Inv E (init E) := by
  constructor <;> simp [init]

theorem upd_same {α} (m : Nat → α) (k : Nat) (v : α) : upd m k v k = v := by simp [upd]
theorem upd_other {α} (m : Nat → α) (k x : Nat) (v : α) (h : x ≠ k) : upd m k v x = m x := by simp [upd, h]

theorem inv_unpatchG (E : Env) (s : PState) (g : Nat) (h : Inv E s) : Inv E (unpatchG s g) := by
  unfold unpatchG
  split
  · rename_i gd hg
    split
    · refine ⟨h.gfresh, h.gob, h.reg, ?_, h.live, h.bound⟩
      intro f
      by_cases hf : f = gd.origin
      · left; subst hf; simp only [upd_same]; exact h.gob g gd hg
      · simp only [upd_other _ _ _ _ hf]; exact h.txt f
    · exact h
  · exact h

/-- after `unpatchValue(f)` the entry of `f` is pristine and `f` is unregistered -/
theorem unpatchFn_spec (E : Env) (s : PState) (f : Nat) (h : Inv E s) :
    Inv E (unpatchFn s f) ∧ (unpatchFn s f).text f = E.pristine f ∧ (unpatchFn s f).patches f = none ∧
    (unpatchFn s f).heap = s.heap ∧ (unpatchFn s f).nguards = s.nguards ∧ (unpatchFn s f).guards = s.guards ∧
    (∀ x, x ≠ f → (unpatchFn s f).patches x = s.patches x) := by
  unfold unpatchFn
  split
  · rename_i hp
    refine ⟨h, ?_, hp, rfl, rfl, rfl, fun _ _ => rfl⟩
    rcases h.txt f with ht | ⟨p, _, _, hp', _⟩
    · exact ht
    · rw [hp] at hp'; cases hp'
  · rename_i p hp
    -- state after the guard's Unpatch
    have key : ∀ s1 : PState, Inv E s1 → s1.patches = s.patches → s1.text f = E.pristine f →
        Inv E { s1 with patches := upd s1.patches f none } := by
      intro s1 h1 hpat ht
      refine ⟨h1.gfresh, h1.gob, ?_, ?_, ?_, ?_⟩
      · intro x p' g' hx hg'
        by_cases hxf : x = f
        · subst hxf; simp [upd] at hx
        · simp only [upd_other _ _ _ _ hxf] at hx; exact h1.reg x p' g' hx hg'
      · intro x
        by_cases hxf : x = f
        · subst hxf; left; exact ht
        · rcases h1.txt x with hx | ⟨p', g', gd', hp', r⟩
          · left; exact hx
          · right; exact ⟨p', g', gd', by simp only [upd_other _ _ _ _ hxf]; exact hp', r⟩
      · intro x p' hx
        by_cases hxf : x = f
        · subst hxf; simp [upd] at hx
        · simp only [upd_other _ _ _ _ hxf] at hx; exact h1.live x p' hx
      · intro x hx
        by_cases hxf : x = f
        · subst hxf; simp [upd]
        · simp only [upd_other _ _ _ _ hxf]; exact h1.bound x hx
    cases hg : p.guard with
    | none =>
      simp only
      have ht : s.text f = E.pristine f := by
        rcases h.txt f with ht | ⟨p', g', _, hp', hg', _⟩
        · exact ht
        · rw [hp] at hp'; cases hp'; rw [hg] at hg'; cases hg'
      exact ⟨key s h rfl ht, ht, by simp [upd], by simp, by simp, by simp, fun x hx => by simp [upd, hx]⟩
    | some g =>
      simp only
      have h1 := inv_unpatchG E s g h
      obtain ⟨gd, hgd, hor, _⟩ := h.reg f p g hp hg
      have hpat : (unpatchG s g).patches = s.patches := by
        unfold unpatchG; rw [hgd]; simp only; split <;> rfl
      have hheap : (unpatchG s g).heap = s.heap := by
        unfold unpatchG; rw [hgd]; simp only; split <;> rfl
      have hng : (unpatchG s g).nguards = s.nguards := by
        unfold unpatchG; rw [hgd]; simp only; split <;> rfl
      have hgs : (unpatchG s g).guards = s.guards := by
        unfold unpatchG; rw [hgd]; simp only; split <;> rfl
      have ht : (unpatchG s g).text f = E.pristine f := by
        unfold unpatchG; rw [hgd]; simp only
        by_cases ha : gd.applied = true
        · simp only [ha, if_true]; rw [← hor, upd_same]; exact h.gob g gd hgd
        · simp only [ha]
          rcases h.txt f with ht | ⟨p', g', gd', hp', hg', hgd', happ, _⟩
          · simpa using ht
          · rw [hp] at hp'; cases hp'; rw [hg] at hg'; cases hg'; rw [hgd] at hgd'; cases hgd'
            exact absurd happ ha
      refine ⟨key _ h1 hpat ht, ht, by simp [upd], hheap, hng, hgs, fun x hx => ?_⟩
      simp only [upd_other _ _ _ _ hx, hpat]

theorem inv_unpatchFn (E : Env) (s : PState) (f : Nat) (h : Inv E s) : Inv E (unpatchFn s f) :=
  (unpatchFn_spec E s f h).1

theorem inv_unpatchAll (E : Env) (s : PState) (h : Inv E s) : Inv E (unpatchAll E s) := by
  unfold unpatchAll
  generalize List.range E.nf = l
  induction l generalizing s with
  | nil => exact h
  | cons x xs ih => exact ih _ (inv_unpatchFn E s x h)

theorem inv_heapAdd (E : Env) (s : PState) (a : Addr) (o : Obj) (h : Inv E s)
    (hw : s.heap a = none ∨ s.heap a = some o) :
    Inv E { s with heap := fun x => if x = a then some o else s.heap x } := by
  refine ⟨h.gfresh, h.gob, h.reg, h.txt, ?_, h.bound⟩
  intro f p hp
  obtain ⟨o', ho'⟩ := h.live f p hp
  by_cases hx : p.repl = a
  · exact ⟨o, by simp [hx]⟩
  · exact ⟨o', by simp [hx, ho']⟩

theorem wf_heap {E : Env} {s : PState} {f : Nat} {v : RValue} {o : Obj} (h : wellFormedReplace E s f v o = true) :
    f < E.nf ∧ (s.heap (getPtr v) = none ∨ s.heap (getPtr v) = some o) := by
  simp only [wellFormedReplace, Bool.and_eq_true, decide_eq_true_eq] at h
  refine ⟨h.1, ?_⟩
  cases hh : s.heap (getPtr v) with
  | none => left; rfl
  | some o' => right; rw [hh] at h; simp at h; rw [h.2]

/-- what `replaceFunc` establishes, in every outcome -/
theorem replace_spec (E : Env) (s : PState) (f : Nat) (v : RValue) (o : Obj) (h : Inv E s) :
    Inv E (replace E s f v o).1 ∧
    (∀ g, (replace E s f v o).2 = .ok g →
      (replace E s f v o).1.patches f = some { repl := getPtr v, guard := some g } ∧
      (replace E s f v o).1.heap (getPtr v) = some o ∧
      (replace E s f v o).1.guards g =
        some { origin := f, originBytes := E.pristine f, jumpBytes := jmp E f (getPtr v), applied := false } ∧
      (replace E s f v o).1.text f = E.pristine f ∧ f < E.nf ∧ g = s.nguards ∧
      Gen.Amd64.checkAlreadyPatch (E.pristine f) = false) := by
  unfold replace
  by_cases hw : wellFormedReplace E s f v o = true
  · simp only [hw, if_true]
    obtain ⟨hf, hheap⟩ := wf_heap hw
    have h0 := inv_heapAdd E s (getPtr v) o h hheap
    generalize hs0 : ({ s with heap := fun a => if a = getPtr v then some o else s.heap a } : PState) = s0 at h0
    have hs0heap : s0.heap (getPtr v) = some o := by rw [← hs0]; simp
    have hs0ng : s0.nguards = s.nguards := by rw [← hs0]
    obtain ⟨h1, ht1, hp1, hh1, hn1, hg1, hpo1⟩ := unpatchFn_spec E s0 f h0
    generalize unpatchFn s0 f = s1 at h1 ht1 hp1 hh1 hn1 hg1 hpo1
    -- registration of the new patch (no guard yet)
    have h2 : Inv E { s1 with patches := upd s1.patches f (some { repl := getPtr v, guard := none }) } := by
      refine ⟨h1.gfresh, h1.gob, ?_, ?_, ?_, ?_⟩
      · intro x p' g' hx hg'
        by_cases hxf : x = f
        · subst hxf; simp [upd] at hx; subst hx; cases hg'
        · simp only [upd_other _ _ _ _ hxf] at hx; exact h1.reg x p' g' hx hg'
      · intro x
        by_cases hxf : x = f
        · subst hxf; left; exact ht1
        · rcases h1.txt x with hx | ⟨p', g', gd', hp', r⟩
          · left; exact hx
          · right; exact ⟨p', g', gd', by simp only [upd_other _ _ _ _ hxf]; exact hp', r⟩
      · intro x p' hx
        by_cases hxf : x = f
        · subst hxf; simp [upd] at hx; subst hx; exact ⟨o, by rw [hh1]; exact hs0heap⟩
        · simp only [upd_other _ _ _ _ hxf] at hx; exact h1.live x p' hx
      · intro x hx
        have hxf : x ≠ f := by omega
        simp only [upd_other _ _ _ _ hxf]; exact h1.bound x hx
    split
    · exact ⟨h2, fun g hg => by cases hg⟩
    · split
      · exact ⟨h2, fun g hg => by cases hg⟩
      · refine ⟨?_, ?_⟩
        · -- the fresh guard
          refine ⟨?_, ?_, ?_, ?_, ?_, ?_⟩
          · intro g hg
            have hne : g ≠ s1.nguards := by simp only at hg; omega
            simp only [upd_other _ _ _ _ hne]
            exact h1.gfresh g (by simp only at hg; omega)
          · intro g gd hgd
            by_cases hgn : g = s1.nguards
            · subst hgn; simp only [upd_same] at hgd; cases hgd; exact ht1
            · simp only [upd_other _ _ _ _ hgn] at hgd; exact h1.gob g gd hgd
          · intro x p' g' hx hg'
            by_cases hxf : x = f
            · subst hxf
              simp only [upd_same] at hx; cases hx; cases hg'
              exact ⟨_, upd_same _ _ _, rfl, rfl⟩
            · simp only [upd_other _ _ _ _ hxf] at hx
              obtain ⟨gd, hgd, r⟩ := h1.reg x p' g' hx hg'
              have hgn : g' ≠ s1.nguards := by
                intro e; rw [e, h1.gfresh _ (Nat.le_refl _)] at hgd; cases hgd
              exact ⟨gd, by simp only [upd_other _ _ _ _ hgn]; exact hgd, r⟩
          · intro x
            by_cases hxf : x = f
            · subst hxf; left; exact ht1
            · rcases h1.txt x with hx | ⟨p', g', gd', hp', hg', hgd', r⟩
              · left; exact hx
              · right
                have hgn : g' ≠ s1.nguards := by
                  intro e; rw [e, h1.gfresh _ (Nat.le_refl _)] at hgd'; cases hgd'
                exact ⟨p', g', gd', by simp only [upd_other _ _ _ _ hxf]; exact hp', hg',
                  by simp only [upd_other _ _ _ _ hgn]; exact hgd', r⟩
          · intro x p' hx
            by_cases hxf : x = f
            · subst hxf; simp only [upd_same] at hx; cases hx; exact ⟨o, by rw [hh1]; exact hs0heap⟩
            · simp only [upd_other _ _ _ _ hxf] at hx; exact h1.live x p' hx
          · intro x hx
            have hxf : x ≠ f := by omega
            simp only [upd_other _ _ _ _ hxf]; exact h1.bound x hx
        · intro g hg
          cases hg
          rename_i hnp
          refine ⟨upd_same _ _ _, by rw [hh1]; exact hs0heap, ?_, ht1, hf, by rw [hn1, hs0ng], ?_⟩
          · simp only [upd_same, ht1]
          · simp only [ht1] at hnp; simpa using hnp
  · simp only [hw]
    exact ⟨h, fun g hg => by cases hg⟩

theorem inv_applyG (E : Env) (s : PState) (g : Nat) (h : Inv E s)
    (hu : ∃ f p, s.patches f = some p ∧ p.guard = some g) : Inv E (applyG s g) := by
  obtain ⟨f, p, hp, hg⟩ := hu
  obtain ⟨gd, hgd, hor, hjb⟩ := h.reg f p g hp hg
  unfold applyG
  rw [hgd]
  refine ⟨?_, ?_, ?_, ?_, h.live, h.bound⟩
  · intro g' hg'
    have : g' ≠ g := by
      intro e; subst e; rw [h.gfresh _ hg'] at hgd; cases hgd
    simp only [upd_other _ _ _ _ this]; exact h.gfresh g' hg'
  · intro g' gd' hgd'
    by_cases e : g' = g
    · subst e; simp only [upd_same] at hgd'; cases hgd'; exact h.gob _ gd hgd
    · simp only [upd_other _ _ _ _ e] at hgd'; exact h.gob g' gd' hgd'
  · intro x p' g' hx hg'
    obtain ⟨gd', hgd', r⟩ := h.reg x p' g' hx hg'
    by_cases e : g' = g
    · subst e; rw [hgd] at hgd'; cases hgd'
      exact ⟨_, upd_same _ _ _, r⟩
    · exact ⟨gd', by simp only [upd_other _ _ _ _ e]; exact hgd', r⟩
  · intro x
    by_cases hxf : x = gd.origin
    · right
      subst hxf
      refine ⟨p, g, { gd with applied := true }, by rw [hor]; exact hp, hg, upd_same _ _ _, rfl, ?_⟩
      simp only [upd_same]; rw [hjb, hor]
    · simp only [upd_other _ _ _ _ hxf]
      rcases h.txt x with hx | ⟨p', g', gd', hp', hg', hgd', happ, ht⟩
      · left; exact hx
      · right
        by_cases e : g' = g
        · subst e; rw [hgd] at hgd'; cases hgd'
          exact ⟨p', g', _, hp', hg', upd_same _ _ _, rfl, ht⟩
        · exact ⟨p', g', gd', hp', hg', by simp only [upd_other _ _ _ _ e]; exact hgd', happ, ht⟩

theorem inv_restoreG (E : Env) (s : PState) (g : Nat) (h : Inv E s)
    (hu : ∃ f p, s.patches f = some p ∧ p.guard = some g) : Inv E (restoreG s g) := by
  obtain ⟨f, p, hp, hg⟩ := hu
  obtain ⟨gd, hgd, hor, hjb⟩ := h.reg f p g hp hg
  unfold restoreG
  rw [hgd]
  simp only
  split
  · rename_i happ
    refine ⟨h.gfresh, h.gob, h.reg, ?_, h.live, h.bound⟩
    intro x
    by_cases hxf : x = gd.origin
    · right
      subst hxf
      exact ⟨p, g, gd, by rw [hor]; exact hp, hg, hgd, happ, by simp only [upd_same]; rw [hjb, hor]⟩
    · simp only [upd_other _ _ _ _ hxf]; exact h.txt x
  · exact h

theorem isRoot_of_reg (E : Env) (s : PState) (f : Nat) (p : Patch) (hf : f < E.nf) (hp : s.patches f = some p) :
    isRoot E s p.repl = true := by
  unfold isRoot
  rw [List.any_eq_true]
  exact ⟨f, List.mem_range.2 hf, by rw [hp]; simp⟩

/-- a collection never frees a registered replacement, whatever the external roots are -/
theorem inv_gc (E : Env) (s : PState) (keep : Addr → Bool) (h : Inv E s) : Inv E (gc E s keep) := by
  refine ⟨h.gfresh, h.gob, h.reg, h.txt, ?_, h.bound⟩
  intro f p hp
  change s.patches f = some p at hp
  obtain ⟨o, ho⟩ := h.live f p hp
  have hf : f < E.nf := by
    apply Classical.byContradiction; intro hn
    rw [h.bound f (by omega)] at hp; cases hp
  refine ⟨o, ?_⟩
  show (if isRoot E s p.repl || keep p.repl then s.heap p.repl else none) = some o
  rw [isRoot_of_reg E s f p hf hp]; simpa using ho

theorem inv_step (E : Env) (s : PState) (op : Op) (h : Inv E s) (hu : wellUsed s op) : Inv E (step E s op) := by
  cases op with
  | replace f v o => exact (replace_spec E s f v o h).1
  | apply g => exact inv_applyG E s g h hu
  | unpatch g => exact inv_unpatchG E s g h
  | restore g => exact inv_restoreG E s g h hu
  | unpatchFn f => exact inv_unpatchFn E s f h
  | unpatchAll => exact inv_unpatchAll E s h
  | gc keep => exact inv_gc E s keep h

/-- the jump bytes determine the destination (through their execution, C15.amd64_entry) -/
theorem jmp_inj (E : Env) (f : Nat) (a b : Addr) (h : jmp E f a = jmp E f b) : a = b := by
  have ha := C15.amd64_entry (E.entry f) a { rip := 0#64, rdx := 0#64, mem64 := fun _ => 0#64 }
  have hb := C15.amd64_entry (E.entry f) b { rip := 0#64, rdx := 0#64, mem64 := fun _ => 0#64 }
  unfold jmp at h
  rw [h, hb] at ha
  simp only [Option.some.injEq, X86.Mach.mk.injEq] at ha
  exact ha.2.1.symm

/-- frame: `unpatchValue(f)` writes nothing outside `f` -/
theorem unpatchFn_text_other (E : Env) (s : PState) (f x : Nat) (h : Inv E s) (hx : x ≠ f) :
    (unpatchFn s f).text x = s.text x := by
  unfold unpatchFn
  split
  · rfl
  · rename_i p hp
    cases hg : p.guard with
    | none => rfl
    | some g =>
      obtain ⟨gd, hgd, hor, _⟩ := h.reg f p g hp hg
      simp only [unpatchG, hgd]
      split
      · simp only [upd, hor, hx, if_false]
      · rfl

/-- frame of `replaceFunc` on another function: text and registration of `x` untouched, live objects stay -/
theorem replace_frame (E : Env) (s : PState) (f x : Nat) (v : RValue) (o : Obj) (h : Inv E s) (hx : x ≠ f) :
    (replace E s f v o).1.text x = s.text x ∧ (replace E s f v o).1.patches x = s.patches x ∧
    (∀ a oa, s.heap a = some oa → (replace E s f v o).1.heap a = some oa) := by
  unfold replace
  by_cases hw : wellFormedReplace E s f v o = true
  · simp only [hw, if_true]
    obtain ⟨_, hheap⟩ := wf_heap hw
    have h0 := inv_heapAdd E s (getPtr v) o h hheap
    generalize hs0 : ({ s with heap := fun a => if a = getPtr v then some o else s.heap a } : PState) = s0 at h0
    have ht0 : s0.text = s.text := by rw [← hs0]
    have hp0 : s0.patches = s.patches := by rw [← hs0]
    have hh0 : ∀ a oa, s.heap a = some oa → s0.heap a = some oa := by
      intro a oa ha
      rw [← hs0]; simp only
      by_cases e : a = getPtr v
      · subst e; rcases hheap with hn | hs
        · rw [hn] at ha; cases ha
        · rw [hs] at ha; simp [ha]
      · simp [e, ha]
    obtain ⟨_, _, _, hh1, _, _, hpo1⟩ := unpatchFn_spec E s0 f h0
    have ht1 := unpatchFn_text_other E s0 f x h0 hx
    generalize unpatchFn s0 f = s1 at hh1 hpo1 ht1
    have hpx : s1.patches x = s.patches x := by rw [hpo1 x hx, hp0]
    have htx : s1.text x = s.text x := by rw [ht1, ht0]
    have hhx : ∀ a oa, s.heap a = some oa → s1.heap a = some oa := by rw [hh1]; exact hh0
    split
    · exact ⟨htx, by simp only [upd_other _ _ _ _ hx]; exact hpx, hhx⟩
    · split
      · exact ⟨htx, by simp only [upd_other _ _ _ _ hx]; exact hpx, hhx⟩
      · exact ⟨htx, by simp only [upd_other _ _ _ _ hx]; exact hpx, hhx⟩
  · simp only [hw]
    exact ⟨rfl, rfl, fun _ _ ha => ha⟩

/-- original bytes that pass the `checkAlreadyPatch` test are never a goom jump (NOP sentinel) -/
theorem jmp_ne_of_unpatched (E : Env) (f : Nat) (to : Addr) (bs : Bytes)
    (h : Gen.Amd64.checkAlreadyPatch bs = false) : jmp E f to ≠ bs := by
  intro e
  have := (C15.amd64_entry_shape (E.entry f) to).2.1
  unfold jmp at e
  rw [e, h] at this
  cases this

end C01L
