import GoomVerif.Model.Iface
/-! Helper lemmas for C07. -/
namespace C07L
open Iface

theorem methodIndexFrom_spec (ms : List String) (m : String) (i : Nat) (h : m ∈ ms) :
    ∃ j, methodIndexFrom ms m i = some (i + j) ∧ ms[j]? = some m ∧ ∀ j' < j, ms[j']? ≠ some m := by
  induction ms generalizing i with
  | nil => cases h
  | cons x xs ih =>
    unfold methodIndexFrom
    by_cases hx : m = x
    · refine ⟨0, ?_, ?_, ?_⟩
      · simp [hx]
      · simp [hx]
      · intro j' hj'; omega
    · have hm : m ∈ xs := by
        cases h with
        | head => exact absurd rfl hx
        | tail _ h' => exact h'
      obtain ⟨j, h1, h2, h3⟩ := ih (i + 1) hm
      refine ⟨j + 1, ?_, ?_, ?_⟩
      · simp only [hx, if_false]; rw [h1]; congr 1; omega
      · simpa using h2
      · intro j' hj'
        cases j' with
        | zero => simp; exact fun h => hx h.symm
        | succ n => simpa using h3 n (by omega)

theorem methodIndexFrom_idxOf (ms : List String) (m : String) (i : Nat) (h : m ∈ ms) :
    methodIndexFrom ms m i = some (i + ms.idxOf m) := by
  induction ms generalizing i with
  | nil => cases h
  | cons x xs ih =>
    unfold methodIndexFrom
    by_cases hx : m = x
    · subst hx; simp
    · have hm : m ∈ xs := by
        cases h with
        | head => exact absurd rfl hx
        | tail _ h' => exact h'
      have hx' : ¬ (x = m) := fun h => hx h.symm
      simp only [hx, if_false, ih (i + 1) hm]
      have hb : (x == m) = false := by simpa using hx'
      rw [List.idxOf_cons, hb]
      simp only [cond_false]
      congr 1; omega

end C07L
