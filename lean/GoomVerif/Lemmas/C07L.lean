import GoomVerif.Model.Iface
/-! Helper lemmas for C07. -/
namespace C07L
open Iface

theorem noShadow_tail {x : String} {xs : List String} {m : String} (h : NoShadow (x :: xs) m) : NoShadow xs m :=
  fun y hy => h y (List.mem_cons_of_mem _ hy)

theorem methodIndexFrom_spec (ms : List String) (m : String) (i : Nat) (h : m ∈ ms) (hns : NoShadow ms m) :
    ∃ j, methodIndexFrom ms m i = some (i + j) ∧ ms[j]? = some m ∧ ∀ j' < j, ms[j']? ≠ some m := by
  induction ms generalizing i with
  | nil => cases h
  | cons x xs ih =>
    unfold methodIndexFrom
    have hiff := hns x List.mem_cons_self
    by_cases hx : m = x
    · have hb : m = baseName x := hiff.mpr hx
      refine ⟨0, ?_, ?_, ?_⟩
      · simp [hb]
      · simp [hx]
      · intro j' hj'; omega
    · have hb : ¬ m = baseName x := fun e => hx (hiff.mp e)
      have hm : m ∈ xs := by
        cases h with
        | head => exact absurd rfl hx
        | tail _ h' => exact h'
      obtain ⟨j, h1, h2, h3⟩ := ih (i + 1) hm (noShadow_tail hns)
      refine ⟨j + 1, ?_, ?_, ?_⟩
      · simp only [hb, if_false]; rw [h1]; congr 1; omega
      · simpa using h2
      · intro j' hj'
        cases j' with
        | zero => simp; exact fun h => hx h.symm
        | succ n => simpa using h3 n (by omega)

theorem methodIndexFrom_idxOf (ms : List String) (m : String) (i : Nat) (h : m ∈ ms) (hns : NoShadow ms m) :
    methodIndexFrom ms m i = some (i + ms.idxOf m) := by
  induction ms generalizing i with
  | nil => cases h
  | cons x xs ih =>
    unfold methodIndexFrom
    have hiff := hns x List.mem_cons_self
    by_cases hx : m = x
    · have hb : m = baseName x := hiff.mpr hx
      simp only [hb.symm ▸ hb, if_pos hb]
      subst hx; simp
    · have hb : ¬ m = baseName x := fun e => hx (hiff.mp e)
      have hm : m ∈ xs := by
        cases h with
        | head => exact absurd rfl hx
        | tail _ h' => exact h'
      have hx' : ¬ (x = m) := fun h => hx h.symm
      simp only [hb, if_false, ih (i + 1) hm (noShadow_tail hns)]
      have hbq : (x == m) = false := by simpa using hx'
      rw [List.idxOf_cons, hbq]
      simp only [cond_false]
      congr 1; omega

/-- with `NoShadow`, `MethodByName` finding the name means the method itself is in the set -/
theorem hasMethod_mem (ms : List String) (m : String) (h : hasMethod ms m = true) (hns : NoShadow ms m) : m ∈ ms := by
  simp only [hasMethod, List.any_eq_true, beq_iff_eq] at h
  obtain ⟨q, hq, e⟩ := h
  have := (hns q hq).mp e.symm
  rw [this]; exact hq

theorem lookup_filter_ne {κ : Type} [DecidableEq κ] (k k' : κ) (l : List (κ × Nat)) (h : k' ≠ k) :
    lookup k' (l.filter (fun p => p.1 ≠ k)) = lookup k' l := by
  induction l with
  | nil => rfl
  | cons p r ih =>
    obtain ⟨a, b⟩ := p
    by_cases ha : a = k
    · subst ha
      have : k' ≠ a := h
      rw [List.filter_cons]
      simp only [ne_eq, not_true_eq_false, decide_false, lookup, this, if_false]
      exact ih
    · rw [List.filter_cons]
      simp only [ne_eq, ha, not_false_eq_true, decide_true, if_true, lookup]
      rw [ih]

theorem lookup_insertKV {κ : Type} [DecidableEq κ] (k k' : κ) (v : Nat) (l : List (κ × Nat)) :
    lookup k' (insertKV k v l) = if k' = k then some v else lookup k' l := by
  unfold insertKV
  by_cases h : k' = k
  · simp [lookup, h]
  · simp only [lookup, h, if_false]
    exact lookup_filter_ne k k' l h

/-- the invariant of all reachable states -/
structure Inv (cfg : Cfg) (s : St) : Prop where
  a : ∀ v f c, s.vars v = .fake f c → c < s.nctx ∧ lookup (s.vtyp v) (s.ctxs c).cache = some f
  b : ∀ c t f, lookup t (s.ctxs c).cache = some f → f < s.nfake ∧ (s.fakes f).data = c
  c : ∀ c v f c', (s.ctxs c).backup = some (v, .fake f c') → c' < s.nctx ∧ lookup (s.vtyp v) (s.ctxs c').cache = some f
  d : cfg.retainAll = true → ∀ f i k, f < s.nfake → (s.fakes f).fn i = .stub k → k ∈ (s.ctxs (s.fakes f).data).retained
  e : ∀ j, j < s.ncm → (s.cms j).ctx < s.nctx ∧ (s.cms j).typ = s.vtyp (s.cms j).var
  f : ∀ b key j, lookup key (s.blds b).mockers = some j → j < s.ncm
  h : cfg.keyByVar = true → ∀ b v j, lookup (bkey cfg s v) (s.blds b).mockers = some j → (s.cms j).var = v
  l : ∀ w f c, s.vars w = .fake f c → ∃ x, (s.ctxs c).backup = some (w, x)
  l' : ∀ c w f c', (s.ctxs c).backup = some (w, .fake f c') → ∃ x, (s.ctxs c').backup = some (w, x)
  m : ∀ j, j < s.ncm → ∀ bv x, (s.ctxs (s.cms j).ctx).backup = some (bv, x) → bv = (s.cms j).var
  o : ∀ j j', j < s.ncm → j' < s.ncm → (s.cms j).ctx = (s.cms j').ctx → j = j'
  p : ∀ f, f < s.nfake → (s.fakes f).data < s.nctx

theorem inv_init (cfg : Cfg) (types : Nat → List String) (vtyp : Nat → Nat) (vars : Nat → Words) (sigs : Nat → List Nat)
    (hv : ∀ v, ∃ x, vars v = .val x) : Inv cfg (St.init types vtyp vars sigs) := by
  refine ⟨?_, ?_, ?_, ?_, ?_, ?_, ?_, ?_, ?_, ?_, ?_, ?_⟩ <;> simp only [St.init] <;> intros
  all_goals first
    | (rename_i v f c hh; obtain ⟨x, hx⟩ := hv v; rw [hx] at hh; cases hh)
    | (rename_i hh; simp [lookup] at hh; done)
    | (rename_i hh; cases hh; done)
    | omega
    | skip


theorem inv_freshCM (cfg : Cfg) (s : St) (b v : Nat) (hI : Inv cfg s) : Inv cfg (freshCM cfg s b v).2 := by
  obtain ⟨ha, hb, hc, hd, he, hf, hh, hl, hl', hm, ho, hp⟩ := hI
  simp only [bkey] at hh
  refine ⟨?_, ?_, ?_, ?_, ?_, ?_, ?_, ?_, ?_, ?_, ?_, ?_⟩ <;> simp only [freshCM, bkey] <;> intros
  all_goals grind [upd, lookup_insertKV, lookup, List.mem_cons]


theorem inv_interfaceOf (cfg : Cfg) (s : St) (b v : Nat) (hI : Inv cfg s) : Inv cfg (interfaceOf cfg s b v).2 := by
  unfold interfaceOf
  split
  · split
    · exact inv_freshCM cfg s b v hI
    · exact hI
  · exact inv_freshCM cfg s b v hI

/-- what `Interface` guarantees about the mocker it returns -/
theorem interfaceOf_facts (cfg : Cfg) (s : St) (b v : Nat) (hI : Inv cfg s) :
    let r := interfaceOf cfg s b v
    r.1 < r.2.ncm ∧ (r.2.ctxs (r.2.cms r.1).ctx).canceled = false ∧ (cfg.keyByVar = true → (r.2.cms r.1).var = v)
    ∧ r.2.vars = s.vars ∧ r.2.fakes = s.fakes ∧ r.2.nfake = s.nfake ∧ r.2.types = s.types ∧ r.2.vtyp = s.vtyp
    ∧ r.2.cbs = s.cbs ∧ r.2.ncb = s.ncb := by
  obtain ⟨ha, hb, hc, hd, he, hf, hh, hl, hl', hm, ho, hp⟩ := hI
  simp only [interfaceOf]
  split
  · split
    · simp [freshCM, upd]
    · rename_i j hj hcn
      refine ⟨hf _ _ _ hj, by simpa using hcn, fun hk => hh hk _ _ _ hj, rfl, rfl, rfl, rfl, rfl, rfl, rfl⟩
  · simp [freshCM, upd]

theorem interfaceOf_sigs (cfg : Cfg) (s : St) (b v : Nat) : (interfaceOf cfg s b v).2.sigs = s.sigs := by
  simp only [interfaceOf]
  split
  · split <;> rfl
  · rfl

theorem methodOf_sigs (s : St) (j : Nat) (m : String) : (methodOf s j m).2.sigs = s.sigs := by
  simp only [methodOf]
  split
  · split <;> rfl
  · rfl

theorem inv_freshMM (cfg : Cfg) (s : St) (j : Nat) (m : String) (hI : Inv cfg s) : Inv cfg (freshMM s j m).2 := by
  obtain ⟨ha, hb, hc, hd, he, hf, hh, hl, hl', hm, ho, hp⟩ := hI
  simp only [bkey] at hh
  refine ⟨?_, ?_, ?_, ?_, ?_, ?_, ?_, ?_, ?_, ?_, ?_, ?_⟩ <;> simp only [freshMM, bkey] <;> intros
  all_goals grind [upd]

theorem inv_methodOf (cfg : Cfg) (s : St) (j : Nat) (m : String) (hI : Inv cfg s) : Inv cfg (methodOf s j m).2 := by
  unfold methodOf
  split
  · split
    · exact inv_freshMM cfg s j m hI
    · exact hI
  · exact inv_freshMM cfg s j m hI

theorem methodOf_facts (s : St) (j : Nat) (m : String) :
    let r := methodOf s j m
    r.2.ncm = s.ncm ∧ r.2.ctxs = s.ctxs ∧ (r.2.cms j).ctx = (s.cms j).ctx ∧ (r.2.cms j).var = (s.cms j).var
    ∧ (r.2.cms j).typ = (s.cms j).typ
    ∧ r.2.vars = s.vars ∧ r.2.fakes = s.fakes ∧ r.2.nfake = s.nfake ∧ r.2.types = s.types ∧ r.2.vtyp = s.vtyp
    ∧ r.2.cbs = s.cbs ∧ r.2.ncb = s.ncb ∧ r.2.nctx = s.nctx ∧ r.2.blds = s.blds := by
  simp only [methodOf]
  split
  · split
    · simp [freshMM, upd]
    · simp
  · simp [freshMM, upd]

theorem inv_mms (cfg : Cfg) (s : St) (f : Nat → MM) (n : Nat) (hI : Inv cfg s) : Inv cfg { s with mms := f, nmm := n } :=
  ⟨hI.a, hI.b, hI.c, hI.d, hI.e, hI.f, hI.h, hI.l, hI.l', hI.m, hI.o, hI.p⟩

theorem inv_ncb (cfg : Cfg) (s : St) (n : Nat) (hI : Inv cfg s) : Inv cfg { s with ncb := n } :=
  ⟨hI.a, hI.b, hI.c, hI.d, hI.e, hI.f, hI.h, hI.l, hI.l', hI.m, hI.o, hI.p⟩


theorem inv_proxyInterface (cfg : Cfg) (s s' : St) (j : Nat) (m : String) (k : Nat) (cb : Cb) (hI : Inv cfg s)
    (hj : j < s.ncm) (hcn : (s.ctxs (s.cms j).ctx).canceled = false)
    (hs : proxyInterface cfg s (s.cms j).var (s.cms j).typ (s.cms j).ctx m k cb = some s') : Inv cfg s' := by
  obtain ⟨ha, hb, hc, hd, he, hf, hh, hl, hl', hm, ho, hp⟩ := hI
  simp only [bkey] at hh
  have hej := he j hj
  simp only [proxyInterface] at hs
  split at hs
  · cases hs
  · split at hs
    · rename_i f hlk hcan
      cases hs
      have hfb := hb _ _ _ hlk
      refine ⟨?_, ?_, ?_, ?d, ?_, ?_, ?_, ?_, ?_, ?_, ?_, ?_⟩
      case d =>
        intro hr f1 i k1 hf1 hfn
        simp only [hr, if_true] at *
        by_cases e1 : f1 = f
        · subst e1
          simp only [upd_same] at hfn ⊢
          by_cases e2 : i = methodIndexOf (s.types (s.cms j).typ) m
          · subst e2; simp only [upd_same] at hfn; cases hfn; simp
          · rw [upd_other _ _ _ _ e2] at hfn
            have := hd hr f1 i k1 hfb.1 hfn
            rw [hfb.2] at this
            simp [this]
        · rw [upd_other _ _ _ _ e1] at hfn ⊢
          have := hd hr f1 i k1 hf1 hfn
          by_cases e3 : (s.fakes f1).data = (s.cms j).ctx
          · rw [e3] at this ⊢; simp [this]
          · rw [upd_other _ _ _ _ e3]; exact this
      all_goals simp only [bkey] <;> intros
      all_goals grind [upd, lookup_insertKV, lookup]
    · rename_i hnot
      cases hs
      have hnone : lookup (s.cms j).typ (s.ctxs (s.cms j).ctx).cache = none := by
        cases hq : lookup (s.cms j).typ (s.ctxs (s.cms j).ctx).cache with
        | none => rfl
        | some f => exact absurd hcn (hnot f hq)
      refine ⟨?_, ?_, ?_, ?d, ?_, ?_, ?_, ?l, ?_, ?_, ?_, ?_⟩
      case l =>
        intro w f c hw
        dsimp only at hw ⊢
        by_cases e1 : w = (s.cms j).var
        · subst e1
          simp only [upd_same] at hw
          cases hw
          simp only [upd_same]
          cases hbk : (s.ctxs (s.cms j).ctx).backup with
          | none => exact ⟨_, rfl⟩
          | some bk =>
            obtain ⟨bv, x⟩ := bk
            have := hm j hj bv x hbk
            subst this
            exact ⟨x, rfl⟩
        · rw [upd_other _ _ _ _ e1] at hw
          obtain ⟨x, hx⟩ := hl w f c hw
          by_cases e2 : c = (s.cms j).ctx
          · subst e2
            simp only [upd_same, hx]
            exact ⟨x, rfl⟩
          · rw [upd_other _ _ _ _ e2]; exact ⟨x, hx⟩
      case d =>
        intro hr f1 i k1 hf1 hfn
        simp only [hr, if_true] at *
        by_cases e1 : f1 = s.nfake
        · subst e1
          simp only [upd_same] at hfn ⊢
          by_cases e2 : i = methodIndexOf (s.types (s.cms j).typ) m
          · subst e2; simp only [upd_same] at hfn; cases hfn; simp
          · rw [upd_other _ _ _ _ e2] at hfn; cases hfn
        · rw [upd_other _ _ _ _ e1] at hfn ⊢
          have := hd hr f1 i k1 (by omega) hfn
          by_cases e3 : (s.fakes f1).data = (s.cms j).ctx
          · rw [e3] at this ⊢; simp [this]
          · rw [upd_other _ _ _ _ e3]; exact this
      all_goals simp only [bkey] <;> intros
      all_goals grind [upd, lookup_insertKV, lookup]


theorem inv_cancelCtx (cfg : Cfg) (s s' : St) (c : Nat) (hI : Inv cfg s) (hs : cancelCtx s c = some s') : Inv cfg s' := by
  obtain ⟨ha, hb, hc, hd, he, hf, hh, hl, hl', hm, ho, hp⟩ := hI
  simp only [bkey] at hh
  simp only [cancelCtx] at hs
  split at hs
  · rename_i v w hbk
    cases hs
    refine ⟨?_, ?_, ?_, ?_, ?_, ?_, ?_, ?_, ?_, ?_, ?_, ?_⟩ <;> simp only [bkey] <;> intros
    all_goals grind [upd]
  · cases hs

theorem inv_cancelMM (cfg : Cfg) (s s' : St) (i : Nat) (hI : Inv cfg s) (hs : cancelMM s i = some s') : Inv cfg s' := by
  simp only [cancelMM] at hs
  split at hs
  · cases hq : cancelCtx s (s.mms i).ctx with
    | none => simp [hq] at hs
    | some s1 =>
      simp only [hq, Option.map_some, Option.some.injEq] at hs
      subst hs
      exact inv_mms cfg _ _ _ (inv_cancelCtx cfg s s1 _ hI hq)
  · simp only [Option.map_some, Option.some.injEq] at hs
    subst hs
    exact inv_mms cfg _ _ _ hI

theorem inv_cancelMMs (cfg : Cfg) (l : List Nat) : ∀ (s s' : St), Inv cfg s → cancelMMs s l = some s' → Inv cfg s' := by
  induction l with
  | nil => intro s s' hI hs; simp only [cancelMMs, Option.some.injEq] at hs; subst hs; exact hI
  | cons i r ih =>
    intro s s' hI hs
    simp only [cancelMMs] at hs
    cases hq : cancelMM s i with
    | none => simp [hq] at hs
    | some s1 =>
      simp only [hq, Option.bind_some] at hs
      exact ih s1 s' (inv_cancelMM cfg s s1 i hI hq) hs

theorem inv_drop (cfg : Cfg) (s : St) (b : Nat) (hI : Inv cfg s) :
    Inv cfg { s with blds := upd s.blds b { s.blds b with alive := false } } := by
  obtain ⟨ha, hb, hc, hd, he, hf, hh, hl, hl', hm, ho, hp⟩ := hI
  simp only [bkey] at hh
  refine ⟨?_, ?_, ?_, ?_, ?_, ?_, ?_, ?_, ?_, ?_, ?_, ?_⟩ <;> simp only [bkey] <;> intros
  all_goals grind [upd]


/-- `Method(name)` never creates a guard: every method mocker is unchanged or a fresh one without guard -/
theorem methodOf_guard (s : St) (j : Nat) (m : String) :
    let r := methodOf s j m
    ∀ i, (r.2.mms i) = (s.mms i) ∨ (r.2.mms i).hasGuard = false := by
  simp only [methodOf]
  split
  · split
    · intro i; by_cases e : i = s.nmm
      · subst e; right; simp [freshMM]
      · left; simp [freshMM, upd_other _ _ _ _ e]
    · intro i; left; rfl
  · intro i; by_cases e : i = s.nmm
    · subst e; right; simp [freshMM]
    · left; simp [freshMM, upd_other _ _ _ _ e]

/-- the callback kind and the mocker update of a successful mock -/
def cbOf (kind : Kind) (i : Nat) : Cb := match kind with | .ap => .clo | _ => .mk i
def whenOf (kind : Kind) (k : Nat) : Option When :=
  match kind with | .ap => none | .rt => some ⟨some k, []⟩ | .wn a => some ⟨none, [(a, k)]⟩

/-- decomposition of a successful `mockOn`: a state `s2` that differs from `s` only in mocker bookkeeping, then
    `proxy.Interface` on the mocker's own variable, then the method mocker's fields -/
theorem mockOn_ok (cfg : Cfg) (s1 s' : St) (j : Nat) (m : String) (kind : Kind) (fits : Bool) (k : Nat) (hI1 : Inv cfg s1)
    (hs : mockOn cfg s1 j m kind fits k = some (s', .ok)) :
    ∃ s2 s3 i, Inv cfg s2 ∧ fits = true ∧ s2.ncm = s1.ncm ∧ s2.ctxs = s1.ctxs ∧ (s2.cms j).ctx = (s1.cms j).ctx
      ∧ (s2.cms j).var = (s1.cms j).var ∧ (s2.cms j).typ = (s1.cms j).typ ∧ hasMethod (s2.types (s2.cms j).typ) m = true
      ∧ s2.vars = s1.vars ∧ s2.fakes = s1.fakes ∧ s2.nfake = s1.nfake ∧ s2.types = s1.types ∧ s2.vtyp = s1.vtyp ∧ s2.cbs = s1.cbs
      ∧ proxyInterface cfg s2 (s2.cms j).var (s2.cms j).typ (s2.cms j).ctx m k (cbOf kind i) = some s3
      ∧ s' = { s3 with mms := upd s3.mms i { (s2.mms i) with hasGuard := true, imp := (some k), canceled := false, when_ := (whenOf kind k) } } := by
  simp only [mockOn] at hs
  split at hs
  · cases hs
  split at hs
  · cases hs
  rename_i hne hmem
  have f2 := methodOf_facts s1 j m
  have hI2 := inv_methodOf cfg s1 j m hI1
  generalize hr2 : methodOf s1 j m = r2 at hs f2 hI2
  obtain ⟨i, s2⟩ := r2
  simp only at hs f2 hI2
  obtain ⟨g1, g2, g3, g4, g5, g6, g7, g8, g9, g10, g11, g12, g13, g14⟩ := f2
  have hmem' : hasMethod (s2.types (s2.cms j).typ) m = true := by
    rw [g9, g5]; simpa using hmem
  have hargs : ∀ cb, proxyInterface cfg s2 (s1.cms j).var (s1.cms j).typ (s1.cms j).ctx m k cb
      = proxyInterface cfg s2 (s2.cms j).var (s2.cms j).typ (s2.cms j).ctx m k cb := by intro cb; rw [g3, g4, g5]
  refine ⟨s2, ?_⟩
  cases kind with
  | ap =>
    simp only at hs
    split at hs
    · cases hs
    rename_i hfit
    cases hq : proxyInterface cfg s2 (s1.cms j).var (s1.cms j).typ (s1.cms j).ctx m k .clo with
    | none => simp [hq] at hs
    | some s3 =>
      simp only [hq, Option.map_some, Option.some.injEq, Prod.mk.injEq, and_true] at hs
      refine ⟨s3, i, hI2, by simpa using hfit, g1, g2, g3, g4, g5, hmem', g6, g7, g8, g9, g10, g11, ?_, ?_⟩
      · rw [← hargs]; exact hq
      · rw [← hs]; rfl
  | rt =>
    simp only at hs
    split at hs
    · cases hs
    split at hs
    · cases hs
    rename_i hfit
    cases hq : proxyInterface cfg s2 (s1.cms j).var (s1.cms j).typ (s1.cms j).ctx m k (.mk i) with
    | none => simp [hq] at hs
    | some s3 =>
      simp only [hq, Option.map_some, Option.some.injEq, Prod.mk.injEq, and_true] at hs
      refine ⟨s3, i, hI2, by simpa using hfit, g1, g2, g3, g4, g5, hmem', g6, g7, g8, g9, g10, g11, ?_, ?_⟩
      · rw [← hargs]; exact hq
      · rw [← hs]; rfl
  | wn a =>
    simp only at hs
    split at hs
    · cases hs
    split at hs
    · cases hs
    rename_i hfit
    cases hq : proxyInterface cfg s2 (s1.cms j).var (s1.cms j).typ (s1.cms j).ctx m k (.mk i) with
    | none => simp [hq] at hs
    | some s3 =>
      simp only [hq, Option.map_some, Option.some.injEq, Prod.mk.injEq, and_true] at hs
      refine ⟨s3, i, hI2, by simpa using hfit, g1, g2, g3, g4, g5, hmem', g6, g7, g8, g9, g10, g11, ?_, ?_⟩
      · rw [← hargs]; exact hq
      · rw [← hs]; rfl

/-- a `mockOn` that panics (unknown method, empty name, rejected signature) leaves every variable and every fake
    interface untouched — in particular no guard and no backup exist for a rejected `Apply` -/
theorem mockOn_panic (cfg : Cfg) (s1 s' : St) (j : Nat) (m : String) (kind : Kind) (fits : Bool) (k : Nat) (c : String)
    (hI1 : Inv cfg s1) (hs : mockOn cfg s1 j m kind fits k = some (s', .panic c)) :
    Inv cfg s' ∧ s'.vars = s1.vars ∧ s'.fakes = s1.fakes ∧ s'.ctxs = s1.ctxs
      ∧ (∀ i, (s'.mms i).hasGuard = true → i < s1.nmm ∧ (s1.mms i).hasGuard = true ∨ False ∨ (s'.mms i) = (s1.mms i)) := by
  simp only [mockOn] at hs
  split at hs
  · simp only [Option.some.injEq, Prod.mk.injEq] at hs; obtain ⟨h1, _⟩ := hs; subst h1
    exact ⟨hI1, rfl, rfl, rfl, fun i _ => Or.inr (Or.inr rfl)⟩
  split at hs
  · simp only [Option.some.injEq, Prod.mk.injEq] at hs; obtain ⟨h1, _⟩ := hs; subst h1
    exact ⟨hI1, rfl, rfl, rfl, fun i _ => Or.inr (Or.inr rfl)⟩
  have f2 := methodOf_facts s1 j m
  have hI2 := inv_methodOf cfg s1 j m hI1
  have hg := methodOf_guard s1 j m
  generalize hr2 : methodOf s1 j m = r2 at hs f2 hI2 hg
  obtain ⟨i, s2⟩ := r2
  simp only at hs f2 hI2 hg
  obtain ⟨g1, g2, g3, g4, g5, g6, g7, g8, g9, g10, g11, g12, g13, g14⟩ := f2
  have fin : ∀ s'' : St, s'' = s2 → Inv cfg s'' ∧ s''.vars = s1.vars ∧ s''.fakes = s1.fakes ∧ s''.ctxs = s1.ctxs
      ∧ (∀ i, (s''.mms i).hasGuard = true → i < s1.nmm ∧ (s1.mms i).hasGuard = true ∨ False ∨ (s''.mms i) = (s1.mms i)) := by
    intro s'' e; subst e
    refine ⟨hI2, g6, g7, g2, ?_⟩
    intro i' hi'
    rcases hg i' with h | h
    · exact Or.inr (Or.inr h)
    · rw [h] at hi'; cases hi'
  cases kind with
  | ap =>
    simp only at hs
    split at hs
    · simp only [Option.some.injEq, Prod.mk.injEq] at hs; exact fin s' hs.1.symm
    cases hq : proxyInterface cfg s2 (s1.cms j).var (s1.cms j).typ (s1.cms j).ctx m k .clo with
    | none => simp [hq] at hs
    | some s3 => simp [hq] at hs
  | rt =>
    simp only at hs
    split at hs
    · cases hs
    split at hs
    · simp only [Option.some.injEq, Prod.mk.injEq] at hs; exact fin s' hs.1.symm
    cases hq : proxyInterface cfg s2 (s1.cms j).var (s1.cms j).typ (s1.cms j).ctx m k (.mk i) with
    | none => simp [hq] at hs
    | some s3 => simp [hq] at hs
  | wn a =>
    simp only at hs
    split at hs
    · cases hs
    split at hs
    · simp only [Option.some.injEq, Prod.mk.injEq] at hs; exact fin s' hs.1.symm
    cases hq : proxyInterface cfg s2 (s1.cms j).var (s1.cms j).typ (s1.cms j).ctx m k (.mk i) with
    | none => simp [hq] at hs
    | some s3 => simp [hq] at hs

/-- decomposition of a successful `mockStep` (builder API) -/
theorem mockStep_ok (cfg : Cfg) (s s' : St) (b v : Nat) (m : String) (kind : Kind) (csig : Nat) (hI : Inv cfg s)
    (hs : mockStep cfg s b v m kind csig = some (s', .ok)) :
    ∃ s2 s3 j i, Inv cfg s2 ∧ j < s2.ncm ∧ (s2.ctxs (s2.cms j).ctx).canceled = false
      ∧ (cfg.keyByVar = true → (s2.cms j).var = v) ∧ hasMethod (s2.types (s2.cms j).typ) m = true
      ∧ s2.vars = s.vars ∧ s2.fakes = s.fakes ∧ s2.nfake = s.nfake ∧ s2.types = s.types ∧ s2.vtyp = s.vtyp ∧ s2.cbs = s.cbs
      ∧ proxyInterface cfg s2 (s2.cms j).var (s2.cms j).typ (s2.cms j).ctx m s.ncb (cbOf kind i) = some s3
      ∧ s' = { s3 with mms := upd s3.mms i { (s2.mms i) with hasGuard := true, imp := (some s.ncb), canceled := false, when_ := (whenOf kind s.ncb) } }
      ∧ sigFits s (s2.cms j).typ m csig = true := by
  have hI0 := inv_ncb cfg s (s.ncb + 1) hI
  have f1 := interfaceOf_facts cfg _ b v hI0
  have hI1 := inv_interfaceOf cfg _ b v hI0
  simp only [mockStep] at hs
  generalize hr1 : interfaceOf cfg { s with ncb := s.ncb + 1 } b v = r1 at hs f1 hI1
  obtain ⟨j, s1⟩ := r1
  simp only at hs f1 hI1
  obtain ⟨f1a, f1b, f1c, f1d, f1e, f1f, f1g, f1h, f1i, f1j⟩ := f1
  have hsg : s1.sigs = s.sigs := by have := interfaceOf_sigs cfg { s with ncb := s.ncb + 1 } b v; rw [hr1] at this; exact this
  obtain ⟨s2, s3, i, hI2, hfit, g1, g2, g3, g4, g5, hmem, g6, g7, g8, g9, g10, g11, hp, he⟩ := mockOn_ok cfg s1 s' j m kind _ s.ncb hI1 hs
  exact ⟨s2, s3, j, i, hI2, by omega, by rw [g2, g3]; exact f1b, by intro h; rw [g4]; exact f1c h, hmem,
    by rw [g6, f1d], by rw [g7, f1e], by rw [g8, f1f], by rw [g9, f1g], by rw [g10, f1h], by rw [g11, f1i], hp, he,
    by rw [g5]; simpa [sigFits, f1g, hsg] using hfit⟩

theorem mockStep_panic (cfg : Cfg) (s s' : St) (b v : Nat) (m : String) (kind : Kind) (csig : Nat) (c : String) (hI : Inv cfg s)
    (hs : mockStep cfg s b v m kind csig = some (s', .panic c)) :
    Inv cfg s' ∧ s'.vars = s.vars ∧ s'.fakes = s.fakes := by
  have hI0 := inv_ncb cfg s (s.ncb + 1) hI
  have f1 := interfaceOf_facts cfg _ b v hI0
  have hI1 := inv_interfaceOf cfg _ b v hI0
  simp only [mockStep] at hs
  generalize hr1 : interfaceOf cfg { s with ncb := s.ncb + 1 } b v = r1 at hs f1 hI1
  obtain ⟨j, s1⟩ := r1
  simp only at hs f1 hI1
  obtain ⟨f1a, f1b, f1c, f1d, f1e, f1f, f1g, f1h, f1i, f1j⟩ := f1
  obtain ⟨h1, h2, h3, _, _⟩ := mockOn_panic cfg s1 s' j m kind _ s.ncb c hI1 hs
  exact ⟨h1, by rw [h2, f1d], by rw [h3, f1e]⟩

theorem inv_mockStep (cfg : Cfg) (s s' : St) (b v : Nat) (m : String) (kind : Kind) (csig : Nat) (st : Status) (hI : Inv cfg s)
    (hs : mockStep cfg s b v m kind csig = some (s', st)) : Inv cfg s' := by
  cases st with
  | panic c => exact (mockStep_panic cfg s s' b v m kind csig c hI hs).1
  | ok =>
    obtain ⟨s2, s3, j, i, hI2, hj, hcn, _, _, _, _, _, _, _, _, hp, he, _⟩ := mockStep_ok cfg s s' b v m kind csig hI hs
    subst he
    exact inv_mms cfg _ _ _ (inv_proxyInterface cfg s2 s3 j m _ _ hI2 hj hcn hp)

/-- the test assigns a plain value to the variable -/
theorem inv_assign (cfg : Cfg) (s : St) (v x : Nat) (hI : Inv cfg s) : Inv cfg { s with vars := upd s.vars v (.val x) } := by
  obtain ⟨ha, hb, hc, hd, he, hf, hh, hl, hl', hm, ho, hp⟩ := hI
  simp only [bkey] at hh
  refine ⟨?_, ?_, ?_, ?_, ?_, ?_, ?_, ?_, ?_, ?_, ?_, ?_⟩ <;> simp only [bkey] <;> intros
  all_goals grind [upd]

theorem inv_cancelMStep (cfg : Cfg) (s s' : St) (b v : Nat) (m : String) (st : Status) (hI : Inv cfg s)
    (hs : cancelMStep cfg s b v m = some (s', st)) : Inv cfg s' := by
  have hI1 := inv_interfaceOf cfg s b v hI
  simp only [cancelMStep] at hs
  generalize interfaceOf cfg s b v = r1 at hs hI1
  obtain ⟨j, s1⟩ := r1
  simp only at hs hI1
  split at hs
  · simp only [Option.some.injEq, Prod.mk.injEq] at hs; obtain ⟨h1, _⟩ := hs; subst h1; exact hI1
  split at hs
  · simp only [Option.some.injEq, Prod.mk.injEq] at hs; obtain ⟨h1, _⟩ := hs; subst h1; exact hI1
  have hI2 := inv_methodOf cfg s1 j m hI1
  generalize methodOf s1 j m = r2 at hs hI2
  obtain ⟨i, s2⟩ := r2
  simp only at hs hI2
  cases hq : cancelMM s2 i with
  | none => simp [hq] at hs
  | some s3 =>
    simp only [hq, Option.map_some, Option.some.injEq, Prod.mk.injEq] at hs
    obtain ⟨h1, _⟩ := hs; subst h1
    exact inv_cancelMM cfg s2 s3 i hI2 hq

theorem inv_step (cfg : Cfg) (s s' : St) (op : Op) (st : Status) (hI : Inv cfg s) (hapi : op.builderApi = true)
    (hs : step cfg s op = some (s', st)) : Inv cfg s' := by
  cases op with
  | mock b v m kind csig => exact inv_mockStep cfg s s' b v m kind csig st hI hs
  | mockH b v m kind csig => simp [Op.builderApi] at hapi
  | assign v x =>
    simp only [step, Option.some.injEq, Prod.mk.injEq] at hs
    obtain ⟨h1, _⟩ := hs; subst h1
    exact inv_assign cfg s v x hI
  | cancelM b v m => exact inv_cancelMStep cfg s s' b v m st hI hs
  | reset b =>
    simp only [step, resetStep] at hs
    cases hq : cancelMMs s (mmsOf s b) with
    | none => simp [hq] at hs
    | some s1 =>
      simp only [hq, Option.map_some, Option.some.injEq, Prod.mk.injEq] at hs
      obtain ⟨h1, _⟩ := hs; subst h1
      exact inv_cancelMMs cfg _ s s1 hI hq
  | drop b =>
    simp only [step, Option.some.injEq, Prod.mk.injEq] at hs
    obtain ⟨h1, _⟩ := hs; subst h1
    exact inv_drop cfg s b hI

theorem inv_run (cfg : Cfg) (ops : List Op) : ∀ (s s' : St), Inv cfg s → (∀ op ∈ ops, op.builderApi = true) →
    run cfg s ops = some s' → Inv cfg s' := by
  induction ops with
  | nil => intro s s' hI _ hs; simp only [run, Option.some.injEq] at hs; subst hs; exact hI
  | cons op r ih =>
    intro s s' hI hapi hs
    simp only [run] at hs
    cases hq : step cfg s op with
    | none => simp [hq] at hs
    | some p =>
      obtain ⟨s1, st⟩ := p
      simp only [hq, Option.bind_some] at hs
      exact ih s1 s' (inv_step cfg s s1 op st hI (hapi op List.mem_cons_self) hq)
        (fun o ho => hapi o (List.mem_cons_of_mem _ ho)) hs

theorem lookup_mem {κ : Type} [DecidableEq κ] (k : κ) (v : Nat) (l : List (κ × Nat)) (h : lookup k l = some v) : (k, v) ∈ l := by
  induction l with
  | nil => cases h
  | cons p r ih =>
    obtain ⟨a, b⟩ := p
    simp only [lookup] at h
    split at h
    · rename_i e; cases h; subst e; exact List.mem_cons_self
    · exact List.mem_cons_of_mem _ (ih h)

/-- the retention theorem on states satisfying the invariant -/
theorem needed_reachable (cfg : Cfg) (s : St) (hr : cfg.retainAll = true) (hI : Inv cfg s) (v : Nat) :
    ∀ n ∈ needed s v, Reach s (.var v) n := by
  intro n hn
  unfold needed at hn
  cases hw : s.vars v with
  | val x => simp [hw] at hn
  | fake f c =>
    simp only [hw] at hn
    obtain ⟨hc, hlk⟩ := hI.a v f c hw
    obtain ⟨hf, hdat⟩ := hI.b c _ f hlk
    have r1 : Reach s (.var v) (.ctx c) := Reach.tail (Reach.refl _) (by simp [succs, hw])
    rcases List.mem_cons.mp hn with h1 | h2
    · subst h1
      refine Reach.tail r1 ?_
      simp only [succs, List.mem_append, List.mem_map]
      exact Or.inl (Or.inl (Or.inl ⟨(s.vtyp v, f), lookup_mem _ _ _ hlk, rfl⟩))
    · obtain ⟨i, _, hi⟩ := List.mem_filterMap.mp h2
      cases hfn : (s.fakes f).fn i with
      | notImpl => simp [hfn] at hi
      | stub k =>
        simp only [hfn, Option.some.injEq] at hi
        subst hi
        have hk := hI.d hr f i k hf hfn
        rw [hdat] at hk
        refine Reach.tail r1 ?_
        simp only [succs, List.mem_append, List.mem_map]
        exact Or.inl (Or.inr ⟨k, hk, rfl⟩)


/-- what `proxy.Interface` writes (context not canceled): the variable gets fake iface `f` of context `c`, whose table is
    `g` with slot `idx` replaced, where `g` is the all-`notImplement` table of a fresh itab (first mock in the context)
    or the previous table of the same cached fake iface -/
theorem proxyInterface_out (cfg : Cfg) (s s' : St) (v t c : Nat) (m : String) (k : Nat) (cb : Cb)
    (hcn : (s.ctxs c).canceled = false) (hs : proxyInterface cfg s v t c m k cb = some s') :
    ∃ f g, s'.vars = upd s.vars v (.fake f c)
      ∧ s'.fakes = upd s.fakes f { data := c, fn := upd g (methodIndexOf (s.types t) m) (.stub k) }
      ∧ ((f = s.nfake ∧ g = (fun _ => Slot.notImpl) ∧ lookup t (s.ctxs c).cache = none)
          ∨ (lookup t (s.ctxs c).cache = some f ∧ g = (s.fakes f).fn))
      ∧ s'.cbs = upd s.cbs k cb ∧ s'.types = s.types ∧ s'.vtyp = s.vtyp ∧ s'.mms = s.mms := by
  simp only [proxyInterface] at hs
  split at hs
  · cases hs
  · split at hs
    · rename_i f hlk hcan
      cases hs
      exact ⟨f, (s.fakes f).fn, rfl, rfl, Or.inr ⟨hlk, rfl⟩, rfl, rfl, rfl, rfl⟩
    · rename_i hnot
      cases hs
      have hnone : lookup t (s.ctxs c).cache = none := by
        cases hq : lookup t (s.ctxs c).cache with
        | none => rfl
        | some f => exact absurd hcn (hnot f hq)
      exact ⟨s.nfake, _, rfl, rfl, Or.inl ⟨rfl, rfl, hnone⟩, rfl, rfl, rfl, rfl⟩

/-- independence at one mock step: mocking variable `v` leaves every other variable's two words and the function table
    they dispatch through untouched -/
theorem mock_other_vars (cfg : Cfg) (hk : cfg.keyByVar = true) (s s' : St) (b v : Nat) (m : String) (kind : Kind) (csig : Nat)
    (st : Status) (hI : Inv cfg s) (hs : mockStep cfg s b v m kind csig = some (s', st)) (w : Nat) (hw : w ≠ v) :
    s'.vars w = s.vars w ∧ ∀ f c, s.vars w = .fake f c → s'.fakes f = s.fakes f := by
  cases st with
  | panic c =>
    obtain ⟨_, h1, h2⟩ := mockStep_panic cfg s s' b v m kind csig c hI hs
    exact ⟨by rw [h1], fun f c _ => by rw [h2]⟩
  | ok =>
    obtain ⟨s2, s3, j, i, hI2, hj, hcn, hvar, hmem, e1, e2, e3, e4, e5, e6, hp, he, hfit⟩ := mockStep_ok cfg s s' b v m kind csig hI hs
    obtain ⟨f, g, o1, o2, o3, o4, o5, o6, o7⟩ := proxyInterface_out cfg s2 s3 _ _ _ m _ _ hcn hp
    have hv := hvar hk
    subst he
    simp only
    rw [o1, o2, hv, e1, e2]
    refine ⟨upd_other _ _ _ _ hw, ?_⟩
    intro fw cw hfw
    have hfw2 : s2.vars w = .fake fw cw := by rw [e1]; exact hfw
    obtain ⟨hcw, hlw⟩ := hI2.a w fw cw hfw2
    obtain ⟨hfwn, hdw⟩ := hI2.b cw _ fw hlw
    have hne : fw ≠ f := by
      intro e
      subst e
      rcases o3 with ⟨h1, _, _⟩ | ⟨h1, _⟩
      · omega
      · obtain ⟨_, hd2⟩ := hI2.b _ _ fw h1
        have hc : cw = (s2.cms j).ctx := by rw [← hdw, hd2]
        obtain ⟨x, hx⟩ := hI2.l w fw cw hfw2
        rw [hc] at hx
        have := hI2.m j hj w x hx
        exact hw (by rw [this, hv])
    exact upd_other _ _ _ _ hne


theorem methodIndexOf_eq_idxOf (ms : List String) (m : String) (h : m ∈ ms) (hns : NoShadow ms m) :
    methodIndexOf ms m = ms.idxOf m := by
  simp [methodIndexOf, methodIndexFrom_idxOf ms m 0 h hns]

/-- the structural effect of a successful mock of method `m` of variable `v` (repaired key): the variable holds a fake
    iface whose table is `g` with the slot *at the position of `m` in the method set* pointing at the new callback -/
theorem mock_dispatch (cfg : Cfg) (hk : cfg.keyByVar = true) (s s' : St) (b v : Nat) (m : String) (kind : Kind) (csig : Nat)
    (hI : Inv cfg s) (hns : NoShadow (s.types (s.vtyp v)) m) (hs : mockStep cfg s b v m kind csig = some (s', .ok)) :
    ∃ f c g i, s'.vars v = .fake f c ∧ s'.types = s.types ∧ s'.vtyp = s.vtyp ∧ m ∈ s.types (s.vtyp v)
      ∧ (s'.fakes f).fn = upd g ((s.types (s.vtyp v)).idxOf m) (.stub s.ncb)
      ∧ ((f = s.nfake ∧ g = fun _ => Slot.notImpl) ∨ (f < s.nfake ∧ g = (s.fakes f).fn))
      ∧ s'.cbs s.ncb = cbOf kind i ∧ (s'.mms i).when_ = whenOf kind s.ncb ∧ sigFits s (s.vtyp v) m csig = true := by
  obtain ⟨s2, s3, j, i, hI2, hj, hcn, hvar, hmem, e1, e2, e3, e4, e5, e6, hp, he, hfit⟩ := mockStep_ok cfg s s' b v m kind csig hI hs
  obtain ⟨f, g, o1, o2, o3, o4, o5, o6, o7⟩ := proxyInterface_out cfg s2 s3 _ _ _ m _ _ hcn hp
  have hv := hvar hk
  have htyp : (s2.cms j).typ = s.vtyp v := by rw [(hI2.e j hj).2, hv, e5]
  rw [htyp, e4] at hmem
  rw [htyp] at hfit
  have hmem := hasMethod_mem _ _ hmem hns
  subst he
  refine ⟨f, (s2.cms j).ctx, g, i, ?_, ?_, ?_, hmem, ?_, ?_, ?_, ?_, ?_⟩
  · simp only; rw [o1, hv]; exact upd_same _ _ _
  · simp only; rw [o5, e4]
  · simp only; rw [o6, e5]
  · simp only; rw [o2, upd_same, htyp, e4, methodIndexOf_eq_idxOf _ _ hmem hns]
  · rcases o3 with ⟨h1, h2, _⟩ | ⟨h1, h2⟩
    · exact Or.inl ⟨by rw [h1, e3], h2⟩
    · exact Or.inr ⟨by rw [← e3]; exact (hI2.b _ _ _ h1).1, by rw [h2, e2]⟩
  · simp only; rw [o4]; exact upd_same _ _ _
  · simp only [upd_same]
  · exact hfit


theorem upd_upd {α : Type} (f : Nat → α) (i : Nat) (x : α) : upd (upd f i x) i x = upd f i x := by
  funext j; by_cases h : j = i <;> simp [upd, h]

theorem cancelMM_single (s s' : St) (i c v : Nat) (w : Words) (hc : (s.mms i).ctx = c)
    (hb : (s.ctxs c).backup = some (v, w)) (hs : cancelMM s i = some s') :
    (s'.ctxs c).backup = some (v, w) ∧ (∀ i', (s'.mms i').ctx = (s.mms i').ctx ∧ (s'.mms i').hasGuard = (s.mms i').hasGuard)
    ∧ s'.vars = (if (s.mms i).hasGuard then upd s.vars v w else s.vars)
    ∧ ((s.mms i).hasGuard = true → (s'.ctxs c).canceled = true) ∧ ((s.ctxs c).canceled = true → (s'.ctxs c).canceled = true) := by
  simp only [cancelMM, cancelCtx, hc, hb] at hs
  by_cases hg : (s.mms i).hasGuard = true
  · simp only [hg, if_true, Option.map_some, Option.some.injEq] at hs
    subst hs
    refine ⟨by simp, ?_, by simp [hg], by simp, by simp⟩
    intro i'
    by_cases e : i' = i
    · subst e; simp [hc, hg]
    · simp [upd_other _ _ _ _ e]
  · simp only [hg, Bool.false_eq_true, if_false, Option.map_some, Option.some.injEq] at hs
    subst hs
    refine ⟨hb, ?_, by simp [hg], by intro h; exact absurd h hg, fun h => h⟩
    intro i'
    by_cases e : i' = i
    · subst e; simp [hc]; simpa using hg
    · simp [upd_other _ _ _ _ e]

theorem cancelMMs_single (c v : Nat) (w : Words) (l : List Nat) : ∀ (s s' : St), (∀ i ∈ l, (s.mms i).ctx = c) →
    (s.ctxs c).backup = some (v, w) → cancelMMs s l = some s' →
    s'.vars = (if l.any (fun i => (s.mms i).hasGuard) then upd s.vars v w else s.vars)
    ∧ (l.any (fun i => (s.mms i).hasGuard) = true → (s'.ctxs c).canceled = true)
    ∧ ((s.ctxs c).canceled = true → (s'.ctxs c).canceled = true) := by
  induction l with
  | nil => intro s s' _ _ hs; simp only [cancelMMs, Option.some.injEq] at hs; subst hs; simp
  | cons i r ih =>
    intro s s' hc hb hs
    simp only [cancelMMs] at hs
    cases hq : cancelMM s i with
    | none => simp [hq] at hs
    | some s1 =>
      simp only [hq, Option.bind_some] at hs
      obtain ⟨h1, h2, h3, h4, h5⟩ := cancelMM_single s s1 i c v w (hc i List.mem_cons_self) hb hq
      have hc1 : ∀ i' ∈ r, (s1.mms i').ctx = c := fun i' hi' => by rw [(h2 i').1]; exact hc i' (List.mem_cons_of_mem _ hi')
      obtain ⟨g1, g2, g3⟩ := ih s1 s' hc1 h1 hs
      have hany : r.any (fun i => (s1.mms i).hasGuard) = r.any (fun i => (s.mms i).hasGuard) := by
        congr 1; funext i'; exact (h2 i').2
      rw [hany] at g1 g2
      simp only [List.any_cons]
      by_cases hg : (s.mms i).hasGuard = true
      · simp only [hg, if_true, Bool.true_or] at h3 ⊢
        refine ⟨?_, fun _ => g3 (h4 hg), fun hx => g3 (h5 hx)⟩
        rw [g1, h3]
        split
        · exact upd_upd _ _ _
        · rfl
      · have hg' : (s.mms i).hasGuard = false := by simpa using hg
        simp only [hg', Bool.false_eq_true, if_false, Bool.false_or] at h3 ⊢
        rw [h3] at g1
        exact ⟨g1, g2, fun hx => g3 (h5 hx)⟩

theorem mem_insertKV {κ : Type} [DecidableEq κ] (k : κ) (v : Nat) (l : List (κ × Nat)) (p : κ × Nat) :
    p ∈ insertKV k v l ↔ p = (k, v) ∨ (p ∈ l ∧ p.1 ≠ k) := by
  simp [insertKV, List.mem_filter]

/-- second invariant of reachable states: guards imply a backup, method mockers belong to their cached mocker's
    context, the builder's interface table has one entry per key and the key names the entry's variable -/
structure Inv2 (cfg : Cfg) (s : St) : Prop where
  g : ∀ i, (s.mms i).hasGuard = true → (s.mms i).ctx < s.nctx ∧ ∃ x, (s.ctxs (s.mms i).ctx).backup = some x
  r : ∀ j, j < s.ncm → ∀ p ∈ (s.cms j).meths, p.2 < s.nmm ∧ (s.mms p.2).ctx = (s.cms j).ctx
  f : ∀ b, ∀ p ∈ (s.blds b).mockers, p.2 < s.ncm
  k : cfg.keyByVar = true → ∀ b, ∀ p ∈ (s.blds b).mockers, p.1 = (s.vtyp (s.cms p.2).var, (s.cms p.2).var + 1)
  n : ∀ b p p', p ∈ (s.blds b).mockers → p' ∈ (s.blds b).mockers → p.1 = p'.1 → p = p'

theorem inv2_init (cfg : Cfg) (types : Nat → List String) (vtyp : Nat → Nat) (vars : Nat → Words) (sigs : Nat → List Nat) :
    Inv2 cfg (St.init types vtyp vars sigs) := by
  refine ⟨?_, ?_, ?_, ?_, ?_⟩ <;> simp [St.init]

theorem inv2_ncb (cfg : Cfg) (s : St) (n : Nat) (h : Inv2 cfg s) : Inv2 cfg { s with ncb := n } :=
  ⟨h.g, h.r, h.f, h.k, h.n⟩

theorem inv2_freshCM (cfg : Cfg) (s : St) (b v : Nat) (h : Inv2 cfg s) : Inv2 cfg (freshCM cfg s b v).2 := by
  obtain ⟨hg, hr, hf, hk, hn⟩ := h
  refine ⟨?_, ?_, ?_, ?_, ?_⟩ <;> simp only [freshCM, bkey] <;> intros
  all_goals grind [upd, mem_insertKV]

theorem inv2_interfaceOf (cfg : Cfg) (s : St) (b v : Nat) (h : Inv2 cfg s) : Inv2 cfg (interfaceOf cfg s b v).2 := by
  unfold interfaceOf
  split
  · split
    · exact inv2_freshCM cfg s b v h
    · exact h
  · exact inv2_freshCM cfg s b v h

theorem inv2_freshMM (cfg : Cfg) (s : St) (j : Nat) (m : String) (hj : j < s.ncm) (h : Inv2 cfg s) :
    Inv2 cfg (freshMM s j m).2 := by
  obtain ⟨hg, hr, hf, hk, hn⟩ := h
  refine ⟨?_, ?_, ?_, ?_, ?_⟩ <;> simp only [freshMM] <;> intros
  all_goals grind [upd, mem_insertKV]

theorem inv2_methodOf (cfg : Cfg) (s : St) (j : Nat) (m : String) (hj : j < s.ncm) (h : Inv2 cfg s) :
    Inv2 cfg (methodOf s j m).2 := by
  unfold methodOf
  split
  · split
    · exact inv2_freshMM cfg s j m hj h
    · exact h
  · exact inv2_freshMM cfg s j m hj h

/-- the method mocker `Method(name)` returns belongs to the cached mocker's context -/
theorem methodOf_ctx (cfg : Cfg) (s : St) (j : Nat) (m : String) (hj : j < s.ncm) (h : Inv2 cfg s) :
    ((methodOf s j m).2.mms (methodOf s j m).1).ctx = (s.cms j).ctx := by
  unfold methodOf
  split
  · rename_i i hl
    split
    · simp [freshMM]
    · exact (h.r j hj _ (lookup_mem _ _ _ hl)).2
  · simp [freshMM]


theorem inv2_proxyInterface (cfg : Cfg) (s s' : St) (v t c : Nat) (m : String) (k : Nat) (cb : Cb) (h : Inv2 cfg s)
    (hs : proxyInterface cfg s v t c m k cb = some s') :
    Inv2 cfg s' ∧ s'.mms = s.mms ∧ s'.nctx = s.nctx ∧ (∃ x, (s'.ctxs c).backup = some x) := by
  obtain ⟨hg, hr, hf, hk, hn⟩ := h
  simp only [proxyInterface] at hs
  split at hs
  · cases hs
  · split at hs
    · cases hs
      refine ⟨⟨?_, ?_, ?_, ?_, ?_⟩, rfl, rfl, ?b⟩
      case b => simp only [upd_same]; cases (s.ctxs c).backup <;> exact ⟨_, rfl⟩
      all_goals simp only [] <;> intros
      all_goals grind [upd]
    · cases hs
      refine ⟨⟨?_, ?_, ?_, ?_, ?_⟩, rfl, rfl, ?b⟩
      case b => simp only [upd_same]; cases (s.ctxs c).backup <;> exact ⟨_, rfl⟩
      all_goals simp only [] <;> intros
      all_goals grind [upd]

/-- the method mocker's fields after a successful apply -/
theorem inv2_guard (cfg : Cfg) (s : St) (i : Nat) (mm' : MM) (h : Inv2 cfg s) (hc : mm'.ctx = (s.mms i).ctx)
    (hlt : (s.mms i).ctx < s.nctx) (hb : ∃ x, (s.ctxs (s.mms i).ctx).backup = some x) :
    Inv2 cfg { s with mms := upd s.mms i mm' } := by
  obtain ⟨hg, hr, hf, hk, hn⟩ := h
  refine ⟨?_, ?_, ?_, ?_, ?_⟩ <;> simp only [] <;> intros
  all_goals grind [upd]

theorem inv2_cancelCtx (cfg : Cfg) (s s' : St) (c : Nat) (h : Inv2 cfg s) (hs : cancelCtx s c = some s') : Inv2 cfg s' := by
  obtain ⟨hg, hr, hf, hk, hn⟩ := h
  simp only [cancelCtx] at hs
  split at hs
  · cases hs
    refine ⟨?_, ?_, ?_, ?_, ?_⟩ <;> simp only [] <;> intros
    all_goals grind [upd]
  · cases hs

/-- changing fields other than `ctx` / `hasGuard` of a method mocker -/
theorem inv2_mmfields (cfg : Cfg) (s : St) (i : Nat) (mm' : MM) (h : Inv2 cfg s) (hc : mm'.ctx = (s.mms i).ctx)
    (hgd : mm'.hasGuard = (s.mms i).hasGuard) : Inv2 cfg { s with mms := upd s.mms i mm' } := by
  obtain ⟨hg, hr, hf, hk, hn⟩ := h
  refine ⟨?_, ?_, ?_, ?_, ?_⟩ <;> simp only [] <;> intros
  all_goals grind [upd]

theorem inv2_cancelMM (cfg : Cfg) (s s' : St) (i : Nat) (h : Inv2 cfg s) (hs : cancelMM s i = some s') : Inv2 cfg s' := by
  simp only [cancelMM] at hs
  split at hs
  · cases hq : cancelCtx s (s.mms i).ctx with
    | none => simp [hq] at hs
    | some s1 =>
      simp only [hq, Option.map_some, Option.some.injEq] at hs
      subst hs
      have h1 := inv2_cancelCtx cfg s s1 _ h hq
      have e : s1.mms = s.mms := by
        simp only [cancelCtx] at hq
        split at hq
        · cases hq; rfl
        · cases hq
      exact inv2_mmfields cfg s1 i _ h1 (by rw [e]) (by rw [e])
  · simp only [Option.map_some, Option.some.injEq] at hs
    subst hs
    exact inv2_mmfields cfg s i _ h rfl rfl

theorem inv2_cancelMMs (cfg : Cfg) (l : List Nat) : ∀ (s s' : St), Inv2 cfg s → cancelMMs s l = some s' → Inv2 cfg s' := by
  induction l with
  | nil => intro s s' hI hs; simp only [cancelMMs, Option.some.injEq] at hs; subst hs; exact hI
  | cons i r ih =>
    intro s s' hI hs
    simp only [cancelMMs] at hs
    cases hq : cancelMM s i with
    | none => simp [hq] at hs
    | some s1 =>
      simp only [hq, Option.bind_some] at hs
      exact ih s1 s' (inv2_cancelMM cfg s s1 i hI hq) hs

theorem inv2_drop (cfg : Cfg) (s : St) (b : Nat) (h : Inv2 cfg s) :
    Inv2 cfg { s with blds := upd s.blds b { s.blds b with alive := false } } := by
  obtain ⟨hg, hr, hf, hk, hn⟩ := h
  refine ⟨?_, ?_, ?_, ?_, ?_⟩ <;> simp only [] <;> intros
  all_goals grind [upd]


theorem inv2_mockOn (cfg : Cfg) (s1 s' : St) (j : Nat) (m : String) (kind : Kind) (fits : Bool) (k : Nat) (st : Status)
    (hI : Inv cfg s1) (h2 : Inv2 cfg s1) (hj : j < s1.ncm) (hs : mockOn cfg s1 j m kind fits k = some (s', st)) :
    Inv2 cfg s' := by
  simp only [mockOn] at hs
  split at hs
  · simp only [Option.some.injEq, Prod.mk.injEq] at hs; obtain ⟨e, _⟩ := hs; subst e; exact h2
  split at hs
  · simp only [Option.some.injEq, Prod.mk.injEq] at hs; obtain ⟨e, _⟩ := hs; subst e; exact h2
  have f2 := methodOf_facts s1 j m
  have hm2 := inv2_methodOf cfg s1 j m hj h2
  have hcx := methodOf_ctx cfg s1 j m hj h2
  generalize methodOf s1 j m = r2 at hs f2 hm2 hcx
  obtain ⟨i, s2⟩ := r2
  simp only at hs f2 hm2 hcx
  obtain ⟨g1, g2, g3, g4, g5, g6, g7, g8, g9, g10, g11, g12, g13, g14⟩ := f2
  have hlt : (s1.cms j).ctx < s1.nctx := (hI.e j hj).1
  have fin : ∀ (cb : Cb) (s3 : St) (mm' : MM), proxyInterface cfg s2 (s1.cms j).var (s1.cms j).typ (s1.cms j).ctx m k cb = some s3 →
      mm'.ctx = (s2.mms i).ctx → Inv2 cfg { s3 with mms := upd s3.mms i mm' } := by
    intro cb s3 mm' hq hc
    obtain ⟨q1, q2, q3, q4⟩ := inv2_proxyInterface cfg s2 s3 _ _ _ m k cb hm2 hq
    have e1 : (s3.mms i).ctx = (s1.cms j).ctx := by rw [q2, hcx]
    exact inv2_guard cfg s3 i mm' q1 (by rw [hc, q2]) (by rw [e1, q3, g13]; exact hlt) (by rw [e1]; exact q4)
  cases kind with
  | ap =>
    simp only at hs
    split at hs
    · simp only [Option.some.injEq, Prod.mk.injEq] at hs; obtain ⟨e, _⟩ := hs; subst e; exact hm2
    cases hq : proxyInterface cfg s2 (s1.cms j).var (s1.cms j).typ (s1.cms j).ctx m k .clo with
    | none => simp [hq] at hs
    | some s3 =>
      simp only [hq, Option.map_some, Option.some.injEq, Prod.mk.injEq] at hs
      obtain ⟨e, _⟩ := hs; subst e
      exact fin _ s3 _ hq rfl
  | rt =>
    simp only at hs
    split at hs
    · cases hs
    split at hs
    · simp only [Option.some.injEq, Prod.mk.injEq] at hs; obtain ⟨e, _⟩ := hs; subst e; exact hm2
    cases hq : proxyInterface cfg s2 (s1.cms j).var (s1.cms j).typ (s1.cms j).ctx m k (.mk i) with
    | none => simp [hq] at hs
    | some s3 =>
      simp only [hq, Option.map_some, Option.some.injEq, Prod.mk.injEq] at hs
      obtain ⟨e, _⟩ := hs; subst e
      exact fin _ s3 _ hq rfl
  | wn a =>
    simp only at hs
    split at hs
    · cases hs
    split at hs
    · simp only [Option.some.injEq, Prod.mk.injEq] at hs; obtain ⟨e, _⟩ := hs; subst e; exact hm2
    cases hq : proxyInterface cfg s2 (s1.cms j).var (s1.cms j).typ (s1.cms j).ctx m k (.mk i) with
    | none => simp [hq] at hs
    | some s3 =>
      simp only [hq, Option.map_some, Option.some.injEq, Prod.mk.injEq] at hs
      obtain ⟨e, _⟩ := hs; subst e
      exact fin _ s3 _ hq rfl

theorem inv2_step (cfg : Cfg) (s s' : St) (op : Op) (st : Status) (hI : Inv cfg s) (h2 : Inv2 cfg s)
    (hapi : op.builderApi = true) (hs : step cfg s op = some (s', st)) : Inv2 cfg s' := by
  cases op with
  | mock b v m kind csig =>
    simp only [step, mockStep] at hs
    have hI0 := inv_ncb cfg s (s.ncb + 1) hI
    have f1 := interfaceOf_facts cfg _ b v hI0
    have hI1 := inv_interfaceOf cfg _ b v hI0
    have h21 := inv2_interfaceOf cfg _ b v (inv2_ncb cfg s (s.ncb + 1) h2)
    generalize interfaceOf cfg { s with ncb := s.ncb + 1 } b v = r1 at hs f1 hI1 h21
    obtain ⟨j, s1⟩ := r1
    exact inv2_mockOn cfg s1 s' j m kind _ _ st hI1 h21 f1.1 hs
  | mockH b v m kind csig => simp [Op.builderApi] at hapi
  | assign v x =>
    simp only [step, Option.some.injEq, Prod.mk.injEq] at hs
    obtain ⟨e, _⟩ := hs; subst e
    exact ⟨h2.g, h2.r, h2.f, h2.k, h2.n⟩
  | cancelM b v m =>
    simp only [step, cancelMStep] at hs
    have f1 := interfaceOf_facts cfg s b v hI
    have h21 := inv2_interfaceOf cfg s b v h2
    generalize interfaceOf cfg s b v = r1 at hs f1 h21
    obtain ⟨j, s1⟩ := r1
    simp only at hs f1 h21
    split at hs
    · simp only [Option.some.injEq, Prod.mk.injEq] at hs; obtain ⟨e, _⟩ := hs; subst e; exact h21
    split at hs
    · simp only [Option.some.injEq, Prod.mk.injEq] at hs; obtain ⟨e, _⟩ := hs; subst e; exact h21
    have hm2 := inv2_methodOf cfg s1 j m f1.1 h21
    generalize methodOf s1 j m = r2 at hs hm2
    obtain ⟨i, s2⟩ := r2
    simp only at hs hm2
    cases hq : cancelMM s2 i with
    | none => simp [hq] at hs
    | some s3 =>
      simp only [hq, Option.map_some, Option.some.injEq, Prod.mk.injEq] at hs
      obtain ⟨e, _⟩ := hs; subst e
      exact inv2_cancelMM cfg s2 s3 i hm2 hq
  | reset b =>
    simp only [step, resetStep] at hs
    cases hq : cancelMMs s (mmsOf s b) with
    | none => simp [hq] at hs
    | some s1 =>
      simp only [hq, Option.map_some, Option.some.injEq, Prod.mk.injEq] at hs
      obtain ⟨e, _⟩ := hs; subst e
      exact inv2_cancelMMs cfg _ s s1 h2 hq
  | drop b =>
    simp only [step, Option.some.injEq, Prod.mk.injEq] at hs
    obtain ⟨e, _⟩ := hs; subst e
    exact inv2_drop cfg s b h2

theorem inv2_run (cfg : Cfg) (ops : List Op) : ∀ (s s' : St), Inv cfg s → Inv2 cfg s → (∀ op ∈ ops, op.builderApi = true) →
    run cfg s ops = some s' → Inv2 cfg s' := by
  induction ops with
  | nil => intro s s' _ h2 _ hs; simp only [run, Option.some.injEq] at hs; subst hs; exact h2
  | cons op r ih =>
    intro s s' hI h2 hapi hs
    simp only [run] at hs
    cases hq : step cfg s op with
    | none => simp [hq] at hs
    | some p =>
      obtain ⟨s1, st⟩ := p
      simp only [hq, Option.bind_some] at hs
      have ha := hapi op List.mem_cons_self
      exact ih s1 s' (inv_step cfg s s1 op st hI ha hq) (inv2_step cfg s s1 op st hI h2 ha hq)
        (fun o ho => hapi o (List.mem_cons_of_mem _ ho)) hs

theorem cancelMM_gen (s s' : St) (i : Nat) (hs : cancelMM s i = some s') :
    (∀ c, (s'.ctxs c).backup = (s.ctxs c).backup)
    ∧ (∀ i', (s'.mms i').ctx = (s.mms i').ctx ∧ (s'.mms i').hasGuard = (s.mms i').hasGuard)
    ∧ (∀ c, (s.ctxs c).canceled = true → (s'.ctxs c).canceled = true)
    ∧ ((s.mms i).hasGuard = false → s'.vars = s.vars)
    ∧ ((s.mms i).hasGuard = true → ∃ v w, (s.ctxs (s.mms i).ctx).backup = some (v, w) ∧ s'.vars = upd s.vars v w
          ∧ (s'.ctxs (s.mms i).ctx).canceled = true) := by
  simp only [cancelMM, cancelCtx] at hs
  by_cases hg : (s.mms i).hasGuard = true
  · simp only [hg, if_true] at hs
    cases hb : (s.ctxs (s.mms i).ctx).backup with
    | none => simp [hb] at hs
    | some bk =>
      obtain ⟨v, w⟩ := bk
      simp only [hb, Option.map_some, Option.some.injEq] at hs
      subst hs
      refine ⟨?_, ?_, ?_, ?_, ?_⟩
      · intro c
        by_cases h : c = (s.mms i).ctx
        · subst h; simp [hb]
        · simp [upd_other _ _ _ _ h]
      · intro i'
        by_cases h : i' = i
        · subst h; simp [hg]
        · simp [upd_other _ _ _ _ h]
      · intro c hc
        by_cases h : c = (s.mms i).ctx
        · subst h; simp
        · simp [upd_other _ _ _ _ h, hc]
      · intro h; rw [hg] at h; cases h
      · intro _; exact ⟨v, w, rfl, rfl, by simp⟩
  · have hg' : (s.mms i).hasGuard = false := by simpa using hg
    simp only [hg', Bool.false_eq_true, if_false, Option.map_some, Option.some.injEq] at hs
    subst hs
    refine ⟨fun _ => rfl, ?_, fun _ h => h, fun _ => rfl, fun h => by rw [hg'] at h; cases h⟩
    intro i'
    by_cases h : i' = i
    · subst h; simp [hg']
    · simp [upd_other _ _ _ _ h]

theorem cancelMM_total (s : St) (i : Nat) (h : (s.mms i).hasGuard = true → ∃ x, (s.ctxs (s.mms i).ctx).backup = some x) :
    ∃ s', cancelMM s i = some s' := by
  simp only [cancelMM, cancelCtx]
  by_cases hg : (s.mms i).hasGuard = true
  · obtain ⟨⟨v, w⟩, hx⟩ := h hg
    simp [hg, hx]
  · simp [hg]

/-- guarded member of `l` whose context saved variable `u` -/
def Binds (s : St) (l : List Nat) (u : Nat) (w : Words) : Prop :=
  ∃ i ∈ l, (s.mms i).hasGuard = true ∧ (s.ctxs (s.mms i).ctx).backup = some (u, w)

/-- `Builder.Reset` over any list of method mockers, in any order: it cannot fail when every guard has a backup; a variable
    no guarded member saved is unchanged; a variable saved by guarded members that agree on the saved words holds them;
    the context of every guarded member is canceled. -/
theorem cancelMMs_gen (l : List Nat) : ∀ (s : St),
    (∀ i ∈ l, (s.mms i).hasGuard = true → ∃ x, (s.ctxs (s.mms i).ctx).backup = some x) →
    ∃ s', cancelMMs s l = some s'
      ∧ (∀ c, (s'.ctxs c).backup = (s.ctxs c).backup)
      ∧ (∀ i', (s'.mms i').ctx = (s.mms i').ctx ∧ (s'.mms i').hasGuard = (s.mms i').hasGuard)
      ∧ (∀ c, (s.ctxs c).canceled = true → (s'.ctxs c).canceled = true)
      ∧ (∀ u, (¬ ∃ w, Binds s l u w) → s'.vars u = s.vars u)
      ∧ (∀ u w, Binds s l u w → (∀ w', Binds s l u w' → w' = w) → s'.vars u = w)
      ∧ (∀ i ∈ l, (s.mms i).hasGuard = true → (s'.ctxs (s.mms i).ctx).canceled = true) := by
  induction l with
  | nil =>
    intro s _
    refine ⟨s, rfl, fun _ => rfl, fun _ => ⟨rfl, rfl⟩, fun _ h => h, fun _ _ => rfl, ?_, ?_⟩
    · intro u w ⟨i, hi, _⟩; cases hi
    · intro i hi; cases hi
  | cons i0 r ih =>
    intro s hG
    obtain ⟨s1, h1⟩ := cancelMM_total s i0 (hG i0 List.mem_cons_self)
    obtain ⟨a1, a2, a3, a4, a5⟩ := cancelMM_gen s s1 i0 h1
    have hG1 : ∀ i ∈ r, (s1.mms i).hasGuard = true → ∃ x, (s1.ctxs (s1.mms i).ctx).backup = some x := by
      intro i hi hg
      rw [(a2 i).2] at hg
      rw [(a2 i).1, a1]
      exact hG i (List.mem_cons_of_mem _ hi) hg
    obtain ⟨s', b0, b1, b2, b3, b4, b5, b6⟩ := ih s1 hG1
    have bindsEq : ∀ u w, Binds s1 r u w ↔ Binds s r u w := by
      intro u w
      constructor
      · rintro ⟨i, hi, hg, hb⟩
        exact ⟨i, hi, by rw [← (a2 i).2]; exact hg, by rw [← (a2 i).1, ← a1]; exact hb⟩
      · rintro ⟨i, hi, hg, hb⟩
        exact ⟨i, hi, by rw [(a2 i).2]; exact hg, by rw [(a2 i).1, a1]; exact hb⟩
    have sub : ∀ u w, Binds s r u w → Binds s (i0 :: r) u w := fun u w ⟨i, hi, hg, hb⟩ => ⟨i, List.mem_cons_of_mem _ hi, hg, hb⟩
    refine ⟨s', by simp [cancelMMs, h1, b0], fun c => by rw [b1, a1], fun i' => ⟨by rw [(b2 i').1, (a2 i').1], by rw [(b2 i').2, (a2 i').2]⟩,
      fun c hc => b3 c (a3 c hc), ?_, ?_, ?_⟩
    · -- unbound variables
      intro u hu
      have hr : ¬ ∃ w, Binds s1 r u w := fun ⟨w, hw⟩ => hu ⟨w, sub u w ((bindsEq u w).mp hw)⟩
      rw [b4 u hr]
      by_cases hg : (s.mms i0).hasGuard = true
      · obtain ⟨v, w, hb, hv, _⟩ := a5 hg
        rw [hv]
        have : u ≠ v := by
          intro e; subst e
          exact hu ⟨w, i0, List.mem_cons_self, hg, hb⟩
        exact upd_other _ _ _ _ this
      · rw [a4 (by simpa using hg)]
    · -- bound variables
      intro u w hb huniq
      by_cases hr : ∃ w', Binds s1 r u w'
      · obtain ⟨w', hw'⟩ := hr
        have e : w' = w := huniq w' (sub u w' ((bindsEq u w').mp hw'))
        subst e
        exact b5 u w' hw' (fun w'' h'' => huniq w'' (sub u w'' ((bindsEq u w'').mp h'')))
      · rw [b4 u hr]
        obtain ⟨i, hi, hg, hbk⟩ := hb
        rcases List.mem_cons.mp hi with e | hi'
        · subst e
          obtain ⟨v, w2, hb2, hv, _⟩ := a5 hg
          rw [hbk] at hb2
          cases hb2
          rw [hv]; exact upd_same _ _ _
        · exact absurd ⟨w, (bindsEq u w).mpr ⟨i, hi', hg, hbk⟩⟩ hr
    · -- contexts canceled
      intro i hi hg
      rcases List.mem_cons.mp hi with e | hi'
      · subst e
        obtain ⟨_, _, _, _, hc⟩ := a5 hg
        exact b3 _ hc
      · have := b6 i hi' (by rw [(a2 i).2]; exact hg)
        rw [(a2 i).1] at this
        exact this

end C07L
