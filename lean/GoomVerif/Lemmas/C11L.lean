import GoomVerif.Model.Conc
/-! Lemmas for C11: a relational characterisation of `Conc.step`, field lemmas, and the lock invariants. -/
set_option linter.unusedSimpArgs false
set_option linter.unusedVariables false
namespace Conc

def Sec.isCall : Sec → Bool
  | .call _ _ => true
  | .retab _ => true      -- lock-free sections
  | _ => false
def MI.isWrite : MI → Bool
  | .write _ => true
  | _ => false

inductive Tr (L : Layout) (prog : Tid → List Sec) (t : Tid) (s : St) : St → Prop
  | stutter : Tr L prog t s s
  | call (f a) (h1 : (prog t)[(s.th t).ip]? = some (.call f a)) (h2 : (s.th t).cur = none) :
      Tr L prog t s (setTh { s with calls := (t, (s.th t).ip, callAt L s f a) :: s.calls } t { s.th t with ip := (s.th t).ip + 1 })
  | retab (f) (h1 : (prog t)[(s.th t).ip]? = some (.retab f)) (h2 : (s.th t).cur = none) :
      Tr L prog t s (setTh { s with patches := upd s.patches f ((s.patches f).map retabG),
                                    text := upd s.text f (retabC (s.text f)) } t { s.th t with ip := (s.th t).ip + 1 })
  | acqP (sec) (h1 : (prog t)[(s.th t).ip]? = some sec) (h2 : (s.th t).cur = none) (h3 : sec.isCall = false) (h4 : s.lockP = none) :
      Tr L prog t s (setTh { s with lockP := some t } t { s.th t with cur := some 0 })
  | relP (sec k) (h1 : (prog t)[(s.th t).ip]? = some sec) (h2 : (s.th t).cur = some k) (h3 : (bodyOf sec)[k]? = none) :
      Tr L prog t s (setTh { s with lockP := none } t { ip := (s.th t).ip + 1, cur := none, w := none })
  | wskip (sec k wk) (h1 : (prog t)[(s.th t).ip]? = some sec) (h2 : (s.th t).cur = some k) (h3 : (bodyOf sec)[k]? = some (.write wk))
      (h4 : (s.th t).w = none) (h5 : wcond (logAcc s t .patches false) wk = false) :
      Tr L prog t s (setTh (logAcc s t .patches false) t { s.th t with cur := some (k + 1) })
  | acqM (sec k wk) (h1 : (prog t)[(s.th t).ip]? = some sec) (h2 : (s.th t).cur = some k) (h3 : (bodyOf sec)[k]? = some (.write wk))
      (h4 : (s.th t).w = none) (h5 : wcond (logAcc s t .patches false) wk = true) (h6 : s.lockM = none) :
      Tr L prog t s (setTh { logAcc s t .patches false with lockM := some t } t { s.th t with w := some 0 })
  | relM (sec k wk j) (h1 : (prog t)[(s.th t).ip]? = some sec) (h2 : (s.th t).cur = some k) (h3 : (bodyOf sec)[k]? = some (.write wk))
      (h4 : (s.th t).w = some j) (h5 : (wscript L wk)[j]? = none) :
      Tr L prog t s (setTh { s with lockM := none } t { s.th t with cur := some (k + 1), w := none })
  | wph (sec k wk j ws) (h1 : (prog t)[(s.th t).ip]? = some sec) (h2 : (s.th t).cur = some k) (h3 : (bodyOf sec)[k]? = some (.write wk))
      (h4 : (s.th t).w = some j) (h5 : (wscript L wk)[j]? = some ws) :
      Tr L prog t s (setTh (execW L t wk ws s) t { s.th t with w := some (j + 1) })
  | tab (sec k mi) (h1 : (prog t)[(s.th t).ip]? = some sec) (h2 : (s.th t).cur = some k) (h3 : (bodyOf sec)[k]? = some mi)
      (h4 : mi.isWrite = false) :
      Tr L prog t s (setTh (execT t mi s) t { s.th t with cur := some (k + 1) })

theorem step_tr (L prog t s) : Tr L prog t s (step L prog t s) := by
  unfold step
  simp only []
  split
  · exact .stutter
  · rename_i sec h1
    split
    · rename_i h2
      split
      · exact .call _ _ h1 h2
      · exact .retab _ h1 h2
      · rename_i hn
        split
        · rename_i h4
          refine .acqP sec h1 h2 ?_ h4
          cases sec <;> simp_all [Sec.isCall]
        · exact .stutter
    · rename_i k h2
      split
      · rename_i h3; exact .relP sec k h1 h2 h3
      · rename_i wk h3
        split
        · rename_i h4
          split
          · rename_i h5
            split
            · rename_i h6; exact .acqM sec k wk h1 h2 h3 h4 h5 h6
            · exact .stutter
          · rename_i h5; exact .wskip sec k wk h1 h2 h3 h4 (by simpa using h5)
        · rename_i j h4
          split
          · rename_i h5; exact .relM sec k wk j h1 h2 h3 h4 h5
          · rename_i ws h5; exact .wph sec k wk j ws h1 h2 h3 h4 h5
      · rename_i mi hn h3
        refine .tab sec k mi h1 h2 h3 ?_
        cases mi <;> simp_all [MI.isWrite]

/-! ## field lemmas -/

@[simp] theorem setTh_th_same (s : St) (t h) : (setTh s t h).th t = h := by simp [setTh]
theorem setTh_th_other (s : St) (t u h) (hu : u ≠ t) : (setTh s t h).th u = s.th u := by simp [setTh, upd, hu]
@[simp] theorem setTh_lockP (s : St) (t h) : (setTh s t h).lockP = s.lockP := rfl
@[simp] theorem setTh_lockM (s : St) (t h) : (setTh s t h).lockM = s.lockM := rfl
@[simp] theorem setTh_perm (s : St) (t h) : (setTh s t h).perm = s.perm := rfl
@[simp] theorem setTh_text (s : St) (t h) : (setTh s t h).text = s.text := rfl
@[simp] theorem setTh_patches (s : St) (t h) : (setTh s t h).patches = s.patches := rfl
@[simp] theorem setTh_acc (s : St) (t h) : (setTh s t h).acc = s.acc := rfl
@[simp] theorem setTh_calls (s : St) (t h) : (setTh s t h).calls = s.calls := rfl
@[simp] theorem setTh_faults (s : St) (t h) : (setTh s t h).faults = s.faults := rfl
@[simp] theorem logAcc_lockP (s : St) (t v w) : (logAcc s t v w).lockP = s.lockP := rfl
@[simp] theorem logAcc_lockM (s : St) (t v w) : (logAcc s t v w).lockM = s.lockM := rfl
@[simp] theorem logAcc_perm (s : St) (t v w) : (logAcc s t v w).perm = s.perm := rfl
@[simp] theorem logAcc_text (s : St) (t v w) : (logAcc s t v w).text = s.text := rfl
@[simp] theorem logAcc_patches (s : St) (t v w) : (logAcc s t v w).patches = s.patches := rfl
@[simp] theorem logAcc_th (s : St) (t v w) : (logAcc s t v w).th = s.th := rfl
@[simp] theorem logAcc_calls (s : St) (t v w) : (logAcc s t v w).calls = s.calls := rfl
@[simp] theorem logAcc_faults (s : St) (t v w) : (logAcc s t v w).faults = s.faults := rfl

theorem execW_lockP (L t k ws s) : (execW L t k ws s).lockP = s.lockP := by
  unfold execW; dsimp only; repeat' split
  all_goals (first | rfl | simp [logAcc])
theorem execW_lockM (L t k ws s) : (execW L t k ws s).lockM = s.lockM := by
  unfold execW; dsimp only; repeat' split
  all_goals (first | rfl | simp [logAcc])
theorem execW_th (L t k ws s) : (execW L t k ws s).th = s.th := by
  unfold execW; dsimp only; repeat' split
  all_goals (first | rfl | simp [logAcc])
theorem execW_patches (L t k ws s) : (execW L t k ws s).patches = s.patches := by
  unfold execW; dsimp only; repeat' split
  all_goals (first | rfl | simp [logAcc])
theorem execW_calls (L t k ws s) : (execW L t k ws s).calls = s.calls := by
  unfold execW; dsimp only; repeat' split
  all_goals (first | rfl | simp [logAcc])
theorem execT_lockP (t mi s) : (execT t mi s).lockP = s.lockP := by
  unfold execT; dsimp only; repeat' split
  all_goals (first | rfl | simp [logAcc])
theorem execT_lockM (t mi s) : (execT t mi s).lockM = s.lockM := by
  unfold execT; dsimp only; repeat' split
  all_goals (first | rfl | simp [logAcc])
theorem execT_th (t mi s) : (execT t mi s).th = s.th := by
  unfold execT; dsimp only; repeat' split
  all_goals (first | rfl | simp [logAcc])
theorem execT_perm (t mi s) : (execT t mi s).perm = s.perm := by
  unfold execT; dsimp only; repeat' split
  all_goals (first | rfl | simp [logAcc])
theorem execT_text (t mi s) : (execT t mi s).text = s.text := by
  unfold execT; dsimp only; repeat' split
  all_goals (first | rfl | simp [logAcc])
theorem execT_calls (t mi s) : (execT t mi s).calls = s.calls := by
  unfold execT; dsimp only; repeat' split
  all_goals (first | rfl | simp [logAcc])

/-! ## lock discipline -/

def AccOk (l : List Acc) : Prop := ∀ a ∈ l, a.holdsP = true ∧ (a.v ≠ .patches → a.holdsM = true)

/-- lock discipline invariants -/
structure LInv (prog : Tid → List Sec) (s : St) : Prop where
  mp : ∀ t, (s.th t).cur.isSome = true → s.lockP = some t
  mpc : ∀ t, s.lockP = some t → (s.th t).cur.isSome = true
  mm : ∀ t, (s.th t).w.isSome = true → s.lockM = some t ∧ (s.th t).cur.isSome = true
  mmc : ∀ t, s.lockM = some t → (s.th t).w.isSome = true
  wpos : ∀ t, (s.th t).w.isSome = true → ∃ sec k wk, (prog t)[(s.th t).ip]? = some sec ∧ (s.th t).cur = some k ∧ (bodyOf sec)[k]? = some (.write wk)
  accOk : AccOk s.acc

theorem th_setTh (s : St) (t u h) : (setTh s t h).th u = if u = t then h else s.th u := by
  simp [setTh, upd]

theorem LInv_init (prog text) : LInv prog (init text) := by
  constructor <;> simp [init, AccOk]

theorem AccOk_cons (a l) (h : AccOk l) (h1 : a.holdsP = true) (h2 : a.v ≠ .patches → a.holdsM = true) : AccOk (a :: l) := by
  intro b hb; simp at hb; rcases hb with rfl | hb
  · exact ⟨h1, h2⟩
  · exact h b hb

theorem execW_acc (L t k ws s) (hP : s.lockP = some t) (hM : s.lockM = some t) (h : AccOk s.acc) :
    AccOk (execW L t k ws s).acc := by
  unfold execW; dsimp only; repeat' split
  all_goals (simp only [logAcc]; apply AccOk_cons _ _ h <;> simp [hP, hM])

theorem execT_acc (t mi s) (hP : s.lockP = some t) (hM : s.lockM = none ∨ s.lockM = some t) (h : AccOk s.acc) :
    AccOk (execT t mi s).acc := by
  unfold execT; dsimp only; repeat' split
  all_goals try simp only [logAcc]
  all_goals first
    | exact h
    | (apply AccOk_cons _ _ h <;> simp [hP])
    | (apply AccOk_cons; apply AccOk_cons _ _ h <;> simp [hP]; all_goals (rcases hM with hM | hM <;> simp [hP, hM]))

theorem LInv_tr {L prog t s s'} (I : LInv prog s) (tr : Tr L prog t s s') : LInv prog s' := by
  obtain ⟨mp, mpc, mm, mmc, wp, ao⟩ := I
  cases tr with
  | stutter => exact ⟨mp, mpc, mm, mmc, wp, ao⟩
  | call f a h1 h2 =>
    refine ⟨?_, ?_, ?_, ?_, ?_, ?_⟩
    iterate 5
      · intro u
        simp only [th_setTh, setTh_lockP, setTh_lockM, logAcc_lockP, logAcc_lockM, logAcc_th, execW_lockP, execW_lockM, execW_th,
          execT_lockP, execT_lockM, execT_th]
        grind
    · exact ao
  | retab f h1 h2 =>
    refine ⟨?_, ?_, ?_, ?_, ?_, ?_⟩
    iterate 5
      · intro u
        simp only [th_setTh, setTh_lockP, setTh_lockM, logAcc_lockP, logAcc_lockM, logAcc_th, execW_lockP, execW_lockM, execW_th,
          execT_lockP, execT_lockM, execT_th]
        grind
    · exact ao
  | acqP sec h1 h2 h3 h4 =>
    refine ⟨?_, ?_, ?_, ?_, ?_, ?_⟩
    iterate 5
      · intro u
        simp only [th_setTh, setTh_lockP, setTh_lockM, logAcc_lockP, logAcc_lockM, logAcc_th, execW_lockP, execW_lockM, execW_th,
          execT_lockP, execT_lockM, execT_th]
        grind
    · exact ao
  | relP sec k h1 h2 h3 =>
    refine ⟨?_, ?_, ?_, ?_, ?_, ?_⟩
    iterate 5
      · intro u
        simp only [th_setTh, setTh_lockP, setTh_lockM, logAcc_lockP, logAcc_lockM, logAcc_th, execW_lockP, execW_lockM, execW_th,
          execT_lockP, execT_lockM, execT_th]
        grind
    · exact ao
  | wskip sec k wk h1 h2 h3 h4 h5 =>
    refine ⟨?_, ?_, ?_, ?_, ?_, ?_⟩
    iterate 5
      · intro u
        simp only [th_setTh, setTh_lockP, setTh_lockM, logAcc_lockP, logAcc_lockM, logAcc_th, execW_lockP, execW_lockM, execW_th,
          execT_lockP, execT_lockM, execT_th]
        grind
    · simp only [setTh_acc, logAcc]
      apply AccOk_cons _ _ ao <;> simp [mp t (by simp [h2])]
  | acqM sec k wk h1 h2 h3 h4 h5 h6 =>
    refine ⟨?_, ?_, ?_, ?_, ?_, ?_⟩
    iterate 5
      · intro u
        simp only [th_setTh, setTh_lockP, setTh_lockM, logAcc_lockP, logAcc_lockM, logAcc_th, execW_lockP, execW_lockM, execW_th,
          execT_lockP, execT_lockM, execT_th]
        grind
    · simp only [setTh_acc, logAcc]
      apply AccOk_cons _ _ ao <;> simp [mp t (by simp [h2])]
  | relM sec k wk j h1 h2 h3 h4 h5 =>
    refine ⟨?_, ?_, ?_, ?_, ?_, ?_⟩
    iterate 5
      · intro u
        simp only [th_setTh, setTh_lockP, setTh_lockM, logAcc_lockP, logAcc_lockM, logAcc_th, execW_lockP, execW_lockM, execW_th,
          execT_lockP, execT_lockM, execT_th]
        grind
    · exact ao
  | wph sec k wk j ws h1 h2 h3 h4 h5 =>
    refine ⟨?_, ?_, ?_, ?_, ?_, ?_⟩
    iterate 5
      · intro u
        simp only [th_setTh, setTh_lockP, setTh_lockM, logAcc_lockP, logAcc_lockM, logAcc_th, execW_lockP, execW_lockM, execW_th,
          execT_lockP, execT_lockM, execT_th]
        grind
    · simp only [setTh_acc]
      exact execW_acc L t wk ws s (mp t (by simp [h2])) (mm t (by simp [h4])).1 ao
  | tab sec k mi h1 h2 h3 h4 =>
    have hw : (s.th t).w = none := by
      cases hw : (s.th t).w with
      | none => rfl
      | some j =>
        obtain ⟨sec', k', wk, e1, e2, e3⟩ := wp t (by simp [hw])
        rw [h1] at e1; injection e1 with e1; subst e1
        rw [h2] at e2; injection e2 with e2; subst e2
        rw [h3] at e3; injection e3 with e3; subst e3
        simp [MI.isWrite] at h4
    refine ⟨?_, ?_, ?_, ?_, ?_, ?_⟩
    iterate 5
      · intro u
        simp only [th_setTh, setTh_lockP, setTh_lockM, logAcc_lockP, logAcc_lockM, logAcc_th, execW_lockP, execW_lockM, execW_th,
          execT_lockP, execT_lockM, execT_th]
        grind
    · simp only [setTh_acc]
      refine execT_acc t mi s (mp t (by simp [h2])) ?_ ao
      cases hm : s.lockM with
      | none => exact Or.inl rfl
      | some u =>
        right
        have h1 := mmc u hm
        have h2' := (mm u h1).2
        have h3' := mp u h2'
        have h4' := mp t (by simp [h2])
        rw [h3'] at h4'; injection h4' with h4'; rw [h4']

theorem LInv_run (L prog) (σ : List Tid) (s : St) (I : LInv prog s) : LInv prog (run L prog σ s) := by
  induction σ generalizing s with
  | nil => exact I
  | cons t σ ih => exact ih _ (LInv_tr I (step_tr L prog t s))

/-! ## frame -/

def miLoc : MI → Option Loc
  | .unregister f => some f
  | .register f _ => some f
  | .setApplied f => some f
  | .write _ => none

theorem body_write_loc (L : Layout) (sec : Sec) (k : Nat) (wk : WKind) (h : (bodyOf sec)[k]? = some (.write wk)) : wloc L wk ∈ writesOf L sec := by
  have hm := List.mem_of_getElem? h
  cases sec with
  | replace f r wo => cases wo <;> simp [bodyOf] at hm <;> rcases hm with rfl | rfl <;> simp [wloc, writesOf]
  | apply f => simp [bodyOf] at hm; subst hm; simp [wloc, writesOf]
  | unpatch f => simp [bodyOf] at hm; subst hm; simp [wloc, writesOf]
  | call f a => simp [bodyOf] at hm
  | retab f => simp [bodyOf] at hm

theorem body_mi_loc (L : Layout) (sec : Sec) (k : Nat) (mi : MI) (f : Loc) (h : (bodyOf sec)[k]? = some mi) (hf : miLoc mi = some f) : f ∈ writesOf L sec := by
  have hm := List.mem_of_getElem? h
  cases sec with
  | replace f' r wo =>
    cases wo <;> simp [bodyOf] at hm
    · rcases hm with rfl | rfl | rfl <;> simp_all [miLoc, writesOf]
    · rcases hm with rfl | rfl | rfl | rfl <;> simp_all [miLoc, writesOf]
  | apply f' => simp [bodyOf] at hm; rcases hm with rfl | rfl <;> simp_all [miLoc, writesOf]
  | unpatch f' => simp [bodyOf] at hm; subst hm; simp [miLoc] at hf
  | call f' a => simp [bodyOf] at hm
  | retab f' => simp [bodyOf] at hm

theorem execW_text_other (L t k ws s f) (hf : f ≠ wloc L k) : (execW L t k ws s).text f = s.text f := by
  unfold execW; dsimp only; repeat' split
  all_goals (first | rfl | (simp only [logAcc, wloc] at *; simp [upd, hf]))

theorem execT_patches_other (t mi s f) (hf : miLoc mi ≠ some f) : (execT t mi s).patches f = s.patches f := by
  unfold execT; dsimp only; repeat' split
  all_goals (first | rfl | (simp only [logAcc, miLoc] at *; simp [upd]; intro h; subst h; simp at hf))

/-- a slot of thread `t` changes the patch table and the text only at locations `t` writes -/
theorem frame_tr {L prog t s s'} (tr : Tr L prog t s s') (f : Loc) (hf : ¬ Writes L prog t f) :
    s'.text f = s.text f ∧ s'.patches f = s.patches f := by
  cases tr with
  | stutter => exact ⟨rfl, rfl⟩
  | call f a h1 h2 => exact ⟨rfl, rfl⟩
  | retab f' h1 h2 =>
    have e : f ≠ f' := fun h => hf ⟨_, List.mem_of_getElem? h1, by simp [writesOf, h]⟩
    simp [setTh_text, setTh_patches, upd, e]
  | acqP sec h1 h2 h3 h4 => exact ⟨rfl, rfl⟩
  | relP sec k h1 h2 h3 => exact ⟨rfl, rfl⟩
  | wskip sec k wk h1 h2 h3 h4 h5 => exact ⟨rfl, rfl⟩
  | acqM sec k wk h1 h2 h3 h4 h5 h6 => exact ⟨rfl, rfl⟩
  | relM sec k wk j h1 h2 h3 h4 h5 => exact ⟨rfl, rfl⟩
  | wph sec k wk j ws h1 h2 h3 h4 h5 =>
    simp only [setTh_text, setTh_patches, execW_patches, and_true]
    apply execW_text_other
    intro h; subst h
    exact hf ⟨sec, List.mem_of_getElem? h1, body_write_loc L sec k wk h3⟩
  | tab sec k mi h1 h2 h3 h4 =>
    simp only [setTh_text, setTh_patches, execT_text, true_and]
    apply execT_patches_other
    intro h
    exact hf ⟨sec, List.mem_of_getElem? h1, body_mi_loc L sec k mi f h3 h⟩

/-! ## execute permission, steady calls, non-interference -/

def XInv (s : St) : Prop := ∀ pg, (s.perm pg).x = true

/-- the protections the WriteTo script installs all contain x (a fact about the SCRIPT `wscript`, i.e. about the
    constants at mwrite_amd64.go:24,32, not about the step semantics) -/
theorem wscript_x (L : Layout) (wk : WKind) (j : Nat) (pg : Nat) (p : Perm) (h : (wscript L wk)[j]? = some (.prot pg p)) : p.x = true := by
  have hm := List.mem_of_getElem? h
  simp only [wscript, List.mem_append, List.mem_map, List.mem_cons, List.not_mem_nil, or_false] at hm
  rcases hm with (⟨a, _, e⟩ | e) | ⟨a, _, e⟩
  · injection e with _ e; subst e; rfl
  · cases e
  · injection e with _ e; subst e; rfl

theorem execW_x (L t k ws s) (h : XInv s) (hws : ∀ pg p, ws = .prot pg p → p.x = true) : XInv (execW L t k ws s) := by
  intro pg
  cases ws with
  | prot pg' p =>
    simp only [execW, logAcc_perm, upd]
    split
    · exact hws pg' p rfl
    · exact h pg
  | copy =>
    unfold execW; dsimp only; repeat' split
    all_goals (first | exact h pg | (simp only [logAcc]; exact h pg))

theorem XInv_tr {L prog t s s'} (h : XInv s) (tr : Tr L prog t s s') : XInv s' := by
  cases tr with
  | wph sec k wk j ws h1 h2 h3 h4 h5 =>
    intro pg; simp only [setTh_perm]
    exact execW_x L t wk ws s h (fun pg' p e => wscript_x L wk j pg' p (e ▸ h5)) pg
  | tab sec k mi h1 h2 h3 h4 => intro pg; simp only [setTh_perm, execT_perm]; exact h pg
  | _ => exact h

theorem allX_of_XInv (s : St) (h : XInv s) (pgs) : allX s pgs = true := by
  simp [allX, List.all_eq_true]; intro pg _; exact h pg

theorem callAt_congr (L : Layout) (s s0 : St) (f a) (hx : XInv s) (hx0 : XInv s0) (h1 : s.text f = s0.text f)
    (h2 : s.text (L.plh f) = s0.text (L.plh f)) : callAt L s f a = callAt L s0 f a := by
  simp [callAt, allX_of_XInv s hx, allX_of_XInv s0 hx0, h1, h2]

def NoWriter (L : Layout) (prog : Tid → List Sec) (f : Loc) : Prop := ∀ u, ¬ Writes L prog u f

/-- invariant behind `steady_calls` -/
structure CInv (L : Layout) (prog : Tid → List Sec) (s0 s : St) : Prop where
  x : XInv s
  txt : ∀ f, NoWriter L prog f → s.text f = s0.text f
  calls : ∀ c ∈ s.calls, ∃ f a, (prog c.1)[c.2.1]? = some (.call f a) ∧
      (NoWriter L prog f → NoWriter L prog (L.plh f) → c.2.2 = callAt L s0 f a)

theorem CInv_tr {L prog t s0 s s'} (hx0 : XInv s0) (I : CInv L prog s0 s) (tr : Tr L prog t s s') : CInv L prog s0 s' := by
  refine ⟨XInv_tr I.x tr, ?_, ?_⟩
  · intro f hf; rw [(frame_tr tr f (hf t)).1]; exact I.txt f hf
  · cases tr with
    | call f a h1 h2 =>
      intro c hc
      simp only [setTh_calls, List.mem_cons] at hc
      rcases hc with rfl | hc
      · exact ⟨f, a, h1, fun n1 n2 => callAt_congr L s s0 f a I.x hx0 (I.txt f n1) (I.txt _ n2)⟩
      · exact I.calls c hc
    | wph sec k wk j ws h1 h2 h3 h4 h5 => simp only [setTh_calls, execW_calls]; exact I.calls
    | tab sec k mi h1 h2 h3 h4 => simp only [setTh_calls, execT_calls]; exact I.calls
    | _ => exact I.calls

theorem CInv_run (L prog) (σ : List Tid) (s0 s : St) (hx0 : XInv s0) (I : CInv L prog s0 s) : CInv L prog s0 (run L prog σ s) := by
  induction σ generalizing s with
  | nil => exact I
  | cons t σ ih => exact ih _ (CInv_tr hx0 I (step_tr L prog t s))

/-- slots of threads other than `t` never change what `t` mentions -/
theorem others_frame_run (L prog) (hd : Disjoint L prog) (t : Tid) (σ : List Tid) (hσ : t ∉ σ) (s : St) (f : Loc)
    (hf : Mentions L prog t f) : (run L prog σ s).text f = s.text f ∧ (run L prog σ s).patches f = s.patches f := by
  induction σ generalizing s with
  | nil => exact ⟨rfl, rfl⟩
  | cons u σ ih =>
    simp only [List.mem_cons, not_or] at hσ
    have h1 := frame_tr (step_tr L prog u s) f (fun hw => hd t u f hσ.1 hw hf)
    have h2 := ih hσ.2 (step L prog u s)
    simp only [run]
    rw [h2.1, h2.2]; exact h1

/-! ## solo simulation (isolation) -/

def solo (L : Layout) (prog : Tid → List Sec) (t : Tid) : Nat → St → St
  | 0, s => s
  | n + 1, s => solo L prog t n (step L prog t s)

/-- `s` (concurrent world) and `s'` (world in which only `t` ever ran) look the same to thread `t` -/
structure Agree (L : Layout) (prog : Tid → List Sec) (t : Tid) (s s' : St) : Prop where
  th : s.th t = s'.th t
  loc : ∀ f, Mentions L prog t f → s.text f = s'.text f ∧ s.patches f = s'.patches f
  x : XInv s
  x' : XInv s'
  li : LInv prog s
  li' : LInv prog s'
  lp' : s'.lockP = none ∨ s'.lockP = some t
  lm' : s'.lockM = none ∨ s'.lockM = some t

theorem tr_th_other {L prog t s s'} (tr : Tr L prog t s s') (v : Tid) (hv : v ≠ t) : s'.th v = s.th v := by
  cases tr <;> first | rfl | (simp only [th_setTh, hv, if_false, execW_th, execT_th, logAcc_th])

theorem agree_other {L prog t u s s'} (hd : Disjoint L prog) (hu : u ≠ t) (A : Agree L prog t s s') :
    Agree L prog t (step L prog u s) s' := by
  have tr := step_tr L prog u s
  refine ⟨?_, ?_, XInv_tr A.x tr, A.x', LInv_tr A.li tr, A.li', A.lp', A.lm'⟩
  · rw [tr_th_other tr t (Ne.symm hu)]; exact A.th
  · intro f hf
    have h := frame_tr tr f (fun hw => hd t u f (Ne.symm hu) hw hf)
    rw [h.1, h.2]; exact A.loc f hf

theorem mentions_of_sec {L : Layout} {prog : Tid → List Sec} {t : Tid} {i : Nat} {sec : Sec} (h : (prog t)[i]? = some sec) (f : Loc) (hf : f ∈ mentionsOf L sec) :
    Mentions L prog t f := ⟨sec, List.mem_of_getElem? h, hf⟩

theorem lock_tr {L prog t s s1} (tr : Tr L prog t s s1) :
    ((s.lockP = none ∨ s.lockP = some t) → (s1.lockP = none ∨ s1.lockP = some t)) ∧
    ((s.lockM = none ∨ s.lockM = some t) → (s1.lockM = none ∨ s1.lockM = some t)) := by
  cases tr <;> simp [execW_lockP, execW_lockM, execT_lockP, execT_lockM]

def LocAgree (P : Loc → Prop) (s s' : St) : Prop := ∀ f, P f → s.text f = s'.text f ∧ s.patches f = s'.patches f

theorem wcond_congr {P : Loc → Prop} {s s' : St} (h : LocAgree P s s') (wk : WKind) (hp : ∀ f, wk = .restore f → P f) (t) :
    wcond (logAcc s t .patches false) wk = wcond (logAcc s' t .patches false) wk := by
  cases wk with
  | restore f => simp only [wcond, logAcc_patches]; rw [(h f (hp f rfl)).2]
  | _ => rfl

theorem execW_agree {P : Loc → Prop} {L : Layout} {s s' : St} (h : LocAgree P s s') (t) (wk : WKind) (ws : WStep)
    (hp : ∀ f, (wk = .restore f ∨ wk = .jump f) → P f) : LocAgree P (execW L t wk ws s) (execW L t wk ws s') := by
  intro g hg
  have hg' := h g hg
  cases ws with
  | prot pg p => exact hg'
  | copy =>
    cases wk with
    | jump f =>
      have hf := h f (hp f (Or.inr rfl))
      simp only [execW, logAcc_patches, logAcc_text]
      rw [hf.2]
      cases s'.patches f with
      | none => exact ⟨hg'.1, by simpa using hg'.2⟩
      | some gd =>
        refine ⟨?_, hg'.2⟩
        by_cases e : g = f
        · subst e; simp [upd]
        · simp [upd, e]; exact hg'.1
    | restore f =>
      have hf := h f (hp f (Or.inl rfl))
      simp only [execW, logAcc_patches, logAcc_text]
      rw [hf.2]
      cases s'.patches f with
      | none => exact ⟨hg'.1, by simpa using hg'.2⟩
      | some gd =>
        refine ⟨?_, hg'.2⟩
        by_cases e : g = f
        · subst e; simp [upd]
        · simp [upd, e]; exact hg'.1
    | tramp f =>
      simp only [execW, logAcc_patches, logAcc_text]
      refine ⟨?_, hg'.2⟩
      by_cases e : g = L.plh f
      · subst e; simp [upd]
      · simp [upd, e]; exact hg'.1

theorem execT_agree {P : Loc → Prop} {s s' : St} (h : LocAgree P s s') (t) (mi : MI)
    (hp : ∀ f, miLoc mi = some f → P f) : LocAgree P (execT t mi s) (execT t mi s') := by
  intro g hg
  have hg' := h g hg
  cases mi with
  | write k => exact hg'
  | unregister f =>
    simp only [execT, logAcc_patches, logAcc_text]
    refine ⟨hg'.1, ?_⟩
    by_cases e : g = f
    · subst e; simp [upd]
    · simp [upd, e]; exact hg'.2
  | register f r =>
    have hf := h f (hp f rfl)
    simp only [execT, logAcc_patches, logAcc_text]
    rw [hf.1]
    refine ⟨hg'.1, ?_⟩
    by_cases e : g = f
    · subst e; simp [upd]
    · simp [upd, e]; exact hg'.2
  | setApplied f =>
    have hf := h f (hp f rfl)
    simp only [execT, logAcc_patches, logAcc_text]
    rw [hf.2]
    cases s'.patches f with
    | none => exact ⟨hg'.1, by simpa using hg'.2⟩
    | some gd =>
      refine ⟨hg'.1, ?_⟩
      by_cases e : g = f
      · subst e; simp [upd]
      · simp [upd, e]; exact hg'.2

theorem mentions_sec {L : Layout} {prog : Tid → List Sec} {t : Tid} {i : Nat} {sec : Sec} (h : (prog t)[i]? = some sec) (f : Loc)
    (hf : f ∈ mentionsOf L sec) : Mentions L prog t f := ⟨sec, List.mem_of_getElem? h, hf⟩

theorem body_write_mentions (L : Layout) (sec : Sec) (k : Nat) (wk : WKind) (h : (bodyOf sec)[k]? = some (.write wk)) (f : Loc)
    (hf : wk = .restore f ∨ wk = .jump f) : f ∈ mentionsOf L sec := by
  have hm := List.mem_of_getElem? h
  cases sec with
  | replace f' r wo => cases wo <;> simp [bodyOf] at hm <;> rcases hf with rfl | rfl <;> simp_all [mentionsOf]
  | apply f' => simp [bodyOf] at hm; rcases hf with rfl | rfl <;> simp_all [mentionsOf]
  | unpatch f' => simp [bodyOf] at hm; rcases hf with rfl | rfl <;> simp_all [mentionsOf]
  | call f' a => simp [bodyOf] at hm
  | retab f' => simp [bodyOf] at hm

theorem writes_sub_mentions (L : Layout) (sec : Sec) (f : Loc) (h : f ∈ writesOf L sec) : f ∈ mentionsOf L sec := by
  cases sec with
  | replace f' r wo => cases wo <;> simp_all [writesOf, mentionsOf]
  | apply f' => simp_all [writesOf, mentionsOf]
  | unpatch f' => simp_all [writesOf, mentionsOf]
  | call f' a => simp [writesOf] at h
  | retab f' => simp_all [writesOf, mentionsOf]

theorem agree_self {L prog t s s'} (A : Agree L prog t s s') :
    step L prog t s = s ∨ Agree L prog t (step L prog t s) (step L prog t s') := by
  have trs := step_tr L prog t s
  have tr' := step_tr L prog t s'
  have tr := trs
  have hth := A.th
  generalize hs1 : step L prog t s = s1 at tr
  have fin : s.th t = s'.th t → (∀ f, Mentions L prog t f → (step L prog t s).text f = (step L prog t s').text f ∧
      (step L prog t s).patches f = (step L prog t s').patches f) → (step L prog t s).th t = (step L prog t s').th t →
      Agree L prog t (step L prog t s) (step L prog t s') := fun _ hl ht =>
    ⟨ht, hl, XInv_tr A.x trs, XInv_tr A.x' tr', LInv_tr A.li trs, LInv_tr A.li' tr', (lock_tr tr').1 A.lp', (lock_tr tr').2 A.lm'⟩
  cases tr with
  | stutter => exact Or.inl rfl
  | call f a h1 h2 =>
    rw [← hs1]; right
    have e : step L prog t s' = setTh { s' with calls := (t, (s'.th t).ip, callAt L s' f a) :: s'.calls } t { s'.th t with ip := (s'.th t).ip + 1 } := by
      unfold step; simp only [← hth, h1, h2]
    refine fin hth ?_ ?_
    · rw [hs1, e]; exact A.loc
    · rw [hs1, e]; simp [hth]
  | retab f h1 h2 =>
    rw [← hs1]; right
    have e : step L prog t s' = setTh { s' with patches := upd s'.patches f ((s'.patches f).map retabG), text := upd s'.text f (retabC (s'.text f)) } t { s'.th t with ip := (s'.th t).ip + 1 } := by
      unfold step; simp only [← hth, h1, h2]
    refine fin hth ?_ ?_
    · rw [hs1, e]
      intro g hg
      have hf := A.loc f (mentions_sec h1 f (by simp [mentionsOf]))
      have hg' := A.loc g hg
      simp only [setTh_text, setTh_patches]
      by_cases eg : g = f
      · subst eg; simp [upd, hf.1, hf.2]
      · simp [upd, eg]; exact hg'
    · rw [hs1, e]; simp [hth]
  | acqP sec h1 h2 h3 h4 =>
    rw [← hs1]; right
    have hl : s'.lockP = none := by
      rcases A.lp' with h | h
      · exact h
      · have := A.li'.mpc t h; rw [← hth, h2] at this; simp at this
    have e : step L prog t s' = setTh { s' with lockP := some t } t { s'.th t with cur := some 0 } := by
      unfold step; simp only [← hth, h1, h2]
      cases sec <;> simp_all [Sec.isCall]
    refine fin hth ?_ ?_
    · rw [hs1, e]; exact A.loc
    · rw [hs1, e]; simp [hth]
  | relP sec k h1 h2 h3 =>
    rw [← hs1]; right
    have e : step L prog t s' = setTh { s' with lockP := none } t { ip := (s'.th t).ip + 1, cur := none, w := none } := by
      unfold step; simp only [← hth, h1, h2, h3]
    refine fin hth ?_ ?_
    · rw [hs1, e]; exact A.loc
    · rw [hs1, e]; simp [hth]
  | wskip sec k wk h1 h2 h3 h4 h5 =>
    rw [← hs1]; right
    have hc := wcond_congr (P := Mentions L prog t) A.loc wk
      (fun f hf => mentions_sec h1 f (body_write_mentions L sec k wk h3 f (Or.inl hf))) t
    have e : step L prog t s' = setTh (logAcc s' t .patches false) t { s'.th t with cur := some (k + 1) } := by
      unfold step; simp only [← hth, h1, h2, h3, h4, ← hc, h5]; simp
    refine fin hth ?_ ?_
    · rw [hs1, e]; exact A.loc
    · rw [hs1, e]; simp [hth]
  | acqM sec k wk h1 h2 h3 h4 h5 h6 =>
    rw [← hs1]; right
    have hc := wcond_congr (P := Mentions L prog t) A.loc wk
      (fun f hf => mentions_sec h1 f (body_write_mentions L sec k wk h3 f (Or.inl hf))) t
    have hl : s'.lockM = none := by
      rcases A.lm' with h | h
      · exact h
      · have := A.li'.mmc t h; rw [← hth, h4] at this; simp at this
    have e : step L prog t s' = setTh { logAcc s' t .patches false with lockM := some t } t { s'.th t with w := some 0 } := by
      unfold step; simp only [← hth, h1, h2, h3, h4, ← hc, h5, hl]; simp
    refine fin hth ?_ ?_
    · rw [hs1, e]; exact A.loc
    · rw [hs1, e]; simp [hth]
  | relM sec k wk j h1 h2 h3 h4 h5 =>
    rw [← hs1]; right
    have e : step L prog t s' = setTh { s' with lockM := none } t { s'.th t with cur := some (k + 1), w := none } := by
      unfold step; simp only [← hth, h1, h2, h3, h4, h5]
    refine fin hth ?_ ?_
    · rw [hs1, e]; exact A.loc
    · rw [hs1, e]; simp [hth]
  | wph sec k wk j ws h1 h2 h3 h4 h5 =>
    rw [← hs1]; right
    have e : step L prog t s' = setTh (execW L t wk ws s') t { s'.th t with w := some (j + 1) } := by
      unfold step; simp only [← hth, h1, h2, h3, h4, h5]
    refine fin hth ?_ ?_
    · rw [hs1, e]
      exact execW_agree (P := Mentions L prog t) A.loc t wk ws
        (fun f hf => mentions_sec h1 f (body_write_mentions L sec k wk h3 f hf))
    · rw [hs1, e]; simp [hth]
  | tab sec k mi h1 h2 h3 h4 =>
    rw [← hs1]; right
    have e : step L prog t s' = setTh (execT t mi s') t { s'.th t with cur := some (k + 1) } := by
      unfold step; simp only [← hth, h1, h2, h3]
      cases mi <;> simp_all [MI.isWrite]
    refine fin hth ?_ ?_
    · rw [hs1, e]
      exact execT_agree (P := Mentions L prog t) A.loc t mi
        (fun f hf => mentions_sec h1 f (writes_sub_mentions L sec f (body_mi_loc L sec k mi f h3 hf)))
    · rw [hs1, e]; simp [hth]

/-- **solo simulation**: whatever the other threads do, thread `t`'s view evolves as in a run in which only `t` is scheduled -/
theorem solo_sim (L prog) (hd : Disjoint L prog) (t : Tid) (σ : List Tid) (s s' : St) (A : Agree L prog t s s') :
    ∃ n, Agree L prog t (run L prog σ s) (solo L prog t n s') := by
  induction σ generalizing s s' with
  | nil => exact ⟨0, A⟩
  | cons u σ ih =>
    by_cases hu : u = t
    · subst hu
      rcases agree_self A with h | h
      · simp only [run, h]; exact ih s s' A
      · obtain ⟨n, hn⟩ := ih _ _ h
        exact ⟨n + 1, hn⟩
    · exact ih _ s' (agree_other hd hu A)

/-! ## sequential runs of builder programs end pristine -/

theorem body_replace (f r wo) (k : Nat) (mi : MI) (h : (bodyOf (.replace f r wo))[k]? = some mi) :
    (k = 0 ∧ mi = .write (.restore f)) ∨ (k = 1 ∧ mi = .unregister f) ∨ (k = 2 ∧ mi = .register f r) ∨
    (k = 3 ∧ wo = true ∧ mi = .write (.tramp f)) := by
  match k with
  | 0 => simp [bodyOf] at h; simp [h]
  | 1 => simp [bodyOf] at h; simp [h]
  | 2 => simp [bodyOf] at h; simp [h]
  | 3 => cases wo <;> simp [bodyOf] at h; simp [h]
  | k + 4 => cases wo <;> simp [bodyOf] at h

theorem body_apply (f) (k : Nat) (mi : MI) (h : (bodyOf (.apply f))[k]? = some mi) :
    (k = 0 ∧ mi = .setApplied f) ∨ (k = 1 ∧ mi = .write (.jump f)) := by
  match k with
  | 0 => simp [bodyOf] at h; simp [h]
  | 1 => simp [bodyOf] at h; simp [h]
  | k + 2 => simp [bodyOf] at h

theorem body_unpatch (f) (k : Nat) (mi : MI) (h : (bodyOf (.unpatch f))[k]? = some mi) :
    k = 0 ∧ mi = .write (.restore f) := by
  match k with
  | 0 => simp [bodyOf] at h; simp [h]
  | k + 1 => simp [bodyOf] at h

theorem wscript_copy (L : Layout) (wk : WKind) (j : Nat) (ws : WStep) (h : (wscript L wk)[j]? = some ws) :
    (ws = .copy ↔ j = (L.pages (wloc L wk)).length) := by
  unfold wscript at h
  generalize L.pages (wloc L wk) = pg at h
  by_cases h1 : j < pg.length
  · simp [List.getElem?_append, h1] at h
    constructor
    · intro e; subst e; simp at h
    · intro e; omega
  · by_cases h2 : j = pg.length
    · subst h2; simp [List.getElem?_append] at h; simp [h]
    · have : pg.length < j := by omega
      constructor
      · intro e; subst e
        rw [List.getElem?_append_right (by simp; omega)] at h
        simp at h
      · intro e; omega

theorem body_call (f a) (k : Nat) (mi : MI) (h : (bodyOf (.call f a))[k]? = some mi) : False := by
  simp [bodyOf] at h

structure SInv (L : Layout) (prog : Tid → List Sec) (t : Tid) (Target : Loc → Prop) (T : Nat) (s : St) : Prop where
  J : ∀ f, Target f → (s.patches f = none → s.text f = .pristine) ∧
        (∀ g, s.patches f = some g → g.originBytes = .pristine ∧ (g.applied = false → s.text f = .pristine))
  K : ∀ sec k, (prog t)[(s.th t).ip]? = some sec → (s.th t).cur = some k → k ≤ (bodyOf sec).length
  R0 : ∀ sec k f j, (prog t)[(s.th t).ip]? = some sec → (s.th t).cur = some k → (bodyOf sec)[k]? = some (.write (.restore f)) →
        (s.th t).w = some j → ∃ g, s.patches f = some g
  R : ∀ sec k f j, (prog t)[(s.th t).ip]? = some sec → (s.th t).cur = some k → (bodyOf sec)[k]? = some (.write (.restore f)) →
        (s.th t).w = some j → (L.pages f).length < j → Target f → s.text f = .pristine
  Q : ∀ sec k f, (prog t)[(s.th t).ip]? = some sec → (s.th t).cur = some k → (k = 1 ∨ k = 2) →
        (bodyOf sec)[0]? = some (.write (.restore f)) → Target f → s.text f = .pristine
  A : ∀ f g, (prog t)[(s.th t).ip]? = some (.apply f) → (s.th t).cur = some 1 → s.patches f = some g → g.applied = true
  F : ∀ i f, T ≤ i → i < (s.th t).ip → (prog t)[i]? = some (.unpatch f) → Target f → s.text f = .pristine

variable {L : Layout} {prog : Tid → List Sec} {t : Tid} {Target : Loc → Prop} {T : Nat}

theorem SInv_K {s s'} (I : SInv L prog t Target T s) (tr : Tr L prog t s s') :
    ∀ sec k, (prog t)[(s'.th t).ip]? = some sec → (s'.th t).cur = some k → k ≤ (bodyOf sec).length := by
  have K := I.K
  cases tr with
  | stutter => exact K
  | _ =>
    intro sec' k'
    simp only [th_setTh, if_true, execW_th, execT_th, logAcc_th]
    grind

theorem execW_text_noncopy (L : Layout) (t wk ws s) (h : ws ≠ WStep.copy) : (execW L t wk ws s).text = s.text := by
  cases ws with
  | copy => exact absurd rfl h
  | prot pg p => rfl

theorem SInv_J {s s'} (hplh : ∀ f g, Target f → L.plh g ≠ f) (I : SInv L prog t Target T s) (tr : Tr L prog t s s') :
    ∀ f, Target f → (s'.patches f = none → s'.text f = .pristine) ∧
        (∀ g, s'.patches f = some g → g.originBytes = .pristine ∧ (g.applied = false → s'.text f = .pristine)) := by
  have J := I.J
  cases tr with
  | stutter => exact J
  | call f a h1 h2 => exact J
  | retab f' h1 h2 =>
    intro f hf
    simp only [setTh_text, setTh_patches]
    by_cases e : f = f'
    · subst e
      simp only [upd_same]
      cases hp : s.patches f with
      | none =>
        have := (J f hf).1 hp
        simp [this, retabC]
      | some g0 =>
        refine ⟨fun h => (by simp at h), fun g hg => ?_⟩
        simp only [Option.map_some, Option.some.injEq] at hg
        subst hg
        have h0 := (J f hf).2 g0 hp
        refine ⟨h0.1, fun ha => ?_⟩
        have := h0.2 ha
        simp [this, retabC]
    · simp only [upd, e, if_false]; exact J f hf
  | acqP sec h1 h2 h3 h4 => exact J
  | relP sec k h1 h2 h3 => exact J
  | wskip sec k wk h1 h2 h3 h4 h5 => exact J
  | acqM sec k wk h1 h2 h3 h4 h5 h6 => exact J
  | relM sec k wk j h1 h2 h3 h4 h5 => exact J
  | wph sec k wk j ws h1 h2 h3 h4 h5 =>
    intro f hf
    simp only [setTh_text, setTh_patches, execW_patches]
    by_cases hc : ws = .copy
    · subst hc
      cases wk with
      | jump f' =>
        have hsec : sec = .apply f' ∧ k = 1 := by
          cases sec with
          | replace a b c => rcases body_replace a b c k _ h3 with ⟨_, e⟩ | ⟨_, e⟩ | ⟨_, e⟩ | ⟨_, _, e⟩ <;> cases e
          | apply a => rcases body_apply a k _ h3 with ⟨_, e⟩ | ⟨hk, e⟩ <;> cases e; exact ⟨rfl, hk⟩
          | unpatch a => cases (body_unpatch a k _ h3).2
          | call a b => exact (body_call a b k _ h3).elim
          | retab a => simp [bodyOf] at h3
        obtain ⟨rfl, rfl⟩ := hsec
        simp only [execW, logAcc_patches, logAcc_text]
        cases hp : s.patches f' with
        | none => exact J f hf
        | some g =>
          have ha := I.A f' g h1 h2 hp
          by_cases e : f = f'
          · subst e
            refine ⟨fun h => (by rw [hp] at h; cases h), fun g' hg' => ?_⟩
            rw [hp] at hg'; cases hg'
            exact ⟨((J f hf).2 g hp).1, fun h => (by rw [ha] at h; cases h)⟩
          · simp only [upd, e, if_false]; exact J f hf
      | restore f' =>
        simp only [execW, logAcc_patches, logAcc_text]
        cases hp : s.patches f' with
        | none => exact J f hf
        | some g =>
          by_cases e : f = f'
          · subst e
            have := ((J f hf).2 g hp).1
            simp only [upd, if_true]
            exact ⟨fun _ => this, fun g' hg' => ⟨((J f hf).2 g' hg').1, fun _ => this⟩⟩
          · simp only [upd, e, if_false]; exact J f hf
      | tramp f' =>
        simp only [execW, logAcc_patches, logAcc_text]
        have e : f ≠ L.plh f' := fun h => hplh f f' hf h.symm
        simp only [upd, e, if_false]; exact J f hf
    · rw [execW_text_noncopy L t wk ws s hc]; exact J f hf
  | tab sec k mi h1 h2 h3 h4 =>
    intro f hf
    simp only [setTh_text, setTh_patches, execT_text]
    cases mi with
    | write wk => simp [MI.isWrite] at h4
    | unregister f' =>
      have hsec : ∃ r wo, sec = .replace f' r wo ∧ k = 1 := by
        cases sec with
        | replace a b c => rcases body_replace a b c k _ h3 with ⟨_, e⟩ | ⟨hk, e⟩ | ⟨_, e⟩ | ⟨_, _, e⟩ <;> cases e; exact ⟨b, c, rfl, hk⟩
        | apply a => rcases body_apply a k _ h3 with ⟨_, e⟩ | ⟨hk, e⟩ <;> cases e
        | unpatch a => cases (body_unpatch a k _ h3).2
        | call a b => exact (body_call a b k _ h3).elim
        | retab a => simp [bodyOf] at h3
      obtain ⟨r, wo, rfl, rfl⟩ := hsec
      simp only [execT, logAcc_patches]
      by_cases e : f = f'
      · subst e
        have hq := I.Q _ 1 f h1 h2 (Or.inl rfl) (by simp [bodyOf]) hf
        simp only [upd, if_true]
        exact ⟨fun _ => hq, fun g hg => (by cases hg)⟩
      · simp only [upd, e, if_false]; exact J f hf
    | register f' r =>
      have hsec : ∃ wo, sec = .replace f' r wo ∧ k = 2 := by
        cases sec with
        | replace a b c => rcases body_replace a b c k _ h3 with ⟨_, e⟩ | ⟨hk, e⟩ | ⟨hk, e⟩ | ⟨_, _, e⟩ <;> cases e; exact ⟨c, rfl, hk⟩
        | apply a => rcases body_apply a k _ h3 with ⟨_, e⟩ | ⟨hk, e⟩ <;> cases e
        | unpatch a => cases (body_unpatch a k _ h3).2
        | call a b => exact (body_call a b k _ h3).elim
        | retab a => simp [bodyOf] at h3
      obtain ⟨wo, rfl, rfl⟩ := hsec
      simp only [execT, logAcc_patches, logAcc_text]
      by_cases e : f = f'
      · subst e
        have hq := I.Q _ 2 f h1 h2 (Or.inr rfl) (by simp [bodyOf]) hf
        simp only [upd, if_true]
        refine ⟨fun h => (by cases h), fun g hg => ?_⟩
        cases hg
        exact ⟨hq, fun _ => hq⟩
      · simp only [upd, e, if_false]; exact J f hf
    | setApplied f' =>
      simp only [execT, logAcc_patches]
      cases hp : s.patches f' with
      | none => exact J f hf
      | some g =>
        by_cases e : f = f'
        · subst e
          simp only [upd, if_true]
          refine ⟨fun h => (by cases h), fun g' hg' => ?_⟩
          cases hg'
          exact ⟨((J f hf).2 g hp).1, fun h => (by cases h)⟩
        · simp only [upd, e, if_false]; exact J f hf

theorem w_none_of_cur_none {s : St} (LI : LInv prog s) (h : (s.th t).cur = none) : (s.th t).w = none := by
  cases hw : (s.th t).w with
  | none => rfl
  | some j => have := (LI.mm t (by simp [hw])).2; simp [h] at this

theorem w_none_at_tab {s : St} (LI : LInv prog s) {sec k mi} (h1 : (prog t)[(s.th t).ip]? = some sec) (h2 : (s.th t).cur = some k)
    (h3 : (bodyOf sec)[k]? = some mi) (h4 : mi.isWrite = false) : (s.th t).w = none := by
  cases hw : (s.th t).w with
  | none => rfl
  | some j =>
    obtain ⟨sec', k', wk, e1, e2, e3⟩ := LI.wpos t (by simp [hw])
    rw [h1] at e1; injection e1 with e1; subst e1
    rw [h2] at e2; injection e2 with e2; subst e2
    rw [h3] at e3; injection e3 with e3; subst e3
    simp [MI.isWrite] at h4

theorem SInv_R0 {s s'} (LI : LInv prog s) (I : SInv L prog t Target T s) (tr : Tr L prog t s s') :
    ∀ sec k f j, (prog t)[(s'.th t).ip]? = some sec → (s'.th t).cur = some k → (bodyOf sec)[k]? = some (.write (.restore f)) →
        (s'.th t).w = some j → ∃ g, s'.patches f = some g := by
  have R0 := I.R0
  cases tr with
  | stutter => exact R0
  | call f a h1 h2 => intro sec k f j; simp [th_setTh, h2]
  | retab f' h1 h2 => intro sec k f j; simp [th_setTh, h2]
  | acqP sec h1 h2 h3 h4 => intro sec k f j; simp [th_setTh, w_none_of_cur_none LI h2]
  | relP sec k h1 h2 h3 => intro sec k f j; simp [th_setTh]
  | wskip sec k wk h1 h2 h3 h4 h5 => intro sec k f j; simp [th_setTh, h4]
  | relM sec k wk j h1 h2 h3 h4 h5 => intro sec k f j; simp [th_setTh]
  | tab sec k mi h1 h2 h3 h4 => intro sec k f j; simp [th_setTh, w_none_at_tab LI h1 h2 h3 h4]
  | acqM sec k wk h1 h2 h3 h4 h5 h6 =>
    intro sec' k' f j
    simp only [th_setTh, if_true, setTh_patches, logAcc_patches]
    intro e1 e2 e3 _
    rw [h1] at e1; injection e1 with e1; subst e1
    rw [h2] at e2; injection e2 with e2; subst e2
    rw [h3] at e3; injection e3 with e3; injection e3 with e3; subst e3
    simp only [wcond, logAcc_patches] at h5
    cases hp : s.patches f with
    | none => simp [hp] at h5
    | some g => exact ⟨g, rfl⟩
  | wph sec k wk j ws h1 h2 h3 h4 h5 =>
    intro sec' k' f j'
    simp only [th_setTh, if_true, setTh_patches, execW_patches]
    intro e1 e2 e3 _
    exact R0 sec' k' f j e1 e2 e3 h4

theorem wscript_len (L : Layout) (wk : WKind) : (wscript L wk).length = 2 * (L.pages (wloc L wk)).length + 1 := by
  simp [wscript]; omega

theorem SInv_R {s s'} (LI : LInv prog s) (I : SInv L prog t Target T s) (tr : Tr L prog t s s') :
    ∀ sec k f j, (prog t)[(s'.th t).ip]? = some sec → (s'.th t).cur = some k → (bodyOf sec)[k]? = some (.write (.restore f)) →
        (s'.th t).w = some j → (L.pages f).length < j → Target f → s'.text f = .pristine := by
  have R := I.R
  cases tr with
  | stutter => exact R
  | call f a h1 h2 => intro sec k f j; simp [th_setTh, h2]
  | retab f' h1 h2 => intro sec k f j; simp [th_setTh, h2]
  | acqP sec h1 h2 h3 h4 => intro sec k f j; simp [th_setTh, w_none_of_cur_none LI h2]
  | relP sec k h1 h2 h3 => intro sec k f j; simp [th_setTh]
  | wskip sec k wk h1 h2 h3 h4 h5 => intro sec k f j; simp [th_setTh, h4]
  | relM sec k wk j h1 h2 h3 h4 h5 => intro sec k f j; simp [th_setTh]
  | tab sec k mi h1 h2 h3 h4 => intro sec k f j; simp [th_setTh, w_none_at_tab LI h1 h2 h3 h4]
  | acqM sec k wk h1 h2 h3 h4 h5 h6 =>
    intro sec' k' f j
    simp only [th_setTh, if_true]
    intro _ _ _ e4 hlt; injection e4 with e4; omega
  | wph sec k wk j ws h1 h2 h3 h4 h5 =>
    intro sec' k' f j'
    simp only [th_setTh, if_true, setTh_text]
    intro e1 e2 e3 e4 hlt hT
    injection e4 with e4; subst e4
    have e1' := e1; rw [h1] at e1'; injection e1' with e1'; subst e1'
    have e2' := e2; rw [h2] at e2'; injection e2' with e2'; subst e2'
    have e3' := e3; rw [h3] at e3'; injection e3' with e3'; injection e3' with e3'; subst e3'
    by_cases hc : ws = .copy
    · subst hc
      obtain ⟨g, hg⟩ := I.R0 _ _ f j e1 e2 e3 h4
      simp only [execW, logAcc_patches, logAcc_text, hg, upd_same]
      exact ((I.J f hT).2 g hg).1
    · rw [execW_text_noncopy L t _ ws s hc]
      have hne : j ≠ (L.pages f).length := fun e => hc ((wscript_copy L (.restore f) j ws h5).2 (by simpa [wloc] using e))
      exact R _ _ f j e1 e2 e3 h4 (by omega) hT

theorem body_q (sec : Sec) (f : Loc) (k : Nat) (wk : WKind) (h0 : (bodyOf sec)[0]? = some (.write (.restore f))) (hk : k = 1 ∨ k = 2)
    (h : (bodyOf sec)[k]? = some (.write wk)) : False := by
  cases sec with
  | replace a b c => rcases body_replace a b c k _ h with ⟨e, _⟩ | ⟨_, e⟩ | ⟨_, e⟩ | ⟨e, _, _⟩ <;> first | omega | cases e
  | apply a => simp [bodyOf] at h0
  | unpatch a => have := (body_unpatch a k _ h).1; omega
  | call a b => simp [bodyOf] at h0
  | retab a => simp [bodyOf] at h0

theorem SInv_Q {s s'} (LI : LInv prog s) (I : SInv L prog t Target T s) (tr : Tr L prog t s s') :
    ∀ sec k f, (prog t)[(s'.th t).ip]? = some sec → (s'.th t).cur = some k → (k = 1 ∨ k = 2) →
        (bodyOf sec)[0]? = some (.write (.restore f)) → Target f → s'.text f = .pristine := by
  have Q := I.Q
  cases tr with
  | stutter => exact Q
  | call f a h1 h2 => intro sec k f; simp [th_setTh, h2]
  | retab f' h1 h2 => intro sec k f; simp [th_setTh, h2]
  | acqP sec h1 h2 h3 h4 => intro sec k f; simp only [th_setTh, if_true]; intro _ e; injection e with e; omega
  | relP sec k h1 h2 h3 => intro sec k f; simp [th_setTh]
  | acqM sec k wk h1 h2 h3 h4 h5 h6 => intro sec' k' f; simp only [th_setTh, if_true, setTh_text, logAcc_text]; exact Q sec' k' f
  | wph sec k wk j ws h1 h2 h3 h4 h5 =>
    intro sec' k' f
    simp only [th_setTh, if_true, setTh_text]
    intro e1 e2 hk e0 hT
    rw [h1] at e1; injection e1 with e1; subst e1
    rw [h2] at e2; injection e2 with e2; subst e2
    exact (body_q sec f k wk e0 hk h3).elim
  | tab sec k mi h1 h2 h3 h4 =>
    intro sec' k' f
    simp only [th_setTh, if_true, setTh_text, execT_text]
    intro e1 e2 hk e0 hT
    injection e2 with e2
    rw [h1] at e1; injection e1 with e1; subst e1
    have hk1 : k = 1 := by
      rcases hk with hk | hk
      · have : k = 0 := by omega
        subst this; rw [e0] at h3; injection h3 with h3; subst h3; simp [MI.isWrite] at h4
      · omega
    exact Q sec k f h1 h2 (Or.inl hk1) e0 hT
  | wskip sec k wk h1 h2 h3 h4 h5 =>
    intro sec' k' f
    simp only [th_setTh, if_true, setTh_text, logAcc_text]
    intro e1 e2 hk e0 hT
    injection e2 with e2
    rw [h1] at e1; injection e1 with e1; subst e1
    rcases hk with hk | hk
    · have : k = 0 := by omega
      subst this; rw [e0] at h3; injection h3 with h3; injection h3 with h3; subst h3
      simp only [wcond, logAcc_patches] at h5
      cases hp : s.patches f with
      | none => exact (I.J f hT).1 hp
      | some g => rw [hp] at h5; exact ((I.J f hT).2 g hp).2 (by simpa using h5)
    · exact Q sec k f h1 h2 (Or.inl (by omega)) e0 hT
  | relM sec k wk j h1 h2 h3 h4 h5 =>
    intro sec' k' f
    simp only [th_setTh, if_true, setTh_text]
    intro e1 e2 hk e0 hT
    injection e2 with e2
    rw [h1] at e1; injection e1 with e1; subst e1
    rcases hk with hk | hk
    · have : k = 0 := by omega
      subst this
      have h3' := h3; rw [e0] at h3'; injection h3' with h3'; injection h3' with h3'; subst h3'
      have hl := wscript_len L (.restore f)
      have : (wscript L (.restore f)).length ≤ j := by
        rcases Nat.lt_or_ge j (wscript L (.restore f)).length with h | h
        · rw [List.getElem?_eq_getElem h] at h5; cases h5
        · exact h
      simp only [wloc] at hl
      exact I.R sec 0 f j h1 h2 h3 h4 (by omega) hT
    · exact Q sec k f h1 h2 (Or.inl (by omega)) e0 hT

theorem SInv_A {s s'} (LI : LInv prog s) (I : SInv L prog t Target T s) (tr : Tr L prog t s s') :
    ∀ f g, (prog t)[(s'.th t).ip]? = some (.apply f) → (s'.th t).cur = some 1 → s'.patches f = some g → g.applied = true := by
  have A := I.A
  cases tr with
  | stutter => exact A
  | call f a h1 h2 => intro f g; simp [th_setTh, h2]
  | retab f' h1 h2 => intro f g; simp [th_setTh, h2]
  | acqP sec h1 h2 h3 h4 => intro f g; simp only [th_setTh, if_true]; intro _ e; injection e with e; omega
  | relP sec k h1 h2 h3 => intro f g; simp [th_setTh]
  | acqM sec k wk h1 h2 h3 h4 h5 h6 => intro f g; simp only [th_setTh, if_true, setTh_patches, logAcc_patches]; exact A f g
  | wph sec k wk j ws h1 h2 h3 h4 h5 => intro f g; simp only [th_setTh, if_true, setTh_patches, execW_patches]; exact A f g
  | wskip sec k wk h1 h2 h3 h4 h5 =>
    intro f g
    simp only [th_setTh, if_true]
    intro e1 e2
    injection e2 with e2
    rw [h1] at e1; injection e1 with e1; subst e1
    have : k = 0 := by omega
    subst this; simp [bodyOf] at h3
  | relM sec k wk j h1 h2 h3 h4 h5 =>
    intro f g
    simp only [th_setTh, if_true]
    intro e1 e2
    injection e2 with e2
    rw [h1] at e1; injection e1 with e1; subst e1
    have : k = 0 := by omega
    subst this; simp [bodyOf] at h3
  | tab sec k mi h1 h2 h3 h4 =>
    intro f g
    simp only [th_setTh, if_true, setTh_patches]
    intro e1 e2
    injection e2 with e2
    rw [h1] at e1; injection e1 with e1; subst e1
    have : k = 0 := by omega
    subst this
    simp [bodyOf] at h3; subst h3
    simp only [execT, logAcc_patches]
    cases hp : s.patches f with
    | none => simp [hp]
    | some g0 => simp only [upd_same]; intro e; injection e with e; subst e; rfl

theorem SInv_F {s s'} (htail : ∀ i sec, T ≤ i → (prog t)[i]? = some sec → (∃ f, sec = .unpatch f) ∨ (∃ f a, sec = .call f a))
    (I : SInv L prog t Target T s) (tr : Tr L prog t s s') :
    ∀ i f, T ≤ i → i < (s'.th t).ip → (prog t)[i]? = some (.unpatch f) → Target f → s'.text f = .pristine := by
  have F := I.F
  cases tr with
  | stutter => exact F
  | acqP sec h1 h2 h3 h4 => intro i f; simp only [th_setTh, if_true, setTh_text, logAcc_text]; exact F i f
  | wskip sec k wk h1 h2 h3 h4 h5 => intro i f; simp only [th_setTh, if_true, setTh_text, logAcc_text]; exact F i f
  | acqM sec k wk h1 h2 h3 h4 h5 h6 => intro i f; simp only [th_setTh, if_true, setTh_text, logAcc_text]; exact F i f
  | relM sec k wk j h1 h2 h3 h4 h5 => intro i f; simp only [th_setTh, if_true, setTh_text, logAcc_text]; exact F i f
  | tab sec k mi h1 h2 h3 h4 => intro i f; simp only [th_setTh, if_true, setTh_text, execT_text]; exact F i f
  | retab f' h1 h2 =>
    intro i f
    simp only [th_setTh, if_true, setTh_text]
    intro hT hi e hTg
    have hb : s.text f = .pristine := by
      by_cases hi' : i < (s.th t).ip
      · exact F i f hT hi' e hTg
      · have : i = (s.th t).ip := by omega
        subst this; rw [h1] at e; cases e
    by_cases ef : f = f'
    · subst ef; simp [upd, hb, retabC]
    · simp only [upd, ef, if_false]; exact hb
  | call f a h1 h2 =>
    intro i f'
    simp only [th_setTh, if_true, setTh_text]
    intro hT hi e hTg
    by_cases hi' : i < (s.th t).ip
    · exact F i f' hT hi' e hTg
    · have : i = (s.th t).ip := by omega
      subst this; rw [h1] at e; cases e
  | relP sec k h1 h2 h3 =>
    intro i f'
    simp only [th_setTh, if_true, setTh_text]
    intro hT hi e hTg
    by_cases hi' : i < (s.th t).ip
    · exact F i f' hT hi' e hTg
    · have : i = (s.th t).ip := by omega
      subst this; rw [h1] at e; injection e with e; subst e
      have hk := I.K _ k h1 h2
      have hk2 : (bodyOf (Sec.unpatch f')).length ≤ k := by
        rcases Nat.lt_or_ge k (bodyOf (Sec.unpatch f')).length with h | h
        · rw [List.getElem?_eq_getElem h] at h3; cases h3
        · exact h
      simp [bodyOf] at hk hk2
      have : k = 1 := by omega
      subst this
      exact I.Q _ 1 f' h1 h2 (Or.inl rfl) (by simp [bodyOf]) hTg
  | wph sec k wk j ws h1 h2 h3 h4 h5 =>
    intro i f
    simp only [th_setTh, if_true, setTh_text]
    intro hT hi e hTg
    have hb := F i f hT hi e hTg
    by_cases hc : ws = .copy
    · subst hc
      rcases htail (s.th t).ip sec (by omega) h1 with ⟨f', rfl⟩ | ⟨f', a, rfl⟩
      · have := (body_unpatch f' k _ h3).2
        injection this with this; subst this
        simp only [execW, logAcc_patches, logAcc_text]
        cases hp : s.patches f' with
        | none => exact hb
        | some g =>
          by_cases ef : f = f'
          · subst ef; simp only [upd_same]; exact ((I.J f hTg).2 g hp).1
          · simp only [upd, ef, if_false]; exact hb
      · exact (body_call f' a k _ h3).elim
    · rw [execW_text_noncopy L t wk ws s hc]; exact hb

theorem SInv_tr {s s'} (hplh : ∀ f g, Target f → L.plh g ≠ f)
    (htail : ∀ i sec, T ≤ i → (prog t)[i]? = some sec → (∃ f, sec = .unpatch f) ∨ (∃ f a, sec = .call f a))
    (LI : LInv prog s) (I : SInv L prog t Target T s) (tr : Tr L prog t s s') : SInv L prog t Target T s' :=
  ⟨SInv_J hplh I tr, SInv_K I tr, SInv_R0 LI I tr, SInv_R LI I tr, SInv_Q LI I tr, SInv_A LI I tr, SInv_F htail I tr⟩

theorem SInv_init : SInv L prog t Target T (init (fun _ => .pristine)) := by
  constructor <;> simp [init]

theorem SInv_solo (hplh : ∀ f g, Target f → L.plh g ≠ f)
    (htail : ∀ i sec, T ≤ i → (prog t)[i]? = some sec → (∃ f, sec = .unpatch f) ∨ (∃ f a, sec = .call f a))
    (n : Nat) (s : St) (LI : LInv prog s) (I : SInv L prog t Target T s) :
    SInv L prog t Target T (solo L prog t n s) := by
  induction n generalizing s with
  | zero => exact I
  | succ n ih =>
    have tr := step_tr L prog t s
    exact ih _ (LInv_tr LI tr) (SInv_tr hplh htail LI I tr)

/-- a builder thread whose program ends with `unpatch` of every target it writes ends pristine when run alone -/
theorem seq_restored (hplh : ∀ f g, Target f → L.plh g ≠ f)
    (htail : ∀ i sec, T ≤ i → (prog t)[i]? = some sec → (∃ f, sec = .unpatch f) ∨ (∃ f a, sec = .call f a))
    (hcover : ∀ f, Target f → Writes L prog t f → ∃ i, T ≤ i ∧ (prog t)[i]? = some (.unpatch f))
    (n : Nat) (hd : done prog (solo L prog t n (init (fun _ => .pristine))) t) (f : Loc) (hT : Target f) (hw : Writes L prog t f) :
    (solo L prog t n (init (fun _ => .pristine))).text f = .pristine := by
  have I := SInv_solo (T := T) hplh htail n _ (LInv_init prog _) (SInv_init (L := L) (prog := prog) (t := t) (Target := Target) (T := T))
  obtain ⟨i, hi, he⟩ := hcover f hT hw
  have hlt : i < (prog t).length := by
    rcases Nat.lt_or_ge i (prog t).length with h | h
    · exact h
    · rw [List.getElem?_eq_none h] at he; cases he
  exact I.F i f hi (Nat.lt_of_lt_of_le hlt hd.1) he hT

/-! ## the generator's program class has the tail shape -/

theorem mem_insertSorted (x f : Nat) (m : List Nat) : x ∈ insertSorted f m ↔ x = f ∨ x ∈ m := by
  induction m with
  | nil => simp [insertSorted]
  | cons y ys ih =>
    simp only [insertSorted]
    split
    · simp
    · split
      · rename_i h; subst h; simp
      · simp [ih]; constructor <;> (intro h; rcases h with h | h | h <;> simp [h])

theorem compileOps_append (tg : List Loc) (a b : List BOp) (m : List Loc) :
    compileOps tg (a ++ b) m = compileOps tg a m ++ compileOps tg b (mockedAfter a m) := by
  induction a generalizing m with
  | nil => simp [compileOps, mockedAfter]
  | cons op rest ih => cases op <;> simp [compileOps, mockedAfter, ih]

/-- every generated builder program (`… ; reset ; chk`) is in the class -/
theorem builderProg_eq (tg : List Loc) (ops : List BOp) : compileOps tg (ops ++ [.reset, .chk]) [] = builderProg tg ops := by
  simp [compileOps_append, builderProg, compileOps]

theorem mocked_mono (ops : List BOp) (m : List Loc) (x : Loc) (h : x ∈ m) : x ∈ mockedAfter ops m := by
  induction ops generalizing m with
  | nil => exact h
  | cons op rest ih => cases op <;> simp only [mockedAfter] <;> apply ih <;> simp [mem_insertSorted, h]

theorem mem_chkSecs (tg : List Loc) (sec : Sec) (h : sec ∈ chkSecs tg) : ∃ f a, sec = .call f a := by
  simp only [chkSecs, List.mem_flatMap, List.mem_cons, List.not_mem_nil, or_false] at h
  obtain ⟨f, _, h | h⟩ := h
  · exact ⟨f, 3, h⟩
  · exact ⟨f, 1, h⟩

theorem compile_writes (L : Layout) (tg : List Loc) (ops : List BOp) (m : List Loc) (sec : Sec) (hs : sec ∈ compileOps tg ops m)
    (f : Loc) (hf : f ∈ writesOf L sec) (hT : ∀ g, L.plh g ≠ f) : f ∈ mockedAfter ops m := by
  induction ops generalizing m with
  | nil => simp [compileOps] at hs
  | cons op rest ih =>
    cases op with
    | mock f' r wo =>
      simp only [compileOps, List.mem_append, List.mem_cons, List.not_mem_nil, or_false] at hs
      rcases hs with (rfl | rfl) | hs
      · have : f = f' := by
          cases wo <;> simp [writesOf] at hf
          · exact hf
          · rcases hf with h | h
            · exact h
            · exact (hT f' h.symm).elim
        subst this
        exact mocked_mono rest _ f (by simp [mem_insertSorted])
      · simp [writesOf] at hf; subst hf
        exact mocked_mono rest _ f (by simp [mem_insertSorted])
      · exact ih _ hs
    | chk =>
      simp only [compileOps, List.mem_append] at hs
      rcases hs with hs | hs
      · obtain ⟨g, a, rfl⟩ := mem_chkSecs tg sec hs
        simp [writesOf] at hf
      · exact ih _ hs
    | reset =>
      simp only [compileOps, List.mem_append, List.mem_map] at hs
      rcases hs with ⟨g, hg, rfl⟩ | hs
      · simp [writesOf] at hf; subst hf
        exact mocked_mono rest _ f hg
      · exact ih _ hs
    | ext f' =>
      simp only [compileOps, List.mem_append] at hs
      rcases hs with hs | hs
      · by_cases hm : f' ∈ m
        · simp [hm] at hs; subst hs
          simp [writesOf] at hf; subst hf
          exact mocked_mono rest _ f hm
        · simp [hm] at hs
      · exact ih _ hs

theorem builder_tail (tg : List Loc) (ops : List BOp) (i : Nat) (sec : Sec) (hi : (compileOps tg ops []).length ≤ i)
    (h : (builderProg tg ops)[i]? = some sec) : (∃ f, sec = .unpatch f) ∨ (∃ f a, sec = .call f a) := by
  unfold builderProg at h
  rw [List.getElem?_append_right hi] at h
  have hm := List.mem_of_getElem? h
  simp only [List.mem_append, List.mem_map] at hm
  rcases hm with ⟨f, _, rfl⟩ | hm
  · exact Or.inl ⟨f, rfl⟩
  · exact Or.inr (mem_chkSecs tg sec hm)

theorem builder_cover (L : Layout) (tg : List Loc) (ops : List BOp) (f : Loc) (hT : ∀ g, L.plh g ≠ f)
    (hw : ∃ sec ∈ builderProg tg ops, f ∈ writesOf L sec) :
    ∃ i, (compileOps tg ops []).length ≤ i ∧ (builderProg tg ops)[i]? = some (.unpatch f) := by
  obtain ⟨sec, hs, hf⟩ := hw
  have hm : f ∈ mockedAfter ops [] := by
    unfold builderProg at hs
    simp only [List.mem_append, List.mem_map] at hs
    rcases hs with hs | ⟨g, hg, rfl⟩ | hs
    · exact compile_writes L tg ops [] sec hs f hf hT
    · simp [writesOf] at hf; subst hf; exact hg
    · obtain ⟨g, a, rfl⟩ := mem_chkSecs tg sec hs
      simp [writesOf] at hf
  obtain ⟨j, hj, hje⟩ := List.getElem_of_mem hm
  refine ⟨(compileOps tg ops []).length + j, Nat.le_add_right _ _, ?_⟩
  unfold builderProg
  rw [List.getElem?_append_right (Nat.le_add_right _ _)]
  simp only [Nat.add_sub_cancel_left]
  rw [List.getElem?_append_left (by simpa using hj)]
  simp [hj, hje]

/-! ## quiet states: theorems from any state between operations (steady mocks in place) -/

/-- a state between operations: no lock held, no thread inside a section, all pages executable, history well-locked -/
structure Quiet (s : St) : Prop where
  lp : s.lockP = none
  lm : s.lockM = none
  cur : ∀ t, (s.th t).cur = none
  w : ∀ t, (s.th t).w = none
  x : XInv s
  acc : AccOk s.acc

theorem quiet_init (text) : Quiet (init text) := by
  constructor <;> simp [init, XInv, AccOk]

theorem LInv_of_quiet (prog : Tid → List Sec) {s : St} (q : Quiet s) : LInv prog s := by
  refine ⟨?_, ?_, ?_, ?_, ?_, q.acc⟩
  · intro t h; simp [q.cur t] at h
  · intro t h; simp [q.lp] at h
  · intro t h; simp [q.w t] at h
  · intro t h; simp [q.lm] at h
  · intro t h; simp [q.w t] at h

theorem Agree_of_quiet (L prog t) {s : St} (q : Quiet s) : Agree L prog t s s :=
  ⟨rfl, fun _ _ => ⟨rfl, rfl⟩, q.x, q.x, LInv_of_quiet prog q, LInv_of_quiet prog q, Or.inl q.lp, Or.inl q.lm⟩

/-- when every thread is between sections the state is quiet again -/
theorem quiet_of_idle {prog : Tid → List Sec} {s : St} (I : LInv prog s) (x : XInv s) (h : ∀ t, (s.th t).cur = none) : Quiet s := by
  have hw : ∀ t, (s.th t).w = none := fun t => by
    cases hw : (s.th t).w with
    | none => rfl
    | some j => have := (I.mm t (by simp [hw])).2; simp [h t] at this
  refine ⟨?_, ?_, h, hw, x, I.accOk⟩
  · cases hl : s.lockP with
    | none => rfl
    | some u => have := I.mpc u hl; simp [h u] at this
  · cases hl : s.lockM with
    | none => rfl
    | some u => have := I.mmc u hl; simp [hw u] at this

/-- the sequential fact about a location that a reset relies on -/
def JAt (Target : Loc → Prop) (s : St) : Prop :=
  ∀ f, Target f → (s.patches f = none → s.text f = .pristine) ∧
    (∀ g, s.patches f = some g → g.originBytes = .pristine ∧ (g.applied = false → s.text f = .pristine))

variable {L : Layout} {prog : Tid → List Sec} {t : Tid} {Target : Loc → Prop} {T : Nat}

theorem SInv_of_quiet {s : St} (q : Quiet s) (j : JAt Target s) (hip : (s.th t).ip ≤ T) : SInv L prog t Target T s := by
  refine ⟨j, ?_, ?_, ?_, ?_, ?_, ?_⟩
  · intro sec k _ h; simp [q.cur t] at h
  · intro sec k f jj _ h; simp [q.cur t] at h
  · intro sec k f jj _ h; simp [q.cur t] at h
  · intro sec k f _ h; simp [q.cur t] at h
  · intro f g _ h; simp [q.cur t] at h
  · intro i f h1 h2; omega

theorem JAt_solo (hplh : ∀ f g, Target f → L.plh g ≠ f)
    (htail : ∀ i sec, T ≤ i → (prog t)[i]? = some sec → (∃ f, sec = .unpatch f) ∨ (∃ f a, sec = .call f a))
    {s0 : St} (q : Quiet s0) (j : JAt Target s0) (hip : (s0.th t).ip ≤ T) (n : Nat) : JAt Target (solo L prog t n s0) :=
  (SInv_solo hplh htail n s0 (LInv_of_quiet prog q) (SInv_of_quiet q j hip)).J

/-- `seq_restored` from any quiet state in which the sequential fact holds -/
theorem seq_restored_from (hplh : ∀ f g, Target f → L.plh g ≠ f)
    (htail : ∀ i sec, T ≤ i → (prog t)[i]? = some sec → (∃ f, sec = .unpatch f) ∨ (∃ f a, sec = .call f a))
    (hcover : ∀ f, Target f → Writes L prog t f → ∃ i, T ≤ i ∧ (prog t)[i]? = some (.unpatch f))
    {s0 : St} (q : Quiet s0) (j : JAt Target s0) (hip : (s0.th t).ip ≤ T)
    (n : Nat) (hd : done prog (solo L prog t n s0) t) (f : Loc) (hT : Target f) (hw : Writes L prog t f) :
    (solo L prog t n s0).text f = .pristine := by
  have I := SInv_solo (T := T) hplh htail n s0 (LInv_of_quiet prog q) (SInv_of_quiet (L := L) q j hip)
  obtain ⟨i, hi, he⟩ := hcover f hT hw
  have hlt : i < (prog t).length := by
    rcases Nat.lt_or_ge i (prog t).length with h | h
    · exact h
    · rw [List.getElem?_eq_none h] at he; cases he
  exact I.F i f hi (Nat.lt_of_lt_of_le hlt hd.1) he hT

/-- nobody writes `f` ⇒ its text and patch-table entry never change -/
theorem nowriter_frame_run (L prog) (σ : List Tid) (s : St) (f : Loc) (hf : NoWriter L prog f) :
    (run L prog σ s).text f = s.text f ∧ (run L prog σ s).patches f = s.patches f := by
  induction σ generalizing s with
  | nil => exact ⟨rfl, rfl⟩
  | cons u σ ih =>
    have h1 := frame_tr (step_tr L prog u s) f (hf u)
    have h2 := ih (step L prog u s)
    simp only [run]; rw [h2.1, h2.2]; exact h1

theorem XInv_run (L prog) (σ : List Tid) (s : St) (h : XInv s) : XInv (run L prog σ s) := by
  induction σ generalizing s with
  | nil => exact h
  | cons u σ ih => exact ih _ (XInv_tr h (step_tr L prog u s))

/-! ## results of a thread's own calls under solo simulation -/

def callsOf (t : Tid) (s : St) : List (Tid × Nat × Option Nat) := s.calls.filter (fun c => c.1 = t)

theorem tr_calls {L prog u s s1} (tr : Tr L prog u s s1) :
    s1.calls = s.calls ∨ ∃ f a, (prog u)[(s.th u).ip]? = some (.call f a) ∧ (s.th u).cur = none ∧
      s1.calls = (u, (s.th u).ip, callAt L s f a) :: s.calls := by
  cases tr with
  | call f a h1 h2 => exact Or.inr ⟨f, a, h1, h2, rfl⟩
  | wph sec k wk j ws h1 h2 h3 h4 h5 => left; simp [execW_calls]
  | tab sec k mi h1 h2 h3 h4 => left; simp [execT_calls]
  | _ => exact Or.inl rfl

theorem callsOf_other {L prog u t s} (hu : u ≠ t) : callsOf t (step L prog u s) = callsOf t s := by
  rcases tr_calls (step_tr L prog u s) with h | ⟨f, a, _, _, h⟩
  · simp [callsOf, h]
  · simp [callsOf, h, hu]

theorem callsOf_self {L prog t s s'} (A : Agree L prog t s s') (hc : callsOf t s = callsOf t s')
    (hstep : Agree L prog t (step L prog t s) (step L prog t s')) :
    callsOf t (step L prog t s) = callsOf t (step L prog t s') := by
  rcases tr_calls (step_tr L prog t s) with h | ⟨f, a, h1, h2, h⟩
  · rcases tr_calls (step_tr L prog t s') with h' | ⟨f', a', h1', h2', h'⟩
    · simp [callsOf, h, h']; exact hc
    · -- s' performs a call, so s does too (same control state, calls never block)
      exfalso
      rw [← A.th] at h1' h2'
      have : step L prog t s = setTh { s with calls := (t, (s.th t).ip, callAt L s f' a') :: s.calls } t { s.th t with ip := (s.th t).ip + 1 } := by
        unfold step; simp only [h1', h2']
      rw [this] at h
      simp at h
  · have h1' := h1; have h2' := h2
    rw [A.th] at h1' h2'
    have e : step L prog t s' = setTh { s' with calls := (t, (s'.th t).ip, callAt L s' f a) :: s'.calls } t { s'.th t with ip := (s'.th t).ip + 1 } := by
      unfold step; simp only [h1', h2']
    have hcong : callAt L s f a = callAt L s' f a :=
      callAt_congr L s s' f a A.x A.x' (A.loc f ⟨_, List.mem_of_getElem? h1, by simp [mentionsOf]⟩).1
        (A.loc (L.plh f) ⟨_, List.mem_of_getElem? h1, by simp [mentionsOf]⟩).1
    simp only [callsOf, h, e, setTh_calls, List.filter_cons, if_true, decide_true]
    rw [hcong, A.th]
    congr 1

/-- solo simulation including the results of the thread's own calls -/
theorem solo_sim_calls (L prog) (hd : Disjoint L prog) (t : Tid) (σ : List Tid) (s s' : St) (A : Agree L prog t s s')
    (hc : callsOf t s = callsOf t s') :
    ∃ n, Agree L prog t (run L prog σ s) (solo L prog t n s') ∧ callsOf t (run L prog σ s) = callsOf t (solo L prog t n s') := by
  induction σ generalizing s s' with
  | nil => exact ⟨0, A, hc⟩
  | cons u σ ih =>
    by_cases hu : u = t
    · subst hu
      rcases agree_self A with h | h
      · simp only [run, h]; exact ih s s' A hc
      · obtain ⟨n, hn⟩ := ih _ _ h (callsOf_self A hc h)
        exact ⟨n + 1, hn⟩
    · exact ih _ s' (agree_other hd hu A) (by rw [callsOf_other hu]; exact hc)

end Conc
