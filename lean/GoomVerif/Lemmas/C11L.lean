import GoomVerif.Model.Conc
/-! Lemmas for C11: a relational characterisation of `Conc.step`, field lemmas, and the lock invariants. -/
set_option linter.unusedSimpArgs false
set_option linter.unusedVariables false
namespace Conc

def Sec.isCall : Sec → Bool
  | .call _ _ => true
  | _ => false
def MI.isWrite : MI → Bool
  | .write _ => true
  | _ => false

inductive Tr (L : Layout) (prog : Tid → List Sec) (t : Tid) (s : St) : St → Prop
  | stutter : Tr L prog t s s
  | call (f a) (h1 : (prog t)[(s.th t).ip]? = some (.call f a)) (h2 : (s.th t).cur = none) :
      Tr L prog t s (setTh { s with calls := (t, (s.th t).ip, callAt L s f a) :: s.calls } t { s.th t with ip := (s.th t).ip + 1 })
  | acqP (sec) (h1 : (prog t)[(s.th t).ip]? = some sec) (h2 : (s.th t).cur = none) (h3 : sec.isCall = false) (h4 : s.lockP = none) :
      Tr L prog t s (setTh { s with lockP := some t } t { s.th t with cur := some 0 })
  | relP (sec k) (h1 : (prog t)[(s.th t).ip]? = some sec) (h2 : (s.th t).cur = some k) (h3 : (bodyOf sec)[k]? = none) :
      Tr L prog t s (setTh { s with lockP := none } t { ip := (s.th t).ip + 1, cur := none, w := none })
  | wskip (sec k wk) (h1 : (prog t)[(s.th t).ip]? = some sec) (h2 : (s.th t).cur = some k) (h3 : (bodyOf sec)[k]? = some (.write wk))
      (h4 : (s.th t).w = none) (h5 : wcond (logAcc s t .patches false) wk = false) :
      Tr L prog t s (setTh (logAcc s t .patches false) t { s.th t with cur := some (k + 1) })
  | acqM (sec k wk) (h1 : (prog t)[(s.th t).ip]? = some sec) (h2 : (s.th t).cur = some k) (h3 : (bodyOf sec)[k]? = some (.write wk))
      (h4 : (s.th t).w = none) (h5 : wcond (logAcc s t .patches false) wk = true) (h6 : s.lockM = none) :
      Tr L prog t s (setTh { logAcc s t .patches false with lockM := some t } t { s.th t with w := some 0 })
  | relM (sec k wk j) (h1 : (prog t)[(s.th t).ip]? = some sec) (h2 : (s.th t).cur = some k) (h3 : (bodyOf sec)[k]? = some (.write wk))
      (h4 : (s.th t).w = some j) (h5 : (wscript L wk)[j]? = none) :
      Tr L prog t s (setTh { s with lockM := none } t { s.th t with cur := some (k + 1), w := none })
  | wph (sec k wk j ws) (h1 : (prog t)[(s.th t).ip]? = some sec) (h2 : (s.th t).cur = some k) (h3 : (bodyOf sec)[k]? = some (.write wk))
      (h4 : (s.th t).w = some j) (h5 : (wscript L wk)[j]? = some ws) :
      Tr L prog t s (setTh (execW L t wk ws s) t { s.th t with w := some (j + 1) })
  | tab (sec k mi) (h1 : (prog t)[(s.th t).ip]? = some sec) (h2 : (s.th t).cur = some k) (h3 : (bodyOf sec)[k]? = some mi)
      (h4 : mi.isWrite = false) :
      Tr L prog t s (setTh (execT t mi s) t { s.th t with cur := some (k + 1) })

theorem step_tr (L prog t s) : Tr L prog t s (step L prog t s) := by
  unfold step
  simp only []
  split
  · exact .stutter
  · rename_i sec h1
    split
    · rename_i h2
      split
      · exact .call _ _ h1 h2
      · rename_i hn
        split
        · rename_i h4
          refine .acqP sec h1 h2 ?_ h4
          cases sec <;> simp_all [Sec.isCall]
        · exact .stutter
    · rename_i k h2
      split
      · rename_i h3; exact .relP sec k h1 h2 h3
      · rename_i wk h3
        split
        · rename_i h4
          split
          · rename_i h5
            split
            · rename_i h6; exact .acqM sec k wk h1 h2 h3 h4 h5 h6
            · exact .stutter
          · rename_i h5; exact .wskip sec k wk h1 h2 h3 h4 (by simpa using h5)
        · rename_i j h4
          split
          · rename_i h5; exact .relM sec k wk j h1 h2 h3 h4 h5
          · rename_i ws h5; exact .wph sec k wk j ws h1 h2 h3 h4 h5
      · rename_i mi hn h3
        refine .tab sec k mi h1 h2 h3 ?_
        cases mi <;> simp_all [MI.isWrite]

/-! ## field lemmas -/

@[simp] theorem setTh_th_same (s : St) (t h) : (setTh s t h).th t = h := by simp [setTh]
theorem setTh_th_other (s : St) (t u h) (hu : u ≠ t) : (setTh s t h).th u = s.th u := by simp [setTh, upd, hu]
@[simp] theorem setTh_lockP (s : St) (t h) : (setTh s t h).lockP = s.lockP := rfl
@[simp] theorem setTh_lockM (s : St) (t h) : (setTh s t h).lockM = s.lockM := rfl
@[simp] theorem setTh_perm (s : St) (t h) : (setTh s t h).perm = s.perm := rfl
@[simp] theorem setTh_text (s : St) (t h) : (setTh s t h).text = s.text := rfl
@[simp] theorem setTh_patches (s : St) (t h) : (setTh s t h).patches = s.patches := rfl
@[simp] theorem setTh_acc (s : St) (t h) : (setTh s t h).acc = s.acc := rfl
@[simp] theorem setTh_calls (s : St) (t h) : (setTh s t h).calls = s.calls := rfl
@[simp] theorem setTh_faults (s : St) (t h) : (setTh s t h).faults = s.faults := rfl
@[simp] theorem logAcc_lockP (s : St) (t v w) : (logAcc s t v w).lockP = s.lockP := rfl
@[simp] theorem logAcc_lockM (s : St) (t v w) : (logAcc s t v w).lockM = s.lockM := rfl
@[simp] theorem logAcc_perm (s : St) (t v w) : (logAcc s t v w).perm = s.perm := rfl
@[simp] theorem logAcc_text (s : St) (t v w) : (logAcc s t v w).text = s.text := rfl
@[simp] theorem logAcc_patches (s : St) (t v w) : (logAcc s t v w).patches = s.patches := rfl
@[simp] theorem logAcc_th (s : St) (t v w) : (logAcc s t v w).th = s.th := rfl
@[simp] theorem logAcc_calls (s : St) (t v w) : (logAcc s t v w).calls = s.calls := rfl
@[simp] theorem logAcc_faults (s : St) (t v w) : (logAcc s t v w).faults = s.faults := rfl

theorem execW_lockP (L t k ws s) : (execW L t k ws s).lockP = s.lockP := by
  unfold execW; dsimp only; repeat' split
  all_goals (first | rfl | simp [logAcc])
theorem execW_lockM (L t k ws s) : (execW L t k ws s).lockM = s.lockM := by
  unfold execW; dsimp only; repeat' split
  all_goals (first | rfl | simp [logAcc])
theorem execW_th (L t k ws s) : (execW L t k ws s).th = s.th := by
  unfold execW; dsimp only; repeat' split
  all_goals (first | rfl | simp [logAcc])
theorem execW_patches (L t k ws s) : (execW L t k ws s).patches = s.patches := by
  unfold execW; dsimp only; repeat' split
  all_goals (first | rfl | simp [logAcc])
theorem execW_calls (L t k ws s) : (execW L t k ws s).calls = s.calls := by
  unfold execW; dsimp only; repeat' split
  all_goals (first | rfl | simp [logAcc])
theorem execT_lockP (t mi s) : (execT t mi s).lockP = s.lockP := by
  unfold execT; dsimp only; repeat' split
  all_goals (first | rfl | simp [logAcc])
theorem execT_lockM (t mi s) : (execT t mi s).lockM = s.lockM := by
  unfold execT; dsimp only; repeat' split
  all_goals (first | rfl | simp [logAcc])
theorem execT_th (t mi s) : (execT t mi s).th = s.th := by
  unfold execT; dsimp only; repeat' split
  all_goals (first | rfl | simp [logAcc])
theorem execT_perm (t mi s) : (execT t mi s).perm = s.perm := by
  unfold execT; dsimp only; repeat' split
  all_goals (first | rfl | simp [logAcc])
theorem execT_text (t mi s) : (execT t mi s).text = s.text := by
  unfold execT; dsimp only; repeat' split
  all_goals (first | rfl | simp [logAcc])
theorem execT_calls (t mi s) : (execT t mi s).calls = s.calls := by
  unfold execT; dsimp only; repeat' split
  all_goals (first | rfl | simp [logAcc])

/-! ## lock discipline -/

def AccOk (l : List Acc) : Prop := ∀ a ∈ l, a.holdsP = true ∧ (a.v ≠ .patches → a.holdsM = true)

/-- lock discipline invariants -/
structure LInv (prog : Tid → List Sec) (s : St) : Prop where
  mp : ∀ t, (s.th t).cur.isSome = true → s.lockP = some t
  mpc : ∀ t, s.lockP = some t → (s.th t).cur.isSome = true
  mm : ∀ t, (s.th t).w.isSome = true → s.lockM = some t ∧ (s.th t).cur.isSome = true
  mmc : ∀ t, s.lockM = some t → (s.th t).w.isSome = true
  wpos : ∀ t, (s.th t).w.isSome = true → ∃ sec k wk, (prog t)[(s.th t).ip]? = some sec ∧ (s.th t).cur = some k ∧ (bodyOf sec)[k]? = some (.write wk)
  accOk : AccOk s.acc

theorem th_setTh (s : St) (t u h) : (setTh s t h).th u = if u = t then h else s.th u := by
  simp [setTh, upd]

theorem LInv_init (prog text) : LInv prog (init text) := by
  constructor <;> simp [init, AccOk]

theorem AccOk_cons (a l) (h : AccOk l) (h1 : a.holdsP = true) (h2 : a.v ≠ .patches → a.holdsM = true) : AccOk (a :: l) := by
  intro b hb; simp at hb; rcases hb with rfl | hb
  · exact ⟨h1, h2⟩
  · exact h b hb

theorem execW_acc (L t k ws s) (hP : s.lockP = some t) (hM : s.lockM = some t) (h : AccOk s.acc) :
    AccOk (execW L t k ws s).acc := by
  unfold execW; dsimp only; repeat' split
  all_goals (simp only [logAcc]; apply AccOk_cons _ _ h <;> simp [hP, hM])

theorem execT_acc (t mi s) (hP : s.lockP = some t) (hM : s.lockM = none ∨ s.lockM = some t) (h : AccOk s.acc) :
    AccOk (execT t mi s).acc := by
  unfold execT; dsimp only; repeat' split
  all_goals try simp only [logAcc]
  all_goals first
    | exact h
    | (apply AccOk_cons _ _ h <;> simp [hP])
    | (apply AccOk_cons; apply AccOk_cons _ _ h <;> simp [hP]; all_goals (rcases hM with hM | hM <;> simp [hP, hM]))

theorem LInv_tr {L prog t s s'} (I : LInv prog s) (tr : Tr L prog t s s') : LInv prog s' := by
  obtain ⟨mp, mpc, mm, mmc, wp, ao⟩ := I
  cases tr with
  | stutter => exact ⟨mp, mpc, mm, mmc, wp, ao⟩
  | call f a h1 h2 =>
    refine ⟨?_, ?_, ?_, ?_, ?_, ?_⟩
    iterate 5
      · intro u
        simp only [th_setTh, setTh_lockP, setTh_lockM, logAcc_lockP, logAcc_lockM, logAcc_th, execW_lockP, execW_lockM, execW_th,
          execT_lockP, execT_lockM, execT_th]
        grind
    · exact ao
  | acqP sec h1 h2 h3 h4 =>
    refine ⟨?_, ?_, ?_, ?_, ?_, ?_⟩
    iterate 5
      · intro u
        simp only [th_setTh, setTh_lockP, setTh_lockM, logAcc_lockP, logAcc_lockM, logAcc_th, execW_lockP, execW_lockM, execW_th,
          execT_lockP, execT_lockM, execT_th]
        grind
    · exact ao
  | relP sec k h1 h2 h3 =>
    refine ⟨?_, ?_, ?_, ?_, ?_, ?_⟩
    iterate 5
      · intro u
        simp only [th_setTh, setTh_lockP, setTh_lockM, logAcc_lockP, logAcc_lockM, logAcc_th, execW_lockP, execW_lockM, execW_th,
          execT_lockP, execT_lockM, execT_th]
        grind
    · exact ao
  | wskip sec k wk h1 h2 h3 h4 h5 =>
    refine ⟨?_, ?_, ?_, ?_, ?_, ?_⟩
    iterate 5
      · intro u
        simp only [th_setTh, setTh_lockP, setTh_lockM, logAcc_lockP, logAcc_lockM, logAcc_th, execW_lockP, execW_lockM, execW_th,
          execT_lockP, execT_lockM, execT_th]
        grind
    · simp only [setTh_acc, logAcc]
      apply AccOk_cons _ _ ao <;> simp [mp t (by simp [h2])]
  | acqM sec k wk h1 h2 h3 h4 h5 h6 =>
    refine ⟨?_, ?_, ?_, ?_, ?_, ?_⟩
    iterate 5
      · intro u
        simp only [th_setTh, setTh_lockP, setTh_lockM, logAcc_lockP, logAcc_lockM, logAcc_th, execW_lockP, execW_lockM, execW_th,
          execT_lockP, execT_lockM, execT_th]
        grind
    · simp only [setTh_acc, logAcc]
      apply AccOk_cons _ _ ao <;> simp [mp t (by simp [h2])]
  | relM sec k wk j h1 h2 h3 h4 h5 =>
    refine ⟨?_, ?_, ?_, ?_, ?_, ?_⟩
    iterate 5
      · intro u
        simp only [th_setTh, setTh_lockP, setTh_lockM, logAcc_lockP, logAcc_lockM, logAcc_th, execW_lockP, execW_lockM, execW_th,
          execT_lockP, execT_lockM, execT_th]
        grind
    · exact ao
  | wph sec k wk j ws h1 h2 h3 h4 h5 =>
    refine ⟨?_, ?_, ?_, ?_, ?_, ?_⟩
    iterate 5
      · intro u
        simp only [th_setTh, setTh_lockP, setTh_lockM, logAcc_lockP, logAcc_lockM, logAcc_th, execW_lockP, execW_lockM, execW_th,
          execT_lockP, execT_lockM, execT_th]
        grind
    · simp only [setTh_acc]
      exact execW_acc L t wk ws s (mp t (by simp [h2])) (mm t (by simp [h4])).1 ao
  | tab sec k mi h1 h2 h3 h4 =>
    have hw : (s.th t).w = none := by
      cases hw : (s.th t).w with
      | none => rfl
      | some j =>
        obtain ⟨sec', k', wk, e1, e2, e3⟩ := wp t (by simp [hw])
        rw [h1] at e1; injection e1 with e1; subst e1
        rw [h2] at e2; injection e2 with e2; subst e2
        rw [h3] at e3; injection e3 with e3; subst e3
        simp [MI.isWrite] at h4
    refine ⟨?_, ?_, ?_, ?_, ?_, ?_⟩
    iterate 5
      · intro u
        simp only [th_setTh, setTh_lockP, setTh_lockM, logAcc_lockP, logAcc_lockM, logAcc_th, execW_lockP, execW_lockM, execW_th,
          execT_lockP, execT_lockM, execT_th]
        grind
    · simp only [setTh_acc]
      refine execT_acc t mi s (mp t (by simp [h2])) ?_ ao
      cases hm : s.lockM with
      | none => exact Or.inl rfl
      | some u =>
        right
        have h1 := mmc u hm
        have h2' := (mm u h1).2
        have h3' := mp u h2'
        have h4' := mp t (by simp [h2])
        rw [h3'] at h4'; injection h4' with h4'; rw [h4']

theorem LInv_run (L prog) (σ : List Tid) (s : St) (I : LInv prog s) : LInv prog (run L prog σ s) := by
  induction σ generalizing s with
  | nil => exact I
  | cons t σ ih => exact ih _ (LInv_tr I (step_tr L prog t s))

/-! ## frame -/

def miLoc : MI → Option Loc
  | .unregister f => some f
  | .register f _ => some f
  | .setApplied f => some f
  | .write _ => none

theorem body_write_loc (L : Layout) (sec : Sec) (k : Nat) (wk : WKind) (h : (bodyOf sec)[k]? = some (.write wk)) : wloc L wk ∈ writesOf L sec := by
  have hm := List.mem_of_getElem? h
  cases sec with
  | replace f r wo => cases wo <;> simp [bodyOf] at hm <;> rcases hm with rfl | rfl <;> simp [wloc, writesOf]
  | apply f => simp [bodyOf] at hm; subst hm; simp [wloc, writesOf]
  | unpatch f => simp [bodyOf] at hm; subst hm; simp [wloc, writesOf]
  | call f a => simp [bodyOf] at hm

theorem body_mi_loc (L : Layout) (sec : Sec) (k : Nat) (mi : MI) (f : Loc) (h : (bodyOf sec)[k]? = some mi) (hf : miLoc mi = some f) : f ∈ writesOf L sec := by
  have hm := List.mem_of_getElem? h
  cases sec with
  | replace f' r wo =>
    cases wo <;> simp [bodyOf] at hm
    · rcases hm with rfl | rfl | rfl <;> simp_all [miLoc, writesOf]
    · rcases hm with rfl | rfl | rfl | rfl <;> simp_all [miLoc, writesOf]
  | apply f' => simp [bodyOf] at hm; rcases hm with rfl | rfl <;> simp_all [miLoc, writesOf]
  | unpatch f' => simp [bodyOf] at hm; subst hm; simp [miLoc] at hf
  | call f' a => simp [bodyOf] at hm

theorem execW_text_other (L t k ws s f) (hf : f ≠ wloc L k) : (execW L t k ws s).text f = s.text f := by
  unfold execW; dsimp only; repeat' split
  all_goals (first | rfl | (simp only [logAcc, wloc] at *; simp [upd, hf]))

theorem execT_patches_other (t mi s f) (hf : miLoc mi ≠ some f) : (execT t mi s).patches f = s.patches f := by
  unfold execT; dsimp only; repeat' split
  all_goals (first | rfl | (simp only [logAcc, miLoc] at *; simp [upd]; intro h; subst h; simp at hf))

/-- a slot of thread `t` changes the patch table and the text only at locations `t` writes -/
theorem frame_tr {L prog t s s'} (tr : Tr L prog t s s') (f : Loc) (hf : ¬ Writes L prog t f) :
    s'.text f = s.text f ∧ s'.patches f = s.patches f := by
  cases tr with
  | stutter => exact ⟨rfl, rfl⟩
  | call f a h1 h2 => exact ⟨rfl, rfl⟩
  | acqP sec h1 h2 h3 h4 => exact ⟨rfl, rfl⟩
  | relP sec k h1 h2 h3 => exact ⟨rfl, rfl⟩
  | wskip sec k wk h1 h2 h3 h4 h5 => exact ⟨rfl, rfl⟩
  | acqM sec k wk h1 h2 h3 h4 h5 h6 => exact ⟨rfl, rfl⟩
  | relM sec k wk j h1 h2 h3 h4 h5 => exact ⟨rfl, rfl⟩
  | wph sec k wk j ws h1 h2 h3 h4 h5 =>
    simp only [setTh_text, setTh_patches, execW_patches, and_true]
    apply execW_text_other
    intro h; subst h
    exact hf ⟨sec, List.mem_of_getElem? h1, body_write_loc L sec k wk h3⟩
  | tab sec k mi h1 h2 h3 h4 =>
    simp only [setTh_text, setTh_patches, execT_text, true_and]
    apply execT_patches_other
    intro h
    exact hf ⟨sec, List.mem_of_getElem? h1, body_mi_loc L sec k mi f h3 h⟩

/-! ## execute permission, steady calls, non-interference -/

def XInv (s : St) : Prop := ∀ pg, (s.perm pg).x = true

theorem execW_x (L t k ws s) (h : XInv s) : XInv (execW L t k ws s) := by
  intro pg
  unfold execW; dsimp only; repeat' split
  all_goals (simp only [logAcc, upd]; (try split) <;> first | rfl | exact h pg)

theorem XInv_tr {L prog t s s'} (h : XInv s) (tr : Tr L prog t s s') : XInv s' := by
  cases tr with
  | wph sec k wk j ws h1 h2 h3 h4 h5 => intro pg; simp only [setTh_perm]; exact execW_x L t wk ws s h pg
  | tab sec k mi h1 h2 h3 h4 => intro pg; simp only [setTh_perm, execT_perm]; exact h pg
  | _ => exact h

theorem allX_of_XInv (s : St) (h : XInv s) (pgs) : allX s pgs = true := by
  simp [allX, List.all_eq_true]; intro pg _; exact h pg

theorem callAt_congr (L : Layout) (s s0 : St) (f a) (hx : XInv s) (hx0 : XInv s0) (h1 : s.text f = s0.text f)
    (h2 : s.text (L.plh f) = s0.text (L.plh f)) : callAt L s f a = callAt L s0 f a := by
  simp [callAt, allX_of_XInv s hx, allX_of_XInv s0 hx0, h1, h2]

def NoWriter (L : Layout) (prog : Tid → List Sec) (f : Loc) : Prop := ∀ u, ¬ Writes L prog u f

/-- invariant behind `steady_calls` -/
structure CInv (L : Layout) (prog : Tid → List Sec) (s0 s : St) : Prop where
  x : XInv s
  txt : ∀ f, NoWriter L prog f → s.text f = s0.text f
  calls : ∀ c ∈ s.calls, ∃ f a, (prog c.1)[c.2.1]? = some (.call f a) ∧
      (NoWriter L prog f → NoWriter L prog (L.plh f) → c.2.2 = callAt L s0 f a)

theorem CInv_tr {L prog t s0 s s'} (hx0 : XInv s0) (I : CInv L prog s0 s) (tr : Tr L prog t s s') : CInv L prog s0 s' := by
  refine ⟨XInv_tr I.x tr, ?_, ?_⟩
  · intro f hf; rw [(frame_tr tr f (hf t)).1]; exact I.txt f hf
  · cases tr with
    | call f a h1 h2 =>
      intro c hc
      simp only [setTh_calls, List.mem_cons] at hc
      rcases hc with rfl | hc
      · exact ⟨f, a, h1, fun n1 n2 => callAt_congr L s s0 f a I.x hx0 (I.txt f n1) (I.txt _ n2)⟩
      · exact I.calls c hc
    | wph sec k wk j ws h1 h2 h3 h4 h5 => simp only [setTh_calls, execW_calls]; exact I.calls
    | tab sec k mi h1 h2 h3 h4 => simp only [setTh_calls, execT_calls]; exact I.calls
    | _ => exact I.calls

theorem CInv_run (L prog) (σ : List Tid) (s0 s : St) (hx0 : XInv s0) (I : CInv L prog s0 s) : CInv L prog s0 (run L prog σ s) := by
  induction σ generalizing s with
  | nil => exact I
  | cons t σ ih => exact ih _ (CInv_tr hx0 I (step_tr L prog t s))

/-- slots of threads other than `t` never change what `t` mentions -/
theorem others_frame_run (L prog) (hd : Disjoint L prog) (t : Tid) (σ : List Tid) (hσ : t ∉ σ) (s : St) (f : Loc)
    (hf : Mentions L prog t f) : (run L prog σ s).text f = s.text f ∧ (run L prog σ s).patches f = s.patches f := by
  induction σ generalizing s with
  | nil => exact ⟨rfl, rfl⟩
  | cons u σ ih =>
    simp only [List.mem_cons, not_or] at hσ
    have h1 := frame_tr (step_tr L prog u s) f (fun hw => hd t u f hσ.1 hw hf)
    have h2 := ih hσ.2 (step L prog u s)
    simp only [run]
    rw [h2.1, h2.2]; exact h1

end Conc
