import GoomVerif.Model.Sym
/-! Lemmas for C10: what `lookup` finds, the reachable package states, and the closed form of every call result. -/
namespace C10L
open Sym

variable {N : Type} [DecidableEq N]

/-! ## first exact match -/

theorem lookup_some_iff (l : List (N × Addr)) (n : N) (a : Addr) :
    lookup l n = some a ↔ ∃ pre post, l = pre ++ (n, a) :: post ∧ ∀ e ∈ pre, e.1 ≠ n := by
  induction l with
  | nil =>
    constructor
    · intro h; simp [lookup] at h
    · rintro ⟨pre, post, h, _⟩; cases pre <;> simp at h
  | cons e rest ih =>
    by_cases he : e.1 = n
    · simp only [lookup, he, if_true]
      constructor
      · intro h
        refine ⟨[], rest, ?_, by simp⟩
        cases e with
        | mk en ea =>
          simp only [Option.some.injEq] at h
          simp only at he
          simp [he, h]
      · rintro ⟨pre, post, h, hpre⟩
        cases pre with
        | nil =>
          simp only [List.nil_append, List.cons.injEq] at h
          rw [h.1]
        | cons e' pre' =>
          simp only [List.cons_append, List.cons.injEq] at h
          exact absurd he (h.1 ▸ hpre e' (by simp))
    · simp only [lookup, he, if_false]
      rw [ih]
      constructor
      · rintro ⟨pre, post, h, hpre⟩
        refine ⟨e :: pre, post, by simp [h], ?_⟩
        intro x hx
        simp only [List.mem_cons] at hx
        rcases hx with rfl | hx
        · exact he
        · exact hpre x hx
      · rintro ⟨pre, post, h, hpre⟩
        cases pre with
        | nil =>
          simp only [List.nil_append, List.cons.injEq] at h
          exact absurd (by rw [h.1]) he
        | cons e' pre' =>
          simp only [List.cons_append, List.cons.injEq] at h
          exact ⟨pre', post, h.2, fun x hx => hpre x (by simp [hx])⟩

theorem lookup_none_iff (l : List (N × Addr)) (n : N) :
    lookup l n = none ↔ ∀ e ∈ l, e.1 ≠ n := by
  induction l with
  | nil => simp [lookup]
  | cons e rest ih =>
    by_cases he : e.1 = n
    · simp [lookup, he]
    · simp [lookup, he, ih]

/-- with pairwise distinct names every entry of the table is found, at its own address -/
theorem lookup_of_mem_nodup (l : List (N × Addr)) (h : (l.map Prod.fst).Nodup) (e : N × Addr) (he : e ∈ l) :
    lookup l e.1 = some e.2 := by
  induction l with
  | nil => simp at he
  | cons x rest ih =>
    simp only [List.map_cons, List.nodup_cons] at h
    simp only [List.mem_cons] at he
    rcases he with rfl | he
    · simp [lookup]
    · have hne : x.1 ≠ e.1 := by
        intro hx
        exact h.1 (hx ▸ List.mem_map_of_mem (f := Prod.fst) he)
      simp only [lookup, hne, if_false]
      exact ih h.2 he

/-! ## the alignments the code ends up with, as a function of the environment -/

/-- `getFunctionSymbolByName` / `getVarSymbolByName` as functions of the file alone -/
def funcOf (env : Env N) (n : N) : Except Err Addr := funcIn (load env.file) n

def varOf (env : Env N) (n : N) : Except Err Addr := varIn (load env.file) n

/-- value of `funcAlignment` after `initAlignmentFunc` -/
def fAlignOf (env : Env N) : Addr :=
  match funcOf env env.anchorF with
  | .ok fa => env.memF - fa
  | .error _ => 0

/-- value of `varAlignment` after `initAlignmentFunc` (stays 0 when either anchor is missing) -/
def vAlignOf (env : Env N) : Addr :=
  match funcOf env env.anchorF with
  | .error _ => 0
  | .ok _ =>
    match varOf env env.anchorV with
    | .ok va => env.memV - va
    | .error _ => 0

/-- closed form of a call result: independent of the package state -/
def spec (env : Env N) : Op N → Res
  | .findFunc n => resOf (funcOf env n) (fAlignOf env)
  | .findVar n => resOf (varOf env n) (vAlignOf env)
  | .expose n => resOf (funcOf env n) (fAlignOf env)
  | .allFuncs => allFuncsIn (load env.file)

/-- package states reachable from the initial one -/
structure Inv (env : Env N) (s : St N) : Prop where
  tab : s.tab = none ∨ s.tab = some (load env.file)
  fresh : s.once = false → s.fAlign = 0 ∧ s.vAlign = 0
  done : s.once = true → s.fAlign = fAlignOf env ∧ s.vAlign = vAlignOf env

theorem inv_init (env : Env N) : Inv env ({} : St N) :=
  ⟨Or.inl rfl, fun _ => ⟨rfl, rfl⟩, fun h => by simp at h⟩

theorem table_eq {env : Env N} {s : St N} (h : Inv env s) : table env s = load env.file := by
  unfold table
  rcases h.tab with h | h <;> simp [h]

theorem funcSym_eq {env : Env N} {s : St N} (h : Inv env s) (n : N) : funcSym env s n = funcOf env n := by
  simp only [funcSym, funcOf, table_eq h]

theorem varSym_eq {env : Env N} {s : St N} (h : Inv env s) (n : N) : varSym env s n = varOf env n := by
  simp only [varSym, varOf, table_eq h]

theorem inv_touch {env : Env N} {s : St N} (h : Inv env s) : Inv env (touch env s) :=
  ⟨Or.inr (by simp [touch, table_eq h]), h.fresh, h.done⟩

theorem initAlign_spec {env : Env N} {s : St N} (h : Inv env s) :
    Inv env (initAlign env s) ∧ (initAlign env s).fAlign = fAlignOf env ∧ (initAlign env s).vAlign = vAlignOf env := by
  unfold initAlign
  by_cases ho : s.once = true
  · simp only [ho, if_true]
    exact ⟨h, h.done ho⟩
  · have ho' : s.once = false := by simpa using ho
    have hz := h.fresh ho'
    have ht := inv_touch h
    simp only [ho', Bool.false_eq_true, if_false, funcSym_eq h, varSym_eq h]
    cases hf : funcOf env env.anchorF with
    | error e =>
      have hF : fAlignOf env = 0 := by simp only [fAlignOf, hf]
      have hV : vAlignOf env = 0 := by simp only [vAlignOf, hf]
      simp only
      exact ⟨⟨ht.tab, fun hx => by simp at hx, fun _ => by simp [hF, hV, touch, hz]⟩,
        by simp [hF, touch, hz], by simp [hV, touch, hz]⟩
    | ok fa =>
      have hF : fAlignOf env = env.memF - fa := by simp only [fAlignOf, hf]
      cases hv : varOf env env.anchorV with
      | error e =>
        have hV : vAlignOf env = 0 := by simp only [vAlignOf, hf, hv]
        simp only
        exact ⟨⟨ht.tab, fun hx => by simp at hx, fun _ => by simp [hF, hV, touch, hz]⟩,
          by simp [hF], by simp [hV, touch, hz]⟩
      | ok va =>
        have hV : vAlignOf env = env.memV - va := by simp only [vAlignOf, hf, hv]
        simp only
        exact ⟨⟨ht.tab, fun hx => by simp at hx, fun _ => by simp [hF, hV]⟩, by simp [hF], by simp [hV]⟩

theorem step_spec {env : Env N} {s : St N} (h : Inv env s) (op : Op N) :
    Inv env (step env s op).1 ∧ (step env s op).2 = spec env op := by
  obtain ⟨hi, hf, hv⟩ := initAlign_spec h
  cases op with
  | allFuncs => exact ⟨inv_touch h, by simp only [step, spec, table_eq h]⟩
  | findFunc n => exact ⟨inv_touch hi, by simp only [step, spec, funcSym_eq hi, hf]⟩
  | findVar n => exact ⟨inv_touch hi, by simp only [step, spec, varSym_eq hi, hv]⟩
  | expose n => exact ⟨inv_touch hi, by simp only [step, spec, funcSym_eq hi, hf]⟩

theorem run_spec {env : Env N} (ops : List (Op N)) : ∀ {s : St N}, Inv env s →
    Inv env (run env s ops).1 ∧ (run env s ops).2 = ops.map (spec env) := by
  induction ops with
  | nil => intro s h; exact ⟨h, rfl⟩
  | cons op ops ih =>
    intro s h
    obtain ⟨h1, h2⟩ := step_spec h op
    obtain ⟨h3, h4⟩ := ih h1
    exact ⟨h3, by simp only [run, List.map_cons, h2, h4]⟩

theorem resAfter_eq (env : Env N) (pre : List (Op N)) (op : Op N) : resAfter env pre op = spec env op :=
  (step_spec (run_spec pre (inv_init env)).1 op).2

/-- `(x + b) - x = b` in `uintptr` arithmetic: the slide is recovered exactly, whatever the bias -/
theorem add_sub_cancel_left' (x b : Addr) : (x + b) - x = b := by
  apply BitVec.eq_of_toNat_eq
  simp only [BitVec.toNat_sub, BitVec.toNat_add]
  have := x.isLt
  have := b.isLt
  omega

end C10L
