import GoomVerif.Props.C14
/-!
# Finding C14-fallback-drops-x (recorded, not an obligation)

With a W^X kernel policy (`denyWX`: SELinux execmem, macOS hardened runtime; emulated in the probe by a seccomp filter
that refuses `mprotect(.., PROT_WRITE|PROT_EXEC)`), `WriteTo` (mwrite_amd64.go:24–27) falls back to `writeTo` of
mwrite_prot.go:3008, whose first pass requests `PROT_READ|PROT_WRITE`: for the duration of the copy the page is not
executable, so "pages remain executable throughout so other threads can keep running code in them" fails.  There is no
small repair: under W^X a page cannot be writable and executable at once (a second, writable mapping of the same memory
would be needed).  On Linux defaults the branch is not taken.
-/
namespace C14.Findings
open Mem C14L

def s0 : State := { mem := fun _ => 0, perm := fun _ => some RX, denyWX := true }

theorem pages_one : pages 0x401000#64 1 = [0x401000#64] := by decide

/-- the full-strength clause is false: one byte written to an r-x page under W^X; after the first step of the fall-back
    the page is rw- -/
theorem x_dropped_on_fallback : ¬ C14.XKeptOnEveryPath := by
  intro h
  have h2 := (h 0x401000#64 [0x90#8] s0 0x401000#64 ⟨RX, rfl, rfl⟩).2
  have hfail : (run s0 (protScript 0x401000#64 [0x90#8].length RWX)).2 ≠ none := by
    simp [protScript, pages_one, run, step, s0, RWX]
  have := h2 hfail 1
  simp [protScript, fallbackScript, pages_one, run, step, s0, RWX, RW, Exec, setPerm] at this

end C14.Findings
