import GoomVerif.Props.C14
/-!
# Finding C14-placeholder-bound-overrun (recorded, not an obligation)

`install_touches_only` bounds the placeholder write by `tsize`, the value `bytecode.GetFuncSize(placeholder)` returned
(fix_origin_amd64.go:29/65) — that is what the code does.  `GetFuncSize` is a scan that stops only at INT3 padding; for a
placeholder whose code exactly fills its slot it runs on into the next function, so `tsize` exceeds the placeholder's body.
The clause of the property, "for an origin placeholder, only inside the placeholder's own body", then fails: with a
16-byte body, a scanned size of 96 and 26 bytes of relocated code the byte at `placeholder+20` (inside the neighbour)
is overwritten.  Observed on the real code by the probe (`c14.tramp … mph=16`).
-/
namespace C14.Findings
open Mem C14L

/-- the full-strength clause with the placeholder's true body `body` in place of goom's scanned size -/
def PlaceholderBodyOnly : Prop :=
  ∀ (origin to t : Addr) (funcSize scanned body : Nat) (fix : List Byte) (s : State) (q : Addr),
    body ≤ scanned → ¬ C14.InRange origin 13 q → ¬ C14.InRange t body q →
    (install origin to funcSize (some (t, scanned, fix)) s).1.mem q = s.mem q

theorem placeholder_body_overrun : ¬ PlaceholderBodyOnly := by
  intro h
  let s : State := { mem := fun _ => 0, perm := fun _ => some RX }
  let fix : List Byte := List.replicate 26 0x11#8
  have hq1 : ¬ C14.InRange 0x401000#64 13 (0x500000#64 + BitVec.ofNat 64 20) := by
    rintro ⟨j, hj, e⟩
    have := congrArg BitVec.toNat e
    simp only [BitVec.toNat_add, BitVec.toNat_ofNat] at this
    omega
  have hq2 : ¬ C14.InRange 0x500000#64 16 (0x500000#64 + BitVec.ofNat 64 20) := by
    rintro ⟨j, hj, e⟩
    have := congrArg BitVec.toNat e
    simp only [BitVec.toNat_add, BitVec.toNat_ofNat] at this
    omega
  have hbad := h 0x401000#64 0xc000001000#64 0x500000#64 64 96 16 fix s _ (by decide) hq1 hq2
  -- what the model (and the code) really does: the placeholder write lands all 26 bytes, the entry write is elsewhere
  have hN : NoWrap 0x500000#64 fix.length := by simp only [fix, List.length_replicate]; unfold NoWrap; decide
  have hM : MappedAll s (pages 0x500000#64 fix.length) := fun _ _ => rfl
  have hw := C14.write_intact 0x500000#64 fix s hN hM rfl
  have h20 := hw.2 20 (by simp [fix])
  have hret : (writeTo 0x500000#64 fix s).2.returned = true := by rw [hw.1]; rfl
  have hentry : ∀ s0 : State, (writeTo 0x401000#64 (Gen.Amd64.jmpToFunctionValue 0x401000#64 0xc000001000#64) s0).1.mem
      (0x500000#64 + BitVec.ofNat 64 20) = s0.mem (0x500000#64 + BitVec.ofNat 64 20) := by
    intro s0
    apply C14.write_frame
    intro j hj e
    rw [C14.jump_len] at hj
    exact hq1 ⟨j, hj, e⟩
  have hfix20 : fix[20]'(by simp [fix]) = 0x11#8 := by simp [fix]
  have key : (install 0x401000#64 0xc000001000#64 64 (some (0x500000#64, 96, fix)) s).1.mem
      (0x500000#64 + BitVec.ofNat 64 20) = 0x11#8 := by
    have hacc : trampolineAccepts 13 96 fix.length = true := by simp [trampolineAccepts, fix]
    have hsz : ¬ (64 ≤ 13) := by omega
    simp only [install, genJumpData, C14.jump_len, ge_iff_le, hsz, if_false, hacc, if_true, hret]
    rw [hentry, h20, hfix20]
  rw [key] at hbad
  exact absurd hbad (by decide)

end C14.Findings
