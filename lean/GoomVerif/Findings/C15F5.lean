import GoomVerif.Props.C15
/-!
# Finding F5 seen from C15 (not an obligation): the absolute form of the jump back is indirect

`C15.ReturnExact` — "return from a trampoline transfers control to exactly the intended destination", for every
64-bit `from`/`to` — is **false** for the code as it is: when `to-(from+5)` does not fit rel32,
`jmpToOriginFunctionValue` (monkey_amd64.go:45–56) emits `MOV RDX, to ; JMP [RDX]`.  That sequence is right for
*entering a function value* (`to` points at a closure object whose first word is the code address, RDX is the closure
context register) and wrong for *returning into code*: `to = origin+n` is a code address, so RIP becomes the eight
instruction bytes stored there, and RDX (a live register in the middle of the origin function: 4th integer argument
under ABIInternal, closure context) is overwritten.

Reachable only when trampoline and origin are more than 2 GiB apart (not inside one Go text segment), hence a known
finding (`F5-absolute-jump-back`) rather than a crash anyone has seen.
-/
namespace C15F5

/-- the witness: a trampoline in an mmap'ed region, the origin in the text segment -/
def from_ : BitVec 64 := 0x7f0000001000#64
def to : BitVec 64 := 0x40100f#64
/-- a machine whose memory at `to` holds the bytes of `SUB RSP,0x18 ; MOV ..` (any code will do) and RDX = 7 -/
def m0 : X86.Mach := { rip := from_, rdx := 7#64, mem64 := fun _ => 0x244c894818ec8348#64 }

theorem witness_is_absolute_form : Gen.Amd64.relative from_ to = false := by decide

/-- what the emitted bytes do at the witness: RIP := the code bytes stored at `to`, RDX := `to` -/
theorem witness_lands_through_code :
    X86.exec (Gen.Amd64.jmpToOriginFunctionValue from_ to) m0 =
      some { m0 with rip := 0x244c894818ec8348#64, rdx := to } :=
  C15.amd64_origin_abs from_ to m0 witness_is_absolute_form

/-- **the full-strength clause fails** -/
theorem not_returnExact : ¬ C15.ReturnExact := by
  intro h
  have h1 := h from_ to m0
  have h2 := witness_lands_through_code
  have hm : ({ m0 with rip := from_ } : X86.Mach) = m0 := rfl
  rw [hm, h2] at h1
  have := congrArg (fun o => o.map X86.Mach.rdx) h1
  revert this
  decide

/-- …in both respects: neither the landing nor RDX is right -/
theorem witness_wrong_twice :
    ∃ m', X86.exec (Gen.Amd64.jmpToOriginFunctionValue from_ to) m0 = some m' ∧ m'.rip ≠ to ∧ m'.rdx ≠ m0.rdx :=
  ⟨_, witness_lands_through_code, by decide, by decide⟩

/-! ## The drafted repair (fixes/F27-c15-abs-jump-back.diff)

`JMP qword ptr [RIP+0] ; .quad to` — 14 bytes, no register, no stack, no memory write.  Transcribed by hand here
(the translator only sees the source as it is); once the fix is applied `Gen.Amd64.jmpToOriginFunctionValue` *is* this
function, `C15.ReturnExact` becomes a theorem (`fixes/F27-c15-abs-jump-back.verif.patch` makes that switch) and this
file goes away. -/

def repairedAbs (to : BitVec 64) : List (BitVec 8) :=
  [0xFF#8, 0x25#8, 0x00#8, 0x00#8, 0x00#8, 0x00#8,
   BitVec.setWidth 8 to, BitVec.setWidth 8 (to >>> 8), BitVec.setWidth 8 (to >>> 16), BitVec.setWidth 8 (to >>> 24),
   BitVec.setWidth 8 (to >>> 32), BitVec.setWidth 8 (to >>> 40), BitVec.setWidth 8 (to >>> 48), BitVec.setWidth 8 (to >>> 56)]

def repaired (from_ to : BitVec 64) : List (BitVec 8) :=
  if Gen.Amd64.relative from_ to then Gen.Amd64.jmpToOriginFunctionValue from_ to else repairedAbs to

theorem repairedAbs_exact (to : BitVec 64) (m : X86.Mach) :
    X86.exec (repairedAbs to) m = some { m with rip := to } := by
  simp [repairedAbs, X86.exec, C15L.bytes64]

/-- with the repair the clause holds at full strength: every 64-bit `from_`/`to`, every machine state -/
theorem repaired_returnExact (from_ to : BitVec 64) (m : X86.Mach) :
    X86.exec (repaired from_ to) { m with rip := from_ } = some { m with rip := to } := by
  unfold repaired
  split
  · exact C15.amd64_origin_rel from_ to m (by assumption)
  · exact repairedAbs_exact to _

/-- and at the witness above it lands where the present code does not -/
example : X86.exec (repaired from_ to) m0 = some { m0 with rip := to } := repaired_returnExact from_ to m0

end C15F5
