import GoomVerif.Props.C04
/-! Known finding K1 (property C04): a configuration that *starts* with `When()` without arguments.

`DefMocker.When(specArg ...interface{})` receives a nil slice, `CreateWhen` reads `args != nil` as "no condition was
given" (when.go:63), so the `Return` that follows becomes the **default** instead of the result of a first, always
true condition; a later `When()` then wins although it was registered second.  Witness: a function without
parameters, `When().Return(1)` then `When().Return(2)`; the property demands 1, the code answers 2.
(The same root makes `f(xs ...T)`: `When().Return(1)` answer 1 for *every* call instead of only `f()`.)
Not an obligation: if the code is repaired this file simply stops describing it. -/
namespace C04
open When

def k1Sig : Sig := { nIn := 0, variadic := false, isMethod := false, numOut := 1 }
def k1Cfg : Config := { dflt := none, conds := [(.when [], 1), (.when [], 2)] }

theorem k1_wf : WFfull k1Sig k1Cfg := by
  refine ⟨?_, by simp [k1Cfg]⟩
  intro p hp
  simp only [k1Cfg, List.mem_cons, List.not_mem_nil, or_false] at hp
  rcases hp with rfl | rfl <;> simp [Cond.WF, arityOk, k1Sig, tupleResolves]

/-- the full-strength statement fails at the witness -/
theorem k1_counterexample : ¬ invoke_spec_full := by
  intro h
  obtain ⟨w, hb, hi⟩ := h (· == ·) k1Sig k1Cfg k1_wf
  have hcall := hi 0 []
  have hobs : (build k1Sig (k1Cfg.script k1Sig)).bind
      (fun w => (w.invoke (· == ·) (encodeCall k1Sig 0 [])).map Prod.fst) = .ok (.ret 2) := by rfl
  rw [hb] at hobs
  simp only [Except.bind] at hobs
  rw [hobs] at hcall
  have hspec : specOut (· == ·) k1Sig k1Cfg [] = .ok (.ret 1) := by rfl
  rw [hspec] at hcall
  cases hcall

end C04
