import GoomVerif.Props.C12
/-! Known finding `stale-handle` (C12): the full statement `C12.RefinesAll` fails on the model of the CURRENT code, and the
    real code behaves like the model (the probe runs these histories on every check).

    `h0 := b.Func(fA); h0.Return(1); h0.Cancel(); h1 := b.Func(fA); h1.Return(3); h0.Return(2); b.Func(fA).Return(4)`:
    `h0` is cancelled and replaced in the builder's cache by `h1`.  `h0.Return(2)` builds a When on the stale mocker and
    installs ITS closure (mocker.go DefMocker.Return → whens → doApply).  The last instruction, `Return(4)` through the
    live cached mocker, finds `m.when != nil` and only extends h1's When, which is no longer installed: fA keeps
    returning 2.  Not an obligation. -/
namespace C12.Findings
open C12M

set_option maxRecDepth 16384 in
/-- the reviewer's history: after the last step the model (like the real code) answers 2, the reference 3 then 4 -/
theorem stale_handle_history :
    behRows (run fixed (initP .p0) [.keep 0 (.fn false), .on 0 (.stub (.ret 1)), .on 0 .cancel, .keep 1 (.fn false),
        .on 1 (.stub (.ret 3)), .on 0 (.stub (.ret 2)), .h (.fn false) (.stub (.ret 4))])
      ≠ Lww.run (Lww.initP .p0) [.keep 0 (.fn false), .on 0 (.stub (.ret 1)), .on 0 .cancel, .keep 1 (.fn false),
        .on 1 (.stub (.ret 3)), .on 0 (.stub (.ret 2)), .h (.fn false) (.stub (.ret 4))] := by
  decide

/-- the full statement of C12 does not hold -/
theorem stale_handle_breaks_lww : ¬ C12.RefinesAll := fun h => stale_handle_history (h .p0 _)

set_option maxRecDepth 16384 in
/-- a second shape: the live handle was never applied, so its Cancel removes nothing of what the stale handle installed -/
theorem stale_handle_cancel_history :
    behRows (run fixed (initP .p0) [.keep 0 (.xf .x), .on 0 (.stub (.ret 1)), .on 0 .cancel, .keep 1 (.xf .x),
        .on 0 (.stub (.ret 3)), .on 1 .cancel])
      ≠ Lww.run (Lww.initP .p0) [.keep 0 (.xf .x), .on 0 (.stub (.ret 1)), .on 0 .cancel, .keep 1 (.xf .x),
        .on 0 (.stub (.ret 3)), .on 1 .cancel] := by
  decide

set_option maxRecDepth 16384 in
/-- known finding `iface-cancel-one-method`: `If2.A.Return(1); If2.B.Return(2); If2.A.Cancel()` — Cancel through A's
    mocker is `ctx.Cancel()`, which restores the whole variable: B runs the original although its last instruction
    was Return(2) (the reference: B answers 2, A — having no mock of its own in a mocked variable — panics). -/
theorem iface_cancel_one_method_history :
    behRows (run fixed (initP .p0) [.h (.i2 false) (.stub (.ret 1)), .h (.i2 true) (.stub (.ret 2)), .h (.i2 false) .cancel])
      ≠ Lww.run (Lww.initP .p0) [.h (.i2 false) (.stub (.ret 1)), .h (.i2 true) (.stub (.ret 2)), .h (.i2 false) .cancel] := by
  decide

end C12.Findings
