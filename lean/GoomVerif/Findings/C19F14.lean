import GoomVerif.Props.C19
/-! Finding F14 (property C19, found while building this check): when the mocked function is one that goom's console
    logger calls while formatting a line — `strconv.Itoa` (logger.go:358 `caller`), `fmt.Sprintf`, `path.Base`,
    `strings.Join`, … — the debug wrapper's log call (debug.go:32 / :53) re-enters the patched function, i.e. the wrapper,
    without bound: fatal stack overflow, only with debug logging open and only while the console level is on.
    The first such log call is the "mocker [..] apply." line at the end of doApply itself (mocker.go:248/:467, iface.go:190).
    debug.go:14 special-cases exactly one such function (`time.Now`).  With `env.loggerCalls = true` the full-strength
    statement `C19.DebugTransparent` is false.  Not an obligation. -/
namespace Findings.C19F14
open Debug C19

def env : Env :=
  { sig := { params := [.int], velem := none, nOut := 1, isMethod := false }, kind := .patch, name := "strconv.Itoa",
    render := fun v => some v.tok, orig := fun a => [intVal (sumV a)] }

/-- `strconv.Itoa` is in the list of functions the console logger calls -/
theorem logger_calls_it : env.loggerCalls = true := by decide

def ops : List Op := [.apply { name := "sum1", kind := .sum, k := 1 }, .call [intVal 5]]

theorem debug_run_dies :
    (run env (initSt .debug) ops).2.dead = true ∧ (run env (initSt .off) ops).2.dead = false ∧
    obs env (initSt .off) ops = ["ok", "cbsum1(5)->r:6"] ∧ obs env (initSt .debug) ops = ["->CRASH"] := by decide

/-- wrapped while debug was open, called with the console level off and then on: the first call is fine, the second dies -/
def ops2 : List Op := [.dbg .off, .apply { name := "sum1", kind := .sum, k := 1 }, .call [intVal 5]]
theorem applied_while_closed_is_fine : obs env (initSt .debug) ops2 = ["ok", "ok", "cbsum1(5)->r:6"] := by decide

theorem not_transparent : ¬ DebugTransparent env := by
  intro h
  have := h .debug ops
  revert this
  decide

/-- fmt is total here: the failure is independent of F13 -/
theorem fmt_total : ∀ v, (env.render v).isSome = true := fun _ => rfl

end Findings.C19F14
