import GoomVerif.Props.C17
/-! Observation recorded while proving C17 (NOT an obligation; if goom is repaired this file simply stops being true).

    `internal/patch/monkey_arm64.go:15  var nopOpcode = []byte{0xD5, 0x03, 0x20, 0x1F}` is meant to be the arm64 NOP, used by
    `checkAlreadyPatch` as the "already patched" sentinel.  AArch64 instructions are little-endian: the NOP word 0xD503201F is the
    byte sequence 1F 20 03 D5.  Read as an instruction (as the CPU and `arm64asm.Decode` do), goom's four bytes are the word
    0x1F2003D5, which goom's own decoder never decodes to NOP (it is an FMADD encoding).  Moreover the arm64 entry jump does not
    start with this sentinel at all (it starts with MOVZ/MOV X26, see `C17.emitted_entry_jump_decodes`), so `checkAlreadyPatch` can
    never recognise a function patched by goom on arm64. -/
namespace Findings.C17
open Gen.A64 A64Dec C17L _root_.C17

theorem nop_sentinel_word : wordsOf Gen.Arm64.nopOpcode = [0x1f2003d5#32] := by decide

theorem nop_sentinel_is_not_nop (env : Env) : (decode env 0x1f2003d5#32).map (fun r => opName r.op) ≠ some "NOP" := by
  intro h
  cases hd : decode env 0x1f2003d5#32 with
  | none => simp [hd] at h
  | some r =>
    obtain ⟨row, hm, ho, hv, _⟩ := decodeFrom_row env _ table 0 r hd
    have hall : table.all (fun r => !(opName r.op == "NOP") || (0x1f2003d5#32 &&& r.mask != r.value)) = true := by decide +kernel
    have := List.all_eq_true.mp hall row hm
    simp [hd] at h
    simp [ho, h, hv] at this

theorem nop_word_bytes_reversed : wordsOf [0x1f#8, 0x20#8, 0x03#8, 0xd5#8] = [0xd503201f#32] := by decide

end Findings.C17
