import GoomVerif.Props.C18
/-! Known finding `C18-closure-code-identity`: `arg.equal` compares funcs by code pointer (`reflect.Value.Pointer`,
    equals.go:204-205), so two closures of one function literal with different captured state are accepted as equal.
    The full statement `C18.EqualsSpecFull` is false at this witness.  Not an obligation. -/
namespace C18.Findings
open C18M C18L

theorem closure_counterexample : ¬ C18.EqualsSpecFull := by
  intro h
  have := h { name := "F0", kind := .func, size := 8 } (.func "F0" 3 0) (.func "F0" 3 1) 8
    (by simp [C18.WellTyped, Val.ty]) (by decide) (by simp [C18.asParam, Ordinary, ordinary1])
  simp [C18.evalEquals, resolve, toValue, C18.asParam, Res.bind, eval, equal, isNil, elemIfPtrOrIface, cascade, numStringEqual,
    isNum, isStr, isBool, isFunc, boolEquals, funcPtr, goEq, goEq1, Val.ty] at this

end C18.Findings
