import GoomVerif.Model.ApiC12
import GoomVerif.Model.LwwC12
import GoomVerif.Lemmas.C12L
/-! Counter-examples for the code *as found* (`C12M.asFound`): refinement of the last-writer-wins reference fails.
    Not obligations — they document defects F7 and F14, which `fixes/F7.diff` and `fixes/F14-pkg-var.diff` repair. -/
namespace C12.Findings
open C12M

/-- F7: `Func(fA).Return(1); Func(fA).Apply(k2); Func(fA).Return(3)` — as found, the second Return only mutates the
    mocker's old When and the callback keeps running. -/
theorem f7_return_after_apply_lost :
    behRows (run asFound init [.h (.fn false) (.stub (.ret 1)), .h (.fn false) (.apply 2), .h (.fn false) (.stub (.ret 3))])
      ≠ Lww.run Lww.init [.h (.fn false) (.stub (.ret 1)), .h (.fn false) (.apply 2), .h (.fn false) (.stub (.ret 3))] := by
  decide

/-- the same on the interface mocker -/
theorem f7_iface :
    behRows (run asFound init [.h .im (.stub (.ret 1)), .h .im (.apply 2), .h .im (.stub (.whenRet 1 3))])
      ≠ Lww.run Lww.init [.h .im (.stub (.ret 1)), .h .im (.apply 2), .h .im (.stub (.whenRet 1 3))] := by
  decide

/-- F14: `Pkg(p1); Var(&v); ExportFunc("Y").Apply(k1)` — as found, Var does not call reset2CurPkg, so the override
    survives the Var lookup and Y of package p1 is mocked instead of the caller's Y. -/
theorem f14_pkg_survives_var_lookup :
    behRows (run asFound init [.pkg .p1, .var, .h (.xf .y) (.apply 1)])
      ≠ Lww.run Lww.init [.pkg .p1, .var, .h (.xf .y) (.apply 1)] := by
  decide

end C12.Findings
