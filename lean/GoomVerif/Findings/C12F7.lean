import GoomVerif.Model.ApiC12
import GoomVerif.Model.LwwC12
import GoomVerif.Lemmas.C12L
/-! Counter-examples for the code *as first found* (`C12M.asFound`): refinement of the last-writer-wins reference fails.
    Not obligations — they document defect F7, repaired by 32dc3bc (F14, the Var lookup that kept the Pkg override, fd6dbcf, has no
    variant in the model any more: `pkg p1 ; var v apply k3 ; xf Y apply k1` is in the regress corpus of the check). -/
namespace C12.Findings
open C12M

/-- F7: `Func(fA).Return(1); Func(fA).Apply(k2); Func(fA).Return(3)` — as found, the second Return only mutates the
    mocker's old When and the callback keeps running. -/
theorem f7_return_after_apply_lost :
    behRows (run asFound init [.h (.fn false) (.stub (.ret 1)), .h (.fn false) (.apply 2), .h (.fn false) (.stub (.ret 3))])
      ≠ Lww.run Lww.init [.h (.fn false) (.stub (.ret 1)), .h (.fn false) (.apply 2), .h (.fn false) (.stub (.ret 3))] := by
  decide

/-- the same on the interface mocker -/
theorem f7_iface :
    behRows (run asFound init [.h .im (.stub (.ret 1)), .h .im (.apply 2), .h .im (.stub (.whenRet 1 3))])
      ≠ Lww.run Lww.init [.h .im (.stub (.ret 1)), .h .im (.apply 2), .h .im (.stub (.whenRet 1 3))] := by
  decide

end C12.Findings
