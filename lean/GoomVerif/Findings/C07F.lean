import GoomVerif.Model.Iface
/-! Counter-examples for the unrepaired configuration (`Cfg.old`) of the interface mocker.  Not obligations: they record why
    `vars_independent` (F11) and `retained_while_held` (F9) need the two repairs. -/
namespace C07F
open Iface

def init2 : St := St.init (fun _ => sortMeths ["B", "A"]) (fun _ => 0) (fun _ => .val 0) (fun _ => [0, 0, 0])

/-- F11: two variables (0 and 1) of the same interface type mocked in one builder: with the cache keyed by the type
    string the second mock lands in variable 0 (which now dispatches `A` to callback 1) and variable 1 stays nil. -/
theorem F11_second_variable_ignored :
    (run Cfg.old init2 [.mock 0 0 "A" .ap 0, .mock 0 1 "A" .ap 0]).map (fun s => (s.vars 1, callSlot s 0 "A"))
      = some (.val 0, some (.stub 1)) := by decide

/-- with the repaired key both variables are mocked, each with its own callback -/
theorem F11_repaired :
    (run Cfg.fixed init2 [.mock 0 0 "A" .ap 0, .mock 0 1 "A" .ap 0]).map (fun s => (callSlot s 1 "A", callSlot s 0 "A"))
      = some (some (.stub 1), some (.stub 0)) := by decide

/-- F9: two methods stubbed with `As(..).Return(..)`: the variable still dispatches `A` to MakeFunc impl 0, which is needed
    but not reachable from any root (the variable, the live builder) through GC-visible pointers — `proxyFunc` keeps
    only the last one. -/
theorem F9_first_makefunc_unreachable :
    (run Cfg.old init2 [.mock 0 0 "A" .rt 0, .mock 0 0 "B" .rt 0]).map
        (fun s => ((needed s 0).contains (.mfi 0), (bfs s 64 [.var 0, .bld 0] []).contains (.mfi 0)))
      = some (true, false) := by decide

/-- F9: a plain `Apply` callback is needed but unreachable once the builder is dropped -/
theorem F9_callback_unreachable_after_drop :
    (run Cfg.old init2 [.mock 0 0 "A" .ap 0, .drop 0]).map
        (fun s => ((needed s 0).contains (.clo 0), (bfs s 64 [.var 0, .bld 0] []).contains (.clo 0)))
      = some (true, false) := by decide

theorem F9_repaired :
    (run Cfg.fixed init2 [.mock 0 0 "A" .rt 0, .mock 0 0 "B" .rt 0, .mock 0 0 "A" .ap 0, .drop 0]).map
        (fun s => (needed s 0).all (fun n => (bfs s 64 [.var 0, .bld 0] []).contains n))
      = some true := by decide

/-- F14 (known finding, code as it is): through a handle kept across `Reset` the context stays canceled, every `Apply`
    builds a fresh itab, so after re-mocking `A` and then `B` only `B` is mocked. -/
theorem F14_kept_handle_second_remock_wipes_first :
    (run Cfg.fixed init2 [.mockH 0 0 "A" .ap 0, .reset 0, .mockH 0 0 "A" .ap 0, .mockH 0 0 "B" .ap 0]).map
        (fun s => (callSlot s 0 "A", callSlot s 0 "B"))
      = some (some .notImpl, some (.stub 2)) := by decide

/-- a single re-mock through the kept handle is fine, and the next `Reset` restores the variable -/
theorem F14_single_remock_ok :
    (run Cfg.fixed init2 [.mockH 0 0 "A" .ap 0, .mockH 0 0 "B" .ap 0, .reset 0, .mockH 0 0 "A" .ap 0]).map
        (fun s => (callSlot s 0 "A", callSlot s 0 "B"))
      = some (some (.stub 2), some .notImpl)
    ∧ (run Cfg.fixed init2 [.mockH 0 0 "A" .ap 0, .reset 0, .mockH 0 0 "A" .ap 0, .reset 0]).map (fun s => s.vars 0)
      = some (.val 0) := by decide

/-- F27: the full statement `C07.SlotIsTypeIndex` is false for the code as it is — `methodIndexOf` compares names only, so
    with an embedded foreign unexported `ecdh` the own method `ecdh` (position 3) is looked up at position 2. -/
theorem F27_same_name_foreign_method :
    let ms := sortMeths ["ecdh", "NewKey", "ecdh@crypto/ecdh", "GenerateKey"]
    ms = ["GenerateKey", "NewKey", "ecdh@crypto/ecdh", "ecdh"] ∧ methodIndexOf ms "ecdh" = 2 ∧ ms.idxOf "ecdh" = 3 := by decide

def init3 : St := St.init (fun _ => sortMeths ["B", "A"]) (fun _ => 0) (fun _ => .val 0) (fun _ => [0, 0])

/-- F28: one variable mocked through two builders — builder 1's first mock installs a fresh itab that knows only `B`
    (builder 0's `A` is gone), and after both Resets the variable holds builder 0's stale fake interface instead of nil. -/
theorem F28_two_builders_one_variable :
    (run Cfg.fixed init3 [.mock 0 0 "A" .ap 0, .mock 1 0 "B" .ap 0]).map (fun s => (callSlot s 0 "A", callSlot s 0 "B"))
      = some (some .notImpl, some (.stub 1))
    ∧ (run Cfg.fixed init3 [.mock 0 0 "A" .ap 0, .mock 1 0 "B" .ap 0, .reset 0, .reset 1]).map (fun s => s.vars 0)
      = some (.fake 0 0) := by decide

/-- F29: a second `Reset` of the same builder writes the old backup over the value the test assigned after the first one -/
theorem F29_reset_again_clobbers_assignment :
    (run Cfg.fixed init3 [.mock 0 0 "A" .ap 0, .reset 0, .assign 0 7, .reset 0]).map (fun s => s.vars 0) = some (.val 0) := by
  decide

end C07F
