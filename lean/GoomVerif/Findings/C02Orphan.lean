import GoomVerif.Props.C02
/-! Known finding F27-c02-orphan (KNOWN_FINDINGS.jsonl key `orphaned-handle`; counter-example, not an obligation): a mocker handle that was cancelled, then REPLACED in the builder's cache by a
fresh lookup of the same function, and then applied again through the old handle is unknown to the builder — `Reset` does
not restore the function.  Reproduced on the real code (goom 6fb1f90) with
`python3 check.py C02 --replay` on `1 | k 0 f 3 ; A 0 f 3 1 ; C 0 f 3 ; c 0 f 3 ; A 0 f 3 2 ; x 0` (model and implementation
agree line by line).  The C02 generators stay inside "a kept handle is not looked up afresh while it is cancelled";
`C02.reset_restores` speaks about the mockers in the builder's cache, which this one no longer is. -/
namespace C02.Findings
open Patch

theorem orphaned_handle_escapes_reset :
    let s := run C02.exEnv (init C02.exEnv) [.keep 0 3, .applyH 0 3 1, .cancelH 0 3, .cancel 0 3, .applyH 0 3 2, .reset 0]
    s.text 3 ≠ C02.exEnv.pristine 3 ∧ s.cache 0 3 ≠ s.handle 0 3 := by decide

/-- the Reset clause at full strength is false for goom as it is: one builder, keep a handle, mock, cancel, look the function up
    again (the builder replaces its cache entry), mock again through the kept handle, Reset — the function stays patched -/
theorem not_resetRestoresAll : ¬ C02.ResetRestoresAll C02.exEnv := by
  intro h
  have := h [.keep 0 3, .applyH 0 3 1, .cancelH 0 3, .cancel 0 3, .applyH 0 3 2] 0
    (by intro op hop; simp only [List.mem_cons, List.mem_nil_iff, or_false] at hop
        rcases hop with rfl | rfl | rfl | rfl | rfl <;> rfl) 3
  revert this
  decide

end C02.Findings
