import GoomVerif.Props.C10
/-!
# F27-c10-symkinds (C10) — `FindVarByName` answers for symbol-table entries that have no address

Unrepaired `symbols_elf.go:72` copies EVERY `.symtab` entry (name, `st_value`) into the `gosym.Sym` list, so the lookup
of a name carried by an undefined reference, a FILE/SECTION marker or a TLS symbol returns `(st_value + slide, nil)` —
observed `(0x0, nil)` for `go.go`, `runtime.tlsg`, `crtstuff.c`, `__gmon_start__`.  `oldSyms` is that conversion.
`Sym.load` models the repaired code (`Sym.addrSyms` leaves those entries out; `C10.non_address_symbol_is_error`).
Recorded in KNOWN_FINDINGS.jsonl under key `symtab-entry-without-address`; fix drafted in fixes/F27-c10-symkinds.diff.
-/
namespace C10F27
open Sym

/-- the unrepaired conversion: every entry, whatever it is -/
def oldSyms {N : Type} (ss : List (N × Addr × Bool)) : List (N × Addr) := ss.map (fun e => (e.1, e.2.1))

/-- in the example file of `Props/C10.lean`: `p.c` is an undefined reference with value 0 — the old list finds it (value 0,
    which the caller then turns into "address" `0 + slide`), the repaired list does not -/
theorem old_finds_entry_without_address :
    lookup (oldSyms (C10.exFile.symtab.getD [])) "p.c" = some 0x0#64 ∧
    lookup (addrSyms (C10.exFile.symtab.getD [])) "p.c" = none ∧
    resAfter C10.exEnv [] (.findVar "p.c") = .err .noVar := by
  decide

end C10F27
