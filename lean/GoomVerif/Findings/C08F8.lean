import GoomVerif.Props.C08
/-!
# F8 — the published var.go does not have property C08 (counter-examples on `Var.step true`)

`Var.step true` transcribes the code before `fixes/F8.diff`: `doSet` saves the origin on every call, `Cancel`
assigns `reflect.ValueOf(m.originValue)` unconditionally.  Not an obligation of the check: once the repository
contains the fix these theorems merely document what was wrong.
-/
namespace C08F8
open Var C08

/-- 7 → Set 1 → Set 2 → Reset leaves 1: the second `doSet` overwrote the saved origin. -/
theorem origin_overwritten :
    ((run true (init exMem) [.look 0 false 0, .set 0 (some ⟨exInt, 1⟩), .set 0 (some ⟨exInt, 2⟩),
        .reset 0 [(false, 0)]]).mem 0).cur = some ⟨exInt, 1⟩ := by
  simp [run, step, look, setOp, doSet, resetGo, cancel, init, upd, exMem, rset, valueOf, exInt]

/-- `Cancel` with nothing set panics (`reflect.ValueOf(nil)` is the zero Value). -/
theorem cancel_unset_panics :
    (step true (run true (init exMem) [.look 0 false 0]) (.cancel 0)).2 = .panic .setZeroValue := by
  simp [run, step, look, cancel, init, upd, exMem, rset, valueOf]

/-- `Cancel` when the saved value is a nil interface panics, and the mock stays in place. -/
theorem cancel_nil_interface_panics :
    let s := run true (init exMem) [.look 0 false 1, .set 0 (some ⟨exPErr, 3⟩)]
    (step true s (.cancel 0)).2 = .panic .setZeroValue ∧ ((step true s (.cancel 0)).1.mem 1).cur = some ⟨exPErr, 3⟩ := by
  simp [run, step, look, setOp, doSet, cancel, init, upd, exMem, rset, valueOf, exInt, exErr, exPErr,
    assignable, implements, Ty.isIface, conv]

/-- a stale `Cancel` (second Reset) writes the old origin over a value the program assigned meanwhile -/
theorem second_reset_clobbers :
    ((run true (init exMem) [.look 0 false 0, .set 0 (some ⟨exInt, 1⟩), .reset 0 [(false, 0)],
        .write 0 (some ⟨exInt, 9⟩), .reset 0 [(false, 0)]]).mem 0).cur = some ⟨exInt, 7⟩ := by
  simp [run, step, look, setOp, doSet, resetGo, cancel, init, upd, exMem, rset, valueOf, exInt]

end C08F8

/-! ## K-C08-ue-iface — an unexported variable of interface type cannot be mocked by name

The statement one would like: -/
namespace C08F8
open Var C08

/-- every value assignable to the variable's type can be set through an unexported-variable mocker -/
def UeSetForEveryType : Prop :=
  ∀ (s : State) (i : Nat) (x : Val), (s.mks i).ue = true → assignable x.ty (s.mem (s.mks i).addr).ty = true →
    (step false s (.set i (some x))).2 = .ok

/-- It fails for every interface-typed variable: the overlay `reflect.NewAt(TypeOf(v))` has the dynamic type, the
    model (like goom's documentation) calls the result undefined, the real code corrupts the interface word
    (the check shows the reader crashing).  Witness: the nil `error` variable and a `*T` error.  What *is* proved is
    `C08.readers_see_last_set` + the restore theorems under `C08L.UeTyped` (value type = variable type). -/
theorem ueSetForEveryType_false : ¬ UeSetForEveryType := by
  intro h
  have := h (run false (init exMem) [.look 0 true 1]) 0 ⟨exPErr, 3⟩
    (by simp [run, step, look, init, upd])
    (by simp [run, step, look, init, upd, exMem, assignable, implements, exPErr, exErr, Ty.isIface])
  simp [run, step, look, setOp, doSet, init, upd, exMem, exPErr, exErr] at this

end C08F8

/-! ## K-C08-mixed-addressing / K-C08-set-nil-interface (code with F8 and F27; not obligations) -/
namespace C08F8
open Var C08

/-- One variable addressed by pointer and by name in one builder: two cache keys, two mockers, two saved origins.
    7 → Set 1 through `Var(&v)` → Set 2 through `UnExportedVar("pkg.v")` → Cancel both (in that order) leaves 1.
    `C08L.Owner` (no other mocker holds a mock of the variable) is exactly what this history violates. -/
theorem mixed_addressing_restores_wrong_value :
    ((run false (init exMem) [.look 0 false 0, .look 0 true 0, .set 0 (some ⟨exInt, 1⟩), .set 1 (some ⟨exInt, 2⟩),
        .cancel 0, .cancel 1]).mem 0).cur = some ⟨exInt, 1⟩ := by
  simp [run, step, look, setOp, doSet, cancel, init, upd, exMem, rset, valueOf, exInt]

/-- `Set(nil)` on an interface-typed variable: `reflect.ValueOf(nil)` is the zero Value, `Set` panics, nothing changes. -/
theorem set_nil_interface_panics :
    (step false (run false (init exMem) [.look 0 false 1]) (.set 0 none)).2 = .panic .setZeroValue := by
  simp [run, step, look, setOp, doSet, init, upd, exMem, rset, valueOf]

end C08F8
