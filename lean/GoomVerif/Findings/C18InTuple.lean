import GoomVerif.Props.C18
/-! Known finding `C18-in-item-slice-of-interface-is-tuple`: an `In` alternative whose dynamic type is exactly `[]interface{}`
    is taken as a TUPLE of components (expr.go:71 `v.([]interface{})`), never as a value: on the real code
    `In([]interface{}{1})` for an `interface{}` parameter rejects `[]interface{}{1}` (which `Equals` of it accepts) and
    `In([]interface{}{1,2})` for a `[]interface{}` parameter fails to resolve.  "In(x1..xn) accepts exactly the union of
    Equals(xi)" is therefore false for slices of interfaces.  The API gives the caller a way out (wrap the slice in a
    one-element tuple), and changing the reading would break every multi-parameter `In`, so it is recorded, not repaired.
    The model answers `unmodelled` for such an item (it never claims the union there).  Not an obligation. -/
namespace C18.Findings
open C18M

theorem in_tuple_item_not_modelled (ty : List Ty) (id : Nat) (es : Vals) (sz : Nat) (rest : Items) :
    resolveItems (.one (.val (some (.slice "[]any" id es, sz))) rest) ty = .unmodelled := by
  simp [resolveItems, Comp.isTupleLike]

end C18.Findings
