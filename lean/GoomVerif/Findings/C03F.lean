import GoomVerif.Props.C03
/-!
# Findings for C03 (not obligations): the relocation code as it was before fixes F2/F3 (`Cfg.legacy`), and F4; F5 as repaired.

Concrete witnesses, checked by kernel evaluation of the model on the regenerated `Gen.Addr` definitions.
-/
namespace C03F
open Reloc C03L

def b (l : List Nat) : Reloc.Bytes := l.map (BitVec.ofNat 8)

/-- `CMPB $0, 0x5c619c(RIP)` — 80 3d 9c 61 5c 00 00 : RIP-relative operand followed by an imm8 -/
def cmpb : Ins := { len := 7, pcrelOff := 2, pcrel := 4, bytes := b [0x80, 0x3d, 0x9c, 0x61, 0x5c, 0x00, 0x00],
                    isRet := false, isCall := false, backward := false, opZero := false }

/-- **F2**: the legacy `fixIns` returns `ops+addr` only — the image of a 7-byte `CMPB $imm8, x(RIP)` has 6 bytes, the
    immediate is gone (the next instruction's first byte is then read as the immediate). -/
theorem F2_tail_dropped :
    ∃ o, fixIns Cfg.legacy cmpb 0 13 0x402f80#64 0x4022c8#64 0 = .ok o ∧ o.length = 6 ∧ cmpb.len = 7 := by
  refine ⟨_, rfl, by decide, rfl⟩

/-- the repaired code keeps it -/
theorem F2_repaired :
    ∃ o, fixIns Cfg.fixed cmpb 0 13 0x402f80#64 0x4022c8#64 0 = .ok o ∧ o.length = 7 ∧ o.drop 6 = cmpb.tail := by
  refine ⟨_, rfl, by decide, by decide⟩

/-- stock prologue `CMPQ SP,16(R14); JBE +0x11; PUSHQ BP; MOVQ SP,BP; CALL +0x7777; POPQ BP; RET; <morestack stub>` -/
def s2 : List Ins := [
  { len := 4, pcrelOff := 0, pcrel := 0, bytes := b [0x49, 0x3b, 0x66, 0x10], isRet := false, isCall := false, backward := false, opZero := false },
  { len := 2, pcrelOff := 1, pcrel := 1, bytes := b [0x76, 0x0b], isRet := false, isCall := false, backward := false, opZero := false },
  { len := 1, pcrelOff := 0, pcrel := 0, bytes := b [0x55], isRet := false, isCall := false, backward := false, opZero := false },
  { len := 3, pcrelOff := 0, pcrel := 0, bytes := b [0x48, 0x89, 0xe5], isRet := false, isCall := false, backward := false, opZero := false },
  { len := 5, pcrelOff := 1, pcrel := 4, bytes := b [0xe8, 0x77, 0x77, 0x00, 0x00], isRet := false, isCall := true, backward := false, opZero := false },
  { len := 1, pcrelOff := 0, pcrel := 0, bytes := b [0x5d], isRet := false, isCall := false, backward := false, opZero := false },
  { len := 1, pcrelOff := 0, pcrel := 0, bytes := b [0xc3], isRet := true, isCall := false, backward := false, opZero := false },
  { len := 5, pcrelOff := 1, pcrel := 4, bytes := b [0xe8, 0x00, 0xb0, 0xff, 0xff], isRet := false, isCall := true, backward := true, opZero := false },
  { len := 2, pcrelOff := 1, pcrel := 1, bytes := b [0xeb, 0xe8], isRet := false, isCall := false, backward := true, opZero := false }]

/-- the CALL's rel32 field in the copy (bytes 14..17 of the output: 4 + 6 (widened JBE) + 1 + 3 + 1 opcode byte) -/
def callField (out : Reloc.Bytes) : Reloc.Bytes := (out.drop 15).take 4

/-- **F3**: origin 0x500000, placeholder 0x600000 (1 MiB away, so `JBE rel8` is widened by 4 bytes).  The CALL sits at
    original offset 10, its copy at offset 14; its target is 0x500000+15+0x7777.  Legacy code encodes the field as if the copy
    were at offset 10: it lands 4 bytes high.  Repaired code lands on the target. -/
theorem F3_call_shifted :
    (∃ out n, fixRelativeAddr Cfg.legacy 0x500000#64 0x600000#64 24 13 .eof s2 = .ok (out, n) ∧
        (0x600000 : Int) + 14 + 5 + sdisp (callField out) = 0x500000 + 10 + 5 + 0x7777 + 4) ∧
    (∃ out n, fixRelativeAddr Cfg.fixed 0x500000#64 0x600000#64 24 13 .eof s2 = .ok (out, n) ∧
        (0x600000 : Int) + 14 + 5 + sdisp (callField out) = 0x500000 + 10 + 5 + 0x7777) := by
  refine ⟨⟨_, _, rfl, by decide⟩, ⟨_, _, rfl, by decide⟩⟩

/-- **F4** (known finding, no small repair): the last instruction of `s2`, `JMP entry` of the stack-growth epilogue, lies
    outside the copied prefix and targets offset 0 — the patched entry.  `checkJumpBetween` accepts it (it only refuses
    targets strictly inside `(0, n)`), so a relocated prologue whose stack check fails re-enters the mock. -/
theorem F4_reentry_not_refused :
    ∃ out n, fixRelativeAddr Cfg.fixed 0x500000#64 0x600000#64 24 13 .eof s2 = .ok (out, n) ∧ n = 15 ∧
      (∃ i ∈ s2, i.pcrelOff ≠ 0 ∧ (22 : Int) + i.len + sdisp i.field = 0) := by
  refine ⟨_, _, rfl, by decide, ⟨s2.getLast (by decide), by decide, by decide, by decide⟩⟩

/-- the full no-re-entry statement `C03.NoReentry` is false for this (stock) function although the relocation succeeds -/
theorem F4_NoReentry_false : ¬ C03.NoReentry 15 24 s2 := by
  intro h
  exact h 22 (s2.getLast (by decide)) (by decide) (by decide) (by decide) (by decide) (by decide)

/-- `MOVQ 0x1000(RIP),AX; MOVQ 0x2000(RIP),BX; RET` — 15 bytes, every cut position ≥ 13 is followed by RET: copied whole -/
def whole : List Ins := [
  { len := 7, pcrelOff := 3, pcrel := 4, bytes := b [0x48, 0x8b, 0x05, 0x00, 0x10, 0x00, 0x00], isRet := false, isCall := false, backward := false, opZero := false },
  { len := 7, pcrelOff := 3, pcrel := 4, bytes := b [0x48, 0x8b, 0x1d, 0x00, 0x20, 0x00, 0x00], isRet := false, isCall := false, backward := false, opZero := false },
  { len := 1, pcrelOff := 0, pcrel := 0, bytes := b [0xc3], isRet := true, isCall := false, backward := false, opZero := false }]

/-- **F27** (known finding): the whole function is consumed (n = 15 = its size), the relocation computes the right bytes
    (`fixed`, displacements moved by −0x400) — and `fixOriginFuncToTrampoline` writes the RAW original bytes instead. -/
theorem F27_whole_copy_is_raw :
    ∃ fixed data, fixRelativeAddr Cfg.fixed 0x500000#64 0x500400#64 15 ((13 : Nat) : Int) .eof whole = .ok (fixed, 15) ∧
      fixOrigin Cfg.fixed 0x500000#64 0x500400#64 200 13 whole = .ok data ∧ data = fixed ∧ fixed ≠ progBytes whole := by
  refine ⟨_, _, rfl, rfl, rfl, by decide⟩

/-- `ADDB AL,(AX)` (00 00), then `PUSHQ BP; MOVQ SP,BP; SUBQ $0x18,SP; 8×NOP; RET` -/
def withZero : List Ins :=
  { len := 2, pcrelOff := 0, pcrel := 0, bytes := b [0, 0], isRet := false, isCall := false, backward := false, opZero := true } ::
  { len := 1, pcrelOff := 0, pcrel := 0, bytes := b [0x55], isRet := false, isCall := false, backward := false, opZero := false } ::
  { len := 3, pcrelOff := 0, pcrel := 0, bytes := b [0x48, 0x89, 0xe5], isRet := false, isCall := false, backward := false, opZero := false } ::
  { len := 4, pcrelOff := 0, pcrel := 0, bytes := b [0x48, 0x83, 0xec, 0x18], isRet := false, isCall := false, backward := false, opZero := false } ::
  ((List.replicate 8 { len := 1, pcrelOff := 0, pcrel := 0, bytes := b [0x90], isRet := false, isCall := false, backward := false, opZero := false }) ++
  [{ len := 1, pcrelOff := 0, pcrel := 0, bytes := b [0xc3], isRet := true, isCall := false, backward := false, opZero := false },
   { len := 1, pcrelOff := 0, pcrel := 0, bytes := b [0xcc], isRet := false, isCall := false, backward := false, opZero := false }])

/-- **F28** (known finding): an instruction whose Opcode field is 0 is skipped — 13 bytes of the origin are consumed but only
    11 arrive in the copy; the contract `C03L.WF.opnz` excludes exactly this. -/
theorem F28_opzero_dropped :
    ∃ out, fixRelativeAddr Cfg.fixed 0x500000#64 0x600000#64 20 13 .eof withZero = .ok (out, 13) ∧ out.length = 11 := by
  refine ⟨_, rfl, by decide⟩

/-- **F5 repaired** (fix 36abd0c): more than 2 GiB apart the jump back is `JMP [RIP+0] ; .quad origin+n` — 14 bytes, no register
    touched — and it LANDS on origin+n (before: `MOV RDX,imm64; JMP [RDX]` jumped through the code bytes stored there). -/
theorem F5_far_form_lands :
    Gen.Amd64.jmpToOriginFunctionValue 0x7f0000001000#64 0x40100f#64 =
      b [0xFF, 0x25, 0, 0, 0, 0, 0x0f, 0x10, 0x40, 0, 0, 0, 0, 0] ∧
    ∀ m : X86.Mach, X86.exec (Gen.Amd64.jmpToOriginFunctionValue 0x7f0000001000#64 0x40100f#64) { m with rip := 0x7f0000001000#64 } =
      some { m with rip := 0x40100f#64 } :=
  ⟨by decide, fun m => C15.return_exact _ _ m⟩

/-- `MOVL $1,DX; loop: 8×NOP; JMP loop` — one loop whose head (offset 5) lies inside the bytes the entry jump overwrites -/
def loopFn : List Ins :=
  { len := 5, pcrelOff := 0, pcrel := 0, bytes := b [0xba, 1, 0, 0, 0], isRet := false, isCall := false, backward := false, opZero := false } ::
  ((List.replicate 8 { len := 1, pcrelOff := 0, pcrel := 0, bytes := b [0x90], isRet := false, isCall := false, backward := false, opZero := false }) ++
  [{ len := 2, pcrelOff := 1, pcrel := 1, bytes := b [0xeb, 0xf6], isRet := false, isCall := false, backward := true, opZero := false },
   { len := 1, pcrelOff := 0, pcrel := 0, bytes := b [0xcc], isRet := false, isCall := false, backward := false, opZero := false }])

/-- **why the function size matters** (seeded change: `GetFuncSize` bounded at 16 KiB): handed the real size (16) the relocation of
    `loopFn` is refused — the closing `JMP loop` at offset 13 targets offset 5 — but handed a size that stops short of that branch
    (12) the very same function is accepted with n = 13, although the loop then branches into the middle of the entry jump.
    `C03.reloc_whole_function_checked` therefore carries `progLen prog ≤ fs` as a hypothesis. -/
theorem truncated_size_misses_back_branch :
    fixRelativeAddr Cfg.fixed 0x500000#64 0x600000#64 16 13 .eof loopFn = .error "err:jump-between" ∧
    (∃ out, fixRelativeAddr Cfg.fixed 0x500000#64 0x600000#64 12 13 .eof loopFn = .ok (out, 13)) ∧
    (∃ i ∈ loopFn, i.pcrelOff ≠ 0 ∧ (13 : Int) + i.len + sdisp i.field = 5) := by
  refine ⟨rfl, ⟨_, rfl⟩, ⟨loopFn[9], by decide, by decide, by decide⟩⟩

end C03F
