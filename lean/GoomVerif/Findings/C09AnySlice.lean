import GoomVerif.Model.ConvertNow
/-!
# C09 note — a bare `[]interface{}` given to `Returns(...)` / `Matches(Pair{Return: …})` is a tuple, not a value

Observed on the real code (review item A4/C4):
`Func(func() interface{}).Returns([]interface{}{7})` delivers `7`; `Return([]interface{}{7})` delivers the slice;
`Func(func() []interface{}).Returns([]interface{}{7, 8})` panics "the number of args does not match".

This is goom's documented convention, not an alteration: `Returns` "如果是多参可使用[]interface{}" (mocker.go:554),
`When.Returns`/`Matches` test `v.([]interface{})` (when.go:181, :200) to tell a result tuple from a single result, and Go
offers no way to distinguish a bare `[]interface{}` value from such a tuple.  To return the slice itself it has to be
wrapped: `Returns([]interface{}{[]interface{}{7}})` — the check exercises exactly that (`list 1 anys …`) and the slice
arrives intact.  The model makes the convention explicit: `PairRet.one` never carries a `[]interface{}` (`PairRet.WF`),
and the theorems about bare values have that hypothesis.  Not a finding against the property; recorded so that the
boundary is visible.  Related edge (configuration mistakes, property C13 rather than C09): a typed nil
`[]interface{}(nil)` as `Pair.Return` is accepted by `Matches` and fails only at call time (index out of range).
-/
namespace Findings.C09AnySlice
open Convert

/-- the escape: the list form with one element delivers that element as the single result -/
theorem wrapped_is_single (b : Boxed) : (PairRet.list [b]).results = [b] := rfl

/-- a `[]interface{}`-typed bare value is outside `PairRet.WF` -/
theorem anySlice_not_bare (x : Val) : ¬ (PairRet.one (some (.slice (.iface []), x))).WF := by
  simp [PairRet.WF, isAnySlice]

end Findings.C09AnySlice
