import GoomVerif.Props.C19
/-! Finding F13 (property C19): a value containing a slice/map cycle (`s := []interface{}{nil}; s[0] = s`) sends
    `fmt.Sprintf("%v")` into unbounded recursion.  goom calls fmt only from the debug wrapper
    (debug.go:32 / :53 → arg/value.go:110), so the process dies with a fatal stack overflow only when debug logging
    is open.  With a renderer that does not return on that value the full-strength statement `C19.DebugTransparent`
    is false.  Not an obligation: if the code is repaired the witness stops replaying on the implementation. -/
namespace Findings.C19F13
open Debug C19

/-- the cyclic value, passed as an `interface{}` argument -/
def cyc : Val := .atom { kind := .iface, isNil := false, tok := "z20" }

/-- fmt: total except on the cycle -/
def renderCyc (v : Val) : Option String := if v.tok == "z20" then none else some v.tok

def env : Env :=
  { sig := { params := [.iface], velem := none, nOut := 1, isMethod := false }, kind := .patch, name := "pkg.FA",
    render := renderCyc, orig := fun _ => [intVal 6000] }

def ops : List Op := [.apply { name := "sum0", kind := .sum, k := 0 }, .call [cyc]]

/-- the callback runs and returns in both configurations, but with debug open the process then dies in the log call -/
theorem debug_run_dies :
    (run env (initSt .debug) ops).2.dead = true ∧ (run env (initSt .off) ops).2.dead = false ∧
    obs env (initSt .off) ops = ["ok", "cbsum0(z20)->r:0"] ∧ obs env (initSt .debug) ops = ["ok", "cbsum0(z20)->CRASH"] := by decide

theorem not_transparent : ¬ DebugTransparent env := by
  intro h
  have := h .debug ops
  revert this
  decide

/-- the guard of SprintV does not help: the value is a non-nil interface -/
theorem not_guarded : guardedNil cyc = false := by decide

end Findings.C19F13
