import GoomVerif.Props.C01
/-!
# C01 — recorded defects, as facts about the model (never obligations)

`KNOWN_FINDINGS.jsonl` C01-K2-foreign-reset: the clause "keeps holding … until reset" read as "until the builder that
applied the mock is reset" is FALSE for goom, and the model reproduces it: `Guard.Unpatch` of a superseded guard
(`applied` is never cleared) writes the original bytes over the registered patch's jump.

C01-K1 (generic dictionary) and C01-K3 (method value receiver) are about the argument registers of the Go ABI, which
the model does not represent; they are demonstrated on the implementation only (checks/C01.py lanes `generic`, `c01.fm`).
-/
namespace C01F
open C01M C01

/-- the full-strength reading of "until reset": builder `b` mocks `f`, builder `b'` mocks `f` afterwards (its mock is the
    one applied), then `b` — not `b'` — is reset: calls must still run `b'`'s replacement -/
def HoldsUntilOwnReset (E : Env) : Prop :=
  ∀ (b b' f k k' : Nat) (v v' : RValue) (code : Addr), b' ≠ b →
    let s := arun E (ainit E) [.applyCb b f false v k code, .applyCb b' f false v' k' code]
    see E s f [] = .cb k' → see E (astep E s (.reset b)) f [] = .cb k'

/-- witness: builder 0 mocks function 1, builder 1 mocks it too, builder 0 resets — builder 1's mock is gone although its
    mocker is neither canceled nor reset -/
theorem foreign_reset_unpatches :
    let s := arun exEnv (ainit exEnv)
      [.applyCb 0 1 false ⟨0, 0xc000012340#64, 19⟩ 1 0x4a0000#64, .applyCb 1 1 false ⟨0, 0xc000012380#64, 19⟩ 2 0x4a0000#64]
    see exEnv s 1 [] = .cb 2 ∧ see exEnv (astep exEnv s (.reset 0)) 1 [] = .orig ∧
    ((astep exEnv s (.reset 0)).mockers 1 1).map (·.canceled) = some false := by decide

theorem not_holdsUntilOwnReset : ¬ HoldsUntilOwnReset exEnv := by
  intro h
  have := h 0 1 1 1 2 ⟨0, 0xc000012340#64, 19⟩ ⟨0, 0xc000012380#64, 19⟩ 0x4a0000#64 (by decide) (by decide)
  revert this
  decide

end C01F
