import GoomVerif.Model.Cursor
/-!
# C05 note (not an obligation): which stub a mocker-level `Return/Returns` extends

`mock.Func(f).Return(..)` / `.Returns(..)` on a mocker that already owns a `When` delegate to `when.Return/Returns`
(mocker.go DefMocker.Return/Returns, `m.when != nil` branch), and those extend the **current** stub: the condition declared last,
or the default only while no condition has been declared (when.go:146-159).  So the README snippet order
`Return(1); When(1).Return(2); When(In(1,2)).Return(100); Returns(1,2,3)` appends 1,2,3 to the `In(1,2)` condition (and registers
that matcher a second time), it does not start a default sequence.  The property speaks about the stub that "is given" a
sequence; which stub a call addresses is the builder/condition semantics of C04/C12, and every stub still serves what it was
given in order (`calls_kth`).  Recorded here so the behaviour stays visible; the model transcribes it and the differential
runs (free lane: `mR`/`mS` after `wW`) confirm it on the real code.
-/
namespace Findings.C05MockerReturnAfterWhen
open Cursor

/-- reviewer item A2, first history: f(0) = 1,1,1,1 and f(2) = 100,1,2,3,3 -/
example : runOps none [.mRet 1, .mWhen (.eq 1), .wRet 2, .mWhen (.isIn [1, 2]), .wRet 100, .mRets [1, 2, 3],
    .call 0, .call 0, .call 0, .call 0, .call 2, .call 2, .call 2, .call 2, .call 2] =
    [.val 1, .val 1, .val 1, .val 1, .val 100, .val 1, .val 2, .val 3, .val 3] := by decide

/-- second history: `When(1).Return(5)` then mocker-level `Return(9).AndReturn(10)`: f(1) = 5,9,10,10 and f(0) has no stub -/
example : runOps none [.mWhen (.eq 1), .wRet 5, .mRet 9, .wAnd 10, .call 1, .call 1, .call 1, .call 1, .call 0] =
    [.val 5, .val 9, .val 10, .val 10, .nomatch] := by decide

end Findings.C05MockerReturnAfterWhen
