import GoomVerif.Props.C04
/-! Finding F6 (property C04, repaired by fixes/F6.diff): the unrepaired `DefaultMatcher.Match` (matcher.go:119) and
`InExpr.Eval` (arg/expr.go:99) expanded **every** argument of a variadic function as if it were the variadic
slice.  `normalizeAll` transcribes that loop; on a real call of a function with a leading fixed parameter it
panics inside reflect (`Value.Len` on a non-slice) before any expression is looked at, whereas the repaired
`normalize` yields the logical argument tuple (`When.normalize_encode`).  Also F6b: the unrepaired `InExpr.Eval`
answered false at the first alternative of another length (`evalAltsOld`).  Not obligations. -/
namespace C04
open When

/-- the unrepaired expansion loop: `for _, v := range args { rv := reflect.ValueOf(v.Interface()); rv.Len() ... }` -/
def normalizeAll (sig : Sig) (args : List Arg) : Except Err (List Val) :=
  let args := if sig.isMethod then args.drop 1 else args
  if sig.variadic then
    args.foldlM (fun acc a => match a with
      | .pack vs => pure (acc ++ vs)
      | .nilPack => pure acc
      | .one _ => throw Err.reflect) []
  else ones args

/-- `When(1,"x",7,8)` on `f(int,string,...int)`, call `f(1,"x",7,8)`: the unrepaired code panics in reflect … -/
theorem f6_unrepaired_panics :
    normalizeAll { nIn := 3, variadic := true, isMethod := false, numOut := 1 }
      (encodeCall { nIn := 3, variadic := true, isMethod := false, numOut := 1 } 0 [1, 1, 7, 8]) = .error .reflect := by rfl

/-- … for every call of every variadic function with at least one fixed parameter. -/
theorem f6_unrepaired_panics_all (sig : Sig) (hv : sig.variadic = true) (hm : sig.isMethod = false) (x : Val) (xs : List Val)
    (hk : 2 ≤ sig.nIn) : normalizeAll sig (encodeCall sig 0 (x :: xs)) = .error .reflect := by
  obtain ⟨n, hn⟩ : ∃ n, sig.nIn - 1 = n + 1 := ⟨sig.nIn - 2, by omega⟩
  simp [normalizeAll, encodeCall, encodeCallG, hv, hm, hn, bind, Except.bind, throw, throwThe, MonadExceptOf.throw]

/-- the unrepaired outer loop of `InExpr.Eval`: `if len(input) != len(one) { return false, nil }` -/
def evalAltsOld (eqv : Val → Val → Bool) : List (List Spec) → List Val → Bool
  | [], _ => false
  | one :: rest, xs => if one.length != xs.length then false else (evalTuple eqv one xs || evalAltsOld eqv rest xs)

/-- `In([]interface{}{1,2}, []interface{}{3})` on `f(...int)`, call `f(3)`: membership holds, the old loop said no. -/
theorem f6b_unrepaired_misses :
    evalAltsOld (· == ·) [[.val 1, .val 2], [.val 3]] [3] = false ∧ SatAlts (· == ·) [[.val 1, .val 2], [.val 3]] [3] := by
  refine ⟨rfl, ?_⟩
  simp [SatAlts, SatTuple, Spec.Sat]

end C04
