import GoomVerif.Props.C04
/-! Findings F27-c04-first-when-variadic and F28-c04-in-bare-nonslice (property C04, repaired by the fix diffs of the
same names).  The model transcribes the repaired code; the two definitions below transcribe what the unrepaired code
did, with a witness each.  Not obligations.

* F27: `checkParams` (when.go:78) demanded `len(args) >= NumIn` of the *first* `When`, counting the variadic slot, so
  `mock.Func(f).When(1).Return(5)` on `f(a int, xs ...int)` — "when called as `f(1)`" — panicked "args length not
  match", while the very same `When(1)` was accepted as a second clause.
* F28: `InExpr.Resolve` (arg/expr.go:76) expanded *every* non-`[]interface{}` alternative at index `>= len(types)-1`
  of a variadic function through `reflect.Value.Len/Index`: `In(5, 6)` on `f(a int, xs ...int)` panicked in reflect at
  the second alternative, and `In("ab")` on `f(xs ...interface{})` silently registered the two bytes `'a','b'`
  (so `f("ab")` did not match and `f('a','b')` did). -/
namespace C04
open When

/-- the unrepaired argument-count test of `checkParams` -/
def checkArgsOld (sig : Sig) (n : Nat) : Bool := !(n < sig.nIn)

/-- `f(a int, xs ...int)`: one expression is a well-formed condition, the old test refused it as a first clause -/
theorem f27_unrepaired_rejects :
    arityOk { nIn := 2, variadic := true, isMethod := false, numOut := 1 } 1 ∧
    checkArgsOld { nIn := 2, variadic := true, isMethod := false, numOut := 1 } 1 = false := by
  constructor
  · simp [arityOk]
  · rfl

/-- what the unrepaired `InExpr.Resolve` did with a bare alternative (`scalar`: `reflect.Value.Len` panics;
    otherwise the value's own elements become the alternative) -/
def bareAltOld (sig : Sig) (i : Nat) (x : Spec) (elems : Option (List Val)) : Except Err (List Spec) :=
  if sig.variadic && decide (sig.nIn - 1 ≤ i) then
    match elems with
    | none => .error .reflect
    | some es => .ok (es.map Spec.val)
  else .ok [x]

/-- `In(5, 6)` on `f(a int, xs ...int)`: the second alternative panicked inside reflect -/
theorem f28_unrepaired_panics :
    bareAltOld { nIn := 2, variadic := true, isMethod := false, numOut := 1 } 1 (.val 6) none = .error .reflect := by rfl

/-- `In("ab")` on `f(xs ...interface{})`: the alternative silently became the tuple of its bytes (ids 97, 98) instead of
    the 1-tuple `("ab")` that membership demands -/
theorem f28_unrepaired_silent :
    bareAltOld { nIn := 1, variadic := true, isMethod := false, numOut := 1 } 0 (.val 7) (some [97, 98]) = .ok [.val 97, .val 98] := by rfl

end C04
