import GoomVerif.Props.C13
/-!
# Findings for C13 — counter-examples on the model (never obligations)

Each theorem exhibits, on `Model/Reject.lean` (a transcription of goom as it is), an input on which the property as stated
fails.  They correspond to the `known` lines of `KNOWN_FINDINGS.jsonl` with the same ids; the check prints `KNOWN-FINDING`
for exactly these input classes when the real code still behaves so.
-/
namespace C13F
open Reject C13

private def i : Ty := ⟨.int, 8, 25, false, 0⟩
private def rc : Ty := ⟨.ptr, 8, 37, false, 0⟩
private def ctx : Ty := ⟨.ptr, 8, idMockerICtx, false, 0⟩

/-- C13-K1: `Func(obj.M).Apply(func(){})` — a method value is applied by name; a callback with no parameters and no results
    is accepted for a method `func(*R, int) int` and installed on it -/
theorem fm_callback_unchecked :
    let r := fmApply G.init { id := 0, sig := ⟨[rc, i], [i], false, i⟩ } (.fn ⟨[], [], false, i⟩) 1
    r.2 = .ok () ∧ r.1.text 0 = some 1 := by
  exact ⟨rfl, rfl⟩

/-- C04-K1 seen from C13: a first `When()` without conditions on `func(int) int` is accepted -/
theorem first_when_without_args_accepted :
    (seqStep { id := 0, sig := ⟨[i], [i], false, i⟩ } false 1 ⟨G.init, none, .none⟩ (.when_ none false)).2 = .ok () := rfl

/-- C13-K2: a callback with one parameter too many is rejected with a panic STRING — the chain has no error value -/
theorem string_panic_has_no_typed_cause :
    ∃ r, Produced r ∧ r.chain = [.str] ∧ ∀ e, walk r.chain = some e → isTypedError e = false := by
  refine ⟨⟨.sigArgsLen, [.str]⟩,
    Produced.func G.init { id := 0, sig := ⟨[i], [i], false, i⟩ } .orig .none 1 (.apply (.fn ⟨[i, i], [i], false, i⟩)) _ rfl, rfl, ?_⟩
  intro e he; simp [walk] at he; subst he; rfl

/-- C13-K3: for an interface callback with too few parameters the typed cause `*ArgsNotMatch` IS in the chain, but the
    `erro.Cause` walk stops one node earlier, at `*IllegalParam` -/
theorem walk_stops_before_typed_cause :
    ∃ r, Produced r ∧ r.chain = [.traceable, .illegalParam, .argsNotMatch 1 2] ∧ walk r.chain = some .illegalParam := by
  refine ⟨⟨.illegalParam, [.traceable, .illegalParam, .argsNotMatch 1 2]⟩,
    Produced.iface .ptrIface "A" true ⟨[i], [i], false, i⟩ (.apply (.fn ⟨[ctx], [i], false, i⟩)) _ false rfl, rfl, rfl⟩

/-- hence the clause at full strength is false of the model -/
theorem cause_clause_full_false : ¬ CauseClauseFull := by
  intro h
  obtain ⟨r, hp, _, hno⟩ := string_panic_has_no_typed_cause
  obtain ⟨e, hw, ht⟩ := h r hp
  rw [hno e hw] at ht
  cases ht

end C13F
