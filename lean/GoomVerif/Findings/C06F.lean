import GoomVerif.Props.C06
/-! Counter-examples for the recorded C06 defects (never obligations).

* C06-F1 (repaired by `fixes/C06-F1.diff`): the pinned tree keyed `Builder.Struct` by `reflect.Type.String()`
  (package *name* + type name) and `ExportStruct`/`ExportFunc` by `pkgName+"_"+name`; neither key is injective, so the
  cache handed out another type's mocker.
* C06-K1 (known): by-name mocking of a method of an instantiated generic type names the wrapper, not the shape body. -/
namespace C06F
open Method

/-- builder.go:88 of the pinned tree: `reflect.ValueOf(instance).Type().String()` = `[*]<package name>.<type name>` -/
def oldStructKey (base : Str) (t : Ty) : Str := (if t.ptr then ['*'] else []) ++ base ++ '.' :: t.name

def tx : Ty := ⟨"m/x/util".toList, "T".toList, false⟩
def ty : Ty := ⟨"m/y/util".toList, "T".toList, false⟩

/-- two different types, one key … -/
theorem oldStructKey_collides : tx ≠ ty ∧ oldStructKey "util".toList tx = oldStructKey "util".toList ty := by decide

/-- … so the second `Struct(..)` call gets the mocker that was created for the first type -/
theorem oldStructKey_wrong_mocker :
    (getOrCreate [(oldStructKey "util".toList tx, tx)] (oldStructKey "util".toList ty) ty).2 = tx := by decide

/-- builder.go:123 of the pinned tree: `b.pkgName + "_" + name` -/
def oldExportKey (pkg name : Str) : Str := pkg ++ '_' :: name

theorem oldExportKey_collides :
    ("m/a_b".toList, "T".toList) ≠ ("m/a".toList, "b_T".toList) ∧
    oldExportKey "m/a_b".toList "T".toList = oldExportKey "m/a".toList "b_T".toList := by decide

/-- C06-K1: the full by-name statement fails at a generic instantiation although the wrapper symbol is in the table -/
theorem byName_generic_counterexample : ¬ C06.ByNameReplacesFull := by
  intro h
  have := h C06.exSyms C06.eGi (by decide) (by decide)
  revert this
  decide

/-- C06-K2: `Struct(&T{}).Method("Get")` for the VALUE method `T.Get` is answered `ok` (the `(*T).Get` wrapper is in the
    table and gets patched) and a call of `T.Get` still runs its original body -/
theorem value_method_via_pointer_not_replaced :
    let syms := C06.exSyms ++ ["x/pa.(*T).Get".toList]
    let r := run syms C06.exEntries BState.init 0 [.structMethod ⟨C06.pa, "T".toList, true⟩ "Get".toList]
    r.2 = [Res.ok] ∧ behavOf syms r.1.patched C06.eGet = none := by decide

/-- C06-K3 (repaired by F27): what the pinned `GetInnerFunc` did — the first CALL target, even when it is
    `runtime.duffcopy` in front of the shape body — is what `InnerFn.inner` still says for code that cannot tell the
    helper from the body; the repaired loop skips targets inside package runtime (not expressible in `InnerFn.Ins`). -/
theorem first_call_wins : InnerFn.inner [.fill 4, .call (-100000), .fill 3, .call (-200)] = some (-99991) := by decide

end C06F
