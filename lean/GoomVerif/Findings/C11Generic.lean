import GoomVerif.Model.Conc
/-!
# C11 note — instantiations of one generic function that share a GC shape are ONE patch location

`patch.unsafePatchValue` (internal/patch/patch.go:76-83) redirects a generic wrapper to its inner function
(`bytecode.GetInnerFunc`); `G[*A]` and `G[*B]` share that inner function, so two builders that mock "different functions"
`G[*A]` / `G[*B]` write the same location.  This is recorded as known finding **F28-c02-gcshape** by property C02; for C11 it
means such a pair of builders is outside the hypothesis `Conc.Disjoint` (targets must be disjoint as PATCH LOCATIONS), which the
theorem below makes explicit.  The C11 probe exercises generic targets of DISTINCT shapes only (locations 58, 59; possible in the `-race` build since
goom f59d74d makes `GetInnerFunc` skip `runtime.*` callees such as `racefuncenter`).
-/
namespace C11Generic
open Conc

/-- two threads whose programs write one and the same location are never `Disjoint` -/
theorem shared_location_not_disjoint (L : Layout) (prog : Tid → List Sec) (t u : Tid) (f : Loc) (h : t ≠ u)
    (ht : Writes L prog t f) (hu : Writes L prog u f) : ¬ Disjoint L prog := by
  intro hd
  obtain ⟨sec, hs, hf⟩ := ht
  refine hd t u f h hu ⟨sec, hs, ?_⟩
  cases sec with
  | replace f' r wo => cases wo <;> simp_all [writesOf, mentionsOf]
  | apply f' => simp_all [writesOf, mentionsOf]
  | unpatch f' => simp_all [writesOf, mentionsOf]
  | call f' a => simp [writesOf] at hf
  | retab f' => simp_all [writesOf, mentionsOf]

end C11Generic
