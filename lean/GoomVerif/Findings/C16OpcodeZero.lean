import GoomVerif.Model.X86Dec
/-! Not an obligation.  `internal/patch/fix_addr_amd64.go:63 fixBlock` processes an instruction only `if ins != nil && ins.Opcode != 0`.
    "A successful decode of a real instruction has `Opcode ≠ 0`" is **false** for the decoder as it is: `00 00` (`ADD [RAX], AL`)
    decodes with `err == nil`, `Op = ADD`, `Len = 2` and `Opcode = 0x00000000` (opcode byte 00, ModRM 00).  Harmless for goom — that
    instruction has no PC-relative field, and it is the all-zero padding pattern — but it means the unconditional statement cannot be
    a theorem.  What fixBlock needs is the weaker `C16.pcrel_opcode_nonzero` (Props/C16.lean), which IS proved, and is also checked on
    every evaluation by the oracle of checks/C16.py. -/
namespace Findings.C16
open X86Dec

theorem opcode_zero_on_success :
    (decode [0x00#8, 0x00]).err = .ok ∧ (decode [0x00#8, 0x00]).op ≠ 0 ∧ (decode [0x00#8, 0x00]).len = 2 ∧
      (decode [0x00#8, 0x00]).opcode = 0 := by decide +kernel

end Findings.C16
