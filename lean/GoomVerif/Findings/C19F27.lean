import GoomVerif.Props.C19
/-! Finding F27 (property C19, reported by the independent review and confirmed on the real code): the debug wrapper renders
    arguments, receivers and results with `fmt.Sprintf("%v", a.Interface())` (arg/value.go:110), and fmt runs USER methods
    (String / Error / Format / GoString).  So with debug logging open user code runs that does not run with logging off:
    a String() that records something makes the transcripts differ; a String() that calls the mocked method re-enters the
    wrapper without bound (that case is `render v = none`, as in F13).  No small repair inside goom short of not using
    `%v` on user values.  With a non-empty `renderEvents` the full statement `C19.DebugTransparent` is false. -/
namespace Findings.C19F27
open Debug C19

/-- an argument whose String() method counts its calls -/
def counting : Val := .atom { kind := .iface, isNil := false, tok := "z16" }

def env : Env :=
  { sig := { params := [.iface], velem := none, nOut := 1, isMethod := false }, kind := .patch, name := "pkg.FA",
    render := fun v => some v.tok, orig := fun _ => [intVal 6000],
    renderEvents := fun v => if v.tok == "z16" then ["!str"] else [] }

def ops : List Op := [.apply { name := "sum0", kind := .sum, k := 0 }, .call [counting]]

theorem user_method_runs_only_under_debug :
    obs env (initSt .off) ops = ["ok", "cbsum0(z16)->r:0"] ∧ obs env (initSt .debug) ops = ["ok", "cbsum0(z16)!str->r:0"] := by decide

theorem not_transparent : ¬ DebugTransparent env := by
  intro h
  have := h .debug ops
  revert this
  decide

/-- fmt returns and the target is not on the logger's path: independent of F13 and F14 -/
theorem other_hypotheses_hold : (∀ v, (env.render v).isSome = true) ∧ env.loggerCalls = false := ⟨fun _ => rfl, by decide⟩

end Findings.C19F27
