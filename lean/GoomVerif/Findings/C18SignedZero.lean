import GoomVerif.Props.C18
/-! Known finding `C18-signed-zero`: two numbers are compared through their `%v` text (equals.go:196-198), so `Equals(0.0)`
    rejects `-0.0` although Go's `0.0 == -0.0` is true.  `Ordinary` excludes the pair; without that hypothesis the
    specification fails at this witness.  Not an obligation. -/
namespace C18.Findings
open C18M C18L

theorem signed_zero_counterexample :
    equal (some (.flt "float64" true 0 "0")) (some (.flt "float64" true (2^63) "-0")) = .ok false ∧
    goEq (.flt "float64" true 0 "0") (.flt "float64" true (2^63) "-0") = true := by
  constructor
  · simp [equal, isNil, elemIfPtrOrIface, cascade, numStringEqual, isNum, isStr, numText]
  · simp [goEq, isNil, goEq1, fltEq, isNaN, isZeroF]

end C18.Findings
