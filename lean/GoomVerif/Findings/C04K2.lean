import GoomVerif.Props.C04
/-! Known finding K2 (property C04): an unexported method mocked through `ExportMethod("m").As(func(*T, int) int {…})`.

`UnexportedMethodMocker.As` (mocker.go:407) returns a `DefMocker`, whose `When/Return/Returns` call
`CreateWhen(..., isMethod = false)` with the `As` signature: for goom the stub is a plain function with one parameter
more, the receiver.  A condition written for the method (`When(1)` on `m(int)`) is therefore refused — by `checkParams`
as a first clause, by `ToExpr` later — and the only accepted spelling, `When(receiver, 1)`, *matches* the receiver by
equality, whereas the property says a method's receiver is ignored.  The theorems of Props/C04.lean are about `Sig`s
whose `isMethod` says what the stub is; here goom is given `isMethod = false`, `nIn + 1`.  Not an obligation. -/
namespace C04
open When

/-- the signature goom sees for `func (r *T) m(a int) int` mocked through `As` -/
def k2Sig : Sig := { nIn := 2, variadic := false, isMethod := false, numOut := 1 }

/-- `….As(f).When(1)`: refused as a first clause … -/
theorem k2_first_when_refused : (createWhen k2Sig (some [.val 1]) none).toBool = false := by rfl

/-- … and after a default -/
theorem k2_later_when_refused :
    (match createWhen k2Sig none (some (1, 0)) with
     | .ok w => (w.when [.val 1]).toBool
     | .error _ => true) = false := by rfl

/-- with the receiver spelled out the condition is accepted, and the receiver is matched, not ignored:
    receiver 1000 matches, receiver 1001 does not -/
theorem k2_receiver_is_matched :
    (match build k2Sig [.when (some [.val 1000, .val 1]), .ret 1 5] with
     | .ok w => [(w.invoke (· == ·) (encodeCall k2Sig 0 [1000, 1])).map Prod.fst,
                 (w.invoke (· == ·) (encodeCall k2Sig 0 [1001, 1])).map Prod.fst]
     | .error e => [.error e]) = [.ok (.ret 5), .error .nosuitable] := by rfl

end C04
