import GoomVerif.Props.C10
/-!
# F14 (C10) — `ExposeFunction` used `funcAlignment` before it was initialised

Before the repair `subvert.go ExposeFunction` did not run `initAlignment.Do(initAlignmentFunc)`: as the first lookup of
a process it added the still-zero `funcAlignment`.  `exposeOld` is that code; with any non-zero slide (external
linking: `.text` starts 0x100 before `runtime.text`) the returned address is not the function's.  Not an obligation:
it documents why `Sym.step` models `expose` with the initialisation (the repaired code) and what the check reports
on the unrepaired code (`ext.as-linked.expose-first`).
-/
namespace C10F14
open Sym

/-- the unrepaired `ExposeFunction`: no `initAlign` -/
def exposeOld {N : Type} [DecidableEq N] (env : Env N) (s : St N) (n : N) : St N × Res :=
  (touch env s, resOf (funcSym env s n) s.fAlign)

/-- in the example process of `Props/C10.lean` (slide 0x100) `p.g` lives at 0x401180; the old code, called first,
    answers 0x401080 -/
theorem old_expose_first_is_off :
    (exposeOld C10.exEnv {} "p.g").2 = .ok 0x401080#64 ∧ resAfter C10.exEnv [] (.findFunc "p.g") = .ok 0x401180#64 := by
  decide

/-- … and answers correctly once any `FindFuncByName` has run -/
theorem old_expose_later_is_right :
    (exposeOld C10.exEnv (step C10.exEnv {} (.findFunc "p.f")).1 "p.g").2 = .ok 0x401180#64 := by
  decide

end C10F14
