import GoomVerif.Gen.Addr
import GoomVerif.Gen.JmpAmd64
/-!
# Model of goom's trampoline relocation (amd64)

Transcription of `internal/patch/fix_addr_amd64.go` (`fixRelativeAddr`, `fixBlock` — both passes —, `fixIns`,
`checkJumpBetween`) and of the size checks / jump-back of `internal/patch/fix_origin_amd64.go`
(`fixOriginFuncToTrampoline`) over an **abstract instruction list**: the x86 decoder is a parameter (its
contract is property C16); `ParseIns(pos, block)` is "the instruction of the list that starts at `pos`".
`EncodeAddress`, `DecodeAddress` and `opExpand` are *not* modelled here: the definitions regenerated from
`internal/bytecode/addr.go` (`Gen.Addr`) are called, so an edit to that file is re-proved.

`Cfg` selects between the code as repaired by fixes F2/F3 (`Cfg.fixed`, what the theorems are about and what the
driver answers for `c03.reloc`) and the code as it was before (`Cfg.legacy`, used by `Findings/C03F` to state the
two defects as theorems and by the check to recognise an unrepaired tree).
-/
namespace Reloc

abbrev Bytes := List (BitVec 8)

/-- one decoded instruction as goom's decoder reports it (x86asm.Inst fields that the relocation reads) -/
structure Ins where
  len      : Nat        -- Inst.Len
  pcrelOff : Nat        -- Inst.PCRelOff (0 = no PC-relative field)
  pcrel    : Nat        -- Inst.PCRel (width of the field in bytes)
  bytes    : Bytes      -- block[pos : pos+Len]
  isRet    : Bool       -- Inst.String() == "RET"
  isCall   : Bool       -- Inst.Op.String() == "CALL" (only logged by goom)
  backward : Bool       -- addr.go:25 DecodeRelativeAddr: some argument prints as ".-…" or "…RIP-…"
  opZero   : Bool       -- Inst.Opcode == 0 (fix_addr_amd64.go:63 skips such an instruction)
  deriving Repr, DecidableEq

/-- what `ParseIns` reports at the position after the last listed instruction -/
inductive Tail | eof | bad
  deriving Repr, DecidableEq

structure Cfg where
  keepTail    : Bool    -- F2 repaired: bytes after the PC-relative field are kept
  trackGrowth : Bool    -- F3 repaired: bytes inserted by earlier widenings are accounted for
  deriving Repr, DecidableEq

def Cfg.fixed : Cfg := ⟨true, true⟩
def Cfg.legacy : Cfg := ⟨false, false⟩

/-- `block[pos : offset]` — prefixes, opcode, ModRM/SIB before the field -/
def Ins.pre (i : Ins) : Bytes := i.bytes.take i.pcrelOff
/-- `block[offset : offset+PCRel]` -/
def Ins.field (i : Ins) : Bytes := (i.bytes.drop i.pcrelOff).take i.pcrel
/-- `block[offset+PCRel : pos+Len]` — trailing immediates -/
def Ins.tail (i : Ins) : Bytes := i.bytes.drop (i.pcrelOff + i.pcrel)

/-- addr.go:25 `DecodeRelativeAddr` -/
def decodeRel (i : Ins) : Except String Int :=
  match Gen.Addr.DecodeAddress i.field (BitVec.ofNat 64 i.pcrel) with
  | .ok v => .ok (if i.backward && decide (0 < v.toInt) then - v.toInt else v.toInt)
  | .error _ => .error "panic:decode-address"

def encode (i : Ins) (addr : Int) (add : BitVec 64) : Except String Bytes :=
  match Gen.Addr.EncodeAddress i.pre i.field (BitVec.ofNat 64 i.pcrel) (BitVec.ofInt 64 addr) add with
  | .ok r => .ok r
  | .error _ => .error "panic:address-overflow"

/-- fix_addr_amd64.go:99 `fixIns`.  `growth = len(fixedBlock) - pos` (always 0 in the legacy code). -/
def fixIns (c : Cfg) (i : Ins) (pos : Nat) (blockSize : Int) (from_ tramp : BitVec 64) (growth : Int) :
    Except String Bytes :=
  if i.pcrelOff = 0 then .ok i.bytes                                   -- :101
  else
    match decodeRel i with                                             -- :106
    | .error e => .error e
    | .ok addr =>
      let tgt : Int := addr + pos + i.len
      let tl : Bytes := if c.keepTail then i.tail else []
      if (0 < addr ∧ blockSize ≤ tgt) ∨ (addr < 0 ∧ tgt < 0) then      -- :116
        match encode i addr (from_ - tramp - BitVec.ofInt 64 growth) with   -- :128
        | .error e => .error e
        | .ok r => if i.pcrel < r.length then .ok (r ++ tl) else .ok i.bytes
      else if c.trackGrowth ∧ growth ≠ 0 ∧ addr < 0 then               -- (F3 repair) backward branch inside the copy
        match encode i addr (- BitVec.ofInt 64 growth) with
        | .error e => .error e
        | .ok r => .ok (r ++ tl)
      else .ok i.bytes                                                 -- :140

/-- fix_addr_amd64.go:84–:89: the instruction at the cut position exists and is not `RET` -/
def cutFlag : List Ins → Bool
  | j :: _ => !j.isRet                                               -- :89
  | [] => false                                                      -- ParseIns → nil (or panic at :86, see `Tail.bad`)

/-- fix_addr_amd64.go:50 `fixBlock`; `pos` = position of the head of the list, `acc` = `fixedBlock`. -/
def fixBlock (c : Cfg) (from_ tramp : BitVec 64) (least blockSize : Int) (tl : Tail) :
    List Ins → Nat → Bytes → Except String (Bytes × Nat)
  | [], pos, acc =>
    match tl with
    | .eof => .ok (acc, if c.trackGrowth then pos else acc.length)     -- :95 (loop left: pos ≥ len(block))
    | .bad => .error "panic:decode-error"                              -- :60
  | i :: rest, pos, acc =>
    let growth : Int := if c.trackGrowth then (acc.length : Int) - pos else 0
    match (if i.opZero then .ok [] else fixIns c i pos blockSize from_ tramp growth) with   -- :63–:74
    | .error e => .error e
    | .ok o =>
      let acc' := acc ++ o
      let pos' := pos + i.len                                          -- :80
      if 0 < least ∧ least ≤ (pos' : Int) ∧ cutFlag rest = true then .ok (acc', pos')   -- :83–:90
      else fixBlock c from_ tramp least blockSize tl rest pos' acc'

/-- fix_addr_amd64.go:146 `checkJumpBetween` -/
def checkJumpBetween (to_ funcSize : Int) (tl : Tail) : List Ins → Nat → Except String Unit
  | [], pos =>
    if (pos : Int) ≤ funcSize then
      match tl with
      | .eof => .ok ()                                                 -- :152 ins == nil
      | .bad => .error "panic:decode-error"                            -- :150
    else .ok ()
  | i :: rest, pos =>
    if funcSize < (pos : Int) then .ok ()                              -- :147
    else if i.pcrelOff = 0 then checkJumpBetween to_ funcSize tl rest (pos + i.len)
    else
      match decodeRel i with
      | .error e => .error e
      | .ok rel =>
        let t : Int := rel + pos + i.len
        if t < to_ ∧ 0 < t then .error "err:jump-between"              -- :161
        else checkJumpBetween to_ funcSize tl rest (pos + i.len)

/-- fix_addr_amd64.go:22 `fixRelativeAddr` -/
def fixRelativeAddr (c : Cfg) (from_ tramp : BitVec 64) (funcSize least : Int) (tl : Tail) (prog : List Ins) :
    Except String (Bytes × Nat) :=
  match fixBlock c from_ tramp least funcSize tl prog 0 [] with          -- :26
  | .error e => .error e
  | .ok (_, n) =>
    match checkJumpBetween n funcSize tl prog 0 with                     -- :32
    | .error e => .error e
    | .ok () =>
      match fixBlock c from_ tramp n n tl prog 0 [] with                 -- :39
      | .error e => .error e
      | .ok (out, _) => .ok (out, n)

def progLen : List Ins → Nat
  | [] => 0
  | i :: rest => i.len + progLen rest

/-- the raw bytes of the function, `memory.RawRead(origin, originFuncSize)` (fix_origin_amd64.go:44) -/
def progBytes : List Ins → Bytes
  | [] => []
  | i :: rest => i.bytes ++ progBytes rest

/-- fix_origin_amd64.go:20 `fixOriginFuncToTrampoline` after the two `GetFuncSize` calls: returns the bytes of the
    single `WriteTo(trampoline, …)`, or an error — in which case nothing at all is written. -/
def fixOrigin (c : Cfg) (from_ tramp : BitVec 64) (trampSize : Nat) (jumpInstSize : Nat) (prog : List Ins) :
    Except String Bytes :=
  let blockLen := progLen prog
  if trampSize ≤ jumpInstSize then .error "err:trampoline-too-small"      -- :37
  else
    match fixRelativeAddr c from_ tramp blockLen jumpInstSize .eof prog with   -- :50
    | .error e => .error e
    | .ok (fixed, n) =>
      let data :=
        if (if c.trackGrowth then n else fixed.length) < blockLen then      -- :55
          fixed ++ Gen.Amd64.jmpToOriginFunctionValue (tramp + BitVec.ofNat 64 fixed.length) (from_ + BitVec.ofNat 64 n)
        else fixed              -- whole function consumed: the relocated bytes, no jump back (F27 repaired)
      if trampSize < data.length then .error "err:fixed-bigger-than-trampoline"   -- :72
      else .ok data

end Reloc
