import GoomVerif.Gen.X86Table
/-!
# Model of goom's x86-64 table decoder — `internal/arch/x86asm/decode.go:238 decode1`, mode = 64, gnuCompat = false

Transcribed from the code as it is.  The decoding *table* (`decoder`, 13 401 uint16), the numeric values of the `x*`
bytecodes, of the `Reg`/`Op` constants, `baseReg`, `fixedArg` and the array lengths come from `Gen/X86Table.lean`,
which is regenerated from the compiled package on every run.  The interpreter below is hand-written and tied to the real
`x86asm.Decode` by the correspondence run of `checks/C16.py` (same byte strings → same `(err, Len, Op, PCRel, PCRelOff)`).

What is kept of the Go state: everything that can influence `err`, `Len`, `Op`, `Opcode`, `PCRel`, `PCRelOff` or a run-time panic
(slice/array index).  `inst.Prefix[i]` flags are kept only where the code reads them back (the byte of the last REP/REPN and
of the last FS/GS prefix, the Implicit flag on the last REP prefix, the two VEX payload bytes); `inst.Args` is reduced to
`narg` (index-out-of-range on `inst.Args[narg]`) and to `Args[0]` as a register number (read by the NOP fix-up, decode.go:1244).
Every Go index expression is either guarded by the same test as in the source or produces `Err.panic`.
Reductions justified by mode = 64: `addrMode ∈ {32,64}`, `dataMode ∈ {16,32,64}` (type `Sz`), the 16-bit ModRM form
(decode.go:472-498) and `xCondIs64`'s 16/32 branch are unreachable and omitted.
`fetch` reads *all* operands of a table instruction eagerly where Go reads them lazily (e.g. all `n` entries of an
`xCondByte`); on a well-formed table (`Gen.X86OK.chunks_ok`) both never leave the table, on a corrupted one the model may
report `panic` where Go would not reach the bad entry — that shows up as a correspondence difference, never as silence.
-/
namespace X86Dec
open Gen.X86

abbrev Bytes := List (BitVec 8)

inductive Sz | s16 | s32 | s64
  deriving DecidableEq, Repr

/-- result class: `ok` = `err == nil` -/
inductive Err | ok | trunc | unrec | internal | panic | fuel
  deriving DecidableEq, Repr

structure Res where
  err : Err
  len : Nat
  op : Nat := 0
  pcrel : Nat := 0
  pcreloff : Nat := 0
  opcode : Nat := 0   -- inst.Opcode (uint32): opcode bytes incl. ModRM/SIB, left aligned; 0 on every `Inst{Len: …}` return
  deriving DecidableEq, Repr

def panicRes : Res := { err := .panic, len := 0 }

/-- decode.go:171 `instPrefix(src[0], mode)`: `Inst{Len: 1}` with `err == nil`.  Evaluating `src[0]` panics on an empty slice. -/
def instPrefix (src : Bytes) : Res :=
  if src.length = 0 then panicRes else { err := .ok, len := 1 }

/-- decode.go:203 `truncated` -/
def truncated (src : Bytes) : Res :=
  if src.length = 0 then { err := .trunc, len := 0 } else instPrefix src

/-- what the prefix phase leaves behind (decode.go:253-427) -/
structure Pfx where
  pos : Nat := 0
  nprefix : Nat := 0
  lock : Bool := false        -- lockIndex >= 0
  rep : Nat := 0              -- inst.Prefix[repIndex] & 0xFF, 0 when repIndex < 0
  seg : Nat := 0              -- inst.Prefix[segIndex] & 0xFF, 0 when segIndex < 0 (mode 64: only 0x64 / 0x65 set segIndex)
  dataSize : Bool := false    -- dataSizeIndex >= 0
  addrSize : Bool := false    -- addrSizeIndex >= 0
  rex : Nat := 0
  vex : Nat := 0
  vexB1 : Nat := 0            -- inst.Prefix[vexIndex+1]
  vexB2 : Nat := 0            -- inst.Prefix[vexIndex+2]
  am : Sz := .s64
  dm : Sz := .s32
  deriving Repr

/-- decode.go:308-404, the `ReadPrefixes` loop.  `Except.error r` = early `return`. -/
def readPrefixes (src : Bytes) (pos : Nat) (a : Pfx) : Except Res Pfx :=
  if h : pos < src.length then
    let p := (src[pos]).toNat
    -- the `switch p` decides: stop (default / refused VEX), VEX (continue), or an ordinary prefix
    if p = 0xC5 then
      if pos = 0 ∧ pos + 1 < src.length then                              -- :373 (mode == 64)
        readPrefixes src (pos + 2) { a with vex := p, vexB1 := (src.getD (pos + 1) 0).toNat }
      else .ok { a with pos := pos, nprefix := pos }
    else if p = 0xC4 then
      if pos = 0 ∧ pos + 2 < src.length then                              -- :385
        readPrefixes src (pos + 3)
          { a with vex := p, vexB1 := (src.getD (pos + 1) 0).toNat, vexB2 := (src.getD (pos + 2) 0).toNat }
      else .ok { a with pos := pos, nprefix := pos }
    else
      let a' : Option Pfx :=
        if p = 0xF0 then some { a with lock := true }
        else if p = 0xF2 ∨ p = 0xF3 then some { a with rep := p }
        else if p = 0x26 ∨ p = 0x2E ∨ p = 0x36 ∨ p = 0x3E then some a     -- :332 mode 64: ignored
        else if p = 0x64 ∨ p = 0x65 then some { a with seg := p }
        else if p = 0x66 then some { a with dm := .s16, dataSize := true }
        else if p = 0x67 then some { a with am := .s32, addrSize := true }
        else none
      match a' with
      | none => .ok { a with pos := pos, nprefix := pos }                 -- :312 default
      | some a' =>
        if pos ≥ len_prefix then .error (instPrefix src)                  -- :399
        else readPrefixes src (pos + 1) a'
  else .ok { a with pos := pos }                                          -- loop ran off the end: nprefix stays 0
termination_by src.length - pos

def isREX (p : Nat) : Bool := p &&& 0xF0 == 0x40

/-- decode.go:406-427 -/
def readRex (src : Bytes) (a : Pfx) : Except Res Pfx :=
  if h : a.pos < src.length then
    let p := (src[a.pos]).toNat
    if isREX p ∧ a.vex = 0 then
      if a.pos ≥ len_prefix then .error (instPrefix src)
      else .ok { a with rex := p, pos := a.pos + 1, dm := if p &&& 0x08 ≠ 0 then .s64 else a.dm }
    else .ok a
  else .ok a

/-- decoder-loop state (decode.go:253-301, the part that matters, see the header) -/
structure St where
  pos : Nat
  haveModrm : Bool := false
  modrm : Nat := 0
  mod_ : Nat := 0
  regop : Nat := 0
  rm : Nat := 0
  haveMem : Bool := false
  haveSIB : Bool := false
  sibBase : Nat := 0
  memBase : Nat := 0          -- mem.Base as a Reg number
  displen : Nat := 0
  dispoff : Nat := 0
  immcpos : Nat := 0
  osh8 : Nat := 32            -- opshift + 8
  opcode : Nat := 0
  op : Nat := 0
  narg : Nat := 0
  arg0 : Nat := 0             -- inst.Args[0] if it is a Reg, else 0
  pcrel : Nat := 0
  pcreloff : Nat := 0
  repImplicit : Bool := false -- inst.Prefix[repIndex] & PrefixImplicit
  deriving Repr

/-- one table instruction with its operands -/
inductive Instr
  | fail | match_
  | jump (t : Nat)
  | condByte (ents : List (Nat × Nat)) (fall : Nat) (fallFail : Bool)
  | condIs64 (t : Nat)
  | condIsMem (tReg tMem : Nat)
  | condDataSize (t16 t32 t64 : Nat)
  | condAddrSize (t16 t32 t64 : Nat)
  | condPrefix (ents : List (Nat × Nat))
  | condSlashR (ts : List Nat)
  | setOp (op next : Nat)
  | plain (x next : Nat)
  | bad (x : Nat)
  deriving Repr

/-- `k` pairs `(decoder[p], decoder[p+1]), (decoder[p+2], decoder[p+3]), …` -/
def readPairs : Nat → Nat → Option (List (Nat × Nat))
  | 0, _ => some []
  | k + 1, p => do
    let a ← tbl? p
    let b ← tbl? (p + 1)
    let r ← readPairs k (p + 2)
    pure ((a, b) :: r)

def readList : Nat → Nat → Option (List Nat)
  | 0, _ => some []
  | k + 1, p => do
    let a ← tbl? p
    let r ← readList k (p + 1)
    pure (a :: r)

/-- decode.go:443 `x := decoder[pc]` plus the operand reads of each case of the `switch decodeOp(x)` -/
def fetch (pc : Nat) : Option Instr := do
  let x ← tbl? pc
  if x = xFail then pure .fail
  else if x = xMatch then pure .match_
  else if x = xJump then pure (.jump (← tbl? (pc + 1)))                    -- :602
  else if x = xCondByte then                                               -- :606-636
    let n ← tbl? (pc + 1)
    let ents ← readPairs n (pc + 2)
    let after := pc + 2 + 2 * n
    let y ← tbl? after
    let fall ← if y = xJump then tbl? (after + 1) else pure after
    let z ← tbl? fall
    pure (.condByte ents fall (z = xFail))
  else if x = xCondIs64 then pure (.condIs64 (← tbl? (pc + 2)))            -- :639 mode == 64
  else if x = xCondIsMem then pure (.condIsMem (← tbl? (pc + 1)) (← tbl? (pc + 2)))
  else if x = xCondDataSize then pure (.condDataSize (← tbl? (pc + 1)) (← tbl? (pc + 2)) (← tbl? (pc + 3)))
  else if x = xCondAddrSize then pure (.condAddrSize (← tbl? (pc + 1)) (← tbl? (pc + 2)) (← tbl? (pc + 3)))
  else if x = xCondPrefix then                                             -- :762
    let n ← tbl? (pc + 1)
    pure (.condPrefix (← readPairs n (pc + 2)))
  else if x = xCondSlashR then pure (.condSlashR (← readList 8 (pc + 1)))  -- :882
  else if x = xSetOp then pure (.setOp (← tbl? (pc + 1)) (pc + 2))         -- :975
  else if x ≤ xArgRmf64 then pure (.plain x (pc + 1))
  else pure (.bad x)

/-- result of one interpreter step -/
inductive Step
  | next (pc : Nat) (s : St)
  | brk (s : St)            -- `break Decode`
  | ret (r : Res)           -- `return`

/-- decode.go:1535 `baseRegForBits(addrMode)` -/
def baseRegFor : Sz → Nat
  | .s16 => regAX | .s32 => regEAX | .s64 => regRAX

/-- `inst.Opcode |= b << opshift; opshift -= 8` when `opshift >= 0` (decode.go:461, 511, 619) -/
def pushOpcode (s : St) (b : Nat) : St :=
  if s.osh8 ≥ 8 then { s with opcode := s.opcode ||| (b <<< (s.osh8 - 8)), osh8 := s.osh8 - 8 } else s

/-- decode.go:452-471, 500: the ModR/M byte itself -/
def modrmHead (src : Bytes) (P : Pfx) (s : St) : Except Res St :=
  if s.haveModrm then .error { err := .internal, len := s.pos }            -- :452
  else if h : s.pos < src.length then
    let modrm := (src[s.pos]).toNat
    let s := pushOpcode { s with haveModrm := true, modrm := modrm, pos := s.pos + 1 } modrm
    let mod_ := modrm >>> 6
    let regop := if P.rex &&& 0x04 ≠ 0 then ((modrm >>> 3) &&& 7) ||| 8 else (modrm >>> 3) &&& 7
    .ok { s with mod_ := mod_, regop := regop, rm := modrm &&& 7, haveMem := mod_ != 3 }
  else .error (truncated src)                                               -- :456

/-- decode.go:504-548: SIB byte, or REX.B on rm; sets mem.Base -/
def modrmSib (src : Bytes) (P : Pfx) (s : St) : Except Res St :=
  if s.rm = 4 ∧ s.mod_ ≠ 3 then
    if h2 : s.pos < src.length then
      let sib := (src[s.pos]).toNat
      let s := pushOpcode { s with pos := s.pos + 1, haveSIB := true } sib
      let base0 := sib &&& 7
      let base := if P.rex &&& 0x01 ≠ 0 ∨ (P.vex = 0xC4 ∧ P.vexB1 &&& 0x20 = 0) then base0 ||| 8 else base0
      if base &&& 7 = 5 ∧ s.mod_ = 0 then .ok { s with sibBase := base }
      else .ok { s with sibBase := base, memBase := (baseRegFor P.am + base) % 256 }
    else .error (truncated src)
  else
    let rm' := if P.rex &&& 0x01 ≠ 0 then s.rm ||| 8 else s.rm
    if (s.mod_ = 0 ∧ rm' &&& 7 = 5) ∨ rm' &&& 7 = 4 then .ok { s with rm := rm' }
    else if s.mod_ ≠ 3 then .ok { s with rm := rm', memBase := (baseRegFor P.am + rm') % 256 }
    else .ok { s with rm := rm' }

/-- decode.go:551-559 disp32 -/
def modrmDisp32 (src : Bytes) (s : St) : Except Res St :=
  if (s.mod_ = 0 ∧ (s.rm &&& 7 = 5 ∨ (s.haveSIB = true ∧ s.sibBase &&& 7 = 5))) ∨ s.mod_ = 2 then
    if s.pos + 4 > src.length then .error (truncated src)
    else .ok { s with dispoff := s.pos, displen := 4, pos := s.pos + 4 }
  else .ok s

/-- decode.go:562-570 disp8 -/
def modrmDisp8 (src : Bytes) (s : St) : Except Res St :=
  if s.mod_ = 1 then
    if s.pos ≥ src.length then .error (truncated src)
    else .ok { s with dispoff := s.pos, displen := 1, pos := s.pos + 1 }
  else .ok s

/-- decode.go:574-580: mod=0 rm=5 is PC-relative in 64-bit mode -/
def modrmRip (P : Pfx) (s : St) : St :=
  if s.mod_ = 0 ∧ s.rm &&& 7 = 5 then { s with memBase := if P.am = .s32 then regEIP else regRIP } else s

/-- decode.go:451-586: read and decode ModR/M (32/64-bit address form) -/
def readModrm (src : Bytes) (P : Pfx) (s : St) : Except Res St :=
  match modrmHead src P s with
  | .error r => .error r
  | .ok s =>
    match modrmSib src P s with
    | .error r => .error r
    | .ok s =>
      match modrmDisp32 src s with
      | .error r => .error r
      | .ok s =>
        match modrmDisp8 src s with
        | .error r => .error r
        | .ok s => .ok (modrmRip P s)

/-- `inst.Args[narg] = a; narg++` — index out of range is a Go panic -/
def putArg (s : St) (reg : Nat) (next : Nat) : Step :=
  if s.narg < len_args then
    .next next { s with arg0 := if s.narg = 0 then reg else s.arg0, narg := s.narg + 1 }
  else .ret panicRes

/-- `if mem.Base == RIP { inst.PCRel = displen; inst.PCRelOff = dispoff }` -/
def setPCRelIfRip (s : St) : St :=
  if s.memBase = regRIP then { s with pcrel := s.displen, pcreloff := s.dispoff } else s

/-- a memory argument: `inst.Args[narg] = mem; inst.MemBytes = int(memBytes[x]); …; narg++` -/
def putMem (s : St) (x next : Nat) : Step :=
  if s.narg < len_args then
    if x < len_memBytes then putArg (setPCRelIfRip s) 0 next else .ret panicRes
  else .ret panicRes

def regOf (x : Nat) : Option Nat := baseReg[x]?

/-- `rex != 0 && base == AL && index >= 4` → SPB family -/
def lowByteReg (P : Pfx) (base index : Nat) : Nat :=
  if P.rex ≠ 0 ∧ base = regAL ∧ index ≥ 4 then (regSPB + (index - 4)) % 256 else (base + index) % 256

def fixedOps : List Nat := [xArg1, xArg3, xArgAL, xArgAX, xArgCL, xArgCS, xArgDS, xArgDX, xArgEAX, xArgEDX, xArgES, xArgFS,
  xArgGS, xArgRAX, xArgRDX, xArgSS, xArgST, xArgXMM0]
def immOps : List Nat := [xArgImm8, xArgImm8u, xArgImm16, xArgImm16u, xArgImm32, xArgImm64]
def memOps : List Nat := [xArgM, xArgM128, xArgM256, xArgM1428byte, xArgM16, xArgM16and16, xArgM16and32, xArgM16and64,
  xArgM16colon16, xArgM16colon32, xArgM16colon64, xArgM16int, xArgM2byte, xArgM32, xArgM32and32, xArgM32fp, xArgM32int,
  xArgM512byte, xArgM64, xArgM64fp, xArgM64int, xArgM8, xArgM80bcd, xArgM80dec, xArgM80fp, xArgM94108byte, xArgMem]
def moffsOps : List Nat := [xArgMoffs8, xArgMoffs16, xArgMoffs32, xArgMoffs64]
def regopOps : List Nat := [xArgR8, xArgR16, xArgR32, xArgR64, xArgXmm, xArgXmm1, xArgDR0dashDR7]
def mmOps : List Nat := [xArgMm, xArgMm1, xArgTR0dashTR7]
def rmfOps : List Nat := [xArgRmf16, xArgRmf32, xArgRmf64]
def opregOps : List Nat := [xArgR8op, xArgR16op, xArgR32op, xArgR64op, xArgSTi]
def rmOps : List Nat := [xArgRM8, xArgRM16, xArgRM32, xArgRM64, xArgR32M16, xArgR32M8, xArgR64M16, xArgMmM32, xArgMmM64,
  xArgMm2M64, xArgXmm2M16, xArgXmm2M32, xArgXmm2M64, xArgXmmM64, xArgXmmM128, xArgXmmM32, xArgXmm2M128, xArgYmm2M256]

/-- read `k` immediate bytes (xReadIb/Iw/ID/Io, decode.go:889-915) -/
def readImm (src : Bytes) (s : St) (k next : Nat) : Step :=
  if s.pos + k > src.length then .ret (truncated src) else .next next { s with pos := s.pos + k }

/-- read a `k`-byte code offset (xReadCb/Cw/Cd/Cp/Cm, decode.go:917-970) -/
def readImmc (src : Bytes) (s : St) (k next : Nat) : Step :=
  if s.pos + k > src.length then .ret (truncated src) else .next next { s with immcpos := s.pos, pos := s.pos + k }

/-- the cases of the second `switch decodeOp(x)` (decode.go:589-1223) that take no table operand -/
def stepPlain (src : Bytes) (P : Pfx) (x next : Nat) (s : St) : Step :=
  if x = xReadSlashR then .next next s                                     -- done by readModrm
  else if x = xReadIb then readImm src s 1 next
  else if x = xReadIw then readImm src s 2 next
  else if x = xReadID then readImm src s 4 next
  else if x = xReadIo then readImm src s 8 next
  else if x = xReadCb then readImmc src s 1 next
  else if x = xReadCw then readImmc src s 2 next
  else if x = xReadCm then readImmc src s (if P.am = .s32 then 4 else 8) next   -- :933 (addrMode 16 impossible in mode 64)
  else if x = xReadCd then readImmc src s 4 next
  else if x = xReadCp then readImmc src s 6 next
  else if x ∈ fixedOps then                                                -- :978
    match fixedArg[x]? with
    | some r => putArg s r next
    | none => .ret panicRes
  else if x ∈ immOps then putArg s 0 next                                  -- :999-1021
  else if x ∈ memOps then                                                  -- :1023
    if !s.haveMem then .brk { s with op := 0 } else putMem s x next
  else if x = xArgPtr16colon16 ∨ x = xArgPtr16colon32 then                 -- :1062 writes Args[narg], Args[narg+1]
    if s.narg + 1 < len_args then .next next { s with narg := s.narg + 2 } else .ret panicRes
  else if x ∈ moffsOps then putMem { s with memBase := 0 } x next          -- :1072 mem = Mem{Disp: immc}
  else if x = xArgYmm1 then                                                -- :1087 (reads inst.Prefix[vexIndex+1])
    match regOf x with
    | some base => putArg s ((base + (if P.vexB1 &&& 0x80 = 0 then s.regop + 8 else s.regop)) % 256) next
    | none => .ret panicRes
  else if x ∈ regopOps then                                                -- :1096
    match regOf x with
    | some base => putArg s (lowByteReg P base s.regop) next
    | none => .ret panicRes
  else if x ∈ mmOps then                                                   -- :1107
    match regOf x with
    | some base => putArg s ((base + (s.regop &&& 7)) % 256) next
    | none => .ret panicRes
  else if x = xArgCR0dashCR7 then                                          -- :1111
    let s := if P.lock then { s with regop := s.regop + 8 } else s
    putArg s ((regCR0 + s.regop) % 256) next
  else if x = xArgSreg then                                                -- :1123
    let s := { s with regop := s.regop &&& 7 }
    if s.regop ≥ 6 then .brk { s with op := 0 } else putArg s ((regES + s.regop) % 256) next
  else if x ∈ rmfOps then                                                  -- :1132
    match regOf x with
    | some base => putArg s ((base + (if P.rex &&& 0x01 ≠ 0 then (s.modrm &&& 7) + 8 else s.modrm &&& 7)) % 256) next
    | none => .ret panicRes
  else if x ∈ opregOps then                                                -- :1142
    match regOf x with
    | some base =>
      let n := (s.opcode >>> s.osh8) &&& 7
      let index := if P.rex &&& 0x01 ≠ 0 ∧ x ≠ xArgSTi then n + 8 else n
      putArg s (lowByteReg P base index) next
    | none => .ret panicRes
  else if x ∈ rmOps then                                                   -- :1157
    if s.haveMem then putMem s x next
    else
      match regOf x with
      | some base =>
        let r :=
          if x = xArgMmM32 ∨ x = xArgMmM64 ∨ x = xArgMm2M64 then (base + (s.rm &&& 7)) % 256
          else if x = xArgRM8 then (if P.rex ≠ 0 ∧ s.rm ≥ 4 then (regSPB + (s.rm - 4)) % 256 else (base + s.rm) % 256)
          else if x = xArgYmm2M256 then (base + (if P.vex = 0xC4 ∧ P.vexB1 &&& 0x40 = 0x40 then s.rm + 8 else s.rm)) % 256
          else (base + s.rm) % 256
        putArg s r next
      | none => .ret panicRes
  else if x = xArgMm2 then                                                 -- :1190
    if s.haveMem then .brk { s with op := 0 }
    else match regOf x with
      | some base => putArg s ((base + (s.rm &&& 7)) % 256) next
      | none => .ret panicRes
  else if x = xArgXmm2 then                                                -- :1198
    if s.haveMem then .brk { s with op := 0 }
    else match regOf x with
      | some base => putArg s ((base + s.rm) % 256) next
      | none => .ret panicRes
  else if x = xArgRel8 then putArg { s with pcreloff := s.immcpos, pcrel := 1 } 0 next    -- :1206
  else if x = xArgRel16 then putArg { s with pcreloff := s.immcpos, pcrel := 2 } 0 next
  else if x = xArgRel32 then putArg { s with pcreloff := s.immcpos, pcrel := 4 } 0 next
  else .ret { err := .internal, len := s.pos }                             -- :590 default

/-- the `for j := 0; j < n; j++` loop of xCondPrefix (decode.go:765-879), gnuCompat = false -/
def condPrefixLoop (P : Pfx) : List (Nat × Nat) → St → Step
  | [], s => .brk { s with op := 0 }                                        -- :878
  | (pfx, target) :: rest, s =>
    if isREX pfx then                                                    -- :767
      if P.rex &&& pfx = pfx then .next target s else condPrefixLoop P rest s
    else if pfx = 0 then .next target s
    else if pfx = 0xC5 ∨ pfx = 0xC4 then
      if P.vex = pfx then .next target s else condPrefixLoop P rest s
    else if P.vex ≠ 0 ∧ (pfx = 0x0F ∨ pfx = 0x0F38 ∨ pfx = 0x0F3A ∨ pfx = 0x66 ∨ pfx = 0xF2 ∨ pfx = 0xF3) then
      let vexM := if P.vex = 0xC5 then 1 else P.vexB1
      let vexP := if P.vex = 0xC5 then P.vexB1 else P.vexB2
      let ok :=
        if pfx = 0x66 then vexP &&& 3 = 1
        else if pfx = 0xF3 then vexP &&& 3 = 2
        else if pfx = 0xF2 then vexP &&& 3 = 3
        else if pfx = 0x0F then vexM &&& 3 = 1
        else if pfx = 0x0F38 then vexM &&& 3 = 2
        else vexM &&& 3 = 3
      if ok then .next target s else condPrefixLoop P rest s
    else if pfx = 0xF0 then
      if P.lock then .next target s else condPrefixLoop P rest s
    else if pfx = 0xF3 ∨ pfx = 0xF2 then                               -- :821
      if P.rep ≠ 0 ∧ P.rep = pfx then .next target { s with repImplicit := true } else condPrefixLoop P rest s
    else if pfx = 0x2E ∨ pfx = 0x3E ∨ pfx = 0x26 ∨ pfx = 0x64 ∨ pfx = 0x65 ∨ pfx = 0x36 then
      if P.seg ≠ 0 ∧ P.seg = pfx then .next target s else condPrefixLoop P rest s
    else if pfx = 0x66 then                                               -- :849
      if P.rep ≠ 0 then .brk { s with op := 0 }
      else if P.dataSize then .next target s else condPrefixLoop P rest s
    else if pfx = 0x67 then
      if P.addrSize then .next target s else condPrefixLoop P rest s
    else condPrefixLoop P rest s

/-- one iteration of the `Decode:` loop (decode.go:437-1224) on the fetched instruction -/
def step (src : Bytes) (P : Pfx) (i : Instr) (s : St) : Step :=
  match i with
  | .fail => .brk { s with op := 0 }
  | .match_ => .brk s
  | .jump t => .next t s
  | .condByte ents fall fallFail =>
    if h : s.pos < src.length then
      let b := (src[s.pos]).toNat
      match ents.find? (fun e => e.1 % 256 == b) with
      | some e => .next e.2 (pushOpcode { s with pos := s.pos + 1 } b)
      | none => .next fall (if fallFail then { s with pos := s.pos + 1 } else s)
    else .ret (truncated src)
  | .condIs64 t => .next t s
  | .condIsMem tReg tMem =>
    if s.haveModrm then .next (if s.haveMem then tMem else tReg) s
    else if h : s.pos < src.length then
      .next (if (src[s.pos]).toNat >>> 6 ≠ 3 then tMem else tReg) s
    else .ret (instPrefix src)
  | .condDataSize t16 t32 t64 => .next (match P.dm with | .s16 => t16 | .s32 => t32 | .s64 => t64) s
  | .condAddrSize t16 t32 t64 => .next (match P.am with | .s16 => t16 | .s32 => t32 | .s64 => t64) s
  | .condPrefix ents => condPrefixLoop P ents s
  | .condSlashR ts =>
    match readModrm src P s with
    | .error r => .ret r
    | .ok s =>
      match ts[s.regop &&& 7]? with
      | some t => .next t s
      | none => .ret panicRes
  | .setOp op next => .next next { s with op := op }
  | .plain x next =>
    if x = xReadSlashR then
      match readModrm src P s with
      | .error r => .ret r
      | .ok s => stepPlain src P x next s
    else stepPlain src P x next s
  | .bad _ => .ret { err := .internal, len := s.pos }

/-- decode.go:1226-1517, what remains of it for (err, Len, Op, PCRel, PCRelOff) -/
def finish (src : Bytes) (P : Pfx) (s : St) : Res :=
  if s.op = 0 then
    if P.nprefix > 0 then instPrefix src else { err := .unrec, len := s.pos }
  else
    let op :=
      if s.op = opXCHG ∧ s.opcode >>> 24 = 0x90 then
        let o := if s.arg0 = regRAX ∨ s.arg0 = regEAX ∨ s.arg0 = regAX then opNOP else s.op
        if P.rep = 0xF3 ∧ !s.repImplicit then opPAUSE else o
      else s.op
    { err := .ok, len := s.pos, op := op, pcrel := s.pcrel, pcreloff := s.pcreloff, opcode := s.opcode }

/-- the `Decode:` loop with explicit fuel (the table program is acyclic; `Props/C16.lean` proves fuel 16 is never exhausted) -/
def run (src : Bytes) (P : Pfx) : Nat → Nat → St → Res
  | 0, _, _ => { err := .fuel, len := 0 }
  | f + 1, pc, s =>
    match fetch pc with
    | none => panicRes
    | some i =>
      match step src P i s with
      | .next pc' s' => run src P f pc' s'
      | .brk s' => finish src P s'
      | .ret r => r

def fuel0 : Nat := 16

/-- `x86asm.Decode(src, 64)` -/
def decode (src0 : Bytes) : Res :=
  let src := src0.take 15                                                   -- :249
  match readPrefixes src 0 {} with
  | .error r => r
  | .ok P =>
    match readRex src P with
    | .error r => r
    | .ok P => run src P fuel0 1 { pos := P.pos }

/-! ## Certificate checker (static facts about the table program, re-checked by the kernel for every pc) -/

structure Cert where
  rank : Nat
  nargMax : Nat
  immcw : Nat
  cons : Bool
  /-- 0 = `inst.Opcode ≠ 0` on every path; k+1 = at most k bytes were shifted into `inst.Opcode`, possibly all zero (5 = no claim) -/
  z : Nat
  deriving Repr

/-- certificate of a pc, `none` = no claim (unreachable) -/
def cert? (pc : Nat) : Option Cert :=
  let w := certWord pc
  if w &&& 1 = 0 then none
  else some { rank := (w >>> 1) &&& 15, nargMax := (w >>> 5) &&& 7, immcw := (w >>> 8) &&& 15, cons := (w >>> 12) &&& 1 = 1,
              z := (w >>> 13) &&& 15 }

/-- abstract `Opcode` state after an edge that shifts at most `np` bytes into `inst.Opcode`, one of them known non-zero if `pz` -/
def edgeZ (z : Nat) (pz : Bool) (np : Nat) : Nat :=
  if z = 0 then 0 else if pz && decide (z ≤ 4) then 0 else min 5 (z + np)

/-- edge `c → pc'` with effect: `dn` args written, `rd` = width of a code-offset read (0 = none), `cs` = the edge consumed ≥ 1 byte,
    `pz`/`np` = what it shifts into `inst.Opcode` -/
def edgeOK (c : Cert) (dn rd : Nat) (cs : Bool) (pz : Bool) (np : Nat) (pc' : Nat) : Bool :=
  match cert? pc' with
  | none => false
  | some c' =>
    decide (c'.rank < c.rank) && decide (c.nargMax + dn ≤ c'.nargMax) && decide (c'.nargMax ≤ len_args)
      && decide (c'.immcw ≤ (if rd = 0 then c.immcw else rd)) && (!c'.cons || c.cons || cs)
      && decide (edgeZ c.z pz np ≤ c'.z)

def readCWidth (x : Nat) : Nat :=
  if x = xReadCb then 1 else if x = xReadCw then 2 else if x = xReadCd then 4 else if x = xReadCp then 6
  else if x = xReadCm then 4 else 0

def isReadI (x : Nat) : Bool := x = xReadIb ∨ x = xReadIw ∨ x = xReadID ∨ x = xReadIo

def isOneArg (x : Nat) : Bool :=
  x ∈ fixedOps ∨ x ∈ immOps ∨ x ∈ memOps ∨ x ∈ moffsOps ∨ x = xArgYmm1 ∨ x ∈ regopOps ∨ x ∈ mmOps ∨ x = xArgCR0dashCR7
    ∨ x = xArgSreg ∨ x ∈ rmfOps ∨ x ∈ opregOps ∨ x ∈ rmOps ∨ x = xArgMm2 ∨ x = xArgXmm2 ∨ x = xArgRel8 ∨ x = xArgRel16 ∨ x = xArgRel32

/-- static effect and side conditions of a plain op, a function of the bytecode alone -/
structure Eff where
  dn : Nat := 0            -- arguments written
  rd : Nat := 0            -- width of the code offset read (0 = none)
  cs : Bool := false       -- consumes at least one byte on the non-returning path
  needCons : Bool := false -- requires that a byte was consumed before
  needImmcw : Nat := 0     -- requires a code offset of at least this width
  static : Bool := true    -- array-index side conditions (`fixedArg[x]`, `memBytes[x]`, `baseReg[x]`)
  np : Nat := 0            -- bytes shifted into inst.Opcode (ModRM + SIB)
  needZ : Nat := 15        -- requires the abstract Opcode state to be at most this (0 = Opcode ≠ 0, ≤ 4 = non-zero or room left)
  deriving Repr

def plainEff (x : Nat) : Option Eff :=
  if x = xReadSlashR then some { cs := true, np := 2, needZ := 4 }
  else if isReadI x then some { cs := true }
  else if readCWidth x ≠ 0 then some { rd := readCWidth x, cs := true, needCons := true }
  else if x = xArgPtr16colon16 ∨ x = xArgPtr16colon32 then some { dn := 2 }
  else if isOneArg x then
    some { dn := 1
           static := (if x ∈ fixedOps then decide (x < fixedArg.size) else true)
              && (if x ∈ memOps ∨ x ∈ moffsOps ∨ x ∈ rmOps then decide (x < len_memBytes) else true)
              && (if x = xArgYmm1 ∨ x ∈ regopOps ∨ x ∈ mmOps ∨ x ∈ rmfOps ∨ x ∈ opregOps ∨ x ∈ rmOps ∨ x = xArgMm2 ∨ x = xArgXmm2
                  then decide (x < baseReg.size) else true)
           needImmcw := if x = xArgRel8 then 1 else if x = xArgRel16 then 2 else if x = xArgRel32 then 4 else 0
           needZ := if x = xArgRel8 ∨ x = xArgRel16 ∨ x = xArgRel32 then 0 else 15 }
  else none

def plainOK (c : Cert) (x next : Nat) : Bool :=
  match plainEff x with
  | none => false
  | some e => (!e.needCons || c.cons) && decide (e.needImmcw ≤ c.immcw) && e.static && decide (c.z ≤ e.needZ)
      && edgeOK c e.dn e.rd e.cs false e.np next

def instrOK (c : Cert) : Instr → Bool
  | .fail => true
  | .match_ => c.cons
  | .jump t => edgeOK c 0 0 false false 0 t
  | .condByte ents fall _ => ents.all (fun e => edgeOK c 0 0 true (e.1 % 256 != 0) 1 e.2) && edgeOK c 0 0 false false 0 fall
  | .condIs64 t => edgeOK c 0 0 false false 0 t
  | .condIsMem a b => c.cons && edgeOK c 0 0 false false 0 a && edgeOK c 0 0 false false 0 b
  | .condDataSize a b d => edgeOK c 0 0 false false 0 a && edgeOK c 0 0 false false 0 b && edgeOK c 0 0 false false 0 d
  | .condAddrSize a b d => edgeOK c 0 0 false false 0 a && edgeOK c 0 0 false false 0 b && edgeOK c 0 0 false false 0 d
  | .condPrefix ents => ents.all (fun e => edgeOK c 0 0 false false 0 e.2)
  | .condSlashR ts => decide (c.z ≤ 4) && decide (ts.length = 8) && ts.all (fun t => edgeOK c 0 0 true false 2 t)
  | .setOp _ next => edgeOK c 0 0 false false 0 next
  | .plain x next => plainOK c x next
  | .bad _ => false

/-- the table is fine at `pc`: either no claim is made there, or the instruction fetches and every edge respects the certificate -/
def okAt (pc : Nat) : Bool :=
  match cert? pc with
  | none => true
  | some c => match fetch pc with
    | none => false
    | some i => instrOK c i

def chunkOK (k : Nat) : Bool := (List.range 256).all (fun j => okAt (256 * k + j))

/-- the entry point carries a certificate whose claims hold of the initial state -/
def entryOK : Bool :=
  match cert? 1 with
  | some c => decide (c.rank < fuel0) && decide (c.immcw = 0) && !c.cons
  | none => false

end X86Dec
