import GoomVerif.Model.MethodH
/-!
# Model/MethodG — the patch-level API under the mockers: guards that are created first and applied later

`internal/patch/monkey.go:93 InstanceMethod` / `:100 InstanceMethodTrampoline` resolve the method through reflect, register
the patch (`patch.go:102 replaceFunc`: an earlier patch of the same entry is unpatched, the jump bytes and the original
bytes are *computed and stored in the guard*) and return a `*Guard` that is **not yet applied**; `guard.go:22 Apply` writes
the stored jump bytes, `:37 Unpatch` the stored original bytes (only if the guard was applied).  The mockers of
`mocker.go` always apply right after creating; tests that use the patch package directly, and concurrent builders, do not.
The point of the model: what `Apply` installs is fixed when the guard is created — it is the callback given then.
-/
namespace MethodG
open Method MethodH

structure G where
  name : Str       -- the symbol resolved at creation
  k : Nat          -- the callback given at creation (its jump bytes are stored in the guard)
  applied : Bool
  deriving Repr

structure GState where
  guards : List (Nat × G)        -- guard variables of the test, newest binding first
  patched : List (Nat × Nat)     -- symbol index ↦ callback, latest first
  deriving Repr

def GState.init : GState := ⟨[], []⟩

inductive GStep
  | gnew (h : Nat) (t : Ty) (m : Str)     -- g_h, _ := patch.InstanceMethod(reflect.TypeOf(inst), m, cb k)
  | gapply (h : Nat)                       -- g_h.Apply()
  | gunpatch (h : Nat)                     -- g_h.UnpatchWithLock()
  deriving Repr

def gstep (syms : List Str) (entries : List Entry) (s : GState) (k : Nat) : GStep → GState × Res
  | .gnew h t m =>
    match resolveSM entries t m with
    | .error c => (s, .err c)
    | .ok name =>
      match symIndex syms name with
      | none => (s, .notfound name)
      | some i => ({ guards := (h, ⟨name, k, false⟩) :: s.guards, patched := s.patched.filter (fun p => p.1 ≠ i) }, .ok)
  | .gapply h =>
    match aget s.guards h with
    | none => (s, .err "nohandle".toList)
    | some g =>
      match symIndex syms g.name with
      | none => (s, .notfound g.name)
      | some i => ({ guards := (h, { g with applied := true }) :: s.guards, patched := (i, g.k) :: s.patched }, .ok)
  | .gunpatch h =>
    match aget s.guards h with
    | none => (s, .err "nohandle".toList)
    | some g =>
      if g.applied then
        match symIndex syms g.name with
        | none => (s, .ok)
        | some i => ({ s with patched := s.patched.filter (fun p => p.1 ≠ i) }, .ok)
      else (s, .ok)

def grun (syms : List Str) (entries : List Entry) : GState → Nat → List GStep → GState × List Res
  | s, _, [] => (s, [])
  | s, k, st :: rest =>
    let r := gstep syms entries s k st
    let rr := grun syms entries r.1 (k + 1) rest
    (rr.1, r.2 :: rr.2)

/-- the step creates (re-binds) guard variable `h` -/
def GStep.binds (h : Nat) : GStep → Bool
  | .gnew h' _ _ => h' = h
  | _ => false

end MethodG
