/-! Model of goom's interface-variable mocker (C07).

Transcribes, with `file.go:line` references into the goom tree:
* `builder.go:62 Builder.Interface` (per-builder mocker cache and its key),
* `cache.go:140 CachedInterfaceMocker` (`Method`, `Cancel`, `Canceled`),
* `iface.go` (`DefaultInterfaceMocker.Method/checkMethod/Apply/As/Return/When`),
* `mocker.go:116 applyByIFaceMethod`, `mocker.go:142 callback`, `mocker.go:156 Cancel`, `guard.go:37 iFaceMockGuard.Cancel`,
* `internal/proxy/interface.go:21 Interface`, `:63 methodIndexOf`, `:76 applyIfaceTo`,
* `internal/iface/make_interface.go` (`IContext.Cancel`, `Cached`, `Cache`, `MakeInterface`, `BackUpTo`, `GenCallableMethod`).

Objects are numbered (`Nat` ids); maps are functions / association lists.  `step` is partial (`Option`): `none` marks
histories outside the modelled fragment (a second `Return/When` on a method mocker whose `When` already exists — that is
C12's subject — and interfaces with more than `hack.MaxMethod` methods); nothing is silently totalised.
Core Lean only. -/
namespace Iface

/-- The two repairs proposed for F11 / F9.  `fixed` is the code as it is after the repairs, `old` before. -/
structure Cfg where
  /-- builder.go `Interface`: the mocker cache key contains the variable's address (repair of F11) -/
  keyByVar : Bool
  /-- make_interface.go `GenCallableMethod`: every callback / MakeFunc value is appended to `PContext.retained` (repair of F9) -/
  retainAll : Bool
deriving DecidableEq, Repr

def Cfg.fixed : Cfg := ⟨true, true⟩
def Cfg.old : Cfg := ⟨false, false⟩

/-! ## Method sets: Go sorts the methods of an interface type — exported names first, in byte order, then unexported -/

/-- upper-case letters (Unicode category Lu) of the alphabets the generators draw names from: ASCII, Latin-1,
    Greek, Cyrillic.  `go/token.IsExported` = first rune is upper case. -/
def isUpperU (c : Char) : Bool :=
  let n := c.toNat
  (65 ≤ n && n ≤ 90) || (0xC0 ≤ n && n ≤ 0xDE && n != 0xD7) || (0x391 ≤ n && n ≤ 0x3A9 && n != 0x3A2)
    || (0x410 ≤ n && n ≤ 0x42F)

def isExported (n : String) : Bool :=
  match n.toList with
  | c :: _ => isUpperU c
  | [] => false

def codeLt : List Char → List Char → Bool
  | [], [] => false
  | [], _ :: _ => true
  | _ :: _, [] => false
  | a :: as, b :: bs => if a.toNat < b.toNat then true else if b.toNat < a.toNat then false else codeLt as bs

/-- package path of a qualified method id; own-package (and exported) methods carry none -/
def pkgOf (q : String) : String :=
  match (q.toList.dropWhile (fun c => c != '@')) with
  | _ :: p => String.ofList p
  | [] => "github.com/tencent/goom"

def nameOf (q : String) : String := String.ofList (q.toList.takeWhile (fun c => c != '@'))

/-- `cmd/compile/internal/types.(*Sym).Less`: exported before non-exported, then by name, then by package path -/
def methLt (a b : String) : Bool :=
  if isExported a != isExported b then isExported a
  else if nameOf a != nameOf b then codeLt (nameOf a).toList (nameOf b).toList
  else codeLt (pkgOf a).toList (pkgOf b).toList

def insertM (x : String) : List String → List String
  | [] => [x]
  | y :: ys => if methLt x y then x :: y :: ys else y :: insertM x ys

/-- the method set as `reflect.Type.Method(i)` enumerates it -/
def sortMeths (decl : List String) : List String := decl.foldr insertM []

/-- A method of an interface type is identified by name AND package path (Go spec: unexported names from different packages
    are different).  The model writes exported and own-package methods as `name` and an unexported method that came in by
    embedding an interface of another package as `name@pkgpath`.  `reflect.Method.Name` is the part before `@`. -/
def baseName (q : String) : String := nameOf q

/-- iface.go:79 `checkMethod`: `reflect.Type.MethodByName(name)` looks at the name only -/
def hasMethod (ms : List String) (m : String) : Bool := ms.any (fun q => baseName q == m)

/-- internal/proxy/interface.go:89 `methodIndexOf`: first `i` with `typ.Method(i).Name == method` (name only!), else 0 -/
def methodIndexFrom : List String → String → Nat → Option Nat
  | [], _, _ => none
  | x :: xs, m, i => if m = baseName x then some i else methodIndexFrom xs m (i + 1)

def methodIndexOf (ms : List String) (m : String) : Nat := (methodIndexFrom ms m 0).getD 0

/-- no method of the set shares `m`'s name without being `m` (false exactly when an embedded foreign interface brings an
    unexported method with the same name as an own one — finding F27) -/
def NoShadow (ms : List String) (m : String) : Prop := ∀ x ∈ ms, (m = baseName x ↔ m = x)

/-! ## State -/

def upd {α : Type} (f : Nat → α) (i : Nat) (x : α) : Nat → α := fun j => if j = i then x else f j

@[simp] theorem upd_same {α : Type} (f : Nat → α) (i : Nat) (x : α) : upd f i x i = x := by simp [upd]
theorem upd_other {α : Type} (f : Nat → α) (i j : Nat) (x : α) (h : j ≠ i) : upd f i x j = f j := by simp [upd, h]

/-- a slot of the fabricated itab's function table: `notImplement` or the address of an executable stub whose
    immediate operand is the address of callback `k` -/
inductive Slot
  | notImpl
  | stub (k : Nat)
deriving DecidableEq, Repr, Inhabited

/-- the two words of an interface variable -/
inductive Words
  | val (x : Nat)          -- 0 = nil interface, x>0 = real implementation number x
  | fake (f c : Nat)       -- Tab = itab of fake iface f, Data = IContext c
deriving DecidableEq, Repr, Inhabited

/-- when.go `When` as far as the histories use it: one default result, (argument ↦ result) matchers -/
structure When where
  dflt : Option Nat
  conds : List (Nat × Nat)
deriving Repr, Inhabited

/-- what a stub's immediate points to -/
inductive Cb
  | clo              -- the user's callback closure itself (Apply)
  | mk (mm : Nat)    -- a reflect.MakeFunc impl whose function is `mm.callback` (Return / When)
deriving DecidableEq, Repr, Inhabited

/-- `*hack.Iface` built by `MakeInterface` together with its `hack.Itab` -/
structure Fake where
  data : Nat               -- Data: the IContext
  fn : Nat → Slot          -- Tab.Fun
deriving Inhabited

/-- `iface.IContext` + `iface.PContext` -/
structure Ctx where
  cache : List (Nat × Nat) := []            -- ifaceCache: type ↦ fake iface
  backup : Option (Nat × Words) := none     -- originIface (which variable), originIfaceValue
  canceled : Bool := false
  proxyFunc : Option Nat := none            -- the one retained MakeFunc value
  retained : List Nat := []                 -- (repaired code) every callback / MakeFunc value
deriving Inhabited

/-- `DefaultInterfaceMocker` (one per method) with its `baseMocker` -/
structure MM where
  ctx : Nat
  canceled : Bool := false
  hasGuard : Bool := false
  imp : Option Nat := none
  when_ : Option When := none
deriving Inhabited

/-- `CachedInterfaceMocker` -/
structure CM where
  var : Nat                 -- iFace: the variable it was created for
  typ : Nat
  ctx : Nat
  meths : List (String × Nat) := []
deriving Inhabited

structure Bld where
  alive : Bool := true
  mockers : List ((Nat × Nat) × Nat) := []    -- Builder.mockers restricted to interface keys
deriving Inhabited

structure St where
  types : Nat → List String          -- static: sorted method set of each interface type
  sigs : Nat → List Nat := fun _ => []   -- static: signature class of each method, aligned with `types`
  vtyp : Nat → Nat                   -- static: type of each variable
  vars : Nat → Words
  fakes : Nat → Fake
  nfake : Nat
  ctxs : Nat → Ctx
  nctx : Nat
  mms : Nat → MM
  nmm : Nat
  cms : Nat → CM
  ncm : Nat
  blds : Nat → Bld
  cbs : Nat → Cb
  ncb : Nat
  /-- ghost of the test program: `CachedInterfaceMocker` handles it kept from `b.Interface(&v)`, keyed by (b, v) -/
  kept : List ((Nat × Nat) × Nat) := []

def St.init (types : Nat → List String) (vtyp : Nat → Nat) (vars : Nat → Words)
    (sigs : Nat → List Nat := fun _ => []) : St :=
  { types, sigs, vtyp, vars, fakes := fun _ => default, nfake := 0, ctxs := fun _ => {}, nctx := 0,
    mms := fun _ => { ctx := 0 }, nmm := 0, cms := fun _ => { var := 0, typ := 0, ctx := 0 }, ncm := 0,
    blds := fun _ => {}, cbs := fun _ => .clo, ncb := 0, kept := [] }

inductive Kind
  | ap               -- .Apply(cb)
  | rt               -- .As(cb).Return(r)
  | wn (a : Nat)     -- .As(cb).When(a).Return(r)
deriving DecidableEq, Repr

inductive Op
  /-- `b.Interface(&v).Method(m).<kind>`; the callback gets id `ncb` and has signature class `csig`
      (internal/proxy/interface.go:36-44 arg count and `checkSignature` compare it with the method at the chosen index) -/
  | mock (b v : Nat) (m : String) (kind : Kind) (csig : Nat)
  /-- the same through a `CachedInterfaceMocker` handle the test kept from its first `b.Interface(&v)` -/
  | mockH (b v : Nat) (m : String) (kind : Kind) (csig : Nat)
  /-- the test program assigns the variable: `v = nil` / `v = &impl{x}` -/
  | assign (v x : Nat)
  /-- `b.Interface(&v).Method(m).Cancel()`: cancel through ONE method's handle (mocker.go:156; it cancels the shared context) -/
  | cancelM (b v : Nat) (m : String)
  | reset (b : Nat)                               -- b.Reset()
  | drop (b : Nat)                                -- the test drops its reference to builder b
deriving Repr

def lookup {κ : Type} [DecidableEq κ] (k : κ) : List (κ × Nat) → Option Nat
  | [] => none
  | (k', v) :: r => if k = k' then some v else lookup k r

def insertKV {κ : Type} [DecidableEq κ] (k : κ) (v : Nat) (l : List (κ × Nat)) : List (κ × Nat) :=
  (k, v) :: l.filter (fun p => p.1 ≠ k)

/-- builder.go:62 the key of the per-builder cache: `reflect.TypeOf(iFace).String()`; repaired: plus the variable -/
def bkey (cfg : Cfg) (s : St) (v : Nat) : Nat × Nat := (s.vtyp v, if cfg.keyByVar then v + 1 else 0)

/-- builder.go:73 a fresh `CachedInterfaceMocker` with a fresh `iface.NewContext()`, stored in `b.mockers[key]` -/
def freshCM (cfg : Cfg) (s : St) (b v : Nat) : Nat × St :=
  (s.ncm, { s with ctxs := upd s.ctxs s.nctx {}, nctx := s.nctx + 1,
                   cms := upd s.cms s.ncm { var := v, typ := s.vtyp v, ctx := s.nctx }, ncm := s.ncm + 1,
                   blds := upd s.blds b { s.blds b with mockers := insertKV (bkey cfg s v) s.ncm (s.blds b).mockers } })

/-- builder.go:62 `Interface`: reuse the cached mocker unless its context was canceled -/
def interfaceOf (cfg : Cfg) (s : St) (b v : Nat) : Nat × St :=
  match lookup (bkey cfg s v) (s.blds b).mockers with
  | some j => if (s.ctxs (s.cms j).ctx).canceled then freshCM cfg s b v else (j, s)
  | none => freshCM cfg s b v

/-- cache.go:167 a fresh `DefaultInterfaceMocker` for method `m`, stored in `mockers[m]` -/
def freshMM (s : St) (j : Nat) (m : String) : Nat × St :=
  (s.nmm, { s with mms := upd s.mms s.nmm { ctx := (s.cms j).ctx }, nmm := s.nmm + 1,
                   cms := upd s.cms j { s.cms j with meths := insertKV m s.nmm (s.cms j).meths } })

/-- cache.go:163 `CachedInterfaceMocker.Method` (after iface.go:79 `checkMethod` succeeded) -/
def methodOf (s : St) (j : Nat) (m : String) : Nat × St :=
  match lookup m (s.cms j).meths with
  | some i => if (s.mms i).canceled then freshMM s j m else (i, s)
  | none => freshMM s j m

/-- internal/hack/iface.go:7 `MaxMethod`: length of the fabricated itab's function table -/
def maxMethod : Nat := 999

/-- internal/proxy/interface.go:21 `Interface` for variable `v` of type `t` in context `c`; `cb` says whether a MakeFunc proxy
    is used.  `none`: index beyond `hack.MaxMethod`. -/
def proxyInterface (cfg : Cfg) (s : St) (v t c : Nat) (m : String) (k : Nat) (cb : Cb) : Option St :=
  let idx := methodIndexOf (s.types t) m                                      -- :37
  if idx ≥ maxMethod then none else                                          -- make_interface.go:84 index out of range
  let cx0 := s.ctxs c
  let cx : Ctx :=
    { cache := cx0.cache,
      -- :46 iface.BackUpTo (make_interface.go:100) — only the first time
      backup := (match cx0.backup with | none => some (v, s.vars v) | some bk => some bk),
      canceled := cx0.canceled,
      -- :49 GenCallableMethod: a fresh stub whose immediate is callback k; make_interface.go:127 keeps the MakeFunc value
      proxyFunc := (match cb with | .mk _ => some k | .clo => cx0.proxyFunc),
      -- (repair of F9) every callback / MakeFunc value is retained
      retained := if cfg.retainAll then k :: cx0.retained else cx0.retained }
  let s := { s with cbs := upd s.cbs k cb }
  match lookup t cx0.cache, cx0.canceled with
  | some f, false =>                                                            -- :52
    some { s with fakes := upd s.fakes f { data := c, fn := upd (s.fakes f).fn idx (.stub k) },
                  ctxs := upd s.ctxs c cx, vars := upd s.vars v (.fake f c) }
  | _, _ =>                                                                     -- :58 MakeInterface, Cache
    let f := s.nfake
    some { s with fakes := upd s.fakes f { data := c, fn := upd (fun _ => .notImpl) idx (.stub k) }, nfake := f + 1,
                  ctxs := upd s.ctxs c { cx with cache := insertKV t f cx.cache }, vars := upd s.vars v (.fake f c) }

/-- observable status of an API call -/
inductive Status
  | ok
  | panic (cls : String)
deriving DecidableEq, Repr

/-- `cm.Method(m).Apply(cb)` / `.As(cb).Return(r)` / `.As(cb).When(a).Return(r)` on cached mocker `j`, callback id `k` -/
def mockOn (cfg : Cfg) (s : St) (j : Nat) (m : String) (kind : Kind) (fits : Bool) (k : Nat) : Option (St × Status) :=
  let cm := s.cms j
  -- iface.go:69 Method / :79 checkMethod: on the type of the mocker's own iFace
  if m = "" then some (s, .panic "method-is-empty") else
  if ¬ (hasMethod (s.types cm.typ) m) then some (s, .panic "nomethod") else
  let (i, s) := methodOf s j m
  let mm := s.mms i
  match kind with
  | .ap =>                                                                       -- iface.go:88 Apply
    -- mocker.go:127 proxy.Interface returns an error before touching anything: no guard, no backup
    if ¬ fits then some (s, .panic "applyerr") else
    (proxyInterface cfg s cm.var cm.typ cm.ctx m k .clo).map fun s =>           -- iface.go:94 `m.when = nil`
      ({ s with mms := upd s.mms i { mm with hasGuard := true, imp := some k, canceled := false, when_ := none } }, .ok)
  | .rt =>                                                                       -- iface.go:131 Return
    match mm.when_ with
    | some _ => none                                                             -- when.Return(...): C12's subject
    | none =>
      if ¬ fits then some (s, .panic "applyerr") else
      (proxyInterface cfg s cm.var cm.typ cm.ctx m k (.mk i)).map fun s =>
        ({ s with mms := upd s.mms i { mm with hasGuard := true, imp := some k, canceled := false, when_ := some ⟨some k, []⟩ } }, .ok)
  | .wn a =>                                                                     -- iface.go:108 When(a) then when.go:146 Return
    match mm.when_ with
    | some _ => none
    | none =>
      if ¬ fits then some (s, .panic "applyerr") else
      (proxyInterface cfg s cm.var cm.typ cm.ctx m k (.mk i)).map fun s =>
        ({ s with mms := upd s.mms i { mm with hasGuard := true, imp := some k, canceled := false, when_ := some ⟨none, [(a, k)]⟩ } }, .ok)

/-- internal/proxy/interface.go:34-44: the callback (signature class `csig`) is compared with the method at
    `methodIndexOf` — the signature classes stand for reflect's arg/result counts and slot sizes -/
def sigFits (s : St) (t : Nat) (m : String) (csig : Nat) : Bool :=
  (s.sigs t)[methodIndexOf (s.types t) m]? == some csig

/-- `b.Interface(&v).Method(m)…` -/
def mockStep (cfg : Cfg) (s : St) (b v : Nat) (m : String) (kind : Kind) (csig : Nat) : Option (St × Status) :=
  let k := s.ncb
  let s := { s with ncb := k + 1 }
  let (j, s) := interfaceOf cfg s b v
  mockOn cfg s j m kind (sigFits s (s.cms j).typ m csig) k

/-- `h.Method(m)…` where `h` is the handle kept from the first `b.Interface(&v)` of the test (obtained now if there is none) -/
def mockHStep (cfg : Cfg) (s : St) (b v : Nat) (m : String) (kind : Kind) (csig : Nat) : Option (St × Status) :=
  let k := s.ncb
  let s := { s with ncb := k + 1 }
  match lookup (b, v) s.kept with
  | some j => mockOn cfg s j m kind (sigFits s (s.cms j).typ m csig) k
  | none =>
    let (j, s) := interfaceOf cfg s b v
    mockOn cfg { s with kept := insertKV (b, v) j s.kept } j m kind (sigFits s (s.cms j).typ m csig) k

/-- make_interface.go:22 `IContext.Cancel`; `none` if there is no backup (a nil dereference in the Go code; unreachable
    because a guard exists only after `BackUpTo`) -/
def cancelCtx (s : St) (c : Nat) : Option St :=
  match (s.ctxs c).backup with
  | some (v, w) => some { s with vars := upd s.vars v w, ctxs := upd s.ctxs c { s.ctxs c with canceled := true } }
  | none => none

/-- mocker.go:156 `baseMocker.Cancel` -/
def cancelMM (s : St) (i : Nat) : Option St :=
  let mm := s.mms i
  let s? := if mm.hasGuard then cancelCtx s mm.ctx else some s
  s?.map fun s => { s with mms := upd s.mms i { mm with when_ := none, canceled := true } }

def cancelMMs : St → List Nat → Option St
  | s, [] => some s
  | s, i :: r => (cancelMM s i).bind fun s => cancelMMs s r

/-- the method mockers of the cached mockers of builder b, in map order (the Go map order is arbitrary; the result does
    not depend on it because distinct mockers restore distinct variables) -/
def mmsOf (s : St) (b : Nat) : List Nat :=
  (s.blds b).mockers.flatMap fun p => ((s.cms p.2).meths.map (·.2))

/-- builder.go:196 `Builder.Reset` → cache.go:175 `CachedInterfaceMocker.Cancel` → `baseMocker.Cancel` -/
def resetStep (s : St) (b : Nat) : Option St := cancelMMs s (mmsOf s b)

/-- `b.Interface(&v).Method(m).Cancel()`: a fresh lookup (builder.go:62, cache.go:163), then mocker.go:156 on that method
    mocker: if it has a guard the *shared* context is canceled and the whole variable restored -/
def cancelMStep (cfg : Cfg) (s : St) (b v : Nat) (m : String) : Option (St × Status) :=
  let (j, s) := interfaceOf cfg s b v
  if m = "" then some (s, .panic "method-is-empty") else
  if ¬ (hasMethod (s.types (s.cms j).typ) m) then some (s, .panic "nomethod") else
  let (i, s) := methodOf s j m
  (cancelMM s i).map fun s => (s, .ok)

def step (cfg : Cfg) (s : St) : Op → Option (St × Status)
  | .mock b v m kind csig => mockStep cfg s b v m kind csig
  | .mockH b v m kind csig => mockHStep cfg s b v m kind csig
  | .assign v x => some ({ s with vars := upd s.vars v (.val x) }, .ok)
  | .cancelM b v m => cancelMStep cfg s b v m
  | .reset b => (resetStep s b).map fun s => (s, .ok)
  | .drop b => some ({ s with blds := upd s.blds b { s.blds b with alive := false } }, .ok)

/-- the documented use of the API: `mock.Interface(&v).Method(..)...`, `mock.Reset()` (no kept handles) -/
def Op.builderApi : Op → Bool
  | .mockH .. => false
  | _ => true

def run (cfg : Cfg) : St → List Op → Option St
  | s, [] => some s
  | s, op :: r => (step cfg s op).bind fun p => run cfg p.1 r

/-! ## What a caller observes -/

inductive Res
  | cb (k : Nat)          -- reached the user's callback k with the caller's arguments
  | ret (k : Nat)         -- the stubbed result of mock k
  | impl (id : Nat)       -- the real implementation
  | panic (cls : String)
deriving DecidableEq, Repr

/-- the itab slot a compiled call `v.m(..)` goes through: the index of `m` in the type's method set -/
def callSlot (s : St) (v : Nat) (m : String) : Option Slot :=
  match s.vars v with
  | .fake f _ => some ((s.fakes f).fn ((s.types (s.vtyp v)).idxOf m))
  | .val _ => none

/-- when.go:214 `invoke` -/
def invokeWhen (w : When) (x : Nat) : Res :=
  match w.conds.find? (fun p => p.1 = x) with
  | some p => .ret p.2
  | none => match w.dflt with
    | some k => .ret k
    | none => .panic "nomatch"

/-- calling method `m` of variable `v` with argument `x` -/
def call (s : St) (v : Nat) (m : String) (x : Nat) : Res :=
  match s.vars v with
  | .val 0 => .panic "nilderef"
  | .val id => .impl id
  | .fake f _ =>
    match (s.fakes f).fn ((s.types (s.vtyp v)).idxOf m) with
    | .notImpl => .panic "notimpl"                                          -- make_interface.go:71 notImplement
    | .stub k =>
      match s.cbs k with
      | .clo => .cb k
      | .mk i =>                                                            -- mocker.go:142 callback (baseMocker.funcDef is never set here)
        match (s.mms i).when_ with
        | some w => invokeWhen w x
        | none => .panic "nomatch"

/-! ## Retention graph

Heap objects and the Go pointers between them that the collector sees.  The itab word of an interface variable is not
scanned (cmd/compile/internal/typebits: "The first word of an interface is a pointer, but we don't treat it as such"),
`Itab.Fun` holds `uintptr`s, and a stub's immediate is machine code: those three are the *invisible* references. -/

inductive Node
  | var (v : Nat)
  | bld (b : Nat)
  | ctx (c : Nat)      -- IContext + PContext
  | fk (f : Nat)       -- fake hack.Iface + hack.Itab
  | clo (k : Nat)      -- callback closure k
  | mfi (k : Nat)      -- reflect.makeFuncImpl of mock k
  | mm (i : Nat)       -- DefaultInterfaceMocker + baseMocker + When
deriving DecidableEq, Repr

/-- the object a stub for callback `k` embeds -/
def target (s : St) (k : Nat) : Node :=
  match s.cbs k with
  | .clo => .clo k
  | .mk _ => .mfi k

/-- pointers the collector follows -/
def succs (s : St) : Node → List Node
  | .var v => match s.vars v with
    | .fake _ c => [.ctx c]                        -- only the data word is scanned
    | .val _ => []
  | .bld b => if (s.blds b).alive then (mmsOf s b).map .mm else []
  | .ctx c =>
    let cx := s.ctxs c
    cx.cache.map (fun p => Node.fk p.2)
      ++ (match cx.proxyFunc with | some k => [Node.mfi k] | none => [])
      ++ cx.retained.map (fun k => target s k)
      ++ (match cx.backup with | some (_, .fake _ c') => [Node.ctx c'] | _ => [])
  | .fk f => [.ctx (s.fakes f).data]
  | .clo _ => []
  | .mfi k => match s.cbs k with | .mk i => [.mm i] | .clo => []
  | .mm i => (match (s.mms i).imp with | some k => [Node.clo k] | none => []) ++ [.ctx (s.mms i).ctx]

inductive Reach (s : St) : Node → Node → Prop
  | refl (a) : Reach s a a
  | tail {a b c} : Reach s a b → c ∈ succs s b → Reach s a c

/-- the objects a call through variable `v` touches via invisible references -/
def needed (s : St) (v : Nat) : List Node :=
  match s.vars v with
  | .fake f _ =>
    .fk f :: ((List.range (s.types (s.vtyp v)).length).filterMap fun i =>
      match (s.fakes f).fn i with
      | .stub k => some (target s k)
      | .notImpl => none)
  | .val _ => []

/-- executable closure of `succs` (fuel-bounded breadth-first search) used by the driver -/
def bfs (s : St) : Nat → List Node → List Node → List Node
  | 0, _, seen => seen
  | _ + 1, [], seen => seen
  | fuel + 1, n :: todo, seen =>
    if n ∈ seen then bfs s fuel todo seen
    else bfs s fuel (todo ++ succs s n) (n :: seen)

end Iface
