import GoomVerif.Gen.Cursor
/-!
# Result cursors (property C05)

Transcription of goom's result sequences:

* `matcher.go:12-18` `BaseMatcher{results, curNum}` and `matcher.go:40-52` `(*BaseMatcher).Result`,
  `matcher.go:55-62` `AddResult`;
* `when.go:26-36` `When{matches, defaultReturns, curMatch}`, `when.go:42-72 CreateWhen`, `:120 When`, `:140 In`,
  `:146 Return`, `:162 AndReturn`, `:194 Returns`, `:215 invoke`, `:240 returnDefaults`;
* `mocker.go:137 callback` and the `When/Return/Returns` entry points of `DefMocker` (`mocker.go:520-577`),
  `MethodMocker` (`:258-325`) and `DefaultInterfaceMocker` (`iface.go:110-176`), which all do the same thing:
  delegate to the existing `When` or create one with `CreateWhen`.

The comparison operators and constants of `Result` come from `Gen.Cursor`, which is re-extracted from `matcher.go`
on every run.  Result values and call arguments are natural-number tokens.

Part 1 is the cursor of one matcher used by one caller at a time, part 2 the `When` object (several matchers, selection),
part 3 the same cursor used by concurrent callers as a transition system over micro-steps.
-/
namespace Cursor
open Gen.Cursor

/-! ## 1. one matcher, one caller at a time -/

/-- `Result()` run without interference on a matcher with `n` results and cursor `cur`:
    (index into `results` that is returned, cursor afterwards).  An index `≥ n` is Go's index-out-of-range panic. -/
def serve (n cur : Nat) : Nat × Nat :=
  if singlePath n then (cur, cur)                 -- matcher.go:41-43  `return c.results[c.curNum]` (no write)
  else if exhausted cur n then (lastIdx n, cur)   -- matcher.go:45-48
  else (cur, advance cur)                         -- matcher.go:50-51

/-- cursor after `k` uninterrupted calls starting from cursor `c` -/
def cursorAfter (n : Nat) : Nat → Nat → Nat
  | 0, c => c
  | k + 1, c => cursorAfter n k (serve n c).2

/-! ## 2. the `When` object -/

/-- what a matcher compares the (single) argument with -/
inductive Cond where
  | always                    -- AlwaysMatcher (matcher.go:203-218), the default
  | eq (a : Nat)              -- DefaultMatcher built by When(a)      (matcher.go:83-145)
  | isIn (as : List Nat)      -- ContainsMatcher built by In(a, b, …) (matcher.go:147-196)
  | any                       -- DefaultMatcher built by When(arg.Any())
  deriving Repr, DecidableEq

def Cond.test : Cond → Nat → Bool
  | .always, _ => true
  | .eq a, x => a == x
  | .isIn as, x => as.contains x
  | .any, _ => true

structure Matcher where
  cond : Cond
  results : List Nat
  cur : Nat
  deriving Repr, DecidableEq

/-- `When` (when.go:26): matchers live in an arena `ms` and are referred to by index, because the same matcher object
    can be referenced from `matches` (several times), `defaultReturns` and `curMatch` at once. -/
structure When where
  ms : List Matcher
  mlist : List Nat          -- `matches` (when.go:32); the name is a Lean keyword
  dflt : Option Nat
  curMatch : Option Nat
  deriving Repr, DecidableEq

/-- what a caller of the mocked function sees -/
inductive Obs where
  | val (v : Nat)
  | nomatch          -- panic "there is no suitable condition matched…" (when.go:242 / mocker.go:147)
  | oob              -- index out of range inside Result()
  | orig             -- nothing is mocked: the original runs
  | rejected         -- a configuration call panicked with *erro.ReturnsNotMatch and left the mocker as it was
  deriving Repr, DecidableEq

/-- `AddResult` on matcher `i` (matcher.go:55) -/
def addResult (w : When) (i : Nat) (v : Nat) : When :=
  match w.ms[i]? with
  | some m => { w with ms := w.ms.set i { m with results := m.results ++ [v] } }
  | none => w

/-- `When(a)` / `In(…)` on an existing `When` (when.go:120, :140): a fresh matcher without results becomes `curMatch` -/
def whenOp (w : When) (c : Cond) : When :=
  { w with ms := w.ms ++ [⟨c, [], 0⟩], curMatch := some w.ms.length }

/-- `Return(v)` (when.go:146-159) -/
def ret (w : When) (v : Nat) : When :=
  match w.curMatch with
  | some i => let w1 := addResult w i v; { w1 with mlist := w1.mlist ++ [i] }     -- :147-151
  | none =>
    match w.dflt with
    | none => { w with ms := w.ms ++ [⟨.always, [v], 0⟩], dflt := some w.ms.length }    -- :153-154 newAlwaysMatch
    | some d => addResult w d v                                                        -- :156

/-- `AndReturn(v)` (when.go:162-168) -/
def andRet (w : When) (v : Nat) : When :=
  match w.curMatch with
  | none => ret w v
  | some i => addResult w i v

/-- `Returns(v₁,…)` (when.go:194-212): `Return` for the first value, `AndReturn` for the others -/
def rets (w : When) : List Nat → When
  | [] => w
  | v :: vs => vs.foldl andRet (ret w v)

/-- `Matches(Pair{a, v}, …)` (when.go:171-192), one pair: (as the source stands) `w.Return(v)` first — which extends whatever
    stub is current, or the default — then a new DefaultMatcher `a ↦ [v]` is appended to `matches`; `curMatch` is not changed.
    Whether the `w.Return` call is there is read from the source (`Gen.Cursor.matchesReturnsFirst`). -/
def matchPair (w : When) (p : Nat × Nat) : When :=
  let w1 := if matchesReturnsFirst then ret w p.2 else w
  { w1 with ms := w1.ms ++ [⟨.eq p.1, [p.2], 0⟩], mlist := w1.mlist ++ [w1.ms.length] }

def matchesOp (w : When) (ps : List (Nat × Nat)) : When := ps.foldl matchPair w

/-- `CreateWhen(m, f, args, defaultReturns, _)` (when.go:42-72) for a function with results:
    `dflt` given → AlwaysMatcher which is both default and curMatch; `c` given → a DefaultMatcher becomes curMatch -/
def createWhen (c : Option Cond) (dflt : Option Nat) : When :=
  let w0 : When := match dflt with
    | some v => ⟨[⟨.always, [v], 0⟩], [], some 0, some 0⟩
    | none => ⟨[], [], none, none⟩
  match c with
  | some c => { w0 with ms := w0.ms ++ [⟨c, [], 0⟩], curMatch := some w0.ms.length }
  | none => w0

/-- the matcher `invoke` picks for argument `a` (when.go:215-224): first of `matches` that matches, else the default -/
def hit (ms : List Matcher) (a : Nat) (i : Nat) : Bool :=
  match ms[i]? with
  | some m => m.cond.test a
  | none => false

def select (w : When) (a : Nat) : Option Nat :=
  match w.mlist.find? (hit w.ms a) with
  | some i => some i
  | none => w.dflt

/-- one call of the mocked function with argument `a`: (selected matcher, observation, state afterwards) -/
def call (w : When) (a : Nat) : Option Nat × Obs × When :=
  match select w a with
  | none => (none, .nomatch, w)
  | some i =>
    match w.ms[i]? with
    | none => (some i, .oob, w)
    | some m =>
      let r := serve m.results.length m.cur
      match m.results[r.1]? with
      | none => (some i, .oob, w)
      | some v => (some i, .val v, { w with ms := w.ms.set i { m with cur := r.2 } })

/-- consecutive calls: per call the selected matcher and the observation -/
def calls (w : When) : List Nat → List (Option Nat × Obs)
  | [] => []
  | a :: as => let r := call w a; (r.1, r.2.1) :: calls r.2.2 as

def afterCalls (w : When) : List Nat → When
  | [] => w
  | a :: as => afterCalls (call w a).2.2 as

/-! ### the mocker in front of the `When` (mocker.go) -/

/-- operations of a configuration-and-call history; `m…` go through the mocker (`mock.Func(f).Return(..)`), `w…`
    through the `*When` returned earlier -/
inductive Op where
  | mRet (v : Nat) | mWhen (c : Cond) | mRets (vs : List Nat)
  | wRet (v : Nat) | wAnd (v : Nat) | wRets (vs : List Nat) | wWhen (c : Cond) | wMatches (ps : List (Nat × Nat))
  | call (a : Nat)
  deriving Repr

/-- `baseMocker.when` is `none` until the first `When/Return/Returns` on the mocker.
    Observation of configuration ops: `none` (or `rejected`); a `w…` op without a `When` is not expressible in Go (skipped). -/
def opStep (s : Option When) : Op → Option When × Option Obs
  | .mRet v => (some (match s with | some w => ret w v | none => createWhen none (some v)), none)       -- mocker.go:541-556
  | .mWhen c => (some (match s with | some w => whenOp w c | none => createWhen (some c) none), none)   -- mocker.go:521-538
  | .mRets vs =>                                                                                        -- mocker.go DefMocker.Returns
    match s, vs with
    | some w, _ => (some (rets w vs), none)                     -- `m.when != nil`: delegate
    -- a FIRST `Returns()` without values is routed through `Return()` (`len(values) == 0` branch), whose CreateWhen/checkParams
    -- rejects an empty value list for a target with results: panic before `m.whens`, so no `When` is stored and nothing is applied
    | none, [] => (none, some .rejected)
    | none, _ => (some (rets (createWhen none none) vs), none)  -- CreateWhen(nil, nil), `when.Returns(values...)`, then `m.whens`
  | .wRet v => (s.map (ret · v), none)
  | .wAnd v => (s.map (andRet · v), none)
  | .wRets vs => (s.map (rets · vs), none)
  | .wWhen c => (s.map (whenOp · c), none)
  | .wMatches ps => (s.map (matchesOp · ps), none)
  | .call a =>
    match s with
    | none => (none, some .orig)
    | some w => let r := call w a; (some r.2.2, some r.2.1)                                            -- mocker.go:137-148

def runOps (s : Option When) : List Op → List Obs
  | [] => []
  | o :: os => let r := opStep s o
    match r.2 with
    | some ob => ob :: runOps r.1 os
    | none => runOps r.1 os

def endState (s : Option When) : List Op → Option When
  | [] => s
  | o :: os => endState (opStep s o).1 os

/-! ## 3. one matcher, concurrent callers

`Result()` is two accesses to the shared cursor: the load (`matcher.go:45`, on the single-result path the plain read at
`:42`) and the conditional add (`:50`).  Every caller (thread) performs, per call: `inv` (call begins), `step` (load),
`step` (finish: decide, add, pick the index), `resp v` (call returns index `v`).  A history is any list of such events;
`run` succeeds exactly when every thread respects its own program order and every `resp` carries the index the model computed.
`inv`/`resp` are the externally visible events (what the probe stamps), `step` events are internal. -/

inductive Pc where
  | idle | called | loaded (v : Nat) | done (r : Nat)
  deriving Repr, DecidableEq

inductive Ev where
  | inv (t : Nat) | step (t : Nat) | resp (t : Nat) (v : Nat)
  deriving Repr, DecidableEq

def Ev.tid : Ev → Nat
  | .inv t => t | .step t => t | .resp t _ => t

def Ev.visible : Ev → Bool
  | .step _ => false
  | _ => true

structure St where
  cur : Nat
  pc : Nat → Pc

def upd (f : Nat → Pc) (t : Nat) (p : Pc) : Nat → Pc := fun u => if u = t then p else f u

def init : St := ⟨0, fun _ => .idle⟩

/-- one event on a matcher with `n` results; `none` = the event is not possible in this state -/
def step (n : Nat) (s : St) : Ev → Option St
  | .inv t =>
    match s.pc t with
    | .idle => some { s with pc := upd s.pc t .called }
    | _ => none
  | .step t =>
    match s.pc t with
    | .called => some { s with pc := upd s.pc t (.loaded s.cur) }            -- matcher.go:45 LoadInt32 (or the read at :42)
    | .loaded v =>
      if singlePath n then some { s with pc := upd s.pc t (.done v) }         -- :41-43
      else if exhausted v n then some { s with pc := upd s.pc t (.done (lastIdx n)) }   -- :46-48
      else some { cur := advance s.cur, pc := upd s.pc t (.done v) }          -- :50-51 AddInt32; results[curNum]
    | _ => none
  | .resp t v =>
    match s.pc t with
    | .done r => if r = v then some { s with pc := upd s.pc t .idle } else none
    | _ => none

def run (n : Nat) (s : St) : List Ev → Option St
  | [] => some s
  | e :: es =>
    match step n s e with
    | none => none
    | some s' => run n s' es

/-- the event thread `t` can take next (every thread always has exactly one) -/
def nextEv (s : St) (t : Nat) : Ev :=
  match s.pc t with
  | .idle => .inv t
  | .called => .step t
  | .loaded _ => .step t
  | .done r => .resp t r

/-- the history produced by an arbitrary schedule given as a list of thread ids -/
def sched (n : Nat) (s : St) : List Nat → List Ev
  | [] => []
  | t :: ts =>
    match step n s (nextEv s t) with
    | some s' => nextEv s t :: sched n s' ts
    | none => []

/-- visible part of a history -/
def obs (w : List Ev) : List Ev := w.filter Ev.visible

/-- trace validation: the history (visible events in the observed order, internal steps inserted by an untrusted search)
    is a run of the model -/
def admits (n : Nat) (w : List Ev) : Bool := (run n init w).isSome

/-- first event at which the run fails (for diagnostics) -/
def failsAt (n : Nat) (s : St) : List Ev → Nat → Option Nat
  | [], _ => none
  | e :: es, k =>
    match step n s e with
    | none => some k
    | some s' => failsAt n s' es (k + 1)

/-- 1 if the thread holds a loaded value that will still be followed by an add -/
def low (n : Nat) : Pc → Nat
  | .loaded v => if v < n then 1 else 0
  | _ => 0

/-- number of threads `< T` that hold a loaded value which will still be followed by an add -/
def pending (n : Nat) (pc : Nat → Pc) : Nat → Nat
  | 0 => 0
  | T + 1 => pending n pc T + low n (pc T)

end Cursor
