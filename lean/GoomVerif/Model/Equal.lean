import GoomVerif.Model.ValueC18
/-! # Transcription of `arg/equals.go`, `arg/expr.go`, `arg/builder.go` and `toValue`/`ToExpr` of `arg/value.go`

A `reflect.Value` is `Option Val` (`none` = the invalid zero Value).  Results are `Res`: a value, the error result of
the Go function, a panic with its class, or `unmodelled` (the `cast` reinterpretation of value.go:56 and `reflect.Zero`
of an array type are not modelled; generators never produce them and the check drops such lines).
Variadic mode (`isVariadic = true`) is not modelled here (its defect F6 belongs to C04). -/
namespace C18M

inductive Res (α : Type)
  | ok (a : α)
  | err (cls : String)
  | panic (cls : String)
  | unmodelled
deriving Repr

/-! ## arg/equals.go -/

/-- equals.go:123 `isNil`. -/
def isNil : Option Val → Bool
  | some (.nilslice _) | some (.nilmap _) | some (.nilptr _) | some (.nilif _) | some (.nilfunc _) => true
  | _ => false

/-- `v.Elem()` when `v.Kind()` is Interface or Ptr, otherwise `v` (equals.go:17,57,86,184,188).
    `Elem` of a nil pointer/interface is the invalid Value. -/
def elemIfPtrOrIface : Option Val → Option Val
  | some (.ptr _ _ v) => some v
  | some (.iface _ v) => some v
  | some (.nilptr _) => none
  | some (.nilif _) => none
  | v => v

/-- equals.go:137 `isNum` (all int/uint kinds, uintptr, float32/64). -/
def isNum : Option Val → Bool
  | some (.int ..) | some (.flt ..) => true
  | _ => false

/-- equals.go:147 `isFunc`. -/
def isFunc : Option Val → Bool
  | some (.nilfunc _) | some (.func ..) => true
  | _ => false

def isStr : Option Val → Bool
  | some (.str ..) => true
  | _ => false

def isBool : Option Val → Bool
  | some (.bool ..) => true
  | _ => false

/-- `strconv.ParseBool(s)` succeeded with `false`. -/
def parsesFalse (s : String) : Bool :=
  s == "0" || s == "f" || s == "F" || s == "FALSE" || s == "false" || s == "False"

/-- equals.go:16 `tryToBool` (`none` = error "unknown type").  Note: unsigned kinds are not in the list. -/
def tryToBool (v : Option Val) : Option Bool :=
  match elemIfPtrOrIface v with
  | some (.flt _ w b _) => some (!isZeroF w b)                       -- :23  v.Float() != 0  (NaN != 0)
  | some (.int _ true z) => some (z != 0)                            -- :25
  | some (.bool _ b) => some b                                       -- :27
  | some (.str _ s _ pf) =>                                          -- :28
    if s.isEmpty then some false
    else if parsesFalse s then some false                            -- :34
    else match pf with
      | some f => if isZeroF true f then some false else some true   -- :38  tryToFloat64(v) == 0
      | none => some true
  | some (.nilslice _) | some (.nilmap _) => some false              -- :43  Len() == 0
  | some (.slice _ _ es) => some (es.len > 0)
  | some (.map _ _ ks _) => some (ks.len > 0)
  | _ => none

/-- equals.go:56 `tryToFloat64` restricted to its only use in `equal`: a String-kind argument. -/
def tryToFloat64Str : Option Val → Option Nat
  | some (.str _ _ _ pf) => pf
  | _ => none

/-- equals.go:156 `tryToNumber` on a String-kind value: int64 first, then float64. -/
def tryToNumberStr : Option Val → Option Val
  | some (.str _ _ (some i) _) => some (.int "int64" true i)
  | some (.str _ _ none (some f)) => some (.flt "float64" true f "")
  | _ => none

/-- equals.go:229 `numStringEqual` → `(result, done)`. -/
def numStringEqual (l r : Option Val) : Bool × Bool :=
  if isNum l && isStr r then
    match tryToFloat64Str r with
    | none => (false, true)                                                            -- :238
    | some f => (deepEqual (l.bind toIface) (some (.flt "float64" true f "")), true)    -- :241,:252
  else if isStr l && isNum r then
    match tryToNumberStr l with
    | none => (false, true)                                                            -- :245
    | some n => (deepEqual (some n) (r.bind toIface), true)                            -- :248,:252
  else (false, false)

/-- `fmt.Sprintf("%v", v)` of a numeric `reflect.Value` (equals.go:197) — with fix F18A the *plain* number is printed,
    never a `String()`/`Error()` method of a named numeric type. -/
def numText : Option Val → String
  | some (.int _ _ z) => Int.repr z
  | some (.flt _ _ _ txt) => txt
  | _ => ""

/-- equals.go:210 `boolEquals` → `(result, done)`. -/
def boolEquals (l r : Option Val) : Bool × Bool :=
  if isBool l || isBool r then
    match tryToBool l with
    | none => (false, true)
    | some a =>
      match tryToBool r with
      | none => (false, true)
      | some b => (a == b, true)
  else (false, false)

/-- `v.Pointer()` of a Func-kind value: the code pointer (0 for nil). -/
def funcPtr : Option Val → Nat
  | some (.func _ c _) => c
  | _ => 0

/-- equals.go:192-207: the cascade after the nil handling and the one `Elem`.
    The only panic: `Interface()` on the invalid Value (an unresolved expression). -/
def cascade (l r : Option Val) : Res Bool :=
  let ns := numStringEqual l r
  if ns.2 then .ok ns.1                                     -- :192
  else if isNum l && isNum r then .ok (numText l == numText r)   -- :196
  else
    let be := boolEquals l r
    if be.2 then .ok be.1                                   -- :200
    else if isFunc l && isFunc r then .ok (funcPtr l == funcPtr r)  -- :204
    else match l, r with                                    -- :207
      | some a, some b => .ok (deepEqual (toIface a) (toIface b))
      | _, _ => .panic "reflect-call-of-reflect.value.interface"

/-- equals.go:174 `equal`: nil handling (:175-182), one `Elem` for pointer/interface (:184-190), then the cascade. -/
def equal (l r : Option Val) : Res Bool :=
  let ln := isNil l
  let rn := isNil r
  if ln && rn then .ok true                                   -- :176
  else if (!ln && rn) || (ln && !rn) then .ok false           -- :180
  else cascade (elemIfPtrOrIface l) (elemIfPtrOrIface r)

/-! ## arg/value.go:49 `toValue` -/

/-- An `interface{}` handed to `Equals`/`In`: `none` = nil, otherwise the dynamic value and `Type().Size()` of its type. -/
abbrev Arg := Option (Val × Nat)

def nilableZero (out : Ty) : Option Val :=
  match out.kind with
  | .iface => some (.nilif out.name)
  | .ptr => some (.nilptr out.name)
  | .slice => some (.nilslice out.name)
  | .map => some (.nilmap out.name)
  | .func => some (.nilfunc out.name)
  | _ => none

def assignable (out : Ty) (t : String) : Bool := out.impls.contains "*" || out.impls.contains t

/-- value.go:49 `toValue(r, out, false)` (with fix F10: `reflect.Func` is in the nil list). -/
def toValue (r : Arg) (out : Ty) : Res (Option Val) :=
  match r with
  | none =>
    match out.kind with
    | .iface | .ptr | .slice | .map | .func => .ok (nilableZero out)                   -- :59-61
    | .arr => .unmodelled                                                             -- reflect.Zero of an array
    | _ => .panic "reflect-call-of-reflect.value.type"                             -- :62 v.Type() on the zero Value
  | some (v, sz) =>
    if v.ty != out.name && (out.kind == .strct || out.kind == .ptr) then                -- :51
      if sz != out.size then .err "the-type-of-the" else .unmodelled              -- :52 / :56 cast
    else if out.kind == .iface then                                                    -- :65
      if assignable out v.ty then .ok (some (.iface out.name v))
      else .panic "reflect.set-value-of-type"
    else if sz != out.size then .err "the-type-of-the"                            -- :69
    else .ok (some v)

/-! ## arg/builder.go, arg/expr.go -/
mutual
/-- What `arg.Any()`, `arg.Equals(x)`, `arg.In(items...)` build (builder.go:7,12,17). -/
inductive Expr
  | any
  | equals (x : Arg)
  | inE (items : Items)
/-- One component of a tuple: a plain value (gets `Equals`, value.go:144) or an `Expr` (value.go:136). -/
inductive Comp
  | val (x : Arg)
  | sub (e : Expr)
inductive Comps
  | nil
  | cons (c : Comp) (cs : Comps)
/-- Arguments of `In`: a single component (expr.go:83) or a `[]interface{}` tuple (expr.go:71). -/
inductive Items
  | nil
  | one (c : Comp) (rest : Items)
  | tuple (cs : Comps) (rest : Items)
end

mutual
/-- The state `Resolve` fills in: `EqualsExpr.argV` (expr.go:36), `InExpr.expressions` (expr.go:65). -/
inductive RExpr
  | any
  | equals (argV : Option Val)
  | inE (rows : RRows)
inductive RRow
  | nil
  | cons (e : RExpr) (r : RRow)
inductive RRows
  | nil
  | cons (r : RRow) (rs : RRows)
end

/-- An `In` item whose dynamic type is exactly `[]interface{}` is NOT a value to compare with: `v.([]interface{})` succeeds
    (expr.go:71) and its elements become the components of a tuple.  `In([]interface{}{1,2})` on a `[]interface{}` parameter fails
    to resolve ("number of args") and `In([]interface{}{1})` on an `interface{}` parameter accepts `1`, not the slice — the
    union clause of the property is false there (known finding `C18-in-item-slice-of-interface-is-tuple`, Findings/C18InTuple.lean).
    The model does not follow the tuple reading (sizes of the elements' dynamic types are not part of a term): such an item is
    `unmodelled`; the check judges these lines with the probe's union oracle only. -/
def Comp.isTupleLike : Comp → Bool
  | .val (some (.slice ty _ _, _)) => ty == "[]any"
  | .val (some (.nilslice ty, _)) => ty == "[]any"
  | _ => false

def Comps.len : Comps → Nat
  | .nil => 0
  | .cons _ r => r.len + 1

def RRow.len : RRow → Nat
  | .nil => 0
  | .cons _ r => r.len + 1

def Res.bind {α β} (x : Res α) (f : α → Res β) : Res β :=
  match x with
  | .ok a => f a
  | .err c => .err c
  | .panic c => .panic c
  | .unmodelled => .unmodelled

/-- `typ` chosen for argument `i` by `ToExpr` (value.go:129-134): `types[i]` if `i < len-1`, else the last. -/
def typeAt (types : List Ty) (i : Nat) : Option Ty :=
  if i + 1 < types.length then types[i]? else types.getLast?

mutual
/-- `Resolve(types, false)` of the three expression kinds (expr.go:23, :39, :68). -/
def resolve : Expr → List Ty → Res RExpr
  | .any, _ => .ok .any
  | .equals x, types =>
    match types with
    | [t] => (toValue x t).bind (fun v => .ok (.equals v))
    | _ => .err "equalsexpr.resolve-status-error"                  -- expr.go:41
  | .inE items, types => (resolveItems items types).bind (fun rows => .ok (.inE rows))
/-- The loop of `InExpr.Resolve` (expr.go:70-91): every item becomes one row via `ToExpr` (value.go:116:
    length check value.go:122, then component-wise). -/
def resolveItems : Items → List Ty → Res RRows
  | .nil, _ => .ok .nil
  | .one c rest, types =>
    if c.isTupleLike then .unmodelled else
    (if 1 != types.length then (Res.err "the-number-of-args" : Res RRow)
     else match typeAt types 0 with
       | none => Res.panic "runtime-error-index-out"
       | some t => (resolveComp c t).bind (fun e => Res.ok (RRow.cons e .nil))).bind
      (fun row => (resolveItems rest types).bind (fun rows => .ok (.cons row rows)))
  | .tuple cs rest, types =>
    (if cs.len != types.length then (Res.err "the-number-of-args" : Res RRow) else toExprFrom cs types 0).bind
      (fun row => (resolveItems rest types).bind (fun rows => .ok (.cons row rows)))
/-- The loop value.go:128-150 from index `i`. -/
def toExprFrom : Comps → List Ty → Nat → Res RRow
  | .nil, _, _ => .ok .nil
  | .cons c rest, types, i =>
    match typeAt types i with
    | none => .panic "runtime-error-index-out"                         -- types empty: types[len(types)-1]
    | some t =>
      (resolveComp c t).bind (fun e => (toExprFrom rest types (i + 1)).bind (fun row => .ok (.cons e row)))
/-- value.go:136-147: an `Expr` is used as it is, anything else becomes `Equals(a)`; then `Resolve([typ])`. -/
def resolveComp : Comp → Ty → Res RExpr
  | .val x, t => (toValue x t).bind (fun v => .ok (.equals v))
  | .sub e, t => resolve e [t]
end

mutual
/-- `Eval(input, false)` (expr.go:28, :50, :96). -/
def eval : RExpr → List (Option Val) → Res Bool
  | .any, _ => .ok true
  | .equals argV, input =>
    match input with
    | [a] => equal argV a
    | _ => .err "equalsexpr.resolve-status-error"                  -- expr.go:53
  | .inE rows, input => evalRows rows input
/-- expr.go:110-130: first row whose every component accepts wins; a row of another length is skipped (`continue`). -/
def evalRows : RRows → List (Option Val) → Res Bool
  | .nil, _ => .ok false
  | .cons row rest, input =>
    if input.length != row.len then evalRows rest input           -- :112-115
    else (evalRow row input).bind (fun b => if b then .ok true else evalRows rest input)
/-- expr.go:114-122 inner loop (the row and the input have the same length). -/
def evalRow : RRow → List (Option Val) → Res Bool
  | .nil, _ => .ok true
  | .cons e r, input =>
    match input with
    | [] => .ok true
    | a :: as => (eval e [a]).bind (fun b => if b then evalRow r as else .ok false)
end

/-! ## Variadic mode of `In` with tuple items (expr.go:69-95 with `isVariadic`, value.go:116 `ToExpr(.., true)`, expr.go:99-109)

`types = fixed ++ [variadic slice type]`; `elemT` is `types.last.Elem()`.  A tuple needs at least `len(types)-1` components;
component `i` is resolved (non-variadically) against `types[i]` for `i < len(types)-1` and against `elemT` from there on —
which is `typeAt (fixed ++ [elemT]) i`.  A non-tuple item is one argument, except a slice/array at the variadic position, which is expanded (below).  `Eval` replaces the packed last argument by its elements and otherwise proceeds as above. -/

/-- A non-tuple item in variadic mode (expr.go:74-87): only when its index among the items is at least `len(types)-1` AND it is a
    slice or array value, it is expanded element by element into an argument list; every other alternative (number, string,
    expression, nil, …) is itself ONE argument. -/
def expandable : Comp → Option Vals
  | .val (some (.slice _ _ es, _)) => some es
  | .val (some (.nilslice _, _)) => some .nil
  | .val (some (.arr _ es, _)) => some es
  | _ => none

/-- `rv.Index(j).Interface()` for every element: the element as a plain value.  The term language carries `Type().Size()` only
    for the root of a pattern, so the expansion is modelled when every element has exactly the type it is bound to (then the
    size is that type's) and is not an interface position; otherwise `none` (→ `unmodelled`). -/
def expandElems : Vals → List Ty → Nat → Option Comps
  | .nil, _, _ => some .nil
  | .cons e es, types, j =>
    match typeAt types j with
    | none => none
    | some t =>
      match e with
      | .iface .. | .nilif .. => none
      | e => if e.ty == t.name then (expandElems es types (j + 1)).map (fun cs => .cons (.val (some (e, t.size))) cs) else none

/-- `ToExpr(param, types, true)` (value.go:116): at least `len(types)-1` arguments, then component-wise. -/
def toExprV (cs : Comps) (fixed : List Ty) (elemT : Ty) : Res RRow :=
  if cs.len < fixed.length then .err "the-number-of-args" else toExprFrom cs (fixed ++ [elemT]) 0

def resolveTuplesVFrom : Items → List Ty → Ty → Nat → Res RRows
  | .nil, _, _, _ => .ok .nil
  | .one c rest, fixed, elemT, i =>
    if c.isTupleLike then .unmodelled else
    (match (if i ≥ fixed.length then expandable c else none) with
     | some es =>
       match expandElems es (fixed ++ [elemT]) 0 with
       | some cs => toExprV cs fixed elemT
       | none => .unmodelled
     | none => toExprV (.cons c .nil) fixed elemT).bind
      (fun row => (resolveTuplesVFrom rest fixed elemT (i + 1)).bind (fun rows => .ok (.cons row rows)))
  | .tuple cs rest, fixed, elemT, i =>
    (toExprV cs fixed elemT).bind
      (fun row => (resolveTuplesVFrom rest fixed elemT (i + 1)).bind (fun rows => .ok (.cons row rows)))

def resolveTuplesV (items : Items) (fixed : List Ty) (elemT : Ty) : Res RRows := resolveTuplesVFrom items fixed elemT 0

/-- `In(items).Resolve(fixed ++ [sliceT], true)`. -/
def resolveInV (items : Items) (fixed : List Ty) (elemT : Ty) : Res RExpr :=
  (resolveTuplesV items fixed elemT).bind (fun rows => .ok (.inE rows))

/-- `InExpr.Eval(fixedArgs ++ [packed], true)` where `packed` holds `elems` (expr.go:99-109: the caller's list is copied,
    never written). -/
def evalInV (r : RExpr) (fixedArgs elems : List (Option Val)) : Res Bool :=
  eval r (fixedArgs ++ elems)

/-! ## An expression object with the state Resolve fills in, under a history of calls -/

structure Obj where
  src : Expr
  res : Option RExpr      -- `none`: never resolved successfully

inductive Call
  | resolve (types : List Ty)
  | eval (input : List (Option Val))

inductive Obs
  | resolved (r : Res Unit)
  | answered (r : Res Bool)

/-- An `Equals` that was never resolved has the invalid `argV`; an unresolved `In` has no rows; `Any` has no state. -/
def unresolved : Expr → RExpr
  | .any => .any
  | .equals _ => .equals none
  | .inE _ => .inE .nil

/-- One call on the object.  `Eval` only reads (expr.go:50-59, :96-127 assign nothing in the receiver). -/
def step (o : Obj) : Call → Obj × Obs
  | .resolve types =>
    match resolve o.src types with
    | .ok r => ({ o with res := some r }, .resolved (.ok ()))
    | .err c =>                                  -- expr.go:46: `e.argV, err = toValue(..)` stores the invalid Value with the error;
      (match o.src with                          -- an In keeps its old rows (expr.go:87-89 returns before the assignment)
       | .equals _ => ({ o with res := some (.equals none) }, .resolved (.err c))
       | _ => (o, .resolved (.err c)))
    | .panic c => (o, .resolved (.panic c))
    | .unmodelled => (o, .resolved .unmodelled)
  | .eval input => (o, .answered (eval (o.res.getD (unresolved o.src)) input))

def run (o : Obj) : List Call → List Obs
  | [] => []
  | c :: cs => (step o c).2 :: run (step o c).1 cs

end C18M
