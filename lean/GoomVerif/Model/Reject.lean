/-!
# Model/Reject — every validation point of a goom configuration call, in the order the code executes it

Transcribed from (goom, Go 1.23, amd64): `internal/patch/signature.go`, `internal/patch/patch.go`,
`internal/patch/monkey.go`, `internal/patch/guard.go`, `when.go`, `matcher.go`, `arg/value.go`, `mocker.go`,
`iface.go`, `builder.go`, `internal/proxy/func.go`, `internal/proxy/interface.go`, `erro/*.go`.

A configuration call either is accepted or ends in `Rej cls chain` where `chain` is the list of error nodes
(outermost first) that the panic value / error carries.  The global state `G` records the executable image
(per target: pristine or jumping to a replacement), the number of `memory.WriteTo` calls made so far, the
placeholders written by `fixOrigin` and the `patches` registry of `internal/patch/patch.go:15`.
Core Lean only.
-/
namespace Reject

/-! ## types and values as goom sees them through `reflect` -/

inductive Kind | invalid | bool | int | float | complex | str | slice | iface | ptr | strct | array | map | chan | func | uptr
  deriving DecidableEq, Repr, Inhabited

/-- a `reflect.Type`: what the checks look at is kind, `Size()`, identity, and — for `reflect.Value.Set` into an
    interface slot — whether it implements the interface -/
structure Ty where
  kind : Kind
  size : Nat
  id : Nat
  /-- implements `error` (the only non-empty interface type of the universe) -/
  implErr : Bool := false
  /-- for interface types: number of methods (`0` = `interface{}`) -/
  nmeth : Nat := 0
  deriving DecidableEq, Repr, Inhabited

/-- reserved identities -/
def idMockerICtx : Nat := 1   -- *mocker.IContext (iface.go:17)
def idIfaceICtx : Nat := 2    -- *iface.IContext  (internal/iface)
def idExpr : Nat := 3         -- *arg.AnyExpr
def idFuncVal : Nat := 4      -- any func type used as a plain value

structure Sig where
  ins : List Ty
  outs : List Ty
  variadic : Bool := false
  /-- element type of the variadic parameter (`funTyp.In(n-1).Elem()`), meaningful when `variadic` -/
  velem : Ty := ⟨.int, 8, 0, false, 0⟩
  deriving DecidableEq, Repr, Inhabited

/-- an `interface{}` handed to goom -/
inductive V
  | nil                -- untyped nil
  | val (t : Ty)       -- a non-nil value of a non-function type
  | fn (s : Sig)       -- a function value
  | expr               -- an `arg.Expr` (`arg.Any()`)
  deriving DecidableEq, Repr, Inhabited

def V.ty? : V → Option Ty
  | .nil => none
  | .val t => some t
  | .fn _ => some ⟨.func, 8, idFuncVal, false, 0⟩
  | .expr => some ⟨.ptr, 8, idExpr, false, 0⟩

/-! ## errors (erro/*.go) -/

inductive ErrT
  | str                    -- panic(string)
  | reflect                -- a panic raised inside package reflect
  | runtime                -- runtime.Error (nil dereference, index out of range)
  | plain                  -- errors.New / fmt.Errorf value
  | traceable              -- *erro.TraceableError (Cause + StackTrace: implements erro.Traceable)
  | illegalParam           -- *erro.IllegalParam (has Cause() but no StackTrace(): NOT Traceable)
  | illegalParamType       -- *erro.IllegalParamType
  | argsNotMatch (got want : Nat)      -- *erro.ArgsNotMatch
  | returnsNotMatch (got want : Nat)   -- *erro.ReturnsNotMatch
  deriving DecidableEq, Repr, Inhabited

inductive Cls
  | sigArgsLen | sigRetsLen | sigArgSize (i : Nat) | sigRetSize (i : Nat)
  | reflect | runtime | argsNotMatch | returnsNotMatch | retvalCount | retvalType | whenCount | whenType
  | methodEmpty | methodNotFound | symbolNotFound | trampKind | trampSmall | funcSmall | alreadyPatched
  | illegalParam | illegalParamType | ictxReturn | ifaceNoAs | nameEmpty | funcDefEmpty | targetKind | replKind
  | inCount | inType
  deriving DecidableEq, Repr, Inhabited

structure Rej where
  cls : Cls
  chain : List ErrT
  deriving DecidableEq, Repr, Inhabited

/-- erro/traceable.go:16 `Cause`: only a value that implements `Traceable` (both `Cause` and `StackTrace`) yields
    its cause; the only such type is `*TraceableError`. `none` = the Go `nil`. -/
def cause : List ErrT → Option (List ErrT)
  | .traceable :: c :: rest => some (c :: rest)
  | _ => none

/-- the walk `for c := err; c != nil; c = erro.Cause(c)`: the last non-nil node -/
def walk : List ErrT → Option ErrT
  | [] => none
  | [e] => some e
  | .traceable :: c :: rest => walk (c :: rest)
  | e :: _ :: _ => some e

abbrev R := Except Rej

def rej {α} (c : Cls) (chain : List ErrT) : R α := .error ⟨c, chain⟩
def rStr {α} (c : Cls) : R α := rej c [.str]
def rReflect {α} : R α := rej .reflect [.reflect]
def rRuntime {α} : R α := rej .runtime [.runtime]

/-! ## internal/patch/signature.go:9 SignatureEquals -/

/-- the two `for` loops: index of the first slot whose `Size()` differs -/
def firstSizeMismatch : List Ty → List Ty → Nat → Option Nat
  | a :: as, b :: bs, i => if a.size ≠ b.size then some i else firstSizeMismatch as bs (i + 1)
  | _, _, _ => none

def signatureEquals (a b : Sig) : R Unit :=
  if a.ins.length ≠ b.ins.length then rStr .sigArgsLen            -- signature.go:11
  else if a.outs.length ≠ b.outs.length then rStr .sigRetsLen     -- signature.go:15
  else match firstSizeMismatch a.ins b.ins 0 with                 -- signature.go:19
    | some i => rStr (.sigArgSize i)
    | none => match firstSizeMismatch a.outs b.outs 0 with        -- signature.go:25
      | some i => rStr (.sigRetSize i)
      | none => pure ()

/-- `reflect.Value.Type()` followed by `Type.NumIn()`: panics inside reflect for the zero Value and for non-functions -/
def sigOf : V → R Sig
  | .fn s => pure s
  | _ => rReflect

/-! ## the executable image and the patch registry -/

/-- value of `patches[origin]` (patch.go:33) together with its lazily created guard (patch.go:150) -/
structure PatchE where
  repl : Nat
  /-- `jumpBytes`/`originBytes` filled in: `replaceFunc` ran to completion -/
  complete : Bool
  /-- `guard.applied` -/
  applied : Bool
  deriving DecidableEq, Repr, Inhabited

structure G where
  /-- `none` = the pristine bytes, `some r` = entry overwritten with a jump to replacement `r` -/
  text : Nat → Option Nat
  /-- placeholders overwritten by `fixOrigin` -/
  tramp : Nat → Bool
  /-- number of `memory.WriteTo` calls so far -/
  writes : Nat
  patches : Nat → Option PatchE

def G.init : G := ⟨fun _ => none, fun _ => false, 0, fun _ => none⟩

def upd {α} (f : Nat → α) (k : Nat) (v : α) : Nat → α := fun x => if x = k then v else f x

def mocked (g : G) (t : Nat) : Bool := (g.text t).isSome

/-- monkey.go:150 `unpatchValue` → patch.go:145 `unpatch` → guard.go:36 `Unpatch` (writes only if `applied`) -/
def unpatchValue (g : G) (t : Nat) : G :=
  match g.patches t with
  | none => g
  | some e =>
    let g1 := if e.applied then { g with text := upd g.text t none, writes := g.writes + 1 } else g
    { g1 with patches := upd g1.patches t none }

/-- the origin placeholder handed to `Origin(...)`, as `replaceFunc` sees it -/
structure Tramp where
  id : Nat
  size : Nat       -- GetFuncSize(trampoline)
  fixedLen : Nat   -- length of the relocated prologue plus the jump back
  deriving DecidableEq, Repr, Inhabited

def jumpLen : Nat := 13   -- len(jmpToFunctionValue) on amd64

/-- patch.go:102 `replaceFunc`.  `fsize` = `GetFuncSize(origin)`.  Every exit leaves the state exactly as the Go code
    leaves it: the registration of patch.go:109 happens BEFORE `genJumpData` (jumpdata.go:58), the already-patched
    test (jumpdata.go:68) and `fixOrigin` (fix_origin_amd64.go:37,72) can fail. -/
def replaceFunc (g : G) (t fsize repl : Nat) (tr : Option Tramp) : G × R Unit :=
  let g1 := if (g.patches t).isSome then unpatchValue g t else g              -- patch.go:106
  let g2 := { g1 with patches := upd g1.patches t (some ⟨repl, false, false⟩) }  -- patch.go:109
  if jumpLen ≥ fsize then (g2, rej .funcSmall [.plain])                         -- jumpdata.go:58
  else if (g2.text t).isSome then (g2, rej .alreadyPatched [.plain, .plain])    -- jumpdata.go:68 (%w-wrapped)
  else match tr with
    | none => ({ g2 with patches := upd g2.patches t (some ⟨repl, true, false⟩) }, pure ())
    | some tr =>
      if jumpLen ≥ tr.size then (g2, rej .trampSmall [.plain])                  -- fix_origin_amd64.go:37
      else if tr.fixedLen > tr.size then (g2, rej .trampSmall [.plain])         -- fix_origin_amd64.go:72
      else ({ g2 with tramp := upd g2.tramp tr.id true, writes := g2.writes + 1,   -- fix_origin_amd64.go:82
                      patches := upd g2.patches t (some ⟨repl, true, false⟩) }, pure ())

/-- guard.go:22 `Apply` -/
def guardApply (g : G) (t : Nat) : G :=
  match g.patches t with
  | none => g
  | some e => { g with text := upd g.text t (some e.repl), writes := g.writes + 1,
                       patches := upd g.patches t (some { e with applied := true }) }

/-! ## internal/proxy/func.go:117 checkTrampolineFunc -/

inductive OriginV
  | none               -- no Origin(...) call
  | value (k : Kind)   -- a non-nil value that is neither a function nor a pointer
  | ptrTo (k : Kind)   -- pointer to a non-function
  | ptrFunc (tr : Tramp)   -- &funcVar
  | funcVal (tr : Tramp)   -- a plain function value: its own body becomes the placeholder (func.go:119 accepts Kind()==Func)
  deriving DecidableEq, Repr, Inhabited

def checkTrampolineFunc : OriginV → R (Option Tramp)
  | .none => pure none
  | .value k => if k = .iface then rReflect else rReflect   -- `reflect.Value.Elem()` panics on every other kind
  | .ptrTo _ => rej .trampKind [.str]                       -- errors.New(..) wrapped into the panic string of mocker.go:96
  | .ptrFunc tr => pure (some tr)
  | .funcVal tr => pure (some tr)

/-! ## patch.go:53–99: patch → patchValue → unsafePatchValue → unsafePatchPtr → replaceFunc; mocker.go:90 applyByFunc -/

/-- a target as `replaceFunc` needs it -/
structure Target where
  id : Nat
  sig : Sig
  fsize : Nat := 64
  deriving Repr, Inhabited

/-- patch.go:60 `patchValue` + :66 `unsafePatchValue` on reflect values.  The kind checks of :67/:70 are transcribed although
    `SignatureEquals` (whose panic is what rejects; its boolean result is dropped) has already excluded non-functions. -/
def patchValueChecks (origin repl : V) : R Unit := do
  let a ← sigOf origin      -- p.originValue.Type() ... NumIn()
  let b ← sigOf repl
  signatureEquals a b
  match origin with
  | .fn _ => pure ()
  | _ => rej .targetKind [.plain]      -- patch.go:67
  match repl with
  | .fn _ => pure ()
  | _ => rej .replKind [.plain]        -- patch.go:70

/-- mocker.go:92-95: an `error` RETURNED by proxy.Func (patch.go:67/70 kind checks, replaceFunc) is turned into
    `panic(fmt.Sprintf("proxy func definition error: %v", err))` — a string; panics raised below (reflect,
    SignatureEquals) pass through unchanged -/
def asPanicString (e : Rej) : Rej :=
  match e.chain with
  | .plain :: _ => ⟨e.cls, [.str]⟩
  | _ => e

/-- mocker.go:90 `applyByFunc`: proxy.Func (func.go:18) … `guard.Apply()` (mocker.go:97) -/
def applyByFunc (g : G) (tg : Target) (cb : V) (o : OriginV) (repl : Nat) : G × R Unit :=
  match checkTrampolineFunc o with
  | .error e => (g, .error e)
  | .ok tr =>
    match patchValueChecks (.fn tg.sig) cb with
    | .error e => (g, .error (asPanicString e))
    | .ok _ =>
      match replaceFunc g tg.id tg.fsize repl tr with
      | (g1, .error e) => (g1, .error (asPanicString e))    -- no guard, nothing applied
      | (g1, .ok _) => (guardApply g1 tg.id, pure ())

/-- builder.go:115 `Func(&fnVar)`: `reflect.ValueOf(p).Pointer()` works for a pointer, and proxy.Func (func.go:27) patches
    `reflect.Indirect(reflect.ValueOf(funcDef)).Interface()` — the function the variable holds; `Return`/`When` reach
    `reflect.TypeOf(funcDef).NumOut()` on the pointer type first (when.go:77): a reflect panic -/
def ptrFuncApply (g : G) (tg : Target) (cb : V) (repl : Nat) : G × R Unit := applyByFunc g tg cb .none repl

/-- mocker.go:462-464: a target whose symbol name ends in "-fm" (a METHOD VALUE such as `obj.M`) is applied BY NAME:
    mocker.go:77 applyByName → func.go:56 proxy.FuncName → monkey.go:86 PtrTrampoline → patch.go:135 unsafePatchPtr.
    There is no SignatureEquals on this route: any FUNCTION is installed on the method.  A replacement that is not a function
    (nil included: `Kind()` of the zero Value is Invalid) is refused by patch.go:139 before anything is registered or written;
    the returned error becomes the panic string of mocker.go:81. -/
def fmApply (g : G) (tg : Target) (cb : V) (repl : Nat) : G × R Unit :=
  match cb with
  | .fn _ =>
    match replaceFunc g tg.id tg.fsize repl none with
    | (g1, .error e) => (g1, .error (asPanicString e))
    | (g1, .ok _) => (guardApply g1 tg.id, pure ())
  | _ => (g, rStr .replKind)

/-! ## arg/value.go -/

def nilable (k : Kind) : Bool :=
  k = .iface || k = .ptr || k = .slice || k = .map || k = .array || k = .chan || k = .func   -- value.go:60-61

def idError : Nat := 10

def assignable (vt out : Ty) : Bool := out.nmeth = 0 || vt.id = out.id || (vt.implErr && out.id = idError)

inductive TvErr | typeMismatch | reflectPanic | ictxPanic
  deriving DecidableEq, Repr

/-- value.go:51 `toValue` -/
def toValue (r : V) (out : Ty) : Except TvErr Unit :=
  match r.ty? with
  | none =>                                                     -- r == nil
    if nilable out.kind then pure ()                            -- value.go:61
    else .error .reflectPanic                                   -- value.go:64 `v.Type()` on the zero Value
  | some vt0 =>
    -- value.go:53: size test and cast for struct / pointer slots of another type
    let castNeeded := vt0 ≠ out && (out.kind = .strct || out.kind = .ptr)
    if castNeeded && vt0.size ≠ out.size then .error .typeMismatch
    else
      let vt := if castNeeded then out else vt0
      if vt.kind = .ptr && vt.id = idIfaceICtx then .error .ictxPanic      -- value.go:64
      else if out.kind = .iface then                                        -- value.go:67 ptr.Elem().Set(v)
        if assignable vt out then pure () else .error .reflectPanic
      else if vt.size ≠ out.size then .error .typeMismatch                  -- value.go:71
      else pure ()

/-- the slot type chosen inside the loops of `I2V` / `ToExpr` (value.go:31, :131) -/
def slotType (types : List Ty) (i : Nat) : Option Ty :=
  if i + 1 < types.length then types[i]? else types.getLast?

def convLoop (conv : V → Ty → Except TvErr Unit) (types : List Ty) : List V → Nat → Except TvErr Unit
  | [], _ => pure ()
  | a :: rest, i =>
    match slotType types i with
    | none => .error .reflectPanic          -- index out of range: unreachable after the count check
    | some t => do conv a t; convLoop conv types rest (i + 1)

inductive ConvErr | count | tv (e : TvErr)
  deriving DecidableEq, Repr

/-- value.go:15 `I2V` with `isVariadic = false` (the only way matcher.go calls it) -/
def i2v (objs : List V) (types : List Ty) : Except ConvErr Unit :=
  if objs.length ≠ types.length then .error .count
  else match convLoop toValue types objs 0 with
    | .ok _ => pure ()
    | .error e => .error (.tv e)

/-- value.go:116 `ToExpr` with `isVariadic = false`: an `Expr` argument resolves trivially (`AnyExpr`), anything else
    becomes `Equals(a)` whose `Resolve` is `toValue` (expr.go:45) -/
def toExpr (args : List V) (types : List Ty) : Except ConvErr Unit :=
  if args.length ≠ types.length then .error .count
  else match convLoop (fun a t => match a with | .expr => pure () | _ => toValue a t) types args 0 with
    | .ok _ => pure ()
    | .error e => .error (.tv e)

/-! ## matcher.go, when.go -/

/-- matcher.go:21 `newBaseMatcher` / :55 `AddResult`: `panic("Return Value (…) error: " + err.Error())` -/
def addResult (results : List V) (outs : List Ty) : R Unit :=
  match i2v results outs with
  | .ok _ => pure ()
  | .error .count => rStr .retvalCount
  | .error (.tv .typeMismatch) => rStr .retvalType
  | .error (.tv .reflectPanic) => rReflect
  | .error (.tv .ictxPanic) => rStr .ictxReturn

/-- reflect.go:35 `inTypes` -/
def inTypes (isMethod : Bool) (s : Sig) : List Ty := if isMethod then s.ins.drop 1 else s.ins

/-- matcher.go:97 `newDefaultMatch` (results = nil) -/
def newDefaultMatch (args : List V) (isMethod : Bool) (s : Sig) : R Unit :=
  let at0 := inTypes isMethod s
  let at1 := if s.variadic then
      let base := at0.dropLast
      base ++ List.replicate (args.length - base.length) s.velem      -- matcher.go:100-105
    else at0
  match toExpr args at1 with
  | .ok _ => pure ()
  | .error .count => rStr .whenCount
  | .error (.tv .typeMismatch) => rStr .whenType
  | .error (.tv .reflectPanic) => rReflect
  | .error (.tv .ictxPanic) => rStr .ictxReturn

/-- erro/return_not_match.go:27 `NewReturnsNotMatchError` -/
def newReturnsNotMatchError (got want : Nat) : ErrT := .returnsNotMatch got want

/-- when.go:75 `checkParams` -/
def checkParams (s : Sig) (args returns : Option (List V)) (isMethod : Bool) : R Unit := do
  match returns with
  | some rs => if rs.length < s.outs.length then
      rej .returnsNotMatch [newReturnsNotMatchError rs.length s.outs.length]   -- when.go:77
  | none => pure ()
  match args with
  | some as =>
    -- when.go:80-90: parameters without the receiver and, for a variadic function, without the variadic slot
    let required := s.ins.length - (if isMethod then 1 else 0) - (if s.variadic then 1 else 0)
    if as.length < required then rej .argsNotMatch [.argsNotMatch as.length required]
  | none => pure ()

/-- the matcher the `When` object holds after `CreateWhen` -/
structure WhenSt where
  hasCur : Bool       -- curMatch != nil
  hasDefault : Bool   -- defaultReturns != nil
  deriving DecidableEq, Repr, Inhabited

/-- when.go:41 `CreateWhen` (funcDef is a function value here; a nil funcDef is handled by the callers) -/
def createWhen (s : Sig) (args defaults : Option (List V)) (isMethod : Bool) : R WhenSt := do
  checkParams s args defaults isMethod
  let hasDef ← match defaults with
    | some ds => do addResult ds s.outs; pure true          -- when.go:54 newAlwaysMatch → newBaseMatcher
    | none => pure (s.outs.length = 0)                      -- when.go:56 newEmptyMatch
  match args with
  | some as => do newDefaultMatch as isMethod s; pure ⟨true, hasDef⟩   -- when.go:61
  | none => pure ⟨hasDef, hasDef⟩

/-- when.go:139 `(*When).Return` on the object returned by `When(...)` -/
def whenReturn (w : WhenSt) (s : Sig) (vals : Option (List V)) : R WhenSt :=
  let vs := vals.getD []
  if w.hasCur then do addResult vs s.outs; pure w                   -- when.go:141 AddResult
  else if !w.hasDefault then
    match vals with
    | none => pure w                                                 -- newAlwaysMatch(nil) = nil
    | some vs => do addResult vs s.outs; pure { w with hasDefault := true }
  else do addResult vs s.outs; pure w

/-! ## the API calls on a fresh builder (mocker.go, builder.go, iface.go) -/

inductive Action
  | apply (cb : V)
  | ret (vals : Option (List V))
  | when_ (args : Option (List V)) (ret : Option (Option (List V)))   -- When(args) [ .Return(vals) ]
  deriving Repr, Inhabited

/-- what a caller observes when calling the target -/
inductive Beh | orig | cb | stub | nomatch
  deriving DecidableEq, Repr, Inhabited

structure Outcome where
  g : G
  res : R Unit
  /-- state and behaviour at the moment the rejected/last call started (differs from the initial one only for
      `When(ok).Return(bad)`, where the first call has already mocked the target) -/
  gBefore : G
  behBefore : Beh
  beh : Beh

/-- mocker.go:472/487 `DefMocker.Return` → CreateWhen → whens → doApply; the value list of a first `Return()` call
    with no values is the empty list -/
def firstReturnValues (vals : Option (List V)) : Option (List V) := some (vals.getD [])

def funcCall (g : G) (tg : Target) (pre : Beh) (o : OriginV) (repl : Nat) : Action → Outcome
  | .apply cb =>
    let (g1, r) := applyByFunc g tg cb o repl
    ⟨g1, r, g, pre, match r with | .ok _ => .cb | .error _ => pre⟩
  | .ret vals =>
    match createWhen tg.sig none (firstReturnValues vals) false with
    | .error e => ⟨g, .error e, g, pre, pre⟩
    | .ok w =>
      let (g1, r) := applyByFunc g tg (.fn tg.sig) o repl      -- mocker.go:150 whens: MakeFunc(when.funcTyp, …)
      ⟨g1, r, g, pre, match r with | .ok _ => (if w.hasDefault then .stub else .nomatch) | .error _ => pre⟩
  | .when_ args ret =>
    match createWhen tg.sig args none false with
    | .error e => ⟨g, .error e, g, pre, pre⟩
    | .ok w =>
      match applyByFunc g tg (.fn tg.sig) o repl with
      | (g1, .error e) => ⟨g1, .error e, g, pre, pre⟩
      | (g1, .ok _) =>
        let b1 : Beh := if w.hasDefault then .stub else .nomatch
        match ret with
        | none => ⟨g1, pure (), g, pre, b1⟩
        | some vals =>
          match whenReturn w tg.sig vals with
          | .error e => ⟨g1, .error e, g1, b1, b1⟩        -- the rejected call is the `Return`; `When` had succeeded
          | .ok w2 => ⟨g1, pure (), g, pre, if w.hasCur || w2.hasDefault then .stub else .nomatch⟩

/-- `Func(obj.M).<action>` for a method value: `msig` is the method value's type (no receiver), `tg.sig` the method's own type
    (receiver first).  `Return`/`When` build their stub from `msig` (mocker.go:150) and install it by name as well. -/
def fmCall (g : G) (tg : Target) (msig : Sig) (repl : Nat) : Action → G × R Unit × Option Beh
  | .apply cb =>
    match fmApply g tg cb repl with
    | (g1, .error e) => (g1, .error e, some .orig)
    | (g1, .ok _) => (g1, pure (), if cb = .fn tg.sig then some .cb else none)   -- `none`: a callback that does not fit is never called by the probe
  | .ret vals =>
    match createWhen msig none (firstReturnValues vals) false with
    | .error e => (g, .error e, some .orig)
    | .ok w =>
      match fmApply g tg (.fn msig) repl with
      | (g1, .error e) => (g1, .error e, some .orig)
      | (g1, .ok _) => (g1, pure (), some (if w.hasDefault then .stub else .nomatch))
  | .when_ args ret =>
    match createWhen msig args none false with
    | .error e => (g, .error e, some .orig)
    | .ok w =>
      match fmApply g tg (.fn msig) repl with
      | (g1, .error e) => (g1, .error e, some .orig)
      | (g1, .ok _) =>
        let b1 : Beh := if w.hasDefault then .stub else .nomatch
        match ret with
        | none => (g1, pure (), some b1)
        | some vals =>
          match whenReturn w msig vals with
          | .error e => (g1, .error e, some b1)
          | .ok w2 => (g1, pure (), some (if w2.hasDefault then .stub else .nomatch))   -- the stub sees the receiver as first argument: the condition never matches

/-- builder.go:103 `Builder.Func(funcDef)`: `reflect.ValueOf(funcDef).Pointer()` -/
def hasPointer (k : Kind) : Bool := k = .chan || k = .func || k = .map || k = .ptr || k = .slice || k = .uptr

/-- `Func(v).<action>` for a `v` that is not a function: builder.go:104, then mocker.go:446 doApply → proxy.Func →
    patch.Trampoline(reflect.Indirect(ValueOf(funcDef)).Interface(), …) → SignatureEquals panics in reflect;
    `Return`/`When` reach `reflect.TypeOf(funcDef).NumOut()` first (when.go:77 …), also a reflect panic. -/
def nonFuncCall (k : Kind) : R Unit :=
  if hasPointer k then rReflect else rReflect

/-- mocker.go:199 `MethodMocker.Method` (through cache.go:44) + the action.  `found` = `MethodByName` succeeded,
    the target's signature includes the receiver. -/
def methodCall (g : G) (name : String) (found : Bool) (tg : Target) (repl : Nat) : Action → Outcome
  | act =>
    if name = "" then ⟨g, rStr .methodEmpty, g, .orig, .orig⟩            -- mocker.go:200
    else if !found then ⟨g, rStr .methodNotFound, g, .orig, .orig⟩       -- mocker.go:207
    else match act with
      | .apply cb =>
        let (g1, r) := applyByFunc g tg cb .none repl                    -- mocker.go:103 applyByMethod → proxy.Method
        ⟨g1, r, g, .orig, match r with | .ok _ => .cb | .error _ => .orig⟩
      | .ret vals =>
        match createWhen tg.sig none (firstReturnValues vals) true with  -- mocker.go:290
        | .error e => ⟨g, .error e, g, .orig, .orig⟩
        | .ok w =>
          let (g1, r) := applyByFunc g tg (.fn tg.sig) .none repl
          ⟨g1, r, g, .orig, match r with | .ok _ => (if w.hasDefault then .stub else .nomatch) | .error _ => .orig⟩
      | .when_ args ret =>
        match createWhen tg.sig args none true with                      -- mocker.go:266
        | .error e => ⟨g, .error e, g, .orig, .orig⟩
        | .ok w =>
          match applyByFunc g tg (.fn tg.sig) .none repl with
          | (g1, .error e) => ⟨g1, .error e, g, .orig, .orig⟩
          | (g1, .ok _) =>
            let b1 : Beh := if w.hasDefault then .stub else .nomatch
            match ret with
            | none => ⟨g1, pure (), g, .orig, b1⟩
            | some vals =>
              match whenReturn w tg.sig vals with
              | .error e => ⟨g1, .error e, g1, b1, b1⟩
              | .ok w2 => ⟨g1, pure (), g, .orig, if w.hasCur || w2.hasDefault then .stub else .nomatch⟩

/-- builder.go:151 ExportFunc / :128 ExportStruct(..).Method(..), then Apply (mocker.go:77 applyByName → func.go:56) or
    As (mocker.go:412/357).  `known` = the symbol table has the name.  Only the unknown/empty lanes are modelled
    beyond the lookup (a by-name patch has no target type to check against). -/
inductive ExportForm | func | struct
  deriving DecidableEq, Repr
def exportCall (form : ExportForm) (nameEmpty known asCall : Bool) : R Unit :=
  if form = .func && nameEmpty then rStr .nameEmpty                 -- builder.go:152
  else if !known || nameEmpty then
    if asCall then rej .symbolNotFound [.plain]                      -- mocker.go:414 panic(err)
    else rStr .symbolNotFound                                        -- mocker.go:79 panic(fmt.Sprintf(...))
  else pure ()

/-- mocker.go:412/357 `As(aFunc)` on a KNOWN symbol returns a `DefMocker` whose funcDef is a function value of `aFunc`'s
    type at the symbol's address: `Apply`/`Return` on it are checked against that type like any function (mocker.go:506) -/
def exportAsApply (g : G) (tg : Target) (cb : V) (repl : Nat) : G × R Unit := applyByFunc g tg cb .none repl

/-! ## interface mocks: iface.go, mocker.go:120 applyByIFaceMethod, internal/proxy/interface.go:21 -/

inductive IfaceVar
  | ptrIface            -- &i with i of interface type: the correct use
  | value (k : Kind) (elemHasMethod : Bool)   -- not a pointer; for kinds with Elem(): whether the element type has the named method
  | nilValue            -- Interface(nil)
  | ptrTo (k : Kind) (hasMethod : Bool)   -- pointer to a non-interface whose type has / has not the named method
  deriving DecidableEq, Repr

/-- `reflect.Type.Elem()` is defined for these kinds only (iface.go:79) -/
def hasElem (k : Kind) : Bool := k = .array || k = .chan || k = .map || k = .ptr || k = .slice

/-- iface.go:67 `Method(name)` + :78 `checkMethod` -/
def ifaceMethod (v : IfaceVar) (name : String) (found : Bool) : R Unit :=
  if v = .nilValue then rRuntime
  else if name = "" then rStr .methodEmpty
  else match v with
    | .ptrIface => if found then pure () else rStr .methodNotFound
    | .value k hm => if hasElem k then (if hm then pure () else rStr .methodNotFound) else rReflect
    | .nilValue => rRuntime            -- builder.go:71 reflect.TypeOf(nil).String()
    | .ptrTo _ hm => if hm then pure () else rStr .methodNotFound

/-- interface.go:36-41 and the signature test that follows: the callback must have exactly the method's parameters
    after the leading `*IContext`, the same number of results, and slot sizes that agree. -/
def ifaceSignature (m cb : Sig) : R Unit :=
  if m.ins.length ≥ cb.ins.length then
    rej .illegalParam [.traceable, .illegalParam, .argsNotMatch cb.ins.length (m.ins.length + 1)]
  else if cb.ins.length ≠ m.ins.length + 1 then
    rej .illegalParam [.traceable, .illegalParam, .argsNotMatch cb.ins.length (m.ins.length + 1)]
  else if cb.outs.length ≠ m.outs.length then
    rej .illegalParam [.traceable, .illegalParam, newReturnsNotMatchError cb.outs.length m.outs.length]
  else match firstSizeMismatch m.ins (cb.ins.drop 1) 0, firstSizeMismatch m.outs cb.outs 0 with
    | none, none => pure ()
    | _, _ => rej .illegalParam [.traceable, .illegalParam, .illegalParamType]

/-- mocker.go:120 `baseMocker.applyByIFaceMethod` + interface.go:21 `proxy.Interface` -/
def applyIface (v : IfaceVar) (m : Sig) (cb : V) : R Unit :=
  match cb with
  | .nil => rRuntime                                  -- reflect.TypeOf(nil).In(0): nil dereference
  | .val _ | .expr => rReflect                        -- In of non-func type
  | .fn c =>
    match c.ins with
    | [] => rRuntime                                  -- In(0): index out of range
    | first :: _ =>
      if ¬ (first.kind = .ptr ∧ first.id = idMockerICtx) then rej .illegalParamType [.illegalParamType]   -- mocker.go:124
      else match v with
        | .value _ _ => rej .illegalParamType [.traceable, .illegalParamType]     -- interface.go:23: slice/array/map/chan of the interface type
        | .nilValue => rRuntime
        | .ptrTo _ _ => rej .illegalParamType [.traceable, .illegalParamType]     -- interface.go:28
        | .ptrIface => ifaceSignature m c

inductive IfaceAction
  | apply (cb : V)
  | asRet (fn : Sig) (vals : Option (List V))                      -- As(fn).Return(vals)
  | asWhen (fn : Sig) (args : Option (List V)) (ret : Option (Option (List V)))
  deriving Repr

/-- result and whether the interface variable got its fake implementation -/
def ifaceCall (v : IfaceVar) (name : String) (found : Bool) (m : Sig) : IfaceAction → R Unit × Bool
  | act =>
    match ifaceMethod v name found with
    | .error e => (.error e, false)
    | .ok _ =>
      match act with
      | .apply cb => match applyIface v m cb with | .error e => (.error e, false) | .ok _ => (pure (), true)
      | .asRet fn vals =>
        match createWhen fn none (firstReturnValues vals) true with           -- iface.go:147
        | .error e => (.error e, false)
        | .ok _ => match applyIface v m (.fn fn) with | .error e => (.error e, false) | .ok _ => (pure (), true)
      | .asWhen fn args ret =>
        match createWhen fn args none true with                               -- iface.go:121
        | .error e => (.error e, false)
        | .ok w =>
          match applyIface v m (.fn fn) with
          | .error e => (.error e, false)
          | .ok _ =>
            match ret with
            | none => (pure (), true)
            | some vals => match whenReturn w fn vals with | .error e => (.error e, true) | .ok _ => (pure (), true)

/-! ## sequences of configuration calls on one mocker (mocker.go, iface.go, when.go:103-214)

After the first `When/Return/Returns` the mocker holds a `*When` (`m.when`); every later call — on the returned
handle or through a repeated `Func(f)` / `Method(..)` lookup, which yields the same cached mocker and delegates to
`m.when` — only adds matchers.  `hit` flags abstract `arg.equal`: whether the matcher being built would match the
one call the probe makes to classify behaviour. -/

/-- the `*When` object -/
structure WS where
  hasCur : Bool        -- curMatch != nil
  curHit : Bool
  hasDefault : Bool    -- defaultReturns != nil
  anyHit : Bool        -- some matcher in w.matches matches the probe's call
  deriving DecidableEq, Repr, Inhabited

/-- when.go:41 `CreateWhen`, with the matcher bookkeeping (`curMatch` is the always-matching default when no
    condition was given) -/
def createWS (s : Sig) (args : Option (List V)) (hit : Bool) (defaults : Option (List V)) (isMethod : Bool) : R WS := do
  let w ← createWhen s args defaults isMethod
  match args with
  | some _ => pure ⟨true, hit, w.hasDefault, false⟩
  | none => pure ⟨w.hasDefault, true, w.hasDefault, false⟩

/-- when.go:103 `(*When).When` -/
def wWhen (s : Sig) (isM : Bool) (w : WS) (args : Option (List V)) (hit : Bool) : R WS := do
  newDefaultMatch (args.getD []) isM s
  pure { w with hasCur := true, curHit := hit }

/-- when.go:139 `(*When).Return` -/
def wReturn (s : Sig) (w : WS) (vals : Option (List V)) : R WS :=
  if w.hasCur then do
    addResult (vals.getD []) s.outs                              -- when.go:141
    pure { w with anyHit := w.anyHit || w.curHit }               -- when.go:142 append(w.matches, w.curMatch)
  else if !w.hasDefault then
    match vals with
    | none => pure w                                             -- newAlwaysMatch(nil) = nil
    | some vs => do addResult vs s.outs; pure { w with hasDefault := true }
  else do addResult (vals.getD []) s.outs; pure w

/-- when.go:157 `(*When).AndReturn` -/
def wAndReturn (s : Sig) (w : WS) (vals : Option (List V)) : R WS :=
  if !w.hasCur then wReturn s w vals
  else do addResult (vals.getD []) s.outs; pure w

/-- when.go:192 `(*When).Returns`: first group through `Return`, the others through `AndReturn`.  A later bad group
    panics after the earlier ones were added (the returned `WS` is what is left). -/
def wReturns (s : Sig) : WS → List (List V) → Nat → WS × R Unit
  | w, [], _ => (w, pure ())
  | w, g :: rest, i =>
    match (if i = 0 then wReturn s w (some g) else wAndReturn s w (some g)) with
    | .error e => (w, .error e)
    | .ok w1 => wReturns s w1 rest (i + 1)

/-- value.go:116 `ToExpr` with `isVariadic = true` (only `InExpr.Resolve` calls it so): at least the fixed parameters
    must be given, and every argument from the variadic position on is resolved against the element type -/
def exprLoopV (types : List Ty) (velem : Ty) : List V → Nat → Except TvErr Unit
  | [], _ => pure ()
  | a :: rest, i =>
    let t := if i + 1 < types.length then types[i]?.getD velem else velem       -- value.go:130-138
    match (match a with | .expr => pure () | _ => toValue a t) with
    | .error e => .error e
    | .ok _ => exprLoopV types velem rest (i + 1)

def toExprV (args : List V) (types : List Ty) (velem : Ty) : Except ConvErr Unit :=
  if args.length < types.length - 1 then .error .count                           -- value.go:118
  else match exprLoopV types velem args 0 with
    | .ok _ => pure ()
    | .error e => .error (.tv e)

/-- expr.go:71-90 `InExpr.Resolve`, one argument of `In(...)`: a `[]interface{}` is a condition list; on a variadic target a
    BARE slice (or array) argument at index ≥ len(types)-1 is expanded element-wise (the universe's only slice value is
    `[]int{7}`: one element of the element type); any other bare argument is one condition -/
inductive InArg
  | list (vs : List V)
  | bare (v : V)
  deriving Repr, Inhabited

def inParam (s : Sig) (isM : Bool) (idx : Nat) : InArg → R (List V)
  | .list vs => pure vs
  | .bare v =>
    if s.variadic && idx + 1 ≥ (inTypes isM s).length then
      match v with
      | .val t => if t.kind = .slice then pure [.val s.velem] else pure [v]   -- expr.go:75-76: only a slice/array is expanded (arrays are not generated)
      | _ => pure [v]
    else pure [v]

/-- when.go:123 `(*When).In` → matcher.go:157 `newContainsMatch` → expr.go:71 `InExpr.Resolve`: one `ToExpr` per argument,
    with the target's variadic flag -/
def wIn (s : Sig) (isM : Bool) (w : WS) : List (InArg × Bool) → Nat → Bool → R WS
  | [], _, hit => pure { w with hasCur := true, curHit := hit }
  | (a, h) :: rest, idx, hit =>
    match inParam s isM idx a with
    | .error e => .error e
    | .ok g =>
      match (if s.variadic then toExprV g (inTypes isM s) s.velem else toExpr g (inTypes isM s)) with
      | .ok _ => wIn s isM w rest (idx + 1) (hit || h)
      | .error .count => rStr .inCount
      | .error (.tv .typeMismatch) => rStr .inType
      | .error (.tv .reflectPanic) => rReflect
      | .error (.tv .ictxPanic) => rStr .ictxReturn

/-- when.go:168 `(*When).Matches`: each pair becomes a matcher that is appended at once — a later bad pair panics after
    the earlier ones were installed (the returned `WS` is what is left) -/
def wMatches (s : Sig) (isM : Bool) : WS → List (List V × Bool × List V) → WS × R Unit
  | w, [] => (w, pure ())
  | w, (a, hit, r) :: rest =>
    match newDefaultMatch a isM s with
    | .error e => (w, .error e)
    | .ok _ =>
      match addResult r s.outs with
      | .error e => (w, .error e)
      | .ok _ => wMatches s isM { w with anyHit := w.anyHit || hit } rest

inductive Step
  | apply (cb : V)
  | ret (vals : Option (List V))
  | when_ (args : Option (List V)) (hit : Bool)
  | returns (groups : List (List V))
  | andReturn (vals : Option (List V))
  | in_ (groups : List (InArg × Bool))
  | matchPairs (pairs : List (List V × Bool × List V))
  | again          -- look the mocker up again through the builder (same cached mocker)
  | lookup (name : String) (found : Bool)   -- `Struct(x).Method(name)` / `Interface(&i).Method(name)` for another name
  | asFn (fn : Sig)                          -- `.As(fn)` (interface mockers): only remembers the function
  | holder (hasMethod : Bool)                -- from now on `Interface(&structHoldingTheVariable).Method(name)[.As(fn)]`
  deriving Repr, Inhabited

/-- what the entry of the target currently jumps to -/
inductive ImpK | none | cb | whenFn
  deriving DecidableEq, Repr, Inhabited

/-- a function/method mocker together with the global state -/
structure MS where
  g : G
  when : Option WS     -- m.when
  imp : ImpK           -- what was applied last (mocker.go:99 `m.imp = callback` after `guard.Apply()`)

def behOf (pre : Beh) (ms : MS) : Beh :=
  match ms.imp with
  | .none => pre
  | .cb => .cb
  | .whenFn => match ms.when with                       -- mocker.go:141 callback reads m.when at call time
    | some w => if w.anyHit || w.hasDefault then .stub else .nomatch
    | none => .nomatch

/-- the steps that only touch the `*When` (no state of the image or the registry is involved) -/
def whenStep (s : Sig) (isM : Bool) (w : WS) : Step → WS × R Unit
  | .ret vals => match wReturn s w vals with | .ok w1 => (w1, pure ()) | .error e => (w, .error e)
  | .when_ args hit => match wWhen s isM w args hit with | .ok w1 => (w1, pure ()) | .error e => (w, .error e)
  | .returns gs => wReturns s w gs 0
  | .andReturn vals => match wAndReturn s w vals with | .ok w1 => (w1, pure ()) | .error e => (w, .error e)
  | .in_ gs => match wIn s isM w gs 0 false with | .ok w1 => (w1, pure ()) | .error e => (w, .error e)
  | (.matchPairs ps) => wMatches s isM w ps
  | .again => (w, pure ())
  | .lookup _ _ => (w, pure ())
  | .asFn _ => (w, pure ())
  | .holder _ => (w, pure ())
  | .apply _ => (w, pure ())     -- not a `*When` call; handled by `seqStep`

/-- cache.go:44/139 + mocker.go:199 / iface.go:67: looking a method mocker up by name validates the name BEFORE the new
    mocker is cached, so a failed lookup leaves nothing behind -/
def lookupCheck (name : String) (found : Bool) : R Unit :=
  if name = "" then rStr .methodEmpty else if !found then rStr .methodNotFound else pure ()

/-- mocker.go (DefMocker/MethodMocker `Returns`): `if len(values) == 0 { return m.Return() }` — a FIRST `Returns()` without
    values is `Return()` (on a mocker that already has a `When` it goes to `(*When).Returns`, which adds nothing) -/
def normFirst : Step → Step
  | .returns [] => .ret none
  | st => st

/-- the first `Return/When/Returns` of a function or method mocker (`m.when == nil`) -/
def seqFirst (tg : Target) (isM : Bool) (repl : Nat) (ms : MS) (st : Step) : MS × R Unit :=
  -- first call: build the When, [fill it], remember it, apply
  let built : R WS := match st with
    | .ret vals => createWS tg.sig none true (firstReturnValues vals) isM
    | .when_ args hit => createWS tg.sig args hit none isM
    | .returns _ => createWS tg.sig none true none isM
    | _ => rStr .funcDefEmpty        -- AndReturn / In / Matches exist on the handle only
  match built with
  | .error e => (ms, .error e)
  | .ok w0 =>
    let filled : WS × R Unit := match st with
      | .returns gs => wReturns tg.sig w0 gs 0
      | _ => (w0, pure ())
    match filled with
    | (_, .error e) => (ms, .error e)     -- the value lists are validated before `m.whens`: nothing is kept
    | (w1, .ok _) =>
      match applyByFunc ms.g tg (.fn tg.sig) .none repl with
      | (g1, .error e) => ({ ms with g := g1, when := some w1 }, .error e)
      | (g1, .ok _) => (⟨g1, some w1, .whenFn⟩, pure ())

/-- one configuration call on a function (`isM = false`, mocker.go:506-600) or method (`isM = true`, mocker.go:243-340)
    mocker.  The order inside the first-call paths (`seqFirst`) is the code's: CreateWhen → [`when.Returns(values...)`,
    which may panic] → `m.whens(when)` (which sets `m.when`) → `m.doApply(m.imp)`. -/
def seqStep (tg : Target) (isM : Bool) (repl : Nat) (ms : MS) : Step → MS × R Unit
  | .again => (ms, pure ())
  | .asFn _ => (ms, pure ())
  | .holder _ => (ms, pure ())
  | .lookup name found => (ms, lookupCheck name found)
  | .apply cb =>
    match applyByFunc ms.g tg cb .none repl with
    | (g1, .error e) => ({ ms with g := g1 }, .error e)
    | (g1, .ok _) => (⟨g1, none, .cb⟩, pure ())            -- Apply discards m.when (mocker.go:246/510)
  | st =>
    match ms.when with
    | some w =>
      let (w1, r) := whenStep tg.sig isM w st
      ({ ms with when := some w1 }, r)
    | none => seqFirst tg isM repl ms (normFirst st)

/-- run the steps until the first rejection.  Returns the state before the last executed step, the state after it,
    its result, and its index. -/
def runSeq (tg : Target) (isM : Bool) (repl : Nat) : MS → List Step → Nat → MS × MS × R Unit × Nat
  | ms, [], i => (ms, ms, pure (), i)
  | ms, [st], i => let (ms1, r) := seqStep tg isM (repl + i) ms st; (ms, ms1, r, i)
  | ms, st :: rest, i =>
    match seqStep tg isM (repl + i) ms st with
    | (ms1, .error e) => (ms, ms1, .error e, i)
    | (ms1, .ok _) => runSeq tg isM repl ms1 rest (i + 1)

/-- run ALL steps, continuing after rejections (a test that recovers from the panic and tries again).  Returns the
    state before the last step, the state after it, and every step's result. -/
def runAll (tg : Target) (isM : Bool) (repl : Nat) : MS → List Step → Nat → MS × MS × List (R Unit)
  | ms, [], _ => (ms, ms, [])
  | ms, [st], i => let (ms1, r) := seqStep tg isM (repl + i) ms st; (ms, ms1, [r])
  | ms, st :: rest, i =>
    let (ms1, r) := seqStep tg isM (repl + i) ms st
    let (a, b, rs) := runAll tg isM repl ms1 rest (i + 1)
    (a, b, r :: rs)

/-- interface-method mocker (iface.go:112-186): `m.when` is assigned only AFTER the fake implementation was installed -/
structure IS where
  set : Bool           -- the variable holds the fake implementation
  when : Option WS
  imp : ImpK
  fn : Sig             -- m.funcDef, set by As(..)
  /-- the test now configures through a pointer to the STRUCT whose first field is the variable (same address, other type):
      builder.go:71 keys the cache by type string AND address, so this is a different, fresh mocker each time it fails -/
  via : Bool := false
  deriving Inhabited

/-- a configuration call made through `Interface(&holder)`: `checkMethod` saw the struct's (promoted) method, the call
    itself reaches proxy.Interface with a pointer to a non-interface (interface.go:28) after the usual value checks -/
def holderStep (m : Sig) (fn : Sig) : Step → R Unit
  | .apply cb => applyIface (.ptrTo .strct true) m cb
  | .ret vals => do let _ ← createWS fn none true (firstReturnValues vals) true; applyIface (.ptrTo .strct true) m (.fn fn)
  | .when_ args hit => do let _ ← createWS fn args hit none true; applyIface (.ptrTo .strct true) m (.fn fn)
  | .returns gs => do
      let w0 ← createWS fn none true none true
      match wReturns fn w0 gs 0 with
      | (_, .error e) => .error e
      | (_, .ok _) => applyIface (.ptrTo .strct true) m (.fn fn)
  | _ => pure ()

/-- the first `Return/When/Returns` of an interface-method mocker (`m.when == nil`, iface.go:112-186) -/
def ifaceFirst (m : Sig) (is_ : IS) (st : Step) : IS × R Unit :=
  let fn := is_.fn
  let built : R WS := match st with
    | .ret vals => createWS fn none true (firstReturnValues vals) true
    | .when_ args hit => createWS fn args hit none true
    | .returns gs => do                                                          -- iface.go:179
      let w0 ← createWS fn none true none true
      match wReturns fn w0 gs 0 with | (w1, .ok _) => pure w1 | (_, .error e) => .error e
    | _ => rStr .funcDefEmpty
  match built with
  | .error e => (is_, .error e)
  | .ok w1 =>
    match applyIface .ptrIface m (.fn fn) with
    | .error e => (is_, .error e)
    | .ok _ => (⟨true, some w1, .whenFn, fn, is_.via⟩, pure ())

/-- a configuration call on the interface variable itself (`Interface(&i)`) -/
def ifaceMainStep (m : Sig) (is_ : IS) : Step → IS × R Unit
  | .again => (is_, pure ())
  | .holder _ => (is_, pure ())
  | .asFn f => ({ is_ with fn := f }, pure ())
  | .lookup name found => (is_, lookupCheck name found)
  | .apply cb =>
    match applyIface .ptrIface m cb with
    | .error e => (is_, .error e)
    | .ok _ => (⟨true, none, .cb, is_.fn, is_.via⟩, pure ())
  | st =>
    let fn := is_.fn
    match is_.when with
    | some w =>
      let (w1, r) := whenStep fn true w st
      ({ is_ with when := some w1 }, r)
    | none => ifaceFirst m is_ (normFirst st)

def isConfigStep : Step → Bool
  | .again | .holder _ | .asFn _ | .lookup _ _ => false
  | _ => true

def ifaceSeqStep (m : Sig) (is_ : IS) (st : Step) : IS × R Unit :=
  match st with
  | .holder hasMethod =>
    if hasMethod then ({ is_ with via := true }, pure ()) else (is_, rStr .methodNotFound)   -- iface.go:82 on the struct type
  | st =>
    if is_.via && isConfigStep st then (is_, holderStep m is_.fn (normFirst st))     -- through Interface(&holder): never installs anything
    else ifaceMainStep m is_ st

def runIfaceSeq (m : Sig) : IS → List Step → Nat → IS × IS × R Unit × Nat
  | s, [], i => (s, s, pure (), i)
  | s, [st], i => let (s1, r) := ifaceSeqStep m s st; (s, s1, r, i)
  | s, st :: rest, i =>
    match ifaceSeqStep m s st with
    | (s1, .error e) => (s, s1, .error e, i)
    | (s1, .ok _) => runIfaceSeq m s1 rest (i + 1)

def runIfaceAll (m : Sig) : IS → List Step → IS × IS × List (R Unit)
  | s, [] => (s, s, [])
  | s, [st] => let (s1, r) := ifaceSeqStep m s st; (s, s1, [r])
  | s, st :: rest =>
    let (s1, r) := ifaceSeqStep m s st
    let (a, b, rs) := runIfaceAll m s1 rest
    (a, b, r :: rs)

/-! ## error values on the Go side (erro/traceable.go, erro/traceable_base.go, erro/illegal_param.go) and the probe's walk

A Go error value is a node with a type and, for the types that can hold one, a cause.  `ErrT` names the node types. -/

inductive GoErr
  | leaf (t : ErrT)                    -- no cause stored (or a type that cannot store one)
  | wrap (t : ErrT) (cause : GoErr)    -- `cause` field of *TraceableError / *IllegalParam, or the `%w` operand of fmt.Errorf
  deriving Repr, Inhabited

def GoErr.tag : GoErr → ErrT | .leaf t => t | .wrap t _ => t

/-- erro/traceable.go:16 `Cause(err)`: `if c, ok := err.(Traceable); ok { return c.Cause() }; return nil`.
    `Traceable` demands `Cause()` AND `StackTrace()`: only `*TraceableError` (traceable_base.go:39,43) has both;
    `*IllegalParam` (illegal_param.go:26) has `Cause()` only. -/
def erroCause : GoErr → Option GoErr
  | .wrap .traceable c => some c
  | _ => none

/-- the walk `for c := err; c != nil; c = erro.Cause(c) { last = c }` of the probe (probe_test.go zchain) and of
    erro/traceable.go:26 `CauseBy`: type of the last non-nil node -/
def erroWalk : GoErr → ErrT
  | .leaf t => t
  | .wrap t c => if t = .traceable then erroWalk c else t

/-- erro/traceable.go:26 `CauseBy(err, target)`:
    `for c := err; c != nil; c = Cause(c) { if t, ok := c.(Traceable); ok && t == target { return true } }; return false`.
    The pointer comparison `t == target` is rendered by the node's depth in the value: `causeByDepth e d k` = does the loop,
    standing at node `e` of depth `d`, find the node of depth `k`. -/
def causeByDepth : GoErr → Nat → Nat → Bool
  | .leaf t, d, k => t = .traceable && d = k
  | .wrap t c, d, k => if t = .traceable then d = k || causeByDepth c (d + 1) k else false

/-- number of leading `*TraceableError` nodes of a listed chain: the nodes `CauseBy` can identify -/
def leadingTraceable : List ErrT → Nat
  | .traceable :: rest => leadingTraceable rest + 1
  | _ => 0

/-- does a node of this type expose its cause to the probe's chain listing: through a `Cause() error` method
    (`*TraceableError`, `*IllegalParam`) or through `errors.Unwrap` (`*fmt.wrapError`, tagged `plain`) -/
def exposesCause : ErrT → Bool
  | .traceable | .illegalParam | .plain => true
  | _ => false

/-- probe_test.go `zchain`: `parts = append(parts, znode(c)); if x, ok := c.(interface{ Cause() error }); ok { c = x.Cause() } else { c = errors.Unwrap(c) }` -/
def probeChain : GoErr → List ErrT
  | .leaf t => [t]
  | .wrap t c => if exposesCause t then t :: probeChain c else [t]

/-- build the Go value a model chain stands for (outermost first) -/
def toGo : List ErrT → Option GoErr
  | [] => none
  | [t] => some (.leaf t)
  | t :: rest => (toGo rest).map (.wrap t)

/-- a chain is well formed when every element but the last is of a type that stores a cause (so each wrapper's cause IS
    the next element) and the last one is not a bare wrapper -/
def wellFormed : List ErrT → Bool
  | [] => false
  | [t] => t != .traceable
  | t :: rest => exposesCause t && wellFormed rest

/-! ### the typed cause the model assigns to every mistake class -/

/-- classes whose producers `panic` with a STRING (no error value exists): SignatureEquals (signature.go:11-29),
    matcher.go:28/58 "Return Value (…) error", matcher.go:107 "Call When(…) error", matcher.go:164 "create param match fail",
    mocker.go:200/207 and iface.go:69/82 method name, func.go:119 via mocker.go:94, value.go:64, iface.go:129, builder.go:152 -/
def isStrCls : Cls → Bool
  | .sigArgsLen | .sigRetsLen | .sigArgSize _ | .sigRetSize _ | .retvalCount | .retvalType | .whenCount | .whenType
  | .inCount | .inType | .methodEmpty | .methodNotFound | .trampKind | .ictxReturn | .ifaceNoAs | .nameEmpty | .funcDefEmpty => true
  | _ => false

/-- classes that exist as `error` values inside internal/patch and reach the user as the panic string of mocker.go:94 -/
def isPatchCls : Cls → Bool
  | .funcSmall | .trampSmall | .alreadyPatched | .targetKind | .replKind => true
  | _ => false

def typedEnd (c : Cls) (e : ErrT) : Bool :=
  if isStrCls c then e == .str
  else if isPatchCls c then e == .plain || e == .str
  else match c, e with
    | .reflect, .reflect => true
    | .runtime, .runtime => true
    | .argsNotMatch, .argsNotMatch _ _ => true
    | .returnsNotMatch, .returnsNotMatch _ _ => true
    | .illegalParam, .illegalParam => true
    | .illegalParamType, .illegalParamType => true
    | .symbolNotFound, .str => true        -- mocker.go:79 panic(fmt.Sprintf(..))
    | .symbolNotFound, .plain => true      -- mocker.go:414 panic(err)
    | _, _ => false

def isTypedInner : ErrT → Bool
  | .argsNotMatch _ _ | .returnsNotMatch _ _ | .illegalParamType => true
  | _ => false

/-- the chain shapes the model produces, per class -/
def Rej.shape (r : Rej) : Bool :=
  match r.chain with
  | [e] => typedEnd r.cls e
  | [.plain, .plain] => r.cls == .alreadyPatched
  | [.traceable, .illegalParamType] => r.cls == .illegalParamType
  | [.traceable, .illegalParam, c] => r.cls == .illegalParam && isTypedInner c
  | _ => false

end Reject
