/-!
# Model of goom's variable mocks (var.go, ue_var.go, builder.go Var/UnExportedVar/Reset)

Executable, core Lean only.  The model transcribes the Go code branch by branch, including its panics.

* `Ty`, `Val`, `Boxed`: Go types and values **as goom sees them through `reflect`** — the code never looks inside a
  value, it only boxes it into `interface{}`, asks for its dynamic type and assigns it, so a value is its dynamic type
  plus an identity `rep` (which element of that type it is; typed nil pointers/slices/maps/funcs are ordinary elements).
  `Boxed = Option Val` is an `interface{}`; `none` is the nil interface.
* `RV`, `valueOf`, `rset`: the three facts about `reflect` the code depends on: `reflect.ValueOf(nil)` is the invalid
  Value, `Value.Set` panics on an invalid or non-assignable source, and assignability is identity ∨ implements ∨
  identical underlying types with one side unnamed.
* `Mocker`, `State`, `doSet`, `cancel`, `look`, `resetGo`, `step`, `run`: `defaultVarMocker` / `unExportedVarMocker`,
  the builder cache keyed by `var_<addr>` / `ue_var_<path>` and `Builder.Reset`.

Every definition that differs between the repaired and the unrepaired code takes `lg : Bool`:
`lg = false` is the code with fixes F8 (`fixes/F8.diff`) and F27 (`fixes/F27-c08-keep-cancelled-var-mocker.diff`) — the theorems of `Props/C08.lean` are about it;
`lg = true` is the code as published (origin saved on every `doSet`, unguarded `Cancel`, `Apply` of an
unexported-variable mocker without `reflect.NewAt`) — `Findings/C08F8.lean` refutes the property for it.
-/
namespace Var

/-- reflect.Kind, coarsened -/
inductive Kind
  | bool | int | uint | float | complex | str | arr | slice | map | strct | ptr | func | chan | iface | uptr
  deriving DecidableEq, Repr

/-- a Go type: identity, kind, whether it is a defined (named) type, identity of its underlying type, method set -/
structure Ty where
  id : Nat
  kind : Kind
  named : Bool
  under : Nat
  methods : List Nat
  deriving DecidableEq, Repr

def Ty.isIface (t : Ty) : Bool :=
  match t.kind with
  | .iface => true
  | _ => false

/-- a non-interface value: dynamic type and which element of that type -/
structure Val where
  ty : Ty
  rep : Nat
  deriving DecidableEq, Repr

/-- `interface{}`; `none` is the nil interface -/
abbrev Boxed := Option Val

/-- reflect `implements`: every method of the interface type is in the method set -/
def implements (v t : Ty) : Bool := t.methods.all (fun m => v.methods.contains m)

/-- reflect `Type.AssignableTo` (`directlyAssignable || implements`; channel directions not modelled) -/
def assignable (v t : Ty) : Bool :=
  decide (v = t) || (t.isIface && implements v t) ||
    (!t.isIface && !v.isIface && v.under == t.under && (!v.named || !t.named))

/-- a `reflect.Value`: invalid, or static type + content (content `none` only for a nil value of interface type) -/
inductive RV
  | invalid
  | mk (ty : Ty) (c : Boxed)

/-- `reflect.ValueOf(x)` for `x : interface{}` -/
def valueOf : Boxed → RV
  | none => .invalid
  | some v => .mk v.ty (some v)

inductive Panic
  | setZeroValue      -- reflect: call of reflect.Value.Set on zero Value
  | notAssignable     -- reflect.Set: value of type X is not assignable to type Y
  | elemZeroValue     -- reflect: call of reflect.Value.Elem on zero Value
  | nilType           -- reflect.NewAt(nil, …)
  | notFunc           -- "VarMock Apply argument(callback) must be a func."
  | nilFunc           -- reflect: call of nil function
  | fewArgs           -- reflect: Call with too few input arguments
  | retCount          -- "VarMock Apply callback's returns length must be 1."
  | cbPanic           -- the callback itself panicked
  | notPtr            -- "VarMock target must be a pointer."  (var.go:36)
  | pointerOnNonPtr   -- reflect: call of reflect.Value.Pointer on <kind> Value (builder.go:162)
  | notFound          -- "cannot find unexported var" (ue_var.go:35)
  deriving DecidableEq, Repr

/-- what a location of static type `t` holds after a value with content `c` of another, assignable type is stored:
    an interface location keeps the dynamic type, a concrete location holds its own type -/
def conv (t : Ty) (c : Boxed) : Boxed :=
  if t.isIface then c else c.map (fun v => ⟨t, v.rep⟩)

/-- `loc.Set(x)` for a settable location of static type `t`: new content or panic -/
def rset (t : Ty) : RV → Except Panic Boxed
  | .invalid => .error .setZeroValue
  | .mk ty c => if ty = t then .ok c else if assignable ty t then .ok (conv t c) else .error .notAssignable

/-- a package variable: static type and content (for a concrete type the content is `some ⟨ty, rep⟩`) -/
structure Cell where
  ty : Ty
  cur : Boxed

/-- `defaultVarMocker` (var.go:20) / `unExportedVarMocker` (ue_var.go:21), plus where the builder cached it -/
structure Mocker where
  b : Nat                 -- builder that created it
  ue : Bool               -- created by UnExportedVar
  addr : Nat              -- the variable (its address; for `ue` the address found for its name)
  target : Option Ty      -- targetValue: `none` = zero reflect.Value, `some t` = pointer to the variable viewed as `t`
  origin : Boxed          -- originValue
  mocked : Bool           -- (fix F8) originValue is valid and the variable currently holds a mock value
  canceled : Bool

structure State where
  mem : Nat → Cell
  mks : Nat → Mocker      -- mocker objects by identity
  n : Nat                 -- next fresh identity
  cache : Nat → Bool → Nat → Option Nat   -- Builder.mockers: builder → ("var_%d" | "ue_var_%s") key → mocker
  ret : Nat               -- the mocker the last successful lookup returned
  pkg : Nat → Nat         -- Builder.pkgName per builder: 0 = the caller's package, p > 0 = a pending `Pkg(p)` override

inductive Outcome
  | ok
  | panic (p : Panic)
  | undefined             -- the documented "unpredictable behaviour": unexported variable overlaid with another type
  deriving DecidableEq, Repr

def upd {α : Type} (f : Nat → α) (i : Nat) (x : α) : Nat → α := fun j => if j = i then x else f j

/-- var.go:82 `doSet` -/
def doSet (lg : Bool) (s : State) (i : Nat) (v : Boxed) : State × Outcome :=
  let m := s.mks i
  match m.target with
  | none => (s, .panic .elemZeroValue)                       -- m.targetValue.Elem()
  | some t =>
    let cell := s.mem m.addr
    if t ≠ cell.ty then (s, .undefined) else
    -- published code: `m.originValue = m.targetValue.Elem().Interface()` on every call;
    -- fixed code: a copy of the current content, only when not already mocked
    let m1 : Mocker := if lg || !m.mocked then { m with origin := cell.cur } else m
    match rset t (valueOf v) with                              -- m.targetValue.Elem().Set(reflect.ValueOf(value))
    | .error p => ({ s with mks := upd s.mks i m1 }, .panic p)
    | .ok c =>
      let m2 : Mocker := if lg then m1 else { m1 with mocked := true, canceled := false }
      ({ s with mem := upd s.mem m.addr { cell with cur := c }, mks := upd s.mks i m2 }, .ok)

/-- var.go:65 `Cancel` -/
def cancel (lg : Bool) (s : State) (i : Nat) : State × Outcome :=
  let m := s.mks i
  if lg then
    match m.target with
    | none => (s, .panic .elemZeroValue)
    | some t =>
      let cell := s.mem m.addr
      if t ≠ cell.ty then (s, .undefined) else
      match rset t (valueOf m.origin) with                     -- Set(reflect.ValueOf(m.originValue))
      | .error p => (s, .panic p)
      | .ok c => ({ s with mem := upd s.mem m.addr { cell with cur := c },
                           mks := upd s.mks i { m with canceled := true } }, .ok)
  else if m.mocked then
    match m.target with
    | none => (s, .panic .elemZeroValue)
    | some t =>
      let cell := s.mem m.addr
      if t ≠ cell.ty then (s, .undefined) else
      match rset t (.mk t m.origin) with                       -- Set(m.originValue), a Value of the variable's own type
      | .error p => (s, .panic p)
      | .ok c => ({ s with mem := upd s.mem m.addr { cell with cur := c },
                           mks := upd s.mks i { m with mocked := false, canceled := true } }, .ok)
  else ({ s with mks := upd s.mks i { m with canceled := true } }, .ok)

/-- var.go:77 `Set` / ue_var.go:56 `Set` (`reflect.NewAt(reflect.TypeOf(value), target)` first) -/
def setOp (lg : Bool) (s : State) (i : Nat) (v : Boxed) : State × Outcome :=
  let m := s.mks i
  if m.ue then
    match v with
    | none => (s, .panic .nilType)
    | some x => doSet lg { s with mks := upd s.mks i { m with target := some x.ty } } i v
  else doSet lg s i v

/-- the callback handed to `Apply`, by what `reflect` makes of it -/
inductive Cb
  | notFunc | nilFunc | takesArgs | zeroRets | twoRets | panics
  | ret (v : Boxed)       -- returns exactly one value whose `.Interface()` is `v` (`none`: a nil interface result)
  deriving DecidableEq, Repr

def cbResult : Cb → Except Panic Boxed
  | .notFunc => .error .notFunc
  | .nilFunc => .error .nilFunc
  | .takesArgs => .error .fewArgs      -- non-variadic parameters (a variadic-only callback is accepted by Call(nil): `.ret`)
  | .zeroRets => .error .retCount
  | .twoRets => .error .retCount
  | .panics => .error .cbPanic
  | .ret v => .ok v

/-- var.go:50 `Apply`; the published unExportedVarMocker inherits it (no NewAt), the fixed one goes through `Set` -/
def applyOp (lg : Bool) (s : State) (i : Nat) (cb : Cb) : State × Outcome :=
  match cbResult cb with
  | .error p => (s, .panic p)
  | .ok v => if lg then doSet lg s i v else setOp lg s i v

/-- builder.go `Var` / `UnExportedVar`: cached mocker unless cancelled, else a new one that replaces it.  The cache key
    is `"var_<addr>"` / `"ue_var_<path>"` — it does **not** contain `b.pkgName`, so a pending `Pkg(..)` override does not
    change which mocker is found; since fd6dbcf both paths end with `reset2CurPkg()` (the published code did not). -/
def look (lg : Bool) (s : State) (b : Nat) (ue : Bool) (c : Nat) : State × Outcome :=
  let pkg' : Nat → Nat := if lg then s.pkg else upd s.pkg b 0
  let fresh : State × Outcome :=
    let m : Mocker := { b := b, ue := ue, addr := c, target := if ue then none else some (s.mem c).ty,
                        origin := none, mocked := false, canceled := false }
    ({ s with mks := upd s.mks s.n m, n := s.n + 1, ret := s.n, pkg := pkg',
              cache := fun b' u' c' => if b' = b ∧ u' = ue ∧ c' = c then some s.n else s.cache b' u' c' }, .ok)
  match s.cache b ue c with
  -- published code (and HEAD before fix F27): a cancelled cached mocker is replaced by a new one;
  -- with F27 the cached mocker is returned whether cancelled or not (one mocker per builder and variable, for ever)
  | some i => if lg && (s.mks i).canceled then fresh else ({ s with ret := i, pkg := pkg' }, .ok)
  | none => fresh

/-- builder.go:192 `Reset`: `Cancel` every cached mocker, in the order `ord` the map iteration happens to produce;
    a panic aborts the loop -/
def resetGo (lg : Bool) (b : Nat) : State → List (Bool × Nat) → State × Outcome
  | s, [] => (s, .ok)
  | s, (u, c) :: rest =>
    match s.cache b u c with
    | none => resetGo lg b s rest
    | some i =>
      match cancel lg s i with
      | (s', .ok) => resetGo lg b s' rest
      | (s', o) => (s', o)

inductive Op
  | pkg (b : Nat) (p : Nat)                -- b.Pkg(p): package override for the next lookup
  | look (b : Nat) (ue : Bool) (c : Nat)
  | lookBad (p : Panic)                    -- a lookup that panics before anything is cached
  | set (i : Nat) (v : Boxed)
  | apply (i : Nat) (cb : Cb)
  | cancel (i : Nat)
  | reset (b : Nat) (ord : List (Bool × Nat))
  | write (c : Nat) (v : Boxed)            -- the program itself assigns the variable
  deriving Repr

def step (lg : Bool) (s : State) : Op → State × Outcome
  | .pkg b p => ({ s with pkg := upd s.pkg b p }, .ok)
  | .look b ue c => look lg s b ue c
  | .lookBad p => (s, .panic p)
  | .set i v => setOp lg s i v
  | .apply i cb => applyOp lg s i cb
  | .cancel i => cancel lg s i
  | .reset b ord => resetGo lg b s ord
  | .write c v => ({ s with mem := upd s.mem c { (s.mem c) with cur := v } }, .ok)

def run (lg : Bool) (s : State) : List Op → State
  | [] => s
  | op :: rest => run lg (step lg s op).1 rest

/-- nothing looked up yet -/
def init (mem : Nat → Cell) : State :=
  { mem := mem,
    mks := fun _ => { b := 0, ue := false, addr := 0, target := none, origin := none, mocked := false, canceled := false },
    n := 0, cache := fun _ _ _ => none, ret := 0, pkg := fun _ => 0 }

end Var
