/-! # Model of goom's debug-logging interception (property C19)

Transcribes `debug.go:18 interceptDebugInfo`, `arg/value.go:103 SprintV`, the level switches of
`internal/logger/logger.go`, and as much of `mocker.go` / `iface.go` / `when.go` / `matcher.go` as is needed to
replay whole mock scenarios (Apply / Return / When / Returns / call / Reset) with a logging configuration.

`fmt.Sprintf("%v", x)` is NOT modelled: it is the parameter `render : Val → Option String`
(`none` = fmt panics or never returns).  `reflect.Value.Call` / `CallSlice` / `MakeFunc` are modelled by their
documented argument checks (`reflect/value.go` `Value.call`).  Core Lean only. -/
namespace Debug

/-- `reflect.Kind` classes the code under study distinguishes. -/
inductive Kind | int | str | ptr | iface | slice | map | other
deriving DecidableEq, Repr, Inhabited

/-- A Go value as the mock layer sees it through `reflect`: Kind of its static type, `IsNil()`
    (false for kinds that cannot be nil), a canonical token of its bits, and a number used by the test callbacks. -/
structure Atom where
  kind : Kind
  isNil : Bool
  tok : String
  n : Int := 0
deriving DecidableEq, Repr

/-- A parameter value: a single value, or the packed slice the compiler builds for a variadic call. -/
inductive Val
| atom (a : Atom)
| pack (elems : List Atom)
deriving DecidableEq, Repr

def sumN : List Atom → Int
| [] => 0
| a :: r => a.n + sumN r

def joinWith (sep : String) : List String → String
| [] => ""
| [a] => a
| a :: r => a ++ sep ++ joinWith sep r

def Val.kind : Val → Kind
| .atom a => a.kind
| .pack _ => .slice

/-- `v.IsNil()`; the compiler passes a nil slice when a variadic call has no variadic arguments. -/
def Val.isNil : Val → Bool
| .atom a => a.isNil
| .pack es => es.isEmpty

def Val.tok : Val → String
| .atom a => a.tok
| .pack es => "[" ++ joinWith "," (es.map (·.tok)) ++ "]" ++ (if es.isEmpty then "nil" else "#" ++ toString es.length)
  -- what the callee can tell about the slice header: nil for a call without variadic arguments, else len = cap

def Val.num : Val → Int
| .atom a => a.n
| .pack es => sumN es

def sumV : List Val → Int
| [] => 0
| v :: r => v.num + sumV r

def toks (vs : List Val) : String := joinWith "," (vs.map Val.tok)

/-! ## arg/value.go:103 SprintV -/

/-- `(a.Kind() == reflect.Interface || a.Kind() == reflect.Ptr) && isZero(a)` (arg/value.go:106).  Because of the
    short-circuit `&&`, `isZero` (arg/value.go:160) is only ever evaluated on Interface/Ptr kinds, where it is `v.IsNil()`. -/
def guardedNil (a : Val) : Bool := (a.kind == .iface || a.kind == .ptr) && a.isNil

/-- One element of the loop body: `"nil"` or `fmt.Sprintf("%v", a.Interface())`. -/
def sprint1 (render : Val → Option String) (a : Val) : Option String :=
  if guardedNil a then some "nil" else render a

/-- The pieces `s` of SprintV; `none` when some `fmt.Sprintf` call panics / does not return. -/
def sprintPieces (render : Val → Option String) : List Val → Option (List String)
| [] => some []
| a :: rest =>
  match sprint1 render a with
  | none => none
  | some p =>
    match sprintPieces render rest with
    | none => none
    | some r => some (p :: r)

/-- `strings.Join(s, ",")` -/
def sprintV (render : Val → Option String) (ps : List Val) : Option String :=
  (sprintPieces render ps).map (joinWith ",")

/-! ## function signatures and reflect's call checks -/

structure Sig where
  /-- kinds of the non-variadic parameters; the receiver / `*IContext` is first when `isMethod` -/
  params : List Kind
  /-- element kind of the variadic parameter, if the function is variadic -/
  velem : Option Kind
  nOut : Nat
  /-- `CreateWhen(.., isMethod)`: matchers drop the first argument (matcher.go:117) -/
  isMethod : Bool
deriving Repr

def Sig.variadic (s : Sig) : Bool := s.velem.isSome

/-- The argument vectors a compiled call (and hence `reflect.MakeFunc`'s stub) can deliver for this signature:
    exactly the fixed parameters with their kinds, then exactly one packed slice of elements if variadic. -/
def accepts : List Kind → Option Kind → List Val → Bool
| [], none, [] => true
| [], some e, [.pack es] => es.all (fun a => a.kind == e)
| k :: ks, ve, (.atom a) :: vs => a.kind == k && accepts ks ve vs
| _, _, _ => false

def Sig.accepts (s : Sig) (args : List Val) : Bool := Debug.accepts s.params s.velem args

/-- assignability of an argument to a fixed parameter (`Value.assignTo`): same kind, or any value to `interface{}` -/
def fixedOk : List Kind → List Val → Bool
| [], [] => true
| k :: ks, v :: vs => (v.kind == k || k == .iface) && fixedOk ks vs
| _, _ => false

/-- an argument used as ONE element of the variadic tail by `Call`: a packed slice `[]E` is never assignable to `E` -/
def toElem (e : Kind) : Val → Option Atom
| .atom a => if a.kind == e || e == .iface then some a else none
| .pack _ => none

def toElems (e : Kind) : List Val → Option (List Atom)
| [] => some []
| v :: r =>
  match toElem e v, toElems e r with
  | some a, some as => some (a :: as)
  | _, _ => none

/-- `reflect.Value.Call(in)` (value.go `call`, `isSlice = false`): a variadic callee gets `in[n-1:]` packed into a
    NEW slice, every such element must be assignable to the element type. -/
def reflectCall {β : Type} (s : Sig) (f : List Val → β) (fail : String → β) (args : List Val) : β :=
  match s.velem with
  | none =>
    if args.length < s.params.length then fail "reflect-call-with-too-few"
    else if args.length > s.params.length then fail "reflect-call-with-too-many"
    else if fixedOk s.params args then f args else fail "reflect-call-using"
  | some e =>
    if args.length < s.params.length then fail "reflect-call-with-too-few"
    else if !fixedOk s.params (args.take s.params.length) then fail "reflect-call-using"
    else match toElems e (args.drop s.params.length) with
      | none => fail "reflect-cannot-use-as-type"
      | some es => f (args.take s.params.length ++ [.pack es])

/-- `reflect.Value.CallSlice(in)` (`isSlice = true`): the last argument IS the variadic slice. -/
def reflectCallSlice {β : Type} (s : Sig) (f : List Val → β) (fail : String → β) (args : List Val) : β :=
  match s.velem with
  | none => fail "reflect-callslice-of-non-variadic"
  | some _ =>
    if args.length < s.params.length + 1 then fail "reflect-callslice-with-too-few"
    else if args.length > s.params.length + 1 then fail "reflect-callslice-with-too-many"
    else if fixedOk s.params (args.take s.params.length) && (args.drop s.params.length).all (fun v => v.kind == .slice)
    then f args else fail "reflect-callslice-using"

/-! ## mocker state -/

inductive CbKind | sum | pan | nilp | echo | retn | org
deriving DecidableEq, Repr

/-- a user callback of the probe: `name` is what it records, `k` its constant -/
structure Cb where
  name : String
  kind : CbKind
  k : Int
deriving DecidableEq, Repr

/-- function values that can end up behind a patched entry / itab slot -/
inductive Fn
| user (cb : Cb)          -- the callback given to Apply
| whenFn                  -- `reflect.MakeFunc(when.funcTyp, m.callback)`   mocker.go:136 whens
| wrap (inner : Fn)       -- `reflect.MakeFunc(impType, func(params) ..)`   debug.go:41
deriving DecidableEq, Repr

/-- `iface.PFunc` values -/
inductive PF
| callback                -- `m.callback`                                   iface.go:127
| wrap (inner : PF)       -- `func(params) { results := originPFunc(params) .. }`  debug.go:26
deriving DecidableEq, Repr

inductive Inst
| fn (f : Fn)             -- patch target / `GenCallableMethod(ctx, apply, nil)`
| pf (p : PF)             -- `GenCallableMethod(ctx, apply, proxy)`: `reflect.MakeFunc(methodTyp, proxy)` make_interface.go:126
deriving DecidableEq, Repr

def Fn.erase : Fn → Fn
| .wrap f => f.erase
| f => f

def PF.erase : PF → PF
| .wrap p => p.erase
| p => p

def Inst.erase : Inst → Inst
| .fn f => .fn f.erase
| .pf p => .pf p.erase

inductive MCond
| always                        -- AlwaysMatcher        matcher.go:195
| empty                         -- EmptyMatch           matcher.go:63
| equals (pats : List String)   -- DefaultMatcher whose expressions are `arg.Equals(<token>)`
deriving DecidableEq, Repr

/-- BaseMatcher (matcher.go:12) -/
structure Matcher where
  cond : MCond
  results : List (List Val)
  cur : Nat
deriving DecidableEq, Repr

/-- When (when.go:26); matchers are heap objects shared between the three fields, hence ids into `WS.matchers` -/
structure When where
  isMethod : Bool
  mlist : List Nat
  dflt : Option Nat
  curMatch : Option Nat
deriving DecidableEq, Repr

/-- everything a call's outcome may depend on besides what is installed -/
structure WS where
  matchers : List Matcher := []
  when : Option When := none     -- baseMocker.when
  events : List String := []     -- what the callbacks / original recorded during the current call
  wrote : Bool := false          -- a callback stored into element 0 of the variadic slice it was handed during the current call
deriving DecidableEq, Repr

inductive MKind | patch | iface
deriving DecidableEq, Repr

structure St where
  console : Nat                  -- logger.ConsoleLevel  (logger.go:38)
  loglevel : Nat                 -- logger.LogLevel      (logger.go:36)
  ws : WS := {}
  inst : Option Inst := none     -- what the target's entry / the interface variable leads to; none = the original
  wraps : List Bool := []        -- per callback run: reached through the debug wrapper?
  log : List String := []        -- console lines "mocker [..] called, args [..], results [..]"
  dead : Bool := false           -- the process died (fmt never returned)
  traceLines : Nat := 0          -- LogLevel-gated diagnostics written while patching (logger.Trace/Debug; bytecode.PrintInst)
deriving Repr

def traceLevel := 6
def debugLevel := 5
def infoLevel := 4
def warningLevel := 3
def excludeFunc := "time.Now"     -- debug.go:14

/-- logger.go:101 IsDebugOpen -/
def St.isDebugOpen (s : St) : Bool := s.console ≥ debugLevel

inductive Cfg | off | debug | trace | env
deriving DecidableEq, Repr

/-- the four logging configurations a test process can start its scenarios in
    (logger.go:91 OpenDebug, :106 OpenTrace, :69 init with GOOM_DEBUG set) -/
def initSt : Cfg → St
| .off => { console := warningLevel, loglevel := infoLevel }
| .debug => { console := debugLevel, loglevel := infoLevel }
| .trace => { console := debugLevel, loglevel := traceLevel }
| .env => { console := debugLevel, loglevel := infoLevel }

structure Env where
  sig : Sig
  kind : MKind
  name : String                      -- mocker.String()
  render : Val → Option String       -- fmt.Sprintf("%v", ·)
  orig : List Val → List Val         -- the original function (argument list without receiver)
  /-- what the USER's String()/Error()/Format methods of a value record when fmt renders it (fmt runs user code): finding F27.
      A method that calls the mocked function again never returns: that is `render v = none`. -/
  renderEvents : Val → List String := fun _ => []

/-- functions goom's console logger calls while it formats and writes one line (logger.go:263 Consolefc → :293 layoutf:
    time.Now().Format, fmt.Sprintf, callerFn → :358 caller: runtime.Callers, CallersFrames, path.Base, strconv.Itoa (→ FormatInt);
    os.Stdout.Write).  Hand-collected from the source, direct callees only — `time.Now` is missing on purpose: debug.go:14 exempts it. -/
def loggerCallees : List String :=
  ["strconv.Itoa", "strconv.FormatInt", "fmt.Sprintf", "path.Base", "strings.Join", "runtime.Callers", "runtime.CallersFrames",
   "time.Time.Format", "os.(*File).Write", "strings.LastIndex"]

/-- the mocked function (by `mocker.String()`) is one the console logger itself calls: finding F14/F15 -/
def Env.loggerCalls (env : Env) : Bool := loggerCallees.contains env.name

inductive Out
| ret (vs : List Val)
| pan (cls : String)
| crash                              -- fmt did not return: fatal error, the process is gone
deriving DecidableEq, Repr

/-! ## calling -/

def shown (env : Env) (args : List Val) : List Val := if env.sig.isMethod then args.drop 1 else args

def nilPtr : Val := .atom { kind := .ptr, isNil := true, tok := "nil" }
def nilIface : Val := .atom { kind := .iface, isNil := true, tok := "nil" }
def intVal (z : Int) : Val := .atom { kind := .int, isNil := false, tok := toString z, n := z }

/-- the probe's callbacks (harness/c19/probe_test.go `callback`) -/
def lastNonemptyPack : List Val → Bool
| [] => false
| [.pack es] => !es.isEmpty
| [.atom _] => false
| _ :: r => lastNonemptyPack r

def runCb (env : Env) (cb : Cb) (args : List Val) (wrapped : Bool) (s : St) : Out × St :=
  let a := shown env args
  let s := { s with ws := { s.ws with events := s.ws.events ++ ["cb" ++ cb.name ++ "(" ++ toks a ++ ")"],
                                      -- the `sum` callbacks finish with `xs[0] += 1000` on their variadic parameter
                                      wrote := s.ws.wrote || (cb.kind == .sum && lastNonemptyPack a) },
                    wraps := s.wraps ++ [wrapped] }
  match cb.kind with
  | .sum => (.ret (if env.sig.nOut = 0 then [] else [intVal (cb.k + sumV a)]), s)
  | .pan => (.pan ("boom" ++ toString cb.k), s)
  | .nilp => (.pan "nilderef", s)
  | .echo => (.ret a, s)
  | .retn => (.ret [nilPtr, nilIface], s)
  | .org => (.ret [intVal (cb.k + sumV (env.orig a))], s)   -- calls the Origin placeholder (the relocated original) and adds k

/-- matcher.go:116 DefaultMatcher.Match.  For variadic functions every argument is expanded (`rv.Len()`,
    matcher.go:123): a non-slice argument makes `reflect` panic — the generators never build that case
    (it is C04's finding F6), the model only has to say *something* deterministic there. -/
def expandAll : List Val → Option (List Val)
| [] => some []
| .pack es :: r => (expandAll r).map (fun t => es.map Val.atom ++ t)
| .atom _ :: _ => none

def eqToks : List String → List Val → Bool
| [], [] => true
| p :: ps, v :: vs => p == v.tok && eqToks ps vs
| _, _ => false

def matchCond (sig : Sig) (isMethod : Bool) (c : MCond) (args : List Val) : Except String Bool :=
  match c with
  | .always => .ok true
  | .empty => .ok true
  | .equals pats =>
    let a := if isMethod then args.drop 1 else args
    if sig.variadic then
      match expandAll a with
      | none => .error "reflect-call-of-reflect.value.len"
      | some ex => .ok (eqToks pats ex)
    else .ok (eqToks pats a)

def setCur (ms : List Matcher) (id : Nat) (c : Nat) : List Matcher :=
  ms.mapIdx (fun i m => if i = id then { m with cur := c } else m)

/-- matcher.go:40 BaseMatcher.Result (single-threaded) -/
def matcherResult (ms : List Matcher) (id : Nat) : Out × List Matcher :=
  match ms[id]? with
  | none => (.pan "nilderef", ms)
  | some m =>
    if m.cond = .empty then (.ret [], ms)
    else if m.results.length ≤ 1 then
      match m.results[m.cur]? with
      | some r => (.ret r, ms)
      | none => (.pan "index-out-of-range", ms)
    else if m.cur ≥ m.results.length then
      match m.results[m.results.length - 1]? with
      | some r => (.ret r, ms)
      | none => (.pan "index-out-of-range", ms)
    else
      match m.results[m.cur]? with
      | some r => (.ret r, setCur ms id (m.cur + 1))
      | none => (.pan "index-out-of-range", ms)

/-- when.go:213 invoke + :236 returnDefaults -/
def whenInvoke (sig : Sig) (ms : List Matcher) (w : When) (args : List Val) : List Nat → Out × List Matcher
| [] =>
  match w.dflt with
  | none => if sig.nOut ≠ 0 then (.pan "nosuitable", ms) else (.pan "nilderef", ms)
  | some d => matcherResult ms d
| id :: rest =>
  match ms[id]? with
  | none => (.pan "nilderef", ms)
  | some m =>
    match matchCond sig w.isMethod m.cond args with
    | .error c => (.pan c, ms)
    | .ok true => matcherResult ms id
    | .ok false => whenInvoke sig ms w args rest

/-- mocker.go:142 baseMocker.callback.  (The `m.canceled` branch is unreachable from a call of the target:
    Cancel removes the patch / restores the interface variable first.) -/
def mockerCallback (env : Env) (args : List Val) (ws : WS) : Out × WS :=
  match ws.when with
  | none => (.pan "nosuitable", ws)
  | some w =>
    let (o, ms) := whenInvoke env.sig ws.matchers w args w.mlist
    (o, { ws with matchers := ms })

/-- logger.go:263 Consolefc -/
def consolefc (s : St) (level : Nat) (line : String) : St :=
  if level ≤ s.console then { s with log := s.log ++ [line] } else s

/-- events recorded by user String()/Error() methods while SprintV renders a vector -/
def userEvents (env : Env) : List Val → List String
| [] => []
| v :: r => (if guardedNil v then [] else env.renderEvents v) ++ userEvents env r

/-- the tail of both wrappers (debug.go:28-34 and :49-55): the `excludeFunc` test, then the log call whose
    arguments `arg.SprintV(params)`, `arg.SprintV(results)` are evaluated before the level is looked at. -/
def afterCall (env : Env) (args results : List Val) (s : St) : Out × St :=
  if env.name == excludeFunc then (.ret results, s)
  else
    match sprintV env.render args, sprintV env.render results with
    | some a, some r =>
      -- Consolefc formats the line only if the level is on (logger.go:264); formatting calls the patched function,
      -- i.e. this wrapper again, without bound: the process dies of stack overflow
      if env.loggerCalls && decide (debugLevel ≤ s.console) then (.crash, { s with dead := true })
      else
        -- fmt has run the user methods of every value it was handed (not of guarded nils), arguments first
        let s1 := { s with ws := { s.ws with events := s.ws.events ++ userEvents env args ++ userEvents env results } }
        (.ret results, consolefc s1 debugLevel ("mocker [" ++ env.name ++ "] called, args [" ++ a ++ "], results [" ++ r ++ "]"))
    | _, _ => (.crash, { s with dead := true })

def failOut (s : St) (cls : String) : Out × St := (.pan cls, s)

/-- calling a function value with the argument vector `reflect.MakeFunc`'s stub (or the compiled caller) delivers -/
def callFn (env : Env) : Fn → List Val → Bool → St → Out × St
| .user cb, args, w, s => runCb env cb args w s
| .whenFn, args, _, s =>
  let (o, ws) := mockerCallback env args s.ws
  (o, { s with ws := ws })
| .wrap inner, args, _, s =>
  -- debug.go:41-47: `if impType.IsVariadic() { CallSlice(params) } else { Call(params) }`
  let r := if env.sig.variadic
           then reflectCallSlice env.sig (fun a => callFn env inner a true s) (failOut s) args
           else reflectCall env.sig (fun a => callFn env inner a true s) (failOut s) args
  match r with
  | (.ret results, s1) => afterCall env args results s1
  | other => other        -- a panic of the callee propagates through the wrapper; nothing is logged

def callPF (env : Env) : PF → List Val → St → Out × St
| .callback, args, s =>
  let (o, ws) := mockerCallback env args s.ws
  (o, { s with ws := ws })
| .wrap inner, args, s =>
  match callPF env inner args s with   -- debug.go:27 `results := originPFunc(params)`
  | (.ret results, s1) => afterCall env args results s1
  | other => other

/-- the patched entry / the fake itab slot, or the untouched original -/
def callTarget (env : Env) (args : List Val) (s : St) : Out × St :=
  match s.inst with
  | none =>
    let a := shown env args
    (.ret (env.orig a), { s with ws := { s.ws with events := s.ws.events ++ ["orig(" ++ toks a ++ ")"] } })
  | some (.fn f) => callFn env f args false s
  | some (.pf p) => callPF env p args s

/-! ## configuring -/

/-- debug.go:18 interceptDebugInfo -/
def intercept (s : St) (imp : Option Fn) (pf : Option PF) : Option Fn × Option PF :=
  if !s.isDebugOpen then (imp, pf)
  else match pf with
    | some p => (imp, some (.wrap p))
    | none =>
      match imp with
      | some f => (some (.wrap f), pf)
      | none => (imp, pf)

/-- mocker.go:457 DefMocker.doApply / :245 MethodMocker.doApply (→ applyByFunc / applyByMethod), and
    iface.go:186 DefaultInterfaceMocker.applyByIFaceMethod (→ proxy.Interface → GenCallableMethod).
    `baseMocker.imp` is only ever read in `doApply(m.imp)` right after `whens` wrote it, so it is not state. -/
def install (env : Env) (s : St) (imp : Fn) (pf : Option PF) : St :=
  match env.kind with
  | .patch =>
    match intercept s (some imp) none with
    | (some f, _) => { s with inst := some (.fn f) }
    | (none, _) => s
  | .iface =>
    match intercept s (some imp) pf with
    | (some f, none) => { s with inst := some (.fn f) }     -- GenCallableMethod(ctx, apply, nil)
    | (some _, some p) => { s with inst := some (.pf p) }   -- proxy overrides apply (make_interface.go:124)
    | (none, _) => s

def numInNoRecv (sig : Sig) : Nat := sig.params.length - (if sig.isMethod then 1 else 0)

/-- arg.I2V(results, outTypes, false) as far as argument COUNT goes (arg/value.go:15) -/
def i2vOk (sig : Sig) (vals : List Val) : Bool := vals.length == sig.nOut

def addMatcher (ws : WS) (m : Matcher) : WS × Nat := ({ ws with matchers := ws.matchers ++ [m] }, ws.matchers.length)

/-- matcher.go:54 AddResult -/
def addResult (sig : Sig) (ws : WS) (id : Nat) (vals : List Val) : Except String WS :=
  if !i2vOk sig vals then .error "reterr"
  else .ok { ws with matchers := ws.matchers.mapIdx (fun i m => if i = id then { m with results := m.results ++ [vals] } else m) }

/-- matcher.go:96 newDefaultMatch → arg.ToExpr: the expression count must equal the (expanded) parameter count -/
def defaultMatchOk (sig : Sig) (pats : List String) : Bool :=
  if sig.variadic then pats.length ≥ numInNoRecv sig else pats.length == numInNoRecv sig

/-- when.go:149 When.Return -/
def whenReturn (sig : Sig) (ws : WS) (w : When) (vals : List Val) : Except String WS × WS :=
  match w.curMatch with
  | some c =>
    match addResult sig ws c vals with
    | .error e => (.error e, ws)
    | .ok ws1 => let ws2 := { ws1 with when := some { w with mlist := w.mlist ++ [c] } }; (.ok ws2, ws2)
  | none =>
    match w.dflt with
    | none =>
      if !i2vOk sig vals then (.error "reterr", ws)
      else
        let (ws1, id) := addMatcher ws { cond := .always, results := [vals], cur := 0 }
        let ws2 := { ws1 with when := some { w with dflt := some id } }
        (.ok ws2, ws2)
    | some d =>
      match addResult sig ws d vals with
      | .error e => (.error e, ws)
      | .ok ws1 => (.ok ws1, ws1)

/-- when.go:166 When.AndReturn -/
def whenAndReturn (sig : Sig) (ws : WS) (w : When) (vals : List Val) : Except String WS × WS :=
  match w.curMatch with
  | none => whenReturn sig ws w vals
  | some c =>
    match addResult sig ws c vals with
    | .error e => (.error e, ws)
    | .ok ws1 => (.ok ws1, ws1)

/-- when.go:196 When.Returns; the state reached before a panic is kept -/
def whenReturns (sig : Sig) : WS → Bool → List (List Val) → Option String × WS
| ws, _, [] => (none, ws)
| ws, first, v :: rest =>
  match ws.when with
  | none => (some "nilderef", ws)
  | some w =>
    match (if first then whenReturn sig ws w v else whenAndReturn sig ws w v) with
    | (.error e, ws1) => (some e, ws1)
    | (.ok _, ws1) => whenReturns sig ws1 false rest

/-- when.go:44 CreateWhen (+ :77 checkParams); `none` arguments = a nil slice -/
def createWhen (sig : Sig) (ws : WS) (pats : Option (List String)) (dflt : Option (List Val)) : Except String (WS × When) :=
  let numIn := sig.params.length + (if sig.variadic then 1 else 0)
  if (match dflt with | some r => decide (r.length < sig.nOut) | none => false) then .error "lenerr"
  else if (match pats with
           | some a => if sig.isMethod then decide (a.length + 1 < numIn) else decide (a.length < numIn)
           | none => false) then .error "lenerr"
  else
    let r1 : Except String (WS × Option Nat) :=
      match dflt with
      | some r => if !i2vOk sig r then .error "reterr"
                  else let (ws1, id) := addMatcher ws { cond := .always, results := [r], cur := 0 }; .ok (ws1, some id)
      | none => if sig.nOut = 0 then let (ws1, id) := addMatcher ws { cond := .empty, results := [], cur := 0 }; .ok (ws1, some id)
                else .ok (ws, none)
    match r1 with
    | .error e => .error e
    | .ok (ws1, cur) =>
      match pats with
      | none => .ok (ws1, { isMethod := sig.isMethod, mlist := [], dflt := cur, curMatch := cur })
      | some a =>
        if !defaultMatchOk sig a then .error "whenerr"
        else
          let (ws2, id) := addMatcher ws1 { cond := .equals a, results := [], cur := 0 }
          .ok (ws2, { isMethod := sig.isMethod, mlist := [], dflt := cur, curMatch := some id })

inductive DbgOp | on | off | tron | troff
deriving DecidableEq, Repr

inductive Op
| apply (cb : Cb)
| applyBad                        -- Apply(42): a callback that is not a function
| ret (vals : List Val)
| when (pats : List String) (vals : List Val)
| rets (seq : List (List Val))
| call (args : List Val)
| cancel
| dbg (d : DbgOp)
deriving Repr

/-- what a first Return/When/Returns installs (mocker.go:266/:292/:311, :485/:504/:523 `whens` + `doApply(m.imp)`;
    iface.go:127/:149/:178 `applyByIFaceMethod(.., m.funcDef, m.callback)`) -/
def whenReq (env : Env) : Fn × Option PF :=
  match env.kind with
  | .patch => (.whenFn, none)
  | .iface => (.user { name := "as", kind := .retn, k := 0 }, some .callback)

def tok (r : Option String) : String := match r with | none => "ok" | some c => "panic:" ++ c

def exTok (r : Except String WS) : String := match r with | .ok _ => "ok" | .error c => "panic:" ++ c

/-- Apply / Return / When(..).Return / Returns on the scenario's mocker: the new When/matcher state, the
    (re-)installation it asks for, and the transcript token.  Interface mockers assign `m.when` only after the
    apply (iface.go:128) — unobservable, because installing reads neither. -/
def cfgStep (env : Env) (ws : WS) : Op → WS × Option (Fn × Option PF) × String
  | .apply cb =>
    -- mocker.go:441 Apply → doApply; iface.go:87 Apply → applyByIFaceMethod(.., callback, nil)
    -- … then `m.when = nil` (mocker.go:246/:511, iface.go:94): Apply overrides earlier When/Return
    ({ ws with when := none }, some (.user cb, none), "ok")
  | .applyBad =>
    -- not wrapped (debug.go: only non-nil funcs are, fix F28); proxy.Func / proxy.Interface then reject it by reflect panic.
    -- Apply discards the When first only for functions/methods (mocker.go doApply after fix F7 clears m.when in Apply)
    (ws, none, "panic:reflect-nonfunc")
  | .ret vals =>
    match ws.when with
    | some w => let r := whenReturn env.sig ws w vals; (r.2, none, exTok r.1)
    | none =>
      match createWhen env.sig ws none (some vals) with
      | .error e => (ws, none, "panic:" ++ e)
      | .ok (ws1, w) => ({ ws1 with when := some w }, some (whenReq env), "ok")
  | .when pats vals =>
    let r : Except String (WS × Option (Fn × Option PF)) :=
      match ws.when with
      | some w =>
        -- when.go:123 When.When
        if !defaultMatchOk env.sig pats then .error "whenerr"
        else
          let (ws1, id) := addMatcher ws { cond := .equals pats, results := [], cur := 0 }
          .ok ({ ws1 with when := some { w with curMatch := some id } }, none)
      | none =>
        match createWhen env.sig ws (some pats) none with
        | .error e => .error e
        | .ok (ws1, w) => .ok ({ ws1 with when := some w }, some (whenReq env))
    match r with
    | .error e => (ws, none, "panic:" ++ e)
    | .ok (ws1, req) =>
      match ws1.when with
      | none => (ws1, req, "panic:nilderef")
      | some w => let r2 := whenReturn env.sig ws1 w vals; (r2.2, req, exTok r2.1)
  | .rets seq =>
    match ws.when with
    | some _ => let r := whenReturns env.sig ws true seq; (r.2, none, tok r.1)
    | none =>
      match createWhen env.sig ws none none with
      | .error e => (ws, none, "panic:" ++ e)
      | .ok (ws1, w) =>
        let r := whenReturns env.sig { ws1 with when := some w } true seq
        -- `when.Returns(values...)` validates on the local When BEFORE it is recorded: mocker.go:332/:588 (then `whens`,
        -- `doApply`), iface.go:175 (then apply, `m.when = when`).  A rejected first Returns leaves m.when nil.
        match r.1 with
        | some e => ({ r.2 with when := none }, none, "panic:" ++ e)
        | none => (r.2, some (whenReq env), "ok")
  | _ => (ws, none, "bad-op")

def outTok (s : St) (o : Out) (args : List Val) : String :=
  let ev := String.join s.ws.events
  match o with
  | .ret vs =>
    -- after a spread call `f(xs...)` the caller looks at its own xs[0]: did a callee's store reach it?
    ev ++ "->r:" ++ toks vs ++ (if lastNonemptyPack args then (if s.ws.wrote then "~a1" else "~a0") else "")
  | .pan c => ev ++ "->p:" ++ c
  | .crash => ev ++ "->CRASH"

/-- patching writes LogLevel-gated diagnostics (logger.Trace/Debug in internal/patch, bytecode.PrintInst) — only a count here -/
def bumpTrace (s : St) : St := if s.loglevel ≥ traceLevel then { s with traceLines := s.traceLines + 1 } else s

/-- perform the requested (re-)installation.  Every doApply / applyByIFaceMethod ends with
    `logger.Consolefc(DebugLevel, "mocker [%s] apply.", logger.Caller(..), ..)` (mocker.go:248, :467, iface.go:190), executed
    with the patch already in place: if the console level is on (then the installed function is wrapped) and the
    target is a function the logger calls, that log call enters the wrapper, whose own log call enters it again: F14. -/
def applyReq (env : Env) (s : St) : Option (Fn × Option PF) → St
  | none => s
  | some (imp, pf) =>
    let s := bumpTrace s
    if env.loggerCalls && s.isDebugOpen then { install env s imp pf with dead := true } else install env s imp pf

/-- one operation of a scenario; returns the new state and the transcript token of the operation -/
def step (env : Env) (s : St) (op : Op) : St × String :=
  match op with
  | .call args =>
    if !env.sig.accepts args then (s, "bad-op")     -- not a call Go's type checker lets through
    else
      let s0 := { s with ws := { s.ws with events := [], wrote := false } }
      let r := callTarget env args s0
      (r.2, outTok r.2 r.1 args)
  | .cancel =>
    -- builder.go:207 Reset → Cancel (mocker.go:156); the next use of the builder creates fresh mockers
    ({ s with ws := {}, inst := none }, "ok")
  | .dbg d =>
    match d with
    | .on => ({ s with console := debugLevel }, "ok")                               -- logger.go:91
    | .off => ({ s with console := warningLevel }, "ok")                            -- logger.go:96
    | .tron => ({ s with console := debugLevel, loglevel := traceLevel }, "ok")     -- logger.go:106
    | .troff => ({ s with console := warningLevel, loglevel := infoLevel }, "ok")   -- logger.go:113
  | op =>
    let r := cfgStep env s.ws op
    let s1 := applyReq env { s with ws := r.1 } r.2.1
    (s1, if s1.dead then "->CRASH" else r.2.2)

/-- a whole scenario; stops when the process is dead -/
def run (env : Env) : St → List Op → List String × St
| s, [] => ([], s)
| s, op :: ops =>
  if s.dead then ([], s)
  else
    let (s1, t) := step env s op
    let (ts, s2) := run env s1 ops
    (t :: ts, s2)

/-- the property's observable: the transcript -/
def obs (env : Env) (s : St) (ops : List Op) : List String := (run env s ops).1

/-! ## variable mocks (var.go, ue_var.go): Set / Apply / Cancel with the same debug line at the end -/

/-- defaultVarMocker (var.go:20): the variable itself, `originValue` (valid iff `mocked`), and the logger's console state -/
structure VarSt where
  cur : Val
  origin : Option Val := none
  console : Nat
  log : List String := []
deriving Repr

inductive VarOp
| set (v : Val)      -- Set(value)                      var.go:85 / ue_var.go:56
| apply (v : Val)    -- Apply(func() T { return v })    var.go:51: callbackValue, then the same doSet
| reset              -- builder Reset → Cancel          var.go:70
| read               -- the test reads the variable
| dbg (d : DbgOp)
deriving Repr

/-- var.go:90 doSet, followed by `logger.Consolefc(DebugLevel, "mocker [%s] apply.", ..)` -/
def varDoSet (s : VarSt) (v : Val) : VarSt :=
  { cur := v,
    origin := (match s.origin with | some o => some o | none => some s.cur),     -- only the value before the FIRST mock is saved
    console := s.console,
    log := if debugLevel ≤ s.console then s.log ++ ["mocker [var] apply."] else s.log }

def varStep (s : VarSt) : VarOp → VarSt × String
| .set v => (varDoSet s v, "ok")
| .apply v => (varDoSet s v, "ok")
| .reset => ({ s with cur := (match s.origin with | some o => o | none => s.cur), origin := none }, "ok")
| .read => (s, s.cur.tok)
| .dbg .on => ({ s with console := debugLevel }, "ok")
| .dbg .off => ({ s with console := warningLevel }, "ok")
| .dbg .tron => ({ s with console := debugLevel }, "ok")
| .dbg .troff => ({ s with console := warningLevel }, "ok")

def varRun : VarSt → List VarOp → List String × VarSt
| s, [] => ([], s)
| s, op :: ops =>
  let r := varStep s op
  let rest := varRun r.1 ops
  (r.2 :: rest.1, rest.2)

def varInit (cfg : Cfg) (v : Val) : VarSt := { cur := v, console := (initSt cfg).console }

end Debug
