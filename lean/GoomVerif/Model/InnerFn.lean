/-!
# Model/InnerFn — `bytecode.GetInnerFunc` (internal/bytecode/func_amd64.go:140) over a decoded instruction list

goom finds the shared shape body of a generic method as the target of a CALL in the instantiation wrapper.  The
decoder (C16) is not repeated here: the wrapper is given as the list of its instructions — only their lengths, which
of them is `CALL rel32`, `INT3`, or the function-prologue fingerprint of the *next* function matter to this loop.
Offsets are relative to the wrapper's entry.  (Calls into package `runtime` — skipped after repair F27 — cannot be
expressed in position-independent test code and are exercised by the generic corpus instead.)
-/
namespace InnerFn

inductive Ins
  | fill (len : Nat)       -- any other instruction
  | call (rel : Int)       -- E8 rel32 (5 bytes); rel is relative to the end of the instruction
  | int3                   -- CC: padding after the function body
  | prologue               -- the bytes `funcPrologue` (start of the next function)
  deriving DecidableEq, Repr

/-- the loop of `GetInnerFunc`: `cur` = offset of the instruction, `pad` = an INT3 was seen, `first` = first iteration
    (the prologue fingerprint is only tested after advancing) -/
def go : List Ins → Nat → Bool → Bool → Option Int
  | [], _, _, _ => none
  | .prologue :: _, _, _, _ => none          -- `bytes.Equal(funcPrologue, code[:prologueLen])` → `return 0, nil`
  | .int3 :: rest, cur, _, _ => go rest (cur + 1) true false
  | .fill n :: rest, cur, pad, _ => if pad then none else go rest (cur + n) pad false
  | .call rel :: rest, cur, pad, _ =>
    if pad then none
    else if rel ≥ 0 then some (cur + rel + 5)                   -- forward: `start + curLen + rel + inst.Len`
    else if (cur : Int) + rel < 0 then some (cur + rel + 5)     -- backward, in front of the wrapper: `start + curLen - (-rel) + inst.Len`
    else go rest (cur + 5) pad false                            -- backward inside the wrapper: not the inner function

/-- offset (relative to the wrapper entry) of the function goom patches instead of the wrapper; `none`: the wrapper itself -/
def inner (code : List Ins) : Option Int := go code 0 false true

def isFill : Ins → Bool
  | .fill _ => true
  | _ => false

def codeLen : List Ins → Nat
  | [] => 0
  | .fill n :: r => n + codeLen r
  | .call _ :: r => 5 + codeLen r
  | .int3 :: r => 1 + codeLen r
  | .prologue :: r => 10 + codeLen r

end InnerFn
