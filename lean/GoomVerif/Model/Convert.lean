/-!
# Model/Convert — goom's value conversion (`arg/value.go`) over a (type, value) universe

Self-contained, core Lean only.  Transcribed:

* `arg/value.go:15  I2V`      → `I2V`
* `arg/value.go:49  toValue`  → `toValue`   (the three kind lists tested in the source are parameters,
                                             see `KindLists`; today's lists are regenerated into Gen/C09Kinds.lean)
* `arg/value.go:76  cast`     → `cast`      (unsafe retyping = relabelling: type word replaced, data word and
                                             flag word — which holds the *kind* — kept)
* `arg/value.go:90  V2I`      → `V2I`
* `arg/value.go:156 isZero`   → `isZeroVal` / `isZeroRV`
* `matcher.go:21 newBaseMatcher`, `:55 AddResult`, `when.go:75 checkParams`, `mocker.go:142 callback`
  and `reflect.MakeFunc`'s result check → `configure`, `deliver`, `returnE2E`

What `reflect` does (ValueOf, Zero, Set, Interface, IsNil, assignability, the Go memory layout that gives
`Type.Size`) is written down here from the Go 1.23 sources and is *trusted environment*; it is tied to the
real thing by the correspondence run of checks/C09.py.
-/
namespace Convert

/-! ## Types -/

inductive Prim where
  | bool | int | int8 | int16 | int32 | int64 | uint | uint8 | uint16 | uint32 | uint64 | uintptr
  | float32 | float64 | complex64 | complex128 | string | unsafePointer
  deriving DecidableEq, Repr

/-- `reflect.Kind`, with the sized integer / float / complex kinds merged (the code under study never
    distinguishes them: `isZero` treats each group by one arm). -/
inductive Kind where
  | bool | int | uint | float | complex | str | arr | slice | map | ptr | strct | iface | func | chan | uptr
  deriving DecidableEq, Repr

mutual
/-- Go types as goom sees them through `reflect.Type`.  Trees: recursive types cannot be written. -/
inductive Ty where
  | prim (p : Prim)
  | arr (n : Nat) (e : Ty)
  | slice (e : Ty)
  | map (k v : Ty)
  | ptr (e : Ty)
  | chan (dir : Nat) (e : Ty)            -- dir: 1 recv, 2 send, 3 both (reflect.ChanDir)
  | func (sig : String)                  -- identity by signature text
  /-- an unnamed struct type; `vms`/`pms`: methods promoted from embedded fields into the method set of `T` / `*T` -/
  | strct (vms pms : List String) (fs : Tys)
  | iface (meths : List String)          -- method = "Name|signature"
  /-- a defined type: name, method set of `T`, method set of `*T`, underlying type -/
  | named (name : String) (vms pms : List String) (u : Ty)
  deriving DecidableEq, Repr
/-- struct fields in declaration order (name is part of the identity of an unnamed struct type) -/
inductive Tys where
  | nil
  | cons (fname : String) (t : Ty) (rest : Tys)
  deriving DecidableEq, Repr
end

def Prim.kind : Prim → Kind
  | .bool => .bool
  | .int | .int8 | .int16 | .int32 | .int64 => .int
  | .uint | .uint8 | .uint16 | .uint32 | .uint64 | .uintptr => .uint
  | .float32 | .float64 => .float
  | .complex64 | .complex128 => .complex
  | .string => .str
  | .unsafePointer => .uptr

/-- sizes on amd64 -/
def Prim.size : Prim → Nat
  | .bool | .int8 | .uint8 => 1
  | .int16 | .uint16 => 2
  | .int32 | .uint32 | .float32 => 4
  | .int | .int64 | .uint | .uint64 | .uintptr | .float64 | .complex64 | .unsafePointer => 8
  | .complex128 | .string => 16

def Prim.align : Prim → Nat
  | .bool | .int8 | .uint8 => 1
  | .int16 | .uint16 => 2
  | .int32 | .uint32 | .float32 | .complex64 => 4
  | _ => 8

def Ty.kind : Ty → Kind
  | .prim p => p.kind
  | .arr _ _ => .arr
  | .slice _ => .slice
  | .map _ _ => .map
  | .ptr _ => .ptr
  | .chan _ _ => .chan
  | .func _ => .func
  | .strct _ _ _ => .strct
  | .iface _ => .iface
  | .named _ _ _ u => u.kind

def roundUp (n a : Nat) : Nat := if a = 0 then n else (n + a - 1) / a * a

mutual
/-- `reflect.Type.Align` -/
def Ty.align : Ty → Nat
  | .prim p => p.align
  | .arr _ e => e.align
  | .strct _ _ fs => fs.maxAlign
  | .named _ _ _ u => u.align
  | _ => 8
def Tys.maxAlign : Tys → Nat
  | .nil => 1
  | .cons _ t r => Nat.max t.align r.maxAlign
end

mutual
/-- `reflect.Type.Size` (gc layout, amd64): fields at the next multiple of their alignment, one byte of
    padding after a trailing zero-size field of a non-empty struct, total rounded to the struct alignment -/
def Ty.size : Ty → Nat
  | .prim p => p.size
  | .arr n e => n * e.size
  | .slice _ => 24
  | .iface _ => 16
  | .strct _ _ fs =>
      let e := fs.endOff 0
      let e' := if e.2 && e.1 > 0 then e.1 + 1 else e.1
      roundUp e' fs.maxAlign
  | .named _ _ _ u => u.size
  | _ => 8
/-- (offset after the last field, last field has size 0) when laying the fields out from `off` -/
def Tys.endOff : Tys → Nat → Nat × Bool
  | .nil, off => (off, false)
  | .cons _ t .nil, off => (roundUp off t.align + t.size, t.size == 0)
  | .cons _ t r, off => r.endOff (roundUp off t.align + t.size)
end

def Ty.under : Ty → Ty
  | .named _ _ _ u => u
  | t => t

/-- `rtype.hasName` (predeclared types are named) -/
def Ty.hasName : Ty → Bool
  | .prim _ => true
  | .named _ _ _ _ => true
  | _ => false

/-- exported method set as reflection reports it -/
def Ty.methodSet : Ty → List String
  | .named _ v _ _ => v
  | .ptr (.named _ _ p _) => p
  | .strct v _ _ => v
  | .ptr (.strct _ p _) => p
  | .iface ms => ms
  | _ => []

def Ty.ifaceMeths (t : Ty) : List String :=
  match t.under with
  | .iface ms => ms
  | _ => []

/-- `reflect.implements(T, V)` for an interface-kinded `T` -/
def implements (T V : Ty) : Bool :=
  T.kind == .iface && T.ifaceMeths.all (fun m => V.methodSet.contains m)

/-- `reflect.directlyAssignable(T, V)` (type.go): identical, or same kind, not both named, and identical
    underlying type (or the bidirectional-channel special case) -/
def directlyAssignable (T V : Ty) : Bool :=
  if T = V then true
  else if (T.hasName && V.hasName) || T.kind != V.kind then false
  else
    (match T.under, V.under with
      | .chan _ te, .chan 3 ve => decide (te = ve)
      | _, _ => false)
    || decide (T.under = V.under)

/-- the single type the `IContext` arm of `toValue` tests for (`reflect.TypeOf(&iface.IContext{})`) -/
def isIContextPtr : Ty → Bool
  | .ptr (.named n _ _ _) => n == "iface.IContext"
  | _ => false

/-! ## Values -/

mutual
/-- payloads.  `ref id` is a non-nil pointer / map / chan / func / slice / unsafe.Pointer with identity `id`;
    `nilp` the nil one.  Aggregates (struct, array) are field lists. -/
inductive Val where
  | bool (b : Bool)
  | int (z : Int)
  | uint (n : Nat)
  | float (bits : Nat)                  -- IEEE bits after widening to float64 (what `v.Float()` gives)
  | complex (re im : Nat)
  | str (bytes : List Nat)
  | nilp
  | ref (id : Nat)
  | agg (fs : Vals)
  | ifaceNil
  | ifaceOf (t : Ty) (v : Val)          -- interface holding dynamic type `t`
  deriving DecidableEq, Repr
inductive Vals where
  | nil
  | cons (h : Val) (t : Vals)
  deriving DecidableEq, Repr
end

def Vals.repl : Nat → Val → Vals
  | 0, _ => .nil
  | n + 1, v => .cons v (Vals.repl n v)

def Prim.zero (p : Prim) : Val :=
  match p.kind with
  | .bool => .bool false
  | .int => .int 0
  | .uint => .uint 0
  | .float => .float 0
  | .complex => .complex 0 0
  | .str => .str []
  | _ => .nilp

mutual
/-- payload of `reflect.Zero(t)` -/
def zeroVal : Ty → Val
  | .prim p => p.zero
  | .arr n e => .agg (Vals.repl n (zeroVal e))
  | .strct _ _ fs => .agg (zeroVals fs)
  | .iface _ => .ifaceNil
  | .named _ _ _ u => zeroVal u
  | _ => .nilp
def zeroVals : Tys → Vals
  | .nil => .nil
  | .cons _ t r => .cons (zeroVal t) (zeroVals r)
end

mutual
/-- `arg/value.go:156 isZero`, dispatching on the shape of the payload (= `v.Kind()` for a value whose flag
    kind agrees with its payload, see `isZeroRV`):
    bool → `!v.Bool()`, ints → `== 0`, floats → `Float64bits == 0` (so −0.0 is *not* zero), complex likewise,
    array/struct → all elements/fields, chan/func/interface/map/ptr/slice/unsafe.Pointer → `IsNil`, string → `Len == 0`. -/
def isZeroVal : Val → Bool
  | .bool b => !b
  | .int z => z == 0
  | .uint n => n == 0
  | .float bits => bits == 0
  | .complex re im => re == 0 && im == 0
  | .str bs => bs.isEmpty
  | .nilp => true
  | .ref _ => false
  | .agg fs => isZeroVals fs
  | .ifaceNil => true
  | .ifaceOf _ _ => false
def isZeroVals : Vals → Bool
  | .nil => true
  | .cons h t => if isZeroVal h then isZeroVals t else false
end

/-- shape class of a payload, for comparing against the flag kind of a `reflect.Value` -/
def Val.kindOK : Val → Kind → Bool
  | .bool _, .bool => true
  | .int _, .int => true
  | .uint _, .uint => true
  | .float _, .float => true
  | .complex _ _, .complex => true
  | .str _, .str => true
  | .nilp, k => k == .slice || k == .map || k == .ptr || k == .func || k == .chan || k == .uptr
  | .ref _, k => k == .slice || k == .map || k == .ptr || k == .func || k == .chan || k == .uptr
  | .agg _, k => k == .arr || k == .strct
  | .ifaceNil, .iface => true
  | .ifaceOf _ _, .iface => true
  | _, _ => false

mutual
/-- `abi.Type.IfaceIndir() == false`: pointer-shaped types, stored directly in an interface word -/
def Ty.isDirect : Ty → Bool
  | .ptr _ | .map _ _ | .chan _ _ | .func _ => true
  | .prim p => p == .unsafePointer
  | .arr n e => n == 1 && e.isDirect
  | .strct _ _ fs => fs.isDirect1
  | .named _ _ _ u => u.isDirect
  | _ => false
def Tys.isDirect1 : Tys → Bool
  | .cons _ t .nil => t.isDirect
  | _ => false
end

/-- a `reflect.Value`: type word; kind bits and `flagIndir` bit of the flag word; payload -/
structure RV where
  ty : Ty
  fk : Kind
  indir : Bool
  val : Val
  deriving DecidableEq, Repr

/-- the flag word agrees with the type word (always, except after a cross-kind / cross-representation `cast`) -/
def RV.wellFlagged (v : RV) : Bool := v.fk == v.ty.kind && v.indir == !v.ty.isDirect

/-- what goom receives as `interface{}`: untyped nil, or a dynamic type (never interface-kinded) with payload -/
abbrev Boxed := Option (Ty × Val)

inductive Fail where
  | errSize            -- "the type of the args does not match" (returned error)
  | errArity           -- "the number of args does not match"   (returned error)
  | panicZeroValue     -- reflect: call of reflect.Value.Type on zero Value
  | panicAssign        -- reflect.Set: value of type X is not assignable to type Y
  | panicIContext      -- "goom not support Return() API when returns mocked interface type"
  | panicElem          -- reflect: Elem of invalid type (variadic with a non-slice last type)
  | panicNilCast       -- runtime error: nil pointer dereference — `cast` of a value whose data word is nil
  | unmodelled         -- reflect used on a Value whose flag kind disagrees with its type (after a cross-kind cast)
  deriving DecidableEq, Repr

abbrev Res (α : Type) := Except Fail α

/-- `reflect.Zero(reflect.SliceOf(out).Elem())` = `reflect.Zero(out)` -/
def zeroRV (out : Ty) : RV := ⟨out, out.kind, !out.isDirect, zeroVal out⟩

/-- the data word of a pointer-shaped (direct) value is nil -/
def Val.isNilWord : Val → Bool
  | .nilp => true
  | .agg (.cons v .nil) => v.isNilWord
  | _ => false

/-- `arg/value.go:76 cast`: `Typ` from the target, `Ptr` and `Flag` (kind bits included) from the original.
    When the target's type word is obtained as `reflect.NewAt(typ, originV.Ptr).Elem()` (`nilSafe = false`) and the
    original is pointer-shaped and nil, `NewAt(typ, nil).Elem()` is the zero Value, the copied type word is nil, and
    the next `v.Type().Kind()` (:62 / :69) dereferences it — a run-time panic at configuration time. -/
def cast (nilSafe : Bool) (v : RV) (typ : Ty) : Res RV :=
  if !nilSafe && !v.indir && v.val.isNilWord then .error .panicNilCast else .ok { v with ty := typ }

/-- `reflect.Kind` constant names as they appear in the source (`reflect.Ptr`, …) → model kinds.  Only the
    kinds that are one model kind each are accepted; the extractor of checks/C09.py rejects anything else. -/
def Kind.ofReflectName : String → Option Kind
  | "Bool" => some .bool | "String" => some .str | "Array" => some .arr | "Slice" => some .slice
  | "Map" => some .map | "Ptr" => some .ptr | "Pointer" => some .ptr | "Struct" => some .strct
  | "Interface" => some .iface | "Func" => some .func | "Chan" => some .chan | "UnsafePointer" => some .uptr
  | _ => none

/-- The three kind lists of `arg/value.go` are *parameters* of the model; `Gen/C09Kinds.lean` (regenerated from
    the source on every run) supplies the lists that are in the code today:
    `cast`  — :51  `out.Kind() == reflect.Struct || out.Kind() == reflect.Ptr`
    `nil`   — :59-60 the kinds for which an untyped nil becomes `reflect.Zero(out)`
    `v2i`   — :93  `types[i].Kind() == reflect.Interface || … == reflect.Ptr` -/
structure KindLists where
  cast : List Kind
  nil : List Kind
  v2i : List Kind
  /-- how `cast` (:76) obtains the target's type word: `false` = from `reflect.NewAt(typ, originV.Ptr).Elem()`
      (nil when the data word is nil), `true` = from a fresh `reflect.Zero(typ)` / `reflect.New(typ).Elem()` -/
  castNilSafe : Bool
  deriving DecidableEq, Repr

/-- `arg/value.go:49 toValue`, with the nil-kind list as a parameter -/
def toValue (K : KindLists) (r : Boxed) (out : Ty) : Res RV :=
  match r with
  | none =>
    -- :50 v is the zero Value; :51 skipped (r == nil)
    if K.nil.contains out.kind then .ok (zeroRV out)         -- :59-61
    else .error .panicZeroValue                            -- :62 v.Type() on the zero Value
  | some (t, x) =>
    let v0 : RV := ⟨t, t.kind, !t.isDirect, x⟩                          -- :50 reflect.ValueOf(r)
    -- :51-57
    let step1 : Res RV :=
      if t ≠ out ∧ K.cast.contains out.kind then
        if t.size ≠ out.size then .error .errSize          -- :52-54
        else cast K.castNilSafe v0 out                     -- :56
      else .ok v0
    match step1 with
    | .error e => .error e
    | .ok v =>
      -- :59 first arm needs r == nil
      if isIContextPtr v.ty then .error .panicIContext     -- :62-64 (v.Type().Kind()==Ptr is implied)
      else if out.kind = .iface then                       -- :65-68  ptr.Elem().Set(v)
        if implements out v.ty then .ok ⟨out, .iface, true, .ifaceOf v.ty v.val⟩
        else .error .panicAssign
      else if v.ty.size ≠ out.size then .error .errSize    -- :69-70
      else .ok v                                           -- :72

/-- `reflect.Type.Elem()` (arg/value.go:36): element type of slice/array/pointer/chan/map, a panic otherwise -/
def Ty.elem? (t : Ty) : Res Ty :=
  match t.under with
  | .slice e => .ok e
  | .arr _ e => .ok e
  | .ptr e => .ok e
  | .chan _ e => .ok e
  | .map _ e => .ok e
  | _ => .error .panicElem

/-- arg/value.go:30-38 — the type the i-th supplied value is converted at: `types[i]` before the last position,
    from then on the last type (its `Elem()` for a variadic function).  `none`: `types[len-1]` on an empty list
    (index out of range; cannot happen: non-variadic arity forces objs = [] then, and a variadic function has a parameter). -/
def I2V.typeAt (types : List Ty) (isVariadic : Bool) (i : Nat) : Option (Res Ty) :=
  if i + 1 < types.length then (types[i]?).map .ok
  else (types.getLast?).map (fun t => if isVariadic then t.elem? else .ok t)

/-- arg/value.go:39 — conversion of the i-th supplied value -/
def I2V.convAt (K : KindLists) (types : List Ty) (isVariadic : Bool) (i : Nat) (a : Boxed) : Res RV :=
  match I2V.typeAt types isVariadic i with
  | none => .error .errArity
  | some (.error e) => .error e
  | some (.ok typ) => toValue K a typ

/-- arg/value.go:29-43 — the loop: stop at the first failing position -/
def I2V.go (K : KindLists) (types : List Ty) (isVariadic : Bool) (i : Nat) : List Boxed → Res (List RV)
  | [] => .ok []
  | a :: rest =>
    match I2V.convAt K types isVariadic i a with
    | .error e => .error e
    | .ok v => match I2V.go K types isVariadic (i + 1) rest with
      | .error e => .error e
      | .ok vs => .ok (v :: vs)

/-- `arg/value.go:15 I2V` -/
def I2V (K : KindLists) (objs : List Boxed) (types : List Ty) (isVariadic : Bool) : Res (List RV) :=
  if (isVariadic && decide (objs.length < types.length - 1)) || (!isVariadic && decide (objs.length ≠ types.length)) then
    .error .errArity                                       -- :16-24
  else I2V.go K types isVariadic 0 objs

/-- `isZero` applied to a `reflect.Value`: defined when the flag kind agrees with the payload; after a
    cross-kind `cast` (e.g. a `uintptr` standing in for a pointer) reflect's accessors are applied to a
    mismatching type word, which is outside this model. -/
def isZeroRV (v : RV) : Res Bool :=
  if v.wellFlagged && v.val.kindOK v.fk then .ok (isZeroVal v.val) else .error .unmodelled

/-- `Value.Interface()`: an interface-kinded value yields its dynamic content, anything else is boxed with
    its own type -/
def RV.toBoxed (v : RV) : Boxed :=
  match v.val with
  | .ifaceNil => none
  | .ifaceOf t x => some (t, x)
  | x => some (v.ty, x)

/-- `arg/value.go:90 V2I`, one element -/
def v2i1 (K : KindLists) (a : RV) (t : Ty) : Res Boxed :=
  if !a.wellFlagged then .error .unmodelled      -- `Interface()`/`IsNil()` on a mis-flagged Value: outside the model
  else if K.v2i.contains t.kind then
    match isZeroRV a with
    | .error e => .error e
    | .ok true => .ok none
    | .ok false => .ok a.toBoxed
  else .ok a.toBoxed

def V2I (K : KindLists) : List RV → List Ty → Res (List Boxed)
  | [], _ => .ok []
  | _ :: _, [] => .error .errArity        -- types[i] out of range
  | a :: as, t :: ts =>
    match v2i1 K a t, V2I K as ts with
    | .ok b, .ok bs => .ok (b :: bs)
    | .error e, _ => .error e
    | _, .error e => .error e

/-! ## From `Return(...)` to the caller -/

inductive CallRes where
  | cfgPanic (f : Fail)                  -- configuration-time panic (the reject class)
  | cfgReturnsMismatch                   -- when.go:77 fewer values than results
  | callPanic                            -- reflect.MakeFunc: value of type X is not assignable to type Y
  | callUnmodelled                       -- a mis-flagged Value reaches reflect's result copy (outside the model)
  | got (vs : List RV)                   -- what the caller receives, one value per result, typed as declared
  deriving DecidableEq, Repr

/-- result check of `reflect.MakeFunc` (`callReflect` → `Value.assignTo`) for one result -/
def deliver1 (v : RV) (out : Ty) : Option RV :=
  if out.size = 0 then some (zeroRV out)               -- callReflect: `if typ.Size() == 0 { continue }`
  else if directlyAssignable out v.ty then some ⟨out, out.kind, v.indir, v.val⟩
  else if implements out v.ty then
    match v.val with
    | .ifaceNil => some ⟨out, .iface, true, .ifaceNil⟩
    | .ifaceOf t x => some ⟨out, .iface, true, .ifaceOf t x⟩
    | x => some ⟨out, .iface, true, .ifaceOf v.ty x⟩
  else none

def deliver : List RV → List Ty → Option (List RV)
  | [], [] => some []
  | v :: vs, t :: ts => do
    let a ← deliver1 v t
    let r ← deliver vs ts
    pure (a :: r)
  | _, _ => none

/-- `DefMocker.Return(values...)` on a fresh mocker for a function with result types `outs`, followed by one
    call: `when.go:75 checkParams`, `matcher.go:21 newBaseMatcher` (→ `I2V(results, outTypes, false)`,
    an error becomes a panic), then `mocker.go:142 callback` → `reflect.MakeFunc` result check. -/
def returnE2E (K : KindLists) (values : List Boxed) (outs : List Ty) : CallRes :=
  if values.length < outs.length then .cfgReturnsMismatch
  else match I2V K values outs false with
    | .error e => .cfgPanic e
    | .ok vs =>
      if vs.any (fun v => !v.wellFlagged) then .callUnmodelled
      else match deliver vs outs with
      | none => .callPanic
      | some rs => .got rs

/-! ## `When.Matches(arg.Pair{Args, Return})` and `Returns(v1, v2, …)` -/

/-- what the user writes as `Pair.Return`, or as one element of `Returns(...)`: a bare value (possibly the untyped
    nil), or a `[]interface{}` of values.  (A bare value whose dynamic type is `[]interface{}` is the second form.) -/
inductive PairRet where
  | one (b : Boxed)
  | list (bs : List Boxed)
  deriving DecidableEq, Repr

/-- `[]interface{}` -/
def isAnySlice (t : Ty) : Bool := decide (t = .slice (.iface []))

/-- A bare value is written `.one`; Go cannot tell a bare value whose dynamic type is `[]interface{}` from the list
    form (`v.Return.([]interface{})` succeeds), so such a value IS the list form: goom's documented flattening
    ("如果是多参可使用[]interface{}", mocker.go:554).  `.one` therefore never carries a `[]interface{}`. -/
def PairRet.WF : PairRet → Prop
  | .one (some (t, _)) => isAnySlice t = false
  | _ => True

/-- `when.go:181-184` (Matches) and `:200-203` (Returns):
    `results, ok := v.Return.([]interface{}); if !ok { results = []interface{}{v.Return} }` —
    a bare value, **nil included**, is a single result. -/
def PairRet.results : PairRet → List Boxed
  | .one b => [b]
  | .list bs => bs

/-- `Matches(Pair{Args: a, Return: r})` followed by a call whose arguments match `a`:
    `when.go:186 newDefaultMatch(args, results, …)` → `matcher.go:21 newBaseMatcher` → `I2V(results, outTypes, false)`
    (an error is a panic; there is no `checkParams` on this path), then the result check of `reflect.MakeFunc`. -/
def matchesE2E (K : KindLists) (r : PairRet) (outs : List Ty) : CallRes :=
  match I2V K r.results outs false with
  | .error e => .cfgPanic e
  | .ok vs =>
    if vs.any (fun v => !v.wellFlagged) then .callUnmodelled
    else match deliver vs outs with
      | none => .callPanic
      | some rs => .got rs

/-- `Returns(g₁, …, g_k)` on a fresh mocker (`mocker.go:555`, `when.go:194`): every group is converted at configuration
    time (`Return` → `newAlwaysMatch`, `AndReturn` → `AddResult`); the first failing group panics. -/
def seqConfigure (K : KindLists) (outs : List Ty) : List PairRet → Res (List (List RV))
  | [] => .ok []
  | g :: gs =>
    match I2V K g.results outs false with
    | .error e => .error e
    | .ok vs => match seqConfigure K outs gs with
      | .error e => .error e
      | .ok r => .ok (vs :: r)

/-- the i-th call (0-based) after `Returns(g₁ … g_k)`: results of group `min i (k-1)` (`matcher.go:40 Result`) -/
def seqCall (stored : List (List RV)) (outs : List Ty) (i : Nat) : CallRes :=
  match stored[min i (stored.length - 1)]? with
  | none => .callPanic
  | some vs =>
    if vs.any (fun v => !v.wellFlagged) then .callUnmodelled
    else match deliver vs outs with
      | none => .callPanic
      | some rs => .got rs

/-! ## `When(x₁ … x_k)` / `arg.In(…)`: the values an argument is compared against -/

/-- `matcher.go:93 newDefaultMatch` → `arg/value.go:116 ToExpr` → `arg/expr.go:40 EqualsExpr.Resolve`: every supplied
    value is converted by `toValue` at the declared type of ITS position (for a variadic function the tail positions
    have the element type, `matcher.go:95-100`); the first failing position is the configuration-time panic.  The stored
    values are what a call's arguments are compared against.  An `arg.In(v₁ … v_k)` on a one-parameter function resolves
    each `v_i` the same way (`arg/expr.go:69 InExpr.Resolve`), afresh for every function it is used on. -/
def whenConfigure (K : KindLists) : List (Boxed × Ty) → Res (List RV)
  | [] => .ok []
  | (b, t) :: rest =>
    match toValue K b t with
    | .error e => .error e
    | .ok v => match whenConfigure K rest with
      | .error e => .error e
      | .ok vs => .ok (v :: vs)

end Convert
