/-
  Mini ISA specification for the four x86-64 encodings goom emits (hand-written from the Intel SDM;
  cross-checked against the toolchain's reference decoder by the C15 harness).

    90                NOP
    48 BA imm64       REX.W MOV RDX, imm64
    FF 22             JMP qword ptr [RDX]
    E9 rel32          JMP rel32            (target = address of next instruction + sign-extended rel32)
    FF 25 00000000 q  JMP qword ptr [RIP+0] ; .quad q   (the pointer is read from the 8 bytes that follow the instruction,
                      i.e. from the sequence itself — `bs` is what memory holds at `m.rip`; not emitted by goom today,
                      it is the register-free absolute jump of the drafted repair F27-c15, see Findings/C15F5.lean)

  `exec bs m` runs the straight-line sequence `bs` placed at `m.rip`, up to and including its final jump.
  It returns `none` if the bytes are not such a sequence.  Only RIP and RDX can change: every other piece
  of machine state (registers, flags, stack, memory) is not even represented as mutable, which is the
  formal content of "no other register, no stack, no memory change".
-/
namespace X86

structure Mach where
  rip   : BitVec 64
  rdx   : BitVec 64
  mem64 : BitVec 64 → BitVec 64      -- read-only view of memory, 64-bit loads

/-- little-endian assembly of bytes into a natural number -/
def leNat : List (BitVec 8) → Nat
  | [] => 0
  | b :: bs => b.toNat + 256 * leNat bs

def exec : List (BitVec 8) → Mach → Option Mach
  | [], _ => none
  | op :: rest, m =>
    if op = 0x90#8 then exec rest { m with rip := m.rip + 1 }
    else if op = 0x48#8 then
      match rest with
      | o2 :: b0 :: b1 :: b2 :: b3 :: b4 :: b5 :: b6 :: b7 :: rest' =>
        if o2 = 0xBA#8 then
          exec rest' { m with rdx := BitVec.ofNat 64 (leNat [b0, b1, b2, b3, b4, b5, b6, b7]), rip := m.rip + 10 }
        else none
      | _ => none
    else if op = 0xFF#8 then
      match rest with
      | [modrm] => if modrm = 0x22#8 then some { m with rip := m.mem64 m.rdx } else none
      | [modrm, d0, d1, d2, d3, b0, b1, b2, b3, b4, b5, b6, b7] =>
        if modrm = 0x25#8 ∧ d0 = 0#8 ∧ d1 = 0#8 ∧ d2 = 0#8 ∧ d3 = 0#8 then
          some { m with rip := BitVec.ofNat 64 (leNat [b0, b1, b2, b3, b4, b5, b6, b7]) }
        else none
      | _ => none
    else if op = 0xE9#8 then
      match rest with
      | [d0, d1, d2, d3] =>
        some { m with rip := m.rip + 5 + BitVec.signExtend 64 (BitVec.ofNat 32 (leNat [d0, d1, d2, d3])) }
      | _ => none
    else none

/-- 32-bit variant used by monkey_386.go:  BA imm32 = MOV EDX, imm32 ; FF 22 = JMP dword ptr [EDX] -/
structure Mach32 where
  eip   : BitVec 32
  edx   : BitVec 32
  mem32 : BitVec 32 → BitVec 32

def exec32 : List (BitVec 8) → Mach32 → Option Mach32
  | [o, b0, b1, b2, b3, j0, j1], m =>
    if o = 0xBA#8 ∧ j0 = 0xFF#8 ∧ j1 = 0x22#8 then
      let dx := BitVec.ofNat 32 (leNat [b0, b1, b2, b3])
      some { m with edx := dx, eip := m.mem32 dx }
    else none
  | _, _ => none

end X86
