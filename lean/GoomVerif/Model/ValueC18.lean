/-! # Go values as `arg.equal` sees them through `reflect` (value universe of C18)

Trees, not graphs.  Every node carries the *name* of its Go type (`reflect.Type` identity is modelled as
equality of names; the probe's type registry gives distinct types distinct names), the constructor fixes the
`reflect.Kind` class.  Pointers, slices and maps carry an identity label (`0` = fresh object, never shared)
because `reflect.DeepEqual` short-cuts on identical pointers / map headers, and on slices of EQUAL LENGTH with the same
data pointer (the label of a slice names its data pointer: two sub-slices of one backing array that start at the same
element carry the same label and may differ in length).  Apart from that short-cut storage sharing is erased: on
acyclic values `reflect.DeepEqual` depends on it only where a NaN or a non-nil func sits below the shared object.  Maps are kept as
*canonical* association lists (keys strictly increasing; the driver rejects anything else), keys restricted to
bool/integer/string kinds, so that DeepEqual's lookup loop coincides with the pairwise comparison used here.

Facts about the Go runtime that are *data* of a value (supplied on the op line by the probe's `annotate` pass from
the real `fmt`/`strconv`, and re-verified by the probe in the evaluation pass):
* `flt.txt`   – `fmt.Sprintf("%v", f)` of the plain float32/float64;
* `str.pi`    – `strconv.ParseInt(s,10,64)` (base 16 if `s` starts with `0x`), `none` on error  (equals.go:109-113);
* `str.pf`    – bits of `strconv.ParseFloat(s,64)`, `none` on error                               (equals.go:73).
Integers print as their decimal `Int.repr` (trusted fact about `fmt`, exercised by the correspondence run). -/
namespace C18M

/-- `reflect.Kind` classes that `arg/equals.go` distinguishes. -/
inductive Kind
  | bool | int | uint | f32 | f64 | str | strct | arr | slice | map | ptr | iface | func
deriving DecidableEq, Repr

/-- A parameter type as `toValue` (arg/value.go:49) looks at it: identity, kind, `Size()`; for interface
    types the names of the dynamic types assignable to it (`["*"]` = every type, i.e. `interface{}`). -/
structure Ty where
  name : String
  kind : Kind
  size : Nat
  impls : List String := []
deriving DecidableEq

mutual
inductive Val
  | bool (ty : String) (b : Bool)
  | int (ty : String) (signed : Bool) (z : Int)
  | flt (ty : String) (w64 : Bool) (bits : Nat) (txt : String)
  | str (ty : String) (s : String) (pi : Option Int) (pf : Option Nat)
  | strct (ty : String) (fs : Vals)
  | arr (ty : String) (es : Vals)
  | nilslice (ty : String)
  | slice (ty : String) (id : Nat) (es : Vals)
  | nilmap (ty : String)
  | map (ty : String) (id : Nat) (ks vs : Vals)
  | nilptr (ty : String)
  | ptr (ty : String) (addr : Nat) (v : Val)
  | nilif (ty : String)
  | iface (ty : String) (v : Val)
  | nilfunc (ty : String)
  | func (ty : String) (code env : Nat)
inductive Vals
  | nil
  | cons (v : Val) (vs : Vals)
end

def Val.ty : Val → String
  | .bool t _ | .int t _ _ | .flt t _ _ _ | .str t _ _ _ | .strct t _ | .arr t _ | .nilslice t | .slice t _ _
  | .nilmap t | .map t _ _ _ | .nilptr t | .ptr t _ _ | .nilif t | .iface t _ | .nilfunc t | .func t _ _ => t

def Val.kind : Val → Kind
  | .bool .. => .bool
  | .int _ s _ => if s then .int else .uint
  | .flt _ w _ _ => if w then .f64 else .f32
  | .str .. => .str
  | .strct .. => .strct
  | .arr .. => .arr
  | .nilslice .. | .slice .. => .slice
  | .nilmap .. | .map .. => .map
  | .nilptr .. | .ptr .. => .ptr
  | .nilif .. | .iface .. => .iface
  | .nilfunc .. | .func .. => .func

def Vals.len : Vals → Nat
  | .nil => 0
  | .cons _ r => r.len + 1

def Vals.toList : Vals → List Val
  | .nil => []
  | .cons v r => v :: r.toList

def Vals.ofList : List Val → Vals
  | [] => .nil
  | v :: r => .cons v (Vals.ofList r)

/-! ## IEEE-754 facts read off the bit pattern -/

/-- NaN: exponent all ones, mantissa non-zero. -/
def isNaN (w64 : Bool) (bits : Nat) : Bool :=
  if w64 then (bits / 2^52) % 2^11 == 2^11 - 1 && bits % 2^52 != 0
  else (bits / 2^23) % 2^8 == 2^8 - 1 && bits % 2^23 != 0

/-- `+0` or `-0`. -/
def isZeroF (w64 : Bool) (bits : Nat) : Bool :=
  if w64 then bits % 2^63 == 0 else bits % 2^31 == 0

/-- Go `==` on two floats of the same width. -/
def fltEq (w64 : Bool) (a b : Nat) : Bool :=
  !isNaN w64 a && !isNaN w64 b && (a == b || (isZeroF w64 a && isZeroF w64 b))

/-! ## `reflect.DeepEqual` (deepValueEqual) on trees -/
mutual
/-- `reflect.deepValueEqual`: type identity first, then by kind.  Func: equal only if both nil. -/
def deepEq : Val → Val → Bool
  | .bool t1 a, .bool t2 b => t1 == t2 && a == b
  | .int t1 s a, .int t2 s' b => t1 == t2 && s == s' && a == b
  | .flt t1 w a _, .flt t2 w' b _ => t1 == t2 && w == w' && fltEq w a b
  | .str t1 a _ _, .str t2 b _ _ => t1 == t2 && a == b
  | .strct t1 f, .strct t2 g => t1 == t2 && deepEqs f g
  | .arr t1 f, .arr t2 g => t1 == t2 && deepEqs f g
  | .nilslice t1, .nilslice t2 => t1 == t2
  | .slice t1 i f, .slice t2 j g => t1 == t2 && ((i != 0 && i == j && f.len == g.len) || deepEqs f g)
  | .nilmap t1, .nilmap t2 => t1 == t2
  | .map t1 i k1 v1, .map t2 j k2 v2 => t1 == t2 && ((i != 0 && i == j) || (deepEqs k1 k2 && deepEqs v1 v2))
  | .nilptr t1, .nilptr t2 => t1 == t2
  | .ptr t1 a v, .ptr t2 b w => t1 == t2 && ((a != 0 && a == b) || deepEq v w)
  | .nilif t1, .nilif t2 => t1 == t2
  | .iface t1 v, .iface t2 w => t1 == t2 && deepEq v w
  | .nilfunc t1, .nilfunc t2 => t1 == t2
  | _, _ => false
def deepEqs : Vals → Vals → Bool
  | .nil, .nil => true
  | .cons a r, .cons b s => deepEq a b && deepEqs r s
  | _, _ => false
end

/-- `v.Interface()` followed by the `interface{}` parameter of `reflect.DeepEqual`: a Kind-Interface value yields its
    dynamic value (a nil interface yields the nil `interface{}` = `none`). -/
def toIface : Val → Option Val
  | .nilif _ => none
  | .iface _ v => some v
  | v => some v

/-- `reflect.DeepEqual(x, y interface{})`. -/
def deepEqual (x y : Option Val) : Bool :=
  match x, y with
  | none, none => true
  | some a, some b => deepEq a b
  | _, _ => false

end C18M
